(* C13 lemmas about Model/ApplycalSol.v: from the SOLUTIONS to the corrections; which products are applied *)
From Coq Require Import ZArith QArith Qabs Qround Qcanon List Bool String Arith Lia Lqa Permutation.
From KV Require Import Base.Sx Gen.Generated Model.Applycal Proofs.ApplycalP Model.ApplycalSol.
Import ListNotations.

(* ------------------------------------------------------------------ the regenerated decisions *)
Lemma solinv_is_reciprocal : forall z, solinv z = Cinv z.
Proof. reflexivity. Qed.

Lemma missing_action_is_skip : missing_action = SkipProduct.
Proof. reflexivity. Qed.

Lemma bandpass_edges_are_invalid : applycal_bandpass_edges_invalid = true.
Proof. reflexivity. Qed.

(* ------------------------------------------------------------------ reciprocal: NaN exactly for NaN and zero *)
Local Open Scope Qc_scope.

Lemma Cinv_zero : Cinv Czero = CNaN.
Proof. reflexivity. Qed.

Lemma Cinv_nan_iff : forall z, Cinv z = CNaN <-> z = CNaN \/ exists a b, z = CFin a b /\ norm2 a b = 0.
Proof.
  intros [|a b]; cbn.
  - split; auto.
  - destruct (Qc_eq_dec (norm2 a b) 0) as [E | N]; split; intros H; auto.
    + right. exists a, b. auto.
    + discriminate.
    + destruct H as [H | [a' [b' [H1 H2]]]]; [discriminate |]. inversion H1; subst. contradiction.
Qed.

Lemma Cinv_fin_nz : forall z, fin_nz z -> Cinv z <> CNaN.
Proof.
  intros z [a [b [-> H]]] E. apply Cinv_nan_iff in E. destruct E as [E | [a' [b' [E1 E2]]]]; [discriminate |].
  inversion E1; subst. contradiction.
Qed.

Lemma Cinv_fin_nz_fin_nz : forall z, fin_nz z -> fin_nz (Cinv z).
Proof.
  intros z [a [b [-> H]]]. unfold Cinv. destruct (Qc_eq_dec (norm2 a b) 0) as [E | _]; [contradiction |].
  exists (a / norm2 a b), (- b / norm2 a b). split; auto.
  unfold norm2 in *. intros E.
  assert (X : (a / (a * a + b * b)) * (a / (a * a + b * b)) + (- b / (a * a + b * b)) * (- b / (a * a + b * b))
              = 1 / (a * a + b * b)) by (field; exact H).
  rewrite X in E. apply H.
  assert (Y : (a * a + b * b) * (1 / (a * a + b * b)) = 1) by (field; exact H).
  rewrite E in Y. rewrite Qcmult_0_r in Y. discriminate.
Qed.

Local Close Scope Qc_scope.
Local Open Scope Q_scope.

(* ------------------------------------------------------------------ complex_interp: its exact part *)
Lemma C_eqb_eq : forall x y, C_eqb x y = true <-> x = y.
Proof.
  intros [|a b] [|c d]; cbn; split; intros H; try discriminate; auto.
  - apply andb_true_iff in H. destruct H as [H1 H2].
    apply Qc_eq_bool_correct in H1. apply Qc_eq_bool_correct in H2. subst. reflexivity.
  - inversion H; subst. unfold Qc_eq_bool.
    destruct (Qc_eq_dec c c); [| congruence]. destruct (Qc_eq_dec d d); [| congruence]. reflexivity.
Qed.

(* strictly increasing abscissae above lo *)
Fixpoint incr (lo : Q) (ns : list node) : Prop :=
  match ns with [] => True | n :: r => lo < fst n /\ incr (fst n) r end.

Lemma incr_lt : forall ns lo n, incr lo ns -> In n ns -> lo < fst n.
Proof.
  induction ns as [| m r IH]; intros lo n H Hin; [contradiction |].
  destruct H as [H1 H2]. destruct Hin as [-> | Hin]; auto.
  eapply Qlt_trans; [exact H1 |]. eapply IH; eauto.
Qed.

Lemma interp_from_head : forall ns p right, incr (fst p) ns -> interp_from p ns right (fst p) = Exact (snd p).
Proof.
  intros [| n r] p right H; cbn.
  - destruct right; auto. destruct (Qlt_le_dec (fst p) (fst p)) as [L | _]; auto.
    exfalso. apply (Qlt_irrefl _ L).
  - destruct H as [H _]. destruct (Qlt_le_dec (fst p) (fst n)) as [_ | L].
    + unfold between. rewrite (proj2 (Qeq_bool_iff _ _) (Qeq_refl _)). reflexivity.
    + exfalso. apply (Qlt_irrefl (fst p)). eapply Qlt_le_trans; eauto.
Qed.

(* exact at every node: np.interp returns fp[j] at xp[j] *)
Lemma interp_from_at_node : forall ns p right n,
  incr (fst p) ns -> In n ns -> interp_from p ns right (fst n) = Exact (snd n).
Proof.
  induction ns as [| m r IH]; intros p right n H Hin; [contradiction |].
  destruct H as [H1 H2]. cbn [interp_from].
  destruct Hin as [-> | Hin].
  - destruct (Qlt_le_dec (fst n) (fst n)) as [L | _]; [exfalso; apply (Qlt_irrefl _ L) |].
    apply interp_from_head; auto.
  - pose proof (incr_lt _ _ _ H2 Hin) as L.
    destruct (Qlt_le_dec (fst n) (fst m)) as [L' | _].
    + exfalso. apply (Qlt_irrefl (fst n)). eapply Qlt_trans; eauto.
    + apply IH; auto.
Qed.

Lemma cinterp_at_node : forall ns left right n lo,
  incr lo ns -> In n ns -> cinterp left right ns (fst n) = Exact (snd n).
Proof.
  intros [| p r] left right n lo H Hin; [contradiction |].
  destruct H as [H1 H2]. cbn [cinterp].
  destruct Hin as [-> | Hin].
  - destruct (Qlt_le_dec (fst n) (fst n)) as [L | _]; [exfalso; apply (Qlt_irrefl _ L) |].
    apply interp_from_head; auto.
  - pose proof (incr_lt _ _ _ H2 Hin) as L.
    destruct (Qlt_le_dec (fst n) (fst p)) as [L' | _].
    + exfalso. apply (Qlt_irrefl (fst n)). eapply Qlt_trans; eauto.
    + apply interp_from_at_node; auto.
Qed.

(* beyond the ends: the edge value, or the end node's value when the edge is None *)
Lemma cinterp_left_of_all : forall p r left right x,
  x < fst p -> cinterp left right (p :: r) x = Exact (match left with Some l => l | None => snd p end).
Proof.
  intros. cbn. destruct (Qlt_le_dec x (fst p)) as [_ | L]; auto.
  exfalso. apply (Qlt_irrefl x). eapply Qlt_le_trans; eauto.
Qed.

Lemma interp_from_right_of_all : forall ns p r x,
  fst p < x -> (forall n, In n ns -> fst n < x) -> interp_from p ns (Some r) x = Exact r.
Proof.
  induction ns as [| m t IH]; intros p r x Hp H; cbn [interp_from].
  - destruct (Qlt_le_dec (fst p) x) as [_ | L]; auto.
    exfalso. apply (Qlt_irrefl x). eapply Qle_lt_trans; eauto.
  - destruct (Qlt_le_dec x (fst m)) as [L | _].
    + exfalso. apply (Qlt_irrefl x). eapply Qlt_trans; [exact L |]. apply H. left; auto.
    + apply IH; [apply H; left; auto | intros; apply H; right; auto].
Qed.

Lemma cinterp_right_of_all : forall ns left r x,
  ns <> [] -> (forall n, In n ns -> fst n < x) -> cinterp left (Some r) ns x = Exact r.
Proof.
  intros [| p t] left r x Hne H; [congruence |]. cbn [cinterp].
  destruct (Qlt_le_dec x (fst p)) as [L | _].
  - exfalso. apply (Qlt_irrefl x). eapply Qlt_trans; [exact L |]. apply H. left; auto.
  - apply interp_from_right_of_all; [apply H; left; auto | intros; apply H; right; auto].
Qed.

(* every value complex_interp can return with hold-type edges: a node's value, or a mix of two DIFFERENT node
   values at a fraction strictly inside (0, 1) *)
Inductive from_nodes (vals : list C) : ival -> Prop :=
  | FN_exact : forall v, In v vals -> from_nodes vals (Exact v)
  | FN_between : forall v1 v2 lam, In v1 vals -> In v2 vals -> v1 <> v2 -> 0 < lam -> lam < 1 ->
                                   from_nodes vals (Between v1 v2 lam).

Lemma between_from_nodes : forall p n x vals,
  In (snd p) vals -> In (snd n) vals -> fst p <= x -> x < fst n -> from_nodes vals (between p n x).
Proof.
  intros p n x vals Hp Hn L1 L2. unfold between.
  destruct (Qeq_bool x (fst p)) eqn:E; [constructor; auto |].
  destruct (C_eqb (snd p) (snd n)) eqn:E2; [constructor; auto |].
  assert (NE : ~ x == fst p) by (intro Q; apply Qeq_bool_iff in Q; congruence).
  assert (Lp : fst p < x).
  { destruct (Qlt_le_dec (fst p) x) as [L | L]; auto. exfalso. apply NE. apply Qle_antisym; auto. }
  assert (D : 0 < fst n - fst p) by lra.
  apply FN_between; auto.
  - intro Q. apply C_eqb_eq in Q. congruence.
  - apply Qlt_shift_div_l; auto. lra.
  - apply Qlt_shift_div_r; auto. lra.
Qed.

Lemma interp_from_hold_from_nodes : forall ns p x vals,
  In (snd p) vals -> (forall n, In n ns -> In (snd n) vals) -> fst p <= x ->
  from_nodes vals (interp_from p ns None x).
Proof.
  induction ns as [| m t IH]; intros p x vals Hp H L; cbn [interp_from].
  - constructor; auto.
  - destruct (Qlt_le_dec x (fst m)) as [L' | L'].
    + apply between_from_nodes; auto. apply H; left; auto.
    + apply IH; auto; [apply H; left; auto | intros; apply H; right; auto].
Qed.

Lemma cinterp_hold_from_nodes : forall ns x,
  ns <> [] -> from_nodes (map snd ns) (cinterp None None ns x).
Proof.
  intros [| p t] x Hne; [congruence |]. cbn [cinterp].
  destruct (Qlt_le_dec x (fst p)) as [L | L].
  - constructor. left; auto.
  - apply interp_from_hold_from_nodes; auto.
    + left; auto.
    + intros n Hn. right. apply in_map; auto.
Qed.

(* equal values everywhere: that value at every x *)
Lemma interp_from_const : forall ns p v x,
  snd p = v -> (forall n, In n ns -> snd n = v) -> interp_from p ns None x = Exact v.
Proof.
  induction ns as [| m t IH]; intros p v x Hp H; cbn [interp_from].
  - congruence.
  - destruct (Qlt_le_dec x (fst m)).
    + unfold between. destruct (Qeq_bool x (fst p)); [congruence |].
      assert (E : C_eqb (snd p) (snd m) = true) by (apply C_eqb_eq; rewrite Hp; symmetry; apply H; left; auto).
      rewrite E. congruence.
    + apply IH; [apply H; left; auto | intros; apply H; right; auto].
Qed.

Lemma cinterp_const : forall ns v x,
  ns <> [] -> (forall n, In n ns -> snd n = v) -> cinterp None None ns x = Exact v.
Proof.
  intros [| p t] v x Hne H; [congruence |]. cbn [cinterp].
  destruct (Qlt_le_dec x (fst p)).
  - f_equal. apply H; left; auto.
  - apply interp_from_const; [apply H; left; auto | intros; apply H; right; auto].
Qed.

(* ------------------------------------------------------------------ valid nodes *)
Lemma valid_nodes_in : forall evs x v,
  In (x, v) (valid_nodes evs) <-> exists a b, v = CFin a b /\ In (x, SFin a b) evs.
Proof.
  induction evs as [| e r IH]; intros x v; cbn [valid_nodes flat_map].
  - split; [contradiction | intros [a [b [_ []]]]].
  - fold (valid_nodes r). rewrite in_app_iff, IH. destruct e as [ex es]. unfold valid_node; cbn [fst snd].
    split.
    + intros [H | [a [b [H1 H2]]]].
      * destruct es; try contradiction. destruct H as [H | []]. inversion H; subst. exists re, im. split; auto.
        left; auto.
      * exists a, b. split; auto. right; auto.
    + intros [a [b [H1 [H2 | H2]]]].
      * inversion H2; subst. left. left. reflexivity.
      * right. exists a, b. auto.
Qed.

Lemma valid_nodes_nil : forall evs,
  valid_nodes evs = [] <-> forall e, In e evs -> sol_finite (snd e) = false.
Proof.
  induction evs as [| e r IH]; cbn [valid_nodes flat_map].
  - split; auto. intros _ e [].
  - fold (valid_nodes r). split.
    + intros H. apply app_eq_nil in H. destruct H as [H1 H2]. intros e' [-> | Hin].
      * destruct e' as [x [| | a b]]; auto. discriminate.
      * apply IH; auto.
    + intros H. assert (H1 : valid_node e = []).
      { pose proof (H e (or_introl eq_refl)). destruct e as [x [| | a b]]; auto. discriminate. }
      rewrite H1. apply IH. intros; apply H; right; auto.
Qed.

(* strictly increasing events *)
Fixpoint incr_evs {A} (lo : Q) (evs : list (Q * A)) : Prop :=
  match evs with [] => True | e :: r => lo < fst e /\ incr_evs (fst e) r end.

Lemma incr_evs_weaken : forall {A} (evs : list (Q * A)) lo lo', lo' <= lo -> incr_evs lo evs -> incr_evs lo' evs.
Proof. intros A [| e r] lo lo' L H; cbn in *; auto. destruct H; split; auto. eapply Qle_lt_trans; eauto. Qed.

Lemma valid_nodes_incr : forall evs lo, incr_evs lo evs -> incr lo (valid_nodes evs).
Proof.
  induction evs as [| e r IH]; intros lo H; cbn [valid_nodes flat_map]; [exact Logic.I |].
  fold (valid_nodes r). destruct H as [H1 H2]. destruct e as [x [| | a b]]; unfold valid_node; cbn [fst snd app] in *.
  - apply IH. eapply incr_evs_weaken; [| exact H2]. apply Qlt_le_weak; auto.
  - apply IH. eapply incr_evs_weaken; [| exact H2]. apply Qlt_le_weak; auto.
  - split; auto.
Qed.

(* ------------------------------------------------------------------ gains (time-interpolated) *)
Section Gain.
  Variable mix : C -> C -> Q -> C.
  Variable cis : Q -> C.
  (* the one fact about the interpolation strictly between two different finite values, not both zero is implied:
     the result is a number and not zero (the magnitude is a proper convex combination of two magnitudes that are
     not both zero) *)
  Definition mix_ok : Prop := forall v1 v2 lam,
    v1 <> CNaN -> v2 <> CNaN -> v1 <> v2 -> 0 < lam -> lam < 1 -> fin_nz (mix v1 v2 lam).

  Notation gain := (gain_corr_at mix cis).

  (* no finite solution at all (missing product values, NaN, inf): INVALID at every dump *)
  Lemma gain_no_valid : forall evs d,
    (forall e, In e evs -> sol_finite (snd e) = false) -> gain evs d = CNaN.
  Proof.
    intros evs d H. apply valid_nodes_nil in H. unfold gain_corr_at, gain_ival. rewrite H. reflexivity.
  Qed.

  (* all finite solutions carry the same value v: the correction is reciprocal(v) at every dump *)
  Lemma gain_constant : forall evs d a b,
    (exists x, In (x, SFin a b) evs) ->
    (forall e, In e evs -> sol_finite (snd e) = true -> snd e = SFin a b) ->
    gain evs d = Cinv (CFin a b).
  Proof.
    intros evs d a b [x Hx] H. unfold gain_corr_at, gain_ival.
    assert (Hin : In (x, CFin a b) (valid_nodes evs)) by (apply valid_nodes_in; exists a, b; auto).
    destruct (valid_nodes evs) as [| n ns] eqn:E; [contradiction |].
    rewrite (cinterp_const (n :: ns) (CFin a b)); [reflexivity | discriminate |].
    intros [nx nv] Hn. rewrite <- E in Hn. apply valid_nodes_in in Hn. destruct Hn as [a' [b' [-> Hn]]].
    pose proof (H _ Hn eq_refl) as Q. cbn in Q. inversion Q; subst. reflexivity.
  Qed.

  (* a dead input: every finite solution is exactly zero -> INVALID at every dump *)
  Lemma gain_dead_input : forall evs d,
    (forall e, In e evs -> sol_finite (snd e) = true -> snd e = SFin 0 0) -> gain evs d = CNaN.
  Proof.
    intros evs d H.
    destruct (valid_nodes evs) as [| n ns] eqn:E.
    - apply gain_no_valid. apply valid_nodes_nil. exact E.
    - destruct n as [x v]. assert (Hin : In (x, v) (valid_nodes evs)) by (rewrite E; left; auto).
      apply valid_nodes_in in Hin. destruct Hin as [a [b [-> Hin]]].
      pose proof (H _ Hin eq_refl) as Q. cbn in Q. inversion Q; subst.
      rewrite (gain_constant evs d 0%Qc 0%Qc); [reflexivity | exists x; auto | auto].
  Qed.

  (* a zero solution AT dump d: INVALID at d, whatever the other solutions are *)
  Lemma gain_zero_at_dump : forall evs lo d,
    incr_evs lo evs -> In (d, SFin 0 0) evs -> gain evs d = CNaN.
  Proof.
    intros evs lo d Hs Hin. unfold gain_corr_at, gain_ival.
    assert (Hn : In (d, Czero) (valid_nodes evs)) by (apply valid_nodes_in; exists 0%Qc, 0%Qc; auto).
    destruct (valid_nodes evs) as [| n ns] eqn:E; [contradiction |].
    rewrite <- E in *. pose proof (cinterp_at_node (valid_nodes evs) None None (d, Czero) lo) as X.
    cbn [fst snd] in X. rewrite E in *. rewrite X; auto. rewrite <- E. apply valid_nodes_incr; auto.
  Qed.

  (* a valid non-zero solution AT dump d is inverted exactly *)
  Lemma gain_at_solution : forall evs lo d a b,
    incr_evs lo evs -> In (d, SFin a b) evs -> gain evs d = Cinv (CFin a b).
  Proof.
    intros evs lo d a b Hs Hin. unfold gain_corr_at, gain_ival.
    assert (Hn : In (d, CFin a b) (valid_nodes evs)) by (apply valid_nodes_in; exists a, b; auto).
    destruct (valid_nodes evs) as [| n ns] eqn:E; [contradiction |].
    rewrite <- E in *. pose proof (cinterp_at_node (valid_nodes evs) None None (d, CFin a b) lo) as X.
    cbn [fst snd] in X. rewrite E in *. rewrite X; auto. rewrite <- E. apply valid_nodes_incr; auto.
  Qed.

  (* the correction is a number at every dump as soon as one finite solution exists and no finite solution is zero *)
  Lemma gain_valid_everywhere : forall evs d,
    mix_ok ->
    (exists e, In e evs /\ sol_finite (snd e) = true) ->
    (forall x a b, In (x, SFin a b) evs -> norm2 a b <> 0%Qc) ->
    fin_nz (gain evs d).
  Proof.
    intros evs d Hm [e [He Hf]] Hnz. unfold gain_corr_at, gain_ival.
    destruct (valid_nodes evs) as [| n ns] eqn:E.
    - exfalso. pose proof (proj1 (valid_nodes_nil evs) E e He). congruence.
    - rewrite solinv_is_reciprocal. apply Cinv_fin_nz_fin_nz.
      pose proof (cinterp_hold_from_nodes (n :: ns) d) as X. rewrite <- E in *.
      assert (V : forall v, In v (map snd (valid_nodes evs)) -> fin_nz v).
      { intros v Hv. apply in_map_iff in Hv. destruct Hv as [[x v'] [<- Hv]].
        apply valid_nodes_in in Hv. destruct Hv as [a [b [-> Hv]]]. exists a, b. split; auto. eapply Hnz; eauto. }
      assert (NE : valid_nodes evs <> []) by (rewrite E; discriminate).
      specialize (X NE). inversion X as [v Hv Q | v1 v2 lam H1 H2 H3 H4 H5 Q]; cbn [eval].
      + apply V; auto.
      + apply Hm; auto.
        * destruct (V _ H1) as [a [b [-> _]]]. discriminate.
        * destruct (V _ H2) as [a [b [-> _]]]. discriminate.
  Qed.

  (* NaN / infinite solutions take no part: they can be removed *)
  Lemma gain_ignores_invalid : forall evs d,
    gain evs d = gain (filter (fun e => sol_finite (snd e)) evs) d.
  Proof.
    intros evs d. unfold gain_corr_at, gain_ival. f_equal. f_equal.
    assert (X : valid_nodes evs = valid_nodes (filter (fun e => sol_finite (snd e)) evs)).
    { induction evs as [| e r IH]; cbn [valid_nodes flat_map filter]; auto.
      fold (valid_nodes r). destruct e as [x [| | a b]]; cbn [snd sol_finite valid_node app]; auto.
      cbn [valid_nodes flat_map valid_node snd fst app]. fold (valid_nodes (filter (fun e => sol_finite (snd e)) r)).
      rewrite <- IH. reflexivity. }
    rewrite <- X. reflexivity.
  Qed.

  (* ---------------------------------------------------------------- bandpass (one solution, over frequency) *)
  Notation bandpass := (bandpass_corr_at mix cis).

  Lemma valid_nodes_combine_in : forall cal bp f v,
    In (f, v) (valid_nodes (combine cal bp)) -> exists k a b, v = CFin a b /\ nth_error cal k = Some f /\
                                                           nth_error bp k = Some (SFin a b).
  Proof.
    intros cal bp f v H. apply valid_nodes_in in H. destruct H as [a [b [-> H]]].
    apply In_nth_error in H. destruct H as [k H]. exists k, a, b. split; auto.
    revert bp k H. induction cal as [| c cr IH]; intros [| s sr] [| k] H; cbn in *; try discriminate.
    - inversion H; auto.
    - apply IH; auto.
  Qed.

  Lemma combine_nth_in : forall {A B} (l1 : list A) (l2 : list B) k a b,
    nth_error l1 k = Some a -> nth_error l2 k = Some b -> In (a, b) (combine l1 l2).
  Proof.
    induction l1 as [| x r IH]; intros [| y s] [| k] a b H1 H2; cbn in *; try discriminate.
    - inversion H1; inversion H2; subst. left; auto.
    - right. eapply IH; eauto.
  Qed.

  Fixpoint incr_q (lo : Q) (l : list Q) : Prop :=
    match l with [] => True | x :: r => lo < x /\ incr_q x r end.

  Lemma combine_incr : forall {A} cal (bp : list A) lo, incr_q lo cal -> incr_evs lo (combine cal bp).
  Proof.
    induction cal as [| c r IH]; intros [| s t] lo H; cbn in *; auto.
    destruct H; split; auto.
  Qed.

  (* every cal channel invalid (NaN / inf): INVALID on every data channel *)
  Lemma bandpass_all_invalid : forall cal bp f,
    (forall s, In s bp -> sol_finite s = false) -> bandpass cal bp f = CNaN.
  Proof.
    intros cal bp f H. unfold bandpass_corr_at, bandpass_ival.
    assert (E : valid_nodes (combine cal bp) = []).
    { apply valid_nodes_nil. intros [x s] Hin. apply in_combine_r in Hin. cbn. auto. }
    rewrite E. reflexivity.
  Qed.

  (* no extrapolation: outside the span of the valid cal channels the correction is INVALID *)
  Lemma bandpass_no_extrapolation : forall cal bp f,
    (forall k c s, nth_error cal k = Some c -> nth_error bp k = Some s -> sol_finite s = true -> f < c) \/
    (forall k c s, nth_error cal k = Some c -> nth_error bp k = Some s -> sol_finite s = true -> c < f) ->
    bandpass cal bp f = CNaN.
  Proof.
    intros cal bp f H. unfold bandpass_corr_at, bandpass_ival.
    destruct (valid_nodes (combine cal bp)) as [| n ns] eqn:E; [reflexivity |].
    rewrite bandpass_edges_are_invalid.
    assert (A : forall m, In m (n :: ns) -> exists k a b, nth_error cal k = Some (fst m) /\
                                                       nth_error bp k = Some (SFin a b)).
    { intros [mx mv] Hm. rewrite <- E in Hm. apply valid_nodes_combine_in in Hm.
      destruct Hm as [k [a [b [_ [H1 H2]]]]]. exists k, a, b. auto. }
    destruct H as [H | H].
    - destruct (A n (or_introl eq_refl)) as [k [a [b [H1 H2]]]].
      rewrite cinterp_left_of_all; [reflexivity |]. eapply H; eauto.
    - rewrite cinterp_right_of_all; [reflexivity | discriminate |].
      intros m Hm. destruct (A m Hm) as [k [a [b [H1 H2]]]]. eapply H; eauto.
  Qed.

  (* a data channel that lines up with cal channel k: zero solution -> INVALID, otherwise reciprocal(solution) *)
  Lemma bandpass_at_channel : forall cal bp lo k f a b,
    incr_q lo cal -> nth_error cal k = Some f -> nth_error bp k = Some (SFin a b) ->
    bandpass cal bp f = Cinv (CFin a b).
  Proof.
    intros cal bp lo k f a b Hs H1 H2. unfold bandpass_corr_at, bandpass_ival.
    assert (Hn : In (f, CFin a b) (valid_nodes (combine cal bp))).
    { apply valid_nodes_in. exists a, b. split; auto. eapply combine_nth_in; eauto. }
    destruct (valid_nodes (combine cal bp)) as [| n ns] eqn:E; [contradiction |].
    rewrite <- E in *.
    pose proof (cinterp_at_node (valid_nodes (combine cal bp))
                  (if applycal_bandpass_edges_invalid then Some CNaN else None)
                  (if applycal_bandpass_edges_invalid then Some CNaN else None) (f, CFin a b) lo) as X.
    cbn [fst snd] in X. rewrite E in *. rewrite X; auto.
    rewrite <- E. apply valid_nodes_incr. apply combine_incr. auto.
  Qed.

  Lemma bandpass_zero_channel : forall cal bp lo k f,
    incr_q lo cal -> nth_error cal k = Some f -> nth_error bp k = Some (SFin 0 0) ->
    bandpass cal bp f = CNaN.
  Proof.
    intros cal bp lo k f H1 H2 H3. rewrite (bandpass_at_channel cal bp lo k f 0%Qc 0%Qc H1 H2 H3). reflexivity.
  Qed.

  (* ---------------------------------------------------------------- delays *)
  Definition cis_ok : Prop := forall q, exists a b, cis q = CFin a b /\ norm2 a b = 1%Qc.

  Lemma delay_missing_is_unity : forall f, delay_corr_at mix cis SNaN f = Cone.
  Proof. reflexivity. Qed.

  Lemma delay_zero_is_unity : forall b f, delay_corr_at mix cis (SFin 0 b) f = Cone.
  Proof.
    intros. unfold delay_corr_at, delay_ival.
    assert (E : Qeq_bool (0%Qc * f) 0 = true) by (apply Qeq_bool_iff; cbn; ring).
    rewrite E. reflexivity.
  Qed.

  Lemma Qcdiv_one : forall w : Qc, (w / 1 = w)%Qc.
  Proof. intros. field. discriminate. Qed.

  Lemma delay_finite_keeps_weight : forall a b f w,
    cis_ok -> apply_weights w (delay_corr_at mix cis (SFin a b) f) = w.
  Proof.
    intros a b f w Hc. unfold delay_corr_at, delay_ival.
    assert (N1 : norm2 1 0 = 1%Qc) by (unfold norm2; ring).
    destruct (Qeq_bool (a * f) 0); cbn [eval].
    - unfold Cone. rewrite apply_weights_fin; rewrite N1; [apply Qcdiv_one | discriminate].
    - destruct (Hc (- (a * f))) as [x [y [-> H]]].
      rewrite apply_weights_fin; rewrite H; [apply Qcdiv_one | discriminate].
  Qed.
End Gain.

(* ------------------------------------------------------------------ which products are applied *)
Lemma select_loop_missing_transparent : forall a m b acc,
  usable m = false -> select_loop true (a ++ m :: b) acc = select_loop true (a ++ b) acc.
Proof.
  induction a as [| q r IH]; intros m b acc H; cbn [app select_loop].
  - unfold usable in H. destruct (collect (q_sens m)); [discriminate |].
    rewrite missing_action_is_skip. reflexivity.
  - destruct (collect (q_sens q)); [apply IH; auto |].
    rewrite missing_action_is_skip. apply IH; auto.
Qed.

(* a requested product without solutions does not affect the others, wherever it stands in the request *)
Lemma missing_product_transparent : forall a m b,
  usable m = false -> select_products true (a ++ m :: b) = select_products true (a ++ b).
Proof. intros. apply select_loop_missing_transparent; auto. Qed.

Definition keys {V} (d : list (Z * V)) : list Z := map fst d.

Lemma dict_set_new : forall {V} (d : list (Z * V)) k v,
  existsb (Z.eqb k) (keys d) = false -> dict_set k v d = d ++ [(k, v)].
Proof.
  induction d as [| [k' v'] r IH]; intros k v H; cbn [dict_set app]; auto.
  cbn in H. apply orb_false_iff in H. destruct H as [H1 H2]. rewrite H1. f_equal. apply IH; auto.
Qed.

Lemma dict_set_same : forall {V} (d : list (Z * V)) k v,
  In (k, v) d -> NoDup (keys d) -> dict_set k v d = d.
Proof.
  induction d as [| [k' v'] r IH]; intros k v H N; [contradiction |].
  cbn [dict_set]. cbn in N. inversion N as [| ? ? N1 N2]; subst.
  destruct H as [H | H].
  - inversion H; subst. rewrite Z.eqb_refl. reflexivity.
  - destruct (Z.eqb k k') eqn:E.
    + apply Z.eqb_eq in E. subst. exfalso. apply N1. apply in_map_iff. exists (k', v). auto.
    + f_equal. apply IH; auto.
Qed.

Lemma NoDup_app_one : forall {A} (l : list A) x, NoDup l -> ~ In x l -> NoDup (l ++ [x]).
Proof.
  induction l as [| a r IH]; intros x N H; cbn [app].
  - constructor; [intros [] | constructor].
  - inversion N; subst. constructor.
    + rewrite in_app_iff. intros [Q | [Q | []]]; [contradiction | subst; apply H; left; auto].
    + apply IH; auto. intro Q. apply H. right; auto.
Qed.

Lemma existsb_eqb_in : forall k l, existsb (Z.eqb k) l = true <-> In k l.
Proof.
  intros. rewrite existsb_exists. split.
  - intros [x [H1 H2]]. apply Z.eqb_eq in H2. subst. auto.
  - intros H. exists k. split; auto. apply Z.eqb_refl.
Qed.

(* names determine the sensors (the cache is keyed by the product name) *)
Definition consistent (reqs : list request) : Prop :=
  forall q1 q2, In q1 reqs -> In q2 reqs -> q_name q1 = q_name q2 -> q1 = q2.

Fixpoint spec_sel (reqs : list request) (seen_names : list Z) : list (Z * rawproduct) :=
  match reqs with
  | [] => []
  | q :: rest =>
      match collect (q_sens q) with
      | Some corr => if existsb (Z.eqb (q_name q)) seen_names then spec_sel rest seen_names
                     else (q_name q, raw_of q corr) :: spec_sel rest (seen_names ++ [q_name q])
      | None => spec_sel rest seen_names
      end
  end.

Lemma spec_sel_ext : forall reqs s1 s2, (forall k, In k s1 <-> In k s2) -> spec_sel reqs s1 = spec_sel reqs s2.
Proof.
  induction reqs as [| q r IH]; intros s1 s2 H; cbn [spec_sel]; auto.
  destruct (collect (q_sens q)); [| apply IH; auto].
  assert (E : existsb (Z.eqb (q_name q)) s1 = existsb (Z.eqb (q_name q)) s2).
  { destruct (existsb (Z.eqb (q_name q)) s1) eqn:E1; destruct (existsb (Z.eqb (q_name q)) s2) eqn:E2; auto.
    - apply existsb_eqb_in in E1. apply H in E1. apply existsb_eqb_in in E1. congruence.
    - apply existsb_eqb_in in E2. apply H in E2. apply existsb_eqb_in in E2. congruence. }
  rewrite E. destruct (existsb (Z.eqb (q_name q)) s2); [apply IH; auto |].
  f_equal. apply IH. intros k. rewrite !in_app_iff. rewrite H. tauto.
Qed.

Lemma spec_selected_is_spec_sel : forall reqs s, spec_selected reqs s = spec_sel reqs s.
Proof.
  induction reqs as [| q r IH]; intros s; cbn [spec_selected spec_sel]; auto.
  destruct (collect (q_sens q)); auto. destruct (existsb (Z.eqb (q_name q)) s); auto.
  f_equal. rewrite IH. apply spec_sel_ext. intros k. rewrite in_app_iff. cbn. tauto.
Qed.

Lemma select_loop_spec : forall reqs skip acc,
  NoDup (keys acc) ->
  (forall k v q corr, In (k, v) acc -> In q reqs -> q_name q = k -> collect (q_sens q) = Some corr ->
                      v = raw_of q corr) ->
  consistent reqs ->
  (skip = true \/ forallb usable reqs = true) ->
  select_loop skip reqs acc = Some (acc ++ spec_sel reqs (keys acc)).
Proof.
  induction reqs as [| q r IH]; intros skip acc N A Cn S; cbn [select_loop spec_sel].
  - rewrite app_nil_r. reflexivity.
  - assert (Cr : consistent r) by (intros q1 q2 H1 H2; apply Cn; right; auto).
    assert (Sr : skip = true \/ forallb usable r = true).
    { destruct S as [S | S]; auto. cbn in S. apply andb_true_iff in S. tauto. }
    destruct (collect (q_sens q)) as [corr |] eqn:E.
    + destruct (existsb (Z.eqb (q_name q)) (keys acc)) eqn:X.
      * apply existsb_eqb_in in X. unfold keys in X. apply in_map_iff in X. destruct X as [[k v] [X1 X2]].
        cbn in X1. subst k.
        assert (V : v = raw_of q corr) by (eapply A; eauto; left; auto).
        subst v. unfold raw_of in X2. rewrite (dict_set_same acc _ _ X2 N).
        apply IH; auto. intros; eapply A; eauto. right; auto.
      * rewrite dict_set_new by exact X.
        rewrite IH; auto.
        -- unfold keys. rewrite map_app. cbn [map fst]. rewrite <- app_assoc. reflexivity.
        -- unfold keys. rewrite map_app. cbn [map fst]. apply NoDup_app_one; auto.
           intro Hin. apply existsb_eqb_in in Hin. unfold keys in X. congruence.
        -- intros k v q' corr' Hin Hq' Hk Hc. apply in_app_iff in Hin. destruct Hin as [Hin | [Hin | []]].
           ++ eapply A; eauto. right; auto.
           ++ inversion Hin; subst.
              assert (q = q') by (apply Cn; [left; auto | right; auto | auto]). subst q'.
              rewrite E in Hc. inversion Hc; subst. reflexivity.
    + destruct S as [-> | S].
      * rewrite missing_action_is_skip. apply IH; auto. intros; eapply A; eauto. right; auto.
      * exfalso. cbn in S. apply andb_true_iff in S. destruct S as [S _]. unfold usable in S. rewrite E in S.
        discriminate.
Qed.

Lemma select_skip_spec : forall reqs,
  consistent reqs -> select_products true reqs = Some (spec_selected reqs []).
Proof.
  intros reqs Cn. unfold select_products. rewrite select_loop_spec; auto.
  - cbn [app keys map]. rewrite spec_selected_is_spec_sel. reflexivity.
  - constructor.
  - intros k v q corr [].
Qed.

Lemma select_strict_spec : forall reqs,
  consistent reqs -> forallb usable reqs = true -> select_products false reqs = Some (spec_selected reqs []).
Proof.
  intros reqs Cn U. unfold select_products. rewrite select_loop_spec; auto.
  - cbn [app keys map]. rewrite spec_selected_is_spec_sel. reflexivity.
  - constructor.
  - intros k v q corr [].
Qed.

Lemma select_loop_strict_missing : forall reqs acc,
  forallb usable reqs = false -> select_loop false reqs acc = None.
Proof.
  induction reqs as [| q r IH]; intros acc H; cbn [select_loop forallb] in *; [discriminate |].
  unfold usable in H at 1. destruct (collect (q_sens q)); auto.
Qed.

(* strict request (fully qualified names only): a product lacking a sensor is a KeyError *)
Lemma select_strict_missing : forall reqs,
  forallb usable reqs = false -> select_products false reqs = None.
Proof. intros. apply select_loop_strict_missing; auto. Qed.

(* every requested product all of whose inputs have a correction is applied ... *)
Lemma spec_sel_has_usable : forall reqs s q,
  In q reqs -> usable q = true -> In (q_name q) (keys (spec_sel reqs s)) \/ In (q_name q) s.
Proof.
  induction reqs as [| p r IH]; intros s q Hin U; [contradiction |]. cbn [spec_sel].
  destruct Hin as [-> | Hin].
  - unfold usable in U. destruct (collect (q_sens q)); [| discriminate].
    destruct (existsb (Z.eqb (q_name q)) s) eqn:E.
    + right. apply existsb_eqb_in; auto.
    + left. left. reflexivity.
  - destruct (collect (q_sens p)); [| apply IH; auto].
    destruct (existsb (Z.eqb (q_name p)) s); [apply IH; auto |].
    destruct (IH (s ++ [q_name p]) q Hin U) as [H | H].
    + left. right. exact H.
    + apply in_app_iff in H. destruct H as [H | [H | []]]; [right; auto | left; left; auto].
Qed.

Lemma selected_has_usable : forall reqs q,
  In q reqs -> usable q = true -> In (q_name q) (keys (spec_selected reqs [])).
Proof.
  intros. rewrite spec_selected_is_spec_sel. destruct (spec_sel_has_usable reqs [] q); auto. contradiction.
Qed.

(* ... nothing else is, and each once *)
Lemma spec_sel_only_usable : forall reqs s k v,
  In (k, v) (spec_sel reqs s) ->
  exists q corr, In q reqs /\ q_name q = k /\ collect (q_sens q) = Some corr /\ v = raw_of q corr.
Proof.
  induction reqs as [| p r IH]; intros s k v H; [contradiction |]. cbn [spec_sel] in H.
  destruct (collect (q_sens p)) as [corr |] eqn:E.
  - destruct (existsb (Z.eqb (q_name p)) s).
    + destruct (IH _ _ _ H) as [q [c [H1 H2]]]. exists q, c. split; [right; auto | auto].
    + destruct H as [H | H].
      * inversion H; subst. exists p, corr. split; [left; auto | auto].
      * destruct (IH _ _ _ H) as [q [c [H1 H2]]]. exists q, c. split; [right; auto | auto].
  - destruct (IH _ _ _ H) as [q [c [H1 H2]]]. exists q, c. split; [right; auto | auto].
Qed.

Lemma spec_sel_fresh : forall reqs s k, In k (keys (spec_sel reqs s)) -> ~ In k s.
Proof.
  induction reqs as [| p r IH]; intros s k H; [contradiction |]. cbn [spec_sel] in H.
  destruct (collect (q_sens p)); [| apply IH; auto].
  destruct (existsb (Z.eqb (q_name p)) s) eqn:E; [apply IH; auto |].
  destruct H as [H | H].
  - cbn in H. subst. intro Q. apply existsb_eqb_in in Q. congruence.
  - intro Q. apply (IH _ _ H). apply in_app_iff. left; auto.
Qed.

Lemma spec_sel_nodup : forall reqs s, NoDup (keys (spec_sel reqs s)).
Proof.
  induction reqs as [| p r IH]; intros s; cbn [spec_sel]; [constructor |].
  destruct (collect (q_sens p)); [| apply IH].
  destruct (existsb (Z.eqb (q_name p)) s); [apply IH |].
  cbn [keys map fst]. constructor; [| apply IH].
  intro H. apply (spec_sel_fresh _ _ _ H). apply in_app_iff. right. left. reflexivity.
Qed.

Lemma selected_nodup : forall reqs, NoDup (keys (spec_selected reqs [])).
Proof. intros. rewrite spec_selected_is_spec_sel. apply spec_sel_nodup. Qed.

(* the factor katdal applies for a lenient request = the product formula over the requested products that have
   corrections for every input *)
Lemma applied_factor : forall reqs data sel t c cp,
  consistent reqs -> select_products true reqs = Some sel ->
  factor (make_products data (map snd sel)) t c cp =
  Cprod (map (fun p => Cmul (gp t c (fst cp) p) (Cconj (gp t c (snd cp) p)))
             (make_products data (map snd (spec_selected reqs [])))).
Proof.
  intros reqs data sel t c cp Cn H. rewrite select_skip_spec in H by exact Cn. inversion H; subst.
  apply factor_product.
Qed.

(* ------------------------------------------------------------------ from the solutions down to vis / weights / flags *)
Section EndToEnd.
  Variable mix : C -> C -> Q -> C.
  Variable cis : Q -> C.

  (* the correction one of the two inputs of a corrprod gets from product p is INVALID *)
  Definition contributes (prods : list product) (t c : nat) (cp : nat * nat) (v : C) : Prop :=
    exists p, In p prods /\ (gp t c (fst cp) p = v \/ gp t c (snd cp) p = v).

  Lemma invalid_contribution : forall prods t c cp d w fl,
    contributes prods t c cp CNaN ->
    apply_vis d (factor prods t c cp) = d /\
    apply_weights w (factor prods t c cp) = 0%Qc /\
    apply_flags fl (factor prods t c cp) = Z.lor fl 128.
  Proof. intros prods t c cp d w fl [p [H1 H2]]. apply invalid. exists p. auto. Qed.

  (* a dead input (all its finite gain solutions exactly zero, or none finite): every visibility it takes part in is
     left as stored, weight zero, postproc raised *)
  Lemma dead_input_flagged : forall prods t c cp evs d w fl,
    contributes prods t c cp (gain_corr_at mix cis evs (qz t)) ->
    (forall e, In e evs -> sol_finite (snd e) = true -> snd e = SFin 0 0) ->
    apply_vis d (factor prods t c cp) = d /\
    apply_weights w (factor prods t c cp) = 0%Qc /\
    apply_flags fl (factor prods t c cp) = Z.lor fl 128.
  Proof.
    intros prods t c cp evs d w fl H Hz. apply invalid_contribution.
    rewrite gain_dead_input in H by exact Hz. exact H.
  Qed.

  (* a bandpass solution that is exactly zero in the cal channel lining up with data channel frequency f *)
  Lemma zero_bandpass_channel_flagged : forall prods t c cp cal bp lo k f d w fl,
    contributes prods t c cp (bandpass_corr_at mix cis cal bp f) ->
    incr_q lo cal -> nth_error cal k = Some f -> nth_error bp k = Some (SFin 0 0) ->
    apply_vis d (factor prods t c cp) = d /\
    apply_weights w (factor prods t c cp) = 0%Qc /\
    apply_flags fl (factor prods t c cp) = Z.lor fl 128.
  Proof.
    intros prods t c cp cal bp lo k f d w fl H H1 H2 H3. apply invalid_contribution.
    rewrite (bandpass_zero_channel mix cis cal bp lo k f H1 H2 H3) in H. exact H.
  Qed.
End EndToEnd.

(* ------------------------------------------------------------------ non-vacuity *)
Definition mix1 : C -> C -> Q -> C := fun _ _ _ => Cone.
Definition cis1 : Q -> C := fun _ => Cone.
Definition two : solv := SFin (Q2Qc 2) (Q2Qc 0).
Definition zero : solv := SFin (Q2Qc 0) (Q2Qc 0).

(* solutions 2, 0, NaN, inf at dumps 0, 2, 3, 4: INVALID at dump 2 and after (the zero is held), 1/2 at dump 0,
   something in between at dump 1 *)
Example ex_gain :
  map (fun d => of_ival true (gain_ival [(0, two); (2, zero); (3, SNaN); (4, SInf)] (inject_Z d))) [0; 1; 2; 3; 5]%Z
  = [L [L [I 1; I 2]; L [I 0; I 1]]; L [I 1]; L []; L []; L []].
Proof. vm_compute. reflexivity. Qed.

(* bandpass NaN 2 0 2 NaN on cal channels 10..14 seen from data channels 10, 11, 12, 13, 14 and 25/2 *)
Example ex_bandpass :
  map (fun f => of_ival true (bandpass_ival [10; 11; 12; 13; 14] [SNaN; two; zero; two; SNaN] f))
      [10; 11; 12; 13; 14; 25 # 2]
  = [L []; L [L [I 1; I 2]; L [I 0; I 1]]; L []; L [L [I 1; I 2]; L [I 0; I 1]]; L []; L [I 1]].
Proof. vm_compute. reflexivity. Qed.

Definition rq (n : Z) (s : list bool) : request :=
  mkReq n false [] (map (fun b : bool => if b then Some [] else None) s).
(* K, B (no solutions), G, K again, GPHASE (one input without a correction): K and G are applied *)
Example ex_select :
  option_map keys (select_products true [rq 1 [true; true]; rq 2 [false; false]; rq 3 [true; true];
                                         rq 1 [true; true]; rq 4 [true; false]]) = Some [1; 3]%Z /\
  select_products false [rq 1 [true; true]; rq 2 [false; false]; rq 3 [true; true]] = None.
Proof. vm_compute. split; reflexivity. Qed.
