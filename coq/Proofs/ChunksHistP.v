(* C07: chunk-by-chunk read-back over arbitrary histories of put_chunk / mark_complete on a name-addressed store. *)
From Coq Require Import ZArith List Bool Lia.
From KV Require Import Base.Sx Gen.Generated Model.Chunks Proofs.ChunksP.
Import ListNotations. Open Scope Z_scope.

Section Hist.
Context {A : Type}.

Lemma put_chunk_cases : forall (st : store A) arr sl dt cshape data,
  put_chunk st arr sl dt false cshape data
  = if zs_eq_dec cshape (slice_shape sl)
    then Ok (upd (chunk_key (chunk_name arr (map fst sl))) (OChunk dt cshape data) st)
    else Err EBadChunk.
Proof.
  intros. unfold put_chunk, chunk_metadata. cbn [forallb negb orb].
  destruct (zs_eq_dec cshape (slice_shape sl)); reflexivity.
Qed.

Lemma get_chunk_cases : forall (st : store A) arr sl dt,
  get_chunk st arr sl dt false
  = match lookup (chunk_key (chunk_name arr (map fst sl))) st with
    | None => Err ENotFound
    | Some OMarker => Err EBadChunk
    | Some (OChunk dt' shape' data) =>
        if zs_eq_dec shape' (slice_shape sl) then (if Z.eq_dec dt' dt then Ok (shape', data) else Err EBadChunk)
        else Err EBadChunk
    end.
Proof. intros. unfold get_chunk, chunk_metadata. cbn [forallb negb]. reflexivity. Qed.

Lemma run_hist_snoc : forall (st : store A) ops op, run_hist st (ops ++ [op]) = apply_hop (run_hist st ops) op.
Proof. intros. unfold run_hist. rewrite fold_left_app. reflexivity. Qed.

Lemma last_put_snoc : forall arr starts (ops : list (@hop A)) op,
  last_put arr starts (ops ++ [op]) = last_put_step arr starts (last_put arr starts ops) op.
Proof. intros. unfold last_put. rewrite fold_left_app. reflexivity. Qed.

(* reading a chunk after ANY history of put_chunk / mark_complete calls: the data of the last accepted put addressed
   to that chunk name (type-checked against the request), otherwise what the store held before *)
Lemma hist_get : forall (ops : list hop) (st : store A) arr sl dt,
  get_chunk (run_hist st ops) arr sl dt false
  = hist_answer dt sl (last_put arr (map fst sl) ops) (get_chunk st arr sl dt false).
Proof.
  induction ops as [|op ops IH] using rev_ind; intros st arr sl dt.
  - reflexivity.
  - rewrite run_hist_snoc, last_put_snoc. destruct op as [a s dt0 cshape data | a]; cbn [apply_hop last_put_step].
    + rewrite put_chunk_cases. destruct (zs_eq_dec cshape (slice_shape s)) as [Hs|Hs]; [| apply IH].
      rewrite get_chunk_cases, lookup_upd.
      destruct (str_eq_dec (chunk_key (chunk_name arr (map fst sl))) (chunk_key (chunk_name a (map fst s)))) as [E|E].
      * apply chunk_key_inj in E. apply chunk_name_inj in E. destruct E as [<- <-].
        destruct (str_eq_dec arr arr); [| congruence]. destruct (zs_eq_dec (map fst sl) (map fst sl)); [| congruence].
        reflexivity.
      * rewrite <- get_chunk_cases. rewrite IH.
        destruct (str_eq_dec a arr) as [->|]; [| reflexivity].
        destruct (zs_eq_dec (map fst s) (map fst sl)) as [E2|]; [| reflexivity].
        exfalso. apply E. rewrite E2. reflexivity.
    + rewrite mark_complete_keeps_chunks. apply IH.
Qed.

Lemma marker_lookup_put : forall (st : store A) arr a sl dt cshape data st',
  put_chunk st a sl dt false cshape data = Ok st' -> lookup (marker_key arr) st' = lookup (marker_key arr) st.
Proof.
  intros st arr a sl dt cshape data st' H. rewrite put_chunk_cases in H.
  destruct (zs_eq_dec cshape (slice_shape sl)); [| discriminate]. injection H as <-.
  rewrite lookup_upd. destruct (str_eq_dec _ _) as [E|]; [| reflexivity].
  apply marker_not_chunk in E. destruct E.
Qed.

(* completion markers over histories: set by mark_complete of that array, by nothing else, never cleared *)
Lemma hist_complete : forall (ops : list hop) (st : store A) arr,
  is_complete (run_hist st ops) arr = marked arr ops || is_complete st arr.
Proof.
  induction ops as [|op ops IH] using rev_ind; intros st arr.
  - reflexivity.
  - rewrite run_hist_snoc. unfold marked. rewrite existsb_app. fold (marked arr ops). cbn [existsb].
    destruct op as [a s dt0 cshape data | a]; cbn [apply_hop].
    + rewrite orb_false_r. destruct (put_chunk (run_hist st ops) a s dt0 false cshape data) as [st'|e] eqn:P; [| apply IH].
      unfold is_complete. rewrite (marker_lookup_put _ arr _ _ _ _ _ _ P). apply IH.
    + rewrite orb_false_r. destruct (str_eq_dec a arr) as [->|N].
      * rewrite is_complete_after_mark. rewrite orb_true_r. reflexivity.
      * rewrite is_complete_other by assumption. rewrite IH. rewrite orb_false_r. reflexivity.
Qed.


(* one chunk: what was put is what is read; a put touches no other chunk name *)
Lemma put_get_chunk : forall (st : store A) arr sl dt data,
  exists st', put_chunk st arr sl dt false (slice_shape sl) data = Ok st'
              /\ get_chunk st' arr sl dt false = Ok (slice_shape sl, data).
Proof.
  intros. rewrite put_chunk_cases. destruct (zs_eq_dec (slice_shape sl) (slice_shape sl)); [| congruence].
  eexists. split; [reflexivity|]. rewrite get_chunk_cases, lookup_upd.
  destruct (str_eq_dec _ _); [| congruence].
  destruct (zs_eq_dec (slice_shape sl) (slice_shape sl)); [| congruence]. destruct (Z.eq_dec dt dt); congruence.
Qed.

Lemma put_chunk_frame : forall (st st' : store A) arr sl dt cshape data arr' sl' dt',
  put_chunk st arr sl dt false cshape data = Ok st' ->
  (arr', map fst sl') <> (arr, map fst sl) ->
  get_chunk st' arr' sl' dt' false = get_chunk st arr' sl' dt' false.
Proof.
  intros st st' arr sl dt cshape data arr' sl' dt' H N. rewrite put_chunk_cases in H.
  destruct (zs_eq_dec cshape (slice_shape sl)); [| discriminate]. injection H as <-.
  rewrite !get_chunk_cases, lookup_upd. destruct (str_eq_dec _ _) as [E|]; [| reflexivity].
  apply chunk_key_inj in E. apply chunk_name_inj in E. destruct E as [-> E]. rewrite E in N. congruence.
Qed.

End Hist.
