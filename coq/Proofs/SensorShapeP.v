(* C12: facts read off the regenerated source constants (Gen/Generated.v) and the status filter. *)
From Coq Require Import ZArith QArith List Bool String Ascii Lia.
From KV Require Import Base.Sx Base.Str Gen.Generated Model.Interp Model.SensorCache Model.SensorKeep Model.SensorApi.
Import ListNotations.
Local Open Scope string_scope.

Lemma substring_all : forall s n, (String.length s <= n)%nat -> substring 0 n s = s.
Proof.
  induction s as [|a s IH]; intros n H; destruct n; simpl in *; try reflexivity; try lia.
  f_equal. apply IH. lia.
Qed.

(* the readable statuses are EXACTLY nominal / warn / error (every KATCP status has at most 7 characters) ... *)
Lemma status_exact : forall s, (String.length s <= 7)%nat ->
  (status_ok s = true <-> s = "nominal" \/ s = "warn" \/ s = "error").
Proof.
  intros s H. unfold status_ok.
  change sensor_status_width with 7%nat. rewrite substring_all by exact H.
  change sensor_valid_statuses with ["nominal"; "warn"; "error"].
  unfold mem_string. cbn [existsb]. rewrite !orb_true_iff, !String.eqb_eq.
  split; [intros [->|[->|[->|X]]]; auto; discriminate|intros [->|[->| ->]]; auto].
Qed.

(* ... and only the first seven characters of a recorded status are looked at (`astype('|S7')`) *)
Lemma status_first7 : forall s t, substring 0 7 s = substring 0 7 t -> status_ok s = status_ok t.
Proof. intros s t H. unfold status_ok. change sensor_status_width with 7%nat. now rewrite H. Qed.

Example status_examples :
  map status_ok ["nominal"; "warn"; "error"; "unknown"; "failure"; "unreachable"; "inactive"]
    = [true; true; true; false; false; false; false] /\
  map status_ok ["warning"; "errors"; "Nominal"; ""; "nominal "; "nomina"; " warn"; "1"; "0"]
    = [false; false; false; false; true; false; false; false; false] /\
  status_ok "nominally" = true.
Proof. vm_compute. repeat split. Qed.

(* the clean-up as found in the source: STABLE sort, the LAST of a run of equal timestamps survives *)
Lemma cleanup_shape : sensor_sort_kind = "mergesort" /\ sensor_dup_rule = "last".
Proof. split; reflexivity. Qed.

(* the per-dtype dummy values and the defaults of _extract / get / __getitem__ / __init__ as found in the source *)
Lemma dummy_shape :
  sensor_dummy_float_is_nan = true /\ sensor_dummy_int = (-1)%Z /\ sensor_dummy_str = "" /\
  sensor_dummy_bool = false /\ sensor_dummy_timestamp = 0%Z /\
  sensor_dummy_order = ["floating"; "integer"; "string"; "bool"].
Proof. repeat split. Qed.

Lemma api_shape :
  sensor_offset_default = 0%Z /\
  sensor_extract_steps = ["get"; "shift-copy"; "clean"; "dummy-if-empty"; "decide-categorical"; "interp"] /\
  sensor_get_select_default = false /\ sensor_get_extract_default = true /\ sensor_getitem_select = true /\
  sensor_keep_default = "slice(None)" /\
  sensor_get_steps = ["select-needs-extract"; "raw"; "virtual-templates-in-order"; "store-if-truthy"; "KeyError";
                      "extract-getter-and-cache"; "select-by-keep"] /\
  sensor_alias_rule = ["endswith"; "replace"] /\
  concat_get_select_default = false /\ concat_get_extract_default = true.
Proof. repeat split. Qed.

Lemma template_shape :
  virtual_var_pattern = "(\{[a-zA-Z_]\w*\})" /\ virtual_var_format = "(?P<{}>[^/]+)" /\ virtual_match_fn = "match".
Proof. repeat split. Qed.

Lemma katstore_shape :
  katstore_before = 600%Z /\ katstore_after = 60%Z /\
  katstore_checks = ["isidentifier"; "sensor==name"; "nonempty"].
Proof. repeat split. Qed.

Lemma concat_fill_shape :
  concat_fill_steps = ["parts"; "KeyError-if-all-missing"; "re-extract-if-partly-extracted"; "props";
                       "common-dtype-of-unselected-parts"; "dummy(initial_value,dtype)"; "extract-dummy-per-part";
                       "array-if-non-float-and-no-categorical"; "write-back"; "concatenate"].
Proof. reflexivity. Qed.
