(* C10: the theorems of Props/C10.v, stated about the model written over the regenerated definitions
   (Model/SensorToCatSrc.v: per_dump_src, s2c_src, single_event_per_dump_src; dump MID times + period). *)
From Coq Require Import ZArith List Bool Lia ZifyBool.
From KV Require Import Base.Sx Gen.Generated Model.SensorToCat Model.SensorToCatSrc
  Proofs.SensorToCatP Proofs.SensorToCatInitP Proofs.SensorToCatLawsP Proofs.SensorToCatSrcP.
Import ListNotations.
Open Scope Z_scope.

(* hypotheses every theorem about the whole function shares: at least one dump, mid times strictly increase,
   positive period, sensor timestamps non-decreasing, as many values as timestamps *)
Definition c10_domain (ts vals : list Z) (mids : list Z) (P : Z) : Prop :=
  mids <> [] /\ ssorted mids /\ 0 < P /\ time_sorted ts /\ length ts = length vals.

Lemma domain_ends ts vals mids P : c10_domain ts vals mids P ->
  exists e0 er, dump_ends mids P = e0 :: er /\ ssorted (e0 :: er) /\ 0 < P /\ time_sorted ts /\ length ts = length vals.
Proof.
  intros [Hne [Hs [HP [Ht Hl]]]]. destruct mids as [|m0 mr]; [congruence|].
  exists (m0 + P / 2), (dump_ends mr P). split; [reflexivity|]. split; [|auto].
  rewrite <- dump_ends_cons. apply dump_ends_sorted. exact Hs.
Qed.

Definition rule ts vals mids P tr init greedy : res (list Z) :=
  res_of (spec_per_dump ts vals (dump_ends mids P) P tr init greedy).

(* ---- generator ---- *)
Lemma generator_rule_src (isg : Z -> bool) v0 (l : list (Z * Z)) N :
  nondecr 0 l -> Forall (fun e => fst e < N) ((0, v0) :: l) ->
  let evt := 0 :: map fst l ++ [N] in
  let vals := v0 :: map snd l in
  let ce := single_event_per_dump_src evt (map isg vals) in
  let out := map (fun i => (nth i vals 0, nth i (snd ce) 0)) (fst ce) in
  (forall k, 0 <= k < N -> lookupd 0 out k = ivalue isg ((0, v0) :: l) k) /\
  Forall (fun e => 0 <= snd e < N) out /\ ssorted (map snd out) /\ exists v t, out = (v, 0) :: t.
Proof. intros H1 H2. cbv zeta. rewrite single_event_per_dump_src_eq. exact (generator_rule isg v0 l N H1 H2). Qed.

(* ---- searchsorted with the side the code uses ---- *)
Lemma ss_pairs_src a : ssorted a -> forall k lo hi, nth_error (combine a (tl a)) k = Some (lo, hi) -> forall t,
  ((lo <? t) && (t <=? hi) = Nat.eqb (ss_side c10_events_side_right a t) (S k)) /\
  ((t <=? lo) = Nat.leb (ss_side c10_events_side_right a t) k).
Proof. exact (ss_pairs a). Qed.

(* ---- the whole function ---- *)
Lemma per_dump_src_coded ts vals mids P tr init greedy ar : c10_domain ts vals mids P ->
  per_dump_src ts vals mids P tr init greedy ar =
  rule ts vals mids P tr (init_as_coded ts (dump_ends mids P) P init) greedy.
Proof.
  intro D. destruct (domain_ends _ _ _ _ D) as [e0 [er [He [Hs [HP [Ht Hl]]]]]].
  rewrite per_dump_src_eq. unfold rule. rewrite He.
  exact (proj1 (per_dump_coded ts vals e0 er P tr init greedy _ Hs HP Ht Hl)).
Qed.

Lemma per_dump_src_exact ts vals mids P tr init greedy ar : c10_domain ts vals mids P ->
  (f14_differs ts vals (dump_ends mids P) P tr init greedy = false ->
     per_dump_src ts vals mids P tr init greedy ar = rule ts vals mids P tr init greedy) /\
  (f14_differs ts vals (dump_ends mids P) P tr init greedy = true ->
     exists x y T, x <> y /\ per_dump_src ts vals mids P tr init greedy ar = Ok (x :: T) /\
                   rule ts vals mids P tr init greedy = Ok (y :: T)).
Proof.
  intro D. destruct (domain_ends _ _ _ _ D) as [e0 [er [He [Hs [HP [Ht Hl]]]]]].
  rewrite per_dump_src_eq. unfold rule. rewrite He.
  destruct (per_dump_exact ts vals e0 er P tr init greedy (allow_repeats_of ar) Hs HP Ht Hl) as [H0 H1].
  split; [exact H0|]. intro H. destruct (H1 H) as [x [y [T [Hn [Hp Hq]]]]]. exists x, y, T.
  split; [exact Hn|]. split; [exact Hp|]. rewrite Hq. reflexivity.
Qed.

Lemma per_dump_src_unless_f14 ts vals mids P tr init greedy ar : c10_domain ts vals mids P ->
  f14_situation ts (dump_ends mids P) P init greedy = false ->
  per_dump_src ts vals mids P tr init greedy ar = rule ts vals mids P tr init greedy.
Proof.
  intros D H. apply (proj1 (per_dump_src_exact ts vals mids P tr init greedy ar D)).
  apply f14_differs_situation; [destruct D as [_ [_ [_ [_ Hl]]]]; exact Hl|exact H].
Qed.

Lemma per_dump_src_later_dumps ts vals mids P tr init greedy ar : c10_domain ts vals mids P ->
  match per_dump_src ts vals mids P tr init greedy ar, rule ts vals mids P tr init greedy with
  | Ok l, Ok s => tl l = tl s /\ length l = length mids
  | Err, Err => True
  | _, _ => False
  end.
Proof.
  intro D. destruct (domain_ends _ _ _ _ D) as [e0 [er [He [Hs [HP [Ht Hl]]]]]].
  rewrite per_dump_src_eq. unfold rule. rewrite He.
  pose proof (per_dump_later_dumps ts vals e0 er P tr init greedy (allow_repeats_of ar) Hs HP Ht Hl) as H. cbv zeta in H.
  destruct (per_dump ts vals (e0 :: er) P tr init greedy (allow_repeats_of ar)) as [l|];
    destruct (spec_per_dump ts vals (e0 :: er) P tr init greedy) as [s|]; cbn [res_of]; try exact H.
  destruct H as [H1 H2]. split; [exact H1|]. rewrite H2, <- He. unfold dump_ends. apply map_length.
Qed.

Lemma wellformed_src ts vals mids P tr init greedy ar v e : c10_domain ts vals mids P ->
  s2c_src ts vals (ends_of_mids mids P) P tr init greedy (allow_repeats_of ar) = Ok (v, e) ->
  (exists t, e = 0 :: t) /\ ssorted e /\ last e 0 = Z.of_nat (length mids) /\ length e = S (length v) /\
  (allow_repeats_of ar = false -> norep v).
Proof.
  intros D H. destruct (domain_ends _ _ _ _ D) as [e0 [er [He [Hs [HP [Ht Hl]]]]]].
  rewrite ends_of_mids_eq, s2c_src_eq, He in H.
  pose proof (proj2 (per_dump_coded ts vals e0 er P tr init greedy _ Hs HP Ht Hl) v e H) as W.
  unfold wf_result in W. rewrite <- He in W. unfold dump_ends in W. rewrite map_length in W. exact W.
Qed.

(* ---- laws ---- *)
Lemma src_one_value_per_dump ts vals mids P tr init greedy ar l : c10_domain ts vals mids P ->
  per_dump_src ts vals mids P tr init greedy ar = Ok l -> length l = length mids.
Proof.
  intros D H. destruct (domain_ends _ _ _ _ D) as [e0 [er [He [Hs [HP [Ht Hl]]]]]].
  rewrite per_dump_src_eq, He in H.
  rewrite (per_dump_length ts vals e0 er P tr init greedy _ l Hs HP Ht Hl H). rewrite <- He. apply map_length.
Qed.

Lemma src_transform_first ts vals mids P m init greedy ar :
  per_dump_src ts vals mids P (Some m) init greedy ar = per_dump_src ts (map (apply_map m) vals) mids P None init greedy ar /\
  s2c_src ts vals (ends_of_mids mids P) P (Some m) init greedy (allow_repeats_of ar) =
  s2c_src ts (map (apply_map m) vals) (ends_of_mids mids P) P None init greedy (allow_repeats_of ar).
Proof. split; [rewrite !per_dump_src_eq; apply per_dump_transform|rewrite !s2c_src_eq; apply events_transform]. Qed.

Lemma src_allow_repeats_same_values ts vals mids P tr init greedy ar ar' : c10_domain ts vals mids P ->
  per_dump_src ts vals mids P tr init greedy ar = per_dump_src ts vals mids P tr init greedy ar'.
Proof. intro D. rewrite !per_dump_src_coded by exact D. reflexivity. Qed.

Lemma src_prior_overrides_initial ts vals mids P tr i greedy ar : c10_domain ts vals mids P ->
  no_prior ts (hd 0 (dump_ends mids P) - P) = false ->
  per_dump_src ts vals mids P tr (Some i) greedy ar = per_dump_src ts vals mids P tr None greedy ar.
Proof.
  intros D H. destruct (domain_ends _ _ _ _ D) as [e0 [er [He [Hs [HP [Ht Hl]]]]]].
  rewrite !per_dump_src_eq. rewrite He in *. cbn [hd] in H.
  exact (per_dump_prior_overrides ts vals e0 er P tr i greedy _ Hs HP Ht Hl H).
Qed.

Lemma src_late_events_ignored ts vals lts lvals mids P tr init greedy ar :
  c10_domain (ts ++ lts) (vals ++ lvals) mids P -> length ts = length vals ->
  Forall (fun t => last (dump_ends mids P) 0 < t) lts ->
  per_dump_src (ts ++ lts) (vals ++ lvals) mids P tr init greedy ar = per_dump_src ts vals mids P tr init greedy ar.
Proof.
  intros D Hl1 Hlate. destruct (domain_ends _ _ _ _ D) as [e0 [er [He [Hs [HP [Ht Hl]]]]]].
  rewrite !per_dump_src_eq. rewrite He in *.
  assert (Hl2 : length lts = length lvals) by (rewrite !app_length in Hl; lia).
  apply (per_dump_late_ignored ts vals lts lvals e0 er P tr init greedy _ Hs HP Ht Hl1 Hl2).
  rewrite last_cons in Hlate. rewrite last_cons. exact Hlate.
Qed.

(* no greedy values: every dump takes the value in effect at its END *)
Lemma consecutive_lt a : ssorted a -> Forall (fun p => fst p < snd p) (combine a (tl a)).
Proof.
  induction a as [|x a IH]; [constructor|]. intros [Hf Hs]. destruct a as [|y a]; [constructor|].
  cbn [tl combine]. constructor; [inversion Hf; simpl; lia|]. apply IH. exact Hs.
Qed.

Lemma map_snd_combine_ge {A B} (a : list A) (b : list B) : (length b <= length a)%nat -> map snd (combine a b) = b.
Proof.
  revert a. induction b as [|y b IH]; intros a H.
  - destruct a; reflexivity.
  - destruct a as [|x a]; simpl in H; [lia|]. simpl. rewrite IH by lia. reflexivity.
Qed.

Lemma src_no_greedy_value_at_end ts vals mids P tr init ar : c10_domain ts vals mids P ->
  per_dump_src ts vals mids P tr init [] ar =
  let tv := combine ts (map (app_tr tr) vals) in
  match start_value tv init (last (dump_ends mids P) 0) with
  | Some st => Ok (map (value_at_end tv st) (dump_ends mids P))
  | None => Err
  end.
Proof.
  intro D. rewrite per_dump_src_unless_f14; [|exact D|].
  2:{ unfold f14_situation. destruct init; [|reflexivity]. destruct (dump_ends mids P); reflexivity. }
  destruct (domain_ends _ _ _ _ D) as [e0 [er [He [Hs [HP [Ht Hl]]]]]].
  unfold rule. rewrite He. unfold spec_per_dump. cbv zeta.
  set (tv := combine ts (map (app_tr tr) vals)).
  rewrite !(last_cons er e0).
  destruct (start_value tv init (last er e0)) as [st|]; [|reflexivity]. cbn [res_of]. f_equal.
  assert (Hsa : ssorted ((e0 - P) :: e0 :: er)).
  { split; [|exact Hs]. constructor; [lia|]. destruct Hs as [Hf _]. eapply Forall_impl; [|exact Hf]. simpl. intros. lia. }
  pose proof (consecutive_lt _ Hsa) as Hc. cbn [tl] in Hc.
  assert (Htv : nondecrZ (hd 0 (map fst tv)) (map fst tv)).
  { unfold tv. rewrite map_fst_combine by (rewrite map_length; exact Hl). exact Ht. }
  transitivity (map (fun p => value_at_end tv st (snd p)) (combine ((e0 - P) :: e0 :: er) (e0 :: er))).
  - apply map_ext_in. intros [lo hi] Hin. rewrite Forall_forall in Hc. specialize (Hc _ Hin). simpl in Hc.
    apply dump_value_no_greedy; [simpl; lia|exact Htv].
  - rewrite <- (map_map snd (value_at_end tv st)). rewrite map_snd_combine_ge; [reflexivity|simpl; lia].
Qed.

(* ================= non-vacuity: every hypothesis is satisfiable and every statement discriminates ================= *)
(* three dumps with mid times -1, 1, 3 (ends 0, 2, 4), period 2; values a=1 b=2 g=3 h=4 i=5 *)
Lemma domain_intro ts vals mids P :
  mids <> [] -> ssorted mids -> 0 < P -> time_sorted ts -> length ts = length vals -> c10_domain ts vals mids P.
Proof. unfold c10_domain. auto. Qed.

Ltac dom := apply domain_intro; [discriminate|simpl; repeat split; repeat constructor; lia|lia|unfold time_sorted; simpl; repeat split; lia|reflexivity].

Example ex_domain : c10_domain [-5; 1; 2; 4; 9] [2; 3; 1; 4; 2] [-1; 1; 3] 2.
Proof. dom. Qed.

(* prior event b, then g (greedy) and a inside dump 1, h on the edge of dump 2, late event ignored, plain initial value
   unused because of the prior event *)
Example ex_rule :
  per_dump_src [-5; 1; 2; 4; 9] [2; 3; 1; 4; 2] [-1; 1; 3] 2 None (Some 5) [3] None = Ok [2; 3; 4] /\
  rule [-5; 1; 2; 4; 9] [2; 3; 1; 4; 2] [-1; 1; 3] 2 None (Some 5) [3] = Ok [2; 3; 4] /\
  f14_situation [-5; 1; 2; 4; 9] (dump_ends [-1; 1; 3] 2) 2 (Some 5) [3] = false.
Proof. vm_compute. repeat split. Qed.

(* a PLAIN initial value with the first event inside dump 0 (the case the previous guard excluded): code = rule *)
Example ex_plain_initial :
  c10_domain [-1; 2] [1; 2] [-1; 1; 3] 2 /\
  f14_situation [-1; 2] (dump_ends [-1; 1; 3] 2) 2 (Some 5) [3] = false /\
  per_dump_src [-1; 2] [1; 2] [-1; 1; 3] 2 None (Some 5) [3] None = Ok [1; 2; 2] /\
  rule [-1; 2] [1; 2] [-1; 1; 3] 2 None (Some 5) [3] = Ok [1; 2; 2].
Proof. split; [dom|]. vm_compute. repeat split. Qed.

(* F14: a GREEDY initial value with the first event inside dump 0: the rule says g for dump 0, the code answers a *)
Lemma f14_refuted_src :
  exists ts vals mids P init greedy,
    c10_domain ts vals mids P /\
    f14_differs ts vals (dump_ends mids P) P None (Some init) greedy = true /\
    per_dump_src ts vals mids P None (Some init) greedy None = Ok [1; 2; 2] /\
    rule ts vals mids P None (Some init) greedy = Ok [3; 2; 2].
Proof. exists [-1; 2], [1; 2], [-1; 1; 3], 2, 3, [3]. split; [dom|]. vm_compute. repeat split. Qed.

(* ... but a greedy initial value that loses dump 0 anyway (a later greedy event inside dump 0) is harmless *)
Example ex_f14_situation_harmless :
  f14_situation [-1; 0] (dump_ends [-1; 1; 3] 2) 2 (Some 3) [3; 4] = true /\
  f14_differs [-1; 0] [1; 4] (dump_ends [-1; 1; 3] 2) 2 None (Some 3) [3; 4] = false /\
  per_dump_src [-1; 0] [1; 4] [-1; 1; 3] 2 None (Some 3) [3; 4] None = Ok [4; 4; 4].
Proof. vm_compute. repeat split. Qed.

Example ex_generator :
  let isg := fun v => memZ v [3] in
  nondecr 0 [(0, 1); (1, 2); (3, 1)] /\ Forall (fun e => fst e < 5) ((0, 3) :: [(0, 1); (1, 2); (3, 1)]) /\
  single_event_per_dump_src [0; 0; 1; 3; 5] (map isg [3; 1; 2; 1]) = ([0; 2; 3]%nat, [0; 1; 1; 3; 5]) /\
  map (ivalue isg ((0, 3) :: [(0, 1); (1, 2); (3, 1)])) [0; 1; 2; 3; 4] = [3; 2; 2; 1; 1].
Proof. simpl. split; [lia|]. split; [repeat constructor|]. split; reflexivity. Qed.

Example ex_searchsorted :
  ssorted [-2; 0; 2; 4] /\ nth_error (combine [-2; 0; 2; 4] (tl [-2; 0; 2; 4])) 1 = Some (0, 2) /\
  ss_side c10_events_side_right [-2; 0; 2; 4] 2 = 2%nat /\ ss_side c10_events_side_right [-2; 0; 2; 4] 3 = 3%nat /\
  ss_side c10_events_side_right [-2; 0; 2; 4] 0 = 1%nat.
Proof. simpl. repeat split; repeat constructor; lia. Qed.

Example ex_wellformed :
  s2c_src [-5; 1; 2; 4; 9] [2; 3; 1; 4; 2] (ends_of_mids [-1; 1; 3] 2) 2 None (Some 5) [3] (allow_repeats_of None)
    = Ok ([2; 3; 4], [0; 1; 2; 3]) /\
  (* repeats are removed by default and kept on request *)
  s2c_src [-5; 1; 3] [2; 2; 2] (ends_of_mids [-1; 1; 3] 2) 2 None None [] (allow_repeats_of None) = Ok ([2], [0; 3]) /\
  s2c_src [-5; 1; 3] [2; 2; 2] (ends_of_mids [-1; 1; 3] 2) 2 None None [] (allow_repeats_of (Some true))
    = Ok ([2; 2; 2], [0; 1; 2; 3]).
Proof. vm_compute. repeat split. Qed.

(* transform merging b into g (greedy): greedy membership and repeat removal see g *)
Example ex_transform_first :
  per_dump_src [-5; 1; 2] [1; 2; 1] [-1; 1; 3] 2 (Some [(2, 3)]) None [3] None = Ok [1; 3; 1] /\
  per_dump_src [-5; 1; 2] [1; 2; 1] [-1; 1; 3] 2 None None [3] None = Ok [1; 1; 1].
Proof. vm_compute. repeat split. Qed.

Example ex_prior_overrides :
  no_prior [-5; 1] (hd 0 (dump_ends [-1; 1; 3] 2) - 2) = false /\
  per_dump_src [-5; 1] [2; 1] [-1; 1; 3] 2 None (Some 3) [3] None = Ok [2; 1; 1] /\
  (* without the prior event the greedy initial value rules dump 0 *)
  per_dump_src [1] [1] [-1; 1; 3] 2 None (Some 3) [3] None = Ok [3; 3; 1].
Proof. vm_compute. repeat split. Qed.

Example ex_late_ignored :
  c10_domain ([-5; 1] ++ [5; 9]) ([2; 1] ++ [3; 3]) [-1; 1; 3] 2 /\
  Forall (fun t => last (dump_ends [-1; 1; 3] 2) 0 < t) [5; 9] /\
  per_dump_src ([-5; 1] ++ [5; 9]) ([2; 1] ++ [3; 3]) [-1; 1; 3] 2 None None [3] None = Ok [2; 1; 1] /\
  (* an event ON the last edge is not late *)
  per_dump_src [-5; 1; 4] [2; 1; 3] [-1; 1; 3] 2 None None [3] None = Ok [2; 1; 3].
Proof. split; [dom|]. split; [repeat constructor; vm_compute; reflexivity|]. vm_compute. repeat split. Qed.

Example ex_no_greedy :
  per_dump_src [-5; 1; 2; 4] [2; 3; 1; 4] [-1; 1; 3] 2 None None [] None = Ok [2; 1; 4] /\
  map (value_at_end (combine [-5; 1; 2; 4] [2; 3; 1; 4]) 2) (dump_ends [-1; 1; 3] 2) = [2; 1; 4].
Proof. vm_compute. repeat split. Qed.

(* out of domain: no dump, or no initial value and no event at or before the last dump -> IndexError, never data *)
Example ex_errors :
  per_dump_src [1] [1] [] 2 None (Some 3) [] None = Err /\
  per_dump_src [9] [1] [-1; 1; 3] 2 None None [] None = Err /\ rule [9] [1] [-1; 1; 3] 2 None None [] = Err /\
  (* with an initial value the same input is in the domain (F7, repaired) *)
  per_dump_src [9] [1] [-1; 1; 3] 2 None (Some 5) [] None = Ok [5; 5; 5].
Proof. vm_compute. repeat split. Qed.
