(* C07: generate_chunks satisfies every clause of the chunking spec (chunks_ok) on its whole domain. *)
From Coq Require Import ZArith List Bool Lia ZifyBool.
From KV Require Import Base.Sx Gen.Generated Model.Chunks.
Import ListNotations. Open Scope Z_scope.

(* ------------------------------------------------------------------------------------------------ *)
(* set_nth                                                                                             *)

Lemma set_nth_length : forall l i v, length (set_nth l i v) = length l.
Proof. induction l; destruct i; simpl; intros; auto. Qed.

Lemma nth_set_nth_eq : forall l i v x, (i < length l)%nat -> nth i (set_nth l i v) x = v.
Proof. induction l; destruct i; simpl; intros; try lia; auto. apply IHl; lia. Qed.

Lemma nth_set_nth_neq : forall l i j v x, i <> j -> nth i (set_nth l j v) x = nth i l x.
Proof.
  induction l; intros i j v x H.
  - destruct j; reflexivity.
  - destruct i, j; simpl; try congruence; auto.
Qed.

Lemma in_set_nth : forall l d v x, In x (set_nth l d v) -> x = v \/ In x l.
Proof.
  induction l; intros d v x H.
  - destruct d; simpl in H; contradiction.
  - destruct d; simpl in H.
    + destruct H; [left; congruence | right; right; assumption].
    + destruct H; [right; left; assumption |].
      apply IHl in H. destruct H; [left | right; right]; assumption.
Qed.

(* ------------------------------------------------------------------------------------------------ *)
(* prodZ                                                                                               *)

Lemma prodZ_cons : forall h t, prodZ (h :: t) = h * prodZ t.
Proof. reflexivity. Qed.

Lemma prodZ_set_nth : forall l d v, (d < length l)%nat -> prodZ (set_nth l d v) = v * prodZ (set_nth l d 1).
Proof.
  induction l; intros d v H; simpl in H; [lia|].
  destruct d; cbn [set_nth]; rewrite !prodZ_cons.
  - lia.
  - rewrite (IHl d v) by lia. lia.
Qed.

Lemma prodZ_split : forall l d, (d < length l)%nat -> prodZ l = nth d l 0 * prodZ (set_nth l d 1).
Proof.
  induction l; intros d H; simpl in H; [lia|].
  destruct d; cbn [set_nth nth]; rewrite !prodZ_cons.
  - lia.
  - rewrite (IHl d) at 1 by lia. lia.
Qed.

Lemma prodZ_ge1 : forall l, (forall x, In x l -> 1 <= x) -> 1 <= prodZ l.
Proof.
  induction l; intros H.
  - unfold prodZ; simpl; lia.
  - rewrite prodZ_cons.
    assert (1 <= a) by (apply H; left; reflexivity).
    assert (1 <= prodZ l) by (apply IHl; intros; apply H; right; assumption).
    nia.
Qed.

(* ------------------------------------------------------------------------------------------------ *)
(* powers of two                                                                                       *)

Lemma pow2_ge1 : forall k, 0 <= k -> 1 <= 2 ^ k.
Proof. intros. assert (0 < 2 ^ k) by (apply Z.pow_pos_nonneg; lia). lia. Qed.

Lemma is_pow2_pow : forall k, 0 <= k -> is_pow2 (2 ^ k) = true.
Proof.
  intros k Hk. unfold is_pow2. rewrite Z.log2_pow2 by assumption.
  pose proof (pow2_ge1 k Hk). rewrite Z.eqb_refl.
  destruct (0 <? 2 ^ k) eqn:E; [reflexivity | lia].
Qed.

Lemma floor_pow2_bounds : forall m, 0 < m -> 1 <= floor_pow2 m <= m.
Proof.
  intros m Hm. unfold floor_pow2. split.
  - apply pow2_ge1, Z.log2_nonneg.
  - apply (Z.log2_spec m Hm).
Qed.

Lemma floor_pow2_is_pow2 : forall m, is_pow2 (floor_pow2 m) = true.
Proof. intros. apply is_pow2_pow, Z.log2_nonneg. Qed.

(* ------------------------------------------------------------------------------------------------ *)
(* target                                                                                              *)

Lemma ceil_div_bounds : forall a n, 0 < a -> 0 < n ->
  let p := - ((- a) / n) in 1 <= p /\ a <= p * n /\ (p - 1) * n < a.
Proof.
  intros a n Ha Hn p. subst p.
  pose proof (Z.div_mod (- a) n ltac:(lia)) as E.
  pose proof (Z.mod_pos_bound (- a) n Hn) as B.
  set (q := (- a) / n) in *. set (r := (- a) mod n) in *.
  repeat split; nia.
Qed.

Lemma target_spec : forall shape de mn md pow2 d,
  0 < mn -> 0 < md -> 1 <= prodZ de -> 1 <= nth d de 0 <= nth d shape 0 ->
  let t := target shape de mn md pow2 d in
  t = 1 \/ (1 <= t /\ t * (prodZ de * md) <= nth d de 0 * mn).
Proof.
  intros shape de mn md pow2 d Hmn Hmd Hp Hx t. subst t. unfold target.
  set (x := nth d de 0) in *. set (s := nth d shape 0) in *.
  set (n := x * mn). set (dn := prodZ de * md).
  assert (Hdn : 0 < dn) by (subst dn; nia).
  assert (Hn : 0 < n) by (subst n; nia).
  destruct (n <? dn) eqn:E; [left; reflexivity | right].
  assert (Hge : dn <= n) by lia.
  destruct pow2.
  - assert (Hq : 1 <= n / dn) by (apply Z.div_le_lower_bound; lia).
    pose proof (floor_pow2_bounds (n / dn) ltac:(lia)) as [B1 B2].
    split; [assumption|].
    pose proof (Z.mul_div_le n dn Hdn).
    nia.
  - pose proof (ceil_div_bounds (s * dn) n ltac:(nia) Hn) as [P1 [P2 P3]].
    set (p := - (- (s * dn) / n)) in *.
    assert (Hps : p <= s) by nia.
    pose proof (Z.div_mod s p ltac:(lia)) as E2.
    pose proof (Z.mod_pos_bound s p ltac:(lia)) as B2.
    set (t := s / p) in *. set (r := s mod p) in *.
    assert (Ht : 1 <= t) by nia.
    split; [assumption|].
    assert (t * p <= s) by nia.
    assert (t * dn * p <= p * n) by nia.
    nia.
Qed.

Lemma target_pow2 : forall shape de mn md d, is_pow2 (target shape de mn md true d) = true.
Proof.
  intros. unfold target.
  destruct (_ <? _); [reflexivity | apply floor_pow2_is_pow2].
Qed.

(* ------------------------------------------------------------------------------------------------ *)
(* blockdim                                                                                            *)

Lemma sumZ_app : forall a b, sumZ (a ++ b) = sumZ a + sumZ b.
Proof. induction a; intros; unfold sumZ in *; cbn [app fold_right]; [lia | rewrite IHa; lia]. Qed.

Lemma sumZ_repeat : forall x k, sumZ (repeat x k) = x * Z.of_nat k.
Proof. induction k; unfold sumZ in *; cbn [repeat fold_right]; [lia | rewrite IHk; lia]. Qed.

Lemma maxZ_ge : forall l c, In c l -> c <= maxZ l.
Proof.
  induction l; intros c H; [contradiction|].
  unfold maxZ in *; cbn [fold_right]. destruct H as [-> | H]; [lia | apply IHl in H; lia].
Qed.

Lemma maxZ_le : forall l b, 0 <= b -> (forall c, In c l -> c <= b) -> maxZ l <= b.
Proof.
  induction l; intros b Hb H; unfold maxZ in *; cbn [fold_right]; [lia|].
  assert (a <= b) by (apply H; left; reflexivity).
  assert (fold_right Z.max 0 l <= b) by (apply IHl; [assumption | intros; apply H; right; assumption]).
  lia.
Qed.

Section BlockDim.
Variables d bd : Z.
Hypothesis Hbd : 1 <= bd <= d.

Lemma blockdim_unfold :
  blockdim d bd = repeat bd (Z.to_nat (d / bd)) ++ (if d mod bd =? 0 then [] else [d mod bd]).
Proof. unfold blockdim. destruct (d =? 0) eqn:E; [lia | reflexivity]. Qed.

Lemma blockdim_in : forall c, In c (blockdim d bd) -> c = bd \/ (c = d mod bd /\ d mod bd <> 0).
Proof.
  intros c H. rewrite blockdim_unfold in H. apply in_app_or in H. destruct H as [H | H].
  - left. apply repeat_spec in H. assumption.
  - right. destruct (d mod bd =? 0) eqn:E; [contradiction|].
    destruct H as [H | []]. split; lia.
Qed.

Lemma blockdim_sum : sumZ (blockdim d bd) = d.
Proof.
  rewrite blockdim_unfold, sumZ_app, sumZ_repeat.
  assert (0 <= d / bd) by (apply Z.div_pos; lia).
  rewrite Z2Nat.id by assumption.
  pose proof (Z.div_mod d bd ltac:(lia)).
  destruct (d mod bd =? 0) eqn:E; unfold sumZ; cbn [fold_right]; lia.
Qed.

Lemma blockdim_pos : forall c, In c (blockdim d bd) -> 0 < c.
Proof.
  intros c H. apply blockdim_in in H.
  pose proof (Z.mod_pos_bound d bd ltac:(lia)). lia.
Qed.

Lemma blockdim_le : forall c, In c (blockdim d bd) -> c <= bd.
Proof.
  intros c H. apply blockdim_in in H.
  pose proof (Z.mod_pos_bound d bd ltac:(lia)). lia.
Qed.

Lemma blockdim_has : In bd (blockdim d bd).
Proof.
  rewrite blockdim_unfold. apply in_or_app. left.
  assert (1 <= d / bd) by (apply Z.div_le_lower_bound; lia).
  destruct (Z.to_nat (d / bd)) eqn:E; [lia | left; reflexivity].
Qed.

Lemma blockdim_max : maxZ (blockdim d bd) = bd.
Proof.
  apply Z.le_antisymm.
  - apply maxZ_le; [lia | apply blockdim_le].
  - apply maxZ_ge, blockdim_has.
Qed.

Lemma blockdim_abl : forall c, In c (all_but_last (blockdim d bd)) -> c = bd.
Proof.
  intros c H. unfold all_but_last in H. rewrite blockdim_unfold in H.
  destruct (d mod bd =? 0).
  - rewrite app_nil_r in H.
    assert (In c (repeat bd (Z.to_nat (d / bd)))) as H1.
    { revert H. generalize (repeat bd (Z.to_nat (d / bd))). induction l; [intros []|].
      cbn [removelast]. destruct l; [intros [] |]. intros [-> | H]; [left; reflexivity | right; auto]. }
    apply repeat_spec in H1. assumption.
  - rewrite removelast_last in H. apply repeat_spec in H. assumption.
Qed.

End BlockDim.

Lemma blockdim_same : forall d, 1 <= d -> blockdim d d = [d].
Proof.
  intros d H. rewrite blockdim_unfold by lia.
  rewrite Z_div_same_full, Z_mod_same_full by lia. reflexivity.
Qed.
