(* C07: generate_chunks satisfies every clause of the chunking spec (chunks_ok) on its whole domain. *)
From Coq Require Import ZArith List Bool Lia ZifyBool.
From KV Require Import Base.Sx Gen.Generated Model.Chunks.
Import ListNotations. Open Scope Z_scope.

(* ------------------------------------------------------------------------------------------------ *)
(* set_nth                                                                                             *)

Lemma set_nth_length : forall l i v, length (set_nth l i v) = length l.
Proof. induction l; destruct i; simpl; intros; auto. Qed.

Lemma nth_set_nth_eq : forall l i v x, (i < length l)%nat -> nth i (set_nth l i v) x = v.
Proof. induction l; destruct i; simpl; intros; try lia; auto. apply IHl; lia. Qed.

Lemma nth_set_nth_neq : forall l i j v x, i <> j -> nth i (set_nth l j v) x = nth i l x.
Proof.
  induction l; intros i j v x H.
  - destruct j; reflexivity.
  - destruct i, j; simpl; try congruence; auto.
Qed.

Lemma in_set_nth : forall l d v x, In x (set_nth l d v) -> x = v \/ In x l.
Proof.
  induction l; intros d v x H.
  - destruct d; simpl in H; contradiction.
  - destruct d; simpl in H.
    + destruct H; [left; congruence | right; right; assumption].
    + destruct H; [right; left; assumption |].
      apply IHl in H. destruct H; [left | right; right]; assumption.
Qed.

(* ------------------------------------------------------------------------------------------------ *)
(* prodZ                                                                                               *)

Lemma prodZ_cons : forall h t, prodZ (h :: t) = h * prodZ t.
Proof. reflexivity. Qed.

Lemma prodZ_set_nth : forall l d v, (d < length l)%nat -> prodZ (set_nth l d v) = v * prodZ (set_nth l d 1).
Proof.
  induction l; intros d v H; simpl in H; [lia|].
  destruct d; cbn [set_nth]; rewrite !prodZ_cons.
  - lia.
  - rewrite (IHl d v) by lia. lia.
Qed.

Lemma prodZ_split : forall l d, (d < length l)%nat -> prodZ l = nth d l 0 * prodZ (set_nth l d 1).
Proof.
  induction l; intros d H; simpl in H; [lia|].
  destruct d; cbn [set_nth nth]; rewrite !prodZ_cons.
  - lia.
  - rewrite (IHl d) at 1 by lia. lia.
Qed.

Lemma prodZ_ge1 : forall l, (forall x, In x l -> 1 <= x) -> 1 <= prodZ l.
Proof.
  induction l; intros H.
  - unfold prodZ; simpl; lia.
  - rewrite prodZ_cons.
    assert (1 <= a) by (apply H; left; reflexivity).
    assert (1 <= prodZ l) by (apply IHl; intros; apply H; right; assumption).
    nia.
Qed.

(* ------------------------------------------------------------------------------------------------ *)
(* powers of two                                                                                       *)

Lemma pow2_ge1 : forall k, 0 <= k -> 1 <= 2 ^ k.
Proof. intros. assert (0 < 2 ^ k) by (apply Z.pow_pos_nonneg; lia). lia. Qed.

Lemma is_pow2_pow : forall k, 0 <= k -> is_pow2 (2 ^ k) = true.
Proof.
  intros k Hk. unfold is_pow2. rewrite Z.log2_pow2 by assumption.
  pose proof (pow2_ge1 k Hk). rewrite Z.eqb_refl.
  destruct (0 <? 2 ^ k) eqn:E; [reflexivity | lia].
Qed.

Lemma floor_pow2_bounds : forall m, 0 < m -> 1 <= floor_pow2 m <= m.
Proof.
  intros m Hm. unfold floor_pow2. split.
  - apply pow2_ge1, Z.log2_nonneg.
  - apply (Z.log2_spec m Hm).
Qed.

Lemma floor_pow2_is_pow2 : forall m, is_pow2 (floor_pow2 m) = true.
Proof. intros. apply is_pow2_pow, Z.log2_nonneg. Qed.

(* ------------------------------------------------------------------------------------------------ *)
(* target                                                                                              *)

Lemma ceil_div_bounds : forall a n, 0 < a -> 0 < n ->
  let p := - ((- a) / n) in 1 <= p /\ a <= p * n /\ (p - 1) * n < a.
Proof.
  intros a n Ha Hn p. subst p.
  pose proof (Z.div_mod (- a) n ltac:(lia)) as E.
  pose proof (Z.mod_pos_bound (- a) n Hn) as B.
  set (q := (- a) / n) in *. set (r := (- a) mod n) in *.
  repeat split; nia.
Qed.

Lemma target_spec : forall shape de mn md pow2 d,
  0 < mn -> 0 < md -> 1 <= prodZ de -> 1 <= nth d de 0 <= nth d shape 0 ->
  let t := target shape de mn md pow2 d in
  t = 1 \/ (1 <= t /\ t * (prodZ de * md) <= nth d de 0 * mn).
Proof.
  intros shape de mn md pow2 d Hmn Hmd Hp Hx t. subst t. unfold target.
  set (x := nth d de 0) in *. set (s := nth d shape 0) in *.
  set (n := x * mn). set (dn := prodZ de * md).
  assert (Hdn : 0 < dn) by (subst dn; nia).
  assert (Hn : 0 < n) by (subst n; nia).
  destruct (n <? dn) eqn:E; [left; reflexivity | right].
  assert (Hge : dn <= n) by lia.
  destruct pow2.
  - assert (Hq : 1 <= n / dn) by (apply Z.div_le_lower_bound; lia).
    pose proof (floor_pow2_bounds (n / dn) ltac:(lia)) as [B1 B2].
    split; [assumption|].
    pose proof (Z.mul_div_le n dn Hdn).
    nia.
  - pose proof (ceil_div_bounds (s * dn) n ltac:(nia) Hn) as [P1 [P2 P3]].
    set (p := - (- (s * dn) / n)) in *.
    assert (Hps : p <= s) by nia.
    pose proof (Z.div_mod s p ltac:(lia)) as E2.
    pose proof (Z.mod_pos_bound s p ltac:(lia)) as B2.
    set (t := s / p) in *. set (r := s mod p) in *.
    assert (Ht : 1 <= t) by nia.
    split; [assumption|].
    assert (t * p <= s) by nia.
    assert (t * dn * p <= p * n) by nia.
    nia.
Qed.

Lemma target_pow2 : forall shape de mn md d, is_pow2 (target shape de mn md true d) = true.
Proof.
  intros. unfold target.
  destruct (_ <? _); [reflexivity | apply floor_pow2_is_pow2].
Qed.

(* ------------------------------------------------------------------------------------------------ *)
(* blockdim                                                                                            *)

Lemma sumZ_app : forall a b, sumZ (a ++ b) = sumZ a + sumZ b.
Proof. induction a; intros; unfold sumZ in *; cbn [app fold_right]; [lia | rewrite IHa; lia]. Qed.

Lemma sumZ_repeat : forall x k, sumZ (repeat x k) = x * Z.of_nat k.
Proof. induction k; unfold sumZ in *; cbn [repeat fold_right]; [lia | rewrite IHk; lia]. Qed.

Lemma maxZ_ge : forall l c, In c l -> c <= maxZ l.
Proof.
  induction l; intros c H; [contradiction|].
  unfold maxZ in *; cbn [fold_right]. destruct H as [-> | H]; [lia | apply IHl in H; lia].
Qed.

Lemma maxZ_le : forall l b, 0 <= b -> (forall c, In c l -> c <= b) -> maxZ l <= b.
Proof.
  induction l; intros b Hb H; unfold maxZ in *; cbn [fold_right]; [lia|].
  assert (a <= b) by (apply H; left; reflexivity).
  assert (fold_right Z.max 0 l <= b) by (apply IHl; [assumption | intros; apply H; right; assumption]).
  lia.
Qed.

Section BlockDim.
Variables d bd : Z.
Hypothesis Hbd : 1 <= bd <= d.

Lemma blockdim_unfold :
  blockdim d bd = repeat bd (Z.to_nat (d / bd)) ++ (if d mod bd =? 0 then [] else [d mod bd]).
Proof. unfold blockdim. destruct (d =? 0) eqn:E; [lia | reflexivity]. Qed.

Lemma blockdim_in : forall c, In c (blockdim d bd) -> c = bd \/ (c = d mod bd /\ d mod bd <> 0).
Proof.
  intros c H. rewrite blockdim_unfold in H. apply in_app_or in H. destruct H as [H | H].
  - left. apply repeat_spec in H. assumption.
  - right. destruct (d mod bd =? 0) eqn:E; [contradiction|].
    destruct H as [H | []]. split; lia.
Qed.

Lemma blockdim_sum : sumZ (blockdim d bd) = d.
Proof.
  rewrite blockdim_unfold, sumZ_app, sumZ_repeat.
  assert (0 <= d / bd) by (apply Z.div_pos; lia).
  rewrite Z2Nat.id by assumption.
  pose proof (Z.div_mod d bd ltac:(lia)).
  destruct (d mod bd =? 0) eqn:E; unfold sumZ; cbn [fold_right]; lia.
Qed.

Lemma blockdim_pos : forall c, In c (blockdim d bd) -> 0 < c.
Proof.
  intros c H. apply blockdim_in in H.
  pose proof (Z.mod_pos_bound d bd ltac:(lia)). lia.
Qed.

Lemma blockdim_le : forall c, In c (blockdim d bd) -> c <= bd.
Proof.
  intros c H. apply blockdim_in in H.
  pose proof (Z.mod_pos_bound d bd ltac:(lia)). lia.
Qed.

Lemma blockdim_has : In bd (blockdim d bd).
Proof.
  rewrite blockdim_unfold. apply in_or_app. left.
  assert (1 <= d / bd) by (apply Z.div_le_lower_bound; lia).
  destruct (Z.to_nat (d / bd)) eqn:E; [lia | left; reflexivity].
Qed.

Lemma blockdim_max : maxZ (blockdim d bd) = bd.
Proof.
  apply Z.le_antisymm.
  - apply maxZ_le; [lia | apply blockdim_le].
  - apply maxZ_ge, blockdim_has.
Qed.

Lemma blockdim_abl : forall c, In c (all_but_last (blockdim d bd)) -> c = bd.
Proof.
  intros c H. unfold all_but_last in H. rewrite blockdim_unfold in H.
  destruct (d mod bd =? 0).
  - rewrite app_nil_r in H.
    assert (In c (repeat bd (Z.to_nat (d / bd)))) as H1.
    { revert H. generalize (repeat bd (Z.to_nat (d / bd))). induction l; [intros []|].
      cbn [removelast]. destruct l; [intros [] |]. intros [-> | H]; [left; reflexivity | right; auto]. }
    apply repeat_spec in H1. assumption.
  - rewrite removelast_last in H. apply repeat_spec in H. assumption.
Qed.

End BlockDim.

Lemma blockdim_same : forall d, 1 <= d -> blockdim d d = [d].
Proof.
  intros d H. rewrite blockdim_unfold by lia.
  rewrite Z_div_same_full, Z_mod_same_full by lia. reflexivity.
Qed.

(* ------------------------------------------------------------------------------------------------ *)
(* mem_nat                                                                                             *)

Lemma mem_nat_in : forall i l, In i l -> mem_nat i l = true.
Proof.
  intros i l H. unfold mem_nat. apply existsb_exists. exists i. split; [assumption | apply Nat.eqb_refl].
Qed.

Lemma mem_nat_snoc : forall i l d, mem_nat i (l ++ [d]) = mem_nat i l || Nat.eqb i d.
Proof. intros. unfold mem_nat. rewrite existsb_app. cbn [existsb]. rewrite orb_false_r. reflexivity. Qed.

(* ------------------------------------------------------------------------------------------------ *)
(* The invariant on dim_elements                                                                       *)

Section Gen.
Variables (shape : list Z) (mn md : Z) (pow2 : bool) (mde : list (nat * Z)).
Hypothesis Hshape : forall i, (i < length shape)%nat -> 0 < nth i shape 0.
Hypothesis Hmn : 0 < mn.
Hypothesis Hmd : 0 < md.
Hypothesis Hmde : forall i m, lookup_nat i mde = Some m -> 0 < m.

(* l: the split dimensions whose cap has been applied *)
Definition GoodP (l : list nat) (de : list Z) : Prop :=
  length de = length shape /\
  forall i, (i < length shape)%nat ->
    1 <= nth i de 0 <= nth i shape 0
    /\ (mem_nat i l = false -> nth i de 0 = nth i shape 0)
    /\ (forall m, mem_nat i l = true -> lookup_nat i mde = Some m -> nth i de 0 <= m)
    /\ (pow2 = true -> nth i de 0 = nth i shape 0 \/ is_pow2 (nth i de 0) = true).

Lemma good_set : forall l l' de d v,
  GoodP l de -> (d < length shape)%nat -> mem_nat d l' = true ->
  (forall i, i <> d -> mem_nat i l' = mem_nat i l) ->
  1 <= v <= nth d shape 0 ->
  (forall m, lookup_nat d mde = Some m -> v <= m) ->
  (pow2 = true -> is_pow2 v = true) ->
  GoodP l' (set_nth de d v).
Proof.
  intros l l' de d v [Hl H] Hd Hmem Hoth Hv Hcap Hp2.
  split; [rewrite set_nth_length; assumption|].
  intros i Hi. destruct (Nat.eq_dec i d) as [-> | Hne].
  - rewrite nth_set_nth_eq by lia.
    split; [assumption|]. split; [intros; congruence|]. split; [intros m _ L; auto|].
    intros; right; auto.
  - rewrite nth_set_nth_neq by assumption. rewrite (Hoth i Hne). apply H; assumption.
Qed.

Lemma good_same : forall l l' de d,
  GoodP l de -> (d < length shape)%nat -> mem_nat d l' = true ->
  (forall i, i <> d -> mem_nat i l' = mem_nat i l) ->
  (forall m, lookup_nat d mde = Some m -> nth d de 0 <= m) ->
  GoodP l' de.
Proof.
  intros l l' de d [Hl H] Hd Hmem Hoth Hcap.
  split; [assumption|].
  intros i Hi. destruct (Nat.eq_dec i d) as [-> | Hne].
  - destruct (H d Hi) as [A [B [C D]]].
    split; [assumption|]. split; [intros; congruence|]. split; [intros m _ L; auto | assumption].
  - rewrite (Hoth i Hne). apply H; assumption.
Qed.

Lemma cap_good : forall l, (forall d, In d l -> (d < length shape)%nat) ->
  GoodP l (fold_left (cap_step shape pow2 mde) l shape).
Proof.
  induction l using rev_ind; intros Hl.
  - cbn [fold_left]. split; [reflexivity|]. intros i Hi. pose proof (Hshape i Hi).
    split; [lia|]. split; [reflexivity|]. split; [intros m Hm; discriminate Hm | intros; left; reflexivity].
  - rewrite fold_left_app. cbn [fold_left].
    assert (IH : GoodP l (fold_left (cap_step shape pow2 mde) l shape))
      by (apply IHl; intros; apply Hl; apply in_or_app; left; assumption).
    set (de := fold_left (cap_step shape pow2 mde) l shape) in *.
    assert (Hx : (x < length shape)%nat) by (apply Hl; apply in_or_app; right; left; reflexivity).
    assert (Hmem : mem_nat x (l ++ [x]) = true) by (rewrite mem_nat_snoc, Nat.eqb_refl; apply orb_true_r).
    assert (Hoth : forall i, i <> x -> mem_nat i (l ++ [x]) = mem_nat i l).
    { intros i Hne. rewrite mem_nat_snoc. apply Nat.eqb_neq in Hne. rewrite Hne. apply orb_false_r. }
    destruct IH as [IHlen IHi]. destruct (IHi x Hx) as [A _].
    unfold cap_step. destruct (lookup_nat x mde) as [m|] eqn:L.
    + pose proof (Hmde x m L) as Hm.
      destruct (m <? nth x shape 0) eqn:C.
      * apply good_set with (l := l); try assumption; [split; assumption | | |].
        -- destruct pow2; [pose proof (floor_pow2_bounds m Hm) |]; lia.
        -- intros m' E; rewrite L in E; injection E as E'.
           destruct pow2; [pose proof (floor_pow2_bounds m Hm) |]; lia.
        -- intros ->. apply floor_pow2_is_pow2.
      * apply good_same with (l := l) (d := x); try assumption; [split; assumption|].
        intros m' E; rewrite L in E; injection E as E'. lia.
    + apply good_same with (l := l) (d := x); try assumption; [split; assumption|].
      intros m' E; rewrite L in E; discriminate E.
Qed.

(* ---------------- the split loop ---------------- *)
Variable dims : list nat.
Hypothesis Hdims : forall d, In d dims -> (d < length shape)%nat.

Local Notation Good := (GoodP dims).

Lemma good_pos : forall de, Good de -> forall x, In x de -> 1 <= x.
Proof.
  intros de [Hl H] x Hx. destruct (In_nth de x 0 Hx) as [i [Hi E]].
  rewrite Hl in Hi. destruct (H i Hi) as [A _]. lia.
Qed.

Lemma good_prod : forall de, Good de -> 1 <= prodZ de.
Proof. intros. apply prodZ_ge1, good_pos. assumption. Qed.

Lemma good_rest : forall de d, Good de -> 1 <= prodZ (set_nth de d 1).
Proof.
  intros de d G. apply prodZ_ge1. intros x Hx. apply in_set_nth in Hx.
  destruct Hx as [-> | Hx]; [lia | eapply good_pos; eassumption].
Qed.

Lemma step_facts : forall de d, Good de -> In d dims -> mn < prodZ de * md ->
  let t := target shape de mn md pow2 d in
  1 <= t <= nth d de 0 /\ (t = 1 \/ prodZ (set_nth de d t) * md <= mn).
Proof.
  intros de d G Hd Hover t.
  pose proof (Hdims d Hd) as Hlt. pose proof G as [Hl H]. destruct (H d Hlt) as [A _].
  pose proof (good_prod de G) as Hp.
  pose proof (target_spec shape de mn md pow2 d Hmn Hmd Hp A) as S. fold t in S.
  destruct S as [S | [S1 S2]].
  - split; [lia | left; assumption].
  - set (K := prodZ de * md) in *. set (x := nth d de 0) in *.
    assert (HK : 0 < K) by (subst K; nia).
    assert (x * mn < x * K) by nia.
    assert (t * K < x * K) by lia.
    assert (t < x) by nia.
    split; [lia | right].
    rewrite prodZ_set_nth by lia.
    pose proof (good_rest de d G) as HR.
    set (R := prodZ (set_nth de d 1)) in *.
    assert (EK : K = x * (R * md)) by (subst K x R; rewrite (prodZ_split de d) by lia; ring).
    rewrite EK in S2.
    assert (HX : x * (t * R * md) <= x * mn) by (replace (x * (t * R * md)) with (t * (x * (R * md))) by ring; assumption).
    apply Z.mul_le_mono_pos_l in HX; lia.
Qed.

Lemma good_step : forall de d, Good de -> In d dims -> mn < prodZ de * md ->
  Good (set_nth de d (target shape de mn md pow2 d)).
Proof.
  intros de d G Hd Hover.
  destruct (step_facts de d G Hd Hover) as [[T1 T2] _].
  pose proof (Hdims d Hd) as Hlt. pose proof G as [Hl H]. destruct (H d Hlt) as [A [B [C D]]].
  apply good_set with (l := dims); try assumption.
  - apply mem_nat_in; assumption.
  - reflexivity.
  - lia.
  - intros m L. specialize (C m (mem_nat_in d dims Hd) L). lia.
  - intros ->. apply target_pow2.
Qed.

Lemma split_stop : forall l de, prodZ de * md <= mn -> split_loop shape de mn md pow2 l = de.
Proof.
  intros l de H. destruct l; [reflexivity|]. cbn [split_loop].
  destruct (prodZ de * md <=? mn) eqn:E; [reflexivity | lia].
Qed.

Lemma split_good : forall l de, incl l dims -> Good de ->
  Good (split_loop shape de mn md pow2 l)
  /\ forall i, nth i (split_loop shape de mn md pow2 l) 0 <= nth i de 0.
Proof.
  induction l as [|d t IH]; intros de Hin G.
  - cbn [split_loop]. split; [assumption | intros; lia].
  - cbn [split_loop]. destruct (prodZ de * md <=? mn) eqn:E.
    + split; [assumption | intros; lia].
    + assert (Hd : In d dims) by (apply Hin; left; reflexivity).
      assert (Hover : mn < prodZ de * md) by lia.
      pose proof (good_step de d G Hd Hover) as G'.
      destruct (step_facts de d G Hd Hover) as [[T1 T2] _].
      destruct (IH _ (fun a Ha => Hin a (or_intror Ha)) G') as [G2 L2].
      split; [assumption|].
      intros i. specialize (L2 i). destruct (Nat.eq_dec i d) as [-> | Hne].
      * rewrite nth_set_nth_eq in L2; [lia|]. destruct G as [Hl _]. rewrite Hl. apply Hdims; assumption.
      * rewrite nth_set_nth_neq in L2 by assumption. assumption.
Qed.

Lemma split_budget : forall l de, incl l dims -> Good de ->
  prodZ (split_loop shape de mn md pow2 l) * md <= mn
  \/ forall d, In d l -> nth d (split_loop shape de mn md pow2 l) 0 = 1.
Proof.
  induction l as [|d t IH]; intros de Hin G.
  - right. intros d [].
  - cbn [split_loop]. destruct (prodZ de * md <=? mn) eqn:E; [left; lia|].
    assert (Hd : In d dims) by (apply Hin; left; reflexivity).
    assert (Hover : mn < prodZ de * md) by lia.
    pose proof (good_step de d G Hd Hover) as G'.
    assert (Hin' : incl t dims) by (intros a Ha; apply Hin; right; assumption).
    destruct (step_facts de d G Hd Hover) as [[T1 T2] [T3 | T3]].
    + destruct (IH _ Hin' G') as [B | B]; [left; assumption | right].
      intros d' [<- | Hd']; [| apply B; assumption].
      destruct (split_good t _ Hin' G') as [[Hl2 H2] L2].
      specialize (L2 d). rewrite nth_set_nth_eq in L2
        by (destruct G as [Hl _]; rewrite Hl; apply Hdims; assumption).
      destruct (H2 d (Hdims d Hd)) as [A _]. lia.
    + left. rewrite split_stop by assumption. assumption.
Qed.

Lemma final_good : Good (final_dim_elements shape mn md dims pow2 mde).
Proof.
  unfold final_dim_elements, cap_dims.
  apply split_good; [apply incl_refl | apply cap_good; assumption].
Qed.

Lemma final_budget :
  prodZ (final_dim_elements shape mn md dims pow2 mde) * md <= mn
  \/ forall d, In d dims -> nth d (final_dim_elements shape mn md dims pow2 mde) 0 = 1.
Proof.
  unfold final_dim_elements, cap_dims.
  apply split_budget; [apply incl_refl | apply cap_good; assumption].
Qed.

End Gen.

(* ------------------------------------------------------------------------------------------------ *)
(* From the invariant to the spec clauses                                                              *)

Lemma gc_length : forall shape de,
  length de = length shape ->
  length (map (fun p : Z * Z => blockdim (fst p) (snd p)) (combine shape de)) = length shape.
Proof. intros. rewrite map_length, combine_length. lia. Qed.

Lemma nth_gc : forall shape de i,
  length de = length shape -> (i < length shape)%nat ->
  nth i (map (fun p : Z * Z => blockdim (fst p) (snd p)) (combine shape de)) []
  = blockdim (nth i shape 0) (nth i de 0).
Proof.
  intros shape de i Hl Hi.
  set (f := fun p : Z * Z => blockdim (fst p) (snd p)).
  rewrite (nth_indep _ [] (f (0, 0))) by (rewrite map_length, combine_length; lia).
  rewrite map_nth. rewrite combine_nth by (symmetry; assumption). reflexivity.
Qed.

Lemma gc_domain_props : forall shape mn md dims mde, gc_domain shape mn md dims mde = true ->
  (forall i, (i < length shape)%nat -> 0 < nth i shape 0) /\ 0 < mn /\ 0 < md
  /\ (forall i m, lookup_nat i mde = Some m -> 0 < m)
  /\ (forall d, In d dims -> (d < length shape)%nat).
Proof.
  intros shape mn md dims mde H. unfold gc_domain in H.
  repeat rewrite andb_true_iff in H. destruct H as [[[[H1 H2] H3] H4] H5].
  rewrite forallb_forall in H1, H4, H5.
  split; [| split; [lia | split; [lia | split]]].
  - intros i Hi. specialize (H1 (nth i shape 0) (nth_In _ _ Hi)). lia.
  - intros i m. induction mde as [|[k v] t IH]; cbn [lookup_nat]; [discriminate|].
    destruct (Nat.eqb i k).
    + intros E; injection E as <-. specialize (H5 (k, v) (or_introl eq_refl)). cbn [snd] in H5. lia.
    + apply IH. intros x Hx. apply H5. right; assumption.
  - intros d Hd. specialize (H4 d Hd). apply Nat.ltb_lt in H4. assumption.
Qed.

Section Final.
Variables (shape : list Z) (mn md : Z) (dims : list nat) (pow2 : bool) (mde : list (nat * Z)).
Hypothesis Hdom : gc_domain shape mn md dims mde = true.

Local Notation de := (final_dim_elements shape mn md dims pow2 mde).
Local Notation out := (generate_chunks shape mn md dims pow2 mde).

Lemma fin_good : GoodP shape pow2 mde dims de.
Proof.
  destruct (gc_domain_props _ _ _ _ _ Hdom) as [H1 [H2 [H3 [H4 H5]]]].
  apply final_good; assumption.
Qed.

Lemma fin_len : length out = length shape.
Proof. apply gc_length. apply fin_good. Qed.

Lemma fin_nth : forall i, (i < length shape)%nat -> nth i out [] = blockdim (nth i shape 0) (nth i de 0).
Proof. intros. apply nth_gc; [apply fin_good | assumption]. Qed.

Lemma fin_bounds : forall i, (i < length shape)%nat -> 1 <= nth i de 0 <= nth i shape 0.
Proof. intros i Hi. destruct fin_good as [_ H]. apply (H i Hi). Qed.

Lemma gc_tiles_s : tiles_ok shape out = true.
Proof.
  unfold tiles_ok. rewrite fin_len, Nat.eqb_refl. cbn [andb].
  apply forallb_forall. intros p Hp.
  destruct (In_nth _ _ (0, []) Hp) as [i [Hi E]].
  rewrite combine_length in Hi. rewrite fin_len in Hi. rewrite Nat.min_id in Hi.
  rewrite combine_nth in E by (symmetry; apply fin_len). subst p. cbn [fst snd].
  rewrite fin_nth by assumption. pose proof (fin_bounds i Hi) as B.
  rewrite blockdim_sum by assumption. rewrite Z.eqb_refl. cbn [andb].
  apply forallb_forall. intros c Hc. apply blockdim_pos in Hc; [lia | assumption].
Qed.

Lemma gc_caps_s : caps_ok dims mde out = true.
Proof.
  destruct (gc_domain_props _ _ _ _ _ Hdom) as [H1 [H2 [H3 [H4 H5]]]].
  unfold caps_ok. apply forallb_forall. intros i Hi.
  destruct (lookup_nat i mde) as [m|] eqn:L; [| reflexivity].
  pose proof (H5 i Hi) as Hlt. rewrite fin_nth by assumption.
  pose proof (fin_bounds i Hlt) as B.
  destruct fin_good as [_ G]. destruct (G i Hlt) as [_ [_ [C _]]].
  specialize (C m (mem_nat_in i dims Hi) L).
  apply forallb_forall. intros c Hc. apply blockdim_le in Hc; [lia | assumption].
Qed.

Lemma gc_pow2_s : pow2_ok pow2 out = true.
Proof.
  unfold pow2_ok. apply orb_true_iff.
  destruct (Bool.bool_dec pow2 true) as [P | P];
    [right | left; destruct pow2; [congruence | reflexivity]].
  apply forallb_forall. intros cs Hcs.
  destruct (In_nth _ _ [] Hcs) as [i [Hi E]]. rewrite fin_len in Hi.
  rewrite fin_nth in E by assumption. subst cs.
  pose proof (fin_bounds i Hi) as B.
  destruct fin_good as [_ G]. destruct (G i Hi) as [_ [_ [_ D]]].
  apply forallb_forall. intros c Hc.
  destruct (D P) as [D1 | D1].
  - rewrite D1, blockdim_same in Hc by lia. destruct Hc.
  - apply blockdim_abl in Hc; [subst c; assumption | assumption].
Qed.

Lemma fin_map_max : map maxZ out = de.
Proof.
  assert (Hl : length de = length shape) by apply fin_good.
  apply (nth_ext _ _ 0 0).
  - rewrite map_length, fin_len. symmetry; assumption.
  - intros i Hi. rewrite map_length, fin_len in Hi.
    transitivity (maxZ (nth i out [])); [exact (map_nth maxZ out [] i)|].
    rewrite fin_nth by assumption. apply blockdim_max. apply fin_bounds; assumption.
Qed.

Lemma gc_budget_s : budget_ok mn md dims out = true.
Proof.
  destruct (gc_domain_props _ _ _ _ _ Hdom) as [H1 [H2 [H3 [H4 H5]]]].
  unfold budget_ok. rewrite fin_map_max.
  destruct (final_budget shape mn md pow2 mde H1 H2 H3 H4 dims H5) as [B | B].
  - apply orb_true_iff; left. lia.
  - apply orb_true_iff; right. apply forallb_forall. intros i Hi.
    pose proof (H5 i Hi) as Hlt. rewrite fin_nth by assumption.
    rewrite blockdim_max by (apply fin_bounds; assumption).
    rewrite (B i Hi). reflexivity.
Qed.

Lemma gc_unsplit_s : unsplit_ok dims out = true.
Proof.
  unfold unsplit_ok. apply forallb_forall. intros i Hi.
  apply in_seq in Hi. rewrite fin_len in Hi. assert (Hlt : (i < length shape)%nat) by lia.
  destruct (mem_nat i dims) eqn:M; [reflexivity | cbn [orb]].
  rewrite fin_nth by assumption.
  pose proof (fin_bounds i Hlt) as B.
  destruct fin_good as [_ G]. destruct (G i Hlt) as [_ [U _]].
  rewrite (U M), blockdim_same by lia. reflexivity.
Qed.

End Final.

(* ------------------------------------------------------------------------------------------------ *)
(* Main statements                                                                                     *)

Lemma gc_tiles : forall shape mn md dims pow2 mde, gc_domain shape mn md dims mde = true ->
  tiles_ok shape (generate_chunks shape mn md dims pow2 mde) = true.
Proof. intros. apply gc_tiles_s; assumption. Qed.

Lemma gc_caps : forall shape mn md dims pow2 mde, gc_domain shape mn md dims mde = true ->
  caps_ok dims mde (generate_chunks shape mn md dims pow2 mde) = true.
Proof. intros. apply gc_caps_s; assumption. Qed.

Lemma gc_pow2 : forall shape mn md dims pow2 mde, gc_domain shape mn md dims mde = true ->
  pow2_ok pow2 (generate_chunks shape mn md dims pow2 mde) = true.
Proof. intros. apply gc_pow2_s; assumption. Qed.

Lemma gc_budget : forall shape mn md dims pow2 mde, gc_domain shape mn md dims mde = true ->
  budget_ok mn md dims (generate_chunks shape mn md dims pow2 mde) = true.
Proof. intros. apply gc_budget_s; assumption. Qed.

Lemma gc_unsplit : forall shape mn md dims pow2 mde, gc_domain shape mn md dims mde = true ->
  unsplit_ok dims (generate_chunks shape mn md dims pow2 mde) = true.
Proof. intros. apply gc_unsplit_s with (shape := shape) (mn := mn) (md := md) (mde := mde); assumption. Qed.

Lemma generate_chunks_ok : forall shape mn md dims pow2 mde, gc_domain shape mn md dims mde = true ->
  chunks_ok shape mn md dims pow2 mde (generate_chunks shape mn md dims pow2 mde) = true.
Proof.
  intros. unfold chunks_ok.
  rewrite gc_tiles, gc_caps, gc_pow2, gc_budget, gc_unsplit by assumption. reflexivity.
Qed.
