(* C04: the hand-written models of _range_to_slice / _dask_oindex / the cull test ARE the translated expressions. *)
From Coq Require Import ZArith List Bool Lia.
From KV Require Import Base.Sx Gen.Generated Model.DaskIdx Model.DaskJoint Model.DaskGen Proofs.DaskIdxP
  Proofs.DaskTwoStageP.
Import ListNotations.
Open Scope Z_scope.

Lemma g_range_to_slice_eq : forall l, g_range_to_slice l = d_range_to_slice l.
Proof. intros [|x0 r]; reflexivity. Qed.

Lemma g_oindex_seq_eq : forall ixs a axis,
  g_oindex_seq a ixs (Z.of_nat axis) = d_oindex_seq a ixs axis.
Proof.
  induction ixs as [|ix r IH]; intros a axis; simpl; auto.
  rewrite Nat2Z.id. destruct (d_take a ix axis) as [a'|]; auto.
  unfold c04_oindex_axis_step. destruct (d_is_int ix); simpl.
  - apply IH.
  - replace (Z.of_nat axis + 1) with (Z.of_nat (S axis)) by lia. apply IH.
Qed.

Lemma g_cull_test_eq : forall a b, c04_cull_test a b = (2 * a <? b).
Proof. reflexivity. Qed.

Lemma g_culled_steps_eq : forall fuel st, g_culled_steps fuel st = j_culled_steps fuel st.
Proof.
  induction fuel as [|f IH]; intros st; [reflexivity|].
  cbn [g_culled_steps j_culled_steps]. destruct (filter _ st); [reflexivity|]. rewrite IH. reflexivity.
Qed.

Lemma g_skeletons : c04_simplify_loop_as_modelled = true /\ c04_iter_as_modelled = true.
Proof. split; reflexivity. Qed.

(* len() and iteration: the rows of transform(array[stage 1]), in order, as many as the advertised first dimension *)
Lemma d_f20_free_int : forall shape z, d_f20_free_all shape [DInt z] = true.
Proof. intros [|n sh] z; [reflexivity|]. cbn. destruct sh; reflexivity. Qed.

Lemma d_iter_spec : forall i, d_ind_ok i ->
  match d_spec_dataset i with
  | Some a =>
      match d_shape a with
      | n :: _ => d_len i = Some n /\
                  exists rows, d_iter i = Some rows /\ List.length rows = Z.to_nat n /\
                    forall k, (k < Z.to_nat n)%nat -> d_oeqv (nth k rows None) (d_oindex a [DInt (Z.of_nat k)])
      | [] => d_len i = None /\ d_iter i = None
      end
  | None => d_len i = None /\ d_iter i = None
  end.
Proof.
  intros i Hi.
  assert (A : d_adv i = match d_spec_dataset i with Some a => Some (d_shape a, d_dtype a) | None => None end).
  { apply (d_index_spec i [] Hi). intros ds _. destruct (d_shape ds); reflexivity. }
  unfold d_iter, d_len. rewrite A.
  destruct (d_spec_dataset i) as [a|] eqn:S; [|auto].
  destruct (d_shape a) as [|n sh] eqn:Sh; [auto|].
  split; [reflexivity|]. eexists. split; [reflexivity|]. split; [now rewrite map_length, seq_length|].
  intros k Hk.
  rewrite (nth_indep _ None (d_index i [DInt (Z.of_nat 0)])) by now rewrite map_length, seq_length.
  rewrite (map_nth (fun k => d_index i [DInt (Z.of_nat k)])). rewrite seq_nth by exact Hk. simpl Nat.add.
  destruct (d_index_spec i [DInt (Z.of_nat k)] Hi) as [P _].
  { intros ds _. apply d_f20_free_int. }
  unfold d_spec_index in P. rewrite S in P. exact P.
Qed.
