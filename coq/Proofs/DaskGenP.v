(* C04: the hand-written models of _range_to_slice / _dask_oindex / the cull test ARE the translated expressions. *)
From Coq Require Import ZArith List Bool Lia.
From KV Require Import Base.Sx Gen.Generated Model.DaskIdx Model.DaskJoint Model.DaskGen.
Import ListNotations.
Open Scope Z_scope.

Lemma g_range_to_slice_eq : forall l, g_range_to_slice l = d_range_to_slice l.
Proof. intros [|x0 r]; reflexivity. Qed.

Lemma g_oindex_seq_eq : forall ixs a axis,
  g_oindex_seq a ixs (Z.of_nat axis) = d_oindex_seq a ixs axis.
Proof.
  induction ixs as [|ix r IH]; intros a axis; simpl; auto.
  rewrite Nat2Z.id. destruct (d_take a ix axis) as [a'|]; auto.
  unfold c04_oindex_axis_step. destruct (d_is_int ix); simpl.
  - apply IH.
  - replace (Z.of_nat axis + 1) with (Z.of_nat (S axis)) by lia. apply IH.
Qed.

Lemma g_cull_test_eq : forall a b, c04_cull_test a b = (2 * a <? b).
Proof. reflexivity. Qed.

Lemma g_culled_steps_eq : forall fuel st, g_culled_steps fuel st = j_culled_steps fuel st.
Proof.
  induction fuel as [|f IH]; intros st; [reflexivity|].
  cbn [g_culled_steps j_culled_steps]. destruct (filter _ st); [reflexivity|]. rewrite IH. reflexivity.
Qed.

Lemma g_skeletons : c04_simplify_loop_as_modelled = true.
Proof. reflexivity. Qed.
