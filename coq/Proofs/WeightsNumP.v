(* C15: rounding and the excision formula, HDF5 v3 weights, monotonicity of the Van Vleck interpolation. *)
From Coq Require Import ZArith QArith Qabs Qcanon Qround List Bool Arith Lia Lqa.
From KV Require Import Base.Sx Gen.Generated Model.Interp Proofs.InterpP Model.Weights Proofs.WeightsP.
Import ListNotations.

(* ------------------------------------------------------------------ round half to even *)
Local Open Scope Q_scope.

Lemma floor_bounds : forall q : Q, inject_Z (Qfloor q) <= q /\ q < inject_Z (Qfloor q) + 1.
Proof.
  intro q. split; [apply Qfloor_le |].
  pose proof (Qlt_floor q) as H. rewrite inject_Z_plus in H. exact H.
Qed.

Lemma inject_succ : forall z, inject_Z (z + 1) == inject_Z z + 1.
Proof. intro z. rewrite inject_Z_plus. reflexivity. Qed.

(* the result is a nearest integer *)
Lemma rheQ_near : forall q, Qabs (q - inject_Z (rheQ q)) <= 1 # 2.
Proof.
  intro q. destruct (floor_bounds q) as [Hlo Hhi]. unfold rheQ.
  apply Qabs_Qle_condition.
  destruct (Qcompare_spec (q - inject_Z (Qfloor q)) (1 # 2)) as [E | L | G].
  - destruct (Z.even (Qfloor q)); [| rewrite inject_succ]; split; lra.
  - split; lra.
  - rewrite inject_succ. split; lra.
Qed.

(* exactly half-way between two integers: the even one *)
Lemma rheQ_tie_even : forall q, q - inject_Z (Qfloor q) == 1 # 2 -> Z.even (rheQ q) = true.
Proof.
  intros q H. unfold rheQ. rewrite (proj1 (Qeq_alt _ _) H).
  destruct (Z.even (Qfloor q)) eqn:E; [exact E |].
  rewrite Z.even_add, E. reflexivity.
Qed.

Lemma rheQ_comp : forall q q', q == q' -> rheQ q = rheQ q'.
Proof.
  intros q q' H. unfold rheQ. rewrite (Qfloor_comp _ _ H).
  assert (E : (q - inject_Z (Qfloor q') ?= 1 # 2) = (q' - inject_Z (Qfloor q') ?= 1 # 2))
    by (apply Qcompare_comp; [rewrite H; reflexivity | reflexivity]).
  now rewrite E.
Qed.

Lemma rheQ_int : forall z, rheQ (inject_Z z) = z.
Proof.
  intro z. unfold rheQ. rewrite Qfloor_Z.
  assert (E : (inject_Z z - inject_Z z ?= 1 # 2) = Lt).
  { change (inject_Z z - inject_Z z < 1 # 2). generalize (inject_Z z). intro v. lra. }
  now rewrite E.
Qed.

(* an integer within [lo - 1/2, hi + 1/2] of integers lo, hi lies in [lo, hi] *)
Lemma rheQ_between : forall q lo hi, inject_Z lo <= q -> q <= inject_Z hi -> (lo <= rheQ q <= hi)%Z.
Proof.
  intros q lo hi Hlo Hhi. pose proof (rheQ_near q) as H. apply Qabs_Qle_condition in H. destruct H as [H1 H2].
  split.
  - assert (L : inject_Z (lo - 1) < inject_Z (rheQ q)).
    { unfold Z.sub. rewrite inject_Z_plus. cbn [Z.opp]. change (inject_Z (-1)) with (-1 # 1). lra. }
    rewrite <- Zlt_Qlt in L. lia.
  - assert (L : inject_Z (rheQ q) < inject_Z (hi + 1)).
    { rewrite inject_Z_plus. change (inject_Z 1) with (1 # 1). lra. }
    rewrite <- Zlt_Qlt in L. lia.
Qed.

Local Close Scope Q_scope.
Local Open Scope Qc_scope.

(* ------------------------------------------------------------------ integers as canonical rationals *)
Lemma ZQc_mult : forall a b, ZQc (a * b) = ZQc a * ZQc b.
Proof.
  intros a b. apply Qc_is_canon. unfold ZQc, Qcmult. cbn [this Q2Qc]. rewrite !Qred_correct.
  rewrite inject_Z_mult. reflexivity.
Qed.

Lemma ZQc_pos : forall z, (0 < z)%Z -> 0 < ZQc z.
Proof.
  intros z H. unfold Qclt, ZQc. cbn [this Q2Qc]. rewrite !Qred_correct.
  change (inject_Z 0 < inject_Z z)%Q. now rewrite <- Zlt_Qlt.
Qed.

Lemma Qc_pos_nonzero : forall a : Qc, 0 < a -> a <> 0.
Proof. intros a H E. subst. now apply (Qclt_not_eq 0 0). Qed.

Lemma Qcinv_pos : forall a : Qc, 0 < a -> 0 < / a.
Proof.
  intros a H. unfold Qclt in *. unfold Qcinv. cbn [this Q2Qc]. rewrite (Qred_correct (/ a)).
  apply Qinv_lt_0_compat. exact H.
Qed.

Lemma Qc_gt_compare : forall a : Qc, 0 < a -> (a ?= 0) = Gt.
Proof. intros a H. apply Qgt_alt. exact H. Qed.

(* ------------------------------------------------------------------ excision *)
Lemma accs_per_cbf_dump : forall n k, (0 < k)%Z -> ZQc (accs_per_dump n k) / ZQc k = ZQc n.
Proof.
  intros n k Hk. unfold accs_per_dump. rewrite ZQc_mult. field. apply Qc_pos_nonzero, ZQc_pos, Hk.
Qed.

(* excision_formula: for every finite unscaled weight *)
Lemma excision_finite : forall n k (w : Qc), (0 < n)%Z -> (0 < k)%Z ->
  excision n k (Fin w) = Fin (spec_excision n k w).
Proof.
  intros n k w Hn Hk. unfold excision. rewrite accs_per_cbf_dump by assumption.
  unfold ediv_c, eround. rewrite emul_fin. cbn [eround]. rewrite emul_fin. cbn [esub_from]. rewrite emul_fin.
  f_equal. unfold spec_excision, accs_per_dump. rewrite ZQc_mult. unfold Qcdiv.
  assert (ZQc n <> 0) by (apply Qc_pos_nonzero, ZQc_pos, Hn).
  assert (ZQc k <> 0) by (apply Qc_pos_nonzero, ZQc_pos, Hk).
  field. split; assumption.
Qed.

Lemma emul_pinf_pos : forall a : Qc, 0 < a -> emul PInf (Fin a) = PInf.
Proof. intros a H. cbn. now rewrite (Qc_gt_compare a H). Qed.
Lemma emul_ninf_pos : forall a : Qc, 0 < a -> emul NInf (Fin a) = NInf.
Proof. intros a H. cbn. now rewrite (Qc_gt_compare a H). Qed.

(* non-finite unscaled weights: NaN stays NaN, +inf (more than everything) -> -inf, -inf -> +inf *)
Lemma excision_nonfinite : forall n k, (0 < n)%Z -> (0 < k)%Z ->
  excision n k NaN = NaN /\ excision n k PInf = NInf /\ excision n k NInf = PInf.
Proof.
  intros n k Hn Hk. unfold excision. rewrite accs_per_cbf_dump by assumption.
  assert (Pn : 0 < ZQc n) by (apply ZQc_pos, Hn).
  assert (PA : 0 < ZQc (accs_per_dump n k)) by (apply ZQc_pos; unfold accs_per_dump; lia).
  unfold ediv_c. split; [reflexivity |]. split.
  - rewrite (emul_pinf_pos _ (Qcinv_pos _ Pn)). cbn [eround]. rewrite (emul_pinf_pos _ Pn). cbn [esub_from].
    apply emul_ninf_pos, Qcinv_pos, PA.
  - rewrite (emul_ninf_pos _ (Qcinv_pos _ Pn)). cbn [eround]. rewrite (emul_ninf_pos _ Pn). cbn [esub_from].
    apply emul_pinf_pos, Qcinv_pos, PA.
Qed.

(* the number of correlator dumps the weight is rounded to is a nearest integer, ties to the even one *)
Lemma excision_rounds_nearest : forall (q : Qc), (Qabs (q - inject_Z (rhe q)) <= 1 # 2)%Q.
Proof. intro q. apply rheQ_near. Qed.

Lemma Qc_this_div_Z : forall (w : Qc) n, (0 < n)%Z -> (this (w / ZQc n) == this w / inject_Z n)%Q.
Proof.
  intros w n Hn. unfold Qcdiv, Qcmult, Qcinv, ZQc. cbn [this Q2Qc]. rewrite !Qred_correct. reflexivity.
Qed.

(* 0 <= w <= accumulations per dump  ->  the excision fraction lies in [0, 1] *)
Lemma excision_range : forall n k (w : Qc), (0 < n)%Z -> (0 < k)%Z ->
  0 <= w -> w <= ZQc (accs_per_dump n k) -> 0 <= spec_excision n k w /\ spec_excision n k w <= 1.
Proof.
  intros n k w Hn Hk H0 HA.
  assert (Pn : 0 < ZQc n) by (apply ZQc_pos, Hn).
  assert (Pk : 0 < ZQc k) by (apply ZQc_pos, Hk).
  assert (Hr : (0 <= rhe (w / ZQc n) <= k)%Z).
  { unfold rhe. apply rheQ_between; rewrite Qc_this_div_Z by assumption.
    - change (inject_Z 0) with 0%Q. apply Qle_shift_div_l.
      + change 0%Q with (inject_Z 0). rewrite <- Zlt_Qlt. exact Hn.
      + rewrite Qmult_0_l. exact H0.
    - apply Qle_shift_div_r; [change 0%Q with (inject_Z 0); rewrite <- Zlt_Qlt; exact Hn |].
      unfold Qcle, ZQc, accs_per_dump in HA. cbn [this Q2Qc] in HA. rewrite Qred_correct in HA.
      rewrite <- inject_Z_mult. rewrite Z.mul_comm. exact HA. }
  set (r := rhe (w / ZQc n)) in *.
  assert (E : spec_excision n k w = 1 - ZQc r / ZQc k).
  { unfold spec_excision. fold r. field. split; apply Qc_pos_nonzero; assumption. }
  rewrite E. clear E. clearbody r.
  assert (R0 : 0 <= ZQc r).
  { unfold Qcle, ZQc. cbn [this Q2Qc]. rewrite !Qred_correct. change (inject_Z 0 <= inject_Z r)%Q.
    rewrite <- Zle_Qle. lia. }
  assert (Rk : ZQc r <= ZQc k).
  { unfold Qcle, ZQc. cbn [this Q2Qc]. rewrite !Qred_correct. rewrite <- Zle_Qle. lia. }
  assert (D0 : 0 <= ZQc r / ZQc k).
  { unfold Qcdiv. replace 0 with (0 * / ZQc k) by ring. apply Qcmult_le_compat_r; [exact R0 |].
    apply Qclt_le_weak, Qcinv_pos, Pk. }
  assert (D1 : ZQc r / ZQc k <= 1).
  { unfold Qcdiv. replace 1 with (ZQc k * / ZQc k) by (field; apply Qc_pos_nonzero, Pk).
    apply Qcmult_le_compat_r; [exact Rk |]. apply Qclt_le_weak, Qcinv_pos, Pk. }
  set (d := ZQc r / ZQc k) in *. clearbody d.
  split.
  - apply Qcle_minus_iff in D1. exact D1.
  - apply Qcle_minus_iff. replace (1 + - (1 - d)) with d by ring. exact D0.
Qed.

(* accumulations_per_dump when the dump period is a whole number m of correlator dumps: n_accs * m *)
Lemma cbf_dumps_whole : forall (cdp : Qc) m, cdp <> 0 -> cbf_dumps (ZQc m * cdp) cdp = m.
Proof.
  intros cdp m H. unfold cbf_dumps, rhe.
  replace (ZQc m * cdp / cdp) with (ZQc m) by (field; exact H).
  unfold ZQc. cbn [this Q2Qc]. rewrite (rheQ_comp _ (inject_Z m)) by apply Qred_correct. apply rheQ_int.
Qed.

(* ------------------------------------------------------------------ HDF5 v3 *)
Lemma v3_both : forall w wc, v3_weight true true true w wc = emul w wc.
Proof. reflexivity. Qed.
Lemma emul_one_l : forall x, emul (Fin 1) x = x.
Proof.
  intros [a| | |]; cbn; try reflexivity. f_equal. ring.
Qed.
Lemma emul_one_r : forall x, emul x (Fin 1) = x.
Proof. intro x. rewrite emul_comm. apply emul_one_l. Qed.
Lemma v3_absent : forall w wc,
  v3_weight true false true w wc = wc /\ v3_weight true true false w wc = w /\ v3_weight true false false w wc = Fin 1.
Proof.
  intros. unfold v3_weight, v3_read. rewrite emul_one_l, emul_one_r. split; [reflexivity |]. split; [reflexivity |].
  apply emul_one_l.
Qed.
Lemma v3_unselected : forall hw hwc w wc, v3_weight false hw hwc w wc = Fin 1.
Proof. reflexivity. Qed.

Local Close Scope Qc_scope.
Local Open Scope Q_scope.

(* ------------------------------------------------------------------ Van Vleck: monotone interpolation *)
Fixpoint nondec_y (l : list node) : Prop :=
  match l with
  | [] => True
  | (_, y0) :: t => match t with [] => True | (_, y1) :: _ => y0 <= y1 end /\ nondec_y t
  end.

Lemma seg_slope : forall x0 y0 x1 y1, x0 < x1 -> y0 <= y1 -> 0 <= (y1 - y0) / (x1 - x0).
Proof. intros. apply Qle_shift_div_l; lra. Qed.

Lemma seg_mono : forall x0 y0 x1 y1 x x', x0 < x1 -> y0 <= y1 -> x <= x' -> seg x0 y0 x1 y1 x <= seg x0 y0 x1 y1 x'.
Proof.
  intros. unfold seg. pose proof (seg_slope x0 y0 x1 y1 H H0) as S.
  set (s := (y1 - y0) / (x1 - x0)) in *. nra.
Qed.

Lemma seg_right : forall x0 y0 x1 y1, x0 < x1 -> seg x0 y0 x1 y1 x1 == y1.
Proof. intros. unfold seg. field. lra. Qed.

Lemma seg_lower : forall x0 y0 x1 y1 x, x0 < x1 -> y0 <= y1 -> x0 <= x -> y0 <= seg x0 y0 x1 y1 x.
Proof.
  intros. rewrite <- (seg_at_left x0 y0 x1 y1 x0) at 1 by lra. apply seg_mono; assumption.
Qed.

Lemma seg_upper : forall x0 y0 x1 y1 x, x0 < x1 -> y0 <= y1 -> x <= x1 -> seg x0 y0 x1 y1 x <= y1.
Proof.
  intros. rewrite <- (seg_right x0 y0 x1 y1) at 2 by assumption. apply seg_mono; assumption.
Qed.

Lemma nondec_tail : forall n l, nondec_y (n :: l) -> nondec_y l.
Proof. intros [x y] l H. simpl in H. tauto. Qed.

(* y0 <= every later ordinate *)
Lemma nondec_last : forall l x0 y0, nondec_y ((x0, y0) :: l) -> y0 <= snd (last l (x0, y0)).
Proof.
  induction l as [| [x1 y1] t IH]; intros x0 y0 H; [simpl; lra |].
  simpl in H. destruct H as [H01 H1].
  change (last ((x1, y1) :: t) (x0, y0)) with (last ((x1, y1) :: t) (x0, y0)).
  rewrite last_cons_default. specialize (IH x1 y1 H1). lra.
Qed.

Lemma interp_from_bounds : forall l x0 y0 x, strictly_inc ((x0, y0) :: l) -> nondec_y ((x0, y0) :: l) -> x0 <= x ->
  y0 <= interp_from x0 y0 l x /\ interp_from x0 y0 l x <= snd (last l (x0, y0)).
Proof.
  induction l as [| [x1 y1] t IH]; intros x0 y0 x Hs Hn Hx; [simpl; lra |].
  pose proof (nondec_last _ _ _ (nondec_tail _ _ Hn)) as HL.
  simpl in Hs, Hn. destruct Hs as [Hx01 Hs]. destruct Hn as [Hy01 Hn].
  cbn [interp_from]. rewrite last_cons_default.
  destruct (Qle_bool x1 x) eqn:E.
  - apply Qle_bool_iff in E. destruct (IH x1 y1 x Hs Hn E) as [A B]. split; lra.
  - assert (x < x1) by (destruct (Qlt_le_dec x x1); [assumption | apply Qle_bool_iff in q; congruence]).
    split; [apply seg_lower; assumption |].
    assert (seg x0 y0 x1 y1 x <= y1) by (apply seg_upper; lra). lra.
Qed.

Lemma interp_from_mono : forall l x0 y0 x x', strictly_inc ((x0, y0) :: l) -> nondec_y ((x0, y0) :: l) ->
  x0 <= x -> x <= x' -> interp_from x0 y0 l x <= interp_from x0 y0 l x'.
Proof.
  induction l as [| [x1 y1] t IH]; intros x0 y0 x x' Hs Hn Hx Hxx; [simpl; lra |].
  pose proof Hs as Hs0. pose proof Hn as Hn0.
  simpl in Hs, Hn. destruct Hs as [Hx01 Hs]. destruct Hn as [Hy01 Hn].
  cbn [interp_from].
  destruct (Qle_bool x1 x) eqn:E.
  - apply Qle_bool_iff in E. rewrite (qle_true x1 x') by lra. apply IH; assumption.
  - assert (x < x1) by (destruct (Qlt_le_dec x x1); [assumption | apply Qle_bool_iff in q; congruence]).
    destruct (Qle_bool x1 x') eqn:E'.
    + apply Qle_bool_iff in E'. destruct (interp_from_bounds t x1 y1 x' Hs Hn E') as [A _].
      assert (seg x0 y0 x1 y1 x <= y1) by (apply seg_upper; lra). lra.
    + apply seg_mono; assumption.
Qed.

Lemma interp_d_bounds : forall x0 y0 l x, strictly_inc ((x0, y0) :: l) -> nondec_y ((x0, y0) :: l) ->
  y0 <= interp_d ((x0, y0) :: l) x /\ interp_d ((x0, y0) :: l) x <= snd (last l (x0, y0)).
Proof.
  intros x0 y0 l x Hs Hn. unfold interp_d, interp.
  destruct (Qle_bool x0 x) eqn:E.
  - apply Qle_bool_iff in E. now apply interp_from_bounds.
  - pose proof (nondec_last _ _ _ Hn). lra.
Qed.

(* vanvleck_monotone (finite powers): a larger stored power never gives a smaller corrected one *)
Lemma interp_d_mono : forall nodes x x', strictly_inc nodes -> nondec_y nodes -> x <= x' ->
  interp_d nodes x <= interp_d nodes x'.
Proof.
  intros [| [x0 y0] l] x x' Hs Hn Hxx; [unfold interp_d; simpl; lra |].
  unfold interp_d, interp.
  destruct (Qle_bool x0 x) eqn:E.
  - apply Qle_bool_iff in E. rewrite (qle_true x0 x') by lra. now apply interp_from_mono.
  - destruct (Qle_bool x0 x') eqn:E'.
    + apply Qle_bool_iff in E'. now apply interp_from_bounds.
    + lra.
Qed.

(* the order of the extended numbers (NaN is not comparable) *)
Definition ele (x y : Ext) : Prop :=
  match x, y with
  | NaN, _ => False
  | _, NaN => False
  | NInf, _ => True
  | _, PInf => True
  | Fin a, Fin b => (a <= b)%Qc
  | _, _ => False
  end.

Lemma Q2Qc_le : forall a b, a <= b -> (Q2Qc a <= Q2Qc b)%Qc.
Proof. intros a b H. unfold Qcle. cbn [this Q2Qc]. now rewrite !Qred_correct. Qed.

Lemma vv_interp_mono : forall table x y, strictly_inc table -> nondec_y table ->
  ele x y -> ele (vv_interp table x) (vv_interp table y).
Proof.
  intros [| [x0 y0] l] x y Hs Hn H.
  - destruct x, y; cbn in *; try tauto; try apply Qcle_refl.
  - destruct x as [a| | |], y as [b| | |]; cbn [ele vv_interp] in *; try tauto; apply Q2Qc_le.
    + now apply interp_d_mono.
    + rewrite last_cons_default. now apply interp_d_bounds.
    + apply Qle_refl.
    + cbn [hd snd]. now apply interp_d_bounds.
    + cbn [hd snd]. rewrite last_cons_default. now apply nondec_last.
    + apply Qle_refl.
Qed.

(* a corrected power is a finite number whenever the stored one is not NaN *)
Lemma vv_interp_finite : forall table x, x <> NaN -> isfinite (vv_interp table x) = true.
Proof. intros table [a| | |] H; cbn; congruence. Qed.
