(* C02: lemmas about the select() model: closed forms of the loop / reset code, invariant, refinement. *)
From Coq Require Import ZArith List Bool String Ascii Lia Permutation PeanoNat.
From KV Require Import Base.Sx Base.Str Base.SelSlice Gen.Generated Model.Select Proofs.SelectBaseP.
Import ListNotations.
Open Scope Z_scope.

(* ---------------------------------------------------------------- the tables regenerated from the source *)
Lemma tables_are_documented :
  sel_time_selectors = doc_group DT /\ sel_freq_selectors = doc_group DF /\ sel_corrprod_selectors = doc_group DB
  /\ sel_valid_kwargs = doc_valid /\ sel_strict_default = true
  /\ sel_noarg_reset = "TFB"%string /\ sel_default_reset = "auto"%string
  /\ sel_auto_table = [("T"%string, doc_group DT); ("F"%string, doc_group DF); ("B"%string, doc_group DB)]
  /\ sel_clear_table = [("T"%string, ("_time_keep"%string, doc_group DT));
                        ("F"%string, ("_freq_keep"%string, doc_group DF));
                        ("B"%string, ("_corrprod_keep"%string, doc_group DB))].
Proof. repeat split; reflexivity. Qed.

(* dimension of a keyword according to the documented groups *)
Definition key_dim (k : string) : option dim :=
  if mem_string k (doc_group DT) then Some DT
  else if mem_string k (doc_group DF) then Some DF
  else if mem_string k (doc_group DB) then Some DB
  else None.

(* every branch of the re-application loop in the source updates the mask of its keyword's documented group *)
Lemma loop_table_matches_groups :
  forallb (fun row => forallb (fun k => match attr_dim (snd row), key_dim k with
                                        | Some d, Some d' => dim_eqb d d'
                                        | None, None => true
                                        | _, _ => false end) (fst row)) sel_loop_table = true
  /\ flat_map fst sel_loop_table = doc_group DT ++ doc_group DF ++ doc_group DB ++ ["weights"%string; "flags"%string].
Proof. split; reflexivity. Qed.

Ltac key_cases k :=
  repeat match goal with
         | |- context [String.eqb k ?lit] => destruct (String.eqb_spec k lit); [subst k|]
         end.

Lemma crit_key_dim : forall o k v,
  match crit o k v with
  | CMask d _ => key_dim k = Some d
  | CNone => key_dim k = None
  | CErr => key_dim k <> None
  end.
Proof.
  intros o k v. unfold crit.
  key_cases k;
    try (destruct v; simpl; try (intro; discriminate); try reflexivity;
         match goal with |- context [lift _ ?x] => destruct x; simpl; try reflexivity; intro; discriminate end).
  (* none of the twelve *)
  unfold key_dim, mem_string, doc_group. simpl.
  repeat match goal with H : k <> _ |- _ => apply String.eqb_neq in H; rewrite H; clear H end.
  reflexivity.
Qed.

Lemma key_dim_group : forall k d, key_dim k = Some d <-> mem_string k (doc_group d) = true.
Proof.
  intros k d. unfold key_dim.
  destruct (mem_string k (doc_group DT)) eqn:A.
  - unfold mem_string, doc_group in A. simpl in A.
    repeat match type of A with (String.eqb k ?l || _)%bool = true =>
      destruct (String.eqb_spec k l); [subst k; destruct d; simpl; split; (reflexivity || discriminate)|simpl in A] end.
    discriminate.
  - destruct (mem_string k (doc_group DF)) eqn:B.
    + unfold mem_string, doc_group in B. simpl in B.
      repeat match type of B with (String.eqb k ?l || _)%bool = true =>
        destruct (String.eqb_spec k l); [subst k; destruct d; simpl; split; (reflexivity || discriminate)|simpl in B] end.
      discriminate.
    + destruct (mem_string k (doc_group DB)) eqn:C.
      * unfold mem_string, doc_group in C. simpl in C.
        repeat match type of C with (String.eqb k ?l || _)%bool = true =>
          destruct (String.eqb_spec k l); [subst k; destruct d; simpl; split; (reflexivity || discriminate)|simpl in C] end.
        discriminate.
      * split; [discriminate|]. destruct d; congruence.
Qed.

Lemma crit_mask_group : forall o k v d m, crit o k v = CMask d m -> mem_string k (doc_group d) = true.
Proof. intros o k v d m H. apply key_dim_group. pose proof (crit_key_dim o k v) as K. rewrite H in K. exact K. Qed.

Lemma crit_none_of_key_dim : forall o k v, key_dim k = None -> crit o k v = CNone.
Proof.
  intros o k v H. pose proof (crit_key_dim o k v) as K. destruct (crit o k v); congruence.
Qed.

(* lengths of the masks *)
Lemma length_zpos : forall n, List.length (zpos n) = n.
Proof. intro n. unfold zpos. rewrite map_length, seq_length. reflexivity. Qed.

Lemma index_mask_len : forall n ix m, index_mask n ix = Some m -> List.length m = n.
Proof.
  intros n ix m. destruct ix; simpl.
  - destruct (Nat.eqb_spec (List.length m0) n); [intro H; inversion H; subst; auto|].
    destruct m0 as [|b0 [|? ?]]; intro H; inversion H. apply repeat_length.
  - destruct (index_ok _ _); intro H; inversion H. rewrite map_length. apply length_zpos.
  - destruct (slice_adjust _ _ _ _) as [[[? ?] ?]|]; intro H; inversion H. rewrite map_length. apply length_zpos.
  - destruct (forallb _ _); intro H; inversion H. rewrite map_length. apply length_zpos.
Qed.

Lemma crit_len : forall o k v d m, crit o k v = CMask d m -> List.length m = dimlen o d.
Proof.
  intros o k v d m. unfold crit.
  key_cases k; try (intro; discriminate).
  - (* dumps *) destruct v; try (intro; discriminate).
    destruct (index_mask _ i) eqn:E; simpl; intro H; inversion H; subst. eapply index_mask_len; eauto.
  - destruct v; try (intro; discriminate). intro H; inversion H; subst. apply map_length.
  - destruct v; try (intro; discriminate). intro H; inversion H; subst. apply map_length.
  - destruct v; try (intro; discriminate). intro H; inversion H; subst. apply map_length.
  - destruct v; try (intro; discriminate). intro H; inversion H; subst. apply map_length.
  - destruct v; try (intro; discriminate). intro H; inversion H; subst. apply map_length.
  - (* channels *) destruct v; try (intro; discriminate).
    destruct (index_mask _ i) eqn:E; simpl; intro H; inversion H; subst. eapply index_mask_len; eauto.
  - destruct v; try (intro; discriminate). intro H; inversion H; subst. apply map_length.
  - (* corrprods *)
    destruct (corrprods_mask o v) eqn:E; simpl; intro H; inversion H; subst. simpl.
    destruct v; simpl in E; try discriminate; try (inversion E; apply map_length).
    eapply index_mask_len; eauto.
  - (* ants *) destruct v; try (intro; discriminate). intro H; inversion H; subst. simpl.
    unfold ants_mask. destruct (is_deselection l); apply map_length.
  - destruct v; try (intro; discriminate). intro H; inversion H; subst. apply map_length.
  - (* pol *) destruct v; try (intro; discriminate).
    destruct (pol_mask o l) eqn:E; simpl; intro H; inversion H; subst. simpl.
    unfold pol_mask in E. destruct (filter pitem_nonempty l).
    + inversion E. apply length_ones.
    + destruct (forallb _ _); inversion E. apply map_length.
Qed.

(* ---------------------------------------------------------------- closed form of the loop *)
(* masks of the criteria of dimension d in a dictionary, by the dimension the loop branch acts on *)
Definition dmasks (o : obs) (d : dim) (l : kwargs) : list (list bool) :=
  flat_map (fun kv => match crit o (fst kv) (snd kv) with
                      | CMask d' m => if dim_eqb d d' then [m] else []
                      | _ => [] end) l.

Definition loop_fn (o : obs) (l : kwargs) (s : st) : st :=
  {| tk := fold_left mand (dmasks o DT l) (tk s);
     fk := fold_left mand (dmasks o DF l) (fk s);
     bk := fold_left mand (dmasks o DB l) (bk s);
     sel := sel s;
     wk := lastw "weights" l (wk s); flk := lastw "flags" l (flk s) |}.

Lemma fold_err : forall o l e,
  fold_left (fun r kv => match r with Ok s => apply1 o s kv | Err e => Err e end) l (Err e) = Err e.
Proof. induction l; simpl; auto. Qed.

Lemma crit_none_weights : forall o v, crit o "weights" v = CNone /\ crit o "flags" v = CNone.
Proof. intros. split; reflexivity. Qed.

Lemma loop_closed : forall o l s,
  loop o l s = if all_ok o l then Ok (loop_fn o l s) else Err EFail.
Proof.
  unfold loop. induction l as [|[k v] l IH]; intro s.
  - simpl. destruct s; reflexivity.
  - simpl fold_left. unfold apply1 at 2. simpl fst; simpl snd.
    unfold all_ok. simpl forallb. fold (all_ok o l).
    destruct (crit o k v) as [| |d m] eqn:C; simpl.
    + apply fold_err.
    + (* no mask: weights / flags / nothing *)
      destruct (String.eqb_spec k "weights"); [|destruct (String.eqb_spec k "flags")].
      * subst. rewrite IH. destruct (all_ok o l); reflexivity.
      * subst. rewrite IH. destruct (all_ok o l); reflexivity.
      * rewrite IH. destruct (all_ok o l); [|reflexivity]. f_equal.
        unfold loop_fn, dmasks, lastw. simpl. rewrite C.
        apply String.eqb_neq in n. apply String.eqb_neq in n0. rewrite n, n0. reflexivity.
    + rewrite IH. destruct (all_ok o l); [|reflexivity]. f_equal.
      assert (Kw : String.eqb k "weights" = false).
      { destruct (String.eqb_spec k "weights"); auto. subst. rewrite (proj1 (crit_none_weights o v)) in C. discriminate. }
      assert (Kf : String.eqb k "flags" = false).
      { destruct (String.eqb_spec k "flags"); auto. subst. rewrite (proj2 (crit_none_weights o v)) in C. discriminate. }
      unfold loop_fn, dmasks, lastw. simpl. rewrite C, Kw, Kf.
      destruct d; simpl; reflexivity.
Qed.

(* pointwise reading of the folded masks *)
Definition cbit (o : obs) (d : dim) (i : nat) (kv : string * value) : bool :=
  match crit o (fst kv) (snd kv) with
  | CMask d' m => if dim_eqb d d' then nth i m false else true
  | _ => true
  end.

Lemma forallb_dmasks : forall o d i l,
  forallb (fun m => nth i m false) (dmasks o d l) = forallb (cbit o d i) l.
Proof.
  unfold dmasks. induction l as [|kv l IH]; simpl; auto.
  rewrite forallb_app, IH. f_equal. unfold cbit.
  destruct (crit o (fst kv) (snd kv)); simpl; auto.
  destruct (dim_eqb d d0); simpl; auto. apply andb_true_r.
Qed.

Lemma dmasks_len : forall o d l m, In m (dmasks o d l) -> List.length m = dimlen o d.
Proof.
  unfold dmasks. intros o d l m H. apply in_flat_map in H. destruct H as [kv [_ H]].
  destruct (crit o (fst kv) (snd kv)) eqn:C; simpl in H; try tauto.
  destruct (dim_eqb d d0) eqn:E; simpl in H; try tauto. destruct H as [H|[]]. subst.
  assert (d = d0) by (destruct d, d0; simpl in E; congruence). subst.
  eapply crit_len; eauto.
Qed.

(* spec side: the criteria are picked by documented group; same masks *)
Lemma spec_crit_masks_dmasks : forall o d kw, spec_crit_masks o d kw = dmasks o d kw.
Proof.
  unfold spec_crit_masks, dmasks. intros o d kw. apply flat_map_ext. intros [k v]. simpl.
  pose proof (crit_key_dim o k v) as K.
  destruct (crit o k v) as [| |d' m] eqn:C.
  - destruct (mem_string k (doc_group d)); reflexivity.
  - destruct (mem_string k (doc_group d)); reflexivity.
  - destruct (mem_string k (doc_group d)) eqn:M.
    + apply key_dim_group in M. assert (d = d') by congruence. subst. destruct d'; reflexivity.
    + destruct (dim_eqb d d') eqn:E; auto.
      assert (d = d') by (destruct d, d'; simpl in E; congruence). subst.
      apply key_dim_group in K. congruence.
Qed.

(* ---------------------------------------------------------------- closed form of the reset code *)
Definition dims : list dim := [DT; DF; DB].
Definition popped (reset : string) (k : string) : bool :=
  existsb (fun d => has_char (doc_letter d) reset && mem_string k (doc_group d)) dims.

Definition clear_fn (o : obs) (reset : string) (s : st) : st :=
  {| tk := if has_char "T" reset then ones (dimlen o DT) else tk s;
     fk := if has_char "F" reset then ones (dimlen o DF) else fk s;
     bk := if has_char "B" reset then ones (dimlen o DB) else bk s;
     sel := filter (fun p => negb (popped reset (fst p))) (sel s);
     wk := wk s; flk := flk s |}.

Lemma clear_closed : forall o reset s, clear o reset s = clear_fn o reset s.
Proof.
  intros o reset s. unfold clear, sel_clear_table.
  change sel_time_selectors with (doc_group DT). change sel_freq_selectors with (doc_group DF).
  change sel_corrprod_selectors with (doc_group DB).
  cbn [fold_left]. unfold clear_row. cbn [fst snd letter_in].
  change (attr_dim "_time_keep") with (Some DT). change (attr_dim "_freq_keep") with (Some DF).
  change (attr_dim "_corrprod_keep") with (Some DB).
  unfold clear_fn, popped, dims. cbn [existsb].
  change (doc_letter DT) with "T"%char. change (doc_letter DF) with "F"%char. change (doc_letter DB) with "B"%char.
  destruct s as [t f b sl w fl].
  destruct (has_char "T" reset); destruct (has_char "F" reset); destruct (has_char "B" reset);
    unfold set_sel, mset; cbn [tk fk bk sel wk flk andb orb];
    rewrite ?fold_remove_keys, ?filter_filter; f_equal;
    first [ apply filter_ext; intro p; rewrite ?negb_orb, ?orb_false_r, ?andb_true_r; reflexivity
          | symmetry; apply filter_true ].
Qed.

Lemma has_char_auto : forall kw d,
  has_char (doc_letter d) (auto_reset kw) = hits kw (doc_group d).
Proof.
  intros kw d. unfold auto_reset, sel_auto_table. simpl fold_left.
  change sel_time_selectors with (doc_group DT). change sel_freq_selectors with (doc_group DF).
  change sel_corrprod_selectors with (doc_group DB).
  destruct (hits kw (doc_group DT)) eqn:A; destruct (hits kw (doc_group DF)) eqn:B;
    destruct (hits kw (doc_group DB)) eqn:C; destruct d; simpl; auto.
Qed.

(* ---------------------------------------------------------------- closed form of select *)
Definition kw3_of (kw : kwargs) : kwargs :=
  set_key "subarray" (match lookup "subarray" kw with Some v => v | None => VAtom 0 end)
    (set_key "spw" (match lookup "spw" kw with Some v => v | None => VAtom 0 end) (remove_key "reset" kw)).

Definition reset_of (kw : kwargs) : string :=
  match kw with
  | [] => "TFB"
  | _ => match lookup "reset" kw with
         | Some (VStr r) => if String.eqb r "auto" then auto_reset (kw3_of kw) else r
         | _ => auto_reset (kw3_of kw)
         end
  end.

Definition precheck (kw : kwargs) : option err :=
  let strict := match lookup "strict" kw with Some v => truthy v | None => true end in
  if strict && existsb (fun p => negb (mem_string (fst p) doc_valid)) kw then Some ETypeError
  else if negb (atom0 (lookup "spw" kw) && atom0 (lookup "subarray" kw) && reset_wellformed kw) then Some EFail
  else None.

Definition sel_of (s : st) (kw : kwargs) : kwargs :=
  update (filter (fun p => negb (popped (reset_of kw) (fst p))) (sel s)) (kw3_of kw).

Definition select_fn (o : obs) (s : st) (kw : kwargs) : st :=
  loop_fn o (sel_of s kw) (set_sel (sel_of s kw) (clear_fn o (reset_of kw) s)).

Lemma select_closed : forall o s kw,
  select o s kw = match precheck kw with
                  | Some e => Err e
                  | None => if all_ok o (sel_of s kw) then Ok (select_fn o s kw) else Err EFail
                  end.
Proof.
  intros o s kw. unfold select, precheck. cbv zeta.
  change sel_valid_kwargs with doc_valid. change sel_strict_default with true.
  change sel_noarg_reset with "TFB"%string. change sel_default_reset with "auto"%string.
  destruct (_ && existsb _ kw); [reflexivity|].
  assert (H1 : lookup "spw" (remove_key "reset" kw) = lookup "spw" kw) by (rewrite lookup_remove_key; reflexivity).
  rewrite H1.
  assert (H2 : forall v, lookup "subarray" (set_key "spw" v (remove_key "reset" kw)) = lookup "subarray" kw)
    by (intro v; rewrite lookup_set_key, lookup_remove_key; reflexivity).
  rewrite !H2.
  unfold select_fn, sel_of, reset_of. fold (kw3_of kw).
  destruct (lookup "spw" kw) as [[| | | | | | | | | | | |[|p|p]]|]; try reflexivity;
  destruct (lookup "subarray" kw) as [[| | | | | | | | | | | |[|p|p]]|]; try reflexivity;
  (destruct kw as [|p0 kw0];
   [ cbn [atom0 reset_wellformed lookup find andb negb]; rewrite clear_closed, loop_closed; reflexivity
   | unfold reset_wellformed;
     destruct (lookup "reset" (p0 :: kw0)) as [[| | | | | | | | | | |r|]|]; try reflexivity;
     cbn [atom0 andb negb]; rewrite clear_closed, loop_closed; reflexivity ]).
Qed.

(* ---------------------------------------------------------------- the dictionary after the call *)
Definition special (k : string) : Prop := k = "reset"%string \/ k = "spw"%string \/ k = "subarray"%string.

Lemma crit_special : forall o k v, special k -> crit o k v = CNone.
Proof. intros o k v [H|[H|H]]; subst; reflexivity. Qed.

Lemma NoDup_kw3 : forall kw, NoDup (keys kw) -> NoDup (keys (kw3_of kw)).
Proof.
  intros kw N. unfold kw3_of. apply NoDup_set_key, NoDup_set_key.
  unfold remove_key. apply NoDup_keys_filter. exact N.
Qed.

Lemma lookup_kw3 : forall kw k,
  lookup k (kw3_of kw) =
  if String.eqb k "subarray" then Some (match lookup "subarray" kw with Some v => v | None => VAtom 0 end)
  else if String.eqb k "spw" then Some (match lookup "spw" kw with Some v => v | None => VAtom 0 end)
  else if String.eqb k "reset" then None else lookup k kw.
Proof. intros. unfold kw3_of. rewrite !lookup_set_key, lookup_remove_key. reflexivity. Qed.

Lemma NoDup_sel_of : forall s kw, NoDup (keys (sel s)) -> NoDup (keys (sel_of s kw)).
Proof. intros. unfold sel_of. apply NoDup_update. apply NoDup_keys_filter. assumption. Qed.

Lemma lookup_sel_of : forall s kw k, NoDup (keys kw) ->
  lookup k (sel_of s kw) = match lookup k (kw3_of kw) with
                           | Some v => Some v
                           | None => if negb (popped (reset_of kw) k) then lookup k (sel s) else None
                           end.
Proof.
  intros s kw k N. unfold sel_of. rewrite lookup_update by (apply NoDup_kw3; exact N).
  rewrite (lookup_filter_key (fun x => negb (popped (reset_of kw) x))). reflexivity.
Qed.

Lemma in_sel_of : forall s kw k v, NoDup (keys kw) -> NoDup (keys (sel s)) -> In (k, v) (sel_of s kw) ->
  special k \/ In (k, v) kw \/ (In (k, v) (sel s) /\ popped (reset_of kw) k = false).
Proof.
  intros s kw k v N Ns H. apply in_lookup in H; [|apply NoDup_sel_of; exact Ns].
  rewrite lookup_sel_of in H by exact N. rewrite lookup_kw3 in H.
  destruct (String.eqb_spec k "subarray"); [left; right; right; assumption|].
  destruct (String.eqb_spec k "spw"); [left; right; left; assumption|].
  destruct (String.eqb_spec k "reset"); [left; left; assumption|].
  destruct (lookup k kw) eqn:E.
  - inversion H; subst. right. left. apply lookup_some_in. exact E.
  - destruct (popped (reset_of kw) k); simpl in H; [discriminate|].
    right. right. split; [apply lookup_some_in; exact H | reflexivity].
Qed.

Lemma kw_in_sel_of : forall s kw k v, NoDup (keys kw) -> In (k, v) kw -> ~ special k -> In (k, v) (sel_of s kw).
Proof.
  intros s kw k v N H Hs. apply lookup_some_in. rewrite lookup_sel_of by exact N. rewrite lookup_kw3.
  destruct (String.eqb_spec k "subarray"); [exfalso; apply Hs; right; right; assumption|].
  destruct (String.eqb_spec k "spw"); [exfalso; apply Hs; right; left; assumption|].
  destruct (String.eqb_spec k "reset"); [exfalso; apply Hs; left; assumption|].
  rewrite (in_lookup k v kw N H). reflexivity.
Qed.

Lemma special_dec : forall k, special k \/ ~ special k.
Proof.
  intro k. unfold special.
  destruct (String.eqb_spec k "reset"); [tauto|].
  destruct (String.eqb_spec k "spw"); [tauto|].
  destruct (String.eqb_spec k "subarray"); tauto.
Qed.

(* ---------------------------------------------------------------- reset dimensions *)
Definition R (kw : kwargs) (d : dim) : bool := has_char (doc_letter d) (reset_of kw).

Lemma hits_iff : forall kw grp, hits kw grp = true <-> exists k, In k (keys kw) /\ mem_string k grp = true.
Proof.
  intros. unfold hits. rewrite existsb_exists. split.
  - intros [p [H1 H2]]. exists (fst p). split; auto. apply in_map. exact H1.
  - intros [k [H1 H2]]. unfold keys in H1. apply in_map_iff in H1. destruct H1 as [p [E H1]]. subst. exists p. auto.
Qed.

Lemma special_not_in_group : forall k d, special k -> mem_string k (doc_group d) = false.
Proof. intros k d [H|[H|H]]; subst; destruct d; reflexivity. Qed.

Lemma keys_kw3 : forall kw k, In k (keys (kw3_of kw)) <->
  k = "subarray"%string \/ k = "spw"%string \/ (k <> "reset"%string /\ In k (keys kw)).
Proof.
  intros kw k. unfold kw3_of. rewrite !keys_set_key_in.
  assert (In k (keys (remove_key "reset" kw)) <-> k <> "reset"%string /\ In k (keys kw)).
  { unfold remove_key, keys. rewrite !in_map_iff. split.
    - intros [p [E H]]. apply filter_In in H. destruct H as [H1 H2]. subst. split.
      + intro E. rewrite E in H2. discriminate.
      + exists p. auto.
    - intros [Hn [p [E H]]]. exists p. split; auto. apply filter_In. split; auto.
      subst. destruct (String.eqb_spec "reset" (fst p)); auto; congruence. }
  tauto.
Qed.

Lemma hits_kw3 : forall kw d, hits (kw3_of kw) (doc_group d) = hits kw (doc_group d).
Proof.
  intros kw d. apply eq_iff_eq_true. rewrite !hits_iff. split; intros [k [H1 H2]]; exists k; split; auto.
  - apply keys_kw3 in H1. destruct H1 as [H|[H|[_ H]]]; auto.
    + rewrite special_not_in_group in H2; [discriminate | right; right; exact H].
    + rewrite special_not_in_group in H2; [discriminate | right; left; exact H].
  - apply keys_kw3. right. right. split; auto. intro E.
    rewrite special_not_in_group in H2; [discriminate | left; exact E].
Qed.

Lemma R_spec : forall kw d, precheck kw = None -> R kw d = spec_reset kw d.
Proof.
  intros kw d P. unfold R, reset_of, spec_reset. destruct kw as [|p kw]; [destruct d; reflexivity|].
  destruct (lookup "reset" (p :: kw)) as [v|] eqn:E.
  - destruct v; try (unfold precheck in P; unfold reset_wellformed in P; rewrite E in P;
                     rewrite andb_false_r in P; simpl in P; destruct (_ && _); discriminate).
    destruct (String.eqb s "auto"); [rewrite has_char_auto; apply hits_kw3 | reflexivity].
  - rewrite has_char_auto. apply hits_kw3.
Qed.

Lemma popped_R : forall kw k d, mem_string k (doc_group d) = true -> popped (reset_of kw) k = R kw d.
Proof.
  intros kw k d M. unfold popped, dims, R. cbn [existsb].
  apply key_dim_group in M.
  destruct (mem_string k (doc_group DT)) eqn:A; [apply key_dim_group in A|];
  destruct (mem_string k (doc_group DF)) eqn:B; try apply key_dim_group in B;
  destruct (mem_string k (doc_group DB)) eqn:C; try apply key_dim_group in C;
  try congruence;
  try (assert (d = DT) by congruence); try (assert (d = DF) by congruence); try (assert (d = DB) by congruence);
  subst; rewrite ?andb_true_r, ?andb_false_r, ?orb_false_r; try reflexivity.
  exfalso. unfold key_dim in M. rewrite A, B, C in M. discriminate.
Qed.

(* ---------------------------------------------------------------- masks after the call *)
Definition base (o : obs) (s : st) (kw : kwargs) (d : dim) : list bool :=
  if R kw d then ones (dimlen o d) else mget d s.

Lemma mget_select_fn : forall o s kw d,
  mget d (select_fn o s kw) = fold_left mand (dmasks o d (sel_of s kw)) (base o s kw d).
Proof. intros. unfold select_fn, loop_fn, clear_fn, set_sel, base, R. destruct d; reflexivity. Qed.

Lemma sel_select_fn : forall o s kw, sel (select_fn o s kw) = sel_of s kw.
Proof. reflexivity. Qed.

Definition wf_st (o : obs) (s : st) : Prop := forall d, List.length (mget d s) = dimlen o d.

Lemma base_len : forall o s kw d, wf_st o s -> List.length (base o s kw d) = dimlen o d.
Proof. intros o s kw d W. unfold base. destruct (R kw d); [apply length_ones | apply W]. Qed.

Lemma wf_select_fn : forall o s kw, wf_st o s -> wf_st o (select_fn o s kw).
Proof.
  intros o s kw W d. rewrite mget_select_fn. apply length_fold_mand; [apply base_len; exact W|].
  intros m H. eapply dmasks_len; eauto.
Qed.

Lemma nth_select_fn : forall o s kw d i,
  nth i (mget d (select_fn o s kw)) false = nth i (base o s kw d) false && forallb (cbit o d i) (sel_of s kw).
Proof. intros. rewrite mget_select_fn, nth_fold_mand, forallb_dmasks. reflexivity. Qed.

(* ---------------------------------------------------------------- invariant *)
(* every retained criterion already holds of the masks (and can be evaluated) *)
Definition holds (o : obs) (s : st) (kv : string * value) : Prop :=
  match crit o (fst kv) (snd kv) with
  | CErr => False
  | CNone => True
  | CMask d m => forall i, nth i (mget d s) false = true -> nth i m false = true
  end.

Record Inv (o : obs) (s : st) : Prop := {
  inv_wf : wf_st o s;
  inv_nodup : NoDup (keys (sel s));
  inv_holds : forall kv, In kv (sel s) -> holds o s kv;
  (* a retained weights= / flags= entry is the current weights / flags selection *)
  inv_wk : forall v, lookup "weights" (sel s) = Some v -> wk s = v;
  inv_flk : forall v, lookup "flags" (sel s) = Some v -> flk s = v
}.

Lemma inv_init : forall o, Inv o (init o).
Proof.
  intro o. split.
  - intro d. destruct d; simpl; apply length_ones.
  - simpl. repeat constructor; simpl; intuition discriminate.
  - intros kv [H|[H|[]]]; subst; exact Logic.I.
  - intros v H. discriminate.
  - intros v H. discriminate.
Qed.

Lemma all_ok_in : forall o l kv, all_ok o l = true -> In kv l -> crit o (fst kv) (snd kv) <> CErr.
Proof.
  intros o l kv A H. unfold all_ok in A. rewrite forallb_forall in A. specialize (A kv H).
  intro E. rewrite E in A. discriminate.
Qed.

Lemma inv_select_fn : forall o s kw, wf_st o s -> NoDup (keys (sel s)) ->
  all_ok o (sel_of s kw) = true -> Inv o (select_fn o s kw).
Proof.
  intros o s kw W N A. split.
  - apply wf_select_fn. exact W.
  - rewrite sel_select_fn. apply NoDup_sel_of. exact N.
  - rewrite sel_select_fn. intros kv H. unfold holds.
    pose proof (all_ok_in o _ kv A H) as Hc.
    destruct (crit o (fst kv) (snd kv)) as [| |d m] eqn:C; [congruence | exact Logic.I |].
    intros i Hi. rewrite nth_select_fn in Hi. apply andb_true_iff in Hi. destruct Hi as [_ Hi].
    rewrite forallb_forall in Hi. specialize (Hi kv H). unfold cbit in Hi. rewrite C in Hi.
    destruct d; simpl in Hi; exact Hi.
  - intros v H. rewrite sel_select_fn in H. change (wk (select_fn o s kw)) with (lastw "weights" (sel_of s kw) (wk s)).
    rewrite lastw_lookup by (apply NoDup_sel_of; exact N). rewrite H. reflexivity.
  - intros v H. rewrite sel_select_fn in H. change (flk (select_fn o s kw)) with (lastw "flags" (sel_of s kw) (flk s)).
    rewrite lastw_lookup by (apply NoDup_sel_of; exact N). rewrite H. reflexivity.
Qed.

Lemma inv_select : forall o s kw s', Inv o s -> select o s kw = Ok s' -> Inv o s'.
Proof.
  intros o s kw s' [W N _ _ _] H. rewrite select_closed in H.
  destruct (precheck kw); [discriminate|].
  destruct (all_ok o (sel_of s kw)) eqn:A; [|discriminate].
  inversion H. subst. apply inv_select_fn; assumption.
Qed.

(* states reachable from the constructor by successful calls *)
Inductive reachable (o : obs) : st -> Prop :=
| reach_init : reachable o (init o)
| reach_step : forall s kw s', reachable o s -> select o s kw = Ok s' -> reachable o s'.

Lemma reachable_inv : forall o s, reachable o s -> Inv o s.
Proof. induction 1; [apply inv_init | eapply inv_select; eauto]. Qed.

(* ---------------------------------------------------------------- refinement *)
Lemma all_ok_sel_of : forall o s kw, Inv o s -> NoDup (keys kw) -> all_ok o (sel_of s kw) = all_ok o kw.
Proof.
  intros o s kw [W N Hh _ _] Nk. apply eq_iff_eq_true. unfold all_ok. rewrite !forallb_forall. split; intros H [k v] Hin.
  - simpl. destruct (special_dec k) as [S|S]; [rewrite (crit_special o k v S); reflexivity|].
    apply (H (k, v)). apply kw_in_sel_of; assumption.
  - simpl. apply in_sel_of in Hin; auto. destruct Hin as [S|[Hin|[Hin _]]].
    + rewrite (crit_special o k v S). reflexivity.
    + apply (H (k, v) Hin).
    + specialize (Hh (k, v) Hin). unfold holds in Hh. simpl in Hh. destruct (crit o k v); simpl; tauto.
Qed.

Lemma cbit_sel_of : forall o s kw d i, Inv o s -> NoDup (keys kw) ->
  nth i (base o s kw d) false = true ->
  forallb (cbit o d i) (sel_of s kw) = forallb (cbit o d i) kw.
Proof.
  intros o s kw d i [W N Hh _ _] Nk B. apply eq_iff_eq_true. rewrite !forallb_forall. split; intros H [k v] Hin.
  - destruct (special_dec k) as [S|S]; [unfold cbit; simpl; rewrite (crit_special o k v S); reflexivity|].
    apply (H (k, v)). apply kw_in_sel_of; assumption.
  - apply in_sel_of in Hin; auto. destruct Hin as [S|[Hin|[Hin Hp]]].
    + unfold cbit; simpl; rewrite (crit_special o k v S); reflexivity.
    + apply (H (k, v) Hin).
    + specialize (Hh (k, v) Hin). unfold holds in Hh. unfold cbit. simpl in *.
      destruct (crit o k v) as [| |d' m] eqn:C; auto.
      destruct (dim_eqb d d') eqn:E; auto.
      assert (d = d') by (destruct d, d'; simpl in E; congruence). subst d'.
      apply Hh. apply crit_mask_group in C. rewrite (popped_R kw k d C) in Hp.
      unfold base in B. rewrite Hp in B. exact B.
Qed.

Definition res_masks (r : res st) : res masks :=
  match r with Ok s => Ok (masks_of s) | Err e => Err e end.

Lemma masks_eq : forall a b, (forall d, mk d a = mk d b) -> a = b.
Proof.
  intros [a1 a2 a3] [b1 b2 b3] H. pose proof (H DT). pose proof (H DF). pose proof (H DB). simpl in *. congruence.
Qed.

Lemma refine_dim : forall o s kw d, Inv o s -> NoDup (keys kw) -> precheck kw = None ->
  mget d (select_fn o s kw) = spec_dim o d (mget d s) kw.
Proof.
  intros o s kw d HI Nk P. unfold spec_dim. rewrite spec_crit_masks_dmasks, <- (R_spec kw d P).
  fold (base o s kw d). rewrite mget_select_fn.
  pose proof (inv_wf _ _ HI) as W.
  apply mask_ext.
  - rewrite !(length_fold_mand _ _ (dimlen o d)); auto using base_len; intros m H; eapply dmasks_len; eauto.
  - intro i. rewrite !nth_fold_mand, !forallb_dmasks.
    destruct (nth i (base o s kw d) false) eqn:B; [|reflexivity]. cbn [andb].
    apply cbit_sel_of; auto.
Qed.

Lemma refines_inv : forall o s kw, Inv o s -> NoDup (keys kw) ->
  res_masks (select o s kw) = spec_select o (masks_of s) kw.
Proof.
  intros o s kw HI Nk. rewrite select_closed. unfold spec_select.
  pose proof (refine_dim o s kw) as HD. unfold precheck in *.
  destruct (_ && existsb _ kw); [reflexivity|].
  destruct (negb (atom0 _ && atom0 _ && _)); [reflexivity|].
  rewrite (all_ok_sel_of o s kw HI Nk). destruct (all_ok o kw); [|reflexivity].
  cbn [res_masks negb]. f_equal. apply masks_eq. intro d.
  destruct d; cbn [mk masks_of m_t m_f m_b];
    [apply (HD DT) | apply (HD DF) | apply (HD DB)]; auto.
Qed.
