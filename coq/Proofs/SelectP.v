(* C02: lemmas about the select() model. *)
From Coq Require Import ZArith List Bool String Ascii Lia.
From KV Require Import Base.Sx Base.Str Base.SelSlice Gen.Generated Model.Select.
Import ListNotations.
Open Scope Z_scope.

Lemma tables_are_documented :
  sel_time_selectors = doc_group DT /\ sel_freq_selectors = doc_group DF /\ sel_corrprod_selectors = doc_group DB
  /\ sel_valid_kwargs = doc_valid.
Proof. repeat split; reflexivity. Qed.
