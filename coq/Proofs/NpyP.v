(* C08: the .npy framing -- round trip and "no proper prefix decodes", for all headers, bodies and sizes. *)
From Coq Require Import ZArith List Bool Lia.
From KV Require Import Base.Sx Model.Npy.
Import ListNotations.
Open Scope Z_scope.

Lemma bytes_eqb_refl : forall a, bytes_eqb a a = true.
Proof. induction a; simpl; auto. rewrite Z.eqb_refl. auto. Qed.

Lemma bytes_eqb_eq : forall a b, bytes_eqb a b = true <-> a = b.
Proof.
  induction a; destruct b; simpl; split; intro H; try discriminate; auto.
  - apply andb_prop in H. destruct H as [H1 H2]. apply Z.eqb_eq in H1. apply IHa in H2. congruence.
  - inversion H; subst. rewrite Z.eqb_refl. simpl. apply bytes_eqb_refl.
Qed.

Lemma bytes_eqb_length : forall a b, bytes_eqb a b = true -> List.length a = List.length b.
Proof. intros a b H. apply bytes_eqb_eq in H. now subst. Qed.

(* reading |A| bytes from the first k bytes of A ++ rest *)
Lemma rb_firstn_app : forall (A rest : bytes) k,
  read_bytes (List.length A) (firstn k (A ++ rest)) =
  if Nat.ltb k (List.length A) then None else Some (A, firstn (k - List.length A) rest).
Proof.
  intros A rest k. unfold read_bytes. rewrite firstn_length, app_length.
  destruct (Nat.ltb k (List.length A)) eqn:Hk.
  - apply Nat.ltb_lt in Hk. assert (Nat.ltb (Nat.min k (List.length A + List.length rest)) (List.length A) = true) as ->; auto.
    apply Nat.ltb_lt. lia.
  - apply Nat.ltb_ge in Hk.
    assert (Nat.ltb (Nat.min k (List.length A + List.length rest)) (List.length A) = false) as ->.
    { apply Nat.ltb_ge. lia. }
    rewrite firstn_app. rewrite (firstn_all2 A) by lia.
    rewrite firstn_app, firstn_all, Nat.sub_diag. simpl. rewrite app_nil_r.
    rewrite skipn_app, skipn_all, Nat.sub_diag. simpl. reflexivity.
Qed.

Lemma rb_app : forall (A rest : bytes), read_bytes (List.length A) (A ++ rest) = Some (A, rest).
Proof.
  intros A rest. pose proof (rb_firstn_app A rest (List.length A + List.length rest)) as H.
  rewrite firstn_all2 in H by (rewrite app_length; lia). rewrite H.
  assert (Nat.ltb (List.length A + List.length rest) (List.length A) = false) as -> by (apply Nat.ltb_ge; lia).
  rewrite firstn_all2 by lia. reflexivity.
Qed.

(* little-endian length field *)
Lemma le_encode_length : forall nb v, List.length (le_encode nb v) = nb.
Proof. induction nb; simpl; auto. Qed.

Lemma le_roundtrip : forall nb v, 0 <= v < 256 ^ Z.of_nat nb -> le_decode (le_encode nb v) = v.
Proof.
  induction nb; intros v Hv.
  - simpl in *. lia.
  - change (le_encode (S nb) v) with ((v mod 256) :: le_encode nb (v / 256)).
    change (le_decode ((v mod 256) :: le_encode nb (v / 256)))
      with (v mod 256 + 256 * le_decode (le_encode nb (v / 256))).
    assert (Hq : 0 <= v / 256 < 256 ^ Z.of_nat nb).
    { rewrite Nat2Z.inj_succ, Z.pow_succ_r in Hv by lia.
      split; [apply Z.div_pos; lia|apply Z.div_lt_upper_bound; lia]. }
    rewrite (IHnb _ Hq). pose proof (Z.div_mod v 256 ltac:(lia)). lia.
Qed.

Lemma hlen_fits : forall major nb n, hlen_bytes major = Some nb -> Z.of_nat n <= max_header_size ->
  0 <= Z.of_nat n < 256 ^ Z.of_nat nb.
Proof.
  intros major nb n H Hn. unfold hlen_bytes in H. unfold max_header_size in Hn.
  destruct (major =? 1); [inversion H; subst; simpl; lia|].
  destruct ((major =? 2) || (major =? 3)); inversion H; subst; simpl; lia.
Qed.

Section FramingAt.
  Variable parse_hdr : bytes -> option hdr.
  Variable print_hdr : hdr -> bytes.
  (* every statement is about ONE header m that the parser reads back: parse_hdr (print_hdr m) = Some m *)

  Definition file_len (nb : nat) (m : hdr) (body : bytes) : nat :=
    (8 + nb + List.length (print_hdr m) + List.length body)%nat.

  Lemma encode_length : forall major nb m body,
    List.length (encode print_hdr major nb m body) = file_len nb m body.
  Proof.
    intros. unfold encode, file_len. repeat rewrite app_length. rewrite le_encode_length. simpl. lia.
  Qed.

  (* the common core: read_array on the first k bytes of a well-formed file *)
  Lemma read_array_prefix_at : forall short versions major nb m body k,
    parse_hdr (print_hdr m) = Some m ->
    wf_file print_hdr major nb m body ->
    existsb (Z.eqb major) versions = true ->
    read_array parse_hdr short versions (firstn k (encode print_hdr major nb m body)) =
    if Nat.ltb k (file_len nb m body) then Err short else Ok (m, body).
  Proof.
    intros short versions major nb m body k Hpp [Hnb [Hmax [isz [Hisz Hbody]]]] Hver.
    unfold file_len.
    set (H := print_hdr m) in *.
    set (HL := le_encode nb (Z.of_nat (List.length H))).
    assert (HLlen : List.length HL = nb) by apply le_encode_length.
    assert (Hdec : le_decode HL = Z.of_nat (List.length H)).
    { apply le_roundtrip. eapply hlen_fits; eauto. }
    unfold encode. fold H. fold HL.
    change (magic_prefix ++ [major; 0] ++ HL ++ H ++ body)
      with ((magic_prefix ++ [major; 0]) ++ (HL ++ H ++ body)).
    set (P8 := magic_prefix ++ [major; 0]).
    assert (P8len : List.length P8 = 8%nat) by reflexivity.
    unfold read_array.
    pose proof (rb_firstn_app P8 (HL ++ H ++ body) k) as R1. rewrite P8len in R1. rewrite R1. clear R1.
    destruct (Nat.ltb k 8) eqn:K8.
    { apply Nat.ltb_lt in K8. assert (Nat.ltb k (8 + nb + List.length H + List.length body) = true) as ->; auto.
      apply Nat.ltb_lt. lia. }
    apply Nat.ltb_ge in K8.
    assert (bytes_eqb (firstn 6 P8) magic_prefix = true) as -> by reflexivity.
    assert (nth 6 P8 0 = major) as -> by reflexivity.
    assert (nth 7 P8 0 = 0) as -> by reflexivity.
    rewrite Hver. simpl negb. cbv iota. rewrite Hnb.
    pose proof (rb_firstn_app HL (H ++ body) (k - 8)) as R2. rewrite HLlen in R2. rewrite R2. clear R2.
    destruct (Nat.ltb (k - 8) nb) eqn:K2.
    { apply Nat.ltb_lt in K2. assert (Nat.ltb k (8 + nb + List.length H + List.length body) = true) as ->; auto.
      apply Nat.ltb_lt. lia. }
    apply Nat.ltb_ge in K2.
    rewrite Hdec. rewrite Nat2Z.id.
    rewrite firstn_length, app_length.
    pose proof (rb_firstn_app H body (k - 8 - nb)) as R3. rewrite R3. clear R3.
    destruct (Nat.ltb (k - 8 - nb) (List.length H)) eqn:K3.
    { apply Nat.ltb_lt in K3.
      assert (Nat.ltb k (8 + nb + List.length H + List.length body) = true) as -> by (apply Nat.ltb_lt; lia).
      destruct (Z.of_nat (Nat.min (k - 8 - nb) (List.length H + List.length body)) <? Z.of_nat (List.length H)); reflexivity. }
    apply Nat.ltb_ge in K3.
    assert (Z.of_nat (Nat.min (k - 8 - nb) (List.length H + List.length body)) <? Z.of_nat (List.length H) = false) as ->.
    { apply Z.ltb_ge. lia. }
    assert (max_header_size <? Z.of_nat (List.length H) = false) as -> by (apply Z.ltb_ge; lia).
    rewrite Hpp. rewrite Hisz. rewrite <- Hbody.
    pose proof (rb_firstn_app body [] (k - 8 - nb - List.length H)) as R4. rewrite app_nil_r in R4. rewrite R4. clear R4.
    destruct (Nat.ltb (k - 8 - nb - List.length H) (List.length body)) eqn:K4.
    - apply Nat.ltb_lt in K4.
      assert (Nat.ltb k (8 + nb + List.length H + List.length body) = true) as -> by (apply Nat.ltb_lt; lia). reflexivity.
    - apply Nat.ltb_ge in K4.
      assert (Nat.ltb k (8 + nb + List.length H + List.length body) = false) as -> by (apply Nat.ltb_ge; lia). reflexivity.
  Qed.

  Lemma versions_npy : forall major nb, hlen_bytes major = Some nb -> existsb (Z.eqb major) [1; 2; 3] = true.
  Proof.
    intros major nb H. unfold hlen_bytes in H. simpl.
    destruct (major =? 1) eqn:E1; [apply Z.eqb_eq in E1; subst; reflexivity|].
    destruct (major =? 2) eqn:E2; [apply Z.eqb_eq in E2; subst; reflexivity|].
    destruct (major =? 3) eqn:E3; [apply Z.eqb_eq in E3; subst; reflexivity|].
    simpl in H. discriminate.
  Qed.

  (* np.load on the first k bytes of a well-formed file *)
  Lemma np_load_prefix_at : forall major nb m body k,
    parse_hdr (print_hdr m) = Some m ->
    wf_file print_hdr major nb m body ->
    np_load parse_hdr (firstn k (encode print_hdr major nb m body)) =
    if Nat.ltb k (file_len nb m body) then (if Nat.eqb k 0 then Err EEOF else Err EValue) else Ok (m, body).
  Proof.
    intros major nb m body k Hpp Hwf.
    pose proof (read_array_prefix_at EValue [1; 2; 3] major nb m body k Hpp Hwf
                 (versions_npy major nb (proj1 Hwf))) as RA.
    unfold np_load.
    destruct k as [|k].
    { simpl firstn. cbv iota. unfold file_len. reflexivity. }
    rewrite firstn_firstn.
    destruct (Nat.ltb (S k) 6) eqn:K6.
    - (* fewer than 6 bytes: a proper prefix of the magic string *)
      apply Nat.ltb_lt in K6. rewrite Nat.min_r by lia.
      assert (Nat.ltb (S k) (file_len nb m body) = true) as -> by (apply Nat.ltb_lt; unfold file_len; lia).
      simpl Nat.eqb. cbv iota.
      unfold encode.
      do 5 (destruct k as [|k]; [reflexivity|]). lia.
    - apply Nat.ltb_ge in K6. rewrite Nat.min_l by lia.
      assert (firstn 6 (encode print_hdr major nb m body) = magic_prefix) as -> by reflexivity.
      assert (starts_with zip_prefix magic_prefix || starts_with zip_suffix magic_prefix = false) as -> by reflexivity.
      assert (bytes_eqb magic_prefix magic_prefix = true) as -> by reflexivity.
      unfold magic_prefix at 1. cbv iota. rewrite RA.
      destruct (Nat.ltb (S k) (file_len nb m body)); reflexivity.
  Qed.

  (* ---- the statements used by Props/C08.v ---- *)
  Theorem decode_encode_at : forall major nb m body,
    parse_hdr (print_hdr m) = Some m ->
    wf_file print_hdr major nb m body ->
    np_load parse_hdr (encode print_hdr major nb m body) = Ok (m, body).
  Proof.
    intros major nb m body Hpp Hwf.
    pose proof (np_load_prefix_at major nb m body (file_len nb m body) Hpp Hwf) as H.
    rewrite firstn_all2 in H by (rewrite encode_length; lia).
    rewrite Nat.ltb_irrefl in H. exact H.
  Qed.

  Theorem truncation_never_data_at : forall major nb m body k,
    parse_hdr (print_hdr m) = Some m ->
    wf_file print_hdr major nb m body ->
    (k < List.length (encode print_hdr major nb m body))%nat ->
    np_load parse_hdr (firstn k (encode print_hdr major nb m body)) = Err (if Nat.eqb k 0 then EEOF else EValue).
  Proof.
    intros major nb m body k Hpp Hwf Hk. rewrite encode_length in Hk.
    rewrite (np_load_prefix_at major nb m body k Hpp Hwf).
    apply Nat.ltb_lt in Hk. rewrite Hk. destruct (Nat.eqb k 0); reflexivity.
  Qed.

  Theorem s3_decode_encode_at : forall major nb m body,
    parse_hdr (print_hdr m) = Some m ->
    wf_file print_hdr major nb m body -> existsb (Z.eqb major) [1; 2] = true ->
    s3_read_array parse_hdr (encode print_hdr major nb m body) = Ok (m, body).
  Proof.
    intros major nb m body Hpp Hwf Hv. unfold s3_read_array.
    pose proof (read_array_prefix_at EIncomplete [1; 2] major nb m body (file_len nb m body) Hpp Hwf Hv) as H.
    rewrite firstn_all2 in H by (rewrite encode_length; lia).
    rewrite Nat.ltb_irrefl in H. exact H.
  Qed.

  Theorem s3_truncation_never_data_at : forall major nb m body k,
    parse_hdr (print_hdr m) = Some m ->
    wf_file print_hdr major nb m body -> existsb (Z.eqb major) [1; 2] = true ->
    (k < List.length (encode print_hdr major nb m body))%nat ->
    s3_read_array parse_hdr (firstn k (encode print_hdr major nb m body)) = Err EIncomplete.
  Proof.
    intros major nb m body k Hpp Hwf Hv Hk. rewrite encode_length in Hk. unfold s3_read_array.
    rewrite (read_array_prefix_at EIncomplete [1; 2] major nb m body k Hpp Hwf Hv).
    apply Nat.ltb_lt in Hk. now rewrite Hk.
  Qed.
End FramingAt.

(* the same for a parser that reads back EVERY header the printer writes (the form used by Props/C08.v) *)
Section Framing.
  Variable parse_hdr : bytes -> option hdr.
  Variable print_hdr : hdr -> bytes.
  Hypothesis parse_print : forall m, parse_hdr (print_hdr m) = Some m.

  Lemma read_array_prefix : forall short versions major nb m body k,
    wf_file print_hdr major nb m body ->
    existsb (Z.eqb major) versions = true ->
    read_array parse_hdr short versions (firstn k (encode print_hdr major nb m body)) =
    if Nat.ltb k (file_len print_hdr nb m body) then Err short else Ok (m, body).
  Proof. intros. apply read_array_prefix_at; auto. Qed.

  Lemma np_load_prefix : forall major nb m body k,
    wf_file print_hdr major nb m body ->
    np_load parse_hdr (firstn k (encode print_hdr major nb m body)) =
    if Nat.ltb k (file_len print_hdr nb m body) then (if Nat.eqb k 0 then Err EEOF else Err EValue) else Ok (m, body).
  Proof. intros. apply np_load_prefix_at; auto. Qed.

  Theorem decode_encode : forall major nb m body,
    wf_file print_hdr major nb m body ->
    np_load parse_hdr (encode print_hdr major nb m body) = Ok (m, body).
  Proof. intros. apply decode_encode_at; auto. Qed.

  Theorem truncation_never_data : forall major nb m body k,
    wf_file print_hdr major nb m body ->
    (k < List.length (encode print_hdr major nb m body))%nat ->
    np_load parse_hdr (firstn k (encode print_hdr major nb m body)) = Err (if Nat.eqb k 0 then EEOF else EValue).
  Proof. intros. apply truncation_never_data_at; auto. Qed.

  Theorem s3_decode_encode : forall major nb m body,
    wf_file print_hdr major nb m body -> existsb (Z.eqb major) [1; 2] = true ->
    s3_read_array parse_hdr (encode print_hdr major nb m body) = Ok (m, body).
  Proof. intros. apply s3_decode_encode_at; auto. Qed.

  Theorem s3_truncation_never_data : forall major nb m body k,
    wf_file print_hdr major nb m body -> existsb (Z.eqb major) [1; 2] = true ->
    (k < List.length (encode print_hdr major nb m body))%nat ->
    s3_read_array parse_hdr (firstn k (encode print_hdr major nb m body)) = Err EIncomplete.
  Proof. intros. apply s3_truncation_never_data_at; auto. Qed.
End Framing.
