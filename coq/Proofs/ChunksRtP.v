(* C07: chunk-store round trip (put_array then get_array) for all shapes, chunkings, offsets, element types. *)
From Coq Require Import ZArith List Bool Lia ZifyBool.
From KV Require Import Base.Sx Gen.Generated Model.Chunks.
Import ListNotations. Open Scope Z_scope.

Definition chunks_wf (chunks : list (list Z)) : Prop :=
  Forall (fun cs => Forall (fun c => 0 < c) cs \/ cs = [0]) chunks.

(* ------------------------------------------------------------------------------------------------ *)
(* generic list lemmas                                                                                 *)

Lemma rt_map_flat_map {X Y W} (h : Y -> W) (g : X -> list Y) l :
  map h (flat_map g l) = flat_map (fun x => map h (g x)) l.
Proof. induction l; cbn; [reflexivity|]. rewrite map_app, IHl. reflexivity. Qed.

Lemma rt_flat_map_map {X Y W} (h : X -> Y) (g : Y -> list W) l :
  flat_map g (map h l) = flat_map (fun x => g (h x)) l.
Proof. induction l; cbn; [reflexivity|]. rewrite IHl. reflexivity. Qed.

Lemma rt_in_cons_cart {T} (a : list T) (C : list (list T)) l :
  In l (flat_map (fun x => map (cons x) C) a) <-> exists x q, l = x :: q /\ In x a /\ In q C.
Proof.
  rewrite in_flat_map. split.
  - intros [x [Hx H]]. apply in_map_iff in H. destruct H as [q [<- Hq]]. exists x, q. auto.
  - intros [x [q [-> [Hx Hq]]]]. exists x. split; auto. apply in_map. auto.
Qed.

Lemma rt_cart_length {T} (ls : list (list T)) l : In l (cart ls) -> length l = length ls.
Proof.
  revert l; induction ls as [|a t IH]; intros l H; cbn [cart] in H.
  - destruct H as [<-|[]]. reflexivity.
  - apply rt_in_cons_cart in H. destruct H as [x [q [-> [_ Hq]]]]. cbn. f_equal. auto.
Qed.

Lemma rt_cart_map {X Y} (g : X -> Y) (ls : list (list X)) :
  map (map g) (cart ls) = cart (map (map g) ls).
Proof.
  induction ls as [|a t IH]; cbn [cart map]; [reflexivity|].
  rewrite rt_map_flat_map, rt_flat_map_map. apply flat_map_ext. intros x.
  rewrite <- IH, !map_map. reflexivity.
Qed.

Lemma rt_NoDup_map_rel {X Y W} (g : X -> Y) (h : X -> W) l :
  (forall x y, In x l -> In y l -> g x = g y -> h x = h y) -> NoDup (map h l) -> NoDup (map g l).
Proof.
  induction l as [|a l IH]; cbn [map]; intros Hi Hn; [constructor|].
  inversion Hn as [|? ? Hnin Hnd]; subst. constructor.
  - intro Hin. apply in_map_iff in Hin. destruct Hin as [y [Hy Hin]]. apply Hnin.
    assert (E : h a = h y) by (apply Hi; [left; auto|right; auto|auto]).
    rewrite E. apply in_map. auto.
  - apply IH; auto. intros x y Hx Hy. apply Hi; right; auto.
Qed.

Lemma rt_NoDup_app {T} (l1 l2 : list T) :
  NoDup l1 -> NoDup l2 -> (forall x, In x l1 -> ~ In x l2) -> NoDup (l1 ++ l2).
Proof.
  induction l1 as [|a l1 IH]; cbn; intros H1 H2 Hd; [auto|].
  inversion H1; subst. constructor.
  - rewrite in_app_iff. intros [H|H]; [auto|]. apply (Hd a); auto.
  - apply IH; auto; intros x Hx; apply Hd; right; auto.
Qed.

Lemma rt_NoDup_cart {T} (ls : list (list T)) : Forall (@NoDup T) ls -> NoDup (cart ls).
Proof.
  induction ls as [|a t IH]; intros H; cbn [cart].
  - constructor; [intros []|constructor].
  - inversion H as [|? ? Ha Ht]; subst. specialize (IH Ht).
    clear H Ht. induction a as [|x a IHa]; cbn [flat_map]; [constructor|].
    inversion Ha as [|? ? Hx Ha']; subst. apply rt_NoDup_app.
    + apply (rt_NoDup_map_rel (cons x) (fun q => q)).
      * intros p q _ _ E. injection E. auto.
      * rewrite map_id. auto.
    + auto.
    + intros l Hl Hl2. apply in_map_iff in Hl. destruct Hl as [q [<- Hq]].
      apply rt_in_cons_cart in Hl2. destruct Hl2 as [y [q' [E [Hy _]]]].
      injection E as -> _. auto.
Qed.

Lemma rt_nth_index_of_map {B} (h : list Z -> B) (d : B) l q :
  In q l -> nth (index_of q l) (map h l) d = h q.
Proof.
  induction l as [|a l IH]; intros H; [destruct H|].
  cbn [index_of map]. destruct (zs_eq_dec q a) as [->|Hne]; [reflexivity|].
  cbn [nth]. apply IH. destruct H; [congruence|auto].
Qed.

(* ------------------------------------------------------------------------------------------------ *)
(* index spaces                                                                                        *)

Lemma rt_zrange_In x s len : In x (zrange s len) <-> s <= x < s + len.
Proof.
  unfold zrange. rewrite in_map_iff. split.
  - intros [i [<- Hi]]. apply in_seq in Hi. lia.
  - intros H. exists (Z.to_nat (x - s)). split; [lia|]. apply in_seq. lia.
Qed.

Lemma rt_zrange_shift s len : zrange s len = map (fun x => x + s) (zrange 0 len).
Proof. unfold zrange. rewrite map_map. apply map_ext. intros. lia. Qed.

Lemma rt_enumerate_cons n shp :
  enumerate (n :: shp) = flat_map (fun x => map (cons x) (enumerate shp)) (zrange 0 n).
Proof. reflexivity. Qed.

Lemma rt_region_points_cons se t :
  region_points (se :: t) = flat_map (fun x => map (cons x) (region_points t)) (zrange (fst se) (snd se - fst se)).
Proof. reflexivity. Qed.

Lemma rt_blocks_cons cs t :
  blocks (cs :: t) = flat_map (fun se => map (cons se) (blocks t)) (intervals 0 cs).
Proof. reflexivity. Qed.

Fixpoint add_pt (b : slices) (q : list Z) : list Z :=
  match q, b with
  | x :: q', se :: t => (x + fst se) :: add_pt t q'
  | _, _ => []
  end.

Lemma rt_region_points_shift b : region_points b = map (add_pt b) (enumerate (slice_shape b)).
Proof.
  induction b as [|se t IH]; [reflexivity|].
  rewrite rt_region_points_cons. cbn [slice_shape map]. rewrite rt_enumerate_cons.
  rewrite rt_zrange_shift, rt_flat_map_map, rt_map_flat_map. apply flat_map_ext. intros x.
  fold (slice_shape t). rewrite IH, !map_map. reflexivity.
Qed.

Lemma rt_contains_sub b : forall p, contains b p = true ->
  In (sub_point p b) (enumerate (slice_shape b)) /\ add_pt b (sub_point p b) = p.
Proof.
  induction b as [|se t IH]; intros [|x q] H; cbn [contains] in H; try discriminate.
  - split; [left|]; reflexivity.
  - apply andb_true_iff in H. destruct H as [Hs Hc]. destruct (IH q Hc) as [H1 H2].
    unfold in_slice in Hs. cbn [sub_point slice_shape map]. fold (slice_shape t). split.
    + rewrite rt_enumerate_cons. apply rt_in_cons_cart. exists (x - fst se), (sub_point q t).
      split; [reflexivity|]. split; [|auto]. apply rt_zrange_In. lia.
    + cbn [add_pt]. rewrite H2. f_equal. lia.
Qed.

Lemma rt_sumZ_cons c t : sumZ (c :: t) = c + sumZ t.
Proof. reflexivity. Qed.

Lemma rt_intervals_fst_ge cs : forall s x, Forall (fun c => 0 <= c) cs -> In x (map fst (intervals s cs)) -> s <= x.
Proof.
  induction cs as [|c t IH]; intros s x Hf H; cbn [intervals map fst] in H; [destruct H|].
  inversion Hf; subst. destruct H as [<-|H]; [lia|]. apply IH in H; auto. lia.
Qed.

Lemma rt_NoDup_intervals cs : forall s, Forall (fun c => 0 < c) cs -> NoDup (map fst (intervals s cs)).
Proof.
  induction cs as [|c t IH]; intros s Hf; cbn [intervals map fst]; [constructor|].
  inversion Hf; subst. constructor; [|auto].
  intro H. apply rt_intervals_fst_ge in H; [lia|].
  eapply Forall_impl; [|eassumption]. cbn. intros; lia.
Qed.

Lemma rt_cover_axis cs : forall s x, Forall (fun c => 0 <= c) cs -> s <= x < s + sumZ cs ->
  exists se, In se (intervals s cs) /\ in_slice se x = true.
Proof.
  induction cs as [|c t IH]; intros s x Hf H.
  - cbn in H. lia.
  - rewrite rt_sumZ_cons in H. inversion Hf; subst. cbn [intervals].
    destruct (Z_lt_dec x (s + c)).
    + exists (s, s + c). split; [left; reflexivity|]. unfold in_slice. cbn [fst snd]. lia.
    + destruct (IH (s + c) x) as [se [Hse1 Hse2]]; auto; [lia|]. exists se. split; [right|]; auto.
Qed.

Lemma rt_cover chunks : forall p, Forall (Forall (fun c => 0 <= c)) chunks ->
  In p (enumerate (chunks_shape chunks)) -> exists b, In b (blocks chunks) /\ contains b p = true.
Proof.
  induction chunks as [|cs t IH]; intros p Hf H.
  - destruct H as [<-|[]]. exists []. split; [left|]; reflexivity.
  - cbn [chunks_shape map] in H. fold (chunks_shape t) in H. rewrite rt_enumerate_cons in H.
    apply rt_in_cons_cart in H. destruct H as [x [q [-> [Hx Hq]]]].
    inversion Hf; subst. destruct (IH q) as [b [Hb Hc]]; auto.
    apply rt_zrange_In in Hx. destruct (rt_cover_axis cs 0 x) as [se [Hse1 Hse2]]; auto.
    exists (se :: b). split.
    + rewrite rt_blocks_cons. apply rt_in_cons_cart. exists se, b. auto.
    + cbn [contains]. rewrite Hse2, Hc. reflexivity.
Qed.

Lemma rt_chunk_at_extract {A} (d : A) (f : list Z -> A) b p :
  contains b p = true -> chunk_at d (slice_shape b) (extract f b) (sub_point p b) = f p.
Proof.
  intros H. destruct (rt_contains_sub b p H) as [H1 H2].
  unfold chunk_at, extract. rewrite rt_region_points_shift, map_map.
  rewrite rt_nth_index_of_map; auto. rewrite H2. reflexivity.
Qed.

Lemma rt_find_blocks {B} (g : slices -> B) p bl :
  (exists b, In b bl /\ contains b p = true) ->
  exists b', contains b' p = true /\
    find (fun bc : slices * B => contains (fst bc) p) (map (fun b => (b, g b)) bl) = Some (b', g b').
Proof.
  induction bl as [|a t IH]; intros [b [Hb Hc]]; [destruct Hb|].
  cbn [map find fst]. destruct (contains a p) eqn:E.
  - exists a. auto.
  - apply IH. exists b. split; auto. destruct Hb; [congruence|auto].
Qed.

(* ------------------------------------------------------------------------------------------------ *)
(* offsets                                                                                             *)

Lemma rt_shape_add_offset b : forall off, length off = length b -> slice_shape (add_offset b off) = slice_shape b.
Proof.
  induction b as [|[s e] t IH]; intros [|o u] H; cbn in H; try discriminate; [reflexivity|].
  cbn [add_offset slice_shape map fst snd]. fold (slice_shape t). fold (slice_shape (add_offset t u)).
  rewrite IH by lia. f_equal. lia.
Qed.

Lemma rt_add_offset_zeros b : forall off, length off = length b ->
  existsb (fun o => negb (o =? 0)) off = false -> add_offset b off = b.
Proof.
  induction b as [|[s e] t IH]; intros [|o u] H Hz; cbn in H; try discriminate; [reflexivity|].
  cbn [existsb] in Hz. apply orb_false_iff in Hz. destruct Hz as [Ho Hu].
  cbn [add_offset]. rewrite IH by (auto; lia). assert (o = 0) by lia. subst. rewrite !Z.add_0_r. reflexivity.
Qed.

Lemma rt_fst_add_offset_inj off : forall b1 b2, length b1 = length off -> length b2 = length off ->
  map fst (add_offset b1 off) = map fst (add_offset b2 off) -> map fst b1 = map fst b2.
Proof.
  induction off as [|o u IH]; intros [|[s1 e1] t1] [|[s2 e2] t2] H1 H2 E; cbn in H1, H2; try discriminate;
    [reflexivity|].
  cbn [add_offset map fst] in *. injection E as E1 E2. f_equal; [lia|]. apply IH; auto; lia.
Qed.

(* ------------------------------------------------------------------------------------------------ *)
(* store                                                                                               *)

Lemma rt_lookup_remove {A} (k k' : str) (st : store A) :
  lookup k (remove_key k' st) = if str_eq_dec k k' then None else lookup k st.
Proof.
  induction st as [|[k2 v] t IH]; cbn [remove_key lookup].
  - destruct (str_eq_dec k k'); reflexivity.
  - destruct (str_eq_dec k' k2); cbn [lookup]; rewrite ?IH;
      destruct (str_eq_dec k k'); destruct (str_eq_dec k k2); try reflexivity; congruence.
Qed.

Lemma rt_lookup_upd_same {A} k v (st : store A) : lookup k (upd k v st) = Some v.
Proof. unfold upd. cbn [lookup]. destruct (str_eq_dec k k); [reflexivity|congruence]. Qed.

Lemma rt_lookup_upd_other {A} k k' v (st : store A) : k <> k' -> lookup k (upd k' v st) = lookup k st.
Proof.
  intros H. unfold upd. cbn [lookup]. destruct (str_eq_dec k k'); [congruence|].
  rewrite rt_lookup_remove. destruct (str_eq_dec k k'); [congruence|reflexivity].
Qed.

Section PB.
Context {A : Type} (f : list Z -> A) (arr : str) (dt : Z) (off : list Z).

Definition rt_sh (b : slices) : slices := match off with [] => b | _ => add_offset b off end.
Definition rt_key (b : slices) : str := chunk_key (chunk_name arr (map fst (rt_sh b))).
Definition rt_val (b : slices) : obj A := OChunk dt (slice_shape b) (extract f b).
Definition rt_good (b : slices) : Prop := slice_shape (rt_sh b) = slice_shape b.

Lemma rt_put_block_ok st b : rt_good b ->
  put_block f arr dt off st b = (upd (rt_key b) (rt_val b) st, None).
Proof.
  intros H. unfold put_block, put_chunk, chunk_metadata. fold (rt_sh b). cbn [forallb negb orb].
  rewrite H. destruct (zs_eq_dec (slice_shape b) (slice_shape b)); [reflexivity|congruence].
Qed.

Lemma rt_put_blocks_other : forall bl st k, Forall rt_good bl -> ~ In k (map rt_key bl) ->
  lookup k (fst (put_blocks f arr dt off st bl)) = lookup k st.
Proof.
  induction bl as [|b t IH]; intros st k Hg Hk; [reflexivity|].
  inversion Hg; subst. cbn [put_blocks]. rewrite rt_put_block_ok by auto.
  specialize (IH (upd (rt_key b) (rt_val b) st) k).
  destruct (put_blocks f arr dt off (upd (rt_key b) (rt_val b) st) t) as [st2 rs]. cbn [fst] in *.
  rewrite IH; auto.
  - apply rt_lookup_upd_other. intro E. apply Hk. left. auto.
  - intro E. apply Hk. right. auto.
Qed.

Lemma rt_put_blocks_res : forall bl st, Forall rt_good bl ->
  Forall (fun r => r = None) (snd (put_blocks f arr dt off st bl)).
Proof.
  induction bl as [|b t IH]; intros st Hg; [constructor|].
  inversion Hg; subst. cbn [put_blocks]. rewrite rt_put_block_ok by auto.
  specialize (IH (upd (rt_key b) (rt_val b) st)).
  destruct (put_blocks f arr dt off (upd (rt_key b) (rt_val b) st) t) as [st2 rs]. cbn [snd] in *.
  constructor; auto.
Qed.

Lemma rt_put_blocks_lookup : forall bl st, Forall rt_good bl -> NoDup (map rt_key bl) ->
  forall b, In b bl -> lookup (rt_key b) (fst (put_blocks f arr dt off st bl)) = Some (rt_val b).
Proof.
  induction bl as [|a t IH]; intros st Hg Hn b Hb; [destruct Hb|].
  inversion Hg; subst. cbn [map] in Hn. inversion Hn; subst.
  cbn [put_blocks]. rewrite rt_put_block_ok by auto.
  pose proof (IH (upd (rt_key a) (rt_val a) st)) as IH1.
  pose proof (rt_put_blocks_other t (upd (rt_key a) (rt_val a) st) (rt_key a)) as Ho.
  destruct (put_blocks f arr dt off (upd (rt_key a) (rt_val a) st) t) as [st2 rs]. cbn [fst] in *.
  destruct Hb as [<-|Hb].
  - rewrite Ho; auto. apply rt_lookup_upd_same.
  - apply IH1; auto.
Qed.

Lemma rt_get_ok miss st b : get_slices off b = rt_sh b -> rt_good b ->
  lookup (rt_key b) st = Some (rt_val b) ->
  get_chunk_or miss st arr (get_slices off b) dt = Ok (slice_shape b, extract f b).
Proof.
  intros Hs Hg Hl. unfold get_chunk_or, get_chunk, chunk_metadata. rewrite Hs. cbn [forallb negb].
  unfold rt_key in Hl. rewrite Hl. unfold rt_val. rewrite Hg.
  destruct (zs_eq_dec (slice_shape b) (slice_shape b)); [|congruence].
  destruct (Z.eq_dec dt dt); [|congruence]. destruct miss; reflexivity.
Qed.

Lemma rt_fetch_ok miss st : forall bl,
  (forall b, In b bl -> get_chunk_or miss st arr (get_slices off b) dt = Ok (slice_shape b, extract f b)) ->
  fetch miss st arr dt off bl = Ok (map (fun b => (b, (slice_shape b, extract f b))) bl).
Proof.
  induction bl as [|b t IH]; intros H; [reflexivity|].
  cbn [fetch map]. rewrite H by (left; auto). rewrite IH; [reflexivity|].
  intros b' Hb'. apply H. right. auto.
Qed.

End PB.

(* ------------------------------------------------------------------------------------------------ *)
(* main theorem                                                                                        *)

Lemma rt_wf_nonneg chunks : chunks_wf chunks -> Forall (Forall (fun c => 0 <= c)) chunks.
Proof.
  intros H. eapply Forall_impl; [|exact H]. cbn. intros cs [Hp| ->].
  - eapply Forall_impl; [|exact Hp]. cbn. intros; lia.
  - constructor; [lia|constructor].
Qed.

Lemma rt_NoDup_block_starts chunks : chunks_wf chunks -> NoDup (map (map fst) (blocks chunks)).
Proof.
  intros H. unfold blocks. rewrite rt_cart_map. apply rt_NoDup_cart.
  rewrite map_map. apply Forall_map. eapply Forall_impl; [|exact H]. cbn. intros cs [Hp| ->].
  - apply rt_NoDup_intervals. auto.
  - cbn. constructor; [intros []|constructor].
Qed.

Lemma round_trip : forall (A : Type) (d : A) (miss : option A) (st : store A) (arr : str) (dt : Z)
    (f : list Z -> A) (chunks : list (list Z)) (off : list Z),
  (forall s1 s2, chunk_name arr s1 = chunk_name arr s2 -> s1 = s2) ->
  chunks_wf chunks ->
  (off = [] \/ length off = length chunks) ->
  Forall (fun r => r = None) (snd (put_array st arr dt f chunks off)) /\
  get_array d miss (fst (put_array st arr dt f chunks off)) arr dt chunks off
    = Ok (map f (enumerate (chunks_shape chunks))).
Proof.
  intros A d miss st arr dt f chunks off Hinj Hwf Hoff.
  assert (Hlen : forall b, In b (blocks chunks) -> length b = length chunks).
  { intros b Hb. unfold blocks in Hb. apply rt_cart_length in Hb. rewrite map_length in Hb. auto. }
  assert (Hgood : Forall (rt_good off) (blocks chunks)).
  { apply Forall_forall. intros b Hb. unfold rt_good, rt_sh. destruct off as [|o u]; [reflexivity|].
    apply rt_shape_add_offset. destruct Hoff as [E|E]; [discriminate|]. rewrite E, Hlen; auto. }
  assert (Hget : forall b, In b (blocks chunks) -> get_slices off b = rt_sh off b).
  { intros b Hb. unfold get_slices, rt_sh. destruct off as [|o u]; [reflexivity|].
    destruct (existsb (fun o0 => negb (o0 =? 0)) (o :: u)) eqn:E; [reflexivity|].
    symmetry. apply rt_add_offset_zeros; auto.
    destruct Hoff as [E'|E']; [discriminate|]. rewrite E', Hlen; auto. }
  assert (Hnd : NoDup (map (rt_key arr off) (blocks chunks))).
  { apply (rt_NoDup_map_rel (rt_key arr off) (map fst)); [|apply rt_NoDup_block_starts; auto].
    intros b1 b2 Hb1 Hb2 E. unfold rt_key, chunk_key in E. apply app_inv_tail in E. apply Hinj in E.
    unfold rt_sh in E. destruct off as [|o u]; [auto|].
    destruct Hoff as [E'|E']; [discriminate|].
    apply rt_fst_add_offset_inj in E; auto; rewrite E', Hlen; auto. }
  unfold put_array. split; [apply rt_put_blocks_res; auto|].
  unfold get_array.
  rewrite (rt_fetch_ok f).
  2:{ intros b Hb. apply rt_get_ok; auto.
      - rewrite Forall_forall in Hgood. auto.
      - apply rt_put_blocks_lookup; auto. }
  f_equal. apply map_ext_in. intros p Hp.
  apply rt_cover in Hp; [|apply rt_wf_nonneg; auto].
  apply (rt_find_blocks (fun b => (slice_shape b, extract f b))) in Hp.
  destruct Hp as [b' [Hc Hf]]. unfold read_point. rewrite Hf.
  apply rt_chunk_at_extract. auto.
Qed.

Print Assumptions round_trip.
