(* C03: the segmentation pipelines never fail on well-formed inputs covering N > 0 dumps (no IndexError / ValueError
   in align, add, remove_repeats, the initial-stop loop): segment / segment_v1 always return a segmentation. *)
From Coq Require Import ZArith List Bool Arith Lia.
From KV Require Import Base.Sx Gen.Generated Model.Categorical Proofs.CategoricalP Proofs.CategoricalAddP Proofs.CategoricalConcatP
  Proofs.CategoricalRemoveP Proofs.CategoricalAlignP Proofs.CategoricalPartP Proofs.ScansSegP Proofs.ScansPipeP.
From KV Require Model.Scans.
Import ListNotations.
Open Scope nat_scope.

Lemma align_some : forall (c : cdz) segs, segs <> [] -> exists c', align zd c segs = Some c'.
Proof. intros c segs H. rewrite (align_eq zd c segs H). eexists; reflexivity. Qed.

Lemma good_lookup_some : forall N (c : cdz) p, good N c -> p < N -> exists i, lookup c p = Some i.
Proof.
  intros N c p (W & S0 & E) Hp. unfold start0 in S0.
  destruct (lookup_value zd c p W) as (i & Hi & _); [lia | lia | exists i; exact Hi].
Qed.

(* every segment of a series covering 0..N starts before N *)
Lemma segments_starts : forall N (c : cdz), good N c -> Forall (fun t => fst (fst t) < N) (segments zd c).
Proof.
  intros N c (W & S0 & E). apply Forall_forall. intros [[a b] v] Hin. unfold segments in Hin.
  apply in_combine_l in Hin. destruct W as (I & _). destruct (In_pairs_incr (ev c) a b I Hin) as (Hlt & Hb & _).
  pose proof (incr_le_last (ev c) I b Hb). unfold ndumps in E. simpl. lia.
Qed.

Lemma stop_scan_some : forall N K P (t : cdz) segs, good N t -> Scans.k_stop_dump K < N ->
  Forall (fun s => fst (fst s) < N) segs -> Scans.stop_scan K P t segs <> None.
Proof.
  intros N K P t segs G HK. induction segs as [|[[s e] state] rest IH]; intro F; simpl; [discriminate|].
  inversion F as [|? ? Hs F']; subst. simpl in Hs.
  destruct (good_lookup_some N t s G Hs) as [a ->]. destruct (good_lookup_some N t _ G HK) as [b ->].
  destruct ((state =? Scans.p_stop P)%Z && (a =? b)); [apply IH; exact F' | discriminate].
Qed.

Lemma target_post_some : forall N f P (sc t : cdz), 0 < N -> good N sc -> good N t ->
  exists t3, Scans.target_post f P sc t = Some t3.
Proof.
  intros N f P sc t HN Gs Gt. destruct f; unfold Scans.target_post; try (eexists; reflexivity).
  destruct (remove_repeats_some t (good_idx_nonempty N t HN Gt)) as [t1 R]. rewrite R.
  destruct Gt as (W & S0 & E). destruct (remove_repeats_WF t t1 W R) as (W1 & E1 & H1 & _).
  assert (G1 : good N t1) by (split; [exact W1|split; [unfold start0 in *; congruence | congruence]]).
  assert (HK : Scans.k_stop_dump (Scans.segk_of Scans.V4) < N) by (vm_compute Scans.k_stop_dump; lia).
  pose proof (stop_scan_some N _ P t1 _ G1 HK (segments_starts N sc Gs)) as NN.
  destruct (Scans.stop_scan (Scans.segk_of Scans.V4) P t1 (segments zd sc)) as [[|]|] eqn:SS; [| eexists; reflexivity | congruence].
  destruct (drop_first_good N t1 G1 (stop_scan_true _ _ _ _ SS)) as [G2 _].
  apply align_some. apply (good_ends_in N _ G2).
Qed.

(* TOTALITY of the v4 / v3 / v2 pipeline *)
Theorem segment_total : forall f P (act label target : cdz) N, 0 < N ->
  good N act -> good N label -> good N target -> exists g, Scans.segment f P act label target = Some g.
Proof.
  intros f P act label target N HN Ga Gl Gt. unfold Scans.segment. cbv zeta.
  pose proof (segk_of_ok f) as KO. set (K := Scans.segk_of f) in *.
  pose proof (slew_fix_good N K P act KO Ga) as G0. destruct (label_clean_ok N K P label Gl) as [W1 E1].
  set (scan0 := Scans.slew_fix K P act) in *. set (label1 := Scans.label_clean K P label) in *.
  destruct G0 as (W0 & S0 & E0).
  destruct (add_unmatched_spec Z.eqb zd scan0 (ev label1) (Scans.k_dist K) W0) as (Ws & Es & Hs & _).
  set (scan := add_unmatched Z.eqb scan0 (ev label1) (Scans.k_dist K)) in *.
  assert (Gs : good N scan) by (split; [exact Ws|split; [unfold start0 in *; congruence | congruence]]).
  destruct KO as (_ & KN & KF & KA). rewrite KF, KA.
  destruct (good_ends_in N scan Gs) as (_ & _ & _ & NE).
  destruct (align_some label1 (ev scan) NE) as [label2 A2]. rewrite A2.
  destruct (align_good_end N label1 scan label2 W1 E1 Gs A2) as (W2 & E2 & _).
  assert (A3 : exists label3, (if 0 <? hd 0 (ev label2) then add Z.eqb label2 0 (Some (Scans.p_addlabel P)) else Some label2) = Some label3).
  { destruct (0 <? hd 0 (ev label2)); [|eexists; reflexivity].
    destruct (add_value_spec Z.eqb zd Zeqb_ok label2 0 (Scans.p_addlabel P) W2) as (c' & A & _); [lia | exists c'; exact A]. }
  destruct A3 as [label3 A3]. rewrite A3.
  set (target1 := match f with
                  | Scans.V3 => if (Scans.k_noth_len K <? length (idx target))
                                   && Scans.opt_is (Scans.value_at target (Scans.k_noth_dump K)) (Scans.p_nothing P)
                                then Scans.drop_first target else target
                  | _ => target end) in *.
  assert (Gt1 : good N target1).
  { unfold target1. destruct f; try exact Gt.
    destruct ((Scans.k_noth_len K <? length (idx target))
              && Scans.opt_is (Scans.value_at target (Scans.k_noth_dump K)) (Scans.p_nothing P)) eqn:Ec; [|exact Gt].
    apply andb_true_iff in Ec. destruct Ec as [Ec _]. apply Nat.ltb_lt in Ec. apply (drop_first_good N target Gt). lia. }
  destruct (align_some target1 (ev scan) NE) as [target2 A4]. rewrite A4.
  pose proof (align_good N target1 scan target2 Gt1 Gs A4) as Gt2.
  destruct (target_post_some N f P scan target2 HN Gs Gt2) as [target3 A5]. rewrite A5.
  eexists; reflexivity.
Qed.

(* TOTALITY of the v1 pipeline *)
Theorem segment_v1_total : forall states groups labels targets segs N, 0 < N ->
  incr segs -> hd 0 segs = 0 -> last segs 0 = N ->
  length segs = S (length states) -> length groups = length states -> length labels = length states ->
  length targets = length states ->
  exists g, Scans.segment_v1 states groups labels targets segs = Some g.
Proof.
  intros states groups labels targets segs N HN I H0 HL Ls Lg Ll Lt. unfold Scans.segment_v1.
  assert (Gg : good N (make Z.eqb groups segs)) by (apply make_good; auto; congruence).
  destruct (remove_repeats_some _ (good_idx_nonempty N _ HN Gg)) as [cs R]. rewrite R.
  destruct Gg as (Wg & Sg & Eg). destruct (remove_repeats_WF _ cs Wg R) as (Wc & Ec & Hc & _).
  assert (Gc : good N cs) by (split; [exact Wc|split; [unfold start0 in *; congruence | congruence]]).
  destruct (good_ends_in N cs Gc) as (_ & _ & _ & NE).
  destruct (align_some (make Z.eqb labels segs) (ev cs) NE) as [l ->].
  destruct (align_some (make Z.eqb targets segs) (ev cs) NE) as [t ->].
  eexists; reflexivity.
Qed.
