(* C20 (round 4): proofs about Model/ScratchRace.v *)
From Coq Require Import List Arith Bool ZArith String Lia.
From KV Require Import Base.Sx Gen.Generated Model.ScratchRace.
Import ListNotations.
Close Scope Z_scope.
Open Scope nat_scope.

Lemma buf_eqb_true : forall a b, buf_eqb a b = true <-> a = b.
Proof.
  intros [a1 a2] [b1 b2]; unfold buf_eqb; cbn [fst snd]. rewrite andb_true_iff, !Nat.eqb_eq.
  split; [intros [-> ->]; reflexivity | intros H; inversion H; auto].
Qed.
Lemma buf_eqb_false : forall a b, a <> b -> buf_eqb a b = false.
Proof. intros a b H. destruct (buf_eqb a b) eqn:E; [apply buf_eqb_true in E; contradiction | reflexivity]. Qed.

Section Mem.
Variable V : Type.
Variable bind : nat -> nat -> buf.
Variable prog : nat -> list (op V).

Lemma upd_other : forall (m : mem V) b i v b' i', b <> b' -> upd V m b i v b' i' = m b' i'.
Proof. intros. unfold upd. rewrite buf_eqb_false by assumption. reflexivity. Qed.

Lemma nth_touches : forall (l : list (op V)) k o, nth_error l k = Some o -> touches V l (op_param V o) = true.
Proof.
  intros l k o H. unfold touches. apply existsb_exists. exists o. split; [eapply nth_error_In; eauto | apply Nat.eqb_refl].
Qed.
Lemma nth_writes : forall (l : list (op V)) k p i f, nth_error l k = Some (St p i f) -> writes V l p = true.
Proof.
  intros l k p i f H. unfold writes. apply existsb_exists. exists (St p i f). split; [eapply nth_error_In; eauto |].
  cbn. apply Nat.eqb_refl.
Qed.

Fixpoint count (t : nat) (l : list nat) : nat := match l with [] => 0 | x :: r => (if x =? t then 1 else 0) + count t r end.
Lemma count_app : forall t a b, count t (a ++ b) = count t a + count t b.
Proof. induction a; intros; cbn; [reflexivity | rewrite IHa; lia]. Qed.

(* the invariant: every task is where it is after the same number of its own accesses running ALONE, and every buffer it
   touches holds what it holds then *)
Definition Inv (m0 : mem V) (sched : list nat) (c : config V) : Prop :=
  forall t, c_th V c t = snd (solo V bind prog m0 t (count t sched)) /\
            forall p, touches V (prog t) p = true ->
                      forall i, c_mem V c (bind t p) i = fst (solo V bind prog m0 t (count t sched)) (bind t p) i.

Lemma exec_snoc : forall m0 s t, exec V bind prog m0 (s ++ [t]) = step V bind prog (exec V bind prog m0 s) t.
Proof. intros. unfold exec. rewrite fold_left_app. reflexivity. Qed.

Theorem race_free_inv : race_free V bind prog -> forall m0 sched, Inv m0 sched (exec V bind prog m0 sched).
Proof.
  intros RF m0 sched. induction sched as [|u s IH] using rev_ind.
  - intros t. cbn. split; [reflexivity | intros; reflexivity].
  - rewrite exec_snoc. set (c := exec V bind prog m0 s) in *. intros t.
    rewrite count_app. cbn [count]. destruct (IH u) as [IHu_th IHu_m]. destruct (IH t) as [IHt_th IHt_m].
    unfold step. cbn [c_th c_mem].
    destruct (Nat.eq_dec t u) as [->|Ne].
    + (* the task that moves *)
      rewrite !Nat.eqb_refl. replace (count u s + (1 + 0)) with (S (count u s)) by lia. cbn [solo].
      set (r := solo V bind prog m0 u (count u s)) in *. rewrite IHu_th.
      unfold tstep. destruct (nth_error (prog u) (fst (snd r))) as [o|] eqn:En.
      * destruct o as [p i | p i f].
        -- cbn [fst snd]. pose proof (nth_touches _ _ _ En) as Tp. cbn [op_param] in Tp.
           split; [rewrite (IHu_m p Tp i); reflexivity | intros q Tq j; apply IHu_m; assumption].
        -- cbn [fst snd]. split; [reflexivity|]. intros q Tq j. unfold upd.
           destruct (buf_eqb (bind u p) (bind u q) && (i =? j)); [reflexivity | apply IHu_m; assumption].
      * cbn [fst snd]. split; [reflexivity | assumption].
    + (* another task moves: it cannot write into anything t touches *)
      assert (E : (t =? u) = false) by (apply Nat.eqb_neq; assumption).
      assert (E2 : (u =? t) = false) by (apply Nat.eqb_neq; auto).
      rewrite E, E2. replace (count t s + (0 + 0)) with (count t s) by lia.
      split; [assumption|]. intros q Tq j. rewrite <- (IHt_m q Tq j).
      unfold tstep. rewrite IHu_th. set (r := solo V bind prog m0 u (count u s)) in *.
      destruct (nth_error (prog u) (fst (snd r))) as [o|] eqn:En; [|reflexivity].
      destruct o as [p i | p i f]; [reflexivity|]. cbn [fst].
      apply upd_other. apply RF with (t := u) (u := t); auto. eapply nth_writes; eauto.
Qed.

(* what a user relies on: whatever the interleaving, a task has loaded exactly the values it loads alone, and the buffers
   it touches (its output included) hold exactly what they hold when it runs alone for as many accesses *)
Theorem race_free_solo :
  race_free V bind prog -> forall m0 sched t,
    let c := exec V bind prog m0 sched in
    let r := solo V bind prog m0 t (count t sched) in
    c_th V c t = snd r /\ forall p, touches V (prog t) p = true -> forall i, c_mem V c (bind t p) i = fst r (bind t p) i.
Proof. intros RF m0 sched t. exact (race_free_inv RF m0 sched t). Qed.
End Mem.

(* the binding dask makes is race free as soon as no task writes into a parameter the graph binds *)
Theorem bind_graph_race_free : forall V (bound : nat -> bool) (prog : nat -> list (op V)),
  (forall t p, writes V (prog t) p = true -> bound p = false) -> race_free V (bind_graph bound) prog.
Proof.
  intros V bound prog H t u Ne p q Wp Tq. unfold bind_graph. rewrite (H t p Wp).
  destruct (bound q); intros E; inversion E; auto.
Qed.

(* ... which is what the translated facts say of every graph katdal builds *)
Lemma call_ok_not_written : forall c p, block_call_ok c = true -> call_written c p = false.
Proof.
  intros c p H. unfold call_written. destruct (nth_error (snd c) p) as [a|] eqn:E; [|reflexivity].
  unfold block_call_ok in H. rewrite forallb_forall in H. apply nth_error_In in E. specialize (H a E).
  destruct (arg_written a); [discriminate | reflexivity].
Qed.
Theorem translated_call_race_free : forall V c (prog : nat -> list (op V)),
  block_call_ok c = true -> (forall t, respects c (prog t)) -> race_free V (bind_graph (call_bound c)) prog.
Proof.
  intros V c prog Ok R. apply bind_graph_race_free. intros t p W.
  destruct (call_bound c p) eqn:B; [|reflexivity]. pose proof (R t p W B) as Wr.
  rewrite call_ok_not_written in Wr by assumption. discriminate.
Qed.

Theorem block_args_read_only : block_calls_ok c20_block_calls = true.
Proof. vm_compute. reflexivity. Qed.

Theorem block_tasks_any_interleaving : forall V c (prog : nat -> list (op V)),
  In c c20_block_calls -> (forall t, respects c (prog t)) ->
  forall m0 sched t,
    let bind := bind_graph (call_bound c) in
    let cf := exec V bind prog m0 sched in
    let r := solo V bind prog m0 t (count t sched) in
    c_th V cf t = snd r /\ forall p, touches V (prog t) p = true -> forall i, c_mem V cf (bind t p) i = fst r (bind t p) i.
Proof.
  intros V c prog Hin R m0 sched t. apply race_free_solo. apply translated_call_race_free; [|assumption].
  pose proof block_args_read_only as H. unfold block_calls_ok in H. rewrite forallb_forall in H. apply H. assumption.
Qed.

(* the scaling call is among them, with the parameters the model of the kernel reads bound and nothing written *)
Theorem scale_weights_call_listed :
  exists c, In c c20_block_calls /\ fst c = "vis_flags_weights.py:_scale_weights:blockwise:weight_power_scale"%string /\
            map fst (snd c) = ["vis"; "weights"; "auto_indices"; "index1"; "index2"; "divide"]%string.
Proof. vm_compute. eexists. split; [right; left; reflexivity | split; reflexivity]. Qed.
Theorem kernel_written_params :
  c20_kernel_written_params =
  [("vis_flags_weights.py:weight_power_scale", ["out"]); ("applycal.py:_correction_inputs_to_corrprods", ["g_per_cp"]);
   ("applycal.py:apply_vis_correction", []); ("applycal.py:apply_weights_correction", []);
   ("applycal.py:apply_flags_correction", [])]%string.
Proof. reflexivity. Qed.

(* ---------------------------------------------------------------------------------------------------------------- *)
(* the kernel model: 2 inputs, 3 baselines (00, 01, 11) *)
Definition ex_autos := [0; 2].
Definition ex_i1 := [0; 0; 1].
Definition ex_i2 := [0; 1; 1].
Definition ex_mem : mem Z := mem_of [[2; 9; 3]; [5; 9; 7]]%Z [[1; 1; 1]; [1; 1; 1]]%Z.
Definition ex_out (bound : nat -> bool) (sched : list nat) (t : nat) : list Z :=
  map (c_mem Z (exec Z (bind_graph bound) (fun _ => kernel_prog ex_autos ex_i1 ex_i2) ex_mem sched) (bind_graph bound t 3)) [0; 1; 2].

(* the kernel writes into parameters 2 (scratch) and 3 (out) only *)
Lemma kernel_prog_writes : forall p, writes Z (kernel_prog ex_autos ex_i1 ex_i2) p = true -> p = 2 \/ p = 3.
Proof.
  intros p. destruct p as [|[|[|[|p]]]]; vm_compute; intros H; try discriminate; auto.
Qed.

(* one scratch buffer in the graph, two tasks in flight: task 0 fills it, task 1 fills it, task 0 uses it *)
Theorem shared_scratch_refuted :
  exists sched, ex_out (fun p => p =? 2) sched 0 <> ex_out (fun p => p =? 2) (filter (fun t => t =? 0) sched) 0 /\
                ex_out (fun _ => false) sched 0 = ex_out (fun _ => false) (filter (fun t => t =? 0) sched) 0.
Proof.
  exists (repeat 0 4 ++ repeat 1 4 ++ repeat 0 12 ++ repeat 1 12). split; vm_compute; [discriminate | reflexivity].
Qed.
Theorem private_scratch_example :
  let sched := repeat 0 4 ++ repeat 1 4 ++ repeat 0 12 ++ repeat 1 12 in
  ex_out (fun _ => false) sched 0 = [4; 6; 9]%Z /\ ex_out (fun _ => false) sched 1 = [25; 35; 49]%Z /\
  ex_out (fun p => p =? 2) sched 0 = [25; 35; 49]%Z.
Proof. vm_compute. auto. Qed.
