(* C04: _range_to_slice, dask normalize_slice and _simplify_index on one axis. *)
From Coq Require Import ZArith List Bool Lia ZifyBool.
From KV Require Import Base.Sx Model.DaskIdx.
Import ListNotations.
Open Scope Z_scope.

Definition d_f20_free (s : d_slice) (n : Z) : bool :=
  match ds_step s, ds_start s with
  | Some k, Some x => negb ((k <? 0) && (x <? - n) && (0 <? n))
  | _, _ => true
  end.

Ltac brk :=
  repeat (match goal with |- context[if ?c then _ else _] =>
            lazymatch type of c with bool => destruct c eqn:? end end; cbv iota beta).

(* ------------------------------------------------------------------------------------------- *)
(* range                                                                                       *)
(* ------------------------------------------------------------------------------------------- *)
Section RangeLen.
Ltac Zify.zify_post_hook ::= Z.to_euclidean_division_equations.

Lemma d_range_len_gen : forall a stop step k, 0 <= k ->
  (step > 0 /\ a + (k - 1) * step < stop <= a + k * step) \/
  (step < 0 /\ a + k * step <= stop < a + (k - 1) * step) ->
  d_range_len a stop step = k.
Proof.
  intros a stop step k Hk H. unfold d_range_len.
  destruct H as [[Hs H]|[Hs H]].
  - destruct (0 <? step) eqn:E; [|lia].
    destruct (a <? stop) eqn:E2.
    + nia.
    + nia.
  - destruct (0 <? step) eqn:E; [lia|].
    destruct (stop <? a) eqn:E2.
    + nia.
    + nia.
Qed.

Lemma d_range_len_empty : forall a b c,
  (c > 0 /\ b <= a) \/ (c < 0 /\ a <= b) -> d_range_len a b c = 0.
Proof.
  intros a b c H. unfold d_range_len.
  destruct (0 <? c) eqn:E; [destruct (a <? b) eqn:E2|destruct (b <? a) eqn:E2]; lia.
Qed.
End RangeLen.

Lemma d_range_gen : forall a stop step k,
  (step > 0 /\ a + (Z.of_nat k - 1) * step < stop <= a + Z.of_nat k * step) \/
  (step < 0 /\ a + Z.of_nat k * step <= stop < a + (Z.of_nat k - 1) * step) ->
  d_range a stop step = map (fun i => a + Z.of_nat i * step) (seq 0 k).
Proof.
  intros a stop step k H. unfold d_range.
  rewrite (d_range_len_gen a stop step (Z.of_nat k)); [|lia|exact H].
  rewrite Nat2Z.id. reflexivity.
Qed.

Lemma d_range_gen2 : forall a a' stop step k, a' = a ->
  (step > 0 /\ a + (Z.of_nat k - 1) * step < stop <= a + Z.of_nat k * step) \/
  (step < 0 /\ a + Z.of_nat k * step <= stop < a + (Z.of_nat k - 1) * step) ->
  d_range a' stop step = map (fun i => a + Z.of_nat i * step) (seq 0 k).
Proof. intros; subst; apply d_range_gen; assumption. Qed.

Lemma d_range_empty : forall a b c,
  (c > 0 /\ b <= a) \/ (c < 0 /\ a <= b) -> d_range a b c = [].
Proof.
  intros a b c H. unfold d_range. rewrite d_range_len_empty by exact H. reflexivity.
Qed.

Lemma d_range_arith : forall a step k, step <> 0 ->
  d_range a (a + Z.of_nat k * step) step = map (fun i => a + Z.of_nat i * step) (seq 0 k).
Proof.
  intros a step k H. apply d_range_gen. nia.
Qed.

(* ------------------------------------------------------------------------------------------- *)
(* arithmetic progressions                                                                     *)
(* ------------------------------------------------------------------------------------------- *)
Fixpoint d_ap (a step : Z) (k : nat) : list Z :=
  match k with O => [] | S k' => a :: d_ap (a + step) step k' end.

Lemma d_ap_map : forall k a step,
  map (fun i => a + Z.of_nat i * step) (seq 0 k) = d_ap a step k.
Proof.
  induction k; intros a step.
  - reflexivity.
  - cbn [seq map d_ap]. f_equal; [lia|].
    rewrite <- seq_shift, map_map, <- IHk. apply map_ext. intros i. lia.
Qed.

Lemma d_ap_of_diff : forall l x0 step,
  forallb (Z.eqb step) (d_diff (x0 :: l)) = true -> x0 :: l = d_ap x0 step (S (length l)).
Proof.
  induction l as [|a l IH]; intros x0 step H.
  - reflexivity.
  - change (d_diff (x0 :: a :: l)) with ((a - x0) :: d_diff (a :: l)) in H.
    cbn [forallb] in H. apply andb_prop in H. destruct H as [H1 H2].
    apply IH in H2. cbn [length]. cbn [d_ap]. cbn [d_ap length] in H2.
    assert (a = x0 + step) by lia. subst a. f_equal. exact H2.
Qed.

Lemma d_ap_last : forall k a step d, last (d_ap a step (S k)) d = a + Z.of_nat k * step.
Proof.
  induction k; intros a step d.
  - cbn [d_ap last]. lia.
  - specialize (IHk (a + step) step d).
    change (d_ap a step (S (S k))) with (a :: d_ap (a + step) step (S k)).
    remember (d_ap (a + step) step (S k)) as t eqn:Ht.
    destruct t as [|b t]; [cbn [d_ap] in Ht; discriminate|].
    change (last (a :: b :: t) d) with (last (b :: t) d).
    rewrite IHk. lia.
Qed.

Lemma d_ap_in : forall k a step i, (i < k)%nat -> In (a + Z.of_nat i * step) (d_ap a step k).
Proof.
  induction k; intros a step i H; [lia|].
  cbn [d_ap]. destruct i.
  - left. lia.
  - right. replace (a + Z.of_nat (S i) * step) with ((a + step) + Z.of_nat i * step) by lia.
    apply IHk. lia.
Qed.

Lemma d_diff_ap : forall k a step, d_diff (d_ap a step (S k)) = repeat step k.
Proof.
  induction k; intros a step.
  - reflexivity.
  - specialize (IHk (a + step) step). cbn [d_ap] in IHk. cbn [d_ap].
    cbn [d_diff]. cbn [d_diff] in IHk. cbn [repeat]. f_equal; [lia|]. exact IHk.
Qed.

Lemma d_nonneg_of_existsb : forall l, existsb (fun i => i <? 0) l = false -> forall x, In x l -> 0 <= x.
Proof.
  intros l H x Hx. destruct (Z.ltb_spec x 0) as [Hlt|]; [|assumption].
  assert (existsb (fun i => i <? 0) l = true).
  { apply existsb_exists. exists x. split; [assumption|lia]. }
  congruence.
Qed.

Lemma d_r2s_struct : forall x0 r s, d_range_to_slice (x0 :: r) = Some s ->
  exists step, step <> 0 /\ (forall x, In x (x0 :: r) -> 0 <= x) /\
    step = match d_diff (x0 :: r) with [] => 1 | d :: _ => d end /\
    forallb (Z.eqb step) (d_diff (x0 :: r)) = true /\
    x0 :: r = d_ap x0 step (S (length r)) /\
    last (x0 :: r) 0 = x0 + Z.of_nat (length r) * step /\
    s = DS (Some x0) (if 0 <=? last (x0 :: r) 0 + step then Some (last (x0 :: r) 0 + step) else None)
           (Some step).
Proof.
  intros x0 r s H. unfold d_range_to_slice in H.
  destruct (existsb (fun i => i <? 0) (x0 :: r)) eqn:E; [discriminate|].
  remember (match d_diff (x0 :: r) with [] => 1 | d :: _ => d end) as step eqn:Hstep.
  destruct (step =? 0) eqn:E0; [discriminate|].
  destruct (forallb (Z.eqb step) (d_diff (x0 :: r))) eqn:Ef; [|discriminate].
  cbn [orb negb] in H. inversion H as [Hs]. clear H.
  exists step. pose proof (d_ap_of_diff r x0 step Ef) as Hap.
  repeat split; try assumption.
  - lia.
  - apply d_nonneg_of_existsb. exact E.
  - rewrite Hap at 1. apply d_ap_last.
Qed.

(* ------------------------------------------------------------------------------------------- *)
(* 2. soundness of _range_to_slice                                                             *)
(* ------------------------------------------------------------------------------------------- *)
Lemma d_range_to_slice_sound : forall l s n,
  d_range_to_slice l = Some s -> (forall x, In x l -> x < n) -> d_slice_pos s n = Some l.
Proof.
  intros l s n H Hn. destruct l as [|x0 r].
  - cbn in H. inversion H. unfold d_slice_pos, d_indices, d_clamp. cbn [ds_start ds_stop ds_step].
    brk; try lia; f_equal; apply d_range_empty; lia.
  - destruct (d_r2s_struct _ _ _ H) as (step & Hnz & Hpos & _ & _ & Hap & Hlast & Hs).
    assert (H0 : 0 <= x0) by (apply Hpos; left; reflexivity).
    assert (HL : In (x0 + Z.of_nat (length r) * step) (x0 :: r)).
    { rewrite Hap. apply d_ap_in. lia. }
    pose proof (Hpos _ HL) as HL0. pose proof (Hn _ HL) as HLn.
    assert (Hx0n : x0 < n) by (apply Hn; left; reflexivity).
    rewrite Hlast in Hs. subst s.
    unfold d_slice_pos, d_indices, d_clamp. cbn [ds_start ds_stop ds_step].
    brk; try lia; f_equal; rewrite Hap, <- d_ap_map; apply d_range_gen2; lia.
Qed.

(* ------------------------------------------------------------------------------------------- *)
(* 5. dask normalize_slice                                                                     *)
(* ------------------------------------------------------------------------------------------- *)
Lemma d_normalize_slice_none : forall s n, d_normalize_slice s n = None <-> d_slice_pos s n = None.
Proof.
  intros s n. unfold d_normalize_slice, d_slice_pos.
  destruct (d_indices s n) as [[[a b] c]|].
  - destruct (0 <? c); split; discriminate.
  - split; reflexivity.
Qed.

Lemma d_range_same : forall a b c a' b' c', c' = c ->
  (a' = a /\ b' = b) \/ (c > 0 /\ b <= a /\ b' <= a') \/ (c < 0 /\ a <= b /\ a' <= b') ->
  d_range a' b' c' = d_range a b c.
Proof.
  intros a b c a' b' c' -> H. destruct H as [[-> ->]|[H|H]].
  - reflexivity.
  - rewrite !d_range_empty by lia. reflexivity.
  - rewrite !d_range_empty by lia. reflexivity.
Qed.

Ltac brkh H :=
  repeat (match type of H with context[if ?c then _ else _] =>
            lazymatch type of c with bool => destruct c eqn:? end end; cbv iota beta in H).

Lemma d_normalize_slice_pos_partial : forall s n s', 0 <= n -> d_f20_free s n = true ->
  d_normalize_slice s n = Some s' -> d_slice_pos s' n = d_slice_pos s n.
Proof.
  intros [st sp sk] n s' Hn Hf H.
  unfold d_normalize_slice, d_slice_pos, d_indices, d_clamp, d_f20_free in *.
  cbn [ds_start ds_stop ds_step] in *.
  destruct sk as [k|]; destruct st as [x|]; destruct sp as [y|];
    brkh H; try discriminate; inversion H; subst s'; clear H;
    cbn [ds_start ds_stop ds_step]; brk; try lia; f_equal; apply d_range_same; lia.
Qed.

Lemma d_normalize_slice_refuted : exists s n s',
  0 <= n /\ d_normalize_slice s n = Some s' /\ d_slice_pos s' n <> d_slice_pos s n.
Proof.
  exists (DS (Some (-6)) (Some 2) (Some (-2))), 5, (DS (Some (-1)) (Some 2) (Some (-2))).
  split; [lia|]. split; [vm_compute; reflexivity|]. vm_compute. discriminate.
Qed.

(* ------------------------------------------------------------------------------------------- *)
(* 6. _simplify_index on one axis                                                              *)
(* ------------------------------------------------------------------------------------------- *)
Lemma d_resolve_list_inrange : forall n l,
  forallb (fun z => (0 <=? z) && (z <? n)) l = true -> d_resolve n (DList l) = Some (VKeep l).
Proof.
  intros n l H. cbn [d_resolve].
  assert (forallb (d_inrange n) l = true /\ map (d_norm n) l = l) as [H1 H2].
  { induction l as [|a l IH].
    - split; reflexivity.
    - cbn [forallb] in H. apply andb_prop in H. destruct H as [Ha Hl].
      destruct (IH Hl) as [I1 I2]. cbn [forallb map]. rewrite I1, I2.
      unfold d_inrange, d_norm. destruct (a <? 0) eqn:?; [lia|].
      split; [|reflexivity]. lia. }
  rewrite H1, H2. reflexivity.
Qed.

Lemma d_r2s_f20_free : forall l s n, 0 <= n -> d_range_to_slice l = Some s -> d_f20_free s n = true.
Proof.
  intros l s n Hn H. destruct l as [|x0 r].
  - cbn in H. inversion H. reflexivity.
  - destruct (d_r2s_struct _ _ _ H) as (step & _ & Hpos & _ & _ & _ & _ & Hs).
    assert (H0 : 0 <= x0) by (apply Hpos; left; reflexivity).
    subst s. unfold d_f20_free. cbn [ds_step ds_start].
    destruct (x0 <? - n) eqn:?; [lia|]. rewrite andb_false_r. reflexivity.
Qed.

Lemma d_simplify1_resolve : forall n l, 0 <= n ->
  forallb (fun z => (0 <=? z) && (z <? n)) l = true ->
  d_resolve n (d_simplify1 n (DList l)) = d_resolve n (DList l).
Proof.
  intros n l Hn H. unfold d_simplify1.
  destruct (d_range_to_slice l) as [s|] eqn:E; [|reflexivity].
  destruct (d_normalize_slice s n) as [s'|] eqn:E2; [|reflexivity].
  rewrite (d_resolve_list_inrange n l H). cbn [d_resolve].
  rewrite (d_normalize_slice_pos_partial s n s' Hn (d_r2s_f20_free l s n Hn E) E2).
  rewrite (d_range_to_slice_sound l s n E); [reflexivity|].
  intros x Hx. rewrite forallb_forall in H. specialize (H x Hx). lia.
Qed.

Lemma d_simplify1_other : forall n ix, (forall l, ix <> DList l) -> d_simplify1 n ix = ix.
Proof.
  intros n ix H. destruct ix; try reflexivity. exfalso. apply (H l). reflexivity.
Qed.

(* ------------------------------------------------------------------------------------------- *)
(* 3. rejections                                                                               *)
(* ------------------------------------------------------------------------------------------- *)
Lemma d_range_to_slice_rejects_negative : forall l x, In x l -> x < 0 -> d_range_to_slice l = None.
Proof.
  intros l x Hx Hneg. destruct l as [|x0 r]; [contradiction|].
  unfold d_range_to_slice.
  assert (E : existsb (fun i => i <? 0) (x0 :: r) = true).
  { apply existsb_exists. exists x. split; [assumption|lia]. }
  rewrite E. reflexivity.
Qed.

Lemma d_range_to_slice_rejects_zero_step : forall a r, d_range_to_slice (a :: a :: r) = None.
Proof.
  intros a r. unfold d_range_to_slice.
  destruct (existsb (fun i => i <? 0) (a :: a :: r)); [reflexivity|].
  change (d_diff (a :: a :: r)) with ((a - a) :: d_diff (a :: r)).
  cbv iota beta. replace (a - a =? 0) with true by lia. reflexivity.
Qed.

Lemma d_diff_const_nth : forall l i step, forallb (Z.eqb step) (d_diff l) = true ->
  (S i < length l)%nat -> nth (S i) l 0 - nth i l 0 = step.
Proof.
  induction l as [|a l IH]; intros i step H Hi; [cbn in Hi; lia|].
  destruct l as [|b l]; [cbn in Hi; lia|].
  change (d_diff (a :: b :: l)) with ((b - a) :: d_diff (b :: l)) in H.
  cbn [forallb] in H. apply andb_prop in H. destruct H as [H1 H2].
  destruct i as [|i].
  - cbn [nth]. lia.
  - change (nth (S (S i)) (a :: b :: l) 0) with (nth (S i) (b :: l) 0).
    change (nth (S i) (a :: b :: l) 0) with (nth i (b :: l) 0).
    apply IH; [exact H2|]. cbn [length] in *. lia.
Qed.

Lemma d_range_to_slice_rejects_uneven : forall l i, (S (S i) < List.length l)%nat ->
  nth (S i) l 0 - nth i l 0 <> nth (S (S i)) l 0 - nth (S i) l 0 -> d_range_to_slice l = None.
Proof.
  intros l i Hi Hne. destruct (d_range_to_slice l) as [s|] eqn:E; [|reflexivity].
  exfalso. destruct l as [|x0 r]; [cbn in Hi; lia|].
  destruct (d_r2s_struct _ _ _ E) as (step & _ & _ & _ & Hf & _).
  apply Hne.
  rewrite (d_diff_const_nth _ i step Hf) by lia.
  rewrite (d_diff_const_nth _ (S i) step Hf) by lia. reflexivity.
Qed.

Lemma d_range_to_slice_descending_to_zero : forall l s, d_range_to_slice l = Some s -> l <> [] ->
  (ds_stop s = None <-> exists step, ds_step s = Some step /\ last l 0 + step < 0).
Proof.
  intros l s H Hl. destruct l as [|x0 r]; [contradiction|].
  destruct (d_r2s_struct _ _ _ H) as (step & _ & _ & _ & _ & _ & _ & Hs).
  subst s. cbn [ds_stop ds_step].
  destruct (0 <=? last (x0 :: r) 0 + step) eqn:E; split.
  - discriminate.
  - intros (st & Hst & Hlt). inversion Hst. subst st. lia.
  - intros _. exists step. split; [reflexivity|lia].
  - reflexivity.
Qed.

(* ------------------------------------------------------------------------------------------- *)
(* 7. examples                                                                                 *)
(* ------------------------------------------------------------------------------------------- *)
Example d_r2s_ex1 : d_range_to_slice [1;3;5] = Some (DS (Some 1) (Some 7) (Some 2)).
Proof. vm_compute. reflexivity. Qed.
Example d_r2s_ex2 : d_range_to_slice [4;2;0] = Some (DS (Some 4) None (Some (-2))).
Proof. vm_compute. reflexivity. Qed.
Example d_r2s_ex3 : d_range_to_slice [1;2;4] = None.
Proof. vm_compute. reflexivity. Qed.

(* ------------------------------------------------------------------------------------------- *)
(* 4. completeness                                                                             *)
(* ------------------------------------------------------------------------------------------- *)
Lemma d_forallb_repeat : forall step k, forallb (Z.eqb step) (repeat step k) = true.
Proof.
  induction k; [reflexivity|]. cbn [repeat forallb]. rewrite IHk, Z.eqb_refl. reflexivity.
Qed.

Lemma d_ap_in_inv : forall k a step x, In x (d_ap a step k) ->
  exists i, (i < k)%nat /\ x = a + Z.of_nat i * step.
Proof.
  induction k; intros a step x H; [contradiction|].
  cbn [d_ap] in H. destruct H as [H|H].
  - exists O. split; lia.
  - destruct (IHk _ _ _ H) as (i & Hi & Hx). exists (S i). split; lia.
Qed.

Lemma d_range_to_slice_complete : forall a step k, step <> 0 ->
  (forall i, (i <= k)%nat -> 0 <= a + Z.of_nat i * step) ->
  exists s, d_range_to_slice (map (fun i => a + Z.of_nat i * step) (seq 0 (S k))) = Some s.
Proof.
  intros a step k Hnz Hpos. rewrite d_ap_map.
  assert (E : existsb (fun i => i <? 0) (d_ap a step (S k)) = false).
  { destruct (existsb (fun i => i <? 0) (d_ap a step (S k))) eqn:E; [|reflexivity].
    apply existsb_exists in E. destruct E as (x & Hx & Hlt).
    apply d_ap_in_inv in Hx. destruct Hx as (i & Hi & ->).
    specialize (Hpos i). lia. }
  pose proof (d_diff_ap k a step) as Hd.
  unfold d_range_to_slice.
  change (d_ap a step (S k)) with (a :: d_ap (a + step) step k) at 1.
  cbv iota beta. rewrite E, Hd.
  destruct k as [|k].
  - cbn [repeat forallb]. change (1 =? 0) with false. cbn [orb negb]. eexists. reflexivity.
  - cbn [repeat].
    change (step :: repeat step k) with (repeat step (S k)).
    rewrite d_forallb_repeat. replace (step =? 0) with false by lia.
    cbn [orb negb]. eexists. reflexivity.
Qed.
