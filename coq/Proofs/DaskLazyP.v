(* C04: DaskLazyIndexer.dataset (the translated statement skeleton) refines the atomic, all-or-nothing, cached
   computation, for every world of (nested, parent-sharing) indexers, every history of requests and every fault plan. *)
From Coq Require Import ZArith List Bool Arith Lia.
From KV Require Import Base.Sx Gen.Generated Model.DaskIdx Model.DaskLazy.
Import ListNotations.
Close Scope Z_scope.
Open Scope nat_scope.

Ltac zinv H := inversion H; subst; clear H.

Section P.
Variables (V K : Type) (getitem : V -> K -> option V).

(* parents are constructed before their children *)
Definition z_wf (w : z_world V K) : Prop :=
  forall i d j, nth_error w i = Some d -> zd_par d = ZPInd j -> j < i.

(* ------------------------------------------------------------------ the spec by itself *)
Lemma z_spec_mono : forall fuel w plan c i c' o lg,
  z_spec_access getitem fuel w plan c i = (c', o, lg) -> forall k a, c k = Some a -> c' k = Some a.
Proof.
  induction fuel as [|f IH]; intros w plan c i c' o lg H k a Hk; simpl in H.
  - zinv H; auto.
  - destruct (nth_error w i) as [d|]; [|zinv H; auto].
    destruct (c i) eqn:Ci; [zinv H; auto|].
    destruct (zd_par d) as [a0|j].
    + destruct (getitem a0 (zd_keep d)); [|zinv H; auto].
      destruct (z_tr_loop i plan (zd_tr d) 0 v) as [[y b] lg2]. destruct b; zinv H; auto.
      unfold z_cset. destruct (Nat.eqb k i) eqn:E; auto. apply Nat.eqb_eq in E; subst. congruence.
    + destruct (z_spec_access getitem f w plan c j) as [[c1 src] lg1] eqn:E1.
      pose proof (IH _ _ _ _ _ _ _ E1 k a Hk) as M.
      destruct src as [a0| | |]; try (zinv H; auto; fail).
      destruct (getitem a0 (zd_keep d)); [|zinv H; auto].
      destruct (z_tr_loop i plan (zd_tr d) 0 v) as [[y b] lg2]. destruct b; zinv H; auto.
      unfold z_cset. destruct (Nat.eqb k i) eqn:E; auto.
      apply Nat.eqb_eq in E; subst k.
      (* k = i: c i = None, contradiction *) congruence.
Qed.

(* an access to i touches the cache of no later object *)
Lemma z_spec_frame : forall fuel w plan c i c' o lg, z_wf w ->
  z_spec_access getitem fuel w plan c i = (c', o, lg) -> forall k, i < k -> c' k = c k.
Proof.
  induction fuel as [|f IH]; intros w plan c i c' o lg W H k Hk; simpl in H.
  - zinv H; auto.
  - destruct (nth_error w i) as [d|] eqn:N; [|zinv H; auto].
    destruct (c i) eqn:Ci; [zinv H; auto|].
    assert (Hset : forall c1 y, c1 k = c k -> z_cset c1 i y k = c k).
    { intros c1 y E. unfold z_cset. destruct (Nat.eqb k i) eqn:E2; auto. apply Nat.eqb_eq in E2. lia. }
    destruct (zd_par d) as [a0|j] eqn:P.
    + destruct (getitem a0 (zd_keep d)); [|zinv H; auto].
      destruct (z_tr_loop i plan (zd_tr d) 0 v) as [[y b] lg2]. destruct b; zinv H; auto.
    + destruct (z_spec_access getitem f w plan c j) as [[c1 src] lg1] eqn:E1.
      assert (J : j < i) by (eapply W; eauto).
      assert (M : c1 k = c k) by (eapply IH; eauto; lia).
      destruct src as [a0| | |]; try (zinv H; auto; fail).
      destruct (getitem a0 (zd_keep d)); [|zinv H; auto].
      destruct (z_tr_loop i plan (zd_tr d) 0 v) as [[y b] lg2]. destruct b; zinv H; auto.
Qed.

(* ALL OR NOTHING: an access that returns has cached exactly what it returned; one that does not return leaves the
   object as it was (nothing cached) *)
Lemma z_spec_all_or_nothing : forall fuel w plan c i c' o lg, z_wf w ->
  z_spec_access getitem fuel w plan c i = (c', o, lg) ->
  match o with
  | ZRet a => c' i = Some a
  | ZRetNone => False
  | _ => c' i = c i /\ (0 < fuel -> nth_error w i <> None -> c i = None)
  end.
Proof.
  destruct fuel as [|f]; intros w plan c i c' o lg W H; simpl in H.
  - zinv H. split; auto; lia.
  - destruct (nth_error w i) as [d|] eqn:N; [|zinv H; split; auto; congruence].
    destruct (c i) eqn:Ci; [zinv H; auto|].
    assert (Hset : forall y, z_cset c' i y i = Some y).
    { intros. unfold z_cset. now rewrite Nat.eqb_refl. }
    destruct (zd_par d) as [a0|j] eqn:P.
    + destruct (getitem a0 (zd_keep d)); [|zinv H; auto].
      destruct (z_tr_loop i plan (zd_tr d) 0 v) as [[y b] lg2]. destruct b; zinv H; auto.
      unfold z_cset. now rewrite Nat.eqb_refl.
    + destruct (z_spec_access getitem f w plan c j) as [[c1 src] lg1] eqn:E1.
      assert (J : j < i) by (eapply W; eauto).
      assert (M : c1 i = c i) by (eapply z_spec_frame; eauto).
      rewrite Ci in M.
      destruct src as [a0| | |]; try (zinv H; auto; fail).
      destruct (getitem a0 (zd_keep d)); [|zinv H; auto].
      destruct (z_tr_loop i plan (zd_tr d) 0 v) as [[y b] lg2]. destruct b; zinv H; auto.
      unfold z_cset. now rewrite Nat.eqb_refl.
Qed.

(* ONCE: a cached object answers with the cached array, changes nothing and calls nothing *)
Lemma z_spec_cached : forall fuel w plan c i a, 0 < fuel -> nth_error w i <> None -> c i = Some a ->
  z_spec_access getitem fuel w plan c i = (c, ZRet a, []).
Proof.
  intros fuel w plan c i a F N C. destruct fuel; [lia|]. simpl.
  destruct (nth_error w i); [|congruence]. now rewrite C.
Qed.

(* cache after a request / a history *)
Lemma z_spec_request_mono : forall w plan objs c c' res,
  z_spec_request getitem w plan c objs = (c', res) -> forall k a, c k = Some a -> c' k = Some a.
Proof.
  induction objs as [|i r IH]; intros c c' res H k a Hk; simpl in H.
  - zinv H; auto.
  - destruct (z_spec_access getitem (List.length w) w plan c i) as [[c1 o] lg] eqn:E.
    pose proof (z_spec_mono _ _ _ _ _ _ _ _ E k a Hk) as M.
    destruct o; try (zinv H; auto; fail).
    destruct (z_spec_request getitem w plan c1 r) as [c2 rest] eqn:E2. zinv H. eapply IH; eauto.
Qed.

Fixpoint z_spec_after (w : z_world V K) (c : z_cache V) (hist : list (list nat * z_plan)) : z_cache V :=
  match hist with
  | [] => c
  | (objs, plan) :: r => z_spec_after w (fst (z_spec_request getitem w plan c objs)) r
  end.

Lemma z_spec_after_mono : forall w hist c k a, c k = Some a -> z_spec_after w c hist k = Some a.
Proof.
  induction hist as [|[objs plan] r IH]; intros c k a Hk; simpl; auto.
  apply IH. destruct (z_spec_request getitem w plan c objs) as [c' res] eqn:E. simpl.
  eapply z_spec_request_mono; eauto.
Qed.

(* once an access to i has returned a, then after ANY further history every access to i returns a, calls no
   transform and leaves the cache as it is *)
Theorem z_spec_once : forall w plan c i c' a lg hist plan',
  z_spec_access getitem (List.length w) w plan c i = (c', ZRet a, lg) -> z_wf w ->
  let c'' := z_spec_after w c' hist in
  z_spec_access getitem (List.length w) w plan' c'' i = (c'', ZRet a, []).
Proof.
  intros w plan c i c' a lg hist plan' H W c''.
  pose proof (z_spec_all_or_nothing _ _ _ _ _ _ _ _ W H) as A. simpl in A.
  assert (F : 0 < List.length w /\ nth_error w i <> None).
  { destruct (List.length w) eqn:L; simpl in H; [zinv H|].
    split; [lia|]. destruct (nth_error w i); [congruence|zinv H]. }
  apply z_spec_cached; try tauto.
  unfold c''. now apply z_spec_after_mono.
Qed.

(* the value: what is cached / returned is the whole chain, a pure function of the construction arguments *)
Lemma z_pure_fuel : forall w, z_wf w -> forall f1 f2 i, i < f1 -> i < f2 ->
  z_pure getitem f1 w i = z_pure getitem f2 w i.
Proof.
  intros w W. induction f1 as [|f1 IH]; intros f2 i H1 H2; [lia|].
  destruct f2 as [|f2]; [lia|]. simpl.
  destruct (nth_error w i) as [d|] eqn:N; auto.
  destruct (zd_par d) as [a|j] eqn:P; auto.
  assert (j < i) by (eapply W; eauto).
  rewrite (IH f2 j) by lia. reflexivity.
Qed.

Lemma z_tr_loop_nofault : forall i plan (tr : list (V -> V)) k x y lg,
  z_tr_loop i plan tr k x = (y, false, lg) -> y = fold_left (fun x g => g x) tr x.
Proof.
  induction tr as [|g r IH]; intros k x y lg H; simpl in H.
  - zinv H; auto.
  - destruct (plan i k); [zinv H|].
    destruct (z_tr_loop i plan r (S k) (g x)) as [[y' b] lg'] eqn:E. zinv H. simpl. eapply IH; eauto.
Qed.

Definition z_cache_ok (w : z_world V K) (c : z_cache V) : Prop :=
  forall k a, c k = Some a -> k < List.length w /\ z_pure getitem (List.length w) w k = Some a.

Lemma z_spec_value : forall w, z_wf w -> forall fuel plan c i c' o lg,
  fuel <= List.length w -> i < fuel -> z_cache_ok w c ->
  z_spec_access getitem fuel w plan c i = (c', o, lg) ->
  z_cache_ok w c' /\ (forall a, o = ZRet a -> z_pure getitem (List.length w) w i = Some a).
Proof.
  intros w W. induction fuel as [|f IH]; intros plan c i c' o lg FL Hi OK H; [lia|]. simpl in H.
  destruct (nth_error w i) as [d|] eqn:N; [|zinv H; split; auto; discriminate].
  assert (IL : i < List.length w) by (apply nth_error_Some; congruence).
  destruct (c i) eqn:Ci.
  { zinv H. split; auto. intros a E; zinv E. now apply OK. }
  assert (PV : forall a0 v y lg2, (match zd_par d with ZPBase a => Some a | ZPInd j => z_pure getitem f w j end) = Some a0 ->
               getitem a0 (zd_keep d) = Some v -> z_tr_loop i plan (zd_tr d) 0 v = (y, false, lg2) ->
               z_pure getitem (List.length w) w i = Some y).
  { intros a0 v y lg2 E1 E2 E3. rewrite (z_pure_fuel w W (List.length w) (S f) i) by lia.
    simpl. rewrite N, E1, E2. f_equal. symmetry. eapply z_tr_loop_nofault; eauto. }
  assert (CS : forall c1 y, z_cache_ok w c1 -> z_pure getitem (List.length w) w i = Some y -> z_cache_ok w (z_cset c1 i y)).
  { intros c1 y O1 PY k a. unfold z_cset. destruct (Nat.eqb k i) eqn:E; [|apply O1].
    apply Nat.eqb_eq in E; subst. intro E; zinv E. auto. }
  destruct (zd_par d) as [a0|j] eqn:P.
  - destruct (getitem a0 (zd_keep d)) eqn:G; [|zinv H; split; auto; discriminate].
    destruct (z_tr_loop i plan (zd_tr d) 0 v) as [[y b] lg2] eqn:T.
    assert (PY : b = false -> z_pure getitem (List.length w) w i = Some y) by (intro; subst b; eapply PV; eauto).
    destruct b; zinv H.
    + split; auto; discriminate.
    + specialize (PY eq_refl). split; auto. intros a E; zinv E; auto.
  - destruct (z_spec_access getitem f w plan c j) as [[c1 src] lg1] eqn:E1.
    assert (J : j < i) by (eapply W; eauto).
    destruct (IH plan c j c1 src lg1) as [O1 R1]; auto; try lia.
    destruct src as [a0| | |]; try (zinv H; split; auto; discriminate).
    destruct (getitem a0 (zd_keep d)) eqn:G; [|zinv H; split; auto; discriminate].
    destruct (z_tr_loop i plan (zd_tr d) 0 v) as [[y b] lg2] eqn:T.
    assert (PJ : z_pure getitem f w j = Some a0).
    { rewrite (z_pure_fuel w W f (List.length w) j) by lia. now apply R1. }
    assert (PY : b = false -> z_pure getitem (List.length w) w i = Some y) by (intro; subst b; eapply PV; eauto).
    destruct b; zinv H.
    + split; auto; discriminate.
    + specialize (PY eq_refl). split; auto. intros a E; zinv E; auto.
Qed.

(* ------------------------------------------------------------------ the translated code refines the spec *)
Definition z_inv (w : z_world V K) (h : z_heap V) (c : z_cache V) : Prop :=
  forall i,
    zs_cell (h i) = c i /\
    (forall a, c i = Some a -> i < List.length w) /\
    (c i = None -> forall d, nth_error w i = Some d ->
       match zd_par d with
       | ZPBase a => zs_orig (h i) = ZSArr a
       | ZPInd j => zs_orig (h i) = ZSInd j \/ exists a, zs_orig (h i) = ZSArr a /\ c j = Some a
       end).

Lemma z_inv_init : forall w, z_inv w (z_init w) (fun _ => None).
Proof.
  intros w i. unfold z_init. split; [destruct (nth_error w i); reflexivity|]. split; [discriminate|].
  intros _ d N. rewrite N. simpl. destruct (zd_par d); auto.
Qed.

(* only the fields of object i changed, the cache is the same: the invariant survives if it holds at i *)
Lemma z_inv_set : forall w h c i s, z_inv w h c ->
  (zs_cell s = c i /\
   (c i = None -> forall d, nth_error w i = Some d ->
      match zd_par d with
      | ZPBase a => zs_orig s = ZSArr a
      | ZPInd j => zs_orig s = ZSInd j \/ exists a, zs_orig s = ZSArr a /\ c j = Some a
      end)) ->
  z_inv w (z_set h i s) c.
Proof.
  intros w h c i s I [A B] k. unfold z_set. destruct (Nat.eqb k i) eqn:E.
  - apply Nat.eqb_eq in E; subst. destruct (I i) as [_ [I2 _]]. auto.
  - apply I.
Qed.

(* object i published y and the cache records it *)
Lemma z_inv_publish : forall w h c i y o, z_inv w h c -> c i = None -> i < List.length w ->
  z_inv w (z_set h i (ZS (Some y) o)) (z_cset c i y).
Proof.
  intros w h c i y o I Ci IL k. unfold z_set, z_cset. destruct (Nat.eqb k i) eqn:E.
  - apply Nat.eqb_eq in E; subst. simpl. split; auto. split; [intros; auto|discriminate].
  - destruct (I k) as [I1 [I2 I3]]. split; auto. split; auto.
    intros Ck d N. specialize (I3 Ck d N). destruct (zd_par d) as [a|j]; auto.
    destruct I3 as [L|[a [L1 L2]]]; auto. right. exists a. split; auto.
    destruct (Nat.eqb j i) eqn:E2; auto. apply Nat.eqb_eq in E2; subst. congruence.
Qed.

Lemma z_rd_cell_set_orig : forall (h : z_heap V) i o, zs_cell (z_set_orig h i o i) = zs_cell (h i).
Proof. intros. unfold z_set_orig, z_set. now rewrite Nat.eqb_refl. Qed.
Lemma z_rd_orig_set_orig : forall (h : z_heap V) i o, zs_orig (z_set_orig h i o i) = o.
Proof. intros. unfold z_set_orig, z_set. now rewrite Nat.eqb_refl. Qed.
Lemma z_rd_cell_set_cell : forall (h : z_heap V) i x, zs_cell (z_set_cell h i x i) = x.
Proof. intros. unfold z_set_cell, z_set. now rewrite Nat.eqb_refl. Qed.
Lemma z_rd_orig_set_cell : forall (h : z_heap V) i x, zs_orig (z_set_cell h i x i) = zs_orig (h i).
Proof. intros. unfold z_set_cell, z_set. now rewrite Nat.eqb_refl. Qed.
Lemma z_publish_eq : forall (h : z_heap V) i y u,
  z_set_orig (z_set_cell h i (Some y)) i ZSNone u = z_set h i (ZS (Some y) ZSNone) u.
Proof.
  intros. unfold z_set_orig, z_set_cell, z_set. destruct (Nat.eqb u i) eqn:E; auto.
  now rewrite Nat.eqb_refl.
Qed.
Lemma z_resolve_eq : forall (h : z_heap V) i a u,
  z_set_orig h i (ZSArr a) u = z_set h i (ZS (zs_cell (h i)) (ZSArr a)) u.
Proof. reflexivity. Qed.
Ltac zheap H := rewrite ?z_rd_cell_set_orig, ?z_rd_orig_set_orig, ?z_rd_cell_set_cell, ?z_rd_orig_set_cell in H.

(* the same, for any heap that differs from h only at i and has y in the cell of i (whatever the source field holds) *)
Lemma z_inv_publish_frame : forall w h h' c i y, z_inv w h c -> c i = None -> i < List.length w ->
  (forall u, u <> i -> h' u = h u) -> zs_cell (h' i) = Some y ->
  z_inv w h' (z_cset c i y).
Proof.
  intros w h h' c i y I Ci IL Fr Cy k.
  pose proof (z_inv_publish w h c i y (zs_orig (h' i)) I Ci IL k) as P.
  unfold z_set in P. destruct (Nat.eqb k i) eqn:E.
  - apply Nat.eqb_eq in E; subst k. destruct (h' i) as [cl og]. simpl in Cy. subst cl. exact P.
  - rewrite Fr by (apply Nat.eqb_neq; exact E). exact P.
Qed.
Ltac zframe i := let u := fresh "u" in let N := fresh "N" in
  intros u N; apply Nat.eqb_neq in N; unfold z_set_orig, z_set_cell, z_set; rewrite ?N; reflexivity.
Ltac zcell := unfold z_set_orig, z_set_cell, z_set; rewrite ?Nat.eqb_refl; cbn [zs_cell zs_orig];
  rewrite ?Nat.eqb_refl; reflexivity.

Lemma z_code_nonempty : z_code <> [].
Proof. vm_compute. discriminate. Qed.

Lemma z_access_refines : forall w, z_wf w -> forall fuel plan h c i, z_inv w h c -> i < fuel ->
  forall h' o lg, z_access getitem fuel z_code w plan h i = (h', o, lg) ->
  exists c', z_spec_access getitem fuel w plan c i = (c', o, lg) /\ z_inv w h' c'.
Proof.
  intros w W. remember z_code as code eqn:Hc. vm_compute in Hc. subst code.
  induction fuel as [|f IH]; intros plan h c i I Hi h' o lg H; [lia|].
  simpl in H. simpl.
  destruct (nth_error w i) as [d|] eqn:N; [|zinv H; eauto].
  destruct (I i) as [I1 [I2 I3]].
  cbn [z_exec] in H.
  destruct (zs_cell (h i)) as [a|] eqn:Cell.
  - (* cached *)
    cbn [z_exec z_read] in H. rewrite ?Cell in H. zinv H. rewrite <- I1. eauto.
  - rewrite <- I1. symmetry in I1. specialize (I3 I1 d N).
    cbn [z_exec] in H.
    destruct (zs_orig (h i)) as [a|j|] eqn:Orig.
    + (* the source is an array: the base array, or the data set of the parent resolved by an earlier access *)
      assert (SRC : match zd_par d with ZPBase a0 => (c, ZRet a0, @nil (nat * nat)) | ZPInd j => z_spec_access getitem f w plan c j end
                    = (c, ZRet a, [])).
      { destruct (zd_par d) as [a0|j] eqn:P.
        - congruence.
        - destruct I3 as [L|[a1 [L1 L2]]]; [congruence|]. zinv L1.
          assert (j < i) by (eapply W; eauto).
          apply z_spec_cached; [lia| |auto].
          destruct (I j) as [_ [J2 _]]. apply nth_error_Some. eauto. }
      rewrite SRC. cbn [z_exec] in H. rewrite ?Orig in H.
      destruct (getitem a (zd_keep d)) as [b|]; [|zinv H; eauto].
      cbn [z_exec z_write_h z_write_e z_read Nat.eqb] in H.
      destruct (z_tr_loop i plan (zd_tr d) 0 b) as [[y faulted] lg2] eqn:T.
      destruct faulted.
      * zinv H. eauto.
      * cbn [z_exec z_write_h z_write_e z_read Nat.eqb] in H. zheap H. zinv H.
        eexists. split; [reflexivity|].
        apply (z_inv_publish_frame w h); auto; [apply nth_error_Some; congruence|zframe i|zcell].
    + (* the source is a parent indexer that has not been asked yet by this object *)
      destruct (zd_par d) as [a0|j'] eqn:P; [congruence|].
      destruct I3 as [L|[a1 [L1 L2]]]; [|congruence]. zinv L.
      assert (J : j' < i) by (eapply W; eauto).
      match type of H with context [z_access getitem f ?code w plan h j'] =>
        destruct (z_access getitem f code w plan h j') as [[h1 o1] lg1] eqn:A end.
      destruct (IH plan h c j' I ltac:(lia) h1 o1 lg1 A) as [c1 [S1 I1']].
      rewrite S1.
      pose proof (z_spec_all_or_nothing _ _ _ _ _ _ _ _ W S1) as AN.
      assert (Ci1 : c1 i = None) by (rewrite (z_spec_frame _ _ _ _ _ _ _ _ W S1 i J); auto).
      destruct o1 as [a| | |]; [|contradiction|zinv H; eauto|zinv H; eauto].
      simpl in AN.
      cbn [z_exec] in H. zheap H.
      assert (Cell1 : zs_cell (h1 i) = None) by (destruct (I1' i) as [E _]; congruence).
      assert (I2' : z_inv w (z_set_orig h1 i (ZSArr a)) c1).
      { unfold z_set_orig. apply z_inv_set; auto. simpl. split; [destruct (I1' i); auto|].
        intros _ d' N'. rewrite N in N'. zinv N'. rewrite P. right. eauto. }
      destruct (getitem a (zd_keep d)) as [b|]; [|zinv H; eexists; split; [reflexivity|exact I2']].
      cbn [z_exec z_write_h z_write_e z_read Nat.eqb] in H.
      destruct (z_tr_loop i plan (zd_tr d) 0 b) as [[y faulted] lg2] eqn:T.
      destruct faulted.
      * zinv H. eexists; split; [reflexivity|exact I2'].
      * cbn [z_exec z_write_h z_write_e z_read Nat.eqb] in H. zheap H. zinv H.
        eexists. split; [reflexivity|].
        apply (z_inv_publish_frame w (z_set_orig h1 i (ZSArr a))); auto;
          [apply nth_error_Some; congruence|zframe i|zcell].
    + (* an unset object always has its source *)
      destruct (zd_par d); [congruence|]. destruct I3 as [L|[a1 [L1 L2]]]; congruence.
Qed.

Lemma z_access_outside : forall fuel code w plan (h : z_heap V) i, nth_error w i = None ->
  z_access getitem fuel code w plan h i = (h, ZErr, []).
Proof. intros. destruct fuel; simpl; auto. now rewrite H. Qed.
Lemma z_spec_access_outside : forall fuel w plan (c : z_cache V) i, nth_error w i = None ->
  z_spec_access getitem fuel w plan c i = (c, ZErr, []).
Proof. intros. destruct fuel; simpl; auto. now rewrite H. Qed.

Lemma z_request_refines : forall w, z_wf w -> forall plan objs h c, z_inv w h c ->
  forall h' res, z_request getitem z_code w plan h objs = (h', res) ->
  exists c', z_spec_request getitem w plan c objs = (c', res) /\ z_inv w h' c'.
Proof.
  intros w W plan. induction objs as [|i r IH]; intros h c I h' res H; simpl in H; simpl.
  - zinv H. eauto.
  - destruct (z_access getitem (List.length w) z_code w plan h i) as [[h1 o] lg] eqn:A.
    assert (exists c1, z_spec_access getitem (List.length w) w plan c i = (c1, o, lg) /\ z_inv w h1 c1) as [c1 [S1 I1]].
    { destruct (nth_error w i) eqn:N.
      - eapply z_access_refines; eauto. apply nth_error_Some. congruence.
      - rewrite z_access_outside in A by auto. zinv A. rewrite z_spec_access_outside by auto. eauto. }
    rewrite S1.
    destruct o; try (zinv H; eauto; fail).
    destruct (z_request getitem z_code w plan h1 r) as [h2 rest] eqn:R. zinv H.
    destruct (IH h1 c1 I1 _ _ R) as [c2 [S2 I2]]. rewrite S2. eauto.
Qed.

Theorem z_run_refines : forall w, z_wf w -> forall hist h c, z_inv w h c ->
  z_run getitem z_code w h hist = z_spec_run getitem w c hist.
Proof.
  intros w W. induction hist as [|[objs plan] r IH]; intros h c I; simpl; auto.
  destruct (z_request getitem z_code w plan h objs) as [h1 res] eqn:R.
  destruct (z_request_refines w W plan objs h c I _ _ R) as [c1 [S1 I1]]. rewrite S1.
  f_equal. now apply IH.
Qed.

Theorem z_run_refines_init : forall w, z_wf w -> forall hist,
  z_run getitem z_code w (z_init w) hist = z_spec_run getitem w (fun _ => None) hist.
Proof. intros w W hist. apply z_run_refines; auto. apply z_inv_init. Qed.

(* ALL: without a fault the access returns the whole chain whenever the chain is defined (and raises otherwise),
   calling every transform of every not yet cached object of the chain exactly once *)
Lemma z_tr_loop_noplan : forall i (tr : list (V -> V)) k x,
  z_tr_loop i (fun _ _ => false) tr k x
    = (fold_left (fun x g => g x) tr x, false, map (fun n => (i, n)) (seq k (List.length tr))).
Proof.
  induction tr as [|g r IH]; intros k x; simpl; auto. rewrite IH. reflexivity.
Qed.

Lemma z_spec_nofault : forall w, z_wf w -> forall fuel c i c' o lg,
  fuel <= List.length w -> i < fuel -> z_cache_ok w c ->
  z_spec_access getitem fuel w (fun _ _ => false) c i = (c', o, lg) ->
  match z_pure getitem (List.length w) w i with
  | Some a => o = ZRet a
  | None => o = ZErr
  end.
Proof.
  intros w W. induction fuel as [|f IH]; intros c i c' o lg FL Hi OK H; [lia|].
  rewrite (z_pure_fuel w W (List.length w) (S f) i) by lia.
  simpl in H. simpl.
  destruct (nth_error w i) as [d|] eqn:N; [|zinv H; auto].
  destruct (c i) eqn:Ci.
  { zinv H. destruct (OK i v Ci) as [_ PV]. rewrite (z_pure_fuel w W (List.length w) (S f) i) in PV by lia.
    simpl in PV. rewrite N in PV. rewrite PV. reflexivity. }
  destruct (zd_par d) as [a0|j] eqn:P.
  - destruct (getitem a0 (zd_keep d)) eqn:G; [|zinv H; auto].
    rewrite z_tr_loop_noplan in H. zinv H. reflexivity.
  - destruct (z_spec_access getitem f w (fun _ _ => false) c j) as [[c1 src] lg1] eqn:E1.
    assert (J : j < i) by (eapply W; eauto).
    pose proof (IH c j c1 src lg1 ltac:(lia) ltac:(lia) OK E1) as R.
    rewrite (z_pure_fuel w W (List.length w) f j) in R by lia.
    destruct (z_pure getitem f w j) as [a|]; subst src; [|zinv H; auto].
    destruct (getitem a (zd_keep d)) eqn:G; [|zinv H; auto].
    rewrite z_tr_loop_noplan in H. zinv H. reflexivity.
Qed.

(* HISTORY INDEPENDENCE: whatever happened before (faults, retries, other objects), an access to i that returns,
   returns the same array *)
Lemma z_spec_access_ok : forall w, z_wf w -> forall plan c i c' o lg, z_cache_ok w c ->
  z_spec_access getitem (List.length w) w plan c i = (c', o, lg) ->
  z_cache_ok w c' /\ (forall a, o = ZRet a -> z_pure getitem (List.length w) w i = Some a).
Proof.
  intros w W plan c i c' o lg OK H.
  destruct (nth_error w i) eqn:N.
  - eapply z_spec_value; eauto. apply nth_error_Some. congruence.
  - rewrite z_spec_access_outside in H by auto. zinv H. split; auto. discriminate.
Qed.

Lemma z_spec_request_ok : forall w, z_wf w -> forall plan objs c c' res, z_cache_ok w c ->
  z_spec_request getitem w plan c objs = (c', res) -> z_cache_ok w c'.
Proof.
  intros w W plan. induction objs as [|i r IH]; intros c c' res OK H; simpl in H.
  - zinv H; auto.
  - destruct (z_spec_access getitem (List.length w) w plan c i) as [[c1 o] lg] eqn:E.
    destruct (z_spec_access_ok w W _ _ _ _ _ _ OK E) as [OK1 _].
    destruct o; try (zinv H; auto; fail).
    destruct (z_spec_request getitem w plan c1 r) as [c2 rest] eqn:E2. zinv H. eapply IH; eauto.
Qed.

Lemma z_spec_after_ok : forall w, z_wf w -> forall hist c, z_cache_ok w c -> z_cache_ok w (z_spec_after w c hist).
Proof.
  intros w W. induction hist as [|[objs plan] r IH]; intros c OK; simpl; auto.
  apply IH. destruct (z_spec_request getitem w plan c objs) as [c' res] eqn:E. simpl.
  eapply z_spec_request_ok; eauto.
Qed.

Theorem z_spec_history_independent : forall w, z_wf w -> forall h1 h2 p1 p2 i c1' a1 lg1 c2' a2 lg2,
  z_spec_access getitem (List.length w) w p1 (z_spec_after w (fun _ => None) h1) i = (c1', ZRet a1, lg1) ->
  z_spec_access getitem (List.length w) w p2 (z_spec_after w (fun _ => None) h2) i = (c2', ZRet a2, lg2) ->
  a1 = a2.
Proof.
  intros w W h1 h2 p1 p2 i c1' a1 lg1 c2' a2 lg2 H1 H2.
  assert (E : forall k a, (fun _ : nat => @None V) k = Some a -> k < List.length w /\ z_pure getitem (List.length w) w k = Some a)
    by (intros; discriminate).
  destruct (z_spec_access_ok w W _ _ _ _ _ _ (z_spec_after_ok w W h1 _ E) H1) as [_ V1].
  destruct (z_spec_access_ok w W _ _ _ _ _ _ (z_spec_after_ok w W h2 _ E) H2) as [_ V2].
  specialize (V1 a1 eq_refl). specialize (V2 a2 eq_refl). congruence.
Qed.

(* KEEP SNAPSHOT: with the constructor as translated (keep deep-copied), overwriting the caller's index objects at
   any points of the history changes nothing: the run is the atomic spec over the values the keeps had at construction *)
Lemma z_run_events_refines : forall w, z_wf (z_snapshot w) -> forall evs st h c, z_inv (z_snapshot w) h c ->
  z_run_events getitem c04_init_keep_deepcopied z_code w st h evs
    = z_spec_run getitem (z_snapshot w) c (z_requests_of evs).
Proof.
  intros w W. induction evs as [|[r v|objs plan] es IH]; intros st h c I; [reflexivity| |].
  - simpl. apply IH. exact I.
  - cbn [z_run_events z_requests_of flat_map app z_spec_run].
    change (map (fun d : z_par V * (K * option nat) * list (V -> V) =>
                   let (y, tr) := d in let (p, kr) := y in ZD p (z_keep_seen c04_init_keep_deepcopied st kr) tr) w)
      with (z_snapshot w).
    destruct (z_request getitem z_code (z_snapshot w) plan h objs) as [h1 res] eqn:R.
    destruct (z_request_refines (z_snapshot w) W plan objs h c I _ _ R) as [c1 [S1 I1]]. rewrite S1.
    f_equal. now apply IH.
Qed.

Theorem z_keep_snapshot : forall w, z_wf (z_snapshot w) -> forall evs st,
  z_run_events getitem c04_init_keep_deepcopied z_code w st (z_init (z_snapshot w)) evs
    = z_spec_run getitem (z_snapshot w) (fun _ => None) (z_requests_of evs).
Proof. intros w W evs st. apply z_run_events_refines; auto. apply z_inv_init. Qed.

(* ... and the deep copy is needed: constructor keeping the caller's object, one mutation before the first access *)
Lemma z_cache_ok_empty : forall w, z_cache_ok w (fun _ => None).
Proof. intros w k a H. discriminate. Qed.

End P.

(* ------------------------------------------------------------------ instance: Model/DaskIdx arrays *)
Lemma z_pure_app : forall (V K : Type) (g : V -> K -> option V) (w w' : z_world V K), z_wf V K w ->
  forall f i, i < List.length w -> z_pure g f (w ++ w') i = z_pure g f w i.
Proof.
  intros V K g w w' W. induction f as [|f IH]; intros i Hi; simpl; auto.
  rewrite nth_error_app1 by auto.
  destruct (nth_error w i) as [d|] eqn:N; auto.
  destruct (zd_par d) as [a|j] eqn:P; auto.
  assert (j < i) by (eapply W; eauto). rewrite IH by lia. reflexivity.
Qed.

Lemma z_of_ind_nonempty : forall i, 0 < List.length (z_of_ind i).
Proof. destruct i; simpl; [lia|]. rewrite app_length. simpl. lia. Qed.

Lemma z_of_ind_wf : forall i, z_wf _ _ (z_of_ind i).
Proof.
  induction i as [a k tr|j IH k tr]; intros n d p N P; simpl in N.
  - destruct n; simpl in N; [zinv N; discriminate|destruct n; discriminate].
  - pose proof (z_of_ind_nonempty j) as NE.
    destruct (Nat.lt_ge_cases n (List.length (z_of_ind j))) as [L|L].
    + rewrite nth_error_app1 in N by auto. eapply IH; eauto.
    + rewrite nth_error_app2 in N by auto.
      destruct (n - List.length (z_of_ind j)) eqn:E; simpl in N; [|destruct n0; discriminate].
      zinv N. simpl in P. zinv P. lia.
Qed.

(* the chain value of the objects of a (nested) indexer is d_dataset, the .dataset of Model/DaskIdx.v that
   C04_two_stage / C04_nesting speak about *)
Theorem z_pure_of_ind : forall i,
  z_pure d_getitem (List.length (z_of_ind i)) (z_of_ind i) (List.length (z_of_ind i) - 1) = d_dataset i.
Proof.
  induction i as [a k tr|j IH k tr]; simpl.
  - destruct (d_getitem a k); reflexivity.
  - pose proof (z_of_ind_nonempty j) as NE.
    rewrite app_length. simpl List.length.
    replace (List.length (z_of_ind j) + 1) with (S (List.length (z_of_ind j))) by lia.
    replace (S (List.length (z_of_ind j)) - 1) with (List.length (z_of_ind j)) by lia.
    simpl. rewrite nth_error_app2 by lia. rewrite Nat.sub_diag. simpl.
    rewrite z_pure_app by (auto using z_of_ind_wf; lia). rewrite IH.
    destruct (d_dataset j); auto.
Qed.

(* ------------------------------------------------------------------ the in-place variant is refuted *)
(* seeded change C04-6 in the model: one object, two transforms (+1 then *2) over the value 5, the second transform
   raises during the first access; the retry returns the half-built value 6 without calling anything, the spec
   (and the translated code) 12 after calling both transforms *)
Definition z_ex_world : z_world Z unit := [ZD (ZPBase 5%Z) tt [fun x => (x + 1)%Z; fun x => (x * 2)%Z]].
Definition z_ex_hist : list (list nat * z_plan) :=
  [([0], fun i k => Nat.eqb k 1); ([0], fun _ _ => false)].
Definition z_ex_get (a : Z) (_ : unit) : option Z := Some a.

Lemma z_inplace_refuted :
  z_run z_ex_get z_code_inplace z_ex_world (z_init z_ex_world) z_ex_hist
    = [[(ZFault, [(0, 0); (0, 1)])]; [(ZRet 6%Z, [])]] /\
  z_spec_run z_ex_get z_ex_world (fun _ => None) z_ex_hist
    = [[(ZFault, [(0, 0); (0, 1)])]; [(ZRet 12%Z, [(0, 0); (0, 1)])]] /\
  z_run z_ex_get z_code z_ex_world (z_init z_ex_world) z_ex_hist
    = z_spec_run z_ex_get z_ex_world (fun _ => None) z_ex_hist.
Proof. repeat split; vm_compute; reflexivity. Qed.

(* what the heap model and the driver of the correspondence take from the rest of the class, as translated *)
Lemma z_skeleton :
  z_decode c04_ds_code <> None /\ c04_ds_locked = true /\ c04_ds_field_users = [] /\
  c04_init_cell_unset = true /\ c04_init_orig_is_arg = true /\ c04_init_keep_deepcopied = true /\
  c04_init_transforms_copied = true /\ c04_init_lock_fresh = true /\ c04_init_defaults_empty = true /\
  c04_transforms_is_field = true /\
  c04_shape_via_dataset = true /\ c04_dtype_via_dataset = true /\ c04_getitem_via_dataset = true /\
  c04_get_via_dataset = true /\ c04_len_via_dataset = true.
Proof. split; [vm_compute; discriminate|]. repeat split; reflexivity. Qed.

(* non-vacuity on real arrays: a parent (rows 1: of a 4-vector, 2x+1) shared by two children (elements [2,0] negated;
   everything, negated).  Request 1 on child 1 fails in the PARENT's transform: nothing is cached anywhere.  Request 2
   fails in child 1's own transform: the parent is now cached, child 1 is not.  Request 3 = get([child 2, child 1]):
   child 2 calls only its own transform (the parent is cached: "once"), child 1 now completes.  Request 4 calls nothing. *)
Definition z_ex2_world : z_dworld :=
  let a := d_label_arr [4%Z] in
  [ZD (ZPBase a) [DSlice (DS (Some 1%Z) None None)] [d_transform 0%Z];
   ZD (ZPInd 0) [DList [2%Z; 0%Z]] [d_transform 2%Z];
   ZD (ZPInd 0) [] [d_transform 2%Z]].
Definition z_ex2_hist : list (list nat * z_plan) :=
  [([1], z_plan_of [(0, 0)]%Z); ([1], z_plan_of [(1, 0)]%Z); ([2; 1], z_plan_of []); ([1; 2; 0], z_plan_of [(0, 0); (1, 0)]%Z)].
Definition z_ex2_show (rs : list (list (z_out d_arr * z_log))) :=
  map (map (fun r => (match fst r with ZRet a => Some (d_values a) | _ => None end, snd r))) rs.

Lemma z_example_nested :
  z_wf _ _ z_ex2_world /\
  z_ex2_show (z_run d_getitem z_code z_ex2_world (z_init z_ex2_world) z_ex2_hist) =
    [[(None, [(0, 0)])];
     [(None, [(0, 0); (1, 0)])];
     [(Some [-3; -5; -7]%Z, [(2, 0)]); (Some [-7; -3]%Z, [(1, 0)])];
     [(Some [-7; -3]%Z, []); (Some [-3; -5; -7]%Z, []); (Some [3; 5; 7]%Z, [])]] /\
  z_run d_getitem z_code z_ex2_world (z_init z_ex2_world) z_ex2_hist
    = z_spec_run d_getitem z_ex2_world (fun _ => None) z_ex2_hist.
Proof.
  assert (W : z_wf _ _ z_ex2_world).
  { intros i d j N P. do 3 (destruct i as [|i]; [simpl in N; zinv N; simpl in P; try discriminate; zinv P; lia|]).
    destruct i; discriminate. }
  split; [exact W|]. split; [vm_compute; reflexivity|]. now apply z_run_refines_init.
Qed.

(* without the deep copy (flag false) the caller's later value of the index object is what stage 1 sees *)
Lemma z_keep_alias_refuted :
  let w := [(ZPBase 5%Z, (1%Z, Some 0), @nil (Z -> Z))] in
  let evs := [ZMutate 0 100%Z; ZRequest [0] (fun _ _ => false)] in
  z_run_events (fun a k => Some (a + k)%Z) false z_code w (fun _ => 1%Z) (z_init (z_snapshot w)) evs
    = [[(ZRet 105%Z, [])]] /\
  z_spec_run (fun a k => Some (a + k)%Z) (z_snapshot w) (fun _ => None) (z_requests_of evs)
    = [[(ZRet 6%Z, [])]].
Proof. split; vm_compute; reflexivity. Qed.
