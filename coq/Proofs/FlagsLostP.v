(* C16 round 3: v4 raw flags / boolean flags with the lost sets derived from the chunk layout (Model/FlagsLost.v).
   The heavy lifting - the lost map built from intersect_chunks and applied per flags chunk marks exactly the elements
   covered by an absent chunk, for ANY independently drawn chunkings - is C06's flags_model_is_spec, used unchanged. *)
From Coq Require Import ZArith List Bool String Lia.
From KV Require Import Base.Sx Base.Str Gen.Generated Model.Prune Model.LostMap Model.Flags Model.FlagsV4 Model.FlagsLost.
From KV Require Import Proofs.FlagsP Proofs.FlagsV4P Proofs.PruneP Proofs.LostMapP Proofs.LostMapNdP Proofs.FlagsLostBaseP.
Import ListNotations.
Open Scope Z_scope.

Lemma lx_raw_unfold c calok p :
  lx_raw c calok p = Z.lor (model_flags c p) (if calok p then 0 else 128).
Proof.
  unfold lx_raw, lx_raw_with.
  change (lx_flags_array_with (the_entries c) (assoc "raw_flags" v4_indexer_src) c calok p)
    with (lx_corrected_flags_with (the_entries c) c calok p).
  unfold lx_corrected_flags_with, lx_source_flags_with.
  destruct (proj2 (proj2 (proj2 flag_const_names))) as (_ & _ & ->). reflexivity.
Qed.

(* the derived model refines the per-sample model of Model/FlagsV4.v, the sample being filled with the exact lost sets *)
Lemma lx_raw_refines_sample c calok p : cfg_ok c p -> lx_raw c calok p = v4_raw (lx_sample c calok p).
Proof.
  intro OK. rewrite lx_raw_unfold, (flags_model_is_spec c p OK), v4_raw_spec.
  unfold spec_flags, spec_v4_raw, spec_raw_flags_v4, lx_sample, lost_any, cal_invalid, lx_lostw.
  cbn [s_lostf s_lostv s_lostw s_cal s_stored]. rewrite data_lost_is_bit3.
  destruct (lost_in c A_FLAGS p), (lost_in c A_VIS p), (lost_in c A_W p), (lost_in c A_WC p), (calok p);
    cbn [orb]; rewrite ?Z.lor_0_r, ?Z.lor_0_l; try reflexivity; rewrite ?Z.lor_diag; reflexivity.
Qed.

Lemma lx_refines_sample c calok p : cfg_ok c p ->
  lx_raw c calok p = v4_raw (lx_sample c calok p) /\
  s_lostf (lx_sample c calok p) = lost_in c A_FLAGS p /\ s_lostv (lx_sample c calok p) = lost_in c A_VIS p /\
  s_lostw (lx_sample c calok p) = (lost_in c A_W p || lost_in c A_WC p) /\
  s_stored (lx_sample c calok p) = stored c A_FLAGS p.
Proof. intros OK. split; [exact (lx_raw_refines_sample c calok p OK)|repeat split]. Qed.

Lemma lx_raw_spec c calok p : cfg_ok c p -> lx_raw c calok p = spec_lx_raw c calok p.
Proof. intro OK. rewrite (lx_raw_refines_sample c calok p OK). apply v4_raw_spec. Qed.

Lemma lx_lost_any c calok p : lost_any (lx_sample c calok p) = lx_any_lost c p.
Proof.
  unfold lost_any, lx_sample, lx_any_lost, lx_lostw. cbn [s_lostf s_lostv s_lostw].
  destruct (lost_in c A_FLAGS p), (lost_in c A_VIS p), (lost_in c A_W p), (lost_in c A_WC p); reflexivity.
Qed.

(* raw_flags = stored | data_lost (exact lost set) | postproc (exact invalid set) *)
Lemma lx_raw_exact c calok p : cfg_ok c p ->
  lx_raw c calok p
  = Z.lor (Z.lor (if lost_in c A_FLAGS p then 0 else stored c A_FLAGS p) (if lx_any_lost c p then 8 else 0))
          (if calok p then 0 else 128).
Proof.
  intro OK. rewrite (lx_raw_spec c calok p OK). unfold spec_lx_raw, spec_v4_raw, spec_raw_flags_v4.
  rewrite lx_lost_any. unfold lx_sample, cal_invalid. cbn [s_lostf s_stored s_cal].
  destruct (calok p); reflexivity.
Qed.

(* the bits: data_lost exactly where a covering chunk is absent (or stored), postproc exactly where the correction is
   invalid (or stored), every other bit as stored *)
Lemma lx_raw_bits c calok p : cfg_ok c p ->
  Z.testbit (lx_raw c calok p) 3
    = lx_any_lost c p || (negb (lost_in c A_FLAGS p) && Z.testbit (stored c A_FLAGS p) 3) /\
  Z.testbit (lx_raw c calok p) 7
    = negb (calok p) || (negb (lost_in c A_FLAGS p) && Z.testbit (stored c A_FLAGS p) 7) /\
  forall i, 0 <= i -> i <> 3 -> i <> 7 ->
    Z.testbit (lx_raw c calok p) i = negb (lost_in c A_FLAGS p) && Z.testbit (stored c A_FLAGS p) i.
Proof.
  intro OK. rewrite lx_raw_unfold. destruct (flag_bits c p OK) as [B3 Bo].
  assert (B128 : forall i, 0 <= i -> Z.testbit 128 i = Z.eqb i 7).
  { intros i Hi. change 128 with (2 ^ 7). rewrite Z.pow2_bits_eqb by lia. apply Z.eqb_sym. }
  split; [|split].
  - rewrite Z.lor_spec, B3. replace (lx_any_lost c p) with (any_lost c p) by reflexivity.
    destruct (calok p); [rewrite Z.bits_0|rewrite B128 by lia]; cbn [Z.eqb]; rewrite orb_false_r; reflexivity.
  - rewrite Z.lor_spec, (Bo 7) by lia.
    destruct (calok p); [rewrite Z.bits_0|rewrite B128 by lia]; cbn [Z.eqb negb orb];
      rewrite ?orb_false_r, ?orb_true_r; reflexivity.
  - intros i Hi N3 N7. rewrite Z.lor_spec, (Bo i Hi N3).
    destruct (calok p); [rewrite Z.bits_0|rewrite B128 by lia]; rewrite ?orb_false_r; [reflexivity|].
    replace (i =? 7) with false by (symmetry; apply Z.eqb_neq; exact N7). apply orb_false_r.
Qed.

(* nothing lost around p and a valid correction: the stored byte, untouched - whatever was lost elsewhere, however
   the chunks of the other arrays lie relative to the flags chunk of p *)
Lemma lx_raw_untouched c calok p : cfg_ok c p -> lx_any_lost c p = false -> calok p = true ->
  lx_raw c calok p = stored c A_FLAGS p.
Proof.
  intros OK NL CK. rewrite (lx_raw_exact c calok p OK), NL, CK.
  unfold lx_any_lost in NL. destruct (lost_in c A_FLAGS p); [discriminate NL|].
  rewrite !Z.lor_0_r. reflexivity.
Qed.

Lemma lx_stored_sample c calok p : s_stored (lx_sample c calok p) = stored c A_FLAGS p.
Proof. reflexivity. Qed.

(* boolean flags after any history *)
Lemma lx_flag_spec h c calok p : cfg_ok c p -> 0 <= stored c A_FLAGS p < 256 ->
  lx_flag flag_names h c calok p = spec_lx_flag h c calok p.
Proof.
  intros OK R. unfold lx_flag, spec_lx_flag. rewrite (lx_raw_refines_sample c calok p OK).
  exact (v4_flag_spec h (lx_sample c calok p) R).
Qed.

Lemma lx_flag_exact h c calok p : cfg_ok c p -> 0 <= stored c A_FLAGS p < 256 ->
  lx_flag flag_names h c calok p
  = existsb (fun i => Z.testbit (lx_raw c calok p) i && Z.testbit (spec_hist_mask h) i) [0;1;2;3;4;5;6;7].
Proof.
  intros OK R. rewrite (lx_flag_spec h c calok p OK R). unfold spec_lx_flag, spec_v4_flag, spec_flag_bool.
  rewrite (lx_raw_spec c calok p OK). reflexivity.
Qed.

(* the history does not occur in raw flags *)
Lemma lx_raw_regardless (h h' : list (option selarg)) c calok p :
  (fun _ : list (option selarg) => lx_raw c calok p) h = (fun _ => lx_raw c calok p) h'.
Proof. reflexivity. Qed.

(* ---------- the straddling layout (demo of seeded change C16-7) ---------- *)
Lemma ex_straddle_ok t : In t [0;1;2;3;4;5] -> cfg_ok ex_straddle [t; 1; 0].
Proof.
  intros Ht. cbn in Ht.
  repeat match goal with H : _ \/ _ |- _ => destruct H as [H|H] end; try contradiction; subst;
    unfold cfg_ok, arr_ok, nd, arr_chunks, allpos; cbn;
    repeat match goal with
           | |- _ /\ _ => split
           | |- Forall _ _ => constructor
           | |- True => exact Logic.I
           end; try lia; try reflexivity; unfold allpos; repeat constructor.
Qed.

Definition all_true (_ : list Z) : bool := true.

(* the lost correlator_data chunk (dumps 1-2) has the shape of a flags chunk and straddles flags chunks 0 and 1:
   dumps 1 and 2 get data_lost, dumps 0 and 3 - same flags chunks - keep the stored byte *)
Lemma ex_straddle_values :
  map (fun t => lx_raw ex_straddle all_true [t; 1; 0]) [0;1;2;3;4;5]
  = map (fun t => Z.lor (stored ex_straddle A_FLAGS [t; 1; 0]) (if (1 <=? t) && (t <=? 2) then 8 else 0)) [0;1;2;3;4;5]
  /\ map (fun t => stored ex_straddle A_FLAGS [t; 1; 0]) [0;1;2;3;4;5] = [3; 4; 5; 6; 7; 1]
  /\ map (fun t => lx_flag flag_names [Some (SelStr "data_lost")] ex_straddle all_true [t; 1; 0]) [0;1;2;3;4;5]
     = [false; true; true; false; false; false].
Proof. vm_compute. repeat split; reflexivity. Qed.

(* ---------- the flags indexer under concurrent first reads ---------- *)
(* d.flags is a DaskLazyIndexer built on the raw-flags indexer with the transform chain [bitwise_and (unless the mask is
   all ones); view_as_bool]; its graph is built lazily, on first use, by DaskLazyIndexer.dataset - the site `site_dask`
   of C20's Model/LazyInit.v, REGENERATED from katdal/lazy_indexer.py on every run.  S = what the raw-flags indexer
   delivers for a sample, V = what d.flags delivers, f = the transform chain. *)
From KV Require Model.LazyInit Proofs.LazyInitP.

Lemma flags_first_reads_safe (h : list (option selarg)) (raw : Z) (schedule : list nat) : 0 <= raw < 256 ->
  let c := LazyInit.exec Z bool (fun r => v4_flag r (hist_mask flag_names h)) LazyInit.site_dask
                         (LazyInit.mkSh None (Some raw) 0) schedule in
  (forall t, LazyInit.c_th c t <> LazyInit.Failed) /\
  (forall t lo, LazyInit.c_th c t = LazyInit.Done lo ->
     LazyInit.lres lo = Some (spec_flag_bool raw (spec_hist_mask h))) /\
  (LazyInit.c_lock c = None -> LazyInit.c_hist c <> [] -> LazyInit.ncomp (LazyInit.c_sh c) = 1%nat).
Proof.
  intros R c.
  destruct (LazyInitP.dask_dataset_safe Z bool (fun r => v4_flag r (hist_mask flag_names h)) raw schedule) as (A & B & C).
  split; [exact A|]. split; [|exact C].
  intros t lo D. rewrite (B t lo D). f_equal.
  rewrite v4_flag_is_flag_bool by (auto using hist_mask_range).
  rewrite flag_bool_spec by (auto using hist_mask_range).
  rewrite hist_mask_spec. reflexivity.
Qed.
