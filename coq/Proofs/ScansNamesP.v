(* C03: names_ok (the hypothesis of C03_yield_values: the sensor indexed by EVENT number agrees with the per-dump
   sensors) holds for EVERY observation built from a segmentation produced by the pipelines of the format classes,
   and such an observation gives every dump exactly one scan, compound scan and target index. *)
From Coq Require Import ZArith List Bool String Arith Lia.
From KV Require Import Base.Sx Base.Str Base.SelSlice Gen.Generated Model.Select Model.Scans
  Proofs.SelectBaseP Proofs.SelectP Proofs.SelectLawsP Proofs.ScansP Proofs.ScansSegP Proofs.ScansPipeP.
From KV Require Model.Categorical Proofs.CategoricalP Proofs.CategoricalConcatP.
Import ListNotations.
Open Scope nat_scope.

Module C := Categorical.

(* tie: the numbers and strings read from the three format classes are the ones the harness / the examples assume *)
Lemma seg_skeleton_ok :
  (seg_v4_slew_len_gt = 1%Z /\ seg_v4_slew_event_index = 1%Z /\ seg_v4_slew_event_value = 1%Z /\ seg_v4_slew_dump = 1%Z
   /\ seg_v4_slew_value = "slew"%string /\ seg_v4_label_uv_gt = 1%Z /\ seg_v4_label_removed = ""%string /\ seg_v4_label_first_gt = 0%Z
   /\ seg_v4_label_add_event = 0%Z /\ seg_v4_label_add_value = ""%string /\ seg_v4_stop_value = "stop"%string /\ seg_v4_stop_dump = 0%Z)
  /\ (seg_v3_slew_len_gt = 1%Z /\ seg_v3_slew_event_index = 1%Z /\ seg_v3_slew_event_value = 1%Z /\ seg_v3_slew_dump = 1%Z
   /\ seg_v3_slew_value = "slew"%string /\ seg_v3_label_uv_gt = 1%Z /\ seg_v3_label_removed = ""%string /\ seg_v3_label_first_gt = 0%Z
   /\ seg_v3_label_add_event = 0%Z /\ seg_v3_label_add_value = ""%string /\ seg_v3_nothing_len_gt = 1%Z /\ seg_v3_nothing_dump = 0%Z
   /\ seg_v3_nothing_value = "Nothing, special"%string)
  /\ (seg_v2_slew_len_gt = 1%Z /\ seg_v2_slew_event_index = 1%Z /\ seg_v2_slew_event_value = 1%Z /\ seg_v2_slew_dump = 1%Z
   /\ seg_v2_slew_value = "slew"%string /\ seg_v2_label_uv_gt = 1%Z /\ seg_v2_label_removed = ""%string /\ seg_v2_label_first_gt = 0%Z
   /\ seg_v2_label_add_event = 0%Z /\ seg_v2_label_add_value = ""%string)
  /\ k_dist (segk_of V4) = 1%nat.
Proof. repeat split; reflexivity. Qed.

Lemma nth_map_seq : forall n k, k < n -> nth k (map Z.of_nat (seq 0 n)) zd = Z.of_nat k.
Proof.
  intros n k H. rewrite (nth_indep _ zd (Z.of_nat 0)) by (rewrite map_length, seq_length; exact H).
  rewrite map_nth, seq_nth by exact H. reflexivity.
Qed.

(* on a series c covering 0..N: the name found through the event number of dump p (index sensor built from c) is
   the value c has at dump p *)
Lemma name_via_index : forall N (c : cdz) p, 0 < N -> good N c -> p < N ->
  let v := nth p (C.expand zd (index_cd c)) zd in
  (0 <= v)%Z /\
  match nth_error (C.idx c) (Z.to_nat v) with Some i => nth_error (C.uv c) i | None => None end
  = Some (nth p (C.expand zd c) zd).
Proof.
  intros N c p HN G Hp v.
  destruct (index_cd_good N c HN G) as (Gi & Ev & _).
  destruct (good_nth_expand N (index_cd c) p Gi Hp) as [X1 X2].
  destruct (good_nth_expand N c p G Hp) as [Y1 Y2].
  rewrite Ev in X1.
  assert (Ei : C.vals zd (index_cd c) = map Z.of_nat (seq 0 (List.length (C.idx c))))
    by (apply (CategoricalConcatP.make_vals Z.eqb zd Zeqb_ok)).
  set (k := C.count_le (tl (C.ev c)) p) in *.
  assert (Hv : v = Z.of_nat k) by (unfold v; rewrite X1, Ei; apply nth_map_seq; exact Y2).
  split; [rewrite Hv; lia|]. rewrite Hv, Nat2Z.id.
  rewrite (nth_error_nth' (C.idx c) 0 Y2).
  destruct G as (W & _). destruct W as (_ & _ & F & _). rewrite Forall_forall in F.
  assert (Hi : nth k (C.idx c) 0 < List.length (C.uv c)) by (apply F; apply nth_In; exact Y2).
  rewrite (nth_error_nth' (C.uv c) zd Hi). f_equal. rewrite Y1. unfold C.vals.
  rewrite (nth_indep (map (fun i => nth i (C.uv c) zd) (C.idx c)) zd (nth 0 (C.uv c) zd)) by (rewrite map_length; exact Y2).
  rewrite (map_nth (fun i => nth i (C.uv c) zd)). reflexivity.
Qed.

Lemma it_field_scans : it_field WScans = d_scan. Proof. reflexivity. Qed.
Lemma it_field_compscans : it_field WCompscans = d_cscan. Proof. reflexivity. Qed.
Lemma it_names_scans : forall O, it_names O WScans = so_state O. Proof. reflexivity. Qed.
Lemma it_names_compscans : forall O, it_names O WCompscans = so_label O. Proof. reflexivity. Qed.

(* NAMES: for every segmentation that is seg_good (every output of segment / segment_v1 on well-formed inputs) *)
Theorem seg_names_ok : forall N g o w, 0 < N -> seg_good N g -> names_ok (sobs_of_seg g o) w.
Proof.
  intros N g o w HN SG d Hd. unfold sobs_of_seg in Hd. cbn [so o_dumps] in Hd. unfold dumps_of_seg in Hd.
  apply in_map_iff in Hd. destruct Hd as (p & <- & Hp). apply in_seq in Hp.
  destruct SG as [Gs Gsc Gl Gcs Gt Gti _ _ _ Es Ec _ _ _].
  assert (Nd : C.ndumps (sg_state g) = N) by (destruct Gs as (_ & _ & E); exact E).
  rewrite Nd in Hp. assert (Hp' : p < N) by lia.
  unfold name_of. destruct w.
  - rewrite it_field_scans, it_names_scans. cbn [d_scan d_state namefield sobs_of_seg so_state]. rewrite Es.
    destruct (name_via_index N (sg_state g) p HN Gs Hp') as [A B].
    destruct (Z.ltb_spec (nth p (C.expand zd (index_cd (sg_state g))) zd) 0); [lia|]. exact B.
  - rewrite it_field_compscans, it_names_compscans. cbn [d_cscan d_label namefield sobs_of_seg so_label]. rewrite Ec.
    destruct (name_via_index N (sg_label g) p HN Gl Hp') as [A B].
    destruct (Z.ltb_spec (nth p (C.expand zd (index_cd (sg_label g))) zd) 0); [lia|]. exact B.
Qed.

(* EVERY DUMP ONCE, in terms of the observation handed to select() and to the generators: it has exactly N dumps and
   dump p carries the p-th entry of each of the per-dump lists, which all have N entries *)
Theorem seg_dumps : forall N g ts, seg_good N g ->
  List.length (dumps_of_seg g ts) = N
  /\ map d_scan (dumps_of_seg g ts) = C.expand zd (sg_scan g)
  /\ map d_cscan (dumps_of_seg g ts) = C.expand zd (sg_cscan g)
  /\ map d_target (dumps_of_seg g ts) = C.expand zd (sg_tindex g)
  /\ map d_state (dumps_of_seg g ts) = C.expand zd (sg_state g)
  /\ map d_label (dumps_of_seg g ts) = C.expand zd (sg_label g).
Proof.
  intros N g ts [Gs Gsc Gl Gcs Gt Gti _ _ _ _ _ _ _ _].
  assert (Nd : C.ndumps (sg_state g) = N) by (destruct Gs as (_ & _ & E); exact E).
  unfold dumps_of_seg. rewrite Nd.
  assert (X : forall (f : dump -> Z) (c : cdz), good N c ->
            (forall p, f {| d_ts := nth p ts 0%Z; d_scan := nth p (C.expand zd (sg_scan g)) zd;
                            d_state := nth p (C.expand zd (sg_state g)) zd;
                            d_cscan := nth p (C.expand zd (sg_cscan g)) zd;
                            d_label := nth p (C.expand zd (sg_label g)) zd;
                            d_target := nth p (C.expand zd (sg_tindex g)) zd |} = nth p (C.expand zd c) zd) ->
            map f (map (fun p => {| d_ts := nth p ts 0%Z; d_scan := nth p (C.expand zd (sg_scan g)) zd;
                            d_state := nth p (C.expand zd (sg_state g)) zd;
                            d_cscan := nth p (C.expand zd (sg_cscan g)) zd;
                            d_label := nth p (C.expand zd (sg_label g)) zd;
                            d_target := nth p (C.expand zd (sg_tindex g)) zd |}) (seq 0 N)) = C.expand zd c).
  { intros f c G Hf. rewrite map_map. pose proof (good_expand_length N c G) as L.
    apply (nth_ext _ _ zd zd); [rewrite map_length, seq_length; congruence|].
    intros n Hn. rewrite map_length, seq_length in Hn.
    rewrite (nth_indep _ zd (f {| d_ts := nth 0 ts 0%Z; d_scan := nth 0 (C.expand zd (sg_scan g)) zd;
                            d_state := nth 0 (C.expand zd (sg_state g)) zd;
                            d_cscan := nth 0 (C.expand zd (sg_cscan g)) zd;
                            d_label := nth 0 (C.expand zd (sg_label g)) zd;
                            d_target := nth 0 (C.expand zd (sg_tindex g)) zd |}))
      by (rewrite map_length, seq_length; exact Hn).
    rewrite (map_nth (fun p => f _) (seq 0 N) 0 n). rewrite seq_nth by exact Hn. apply Hf. }
  split; [rewrite map_length, seq_length; reflexivity|].
  repeat split; apply X; auto.
Qed.

(* YIELDED NAME without the names_ok hypothesis, on every observation built from a segmentation *)
Theorem yield_values_seg : forall B N g o w (body : st -> res (B * st)) s ys sf, 0 < N -> seg_good N g ->
  body_ok (so (sobs_of_seg g o)) body -> Inv3 (so (sobs_of_seg g o)) s ->
  iterate (sobs_of_seg g o) w body s = Ok (ys, sf) ->
  forall y p d, In y ys -> nth_error (o_dumps (so (sobs_of_seg g o))) p = Some d -> shown y p = true ->
    y_name y = namefield w d.
Proof.
  intros B N g o w body s ys sf HN SG HB H3 H y p d Hy Hd Hs.
  destruct (yield_values B (sobs_of_seg g o) w body s ys sf HB H3 H y Hy) as (Hn & _).
  exact (Hn (seg_names_ok N g o w HN SG) p d Hd Hs).
Qed.

(* non-vacuity: the inputs of the example segmentation of ScansP are series covering 0..12, the pipeline succeeds *)
Lemma ex_seg_good : exists g, ex_seg = Some g /\ seg_good 12 g /\ seg_ok 12 g = true
  /\ C.expand zd (sg_scan g) = [0; 0; 0; 1; 1; 2; 2; 3; 3; 4; 4; 4]%Z
  /\ C.expand zd (sg_cscan g) = [0; 0; 0; 0; 0; 0; 0; 1; 1; 1; 1; 1]%Z
  /\ C.expand zd (sg_tindex g) = [0; 0; 0; 0; 0; 1; 1; 1; 1; 0; 0; 0]%Z.
Proof.
  destruct ex_seg as [g|] eqn:E; [|vm_compute in E; discriminate].
  exists g. split; [reflexivity|].
  assert (SG : seg_good 12 g).
  { unfold ex_seg in E. refine (segment_good _ _ _ _ _ 12 g _ _ _ _ E); [lia| | |];
      apply make_good; try reflexivity; simpl; lia. }
  split; [exact SG|]. split; [apply seg_good_ok; exact SG|].
  vm_compute in E. injection E as <-. vm_compute. repeat split; reflexivity.
Qed.
