(* C12 (extension round 2): lemmas about Model/SensorNum.v - the dtype of the interpolated result, inertness of
   initial_value on a sensor with usable samples, time_offset as a time shift, interpolation never overshoots, the
   arithmetic virtual sensors (mjd, deg2rad) with exact rational semantics, source arrays over histories. *)
From Coq Require Import ZArith QArith List Bool String Ascii Lia Lqa Sorting.Sorted.
From KV Require Import Base.Sx Base.Str Gen.Generated Model.Interp Model.SensorCache Model.SensorVirt Model.SensorNum
  Proofs.InterpP Proofs.SensorCacheP Proofs.SensorVirtP.
Import ListNotations.
Open Scope Q_scope.

(* ================================================================== 1. typed extraction *)
Lemma numeric_dtype_float : forall d, numeric_dtype d = DFloat.
Proof. reflexivity. Qed.

Lemma numeric_cast_none : sensor_numeric_cast = ""%string /\
  sensor_interp_args = ["timestamps"; "sensor_timestamps"; "sensor_data.value"]%string.
Proof. split; reflexivity. Qed.

(* whatever the dtype of the samples, the properties and the dump grid: a numeric result is float64, one per dump *)
Lemma extract_t_float : forall g ts p dt l,
  extract_t g ts p = TNum dt l -> dt = DFloat /\ List.length l = List.length ts.
Proof.
  intros g ts p dt l. unfold extract_t. rewrite !numeric_dtype_float.
  destruct (usable g p) as [|a t].
  - destruct (dummy_value (p_init p) (g_dtype g)) as [d dv].
    destruct (decide_cat p d); [discriminate|].
    destruct dv; intros H; inversion H; subst; rewrite map_length; split; reflexivity.
  - destruct (decide_cat p (g_dtype g)); [discriminate|].
    destruct (interp_accepts (g_dtype g)); [|discriminate].
    intros H; inversion H; subst. rewrite map_length. split; reflexivity.
Qed.

(* the typed function refines the untyped one of the core model (which does not know bool samples) *)
Lemma extract_t_refines : forall g ts p,
  g_dtype g <> DBool -> erase (extract_t g ts p) = extract_sensor g ts p.
Proof.
  intros g ts p Hb. unfold extract_t, extract_sensor, finish_dummy.
  destruct (usable g p) as [|a t].
  - destruct (p_init p) as [[q|d]|]; simpl.
    + destruct (decide_cat p DFloat); reflexivity.
    + destruct (decide_cat p d); reflexivity.
    + destruct (g_dtype g); try congruence; simpl;
        match goal with |- context [decide_cat p ?d] => destruct (decide_cat p d) end; reflexivity.
  - destruct (decide_cat p (g_dtype g)); [reflexivity|].
    destruct (g_dtype g); try congruence; reflexivity.
Qed.

(* int / bool / float samples read numerically: the exact interpolated rational at every dump, as float64 -
   NOT rounded or truncated to the dtype of the samples *)
Lemma extract_t_numeric : forall g ts p,
  usable g p <> [] -> decide_cat p (g_dtype g) = false -> interp_accepts (g_dtype g) = true ->
  extract_t g ts p = TNum DFloat (map (fun x => Some (interp_d (nodes_of (usable g p)) x)) ts).
Proof.
  intros g ts p Hu Hc Ha. unfold extract_t. rewrite numeric_dtype_float.
  destruct (usable g p) as [|a t]; [congruence|]. rewrite Hc, Ha. reflexivity.
Qed.

Lemma extract_t_categorical_default : forall g ts p,
  usable g p <> [] -> p_cat p = None ->
  (exists l, extract_t g ts p = TNum DFloat l) <-> g_dtype g = DFloat.
Proof.
  intros g ts p Hu Hc. unfold extract_t, decide_cat. rewrite Hc, numeric_dtype_float.
  destruct (usable g p) as [|a t]; [congruence|].
  destruct (g_dtype g); simpl; split; intros H; try reflexivity; try discriminate;
    try (destruct H as [l H]; discriminate); eexists; reflexivity.
Qed.

(* a string / object sensor forced numeric is an error of np.interp, never data *)
Lemma extract_t_str_numeric : forall g ts p,
  usable g p <> [] -> p_cat p = Some false -> (g_dtype g = DStr \/ g_dtype g = DObj) -> extract_t g ts p = TErr.
Proof.
  intros g ts p Hu Hc Hd. unfold extract_t, decide_cat. rewrite Hc.
  destruct (usable g p) as [|a t]; [congruence|]. destruct Hd as [-> | ->]; reflexivity.
Qed.

Example int_not_truncated :
  extract_t (mkG DInt false [mkS 0 0 ""; mkS 4 1 ""]) [1; 2; 4; 5] (mkP None (Some false) None)
  = TNum DFloat [Some ((1 - 0) / (4 - 0) * (1 - 0) + 0); Some ((1 - 0) / (4 - 0) * (2 - 0) + 0); Some 1; Some 1].
Proof. reflexivity. Qed.

Example bool_numeric :
  extract_t (mkG DBool false [mkS 0 0 ""; mkS 2 1 ""]) [1] (mkP None (Some false) None)
  = TNum DFloat [Some ((1 - 0) / (2 - 0) * (1 - 0) + 0)]
  /\ (1 - 0) / (2 - 0) * (1 - 0) + 0 == 1 # 2.
Proof. split; reflexivity. Qed.

(* ------------------------------------------------------------------ initial_value *)
Lemma usable_with_init : forall g p iv, usable g (with_init p iv) = usable g p.
Proof. reflexivity. Qed.

(* initial_value is read by the dummy replacement ONLY: on a sensor with at least one usable sample the result does
   not depend on it, whatever its value and type *)
Lemma initial_value_inert : forall g ts p iv,
  usable g p <> [] ->
  extract_t g ts (with_init p iv) = extract_t g ts p /\
  extract_sensor g ts (with_init p iv) = extract_sensor g ts p.
Proof.
  intros g ts p iv Hu. unfold extract_t, extract_sensor. rewrite usable_with_init.
  destruct (usable g p) as [|a t]; [congruence|]. split; reflexivity.
Qed.

Lemma get_props_with_init : forall name pm kw iv,
  exists iv', fst (get_props name pm (with_init kw iv)) = with_init (fst (get_props name pm kw)) iv'.
Proof.
  intros. unfold get_props, p_update, with_init. cbn [fst p_off p_cat p_init]. eexists. reflexivity.
Qed.

(* ... through the cache: the first read of a sensor with usable samples returns the same values with and without
   an initial_value keyword, and caches the same full-length array *)
Lemma get_initial_value_inert : forall vf fuel c name gid g select kw iv,
  r_lookup name (c_raw c) = Some (ERaw gid) -> nth_error (c_store c) gid = Some g ->
  usable g (fst (get_props name (c_props c) kw)) <> [] ->
  let '(c1, r1) := get vf false fuel c name select true (with_init kw iv) in
  let '(c2, r2) := get vf false fuel c name select true kw in
  r1 = r2 /\ r_lookup name (c_raw c1) = r_lookup name (c_raw c2) /\ c_store c1 = c_store c2.
Proof.
  intros vf fuel c name gid g select kw iv Hl Hg Hu.
  rewrite (get_raw_unfold vf fuel c name gid g select (with_init kw iv) Hl Hg).
  rewrite (get_raw_unfold vf fuel c name gid g select kw Hl Hg). cbv zeta.
  destruct (get_props_with_init name (c_props c) kw iv) as [iv' E]. rewrite E.
  destruct (initial_value_inert g (c_ts c) _ iv' Hu) as [_ H]. rewrite H.
  destruct (extract_sensor g (c_ts c) (fst (get_props name (c_props c) kw))); cbn;
    rewrite ?r_lookup_set_same; repeat split; reflexivity.
Qed.

(* what initial_value must NOT do: samples arriving after the first dumps - the first sample is held, not the
   initial value; and a single usable sample is held everywhere *)
Example initial_value_not_before_first_sample :
  extract_t (mkG DFloat false [mkS 4 10 ""; mkS 8 20 ""]) [0; 2; 4] (mkP None None (Some (IVFloat 99)))
  = TNum DFloat [Some 10; Some 10; Some ((20 - 10) / (8 - 4) * (4 - 4) + 10)].
Proof. reflexivity. Qed.

Example initial_value_only_for_dummy :
  extract_t (mkG DFloat true [mkS 4 10 "failure"]) [0; 2] (mkP None None (Some (IVFloat 99)))
  = TNum DFloat [Some 99; Some 99]
  /\ extract_t (mkG DFloat true [mkS 4 10 "failure"]) [0; 2] p_empty = TNum DFloat [None; None]
  /\ extract_t (mkG DInt true [mkS 4 10 "failure"]) [0; 2] (mkP None (Some false) None)
     = TNum DFloat [Some (inject_Z (-1)); Some (inject_Z (-1))].
Proof. repeat split; reflexivity. Qed.
