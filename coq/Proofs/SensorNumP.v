(* C12 (extension round 2): lemmas about Model/SensorNum.v - the dtype of the interpolated result, inertness of
   initial_value on a sensor with usable samples, time_offset as a time shift, interpolation never overshoots, the
   arithmetic virtual sensors (mjd, deg2rad) with exact rational semantics, source arrays over histories. *)
From Coq Require Import ZArith QArith List Bool String Ascii Lia Lqa Sorting.Sorted.
From KV Require Import Base.Sx Base.Str Gen.Generated Model.Interp Model.SensorCache Model.SensorVirt Model.SensorNum
  Proofs.InterpP Proofs.SensorCacheP Proofs.SensorVirtP.
Import ListNotations.
Open Scope Q_scope.

(* ================================================================== 1. typed extraction *)
Lemma numeric_dtype_float : forall d, numeric_dtype d = DFloat.
Proof. reflexivity. Qed.

Lemma numeric_cast_none : sensor_numeric_cast = ""%string /\
  sensor_interp_args = ["timestamps"; "sensor_timestamps"; "sensor_data.value"]%string.
Proof. split; reflexivity. Qed.

(* whatever the dtype of the samples, the properties and the dump grid: a numeric result is float64, one per dump *)
Lemma extract_t_float : forall g ts p dt l,
  extract_t g ts p = TNum dt l -> dt = DFloat /\ List.length l = List.length ts.
Proof.
  intros g ts p dt l. unfold extract_t. rewrite !numeric_dtype_float.
  destruct (usable g p) as [|a t].
  - destruct (dummy_value (p_init p) (g_dtype g)) as [d dv].
    destruct (decide_cat p d); [discriminate|].
    destruct dv; intros H; inversion H; subst; rewrite map_length; split; reflexivity.
  - destruct (decide_cat p (g_dtype g)); [discriminate|].
    destruct (interp_accepts (g_dtype g)); [|discriminate].
    intros H; inversion H; subst. rewrite map_length. split; reflexivity.
Qed.

(* the typed function refines the untyped one of the core model (which does not know bool samples) *)
Lemma extract_t_refines : forall g ts p,
  g_dtype g <> DBool -> erase (extract_t g ts p) = extract_sensor g ts p.
Proof.
  intros g ts p Hb. unfold extract_t, extract_sensor, finish_dummy.
  destruct (usable g p) as [|a t].
  - destruct (p_init p) as [[q|d]|]; simpl.
    + destruct (decide_cat p DFloat); reflexivity.
    + destruct (decide_cat p d); reflexivity.
    + destruct (g_dtype g); try congruence; simpl;
        match goal with |- context [decide_cat p ?d] => destruct (decide_cat p d) end; reflexivity.
  - destruct (decide_cat p (g_dtype g)); [reflexivity|].
    destruct (g_dtype g); try congruence; reflexivity.
Qed.

(* int / bool / float samples read numerically: the exact interpolated rational at every dump, as float64 -
   NOT rounded or truncated to the dtype of the samples *)
Lemma extract_t_numeric : forall g ts p,
  usable g p <> [] -> decide_cat p (g_dtype g) = false -> interp_accepts (g_dtype g) = true ->
  extract_t g ts p = TNum DFloat (map (fun x => Some (interp_d (nodes_of (usable g p)) x)) ts).
Proof.
  intros g ts p Hu Hc Ha. unfold extract_t. rewrite numeric_dtype_float.
  destruct (usable g p) as [|a t]; [congruence|]. rewrite Hc, Ha. reflexivity.
Qed.

Lemma extract_t_categorical_default : forall g ts p,
  usable g p <> [] -> p_cat p = None ->
  (exists l, extract_t g ts p = TNum DFloat l) <-> g_dtype g = DFloat.
Proof.
  intros g ts p Hu Hc. unfold extract_t, decide_cat. rewrite Hc, numeric_dtype_float.
  destruct (usable g p) as [|a t]; [congruence|].
  destruct (g_dtype g); simpl; split; intros H; try reflexivity; try discriminate;
    try (destruct H; discriminate); eexists; reflexivity.
Qed.

(* a string / object sensor forced numeric is an error of np.interp, never data *)
Lemma extract_t_str_numeric : forall g ts p,
  usable g p <> [] -> p_cat p = Some false -> (g_dtype g = DStr \/ g_dtype g = DObj) -> extract_t g ts p = TErr.
Proof.
  intros g ts p Hu Hc Hd. unfold extract_t, decide_cat. rewrite Hc.
  destruct (usable g p) as [|a t]; [congruence|]. destruct Hd as [-> | ->]; reflexivity.
Qed.

Example int_not_truncated :
  extract_t (mkG DInt false [mkS 0 0 ""; mkS 4 1 ""]) [1; 2; 4; 5] (mkP None (Some false) None)
  = TNum DFloat [Some ((1 - 0) / (4 - 0) * (1 - 0) + 0); Some ((1 - 0) / (4 - 0) * (2 - 0) + 0); Some 1; Some 1].
Proof. reflexivity. Qed.

Example bool_numeric :
  extract_t (mkG DBool false [mkS 0 0 ""; mkS 2 1 ""]) [1] (mkP None (Some false) None)
  = TNum DFloat [Some ((1 - 0) / (2 - 0) * (1 - 0) + 0)]
  /\ (1 - 0) / (2 - 0) * (1 - 0) + 0 == 1 # 2.
Proof. split; reflexivity. Qed.

(* ------------------------------------------------------------------ initial_value *)
Lemma usable_with_init : forall g p iv, usable g (with_init p iv) = usable g p.
Proof. reflexivity. Qed.

(* initial_value is read by the dummy replacement ONLY: on a sensor with at least one usable sample the result does
   not depend on it, whatever its value and type *)
Lemma initial_value_inert : forall g ts p iv,
  usable g p <> [] ->
  extract_t g ts (with_init p iv) = extract_t g ts p /\
  extract_sensor g ts (with_init p iv) = extract_sensor g ts p.
Proof.
  intros g ts p iv Hu. unfold extract_t, extract_sensor. rewrite usable_with_init.
  destruct (usable g p) as [|a t]; [congruence|]. split; reflexivity.
Qed.

Lemma get_props_with_init : forall name pm kw iv,
  exists iv', fst (get_props name pm (with_init kw iv)) = with_init (fst (get_props name pm kw)) iv'.
Proof.
  intros. unfold get_props, p_update, with_init. cbn [fst p_off p_cat p_init]. eexists. reflexivity.
Qed.

(* ... through the cache: the first read of a sensor with usable samples returns the same values with and without
   an initial_value keyword, and caches the same full-length array *)
Lemma get_initial_value_inert : forall vf fuel c name gid g select kw iv,
  r_lookup name (c_raw c) = Some (ERaw gid) -> nth_error (c_store c) gid = Some g ->
  usable g (fst (get_props name (c_props c) kw)) <> [] ->
  let '(c1, r1) := get vf false fuel c name select true (with_init kw iv) in
  let '(c2, r2) := get vf false fuel c name select true kw in
  r1 = r2 /\ r_lookup name (c_raw c1) = r_lookup name (c_raw c2) /\ c_store c1 = c_store c2.
Proof.
  intros vf fuel c name gid g select kw iv Hl Hg Hu.
  rewrite (get_raw_unfold vf fuel c name gid g select (with_init kw iv) Hl Hg).
  rewrite (get_raw_unfold vf fuel c name gid g select kw Hl Hg). cbv zeta.
  destruct (get_props_with_init name (c_props c) kw iv) as [iv' E]. rewrite E.
  destruct (initial_value_inert g (c_ts c) _ iv' Hu) as [_ H]. rewrite H.
  destruct (extract_sensor g (c_ts c) (fst (get_props name (c_props c) kw))); cbn;
    rewrite ?r_lookup_set_same; repeat split; reflexivity.
Qed.

(* what initial_value must NOT do: samples arriving after the first dumps - the first sample is held, not the
   initial value; and a single usable sample is held everywhere *)
Example initial_value_not_before_first_sample :
  extract_t (mkG DFloat false [mkS 4 10 ""; mkS 8 20 ""]) [0; 2; 4] (mkP None None (Some (IVFloat 99)))
  = TNum DFloat [Some 10; Some 10; Some ((20 - 10) / (8 - 4) * (4 - 4) + 10)].
Proof. reflexivity. Qed.

Example initial_value_only_for_dummy :
  extract_t (mkG DFloat true [mkS 4 10 "failure"]) [0; 2] (mkP None None (Some (IVFloat 99)))
  = TNum DFloat [Some 99; Some 99]
  /\ extract_t (mkG DFloat true [mkS 4 10 "failure"]) [0; 2] p_empty = TNum DFloat [None; None]
  /\ extract_t (mkG DInt true [mkS 4 10 "failure"]) [0; 2] (mkP None (Some false) None)
     = TNum DFloat [Some (inject_Z (-1)); Some (inject_Z (-1))].
Proof. repeat split; reflexivity. Qed.

(* ================================================================== 2. arithmetic virtual sensors *)
Lemma seg_scale : forall c x0 y0 x1 y1 x, seg x0 (c * y0) x1 (c * y1) x == c * seg x0 y0 x1 y1 x.
Proof. intros. unfold seg, Qdiv. ring. Qed.

Lemma interp_from_scale : forall c l x0 y0 x,
  interp_from x0 (c * y0) (scale_nodes c l) x == c * interp_from x0 y0 l x.
Proof.
  intros c l. induction l as [|[x1 y1] t IH]; intros x0 y0 x; simpl; [reflexivity|].
  destruct (Qle_bool x1 x); [apply IH | apply seg_scale].
Qed.

(* a linear conversion of the VALUES commutes with the interpolation: converting the samples and interpolating
   = interpolating and converting (so az/el are the same whether the source sensor or the virtual sensor is
   thought of as the interpolated one) *)
Lemma interp_scale : forall c l x, interp_d (scale_nodes c l) x == c * interp_d l x.
Proof.
  intros c [|[x0 y0] t] x; unfold interp_d; simpl; [ring|].
  destruct (Qle_bool x0 x); [apply interp_from_scale | reflexivity].
Qed.

Lemma pi64_bounds : 3141592653589793 # 1000000000000000 < pi64 /\ pi64 < 3141592653589794 # 1000000000000000.
Proof. split; reflexivity. Qed.

Lemma azel_is_deg2rad : forall x, azel_conv_q x = deg2rad_q x.
Proof. reflexivity. Qed.

Lemma deg2rad_laws :
  deg2rad_q 0 == 0 /\ deg2rad_q 180 == pi64 /\ deg2rad_q 90 == pi64 / 2 /\
  (forall a b, deg2rad_q (a + b) == deg2rad_q a + deg2rad_q b) /\
  (forall k a, deg2rad_q (k * a) == k * deg2rad_q a) /\
  (forall a b, a < b -> deg2rad_q a < deg2rad_q b) /\
  (forall a b, deg2rad_q a == deg2rad_q b -> a == b) /\
  (forall x, rad2deg_q (deg2rad_q x) == x).
Proof.
  assert (Hp : 0 < pi64 / 180) by reflexivity.
  repeat split.
  - intros a b. unfold deg2rad_q. ring.
  - intros k a. unfold deg2rad_q. ring.
  - intros a b H. unfold deg2rad_q. apply Qmult_lt_compat_r; assumption.
  - intros a b H. unfold deg2rad_q in H. apply Qmult_inj_r in H; [exact H|]. intro E. rewrite E in Hp. discriminate.
  - intros x. unfold rad2deg_q, deg2rad_q. field; try split; intro E; discriminate E.
Qed.

(* the per-dump function of az / el applied dump by dump = the converted source, NaN stays NaN; no dependence on
   the timestamps at all *)
Lemma azel_pw : forall ts src, List.length src = List.length ts ->
  pw deg2rad_pf [src] ts = map (option_map deg2rad_q) src.
Proof.
  induction ts as [|t ts IH]; intros [|[x|] src] H; simpl in *; try discriminate; try reflexivity;
    rewrite IH by lia; reflexivity.
Qed.

Lemma arith_vf_mjd : forall k vals ts, arith_vf fid_mjd k vals ts = map (fun t => Some (mjd_q t)) ts.
Proof. intros. unfold arith_vf, vf_pw, arith_pf. simpl. apply mjd_pw. Qed.

Lemma arith_vf_azel : forall k src ts, List.length src = List.length ts ->
  arith_vf fid_azel k [src] ts = map (option_map deg2rad_q) src.
Proof. intros. unfold arith_vf, vf_pw, arith_pf. simpl. apply azel_pw. assumption. Qed.

(* az / el read through the cache (source already extracted): deg2rad of the cached source at every dump, the
   selection applied afterwards, the result cached full-length under the requested name, and the cached SOURCE array
   and the raw samples are what they were *)
Lemma azel_read : forall fuel c name src l select kw,
  r_lookup name (c_raw c) = None -> name <> src ->
  find (fun v => mem_string name (v_names v)) (c_virt c) = Some (mkV [name] [src] fid_azel) ->
  r_lookup src (c_raw c) = Some (EVals l) -> List.length l = List.length (c_ts c) ->
  let full := map (option_map deg2rad_q) l in
  let '(c', r) := get arith_vf false (S fuel) c name select true kw in
  r = RVals (if select then select_mask (c_keep c) full else full) /\
  r_lookup name (c_raw c') = Some (EVals full) /\
  r_lookup src (c_raw c') = Some (EVals l) /\ c_store c' = c_store c.
Proof.
  intros fuel c name src l select kw Hn Hne Hf Hs Hlen full.
  cbn [get]. unfold get_body. rewrite andb_false_r, Hn, Hf. cbn [v_srcs eval_srcs].
  rewrite (get_cached arith_vf fuel c src l false true p_empty Hs eq_refl).
  cbn [v_names store_all index_of_name v_fid]. rewrite String.eqb_refl.
  unfold with_raw; cbn [c_ts c_raw c_keep c_store]. rewrite arith_vf_azel by assumption. fold full.
  unfold sel. cbn [c_keep].
  split; [reflexivity|]. split; [apply r_lookup_set_same|]. split; [|reflexivity].
  rewrite r_lookup_set_other by (intro E; apply Hne; symmetry; exact E). exact Hs.
Qed.

Example azel_example :
  let c := mkC [("m/azim"%string, EVals [Some 180; None; Some (-90)])] [0; 1; 2] [true; false; true] []
               [mkV ["m/az"%string] ["m/azim"%string] fid_azel] [] in
  snd (get arith_vf false 2 c "m/az"%string true true p_empty)
  = RVals [Some (180 * (pi64 / 180)); Some (-90 * (pi64 / 180))].
Proof. reflexivity. Qed.

Lemma azel_sources_table :
  azel_sources = [("h5datav1", ("Antennas/{ant}/pos_actual_scan_azim", "Antennas/{ant}/pos_actual_scan_elev"));
                  ("h5datav2", ("Antennas/{ant}/pos.actual-scan-azim", "Antennas/{ant}/pos.actual-scan-elev"));
                  ("h5datav3", ("Antennas/{ant}/pos_actual_scan_azim", "Antennas/{ant}/pos_actual_scan_elev"));
                  ("visdatav4", ("{ant}_pos_actual_scan_azim", "{ant}_pos_actual_scan_elev"))]%string
  /\ azel_convert = "deg2rad"%string /\ azel_az_suffix = "az"%string
  /\ azel_pick "Antennas/m000/az" "AZ" "EL" = "AZ"%string /\ azel_pick "Antennas/m000/el" "AZ" "EL" = "EL"%string.
Proof. repeat split; reflexivity. Qed.

(* ================================================================== time_offset = a shift in time *)
Lemma qle_bool_shift : forall a b o, Qle_bool (a + o) (b + o) = Qle_bool a b.
Proof.
  intros. destruct (Qle_bool a b) eqn:E.
  - apply Qle_bool_iff. apply Qle_bool_iff in E. lra.
  - destruct (Qle_bool (a + o) (b + o)) eqn:F; [|reflexivity].
    apply Qle_bool_iff in F. assert (a <= b) by lra. apply Qle_bool_iff in H. congruence.
Qed.
Lemma qeq_bool_shift : forall a b o, Qeq_bool (a + o) (b + o) = Qeq_bool a b.
Proof.
  intros. destruct (Qeq_bool a b) eqn:E.
  - apply Qeq_bool_iff. apply Qeq_bool_iff in E. lra.
  - destruct (Qeq_bool (a + o) (b + o)) eqn:F; [|reflexivity].
    apply Qeq_bool_iff in F. assert (a == b) by lra. apply Qeq_bool_iff in H. congruence.
Qed.

Definition sh1 (o : Q) (s : sample) : sample := mkS (s_t s + o) (s_v s) (s_st s).

Lemma insert_s_shift : forall o a l, insert_s (sh1 o a) (map (sh1 o) l) = map (sh1 o) (insert_s a l).
Proof.
  intros o a l. induction l as [|b t IH]; simpl; [reflexivity|].
  rewrite qle_bool_shift. destruct (Qle_bool (s_t a) (s_t b)); simpl; [reflexivity | rewrite IH; reflexivity].
Qed.
Lemma sort_s_shift : forall o l, sort_s (map (sh1 o) l) = map (sh1 o) (sort_s l).
Proof.
  intros o l. induction l as [|a t IH]; simpl; [reflexivity|].
  unfold sort_s in *. simpl. rewrite IH. apply insert_s_shift.
Qed.
Lemma keep_last_shift : forall o l, keep_last (map (sh1 o) l) = map (sh1 o) (keep_last l).
Proof.
  intros o l. induction l as [|a t IH]; [reflexivity|].
  destruct t as [|b r]; [reflexivity|].
  change (keep_last (a :: b :: r)) with
    (if Qeq_bool (s_t a) (s_t b) then keep_last (b :: r) else a :: keep_last (b :: r)).
  change (keep_last (map (sh1 o) (a :: b :: r))) with
    (if Qeq_bool (s_t a + o) (s_t b + o) then keep_last (map (sh1 o) (b :: r))
     else sh1 o a :: keep_last (map (sh1 o) (b :: r))).
  rewrite qeq_bool_shift, IH. destruct (Qeq_bool (s_t a) (s_t b)); reflexivity.
Qed.
Lemma filter_shift : forall o f l,
  filter (fun s => f (s_st s)) (map (sh1 o) l) = map (sh1 o) (filter (fun s => f (s_st s)) l).
Proof.
  intros o f l. induction l as [|a t IH]; simpl; [reflexivity|].
  destruct (f (s_st a)); simpl; rewrite IH; reflexivity.
Qed.

(* the clean-up does not care where the time axis starts: cleaning the shifted samples = shifting the cleaned ones *)
Lemma clean_shift : forall hs o l, clean hs (shift o l) = shift o (clean hs l).
Proof.
  intros hs o l. unfold clean, shift. change (fun s => mkS (s_t s + o) (s_v s) (s_st s)) with (sh1 o).
  rewrite sort_s_shift, keep_last_shift. destruct hs; [apply (filter_shift o status_ok)|reflexivity].
Qed.

Lemma seg_shift : forall o x0 y0 x1 y1 x, seg (x0 + o) y0 (x1 + o) y1 x == seg x0 y0 x1 y1 (x - o).
Proof.
  intros. unfold seg.
  setoid_replace (x1 + o - (x0 + o)) with (x1 - x0) by ring.
  setoid_replace (x - (x0 + o)) with (x - o - x0) by ring. reflexivity.
Qed.

Lemma qle_bool_shift_r : forall a o x, Qle_bool (a + o) x = Qle_bool a (x - o).
Proof.
  intros. rewrite <- (qle_bool_shift a (x - o) o).
  destruct (Qle_bool (a + o) x) eqn:E.
  - symmetry. apply Qle_bool_iff. apply Qle_bool_iff in E. lra.
  - destruct (Qle_bool (a + o) (x - o + o)) eqn:F; [|reflexivity].
    apply Qle_bool_iff in F. assert (a + o <= x) by lra. apply Qle_bool_iff in H. congruence.
Qed.

Lemma interp_from_shift : forall o l x0 y0 x,
  interp_from (x0 + o) y0 (nodes_of (map (sh1 o) l)) x == interp_from x0 y0 (nodes_of l) (x - o).
Proof.
  intros o l. induction l as [|a t IH]; intros x0 y0 x; simpl; [reflexivity|].
  rewrite qle_bool_shift_r. destruct (Qle_bool (s_t a) (x - o)); [apply IH | apply seg_shift].
Qed.

(* time_offset o: the value at dump time x is the value the unshifted sensor has at x - o *)
Lemma offset_is_time_shift : forall hs o l x,
  interp_d (nodes_of (clean hs (shift o l))) x == interp_d (nodes_of (clean hs l)) (x - o).
Proof.
  intros hs o l x. rewrite clean_shift. unfold shift. change (fun s => mkS (s_t s + o) (s_v s) (s_st s)) with (sh1 o).
  destruct (clean hs l) as [|a t]; unfold interp_d; simpl; [reflexivity|].
  rewrite qle_bool_shift_r. destruct (Qle_bool (s_t a) (x - o)); [apply interp_from_shift | reflexivity].
Qed.

Lemma shift_zero_nodes : forall l x, interp_d (nodes_of (shift 0 l)) x == interp_d (nodes_of l) x.
Proof.
  intros l x. pose proof (interp_from_shift 0) as H.
  unfold shift. change (fun s => mkS (s_t s + 0) (s_v s) (s_st s)) with (sh1 0).
  destruct l as [|a t]; unfold interp_d; simpl; [reflexivity|].
  rewrite qle_bool_shift_r.
  assert (E : Qle_bool (s_t a) (x - 0) = Qle_bool (s_t a) x).
  { destruct (Qle_bool (s_t a) x) eqn:F.
    - apply Qle_bool_iff. apply Qle_bool_iff in F. lra.
    - destruct (Qle_bool (s_t a) (x - 0)) eqn:G; [|reflexivity].
      apply Qle_bool_iff in G. assert (s_t a <= x) by lra. apply Qle_bool_iff in H0. congruence. }
  rewrite E. destruct (Qle_bool (s_t a) x); [|reflexivity].
  rewrite H. clear H E. generalize (s_t a) (s_v a). induction t as [|b r IH]; intros x0 y0; simpl; [reflexivity|].
  assert (E : Qle_bool (s_t b) (x - 0) = Qle_bool (s_t b) x).
  { destruct (Qle_bool (s_t b) x) eqn:F.
    - apply Qle_bool_iff. apply Qle_bool_iff in F. lra.
    - destruct (Qle_bool (s_t b) (x - 0)) eqn:G; [|reflexivity].
      apply Qle_bool_iff in G. assert (s_t b <= x) by lra. apply Qle_bool_iff in H. congruence. }
  rewrite E. destruct (Qle_bool (s_t b) x); [apply IH|].
  unfold seg. setoid_replace (x - 0 - x0) with (x - x0) by ring. reflexivity.
Qed.

(* ================================================================== interpolation never overshoots the samples *)
Lemma seg_bounds : forall lo hi x0 y0 x1 y1 x, x0 <= x -> x < x1 ->
  lo <= y0 <= hi -> lo <= y1 <= hi -> lo <= seg x0 y0 x1 y1 x <= hi.
Proof.
  intros lo hi x0 y0 x1 y1 x H0 H1 [Ha Hb] [Hc Hd].
  assert (Hlt : x0 < x1) by lra. rewrite (seg_convex x0 y0 x1 y1 x Hlt).
  assert (Hd0 : 0 < x1 - x0) by lra.
  split.
  - apply Qle_shift_div_l; [exact Hd0|]. nra.
  - apply Qle_shift_div_r; [exact Hd0|]. nra.
Qed.

Lemma interp_from_bounds : forall lo hi l x0 y0 x, x0 <= x -> lo <= y0 <= hi ->
  Forall (fun n => lo <= snd n <= hi) l -> lo <= interp_from x0 y0 l x <= hi.
Proof.
  intros lo hi l. induction l as [|[x1 y1] t IH]; intros x0 y0 x Hx Hy Hl; simpl; [exact Hy|].
  inversion Hl as [|? ? H1 Ht]; subst. simpl in H1.
  destruct (Qle_bool x1 x) eqn:E.
  - apply Qle_bool_iff in E. apply IH; assumption.
  - apply seg_bounds; try assumption.
    destruct (Qlt_le_dec x x1) as [L|L]; [exact L|]. apply Qle_bool_iff in L. congruence.
Qed.

(* for ANY node list (sorted or not): every interpolated value lies between the smallest and the largest sample
   value - in particular a bool sensor read numerically stays within [0, 1] *)
Lemma interp_bounds : forall lo hi nodes x, nodes <> [] ->
  Forall (fun n => lo <= snd n <= hi) nodes -> lo <= interp_d nodes x <= hi.
Proof.
  intros lo hi [|[x0 y0] t] x Hne Hl; [congruence|]. unfold interp_d. simpl.
  inversion Hl as [|? ? H0 Ht]; subst. simpl in H0.
  destruct (Qle_bool x0 x) eqn:E; [|exact H0].
  apply Qle_bool_iff in E. apply interp_from_bounds; assumption.
Qed.

(* ================================================================== 3. source arrays over histories *)
Lemma virtual_ipv_false : virtual_ipv = false /\ virtual_inplace_writes = 0%Z /\ (0 < virtual_functions_checked)%Z.
Proof. repeat split; reflexivity. Qed.

Lemma step_v_faithful : forall vf c o, step_v vf false c o = step vf false c o.
Proof. intros. unfold step_v. destruct (step vf false c o). reflexivity. Qed.

(* with functions that do not write in place, the machine with the source arrays as state IS the cache model *)
Lemma run_v_faithful : forall vf ops c, run_v vf false c ops = run_ops vf false c ops.
Proof.
  intros vf ops. induction ops as [|o t IH]; intros c; simpl; [reflexivity|].
  rewrite step_v_faithful. destruct (step vf false c o) as [c1 r]. rewrite IH. reflexivity.
Qed.

Lemma run_read_keeps : forall vf name l ops c,
  r_lookup name (c_raw c) = Some (EVals l) -> no_producer name c -> forallb is_read ops = true ->
  r_lookup name (c_raw (fst (run_ops vf false c ops))) = Some (EVals l) /\
  no_producer name (fst (run_ops vf false c ops)).
Proof.
  intros vf name l ops. induction ops as [|o t IH]; intros c Hl Hn Hr; simpl; [split; assumption|].
  simpl in Hr. apply andb_true_iff in Hr. destruct Hr as [Ho Ht].
  destruct (step_read_keeps vf name l c o Ho Hl Hn) as [H1 H2].
  destruct (step vf false c o) as [c1 r]. simpl in H1, H2.
  specialize (IH c1 H1 H2 Ht). destruct (run_ops vf false c1 t) as [c2 rs]. exact IH.
Qed.

(* A virtual sensor never alters its source sensors - nor any other cached sensor: whatever sensors (virtual or
   not) are read afterwards, under whatever selections, a cached array that no virtual sensor PRODUCES stays
   what it was, the raw samples of every getter stay what they were, and reading it again returns it restricted to the
   then-current selection.  Stated for the machine with the source arrays as state. *)
Lemma virtual_preserves_sources : forall vf name l ops c,
  r_lookup name (c_raw c) = Some (EVals l) -> no_producer name c -> forallb is_read ops = true ->
  let c' := fst (run_v vf false c ops) in
  r_lookup name (c_raw c') = Some (EVals l) /\ c_store c' = c_store c /\
  forall fuel s, get vf false fuel c' name s true p_empty = (c', RVals (if s then select_mask (c_keep c') l else l)).
Proof.
  intros vf name l ops c Hl Hn Hr c'. subst c'. rewrite run_v_faithful.
  destruct (run_read_keeps vf name l ops c Hl Hn Hr) as [H1 H2].
  split; [exact H1|]. split; [apply run_pure|].
  intros fuel s. apply get_cached; [exact H1 | apply andb_false_r].
Qed.

(* the same statement is FALSE for a function that converts its source in place: az read once, and the cached
   azimuth sensor holds radians *)
Lemma virtual_inplace_refuted :
  exists c ops name l,
    r_lookup name (c_raw c) = Some (EVals l) /\ no_producer name c /\ forallb is_read ops = true /\
    r_lookup name (c_raw (fst (run_v arith_vf true c ops))) <> Some (EVals l) /\
    snd (run_v arith_vf true c ops) = snd (run_v arith_vf false c ops).
Proof.
  exists (mkC [("m/azim"%string, EVals [Some 180])] [0] [true] [] [mkV ["m/az"%string] ["m/azim"%string] fid_azel] []).
  exists [OGet "m/az"%string false true p_empty]. exists "m/azim"%string. exists [Some 180].
  split; [reflexivity|]. split.
  - intros v [<-|[]]. reflexivity.
  - split; [reflexivity|]. split; [|reflexivity]. vm_compute. intro H. discriminate H.
Qed.

(* the history of the defect repaired as C12-F4, on the arithmetic sensors: az, then a function writing in place,
   then az again - the REPEATED read differs although every returned value of the first pass was right *)
Example inplace_breaks_repeatability :
  let c := mkC [("m/azim"%string, EVals [Some 180])] [0] [true] []
               [mkV ["m/az"%string] ["m/azim"%string] fid_azel; mkV ["m/az2"%string] ["m/az"%string] fid_azel] [] in
  let ops := [OItem "m/az"%string; OItem "m/az2"%string; OItem "m/az"%string] in
  (forall r1 r2 r3, snd (run_v arith_vf false c ops) = [r1; r2; r3] -> r1 = r3) /\
  (exists r1 r2 r3, snd (run_v arith_vf true c ops) = [r1; r2; r3] /\ r1 <> r3).
Proof.
  split.
  - vm_compute. intros r1 r2 r3 H. inversion H. reflexivity.
  - vm_compute. do 3 eexists. split; [reflexivity|]. intro H. discriminate H.
Qed.

(* the code as it is: the flag regenerated from the source selects the faithful machine *)
Lemma virtual_preserves_sources_code : forall vf name l ops c,
  r_lookup name (c_raw c) = Some (EVals l) -> no_producer name c -> forallb is_read ops = true ->
  let c' := fst (run_v vf virtual_ipv c ops) in
  r_lookup name (c_raw c') = Some (EVals l) /\ c_store c' = c_store c /\
  forall fuel s, get vf false fuel c' name s true p_empty = (c', RVals (if s then select_mask (c_keep c') l else l)).
Proof. exact virtual_preserves_sources. Qed.

(* ================================================================== 4. the public API: raw samples over histories *)
From KV Require Import Model.SensorKeep Model.SensorTmpl Model.SensorApi.

Lemma core_get_store : forall vf c virt name extract kw,
  c_store (fst (core_get vf c virt name extract kw)) = c_store c.
Proof.
  intros. unfold core_get.
  pose proof (get_frame vf 1 (core c virt) name false extract kw) as F.
  destruct (get vf false 1 (core c virt) name false extract kw) as [c' r]. cbn [fst] in *.
  destruct F as [F _]. unfold core in *. cbn [c_store] in *. exact F.
Qed.

(* one call of the public get / cache[name] / _set_keep: the getters known before keep their samples; at most one
   NEW getter (the katstore answer) is appended *)
Lemma xstep_store : forall vf x o,
  exists tail, c_store (x_c (fst (fst (xstep vf x o)))) = (c_store (x_c x) ++ tail)%list.
Proof.
  intros vf x o.
  assert (G : forall name select extract kw,
             exists tail, c_store (x_c (fst (fst (get_x vf x name select extract kw)))) = (c_store (x_c x) ++ tail)%list).
  { intros name select extract kw. unfold get_x.
    destruct (select && negb extract); [exists []; rewrite app_nil_r; reflexivity|].
    destruct (r_lookup name (c_raw (x_c x))).
    - pose proof (core_get_store vf (x_c x) [] name extract kw) as H.
      destruct (core_get vf (x_c x) [] name extract kw) as [c' r]. cbn in *. exists []. rewrite app_nil_r. exact H.
    - destruct (resolve (x_tmpl x) name) as [[tid b]|].
      + pose proof (core_get_store vf (x_c x) [mkV [name] [] (Z.of_nat tid)] name extract kw) as H.
        destruct (core_get vf (x_c x) [mkV [name] [] (Z.of_nat tid)] name extract kw) as [c' r]. cbn in *.
        exists []. rewrite app_nil_r. exact H.
      + destruct (store_active (x_store x)); [|exists []; rewrite app_nil_r; reflexivity].
        destruct (store_window (c_ts (x_c x)) (x_dp x)) as [[s e]|]; [|exists []; rewrite app_nil_r; reflexivity].
        destruct (negb (is_identifier name)); [exists []; rewrite app_nil_r; reflexivity|].
        destruct (store_samples (srv_answer (x_srv x) name s e) name) as [|s0 smp] eqn:Es;
          [exists []; rewrite app_nil_r; reflexivity|].
        match goal with |- context [core_get vf ?c1 [] name extract kw] =>
          pose proof (core_get_store vf c1 [] name extract kw) as H;
          destruct (core_get vf c1 [] name extract kw) as [c2 r] end.
        cbn [fst c_store] in H. exists [mkG DFloat true (s0 :: smp)].
        destruct extract; cbn; exact H. }
  destruct o as [n s e kw|n|[k|]]; cbn [xstep].
  - apply G.
  - apply G.
  - exists []. rewrite app_nil_r. reflexivity.
  - exists []. rewrite app_nil_r. reflexivity.
Qed.

(* EXTRACTION NEVER ALTERS THE RAW SAMPLES, public API, all histories: after any sequence of get (any select /
   extract / keyword properties), cache[name] and _set_keep (any keep form) - raw sensors, template sensors and
   katstore fallbacks interleaved - every getter that existed before still holds exactly its samples *)
Lemma xrun_store : forall vf ops x,
  exists tail, c_store (x_c (fst (xrun vf x ops))) = (c_store (x_c x) ++ tail)%list.
Proof.
  intros vf ops. induction ops as [|o t IH]; intros x; simpl; [exists []; rewrite app_nil_r; reflexivity|].
  destruct (xstep_store vf x o) as [t1 H1].
  destruct (xstep vf x o) as [[x1 r] cr]. cbn [fst] in H1.
  destruct (IH x1) as [t2 H2]. destruct (xrun vf x1 t) as [x2 rs]. cbn [fst] in *.
  exists (t1 ++ t2)%list. rewrite H2, H1, app_assoc. reflexivity.
Qed.

Lemma xrun_raw_samples : forall vf ops x gid g,
  nth_error (c_store (x_c x)) gid = Some g ->
  nth_error (c_store (x_c (fst (xrun vf x ops)))) gid = Some g.
Proof.
  intros vf ops x gid g H. destruct (xrun_store vf ops x) as [tail E]. rewrite E.
  rewrite nth_error_app1; [exact H|]. apply nth_error_Some. congruence.
Qed.
