(* C01: the sensor cache is evaluated on exactly the data set's timestamps (Model/DataSet.v, section "The sensor
   cache's time grid"). *)
From Coq Require Import ZArith QArith List Bool String Lia.
From KV Require Import Base.Sx Base.Str Base.SelSlice Base.PySlice Base.AxisIndex Base.NdArray Gen.Generated
  Model.Flags Model.DataSet Proofs.DataSetBaseP Proofs.DataSetP.
From KV Require Model.Select Proofs.SelectP.
Import ListNotations.
Open Scope Z_scope.

(* ------------------------------------------------------------------ what the translator found in the four __init__ *)

Lemma grid_translated :
  grid_of V1 = GProperty /\ grid_of V2 = GStoredPrefix tconv_v2 /\ grid_of V3 = GSameArray /\ grid_of V4 = GSameArray.
Proof. repeat split; reflexivity. Qed.

(* ------------------------------------------------------------------ list lemmas *)

Lemma nonzero_from_ones n : forall i, nonzero_from i (ones n) = range_list i 1 n.
Proof.
  induction n as [|n IH]; intro i; [reflexivity|].
  unfold ones in *. cbn [repeat nonzero_from]. rewrite range_list_S. now rewrite IH.
Qed.

Lemma map_nth_range {A} (d : A) : forall n (l : list A) i, (n <= List.length l)%nat ->
  map (fun q => nth (Z.to_nat (q - i)) l d) (range_list i 1 n) = firstn n l.
Proof.
  induction n as [|n IH]; intros l i H; [reflexivity|].
  destruct l as [|x l]; [cbn in H; lia|]. cbn in H.
  rewrite range_list_S. cbn [map firstn]. rewrite Z.sub_diag. cbn [Z.to_nat nth]. f_equal.
  rewrite <- (IH l (i + 1)) by lia. apply map_ext_in. intros q Hq.
  unfold range_list in Hq. apply in_map_iff in Hq. destruct Hq as [j [<- _]].
  replace (Z.to_nat (i + 1 + Z.of_nat j * 1 - i)) with (S (Z.to_nat (i + 1 + Z.of_nat j * 1 - (i + 1)))) by lia.
  reflexivity.
Qed.

Lemma nth_firstn_lt {A} (d : A) : forall n (l : list A) i, (i < n)%nat -> nth i (firstn n l) d = nth i l d.
Proof.
  induction n as [|n IH]; intros l i H; [lia|].
  destruct l as [|x l]; [reflexivity|]. destruct i as [|i]; [reflexivity|]. cbn [firstn nth]. apply IH. lia.
Qed.

(* ------------------------------------------------------------------ closed forms *)

(* timestamps = conversion of the stored timestamps at the positions [dumps] *)
Lemma timestamps_form c s : cfg_ok c -> wf c s -> zlen (c_ts c) = stored_rows c ->
  timestamps c s = map (fun q => conv_t c (nth (Z.to_nat q) (c_ts c) 0%Q)) (dumps s).
Proof.
  intros Hc Hw Hl. unfold timestamps.
  destruct (acquire_nf c s KTime Hc Hw) as [A1 [A2 _]].
  pose proof (all2_fits_concat _ _ A1) as RT. fold (time_mask c s) in A2, RT.
  pose proof (time_rows_le c s Hc) as LE.
  rewrite (select_nth 0%Q (time_mask c s) (c_ts c) 0) by (unfold zlen in *; lia).
  fold (nonzero (time_mask c s)). rewrite A2, map_map. apply map_ext. intro q. now rewrite Z.sub_0_r.
Qed.

Lemma sensor_form {A} (d0 : A) c s (full : list A) : wf c s -> zlen full = nT c ->
  sensor full s = map (fun q => nth (Z.to_nat q) full d0) (dumps s).
Proof.
  intros Hw Hl. destruct (wf_lens c s Hw) as [Lt _]. unfold sensor, dumps, nonzero.
  rewrite (select_nth d0 (Select.tk s) full 0) by (unfold zlen in *; lia).
  apply map_ext. intro q. now rewrite Z.sub_0_r.
Qed.

Lemma nT_nonneg c : 0 <= nT c.
Proof. unfold nT. lia. Qed.

Lemma rows_ge c : nT c <= stored_rows c.
Proof. unfold stored_rows. destruct (c_dup c); lia. Qed.

Lemma all_ts_length c : zlen (c_ts c) = stored_rows c -> zlen (all_ts c) = nT c.
Proof.
  intro Hl. pose proof (rows_ge c). pose proof (nT_nonneg c). unfold all_ts, zlen in *. rewrite firstn_length. lia.
Qed.

Lemma init_wf c : wf c (Select.init (c_obs c)).
Proof. exact (run_wf c [] (start c) eq_refl). Qed.

Lemma dumps_init c : dumps (Select.init (c_obs c)) = zrange (nT c).
Proof.
  unfold dumps, nonzero, Select.init. cbn [Select.tk]. rewrite nonzero_from_ones. unfold zrange, nT.
  now rewrite Nat2Z.id.
Qed.

(* with everything selected the data set's timestamps are the conversion of all stored timestamps but the duplicate *)
Lemma timestamps_init c : cfg_ok c -> zlen (c_ts c) = stored_rows c ->
  timestamps c (Select.init (c_obs c)) = map (conv_t c) (all_ts c).
Proof.
  intros Hc Hl. rewrite (timestamps_form c _ Hc (init_wf c) Hl), dumps_init.
  unfold all_ts, zrange. rewrite <- (map_nth_range 0%Q (Z.to_nat (nT c)) (c_ts c) 0), map_map.
  - apply map_ext. intro q. now rewrite Z.sub_0_r.
  - pose proof (rows_ge c). unfold zlen in Hl. lia.
Qed.

Lemma conv_t_v2 c t : c_fmt c = V2 -> lin3 tconv_v2 t (c_dump c) (c_off c) = conv_t c t.
Proof. intro H. unfold conv_t. now rewrite H. Qed.

(* ------------------------------------------------------------------ the cache holds the data set's timestamps *)

Lemma cache_is_all_ts c : cfg_ok c -> zlen (c_ts c) = stored_rows c -> cache_ts c = map (conv_t c) (all_ts c).
Proof.
  intros Hc Hl. destruct grid_translated as [G1 [G2 [G3 G4]]]. unfold cache_ts.
  destruct (c_fmt c) eqn:E; rewrite ?G1, ?G2, ?G3, ?G4; cbn [grid_ts].
  - exact (timestamps_init c Hc Hl).
  - apply map_ext. intro t. now apply conv_t_v2.
  - reflexivity.
  - reflexivity.
Qed.

Lemma cache_is_timestamps c : cfg_ok c -> zlen (c_ts c) = stored_rows c ->
  cache_ts c = timestamps c (Select.init (c_obs c)).
Proof. intros Hc Hl. now rewrite cache_is_all_ts, timestamps_init. Qed.

Lemma cache_length c : cfg_ok c -> zlen (c_ts c) = stored_rows c -> zlen (cache_ts c) = nT c.
Proof. intros Hc Hl. rewrite cache_is_all_ts by assumption. rewrite zlen_map. now apply all_ts_length. Qed.

(* ------------------------------------------------------------------ per-dump sensors *)

(* a sensor evaluated dump by dump (g = interpolated history, MJD of the time, ...) under any well-formed selection:
   g at the data set's timestamps of the selected dumps *)
Lemma sensor_pointwise {A} (g : Q -> A) c s : cfg_ok c -> wf c s -> zlen (c_ts c) = stored_rows c ->
  sensor_eval (map g) c s = map g (timestamps c s).
Proof.
  intros Hc Hw Hl. unfold sensor_eval.
  rewrite (sensor_form (g 0%Q) c s) by (try assumption; rewrite zlen_map; now apply cache_length).
  rewrite (timestamps_form c s Hc Hw Hl), map_map, cache_is_all_ts by assumption.
  apply map_ext_in. intros q Hq.
  assert (R : 0 <= q < nT c).
  { destruct (wf_lens c s Hw) as [Lt _]. rewrite <- Lt. apply nonzero_range. exact Hq. }
  rewrite map_nth. f_equal. rewrite nth_map_in with (d' := 0%Q).
  - f_equal. unfold all_ts. apply nth_firstn_lt. lia.
  - pose proof (all_ts_length c Hl). unfold zlen in *. lia.
Qed.

(* a sensor whose values depend on the whole grid (categorical: events aligned with the dumps): the values computed on
   the data set's full timestamps, at the positions [dumps] *)
Lemma sensor_gridwise {A} (G : list Q -> list A) (d0 : A) c s i : cfg_ok c -> wf c s -> zlen (c_ts c) = stored_rows c ->
  zlen (G (timestamps c (Select.init (c_obs c)))) = nT c -> 0 <= i < zlen (dumps s) ->
  nth (Z.to_nat i) (sensor_eval G c s) d0
  = nth (Z.to_nat (znth (dumps s) i)) (G (timestamps c (Select.init (c_obs c)))) d0.
Proof.
  intros Hc Hw Hl HG Hi. unfold sensor_eval. rewrite cache_is_timestamps by assumption.
  destruct (labels c s Hc Hw) as [_ [_ [L3 _]]]. now apply L3.
Qed.

(* ------------------------------------------------------------------ after every history *)

Lemma sensors_history {A} (g : Q -> A) c h d : cfg_ok c -> run c (start c) h = Some d ->
  zlen (c_ts c) = stored_rows c ->
  sensor_eval (map g) c (ds_sel d) = map g (timestamps c (ds_sel d)).
Proof. intros Hc H Hl. exact (sensor_pointwise g c (ds_sel d) Hc (run_wf c h d H) Hl). Qed.

Lemma sensors_gridwise_history {A} (G : list Q -> list A) (d0 : A) c h d i : cfg_ok c -> run c (start c) h = Some d ->
  zlen (c_ts c) = stored_rows c ->
  zlen (G (timestamps c (Select.init (c_obs c)))) = nT c -> 0 <= i < zlen (dumps (ds_sel d)) ->
  nth (Z.to_nat i) (sensor_eval G c (ds_sel d)) d0
  = nth (Z.to_nat (znth (dumps (ds_sel d)) i)) (G (timestamps c (Select.init (c_obs c)))) d0.
Proof. intros Hc H Hl HG Hi. exact (sensor_gridwise G d0 c (ds_sel d) i Hc (run_wf c h d H) Hl HG Hi). Qed.

(* ------------------------------------------------------------------ why the restore statements matter *)

(* A v2 file of 4 dumps (dump period 2 s) whose first and last timestamps are on the uniform grid -- the "quick test
   for uniform spacing" passes -- but whose second dump came half a second late: the estimated grid used while the
   scans are built is NOT the data set's timestamps. *)
Definition ex_late_obs : Select.obs :=
  {| Select.o_dumps := map (fun t => {| Select.d_ts := t; Select.d_scan := 0; Select.d_state := 1; Select.d_cscan := 0;
                                        Select.d_label := 1; Select.d_target := 0 |}) [0; 5; 8; 12];
     Select.o_half := 2; Select.o_targets := [{| Select.t_names := [0]; Select.t_tags := [0] |}];
     Select.o_freqs := [10; 14]; Select.o_halfw := 2; Select.o_cps := [((0, 0), (0, 0))] |}.
Definition ex_late : cfg :=
  {| c_fmt := V2; c_obs := ex_late_obs; c_dup := false; c_upper := true; c_centroid := false; c_segs := [];
     c_dump := 2; c_cbf_dump := 2; c_off := 0; c_ts := [100; 102 + (1 # 2); 104; 106]%Q; c_atoms := [] |}.

Lemma estimated_grid_differs :
  cfg_ok ex_late
  /\ (nth 3 (c_ts ex_late) 0 - nth 0 (c_ts ex_late) 0 == inject_Z (nT ex_late - 1) * c_dump ex_late)%Q
  /\ timestamps ex_late (Select.init (c_obs ex_late)) = map (conv_t ex_late) [100; 102 + (1 # 2); 104; 106]%Q
  /\ cache_ts ex_late = map (conv_t ex_late) [100; 102 + (1 # 2); 104; 106]%Q
  /\ map Qred (grid_ts GSynth ex_late) = [101; 103; 105; 107]%Q
  /\ map Qred (cache_ts ex_late) = [101; 103 + (1 # 2); 105; 107]%Q.
Proof. repeat split; vm_compute; try reflexivity; exact I. Qed.

(* ------------------------------------------------------------------ the grid used while the scans are built (C01r-F1) *)

Lemma construction_translated :
  construction_grid_v1 = (3, (1, 100)) /\ construction_grid_v2 = (3, (1, 100))
  /\ fst construction_grid_v3 = 2 /\ fst construction_grid_v4 = 2.
Proof. repeat split; reflexivity. Qed.

(* partial: sensors extracted during construction are aligned with the data set's timestamps for v3 / v4 and, for
   v1 / v2, whenever the quick test for uniform spacing FAILS (the real timestamps are loaded then) *)
Lemma construction_partial c : cfg_ok c -> zlen (c_ts c) = stored_rows c ->
  c_fmt c = V3 \/ c_fmt c = V4 \/ quick_test c (1, 100) = false ->
  construction_ts c = timestamps c (Select.init (c_obs c)).
Proof.
  intros Hc Hl H. destruct construction_translated as [C1 [C2 [C3 C4]]]. unfold construction_ts.
  destruct (c_fmt c) eqn:E.
  - destruct H as [H|[H|H]]; try discriminate. rewrite C1. cbn [fst snd]. rewrite H. now rewrite timestamps_init.
  - destruct H as [H|[H|H]]; try discriminate. rewrite C2. cbn [fst snd]. rewrite H. now rewrite timestamps_init.
  - rewrite C3. now apply cache_is_timestamps.
  - rewrite C4. now apply cache_is_timestamps.
Qed.

(* refuted in general: the v2 file [ex_late] passes the quick test, and the grid on which the reference antenna's
   activity / target and the labels are aligned is not the data set's timestamps *)
Lemma construction_refuted :
  exists c, cfg_ok c /\ zlen (c_ts c) = stored_rows c /\ quick_test c (1, 100) = true
    /\ construction_ts c <> timestamps c (Select.init (c_obs c)).
Proof.
  exists ex_late. split; [exact Logic.I|]. split; [reflexivity|]. split; [vm_compute; reflexivity|].
  intro H. apply (f_equal (map Qred)) in H. vm_compute in H. discriminate.
Qed.

(* ------------------------------------------------------------------ select(timerange=) *)

(* dataset.py:771-772  _time_keep &= sensor.timestamps[:] >= start;  &= sensor.timestamps[:] <= end  with
   start = v[0] + dump / 2, end = v[1] - dump / 2 (Model/Select.v, timerange_mask, on the integer dump times of the
   observation).  When those integer times ARE the sensor cache's times (unit u after t0), the dumps kept by a
   timerange criterion are exactly those whose DATA SET timestamp lies in [start, end]. *)
Definition obs_times_ok (c : cfg) (t0 u : Q) : Prop :=
  Forall2 (fun d t => (t == t0 + inject_Z (Select.d_ts d) * u)%Q) (Select.o_dumps (c_obs c)) (cache_ts c).

Lemma scaled_le (t0 u : Q) (a z : Z) : (0 < u)%Q -> (a <= z <-> (t0 + inject_Z a * u <= t0 + inject_Z z * u)%Q).
Proof.
  intro Hu. rewrite Qplus_le_r, Qmult_le_r by exact Hu. rewrite Zle_Qle. reflexivity.
Qed.

Lemma timerange_on_timestamps c t0 u lo hi : cfg_ok c -> zlen (c_ts c) = stored_rows c -> (0 < u)%Q ->
  obs_times_ok c t0 u ->
  Forall2 (fun (b : bool) (t : Q) =>
             b = true <-> (t0 + inject_Z (lo + Select.o_half (c_obs c)) * u <= t
                           /\ t <= t0 + inject_Z (hi - Select.o_half (c_obs c)) * u)%Q)
          (Select.timerange_mask (c_obs c) lo hi) (timestamps c (Select.init (c_obs c))).
Proof.
  intros Hc Hl Hu H. rewrite <- cache_is_timestamps by assumption.
  unfold obs_times_ok in H. unfold Select.timerange_mask.
  induction H as [|d t ds ts Ht _ IH]; cbn [map]; constructor; [|exact IH].
  rewrite andb_true_iff, !Z.leb_le, (scaled_le t0 u _ _ Hu), (scaled_le t0 u (Select.d_ts d) _ Hu).
  split; intros [A B]; split.
  - now rewrite Ht.
  - now rewrite Ht.
  - now rewrite <- Ht.
  - now rewrite <- Ht.
Qed.

Lemma ex_late_times_ok : obs_times_ok ex_late 101 (1 # 2)
  /\ Select.timerange_mask (c_obs ex_late) 3 12 = [false; true; true; false].
Proof.
  split; [|reflexivity]. unfold obs_times_ok. vm_compute. repeat constructor.
Qed.
