(* C19: select(subarray=s, spw=w, ...) on a concatenation with several subarrays / spectral windows (Model/ConcatMulti.v). *)
From Coq Require Import ZArith List Bool String Ascii Lia PeanoNat.
From KV Require Import Base.Sx Base.Str Base.SelSlice Gen.Generated Model.Select
  Proofs.SelectBaseP Proofs.SelectP Proofs.SelectLawsP Model.ConcatSel Proofs.ConcatSelP Model.ConcatMulti.
From KV Require Model.Categorical Model.Concat Model.ConcatIdent Proofs.CategoricalP Proofs.CategoricalConcatP Proofs.ConcatP
  Proofs.ConcatIdentP.
Import ListNotations.
Open Scope Z_scope.

Notation zd := Categorical.zd.
Notation zindex := Concat.zindex.
Notation nT := Concat.nT.
Notation zexpand := Concat.zexpand.
Notation uv := Categorical.uv.

(* ------------------------------------------------------------------ 1. small list facts *)
Lemma band_map2 (g h : Z -> bool) : forall X Y,
  Concat.band (map g X) (map h Y) = map (fun ab => andb (g (fst ab)) (h (snd ab))) (combine X Y).
Proof. unfold Concat.band. induction X as [|x X IH]; intros [|y Y]; simpl; try reflexivity. f_equal. apply IH. Qed.

Lemma skipn_combine {A B} : forall n (a : list A) (b : list B), skipn n (combine a b) = combine (skipn n a) (skipn n b).
Proof.
  induction n as [|n IH]; intros [|x a] [|y b]; simpl; try reflexivity.
  - destruct (skipn n a); reflexivity.
  - apply IH.
Qed.
Lemma seg_combine {A B} t (a : list A) (b : list B) : seg t (combine a b) = combine (seg t a) (seg t b).
Proof. unfold seg. rewrite skipn_combine, combine_firstn. reflexivity. Qed.

Lemma seg_band t a b : seg t (Concat.band a b) = Concat.band (seg t a) (seg t b).
Proof. unfold Concat.band. rewrite seg_map, seg_combine. reflexivity. Qed.

Lemma map_repeat_ {A B} (g : A -> B) x : forall n, map g (repeat x n) = repeat (g x) n.
Proof. induction n; simpl; [reflexivity|]. f_equal. assumption. Qed.
Lemma combine_repeat {A B} (x : A) (y : B) : forall n, combine (repeat x n) (repeat y n) = repeat (x, y) n.
Proof. induction n; simpl; [reflexivity|]. f_equal. assumption. Qed.

Lemma band_true_l : forall (l : list bool), Concat.band (repeat true (List.length l)) l = l.
Proof. unfold Concat.band. induction l as [|b l IH]; simpl; [reflexivity|]. f_equal. exact IH. Qed.
Lemma band_false_l : forall (l : list bool), Concat.band (repeat false (List.length l)) l = repeat false (List.length l).
Proof. unfold Concat.band. induction l as [|b l IH]; simpl; [reflexivity|]. f_equal. exact IH. Qed.

Lemma Forall_eq_repeat {A} (a : A) : forall l, Forall (fun x => x = a) l -> l = repeat a (List.length l).
Proof. induction 1; simpl; [reflexivity|]. subst. f_equal. assumption. Qed.

Lemma expand_ev_Forall {A} (P : A -> Prop) : forall r s (vs : list A), Forall P vs -> Forall P (Categorical.expand_ev s r vs).
Proof.
  induction r as [|e r IH]; intros s [|v vs] F; simpl; try constructor.
  inversion F; subst. apply Forall_app. split; [|apply IH; assumption].
  apply Forall_forall. intros x Hx. apply repeat_spec in Hx. subst. assumption.
Qed.

(* a part with ONE value in a sensor has that value at every dump *)
Lemma zexpand_single n (c : Concat.cdz) a : ConcatP.cd_ok n c -> uv c = [a] -> zexpand c = repeat a n.
Proof.
  intros OK U. pose proof (ConcatP.cd_ok_len _ _ OK) as Ln. rewrite <- Ln. apply Forall_eq_repeat.
  destruct OK as ((_ & _ & Fi & _) & _). unfold Concat.zexpand, Categorical.expand, Categorical.expand_evs.
  destruct (Categorical.ev c) as [|s r]; [constructor|]. apply expand_ev_Forall. unfold Categorical.vals.
  apply Forall_forall. intros x Hx. apply in_map_iff in Hx. destruct Hx as (i & Hi & Ii). rewrite Forall_forall in Fi.
  specialize (Fi i Ii). rewrite U in Fi, Hi. simpl in Fi. destruct i as [|i]; [simpl in Hi; congruence|lia].
Qed.

(* position in a duplicate-free list *)
Lemma zindex_iff (u : list Z) a s : NoDup u -> In a u -> (s < List.length u)%nat ->
  (zindex u a = Z.of_nat s <-> nth s u (-1) = a).
Proof.
  intros N I L. unfold Concat.zindex.
  destruct (CategoricalConcatP.index_of_In Z.eqb Z.eqb_eq u a I) as (i & Hi). rewrite Hi.
  destruct (CategoricalConcatP.index_of_Some Z.eqb (-1) Z.eqb_eq u a i Hi) as (Li & Ni).
  split; intro E.
  - apply Nat2Z.inj in E. rewrite <- E. exact Ni.
  - f_equal. rewrite <- E in Hi. rewrite (CategoricalConcatP.index_of_nth Z.eqb (-1) Z.eqb_eq u s N L) in Hi. congruence.
Qed.

(* ------------------------------------------------------------------ 2. the (s, w) mask *)
Theorem keep_sw_spec : forall ps m s w, ConcatP.opened ps m -> m_keep m s w = Some (spec_keep ps s w).
Proof.
  intros ps m s w O.
  destruct (ConcatP.op_subi _ _ O) as (cs & Hcs & (Wcs & _) & Ecs). destruct (ConcatP.op_spwi _ _ O) as (cw & Hcw & (Wcw & _) & Ecw).
  unfold m_keep. rewrite Hcs, Hcw. f_equal.
  rewrite (CategoricalP.cmp_expand zd cw _ Wcw), (CategoricalP.cmp_expand zd cs _ Wcs). unfold Categorical.spec_cmp.
  fold (zexpand cw). fold (zexpand cs). rewrite Ecs, Ecw. unfold spec_keep. apply band_map2.
Qed.

(* the segment of part i in a list glued from one piece per part *)
Lemma seg_pieces {A} n cat (g : Concat.part -> list A) : forall ps lo so co (pre : list A) i p t,
  (forall q, In q ps -> List.length (g q) = nT q) -> List.length pre = lo ->
  nth_error ps i = Some p -> nth_error (trs_from n cat ps lo so co) i = Some t ->
  seg t (pre ++ List.concat (map g ps)) = g p /\ tr_len t = nT p.
Proof.
  induction ps as [|q ps IH]; intros lo so co pre [|i] p t F Lp Hp Ht; cbn in Hp, Ht; try discriminate.
  - inversion Hp; subst q. inversion Ht; subst t. cbn [tr_len]. split; [|reflexivity].
    unfold seg. cbn [tr_lo tr_len map List.concat]. rewrite skipn_app, skipn_all2 by lia.
    rewrite Lp, Nat.sub_diag. cbn [skipn app]. rewrite firstn_app, <- (F p (or_introl eq_refl)), Nat.sub_diag. cbn [firstn].
    rewrite app_nil_r. apply firstn_all.
  - cbn [map List.concat]. rewrite app_assoc.
    apply (IH (lo + nT q)%nat (so + List.length (uv (Concat.p_scan q)))%nat (co + List.length (uv (Concat.p_cscan q)))%nat
              (pre ++ g q) i p t); auto.
    + intros q' Hq'. apply F. right. exact Hq'.
    + rewrite app_length, (F q (or_introl eq_refl)). lia.
Qed.

Definition single_sw (p : Concat.part) : Prop :=
  exists a b, uv (Concat.p_sub p) = [a] /\ uv (Concat.p_spw p) = [b].

Lemma spec_index_seg (f : Concat.part -> Concat.cdz) cat ps i p t a :
  Forall (fun q => ConcatP.cd_ok (nT q) (f q)) ps ->
  nth_error ps i = Some p -> nth_error (trs_of cat ps) i = Some t -> uv (f p) = [a] ->
  seg t (Concat.spec_index f ps) = repeat (zindex (Concat.spec_uniq f ps) a) (nT p).
Proof.
  intros OK Hp Ht U. unfold Concat.spec_index. rewrite seg_map. unfold Concat.spec_plain.
  destruct (seg_pieces (list_sum (map nT ps)) cat (fun q => zexpand (f q)) ps 0%nat 0%nat 0%nat [] i p t) as (A & _); auto.
  { intros q Hq. rewrite Forall_forall in OK. apply ConcatP.cd_ok_len. apply OK. exact Hq. }
  cbn [app] in A. rewrite A. rewrite (zexpand_single (nT p) (f p) a); auto.
  - apply map_repeat_.
  - rewrite Forall_forall in OK. apply OK. eapply nth_error_In; eauto.
Qed.

(* in the (s, w) mask a part with one subarray and one window is kept entirely or not at all *)
Theorem spec_keep_seg : forall input ps m s w i p t,
  Concat.sort_parts input = Some ps -> Forall ConcatP.part_ok ps -> Concat.concat_open input = Concat.COk m ->
  Forall single_sw ps -> (s < List.length (Concat.m_subs m))%nat -> (w < List.length (Concat.m_spws m))%nat ->
  nth_error ps i = Some p -> nth_error (trs_of (Concat.m_cat m) ps) i = Some t ->
  seg t (spec_keep ps (Z.of_nat s) (Z.of_nat w)) = repeat (member m s w p) (nT p).
Proof.
  intros input ps m s w i p t E OK H SS Ls Lw Hp Ht.
  pose proof (ConcatP.concat_open_facts input ps m E OK H) as O.
  destruct (ConcatP.part_ok_f ps OK) as (Fsub & Fspw & _).
  assert (Ip : In p ps) by (eapply nth_error_In; eauto).
  rewrite Forall_forall in SS. destruct (SS p Ip) as (a & b & Ua & Ub).
  unfold spec_keep. rewrite seg_map, seg_combine.
  rewrite (spec_index_seg Concat.p_spw _ ps i p t b Fspw Hp Ht Ub), (spec_index_seg Concat.p_sub _ ps i p t a Fsub Hp Ht Ua).
  rewrite combine_repeat, map_repeat_. f_equal. cbn [fst snd].
  unfold member, sub_of, spw_of. rewrite Ua, Ub. cbn [hd].
  rewrite (ConcatP.op_subs _ _ O) in *. rewrite (ConcatP.op_spws _ _ O) in *.
  assert (Ia : In a (Concat.spec_uniq Concat.p_sub ps)).
  { apply (CategoricalConcatP.uio_In Z.eqb Z.eqb_eq). apply in_flat_map. exists p. split; [exact Ip|]. rewrite Ua. left. reflexivity. }
  assert (Ib : In b (Concat.spec_uniq Concat.p_spw ps)).
  { apply (CategoricalConcatP.uio_In Z.eqb Z.eqb_eq). apply in_flat_map. exists p. split; [exact Ip|]. rewrite Ub. left. reflexivity. }
  pose proof (zindex_iff _ a s (CategoricalConcatP.uio_NoDup Z.eqb Z.eqb_eq _) Ia Ls) as Xa.
  pose proof (zindex_iff _ b w (CategoricalConcatP.uio_NoDup Z.eqb Z.eqb_eq _) Ib Lw) as Xb.
  rewrite andb_comm. f_equal; apply Bool.eq_iff_eq_true; rewrite !Z.eqb_eq.
  - rewrite Xa. split; intro X; symmetry; exact X.
  - rewrite Xb. split; intro X; symmetry; exact X.
Qed.

(* ------------------------------------------------------------------ 3. C19_select_sw_commutes *)
Lemma run_reachable mo : forall calls s S, reachable mo s -> run mo s calls = Ok S -> reachable mo S.
Proof.
  induction calls as [|c r IH]; intros s S Rs HS; cbn in HS.
  - inversion HS; subst; exact Rs.
  - destruct (select mo s c) eqn:Es; [|discriminate]. eapply IH; [|exact HS]. eapply reach_step; eauto.
Qed.

(* After select(subarray=s, spw=w) and ANY history of successful further calls on the whole (C02's select on the
   merged observation with the products of subarrays[s] and the channels of spectral_windows[w]; time mask ANDed with
   the (s, w) mask k), for every part (one subarray, one window, as every loader gives):
   - if its subarray / window ARE the s-th / w-th of the merged lists, the translated history on the part ALONE -- on
     its own products and channels -- succeeds and selects exactly the part's segment of the time mask of the whole
     and the same channels and products;
   - otherwise none of its dumps is selected. *)
Theorem select_sw_commutes : forall input ps m E s w calls,
  Concat.sort_parts input = Some ps -> Forall ConcatP.part_ok ps -> Concat.concat_open input = Concat.COk m ->
  Forall single_sw ps -> (s < List.length (Concat.m_subs m))%nat -> (w < List.length (Concat.m_spws m))%nat ->
  Forall (fun c => NoDup (keys c)) calls ->
  exists mo, merged_obs (whole_env E m s w) m = Some mo /\
  m_keep m (Z.of_nat s) (Z.of_nat w) = Some (spec_keep ps (Z.of_nat s) (Z.of_nat w)) /\
  forall S, run mo (init mo) calls = Ok S ->
    let TK := Concat.band (spec_keep ps (Z.of_nat s) (Z.of_nat w)) (tk S) in
    forall i p t, nth_error ps i = Some p -> nth_error (trs_of (Concat.m_cat m) ps) i = Some t ->
      if member m s w p
      then part_env E p = whole_env E m s w /\
           exists Sp, run (part_obs (part_env E p) p) (init (part_obs (part_env E p) p)) (map (tr_kwargs t) calls) = Ok Sp
                      /\ tk Sp = seg t TK /\ fk Sp = fk S /\ bk Sp = bk S
      else seg t TK = repeat false (nT p).
Proof.
  intros input ps m E s w calls Es OK H SS Ls Lw F.
  set (e := whole_env E m s w).
  destruct (open_rel input ps m e Es OK H) as (mo & Hmo & LN & LT & Rel).
  exists mo. split; [exact Hmo|]. split.
  { apply keep_sw_spec. eapply ConcatP.concat_open_facts; eauto. }
  intros S HS TK i p t Hp Ht.
  pose proof (Rel i p t Hp Ht) as R.
  destruct (select_commutes_part e mo (part_obs e p) t R calls S F HS) as (Sp & R1 & T1 & F1 & B1).
  assert (LS : List.length (tk S) = List.length (o_dumps mo)).
  { apply (reachable_len mo). eapply run_reachable; [apply reach_init|exact HS]. }
  assert (Lseg : List.length (seg t (tk S)) = nT p).
  { rewrite seg_length.
    - rewrite (r_len _ _ _ _ R). cbn [part_obs o_dumps].
      assert (OKp : ConcatP.part_ok p). { rewrite Forall_forall in OK. apply OK. eapply nth_error_In; eauto. }
      destruct (part_lengths p OKp) as (P1 & P2 & P3 & P4 & P5).
      destruct OKp as (_ & _ & OKt & _). destruct (ConcatP.index_cd_facts _ _ OKt) as (OKi & _).
      apply zip_dumps_length; auto. apply ConcatP.cd_ok_len. exact OKi.
    - rewrite LS, <- (r_n _ _ _ _ R). apply (r_fit _ _ _ _ R). }
  assert (ST : seg t TK = Concat.band (repeat (member m s w p) (nT p)) (seg t (tk S))).
  { unfold TK. rewrite seg_band. f_equal. eapply spec_keep_seg; eauto. }
  destruct (member m s w p) eqn:M.
  - assert (EQ : part_env E p = e).
    { unfold member in M. apply andb_true_iff in M. destruct M as [Ma Mb]. apply Z.eqb_eq in Ma, Mb.
      unfold part_env, e, whole_env. rewrite Ma, Mb. reflexivity. }
    split; [exact EQ|]. rewrite EQ. exists Sp. split; [exact R1|]. split; [|split; assumption].
    rewrite ST, <- Lseg, band_true_l. exact T1.
  - rewrite ST, <- Lseg, band_false_l. reflexivity.
Qed.

(* ------------------------------------------------------------------ 4. merged exactly when identical *)
Lemma zindex_inj (u : list Z) a b : In a u -> In b u -> zindex u a = zindex u b -> a = b.
Proof.
  intros Ia Ib E. unfold Concat.zindex in E.
  destruct (CategoricalConcatP.index_of_In Z.eqb Z.eqb_eq u a Ia) as (i & Hi).
  destruct (CategoricalConcatP.index_of_In Z.eqb Z.eqb_eq u b Ib) as (j & Hj). rewrite Hi, Hj in E.
  apply Nat2Z.inj in E. subst j.
  destruct (CategoricalConcatP.index_of_Some Z.eqb 0 Z.eqb_eq u a i Hi) as (_ & Na).
  destruct (CategoricalConcatP.index_of_Some Z.eqb 0 Z.eqb_eq u b i Hj) as (_ & Nb). congruence.
Qed.

Lemma same_index_iff_same_id (f : Concat.part -> Concat.cdz) ps p q a b :
  In p ps -> In q ps -> uv (f p) = [a] -> uv (f q) = [b] ->
  (zindex (Concat.spec_uniq f ps) a = zindex (Concat.spec_uniq f ps) b <-> a = b).
Proof.
  intros Ip Iq Ua Ub. split; [|intro; subst; reflexivity]. apply zindex_inj.
  - apply (CategoricalConcatP.uio_In Z.eqb Z.eqb_eq). apply in_flat_map. exists p. split; [exact Ip|]. rewrite Ua. left. reflexivity.
  - apply (CategoricalConcatP.uio_In Z.eqb Z.eqb_eq). apply in_flat_map. exists q. split; [exact Iq|]. rewrite Ub. left. reflexivity.
Qed.

(* Two parts get the same subarray index in the whole -- their subarrays are MERGED -- exactly when their subarrays
   are identical: the same antennas in the same order and the same correlation products in the same order.
   rp, rq: the table positions the harness entered the two parts' subarrays at. *)
Theorem subarrays_merged_iff_identical : forall (tbl : list ConcatIdent.subarray) input ps m p q rp rq,
  Concat.sort_parts input = Some ps -> Forall ConcatP.part_ok ps -> Concat.concat_open input = Concat.COk m ->
  In p ps -> In q ps -> (rp < List.length tbl)%nat -> (rq < List.length tbl)%nat ->
  uv (Concat.p_sub p) = [Z.of_nat (nth rp (ConcatIdent.intern_ids ConcatIdent.sub_eqb tbl) 0%nat)] ->
  uv (Concat.p_sub q) = [Z.of_nat (nth rq (ConcatIdent.intern_ids ConcatIdent.sub_eqb tbl) 0%nat)] ->
  (zindex (Concat.m_subs m) (sub_of p) = zindex (Concat.m_subs m) (sub_of q)
   <-> nth rp tbl (ConcatIdent.mkSub [] []) = nth rq tbl (ConcatIdent.mkSub [] [])).
Proof.
  intros tbl input ps m p q rp rq E OK H Ip Iq Lp Lq Up Uq.
  pose proof (ConcatP.concat_open_facts input ps m E OK H) as O. rewrite (ConcatP.op_subs _ _ O).
  unfold sub_of. rewrite Up, Uq. cbn [hd].
  rewrite (same_index_iff_same_id Concat.p_sub ps p q _ _ Ip Iq Up Uq).
  rewrite <- (ConcatIdentP.sub_ids_same tbl rp rq Lp Lq). split; [apply Nat2Z.inj|congruence].
Qed.

Theorem spws_merged_iff_identical : forall (tbl : list ConcatIdent.spwin) input ps m p q rp rq,
  Concat.sort_parts input = Some ps -> Forall ConcatP.part_ok ps -> Concat.concat_open input = Concat.COk m ->
  In p ps -> In q ps -> (rp < List.length tbl)%nat -> (rq < List.length tbl)%nat ->
  uv (Concat.p_spw p) = [Z.of_nat (nth rp (ConcatIdent.intern_ids ConcatIdent.spw_eqb tbl) 0%nat)] ->
  uv (Concat.p_spw q) = [Z.of_nat (nth rq (ConcatIdent.intern_ids ConcatIdent.spw_eqb tbl) 0%nat)] ->
  (zindex (Concat.m_spws m) (spw_of p) = zindex (Concat.m_spws m) (spw_of q)
   <-> nth rp tbl (ConcatIdent.mkSpw 0 0 0 0 0 0 0) = nth rq tbl (ConcatIdent.mkSpw 0 0 0 0 0 0 0)).
Proof.
  intros tbl input ps m p q rp rq E OK H Ip Iq Lp Lq Up Uq.
  pose proof (ConcatP.concat_open_facts input ps m E OK H) as O. rewrite (ConcatP.op_spws _ _ O).
  unfold spw_of. rewrite Up, Uq. cbn [hd].
  rewrite (same_index_iff_same_id Concat.p_spw ps p q _ _ Ip Iq Up Uq).
  rewrite <- (ConcatIdentP.spw_ids_same tbl rp rq Lp Lq). split; [apply Nat2Z.inj|congruence].
Qed.

Theorem keep_sw_open : forall input ps m s w,
  Concat.sort_parts input = Some ps -> Forall ConcatP.part_ok ps -> Concat.concat_open input = Concat.COk m ->
  m_keep m s w = Some (spec_keep ps s w).
Proof. intros input ps m s w E OK H. apply keep_sw_spec. eapply ConcatP.concat_open_facts; eauto. Qed.
