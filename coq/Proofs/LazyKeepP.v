(* C05: lemmas about the keep-aware transform layer (Model/LazyKeep.v). *)
From Coq Require Import ZArith List Bool Lia.
From KV Require Import Base.Sx Base.PySlice Base.AxisIndex Base.NdArray Base.LazyDType Gen.Generated
  Model.LazyIdx Model.LazyNd Model.ConcatIdx Model.LazyKeep Proofs.LazyIdxP Proofs.LazyNdP Proofs.ConcatIdxP.
Import ListNotations.
Open Scope Z_scope.

(* ------------------------------------------------------------------ LazyIndexer *)

(* C05_getitem_keep: the indexer with its chunk loop and a chain of transforms that may use `keep` answers exactly the
   chain applied - with the user's second-stage index and the first-stage shape - to source[stage 1][stage 2] *)
Lemma getitem_k_correct garbage shape ds k1 ts dt k2 k out a1 :
  Forall (fun d => 0 <= d) shape -> (forall sh, shaped sh (garbage sh)) ->
  mk_k shape k1 ts dt = Ok k ->
  oindex_keep (mk_nd shape ds) k1 = Ok a1 ->
  getitem_k garbage k ds k2 = Ok out ->
  spec_getitem_k shape ds k1 ts dt k2 = Ok out.
Proof.
  intros Hs Hg HM H1 HG. unfold mk_k in HM.
  destruct (mk_lazy shape k1 [] dt) as [li|] eqn:EL; [|discriminate]. cbn [bind] in HM.
  destruct (klazy_shape _); [|discriminate]. cbn [bind] in HM. injection HM as <-.
  unfold getitem_k in HG. cbn [kl_li kl_ts] in HG.
  destruct (getitem_nd garbage li ds k2) as [x|] eqn:EG; [|discriminate]. cbn [bind] in HG.
  pose proof (getitem_nd_correct _ _ _ _ _ _ _ _ _ _ Hs Hg EL H1 EG) as SP.
  destruct (mk_lazy_fields _ _ _ _ _ _ _ Hs EL H1) as [F1 _].
  unfold spec_getitem in SP. unfold spec_getitem_k. rewrite H1 in *. cbn [bind] in *.
  destruct (oindex a1 k2) as [a2|]; [|discriminate]. cbn [bind apply_transforms] in *. injection SP as <-.
  rewrite <- F1. exact HG.
Qed.

(* the two keep-aware transforms keep the dtype; their output shape follows the scalar items of keep *)
Lemma k_apply_dtype ctx t x y : k_apply ctx t x = Ok y -> a_dtype y = k_dtype t (a_dtype x).
Proof.
  destruct t as [t| |c]; cbn [k_apply k_dtype].
  - intro H. exact (proj2 (tr_apply_shape_dtype _ _ _ H)).
  - destruct (keepdims_shape _ _); [|discriminate]. cbn [bind]. intro H; injection H as <-. reflexivity.
  - destruct (oindex _ _); [|discriminate]. cbn [bind]. destruct (_ && _); [|discriminate]. intro H; injection H as <-. reflexivity.
Qed.

Lemma k_apply_all_dtype ctx ts : forall x y, k_apply_all ctx ts x = Ok y -> a_dtype y = chain_dtype (a_dtype x) ts.
Proof.
  induction ts as [|t r IH]; intros x y H; cbn in H.
  - injection H as <-. reflexivity.
  - destruct (k_apply ctx t x) as [z|] eqn:E; [|discriminate]. cbn [bind] in H.
    unfold chain_dtype. cbn [fold_left]. rewrite <- (k_apply_dtype _ _ _ _ E). exact (IH _ _ H).
Qed.

Lemma keepdims_shape_noscalar : forall n sh s, keepdims_shape (repeat false n) sh = Ok s -> s = sh.
Proof.
  induction n as [|n IH]; intros sh s H; cbn in H; [now injection H|].
  destruct sh as [|d sh']; [discriminate|]. destruct (keepdims_shape (repeat false n) sh') as [s'|] eqn:E; [|discriminate].
  cbn [bind] in H. injection H as <-. f_equal. now apply IH.
Qed.

Lemma pad_to_nil_flags n : map is_scalar (pad_to n []) = repeat false n.
Proof. induction n as [|n IH]; [reflexivity|]. cbn [pad_to map repeat]. now rewrite IH. Qed.

(* with the index `[]` (self[:]) every transform produces the shape it declares *)
Lemma k_apply_shape_full init t x y : k_apply (mk_kctx [] init) t x = Ok y ->
  nd_shape (a_nd y) = k_new_shape t (nd_shape (a_nd x)).
Proof.
  destruct t as [t| |c]; cbn [k_apply k_new_shape k_keep k_init].
  - intro H. exact (proj1 (tr_apply_shape_dtype _ _ _ H)).
  - rewrite pad_to_nil_flags. destruct (keepdims_shape _ _) as [s|] eqn:E; [|discriminate]. cbn [bind].
    intro H; injection H as <-. cbn [a_nd nd_shape]. eapply keepdims_shape_noscalar; exact E.
  - destruct (oindex _ _); [|discriminate]. cbn [bind]. destruct (_ && _); [|discriminate]. intro H; injection H as <-. reflexivity.
Qed.

Lemma k_apply_all_shape_full init ts : forall x y, k_apply_all (mk_kctx [] init) ts x = Ok y ->
  nd_shape (a_nd y) = fold_left (fun sh t => k_new_shape t sh) ts (nd_shape (a_nd x)).
Proof.
  induction ts as [|t r IH]; intros x y H; cbn in H.
  - injection H as <-. reflexivity.
  - destruct (k_apply _ t x) as [z|] eqn:E; [|discriminate]. cbn [bind] in H.
    cbn [fold_left]. rewrite <- (k_apply_shape_full _ _ _ _ E). exact (IH _ _ H).
Qed.

(* C05_shape_dtype_keep: .shape / .dtype / len() are those of self[:], also through keep-aware transforms *)
Lemma getitem_k_full_shape_dtype garbage shape ds k1 ts dt k a1 out s :
  Forall (fun d => 0 <= d) shape -> (forall sh, shaped sh (garbage sh)) ->
  mk_k shape k1 ts dt = Ok k -> oindex_keep (mk_nd shape ds) k1 = Ok a1 ->
  klazy_shape k = Ok s -> getitem_k garbage k ds [] = Ok out ->
  nd_shape (a_nd out) = s /\ a_dtype out = klazy_dtype k /\ klazy_len k = Ok (hd 0 (nd_shape (a_nd out))) /\ s <> [].
Proof.
  intros Hs Hg HM H1 HSh HG.
  pose proof (getitem_k_correct _ _ _ _ _ _ _ _ _ _ Hs Hg HM H1 HG) as SP.
  unfold mk_k in HM. destruct (mk_lazy shape k1 [] dt) as [li|] eqn:EL; [|discriminate]. cbn [bind] in HM.
  destruct (klazy_shape _); [|discriminate]. cbn [bind] in HM. injection HM as <-.
  destruct (mk_lazy_fields _ _ _ _ _ _ _ Hs EL H1) as [F1 [F2 [F3 [F4 [F5 F6]]]]].
  unfold spec_getitem_k in SP. rewrite H1 in SP. cbn [bind] in SP.
  unfold oindex in SP. rewrite resolve_all_nil in SP by assumption. cbn [bind] in SP.
  pose proof (k_apply_all_shape_full _ _ _ _ SP) as S1. pose proof (k_apply_all_dtype _ _ _ _ SP) as D1.
  cbn [a_nd a_dtype nd_shape] in S1, D1. rewrite take_shape_full_sels in S1 by assumption.
  unfold klazy_len, klazy_shape in *. cbn [kl_li kl_ts] in *. rewrite F1 in HSh. rewrite F1.
  unfold chain_shape in *. rewrite <- S1 in *.
  destruct (negb _ && _) eqn:EC in HSh; [|discriminate]. injection HSh as <-. rewrite EC. cbn [bind].
  assert (NE : nd_shape (a_nd out) <> []).
  { apply andb_prop in EC. destruct EC as [EN _]. destruct (nd_shape (a_nd out)); [|discriminate].
    destruct (nd_shape a1); [|discriminate EN]. cbn in F6. destruct shape; [|discriminate].
    unfold mk_lazy in EL. cbn in EL. discriminate. }
  split; [reflexivity|]. split; [unfold klazy_dtype; cbn [kl_li kl_ts]; now rewrite F4|].
  split; [|exact NE]. destruct (nd_shape (a_nd out)); [congruence|reflexivity].
Qed.

(* ------------------------------------------------------------------ ConcatenatedLazyIndexer *)

Lemma c_mk_used2 raws ts c : c_mk raws ts = Ok c ->
  exists psA init d0, mapM (fun r => li <- mk_lazy (r_shape r) (r_keep r) [] (r_dt r) ;; Ok (mk_cpart li (r_ds r))) raws = Ok psA
    /\ c = mk_concat (used_of (fun p => negb (part_len p =? 0)) psA) ts
    /\ c_initial_shape (c_parts c) = Ok init /\ c_initial_dtype (c_parts c) = Ok d0.
Proof.
  unfold c_mk. destruct (mapM _ raws) as [psA|]; [|discriminate]. cbn [bind]. cbv zeta.
  destruct (c_shape _) eqn:ES; [|discriminate]. cbn [bind]. destruct (c_dtype _) eqn:ED; [|discriminate]. cbn [bind].
  intro H. injection H as <-. unfold c_shape in ES. unfold c_dtype in ED. cbn [c_parts c_ts] in *.
  destruct (c_initial_shape _) as [init|] eqn:EI; [|discriminate].
  destruct (c_initial_dtype _) as [d0|] eqn:EDD; [|discriminate].
  exists psA, init, d0. split; [reflexivity|]. split; [reflexivity|]. cbn [c_parts]. split; first [assumption|reflexivity].
Qed.

(* the first-stage shape the chain is told about is the shape of np.concatenate of the parts *)
Lemma concat_full_spec raws ts c fulls init :
  Forall raw_ok raws ->
  mapM (fun r => oindex_keep (mk_nd (r_shape r) (r_ds r)) (r_keep r)) raws = Ok fulls ->
  c_mk raws ts = Ok c -> c_initial_shape (c_parts c) = Ok init ->
  exists x0, spec_concat raws [] [] = Ok x0 /\ nd_shape (a_nd x0) = init.
Proof.
  intros HR HFu HM HI. destruct (c_mk_used2 _ _ _ HM) as [psA [init' [d0 [EP [-> [EI ED]]]]]].
  cbn [c_parts] in *. rewrite HI in EI. injection EI as <-.
  pose proof (parts_fulls raws psA fulls HR EP HFu) as HPF.
  set (fd := combine fulls (map r_dt raws)) in *.
  set (nzp := fun p : cpart => negb (part_len p =? 0)) in *.
  set (nzq := fun q : nd * Z => negb (hd 0 (nd_shape (fst q)) =? 0)).
  assert (Hfst : map fst fd = fulls).
  { unfold fd. apply combine_map_fst. rewrite map_length. exact (mapM_ok_length _ _ _ HFu). }
  assert (HU : Forall2 PF (used_of nzp psA) (used_of nzq fd)).
  { apply used_Forall2. eapply Forall2_impl'; [|exact HPF]. intros p q H. split; [exact H|].
    destruct H as [_ [_ [H _]]]. unfold nzp, nzq. now rewrite H. }
  assert (HW : zsum (map part_len (used_of nzp psA)) = zsum (map (fun a => hd 0 (nd_shape a)) fulls)).
  { rewrite <- Hfst, map_map. rewrite <- (used_sum (fun q : nd * Z => hd 0 (nd_shape (fst q))) nzq fd).
    - clear -HU. induction HU as [|p f l l' H _ IH]; [reflexivity|]. cbn [map zsum fold_right].
      fold (zsum (map part_len l)). fold (zsum (map (fun q : nd * Z => hd 0 (nd_shape (fst q))) l')). rewrite IH.
      destruct H as [_ [_ [H _]]]. now rewrite H.
    - intros a _ Ha. unfold nzq in Ha. lia. }
  assert (HNN : forall f, In f fulls -> Forall (fun x => 0 <= x) (nd_shape f)).
  { intros f Hf. clear -HFu Hf. apply mapM_ok_Forall2 in HFu. induction HFu as [|r f' rs fs Hr _ IH]; [contradiction|].
    destruct Hf as [<-|Hf]; [eapply oindex_keep_shape_nonneg; exact Hr|now apply IH]. }
  remember (used_of nzp psA) as used eqn:EU. remember (used_of nzq fd) as fused eqn:EFu.
  destruct HU as [|p0 q0 ur qr HP0 HUr]; [discriminate|].
  unfold c_initial_shape in HI. destruct (forallb _ ur) eqn:EB in HI; [|discriminate]. injection HI as <-.
  unfold c_initial_dtype in ED. destruct (common_dtype_spec _ _ ED) as [_ HPr].
  assert (HDs : map part_dtype (p0 :: ur) = map snd (q0 :: qr)).
  { cbn [map]. f_equal; [destruct HP0 as [_ [_ [_ H]]]; exact H|]. clear -HUr.
    induction HUr as [|q f ? ? H _ IH]; [reflexivity|]. cbn [map]. f_equal; [|exact IH]. destruct H as [_ [_ [_ H]]]. exact H. }
  assert (ET : tl (nd_shape (fst q0)) = part_tail p0) by (destruct HP0 as [[_ [E _]] _]; now rewrite <- E).
  assert (Hq0 : In (fst q0) fulls).
  { rewrite <- Hfst. apply in_map. apply (used_of_incl nzq). rewrite <- EFu. now left. }
  assert (Hsum : 0 <= zsum (map (fun a => hd 0 (nd_shape a)) fulls)).
  { clear -HNN. induction fulls as [|f r IH]; cbn; [lia|]. fold (zsum (map (fun a => hd 0 (nd_shape a)) r)).
    assert (0 <= hd 0 (nd_shape f)).
    { specialize (HNN f (or_introl eq_refl)). destruct (nd_shape f); cbn; [lia|]. now inversion HNN. }
    specialize (IH (fun g Hg => HNN g (or_intror Hg))). lia. }
  unfold spec_concat. rewrite HFu. cbn [bind]. fold fd.
  change (match filter (fun q : nd * Z => negb (hd 0 (nd_shape (fst q)) =? 0)) fd with
          | [] => firstn 1 fd | _ :: _ => filter (fun q : nd * Z => negb (hd 0 (nd_shape (fst q)) =? 0)) fd end)
    with (used_of nzq fd). rewrite <- EFu.
  destruct q0 as [a0 dq0]. cbn [fst snd map] in *.
  rewrite <- HDs, HPr. cbn [bind].
  assert (HT0 : Forall (fun x => 0 <= x) (tl (nd_shape a0))).
  { specialize (HNN a0 Hq0). destruct (nd_shape a0); [constructor|]. now inversion HNN. }
  unfold oindex. cbn [nd_shape nd_body]. rewrite resolve_all_nil by (constructor; assumption). cbn [bind apply_transforms].
  eexists. split; [reflexivity|]. cbn [a_nd nd_shape].
  rewrite take_shape_full_sels by (constructor; assumption). rewrite <- HW, ET. reflexivity.
Qed.

(* C05_concat_keep: the concatenated indexer with a keep-aware chain *)
Lemma kconcat_correct raws ts ix k out fulls :
  Forall raw_ok raws ->
  mapM (fun r => oindex_keep (mk_nd (r_shape r) (r_ds r)) (r_keep r)) raws = Ok fulls ->
  kc_mk raws ts = Ok k -> kc_getitem k ix = Ok out ->
  spec_concat_k raws ts ix = Ok out.
Proof.
  intros HR HFu HM HG. unfold kc_mk in HM.
  destruct (c_mk raws []) as [c|] eqn:EC; [|discriminate]. cbn [bind] in HM.
  destruct (kc_shape _); [|discriminate]. cbn [bind] in HM. destruct (kc_dtype _); [|discriminate]. cbn [bind] in HM.
  injection HM as <-. unfold kc_getitem in HG. cbn [kc_c kc_ts] in HG.
  destruct (c_getitem c ix) as [x|] eqn:EG; [|discriminate]. cbn [bind] in HG.
  destruct (c_initial_shape (c_parts c)) as [init|] eqn:EI; [|discriminate]. cbn [bind] in HG.
  pose proof (concat_correct _ _ _ _ _ _ HR HFu EC EG) as SP.
  destruct (concat_full_spec _ _ _ _ _ HR HFu EC EI) as [x0 [S0 Sh]].
  unfold spec_concat_k. rewrite S0. cbn [bind]. rewrite SP. cbn [bind]. rewrite Sh. exact HG.
Qed.

(* ------------------------------------------------------------------ examples (non-vacuity) *)

Definition run_k (shape : list Z) (k1 : list aidx) (ts : list ktr) (k2 : list aidx) : res arr :=
  k <- mk_k shape k1 ts 0 ;; getitem_k (const_tree garbage_value) k (arange shape 0) k2.

(* keepdims after a scalar on the middle axis; an auxiliary array indexed with the same keep through a first stage *)
Lemma keep_example :
  run_k [4; 3; 2] [] [KKeepdims] [ASlice (Some 1) None None; AInt (-1)]
  = spec_getitem_k [4; 3; 2] (arange [4; 3; 2] 0) [] [KKeepdims] 0 [ASlice (Some 1) None None; AInt (-1)]
  /\ (exists x, run_k [4; 3; 2] [] [KKeepdims] [ASlice (Some 1) None None; AInt (-1)] = Ok x /\ nd_shape (a_nd x) = [3; 1; 2])
  /\ run_k [6; 2] [ASlice (Some 1) None (Some 2)] [KAux 1000; KPlain (TMap 2 0 None)] [AList [0; 2]; AInt 1]
     = spec_getitem_k [6; 2] (arange [6; 2] 0) [ASlice (Some 1) None (Some 2)] [KAux 1000; KPlain (TMap 2 0 None)] 0 [AList [0; 2]; AInt 1]
  /\ (exists x, run_k [6; 2] [ASlice (Some 1) None (Some 2)] [KAux 1000; KPlain (TMap 2 0 None)] [AList [0; 2]; AInt 1] = Ok x
                /\ flatten (nd_body (a_nd x)) = [2 * (3 + 1000 * 1); 2 * (11 + 1000 * 5)]).
Proof.
  split; [vm_compute; reflexivity|]. split; [eexists; split; vm_compute; reflexivity|].
  split; [vm_compute; reflexivity|]. eexists; split; vm_compute; reflexivity.
Qed.

(* ------------------------------------------------------------------ rejected forms on the concatenated indexer *)

(* a head slice with a negative step is rejected outright, whatever the parts, bounds and tail (never answered) *)
Lemma concat_negative_step_rejected ps dt total S a b c tail start stop stride :
  slice_indices total a b c = Some (start, stop, stride) -> stride < 0 ->
  c_head ps dt total S (ASlice a b c) tail = Err.
Proof.
  intros H Hs. cbn [c_head]. rewrite H. unfold concat_stride_rejected.
  assert (E : (stride <? 0) = true) by lia. now rewrite E.
Qed.

(* a scalar head outside [-len, len) is rejected *)
Lemma concat_scalar_out_of_range_rejected ps dt total S z tail : 0 <= total -> z < - total \/ total <= z ->
  c_head ps dt total S (AInt z) tail = Err.
Proof.
  intros Ht H. cbn [c_head]. unfold concat_scalar_rejected, concat_norm_scalar.
  destruct (z <? 0) eqn:E.
  - assert (E2 : (0 <=? total + z) && (total + z <? total) = false) by lia. now rewrite E2.
  - assert (E2 : (0 <=? z) && (z <? total) = false) by lia. now rewrite E2.
Qed.

(* F30b: c[::-1] raises although the concatenation can be reversed *)
Lemma concat_negative_step_refuted :
  run_concat two_parts [ASlice None None (Some (-1))] = Err
  /\ spec_concat two_parts [] [ASlice None None (Some (-1))] <> Err.
Proof. split; [vm_compute; reflexivity|vm_compute; discriminate]. Qed.
