(* C10: the exact boundary of finding F14 (greedy initial value dropped when the first event lies inside dump 0).
   per_dump_coded (SensorToCatP) says: the code computes the rule with `init_as_coded`.  Here: the rule with the
   initial value dropped differs from the rule with the initial value ONLY at dump 0 and only when the initial value
   would have won dump 0; hence `per_dump = rule` iff `f14_differs = false`, in particular whenever the initial value
   is not greedy. *)
From Coq Require Import ZArith List Bool Lia ZifyBool.
From KV Require Import Base.Sx Model.SensorToCat Proofs.SensorToCatP.
Import ListNotations.
Open Scope Z_scope.

Lemma last_indep {A} (l : list A) a b : l <> [] -> last l a = last l b.
Proof. destruct l as [|x l]; [congruence|]. intros _. rewrite !last_cons. reflexivity. Qed.

Lemma nondecrZ_ge x l : nondecrZ x l -> Forall (fun y => x <= y) l.
Proof.
  revert x. induction l as [|y l IH]; intros x H; [constructor|]. destruct H as [H1 H2]. constructor; [exact H1|].
  eapply Forall_impl; [|apply IH; exact H2]. simpl. intros. lia.
Qed.

Lemma existsb_false_Forall {A} (f : A -> bool) l : existsb f l = false -> Forall (fun x => f x = false) l.
Proof.
  induction l as [|a l IH]; intro H; [constructor|]. simpl in H. apply orb_false_iff in H. destruct H.
  constructor; auto.
Qed.

Lemma ssorted_ge_head x l : ssorted (x :: l) -> Forall (fun y => x <= y) (x :: l).
Proof. intros [H _]. constructor; [lia|]. eapply Forall_impl; [|exact H]. simpl. intros. lia. Qed.

Lemma combine_fst_Forall {B} (P : Z -> Prop) (a : list Z) (b : list B) :
  Forall P a -> Forall (fun p => P (fst p)) (combine a b).
Proof.
  intro H. revert b. induction H as [|x a Hx _ IH]; intros [|y b]; simpl; try constructor; auto.
Qed.

Section Init.
Variable isg : Z -> bool.

Lemma pick_plain_head i x X : isg i = false -> pick isg (i :: x :: X) = pick isg (x :: X).
Proof. intro H. unfold pick. simpl filter. rewrite H. rewrite !last_cons. reflexivity. Qed.

(* a dump whose start is at or after some event does not depend on the start value *)
Lemma dump_value_indep tv st1 st2 lo hi :
  sel (fun t => t <=? lo) tv <> [] -> dump_value isg tv st1 (lo, hi) = dump_value isg tv st2 (lo, hi).
Proof. intro H. unfold dump_value. rewrite (last_indep _ st1 st2 H). reflexivity. Qed.

Lemma sel_cons f t v tv : sel f ((t, v) :: tv) = if f t then v :: sel f tv else sel f tv.
Proof. unfold sel. simpl. destruct (f t); reflexivity. Qed.

Lemma sel_none f tv : Forall (fun p => f (fst p) = false) tv -> sel f tv = [].
Proof. unfold sel. induction 1 as [|p tv Hp _ IH]; [reflexivity|]. simpl. rewrite Hp. exact IH. Qed.
End Init.

(* the two rules (with and without the initial value) in the situation where the code drops it *)
Lemma spec_dropped_init ts vals e0 er P tr i greedy :
  let ends := e0 :: er in
  let isg := fun v => memZ v greedy in
  let X := first_dump_values ts vals ends P tr in
  ssorted ends -> 0 < P -> time_sorted ts -> length ts = length vals ->
  no_prior ts (e0 - P) = true -> in_first ts (e0 - P) e0 = true ->
  exists T, X <> [] /\
    spec_per_dump ts vals ends P tr None greedy = Some (pick isg X :: T) /\
    spec_per_dump ts vals ends P tr (Some i) greedy = Some (pick isg (i :: X) :: T).
Proof.
  intros ends isg X Hs HP Ht Hl Hnp Hin.
  unfold no_prior in Hnp. apply negb_true_iff in Hnp. apply existsb_false_Forall in Hnp.
  unfold in_first in Hin. apply existsb_exists in Hin. destruct Hin as [tin [Hin1 Hin2]].
  destruct ts as [|t1 r]; [destruct Hin1|]. destruct vals as [|v1 vr]; [discriminate|].
  assert (Hge : Forall (fun t => t1 <= t) (t1 :: r)) by (apply nondecrZ_ge; exact Ht).
  assert (H1 : e0 - P < t1) by (inversion Hnp; subst; lia).
  assert (H2 : t1 <= e0). { rewrite Forall_forall in Hge. specialize (Hge tin Hin1). lia. }
  set (tv' := combine r (map (app_tr tr) vr)).
  assert (Htv : combine (t1 :: r) (map (app_tr tr) (v1 :: vr)) = (t1, app_tr tr v1) :: tv') by reflexivity.
  assert (Hends : Forall (fun y => e0 <= y) (e0 :: er)) by (apply ssorted_ge_head; exact Hs).
  assert (Hlast : e0 <= last (e0 :: er) e0).
  { pose proof (last_in er e0) as Hi. rewrite last_cons. rewrite Forall_forall in Hends. apply Hends. exact Hi. }
  (* prior part empty *)
  assert (Hpri : sel (fun t => t <=? e0 - P) ((t1, app_tr tr v1) :: tv') = []).
  { apply sel_none. rewrite <- Htv. apply (combine_fst_Forall (fun t => (t <=? e0 - P) = false)). exact Hnp. }
  (* the tail of the dumps *)
  set (T := map (dump_value isg ((t1, app_tr tr v1) :: tv') i) (combine (e0 :: er) er)).
  assert (HT : forall st, map (dump_value isg ((t1, app_tr tr v1) :: tv') st) (combine (e0 :: er) er) = T).
  { intro st. unfold T. apply map_ext_in. intros [lo hi] Hp. apply dump_value_indep.
    assert (e0 <= lo).
    { pose proof (combine_fst_Forall (fun y => e0 <= y) (e0 :: er) er Hends) as Hf. rewrite Forall_forall in Hf.
      apply (Hf (lo, hi) Hp). }
    rewrite sel_cons. replace (t1 <=? lo) with true by lia. discriminate. }
  exists T. unfold X, first_dump_values, ends. rewrite Htv.
  rewrite sel_cons. replace ((e0 - P <? t1) && (t1 <=? e0)) with true by lia.
  split; [discriminate|].
  unfold spec_per_dump, ends. rewrite Htv. fold isg. split.
  - unfold start_value. rewrite sel_cons. replace (t1 <=? last (e0 :: er) e0) with true by lia. simpl hd_error.
    cbn [combine map]. rewrite HT. f_equal. f_equal.
    unfold dump_value. rewrite Hpri. cbn [last]. rewrite sel_cons.
    replace ((e0 - P <? t1) && (t1 <=? e0)) with true by lia. apply pick_dup.
  - unfold start_value. cbn [combine map]. rewrite HT. f_equal. f_equal.
    unfold dump_value. rewrite Hpri. cbn [last]. rewrite sel_cons.
    replace ((e0 - P <? t1) && (t1 <=? e0)) with true by lia. reflexivity.
Qed.

Definition res_of (o : option (list Z)) : res (list Z) := match o with Some l => Ok l | None => Err end.

(* EXACT: the code obeys the rule iff the dropped initial value would not have won dump 0 *)
Lemma per_dump_exact ts vals e0 er P tr init greedy ar :
  let ends := e0 :: er in
  ssorted ends -> 0 < P -> time_sorted ts -> length ts = length vals ->
  (f14_differs ts vals ends P tr init greedy = false ->
     per_dump ts vals ends P tr init greedy ar = res_of (spec_per_dump ts vals ends P tr init greedy)) /\
  (f14_differs ts vals ends P tr init greedy = true ->
     exists x y T, x <> y /\ per_dump ts vals ends P tr init greedy ar = Ok (x :: T) /\
                   spec_per_dump ts vals ends P tr init greedy = Some (y :: T)).
Proof.
  intros ends Hs HP Ht Hl.
  destruct (per_dump_coded ts vals e0 er P tr init greedy ar Hs HP Ht Hl) as [Hc _]. fold ends in Hc.
  fold (res_of (spec_per_dump ts vals ends P tr (init_as_coded ts ends P init) greedy)) in Hc.
  destruct init as [i|].
  2:{ split; [|discriminate]. intros _. rewrite Hc. unfold init_as_coded, ends.
      destruct (existsb _ ts); [reflexivity|]. destruct (existsb _ ts); reflexivity. }
  unfold f14_differs, ends. fold ends.
  assert (Hic : init_as_coded ts ends P (Some i) =
                if existsb (fun t => t <=? e0 - P) ts then Some i
                else if existsb (fun t => (e0 - P <? t) && (t <=? e0)) ts then None else Some i) by reflexivity.
  rewrite Hic in Hc. clear Hic.
  unfold no_prior, in_first.
  destruct (existsb (fun t => t <=? e0 - P) ts) eqn:E1.
  { cbn [negb andb]. split; [intros _; exact Hc|discriminate]. }
  destruct (existsb (fun t => (e0 - P <? t) && (t <=? e0)) ts) eqn:E2.
  2:{ cbn [negb andb]. split; [intros _; exact Hc|discriminate]. }
  cbn [negb andb].
  destruct (spec_dropped_init ts vals e0 er P tr i greedy Hs HP Ht Hl) as [T [HX [HN HS]]].
  { unfold no_prior. rewrite E1. reflexivity. } { unfold in_first. exact E2. }
  fold ends in HN, HS, HX. rewrite Hc, HN, HS. cbn [res_of]. split.
  - intro H. apply negb_false_iff in H. apply Z.eqb_eq in H. rewrite H. reflexivity.
  - intro H. apply negb_true_iff in H. apply Z.eqb_neq in H.
    eexists _, _, T. split; [|split; reflexivity]. intro E. apply H. symmetry. exact E.
Qed.

(* the initial value is used as the rule says unless it is GREEDY and the first event lies inside dump 0 *)
Lemma f14_differs_situation ts vals ends P tr init greedy : length ts = length vals ->
  f14_situation ts ends P init greedy = false -> f14_differs ts vals ends P tr init greedy = false.
Proof.
  intros Hl H. unfold f14_situation in H. unfold f14_differs.
  destruct init as [i|]; [|reflexivity]. destruct ends as [|e0 er]; [reflexivity|].
  destruct (no_prior ts (e0 - P)) eqn:E1; [|reflexivity].
  destruct (in_first ts (e0 - P) e0) eqn:E2; [|reflexivity].
  rewrite !andb_true_r in H. cbn [andb].
  (* X is not empty because an event lies inside dump 0 *)
  unfold first_dump_values.
  assert (HX : sel (fun t => (e0 - P <? t) && (t <=? e0)) (combine ts (map (app_tr tr) vals)) <> []).
  { unfold in_first in E2. apply existsb_exists in E2. destruct E2 as [t [Ht1 Ht2]].
    clear E1 H. revert vals Hl. induction ts as [|t0 r IH]; intros vals Hl; [destruct Ht1|].
    destruct vals as [|v vr]; [discriminate|]. cbn [map combine]. rewrite sel_cons.
    destruct ((e0 - P <? t0) && (t0 <=? e0)) eqn:E; [discriminate|].
    destruct Ht1 as [->|Ht1]; [congruence|]. apply IH; [exact Ht1|]. simpl in Hl. lia. }
  destruct (sel _ _) as [|x X]; [congruence|].
  rewrite pick_plain_head by exact H. rewrite Z.eqb_refl. reflexivity.
Qed.

Lemma per_dump_unless_f14 ts vals e0 er P tr init greedy ar :
  let ends := e0 :: er in
  ssorted ends -> 0 < P -> time_sorted ts -> length ts = length vals ->
  f14_situation ts ends P init greedy = false ->
  per_dump ts vals ends P tr init greedy ar = res_of (spec_per_dump ts vals ends P tr init greedy).
Proof.
  intros ends Hs HP Ht Hl Hg.
  apply (proj1 (per_dump_exact ts vals e0 er P tr init greedy ar Hs HP Ht Hl)).
  apply f14_differs_situation; assumption.
Qed.

Lemma spec_length ts vals ends P tr init greedy s :
  spec_per_dump ts vals ends P tr init greedy = Some s -> length s = length ends.
Proof.
  unfold spec_per_dump. destruct ends as [|e0 er]; [discriminate|]. destruct (start_value _ _ _); [|discriminate].
  intro H. set (m := map _ _) in H. assert (Hm : s = m) by congruence. subst s. unfold m. rewrite map_length, combine_length. simpl length. lia.
Qed.

(* dumps 1 .. N-1 obey the rule for EVERY input, F14 or not *)
Lemma per_dump_later_dumps ts vals e0 er P tr init greedy ar :
  let ends := e0 :: er in
  ssorted ends -> 0 < P -> time_sorted ts -> length ts = length vals ->
  match per_dump ts vals ends P tr init greedy ar, spec_per_dump ts vals ends P tr init greedy with
  | Ok l, Some s => tl l = tl s /\ length l = length ends
  | Err, None => True
  | _, _ => False
  end.
Proof.
  intros ends Hs HP Ht Hl.
  destruct (per_dump_exact ts vals e0 er P tr init greedy ar Hs HP Ht Hl) as [H0 H1]. fold ends in H0, H1.
  destruct (f14_differs ts vals ends P tr init greedy).
  - destruct (H1 eq_refl) as [x [y [T [_ [Hp Hq]]]]]. rewrite Hp, Hq. split; [reflexivity|].
    apply spec_length in Hq. simpl length in *. lia.
  - rewrite (H0 eq_refl). destruct (spec_per_dump ts vals ends P tr init greedy) as [s|] eqn:E; [|exact Logic.I].
    split; [reflexivity|]. apply spec_length in E. exact E.
Qed.
