(* C10: two more laws of the rule and hence of the code: the per-dump values are taken from the (transformed) sensor
   values and the initial value - nothing else can appear -, and shifting all times (sensor timestamps and dump mid
   times) by the same amount changes nothing (only relative times matter). *)
From Coq Require Import ZArith List Bool Lia ZifyBool.
From KV Require Import Base.Sx Gen.Generated Model.SensorToCat Model.SensorToCatSrc
  Proofs.SensorToCatP Proofs.SensorToCatInitP Proofs.SensorToCatLawsP Proofs.SensorToCatSrcP Proofs.SensorToCatTopP.
Import ListNotations.
Open Scope Z_scope.

(* ---------- closure: every per-dump value is the initial value or a transformed sensor value ---------- *)
Lemma last_In_cons {A} (l : list A) d : In (last l d) (d :: l).
Proof. apply last_in. Qed.

Lemma pick_In isg (S : list Z) : S <> [] -> In (pick isg S) S.
Proof.
  intro H. unfold pick. destruct (last_opt (filter isg S)) as [g|] eqn:E.
  - unfold last_opt in E. destruct (filter isg S) as [|x t] eqn:F; [discriminate|]. inversion E; subst.
    assert (Hin : In (last t x) (filter isg S)) by (rewrite F; apply last_in).
    apply filter_In in Hin. tauto.
  - destruct S as [|x t]; [congruence|]. rewrite last_cons. apply last_in.
Qed.

Lemma sel_In f tv v : In v (sel f tv) -> In v (map snd tv).
Proof.
  unfold sel. intro H. apply in_map_iff in H. destruct H as [p [Hp Hin]]. apply filter_In in Hin.
  apply in_map_iff. exists p. tauto.
Qed.

Lemma dump_value_In isg tv st lohi : In (dump_value isg tv st lohi) (st :: map snd tv).
Proof.
  destruct lohi as [lo hi]. unfold dump_value.
  set (S := last (sel (fun t => t <=? lo) tv) st :: sel (fun t => (lo <? t) && (t <=? hi)) tv).
  assert (Hin : In (pick isg S) S) by (apply pick_In; discriminate).
  destruct Hin as [H|H].
  - rewrite <- H. pose proof (last_in (sel (fun t => t <=? lo) tv) st) as Hl. destruct Hl as [Hl|Hl].
    + left. exact Hl.
    + right. apply (sel_In _ _ _ Hl).
  - right. apply (sel_In _ _ _ H).
Qed.

Definition olist (o : option Z) : list Z := match o with Some v => [v] | None => [] end.

Lemma spec_values_closed ts vals ends P tr init greedy l : length ts = length vals ->
  spec_per_dump ts vals ends P tr init greedy = Some l ->
  Forall (fun v => In v (olist init ++ map (app_tr tr) vals)) l.
Proof.
  intros Hl H. unfold spec_per_dump in H. destruct ends as [|e0 er]; [discriminate|].
  set (tv := combine ts (map (app_tr tr) vals)) in *.
  assert (Hsnd : map snd tv = map (app_tr tr) vals) by (unfold tv; apply map_snd_combine; rewrite map_length; exact Hl).
  destruct (start_value tv init (last (e0 :: er) e0)) as [st|] eqn:Es; [|discriminate].
  assert (Hst : In st (olist init ++ map (app_tr tr) vals)).
  { unfold start_value in Es. destruct init as [i|]; [inversion Es; left; reflexivity|].
    simpl. destruct (sel _ tv) as [|x t] eqn:E; [discriminate|]. inversion Es; subst.
    rewrite <- Hsnd. apply (sel_In (fun t0 => t0 <=? last (e0 :: er) e0) tv). rewrite E. left. reflexivity. }
  set (m := map _ _) in H. assert (Hm : l = m) by congruence. subst l. unfold m.
  apply Forall_forall. intros v Hv. apply in_map_iff in Hv. destruct Hv as [p [Hp _]]. subst v.
  destruct (dump_value_In (fun v => memZ v greedy) tv st p) as [H1|H1].
  - rewrite <- H1. exact Hst.
  - apply in_or_app. right. rewrite <- Hsnd. exact H1.
Qed.

Lemma src_values_closed ts vals mids P tr init greedy ar l : c10_domain ts vals mids P ->
  per_dump_src ts vals mids P tr init greedy ar = Ok l ->
  Forall (fun v => In v (olist init ++ map (app_tr tr) vals)) l.
Proof.
  intros D H. rewrite (per_dump_src_coded _ _ _ _ _ _ _ _ D) in H. unfold rule in H.
  destruct (spec_per_dump ts vals (dump_ends mids P) P tr (init_as_coded ts (dump_ends mids P) P init) greedy) as [s|] eqn:E;
    [|discriminate].
  inversion H; subst. destruct D as [_ [_ [_ [_ Hl]]]].
  pose proof (spec_values_closed _ _ _ _ _ _ _ _ Hl E) as Hc.
  eapply Forall_impl; [|exact Hc]. intros v Hv. apply in_app_or in Hv. apply in_or_app. destruct Hv as [Hv|Hv]; [|right; exact Hv].
  left. unfold init_as_coded in Hv. destruct (dump_ends mids P) as [|e0 er]; [exact Hv|].
  destruct (existsb _ ts); [exact Hv|]. destruct (existsb _ ts); [destruct Hv|exact Hv].
Qed.

(* ---------- time-shift invariance ---------- *)
Definition shiftZ (c : Z) (l : list Z) : list Z := map (fun t => t + c) l.

Lemma sel_shift c f g tv : (forall t, g (t + c) = f t) ->
  sel g (map (fun p => (fst p + c, snd p)) tv) = sel f tv.
Proof.
  intro H. unfold sel. induction tv as [|[t v] tv IH]; [reflexivity|]. simpl. rewrite H.
  destruct (f t); simpl; rewrite IH; reflexivity.
Qed.

Lemma combine_shift c (ts : list Z) (vs : list Z) :
  combine (shiftZ c ts) vs = map (fun p => (fst p + c, snd p)) (combine ts vs).
Proof. unfold shiftZ. revert vs. induction ts as [|t ts IH]; intros [|v vs]; simpl; try reflexivity. rewrite IH. reflexivity. Qed.

Lemma existsb_shift c f g (l : list Z) : (forall t, g (t + c) = f t) -> existsb g (shiftZ c l) = existsb f l.
Proof. intro H. unfold shiftZ. induction l as [|t l IH]; [reflexivity|]. simpl. rewrite H, IH. reflexivity. Qed.

Lemma last_shift c (l : list Z) d : last (shiftZ c l) (d + c) = last l d + c.
Proof. unfold shiftZ. revert d. induction l as [|x l IH]; intro d; [reflexivity|]. simpl map. rewrite !last_cons. apply IH. Qed.

Lemma dump_ends_shift c mids P : dump_ends (shiftZ c mids) P = shiftZ c (dump_ends mids P).
Proof. unfold dump_ends, shiftZ. rewrite !map_map. apply map_ext. intro m. lia. Qed.

Lemma spec_shift c ts vals ends P tr init greedy :
  spec_per_dump (shiftZ c ts) vals (shiftZ c ends) P tr init greedy = spec_per_dump ts vals ends P tr init greedy /\
  init_as_coded (shiftZ c ts) (shiftZ c ends) P init = init_as_coded ts ends P init.
Proof.
  destruct ends as [|e0 er]; [split; reflexivity|]. split.
  - unfold spec_per_dump. change (shiftZ c (e0 :: er)) with ((e0 + c) :: shiftZ c er).
    rewrite combine_shift. set (tv := combine ts (map (app_tr tr) vals)).
    change ((e0 + c) :: shiftZ c er) with (shiftZ c (e0 :: er)). rewrite last_shift.
    assert (Hst : start_value (map (fun p => (fst p + c, snd p)) tv) init (last (e0 :: er) e0 + c) =
                  start_value tv init (last (e0 :: er) e0)).
    { unfold start_value. destruct init; [reflexivity|]. rewrite (sel_shift c (fun t => t <=? last (e0 :: er) e0)); [reflexivity|].
      intro t. lia. }
    rewrite Hst. destruct (start_value tv init (last (e0 :: er) e0)) as [st|]; [|reflexivity]. f_equal.
    assert (Hpairs : combine ((e0 + c - P) :: shiftZ c (e0 :: er)) (shiftZ c (e0 :: er)) =
                     map (fun p => (fst p + c, snd p + c)) (combine ((e0 - P) :: e0 :: er) (e0 :: er))).
    { replace (e0 + c - P) with (e0 - P + c) by lia. change ((e0 - P + c) :: shiftZ c (e0 :: er)) with (shiftZ c ((e0 - P) :: e0 :: er)).
      generalize ((e0 - P) :: e0 :: er). generalize (e0 :: er). unfold shiftZ.
      induction l as [|y l IH]; intros [|x a]; simpl; try reflexivity. rewrite IH. reflexivity. }
    change (shiftZ c (e0 :: er)) with ((e0 + c) :: shiftZ c er) at 1. cbn [hd]. 
    change ((e0 + c) :: shiftZ c er) with (shiftZ c (e0 :: er)).
    rewrite Hpairs, map_map. apply map_ext. intros [lo hi]. unfold dump_value. cbn [fst snd].
    rewrite (sel_shift c (fun t => t <=? lo)) by (intro t; lia).
    rewrite (sel_shift c (fun t => (lo <? t) && (t <=? hi))) by (intro t; lia). reflexivity.
  - change (shiftZ c (e0 :: er)) with ((e0 + c) :: shiftZ c er). unfold init_as_coded.
    rewrite (existsb_shift c (fun t => t <=? e0 - P)) by (intro t; lia).
    rewrite (existsb_shift c (fun t => (e0 - P <? t) && (t <=? e0))) by (intro t; lia). reflexivity.
Qed.

Lemma ssorted_shift c l : ssorted l -> ssorted (shiftZ c l).
Proof.
  unfold shiftZ. induction l as [|x l IH]; [auto|]. intros [Hf Hs]. simpl. split; [|apply IH; exact Hs].
  apply Forall_map. eapply Forall_impl; [|exact Hf]. simpl. intros. lia.
Qed.
Lemma nondecrZ_shift c l : forall x, nondecrZ x l -> nondecrZ (x + c) (shiftZ c l).
Proof. unfold shiftZ. induction l as [|y l IH]; intros x H; [exact Logic.I|]. destruct H as [H1 H2]. simpl. split; [lia|apply IH; exact H2]. Qed.

Lemma domain_shift c ts vals mids P : c10_domain ts vals mids P -> c10_domain (shiftZ c ts) vals (shiftZ c mids) P.
Proof.
  intros [Hne [Hs [HP [Ht Hl]]]]. unfold c10_domain. repeat split.
  - destruct mids; [congruence|discriminate].
  - apply ssorted_shift. exact Hs.
  - exact HP.
  - unfold time_sorted in *. destruct ts as [|t r]; [exact Logic.I|]. simpl hd in *. apply (nondecrZ_shift c (t :: r) t Ht).
  - unfold shiftZ. rewrite map_length. exact Hl.
Qed.

Lemma src_time_shift c ts vals mids P tr init greedy ar : c10_domain ts vals mids P ->
  per_dump_src (shiftZ c ts) vals (shiftZ c mids) P tr init greedy ar = per_dump_src ts vals mids P tr init greedy ar.
Proof.
  intro D. rewrite (per_dump_src_coded _ _ _ _ _ _ _ _ (domain_shift c _ _ _ _ D)), (per_dump_src_coded _ _ _ _ _ _ _ _ D).
  unfold rule. rewrite dump_ends_shift.
  destruct (spec_shift c ts vals (dump_ends mids P) P tr init greedy) as [_ H2]. rewrite H2.
  destruct (spec_shift c ts vals (dump_ends mids P) P tr (init_as_coded ts (dump_ends mids P) P init) greedy) as [H1 _].
  rewrite H1. reflexivity.
Qed.

Example ex_time_shift :
  per_dump_src (shiftZ 1000 [-5; 1; 2; 4; 9]) [2; 3; 1; 4; 2] (shiftZ 1000 [-1; 1; 3]) 2 None (Some 5) [3] None = Ok [2; 3; 4] /\
  (* shifting only the sensor times is NOT harmless *)
  per_dump_src (shiftZ 2 [-5; 1; 2; 4; 9]) [2; 3; 1; 4; 2] [-1; 1; 3] 2 None (Some 5) [3] None = Ok [2; 2; 3].
Proof. vm_compute. split; reflexivity. Qed.

Example ex_values_closed :
  per_dump_src [1; 3] [1; 2] [-1; 1; 3] 2 (Some [(2, 7)]) (Some 5) [] None = Ok [5; 1; 7].
Proof. vm_compute. reflexivity. Qed.
