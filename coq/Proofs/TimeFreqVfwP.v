(* C17 (extension): vis / flags / weights of a preselected data set = those of the whole data set at the shifted
   positions, for every chunking, every set of absent chunks and every preselected window (via the C06 theorems). *)
From Coq Require Import ZArith List Bool Lia.
From KV Require Import Base.Sx Base.Str Gen.Generated Model.Prune Model.LostMap Model.TimeFreqPre Model.TimeFreqVfw
                       Proofs.PruneP Proofs.LostMapP Proofs.LostMapNdP Proofs.C06P Proofs.TimeFreqPreP.
Import ListNotations.
Open Scope Z_scope.

Lemma nd_with_win c w : nd (with_win c w) = nd c.
Proof. reflexivity. Qed.
Lemma arr_chunks_with_win c w a : arr_chunks (with_win c w) a = arr_chunks c a.
Proof. reflexivity. Qed.

Lemma pad_win_nil n : pad_win [] n = repeat None n.
Proof. unfold pad_win. cbn [app]. rewrite <- (repeat_length (@None (Z * Z)) n) at 1. apply firstn_all. Qed.

Lemma gmap_none : forall n p, (length p <= n)%nat -> gmap (repeat None n) p = p.
Proof.
  unfold gmap. induction n as [|n IH]; intros p H.
  - destruct p; [reflexivity|simpl in H; lia].
  - destruct p as [|x p]; [reflexivity|]. cbn [repeat combine map fst snd wlo]. f_equal. apply IH. simpl in H. lia.
Qed.

Lemma gmap_length : forall ws p, length ws = length p -> length (gmap ws p) = length p.
Proof. intros ws p H. unfold gmap. rewrite map_length, combine_length. lia. Qed.

(* an element of the window is an element of the whole axis *)
Lemma axes_ok_whole : forall chs ws p, axes_ok chs ws p -> axes_ok chs (repeat None (length ws)) (gmap ws p).
Proof.
  unfold gmap. induction chs as [|cs chs IH]; intros ws p OK; [exact Logic.I|].
  destruct ws as [|w ws]; [simpl in OK; contradiction|]. destruct p as [|x p]; [simpl in OK; contradiction|].
  cbn [axes_ok] in OK. destruct OK as (P & W & Hx & OK).
  cbn [length repeat combine map fst snd axes_ok]. split; [exact P|]. split; [exact Logic.I|]. split.
  - unfold wsize, wlo, win_ok in *. destruct w as [[lo hi]|]; lia.
  - apply IH. exact OK.
Qed.

Lemma gpos_gmap c q : length q = nd c -> gpos c q = gmap (pad_win (c_win c) (nd c)) q.
Proof. intros H. unfold gpos, gmap. rewrite H. reflexivity. Qed.

Lemma arr_ok_whole c w a q : length q = nd c -> arr_ok (with_win c w) a q ->
  arr_ok (whole c) a (gpos (with_win c w) q).
Proof.
  intros HL (A & B & C). unfold arr_ok, whole. rewrite !nd_with_win, !arr_chunks_with_win in *.
  split; [exact A|]. split; [|exact C].
  cbn [c_win with_win] in *. rewrite pad_win_nil.
  rewrite (gpos_gmap (with_win c w) q) by (rewrite nd_with_win; exact HL). cbn [c_win with_win]. rewrite nd_with_win.
  rewrite <- (pad_win_length w (nd c)) at 1. apply axes_ok_whole. exact B.
Qed.

Lemma cfg_ok_whole c w q : cfg_ok (with_win c w) q -> cfg_ok (whole c) (gpos (with_win c w) q).
Proof.
  intros (HL & V & F & W & WC). rewrite nd_with_win in HL.
  split; [|split; [|split; [|split]]; apply arr_ok_whole; assumption].
  unfold whole. rewrite nd_with_win, (gpos_gmap (with_win c w) q) by (rewrite nd_with_win; exact HL).
  rewrite gmap_length; [exact HL|]. rewrite pad_win_length, nd_with_win. symmetry. exact HL.
Qed.

(* the stored element (and the stored chunk) behind element q of the window is the one behind the shifted position
   of the whole data set *)
Lemma abs_own c w a q : length q = nd c -> (length (arr_chunks c a) <= nd c)%nat ->
  gpos (whole c) (own (whole c) a (gpos (with_win c w) q)) = gpos (with_win c w) (own (with_win c w) a q).
Proof.
  intros HL HA.
  assert (LQ : length (gpos (with_win c w) q) = nd c).
  { rewrite (gpos_gmap (with_win c w) q) by (rewrite nd_with_win; exact HL).
    rewrite gmap_length; [exact HL|]. rewrite pad_win_length, nd_with_win. symmetry. exact HL. }
  rewrite (gpos_own (whole c) a) by (unfold whole; rewrite ?nd_with_win, ?arr_chunks_with_win; assumption).
  rewrite (gpos_own (with_win c w) a q) by (rewrite ?nd_with_win, ?arr_chunks_with_win; assumption).
  unfold whole. rewrite !nd_with_win, !arr_chunks_with_win. cbn [c_win with_win].
  rewrite pad_win_nil, gmap_none by lia.
  rewrite (gpos_gmap (with_win c w) q) by (rewrite nd_with_win; exact HL). reflexivity.
Qed.

Lemma lost_stored_abs c w a q : length q = nd c -> (length (arr_chunks c a) <= nd c)%nat ->
  lost_in (whole c) a (gpos (with_win c w) q) = lost_in (with_win c w) a q /\
  stored (whole c) a (gpos (with_win c w) q) = stored (with_win c w) a q.
Proof.
  intros HL HA. unfold lost_in, stored. rewrite (abs_own c w a q HL HA). split; reflexivity.
Qed.

(* MAIN: preselected = whole at the shifted position, for vis, weights and flags *)
Lemma preselect_vfw c w q : cfg_ok (with_win c w) q ->
  cfg_ok (whole c) (gpos (with_win c w) q) /\
  model_vis (with_win c w) q = model_vis (whole c) (gpos (with_win c w) q) /\
  model_weights (with_win c w) q = model_weights (whole c) (gpos (with_win c w) q) /\
  model_flags (with_win c w) q = model_flags (whole c) (gpos (with_win c w) q).
Proof.
  intros OK. pose proof (cfg_ok_whole c w q OK) as OK0. split; [exact OK0|].
  rewrite (vis_model_is_spec _ _ OK), (vis_model_is_spec _ _ OK0).
  rewrite (weights_model_is_spec _ _ OK), (weights_model_is_spec _ _ OK0).
  rewrite (flags_model_is_spec _ _ OK), (flags_model_is_spec _ _ OK0).
  destruct OK as (HL & (AV & _) & (AF & _) & (AW & _) & (AC & _)).
  rewrite nd_with_win in HL. rewrite !nd_with_win, !arr_chunks_with_win in *.
  destruct (lost_stored_abs c w A_VIS q HL AV) as [LV SV].
  destruct (lost_stored_abs c w A_FLAGS q HL AF) as [LF SF].
  destruct (lost_stored_abs c w A_W q HL AW) as [LW SW].
  destruct (lost_stored_abs c w A_WC q HL AC) as [LC SC].
  unfold spec_vis, spec_weights, spec_flags. rewrite LV, SV, LF, SF, LW, SW, LC, SC. repeat split; reflexivity.
Qed.

(* with the index TelstateDataSource builds: dumps a:b and channels c0:d preselected -> element (i, j, k) of the
   preselected data set is element (a + i, c0 + j, k) of the whole one *)
Lemma abs_pos_3d c a b c0 d i j k :
  gpos (with_win c [Some (a, b); Some (c0, d)]) [i; j; k] = [a + i; c0 + j; k].
Proof. reflexivity. Qed.
Lemma abs_pos_dumps_only c a b i j k : gpos (with_win c [Some (a, b); None]) [i; j; k] = [a + i; j; k].
Proof. reflexivity. Qed.
Lemma abs_pos_chans_only c c0 d i j k : gpos (with_win c [None; Some (c0, d)]) [i; j; k] = [i; c0 + j; k].
Proof. reflexivity. Qed.

(* the example store of C06 (3 x 4 x 2, four different chunkings, one vis chunk and one weights_channel chunk absent),
   dumps 1:3 preselected: a lost element and a present one, both equal to the whole data set at dump + 1 *)
Example nonvacuous_vfw :
  cfg_ok (with_win ex_cfg [Some (1, 3)]) [1; 2; 1] /\
  gpos (with_win ex_cfg [Some (1, 3)]) [1; 2; 1] = [2; 2; 1] /\
  model_vis (with_win ex_cfg [Some (1, 3)]) [0; 2; 1] <> 0 /\
  model_vis (with_win ex_cfg [Some (1, 3)]) [0; 2; 1] <> model_vis (whole ex_cfg) [0; 2; 1].
Proof. split; [exact ex_cfg_ok|]. split; [reflexivity|]. split; vm_compute; discriminate. Qed.
