(* C07: generate_chunks at the level of its public arguments (Model/ChunksGenPy.v) refines the greedy split of
   Model/Chunks.v on the nominated axes and the merged limits; all clauses of the chunking spec follow, read the NumPy
   way (negative axis numbers), for ALL argument combinations. *)
From Coq Require Import ZArith List Bool Lia ZifyBool.
From KV Require Import Base.Sx Gen.Generated Model.Chunks Model.ChunksGenPy Proofs.ChunksGenP.
Import ListNotations. Open Scope Z_scope.

(* ------------------------------------------------------------------------------------------------ *)
(* the generated decision expressions, as the facts the proofs need (they break if the source changes them)           *)

Lemma norm_axis_eq : forall N i, cs_gc_norm_axis N i = if (- N <=? i) && (i <? 0) then i + N else i.
Proof. reflexivity. Qed.
Lemma merge_limit_eq : forall a b, cs_gc_merge_limit a b = Z.min a b.
Proof. reflexivity. Qed.
Lemma cap_applies_eq : forall m s, cs_gc_cap_applies m s = (m <? s).
Proof. reflexivity. Qed.
Lemma budget_met_eq : forall c mn, cs_gc_budget_met c mn = (c <=? mn).
Proof. reflexivity. Qed.
Lemma trg_small_eq : forall n dn, cs_gc_trg_small n dn = (n <? dn).
Proof. intros. unfold cs_gc_trg_small. rewrite Z.mul_1_l. reflexivity. Qed.
Lemma rounding_eq : cs_gc_pieces_ceil = true /\ cs_gc_trg_ceil = false.
Proof. split; reflexivity. Qed.

Lemma target_py_eq : forall shape de mn md pow2 k, target_py shape de mn md pow2 k = target shape de mn md pow2 k.
Proof.
  intros. unfold target_py, target. rewrite trg_small_eq.
  destruct rounding_eq as [-> ->]. reflexivity.
Qed.

(* ------------------------------------------------------------------------------------------------ *)
(* axis numbers                                                                                        *)

Definition normalised (n : nat) (i : Z) : Prop := ~ (- Z.of_nat n <= i < 0).

Lemma norm_axis_normalised : forall n i, normalised n (cs_gc_norm_axis (Z.of_nat n) i).
Proof.
  intros n i. unfold normalised. rewrite norm_axis_eq.
  destruct ((- Z.of_nat n <=? i) && (i <? 0)) eqn:E; lia.
Qed.

Lemma norm_axis_fix : forall n i, normalised n i -> cs_gc_norm_axis (Z.of_nat n) i = i.
Proof.
  intros n i H. unfold normalised in H. rewrite norm_axis_eq.
  destruct ((- Z.of_nat n <=? i) && (i <? 0)) eqn:E; [lia | reflexivity].
Qed.

Lemma norm_axis_idem : forall n i,
  cs_gc_norm_axis (Z.of_nat n) (cs_gc_norm_axis (Z.of_nat n) i) = cs_gc_norm_axis (Z.of_nat n) i.
Proof. intros. apply norm_axis_fix, norm_axis_normalised. Qed.

Lemma py_index_pos : forall n i, 0 <= i < Z.of_nat n -> py_index n i = Some (Z.to_nat i).
Proof. intros n i H. unfold py_index. destruct ((0 <=? i) && (i <? Z.of_nat n)) eqn:E; [reflexivity | lia]. Qed.
Lemma py_index_neg : forall n i, - Z.of_nat n <= i < 0 -> py_index n i = Some (Z.to_nat (i + Z.of_nat n)).
Proof.
  intros n i H. unfold py_index. destruct ((0 <=? i) && (i <? Z.of_nat n)) eqn:E; [lia|].
  destruct ((- Z.of_nat n <=? i) && (i <? 0)) eqn:E2; [reflexivity | lia].
Qed.
Lemma py_index_out : forall n i, ~ (- Z.of_nat n <= i < Z.of_nat n) -> py_index n i = None.
Proof.
  intros n i H. unfold py_index. destruct ((0 <=? i) && (i <? Z.of_nat n)) eqn:E; [lia|].
  destruct ((- Z.of_nat n <=? i) && (i <? 0)) eqn:E2; [lia | reflexivity].
Qed.

Lemma py_index_norm : forall n i, py_index n (cs_gc_norm_axis (Z.of_nat n) i) = py_index n i.
Proof.
  intros n i. rewrite norm_axis_eq.
  destruct ((- Z.of_nat n <=? i) && (i <? 0)) eqn:E; [| reflexivity].
  rewrite py_index_pos by lia. rewrite py_index_neg by lia. reflexivity.
Qed.

Lemma py_index_lt : forall n i k, py_index n i = Some k -> (k < n)%nat.
Proof.
  intros n i k H. unfold py_index in H.
  destruct ((0 <=? i) && (i <? Z.of_nat n)) eqn:E1; [injection H as <-; lia|].
  destruct ((- Z.of_nat n <=? i) && (i <? 0)) eqn:E2; [injection H as <-; lia | discriminate].
Qed.

Lemma py_index_normalised : forall n i k, normalised n i -> py_index n i = Some k -> i = Z.of_nat k.
Proof.
  intros n i k Hn H. unfold normalised in Hn. unfold py_index in H.
  destruct ((0 <=? i) && (i <? Z.of_nat n)) eqn:E1; [injection H as <-; lia|].
  destruct ((- Z.of_nat n <=? i) && (i <? 0)) eqn:E2; [lia | discriminate].
Qed.

Lemma py_index_of_nat : forall n k, (k < n)%nat -> py_index n (Z.of_nat k) = Some k.
Proof.
  intros n k H. unfold py_index.
  destruct ((0 <=? Z.of_nat k) && (Z.of_nat k <? Z.of_nat n)) eqn:E; [| lia].
  rewrite Nat2Z.id. reflexivity.
Qed.

Lemma nominated_norm : forall n dims, nominated n (norm_dims n dims) = nominated n dims.
Proof.
  intros n dims. unfold nominated, norm_dims. induction dims as [|i t IH]; [reflexivity|].
  cbn [map flat_map]. rewrite py_index_norm, IH. reflexivity.
Qed.

Lemma nominated_default : forall n, nominated n (default_dims n) = seq 0 n.
Proof.
  intros n. unfold nominated, default_dims.
  assert (G : forall a len, (a + len <= n)%nat ->
            flat_map (fun i => match py_index n i with Some k => [k] | None => [] end) (map Z.of_nat (seq a len)) = seq a len).
  { intros a len. revert a. induction len as [|len IH]; intros a H; [reflexivity|].
    cbn [seq map flat_map]. rewrite py_index_of_nat by lia. rewrite IH by lia. reflexivity. }
  apply G. lia.
Qed.

Lemma nominated_lt : forall n dims k, In k (nominated n dims) -> (k < n)%nat.
Proof.
  intros n dims k H. unfold nominated in H. apply in_flat_map in H. destruct H as [i [_ H]].
  destruct (py_index n i) eqn:E; [| contradiction]. destruct H as [<- | []]. eapply py_index_lt; eassumption.
Qed.

Lemma norm_dims_normalised : forall n dims, Forall (normalised n) (norm_dims n dims).
Proof. intros. unfold norm_dims. apply Forall_forall. intros x H. apply in_map_iff in H. destruct H as [i [<- _]]. apply norm_axis_normalised. Qed.

(* ------------------------------------------------------------------------------------------------ *)
(* the merged limits                                                                                   *)

Lemma lookupZ_dict_set : forall k k' v m, lookupZ k (dict_set k' v m) = if k =? k' then Some v else lookupZ k m.
Proof.
  intros k k' v m. induction m as [|[a b] t IH]; cbn [dict_set lookupZ].
  - destruct (k =? k'); reflexivity.
  - destruct (k' =? a) eqn:E; cbn [lookupZ].
    + assert (k' = a) by lia. subst a. destruct (k =? k'); reflexivity.
    + rewrite IH. destruct (k =? a) eqn:E2; [| reflexivity].
      destruct (k =? k') eqn:E3; [lia | reflexivity].
Qed.

Lemma norm_limits_snoc : forall n l kv, norm_limits n (l ++ [kv]) = norm_limits_step n (norm_limits n l) kv.
Proof. intros. unfold norm_limits. rewrite fold_left_app. reflexivity. Qed.

(* lookup in the merged limits: None iff no key names k; otherwise the minimum of the values whose key names k *)
Lemma norm_limits_spec : forall n mde k,
  match lookupZ k (norm_limits n mde) with
  | None => forall key v, In (key, v) mde -> cs_gc_norm_axis (Z.of_nat n) key <> k
  | Some m => (exists key, In (key, m) mde /\ cs_gc_norm_axis (Z.of_nat n) key = k)
              /\ forall key v, In (key, v) mde -> cs_gc_norm_axis (Z.of_nat n) key = k -> m <= v
  end.
Proof.
  intros n mde k. induction mde as [|[key0 v0] l IH] using rev_ind.
  - cbn. intros key v [].
  - rewrite norm_limits_snoc. unfold norm_limits_step. cbn [fst snd].
    set (k0 := cs_gc_norm_axis (Z.of_nat n) key0) in *.
    rewrite lookupZ_dict_set. rewrite merge_limit_eq.
    destruct (k =? k0) eqn:E.
    + assert (k = k0) by lia. subst k.
      destruct (lookupZ k0 (norm_limits n l)) as [old|] eqn:L.
      * destruct IH as [[key1 [I1 N1]] IH2].
        split.
        -- destruct (Z.min_spec v0 old) as [[_ ->] | [_ ->]].
           ++ exists key0. split; [apply in_or_app; right; left; reflexivity | reflexivity].
           ++ exists key1. split; [apply in_or_app; left; assumption | assumption].
        -- intros key v H N. apply in_app_or in H. destruct H as [H | [H | []]].
           ++ specialize (IH2 key v H N). lia.
           ++ injection H as <- <-. lia.
      * split.
        -- exists key0. rewrite Z.min_id. split; [apply in_or_app; right; left; reflexivity | reflexivity].
        -- intros key v H N. apply in_app_or in H. destruct H as [H | [H | []]].
           ++ exfalso. exact (IH key v H N).
           ++ injection H as <- <-. lia.
    + assert (k <> k0) by lia.
      destruct (lookupZ k (norm_limits n l)) as [m|] eqn:L.
      * destruct IH as [[key1 [I1 N1]] IH2]. split.
        -- exists key1. split; [apply in_or_app; left; assumption | assumption].
        -- intros key v Hin N. apply in_app_or in Hin. destruct Hin as [Hin | [Hin | []]].
           ++ apply (IH2 key v Hin N).
           ++ injection Hin as <- <-. subst k0. congruence.
      * intros key v Hin. apply in_app_or in Hin. destruct Hin as [Hin | [Hin | []]].
        -- apply (IH key v Hin).
        -- injection Hin as <- <-. subst k0. congruence.
Qed.

(* the limits as the map  axis -> limit  of Model/Chunks.v *)
Definition lim_nat (n : nat) (lim : list (Z * Z)) : list (nat * Z) :=
  flat_map (fun k => match lookupZ (Z.of_nat k) lim with Some v => [(k, v)] | None => [] end) (seq 0 n).

Lemma lookup_lim_nat_gen : forall lim a len k,
  lookup_nat k (flat_map (fun k => match lookupZ (Z.of_nat k) lim with Some v => [(k, v)] | None => [] end) (seq a len))
  = if (Nat.leb a k && Nat.ltb k (a + len))%bool then lookupZ (Z.of_nat k) lim else None.
Proof.
  intros lim a len. revert a. induction len as [|len IH]; intros a k.
  - cbn [seq flat_map lookup_nat]. destruct (Nat.leb a k && Nat.ltb k (a + 0))%bool eqn:E; [lia | reflexivity].
  - cbn [seq flat_map]. destruct (lookupZ (Z.of_nat a) lim) as [v|] eqn:L.
    + cbn [app lookup_nat]. destruct (Nat.eqb k a) eqn:E.
      * apply Nat.eqb_eq in E. subst a.
        destruct (Nat.leb k k && Nat.ltb k (k + S len))%bool eqn:E2; [congruence | lia].
      * apply Nat.eqb_neq in E. rewrite IH.
        destruct (Nat.leb (S a) k && Nat.ltb k (S a + len))%bool eqn:E1;
          destruct (Nat.leb a k && Nat.ltb k (a + S len))%bool eqn:E2; try reflexivity; lia.
    + cbn [app]. rewrite IH.
      destruct (Nat.eq_dec k a) as [-> | Hne].
      * destruct (Nat.leb (S a) a && Nat.ltb a (S a + len))%bool eqn:E1; [lia|].
        destruct (Nat.leb a a && Nat.ltb a (a + S len))%bool eqn:E2; [congruence | reflexivity].
      * destruct (Nat.leb (S a) k && Nat.ltb k (S a + len))%bool eqn:E1;
          destruct (Nat.leb a k && Nat.ltb k (a + S len))%bool eqn:E2; try reflexivity; lia.
Qed.

Lemma lookup_lim_nat : forall n lim k, (k < n)%nat -> lookup_nat k (lim_nat n lim) = lookupZ (Z.of_nat k) lim.
Proof.
  intros n lim k H. unfold lim_nat. rewrite lookup_lim_nat_gen.
  destruct (Nat.leb 0 k && Nat.ltb k (0 + n))%bool eqn:E; [reflexivity | lia].
Qed.

Lemma lookup_lim_nat_some : forall n lim k m, lookup_nat k (lim_nat n lim) = Some m -> lookupZ (Z.of_nat k) lim = Some m.
Proof.
  intros n lim k m H. unfold lim_nat in H. rewrite lookup_lim_nat_gen in H.
  destruct (Nat.leb 0 k && Nat.ltb k (0 + n))%bool; [assumption | discriminate].
Qed.

(* ------------------------------------------------------------------------------------------------ *)
(* the two loops refine the loops of Model/Chunks.v on the nominated axes                              *)

Section Loops.
Variables (shape : list Z) (mn md : Z) (pow2 : bool) (lim : list (Z * Z)).
Local Notation n := (List.length shape).
Local Notation limn := (lim_nat (List.length shape) lim).

Lemma cap_fold_err : forall dims e, fold_left (cap_step_py shape pow2 lim) dims (Err e) = Err e.
Proof. induction dims; intros; [reflexivity | apply IHdims]. Qed.

Lemma cap_step_py_cases : forall de i,
  normalised n i ->
  match py_index n i with
  | Some k => cap_step_py shape pow2 lim (Ok de) i = Ok (cap_step shape pow2 limn de k)
  | None => cap_step_py shape pow2 lim (Ok de) i = Ok de \/
            (cap_step_py shape pow2 lim (Ok de) i = Err EIndex /\ lookupZ i lim <> None)
  end.
Proof.
  intros de i Hn. unfold cap_step_py, cap_step.
  destruct (py_index n i) as [k|] eqn:P.
  - pose proof (py_index_lt _ _ _ P) as Hk. pose proof (py_index_normalised _ _ _ Hn P) as ->.
    rewrite lookup_lim_nat by assumption.
    destruct (lookupZ (Z.of_nat k) lim) as [m|]; [| reflexivity].
    rewrite cap_applies_eq. destruct (m <? nth k shape 0); reflexivity.
  - destruct (lookupZ i lim); [right; split; [reflexivity | discriminate] | left; reflexivity].
Qed.

Lemma cap_loop_refines : forall dims de r,
  Forall (normalised n) dims ->
  fold_left (cap_step_py shape pow2 lim) dims (Ok de) = Ok r ->
  r = fold_left (cap_step shape pow2 limn) (nominated n dims) de.
Proof.
  induction dims as [|i t IH]; intros de r Hn H.
  - cbn in H. injection H as <-. reflexivity.
  - inversion Hn as [|? ? Hi Ht]; subst. cbn [fold_left] in H.
    pose proof (cap_step_py_cases de i Hi) as C. unfold nominated. cbn [flat_map]. fold (nominated n t).
    destruct (py_index n i) as [k|].
    + rewrite C in H. cbn [app fold_left]. apply IH; assumption.
    + destruct C as [C | [C _]]; rewrite C in H.
      * cbn [app]. apply IH; assumption.
      * rewrite cap_fold_err in H. discriminate.
Qed.

Lemma cap_loop_total : forall dims de,
  Forall (fun i => normalised n i /\ py_index n i <> None) dims ->
  exists r, fold_left (cap_step_py shape pow2 lim) dims (Ok de) = Ok r.
Proof.
  induction dims as [|i t IH]; intros de H.
  - exists de. reflexivity.
  - inversion H as [|? ? [Hi Hp] Ht]; subst. cbn [fold_left].
    pose proof (cap_step_py_cases de i Hi) as C.
    destruct (py_index n i) as [k|]; [| congruence].
    rewrite C. apply IH. assumption.
Qed.

Lemma cap_loop_err : forall dims de e, fold_left (cap_step_py shape pow2 lim) dims (Ok de) = Err e -> e = EIndex.
Proof.
  induction dims as [|i t IH]; intros de e H; [discriminate|].
  cbn [fold_left] in H.
  destruct (cap_step_py shape pow2 lim (Ok de) i) as [de'|e'] eqn:S.
  - eapply IH; eassumption.
  - rewrite cap_fold_err in H. injection H as <-.
    unfold cap_step_py in S. destruct (lookupZ i lim); [| discriminate].
    destruct (py_index n i); [| congruence]. destruct (cs_gc_cap_applies _ _); discriminate.
Qed.

Lemma cap_fold_length : forall l de, length (fold_left (cap_step shape pow2 limn) l de) = length de.
Proof.
  induction l as [|k t IH]; intros de; [reflexivity|]. cbn [fold_left]. rewrite IH.
  unfold cap_step. destruct (lookup_nat k limn); [| reflexivity].
  destruct (_ <? _); [apply set_nth_length | reflexivity].
Qed.

Lemma split_stop' : forall l de, prodZ de * md <= mn -> split_loop shape de mn md pow2 l = de.
Proof.
  intros l de H. destruct l; [reflexivity|]. cbn [split_loop].
  destruct (prodZ de * md <=? mn) eqn:E; [reflexivity | lia].
Qed.

Lemma split_loop_refines : forall dims de r,
  length de = n ->
  split_loop_py shape de mn md pow2 dims = Ok r ->
  r = split_loop shape de mn md pow2 (nominated n dims).
Proof.
  induction dims as [|d t IH]; intros de r Hl H.
  - cbn in H. injection H as <-. reflexivity.
  - cbn [split_loop_py] in H. rewrite budget_met_eq in H.
    unfold nominated. cbn [flat_map]. fold (nominated n t).
    destruct (prodZ de * md <=? mn) eqn:E.
    + injection H as <-. symmetry. apply split_stop'. lia.
    + rewrite Hl in H. destruct (py_index n d) as [k|]; [| discriminate].
      cbn [app split_loop]. rewrite E. rewrite target_py_eq in H.
      apply IH; [rewrite set_nth_length; assumption | assumption].
Qed.

Lemma split_loop_total : forall dims de,
  length de = n -> Forall (fun i => py_index n i <> None) dims ->
  exists r, split_loop_py shape de mn md pow2 dims = Ok r.
Proof.
  induction dims as [|d t IH]; intros de Hl H.
  - exists de. reflexivity.
  - inversion H as [|? ? Hp Ht]; subst. cbn [split_loop_py].
    destruct (cs_gc_budget_met _ _); [exists de; reflexivity|].
    rewrite Hl. destruct (py_index n d) as [k|]; [| congruence].
    apply IH; [rewrite set_nth_length; assumption | assumption].
Qed.

Lemma split_loop_err : forall dims de e, split_loop_py shape de mn md pow2 dims = Err e -> e = EIndex.
Proof.
  induction dims as [|d t IH]; intros de e H; [discriminate|].
  cbn [split_loop_py] in H. destruct (cs_gc_budget_met _ _); [discriminate|].
  destruct (py_index (length de) d); [eapply IH; eassumption | congruence].
Qed.

End Loops.

(* ------------------------------------------------------------------------------------------------ *)
(* refinement of the whole function                                                                    *)

Definition dims0_of (n : nat) (dims : option (list Z)) : list Z := match dims with None => default_dims n | Some l => l end.
Definition mde0_of (mde : option (list (Z * Z))) : list (Z * Z) := match mde with None => [] | Some m => m end.
Definition limits_of (shape : list Z) (mde : option (list (Z * Z))) : list (nat * Z) :=
  lim_nat (List.length shape) (norm_limits (List.length shape) (mde0_of mde)).

Lemma effective_nominated : forall n dims, nominated n (norm_dims n (dims0_of n dims)) = effective_dims n dims.
Proof.
  intros n [l|]; cbn [dims0_of effective_dims]; rewrite nominated_norm; [reflexivity | apply nominated_default].
Qed.

(* whenever generate_chunks returns, it returns what the greedy split of Model/Chunks.v gives on the nominated axes
   (NumPy reading of negative numbers; entries naming no axis nominate nothing) with the merged limits *)
Lemma gen_py_refines : forall shape mn md dims pow2 mde out,
  gen_chunks_py shape mn md dims pow2 mde = Ok out ->
  out = generate_chunks shape mn md (effective_dims (List.length shape) dims) pow2 (limits_of shape mde).
Proof.
  intros shape mn md dims pow2 mde out H. unfold gen_chunks_py in H.
  fold (dims0_of (length shape) dims) in H. fold (mde0_of mde) in H.
  set (n := length shape) in *. set (dims1 := norm_dims n (dims0_of n dims)) in *.
  set (lim := norm_limits n (mde0_of mde)) in *.
  destruct (fold_left (cap_step_py shape pow2 lim) dims1 (Ok shape)) as [de0|e] eqn:C; [| discriminate].
  destruct (split_loop_py shape de0 mn md pow2 dims1) as [de|e] eqn:S; [| discriminate].
  injection H as <-.
  apply cap_loop_refines in C; [| apply norm_dims_normalised].
  apply split_loop_refines in S; [| subst de0; apply cap_fold_length].
  subst de. subst de0. subst dims1. subst lim. subst n.
  unfold generate_chunks, final_dim_elements, cap_dims, limits_of.
  rewrite <- (effective_nominated (length shape) dims). reflexivity.
Qed.

Lemma all_axes_valid_spec : forall n dims, all_axes_valid n dims = true ->
  Forall (fun i => normalised n i /\ py_index n i <> None) (norm_dims n (dims0_of n dims)).
Proof.
  intros n dims H. apply Forall_forall. intros x Hx. unfold norm_dims in Hx. apply in_map_iff in Hx.
  destruct Hx as [i [<- Hi]]. split; [apply norm_axis_normalised|]. rewrite py_index_norm.
  destruct dims as [l|]; cbn [dims0_of all_axes_valid] in *.
  - rewrite forallb_forall in H. specialize (H i Hi). destruct (py_index n i); [discriminate | discriminate H].
  - unfold default_dims in Hi. apply in_map_iff in Hi. destruct Hi as [k [<- Hk]]. apply in_seq in Hk.
    rewrite py_index_of_nat by lia. discriminate.
Qed.

(* totality: if every entry of dims_to_split names an axis (in -ndim .. ndim-1), generate_chunks returns *)
Lemma gen_py_total : forall shape mn md dims pow2 mde,
  all_axes_valid (List.length shape) dims = true ->
  exists out, gen_chunks_py shape mn md dims pow2 mde = Ok out.
Proof.
  intros shape mn md dims pow2 mde H. apply all_axes_valid_spec in H. unfold gen_chunks_py.
  fold (dims0_of (length shape) dims). fold (mde0_of mde).
  set (n := length shape) in *. set (dims1 := norm_dims n (dims0_of n dims)) in *.
  set (lim := norm_limits n (mde0_of mde)) in *.
  destruct (cap_loop_total shape pow2 lim dims1 shape H) as [de0 C]. rewrite C.
  pose proof C as C'. apply cap_loop_refines in C'; [| apply norm_dims_normalised].
  destruct (split_loop_total shape mn md pow2 dims1 de0) as [de S].
  - subst de0. apply cap_fold_length.
  - eapply Forall_impl; [| exact H]. intros a [_ Ha]. exact Ha.
  - rewrite S. eexists. reflexivity.
Qed.

(* the only failure is the IndexError of an entry of dims_to_split that names no axis *)
Lemma gen_py_err : forall shape mn md dims pow2 mde e,
  gen_chunks_py shape mn md dims pow2 mde = Err e ->
  e = EIndex /\ all_axes_valid (List.length shape) dims = false.
Proof.
  intros shape mn md dims pow2 mde e H. split.
  - unfold gen_chunks_py in H.
    destruct (fold_left _ _ _) as [de0|e0] eqn:C.
    + destruct (split_loop_py _ _ _ _ _ _) as [de|e1] eqn:S; [discriminate|]. injection H as <-.
      eapply split_loop_err; eassumption.
    + injection H as <-. eapply cap_loop_err; eassumption.
  - destruct (all_axes_valid (length shape) dims) eqn:V; [| reflexivity].
    destruct (gen_py_total shape mn md dims pow2 mde V) as [out E]. congruence.
Qed.

(* ------------------------------------------------------------------------------------------------ *)
(* the spec clauses                                                                                    *)

Lemma gc_domain_of_py : forall shape mn md dims mde,
  gc_domain_py shape mn md mde = true ->
  gc_domain shape mn md (effective_dims (List.length shape) dims) (limits_of shape mde) = true.
Proof.
  intros shape mn md dims mde H. unfold gc_domain_py in H. fold (mde0_of mde) in H.
  repeat rewrite andb_true_iff in H. destruct H as [[[H1 H2] H3] H4].
  unfold gc_domain. rewrite H1, H2, H3. cbn [andb]. apply andb_true_iff. split.
  - apply forallb_forall. intros k Hk. apply Nat.ltb_lt.
    destruct dims as [l|]; cbn [effective_dims] in Hk; [eapply nominated_lt; eassumption | apply in_seq in Hk; lia].
  - apply forallb_forall. intros [k v] Hkv. cbn [snd]. unfold limits_of, lim_nat in Hkv.
    apply in_flat_map in Hkv. destruct Hkv as [k' [_ Hkv]].
    destruct (lookupZ (Z.of_nat k') (norm_limits (length shape) (mde0_of mde))) as [m|] eqn:L; [| contradiction].
    destruct Hkv as [Hkv | []]. injection Hkv as -> ->.
    pose proof (norm_limits_spec (length shape) (mde0_of mde) (Z.of_nat k)) as S. rewrite L in S.
    destruct S as [[key [Hin _]] _]. rewrite forallb_forall in H4. specialize (H4 _ Hin). cbn [snd] in H4. lia.
Qed.

Section Clauses.
Variables (shape : list Z) (mn md : Z) (dims : option (list Z)) (pow2 : bool) (mde : option (list (Z * Z)))
          (out : list (list Z)).
Hypothesis Hdom : gc_domain_py shape mn md mde = true.
Hypothesis Hout : gen_chunks_py shape mn md dims pow2 mde = Ok out.
Local Notation n := (List.length shape).
Local Notation ed := (effective_dims (List.length shape) dims).

Lemma py_out : out = generate_chunks shape mn md ed pow2 (limits_of shape mde).
Proof. apply gen_py_refines; assumption. Qed.

Lemma py_tiles : tiles_ok shape out = true.
Proof. rewrite py_out. apply gc_tiles, gc_domain_of_py, Hdom. Qed.

Lemma py_pow2 : pow2_ok pow2 out = true.
Proof. rewrite py_out. eapply gc_pow2, gc_domain_of_py, Hdom. Qed.

Lemma py_budget : budget_ok mn md ed out = true.
Proof. rewrite py_out. apply gc_budget, gc_domain_of_py, Hdom. Qed.

Lemma py_unsplit : unsplit_ok ed out = true.
Proof. rewrite py_out. eapply gc_unsplit, gc_domain_of_py, Hdom. Qed.

Lemma py_caps : caps_ok_py n ed (mde0_of mde) out = true.
Proof.
  pose proof (gc_caps shape mn md ed pow2 (limits_of shape mde) (gc_domain_of_py _ _ _ dims _ Hdom)) as C.
  rewrite <- py_out in C. unfold caps_ok in C. rewrite forallb_forall in C.
  unfold caps_ok_py. apply forallb_forall. intros [key v] Hin. cbn [fst snd].
  destruct (py_index n key) as [k|] eqn:P; [| reflexivity].
  destruct (mem_nat k ed) eqn:M; [cbn [negb orb] | reflexivity].
  unfold mem_nat in M. apply existsb_exists in M. destruct M as [k' [Hk' E]]. apply Nat.eqb_eq in E. subst k'.
  specialize (C k Hk').
  pose proof (py_index_lt _ _ _ P) as Hlt.
  unfold limits_of in C. rewrite lookup_lim_nat in C by assumption.
  pose proof (norm_limits_spec n (mde0_of mde) (Z.of_nat k)) as S.
  assert (N : cs_gc_norm_axis (Z.of_nat n) key = Z.of_nat k).
  { apply (py_index_normalised (length shape)); [apply norm_axis_normalised | rewrite py_index_norm; assumption]. }
  destruct (lookupZ (Z.of_nat k) (norm_limits n (mde0_of mde))) as [m|].
  - destruct S as [_ S]. specialize (S key v Hin N).
    rewrite forallb_forall in C. apply forallb_forall. intros c Hc. specialize (C c Hc). lia.
  - exfalso. exact (S key v Hin N).
Qed.

Lemma py_chunks_ok : chunks_ok_py shape mn md dims pow2 mde out = true.
Proof.
  unfold chunks_ok_py. fold (mde0_of mde).
  rewrite py_tiles, py_caps, py_pow2, py_budget, py_unsplit. reflexivity.
Qed.

End Clauses.

(* ------------------------------------------------------------------------------------------------ *)
(* the result depends on WHICH axes are nominated / limited, not on how they are spelled               *)

Lemma norm_dims_idem : forall n dims, norm_dims n (norm_dims n dims) = norm_dims n dims.
Proof. intros. unfold norm_dims. rewrite map_map. apply map_ext. intros. apply norm_axis_idem. Qed.

Lemma norm_limits_respell_gen : forall n l acc,
  fold_left (norm_limits_step n) (map (fun kv => (cs_gc_norm_axis (Z.of_nat n) (fst kv), snd kv)) l) acc
  = fold_left (norm_limits_step n) l acc.
Proof.
  induction l as [|[k v] t IH]; intros acc; [reflexivity|]. cbn [map fold_left fst snd].
  rewrite IH. f_equal. unfold norm_limits_step. cbn [fst snd]. rewrite norm_axis_idem. reflexivity.
Qed.

Lemma gen_py_spelling : forall shape mn md dims pow2 mde,
  let n := List.length shape in
  gen_chunks_py shape mn md (Some (norm_dims n dims)) pow2
                (Some (map (fun kv => (cs_gc_norm_axis (Z.of_nat n) (fst kv), snd kv)) mde))
  = gen_chunks_py shape mn md (Some dims) pow2 (Some mde).
Proof.
  intros. unfold gen_chunks_py. fold n. rewrite norm_dims_idem. unfold norm_limits.
  rewrite norm_limits_respell_gen. reflexivity.
Qed.

Lemma gen_py_defaults : forall shape mn md pow2,
  gen_chunks_py shape mn md None pow2 None
  = gen_chunks_py shape mn md (Some (default_dims (List.length shape))) pow2 (Some []).
Proof. reflexivity. Qed.

(* two argument lists that nominate the same axes in the same order and carry the same limits give the same result,
   whenever both calls return *)
Lemma gen_py_same_axes : forall shape mn md d1 d2 pow2 mde o1 o2,
  effective_dims (List.length shape) d1 = effective_dims (List.length shape) d2 ->
  gen_chunks_py shape mn md d1 pow2 mde = Ok o1 -> gen_chunks_py shape mn md d2 pow2 mde = Ok o2 -> o1 = o2.
Proof.
  intros shape mn md d1 d2 pow2 mde o1 o2 E H1 H2.
  apply gen_py_refines in H1. apply gen_py_refines in H2. rewrite H1, H2, E. reflexivity.
Qed.
