(* C19: a concrete, non-trivial concatenation on which the hypotheses of every theorem are met (non-vacuity) and
   the operations visibly do something: three parts given out of time order, targets partly shared, a float sensor
   and a string sensor each present in two of the three parts. *)
From Coq Require Import ZArith List Bool Arith Lia Permutation.
From KV Require Import Base.Sx Model.Categorical Model.Concat Proofs.ConcatP.
From KV Require Model.SensorCache.
Import ListNotations.
Open Scope nat_scope.

Definition c1 (n : nat) : cdz := mk [0%Z] [0] [0; n].

(* third in time: targets 1 then 2; two scans *)
Definition ex_A : part :=
  mkPart 300 2 [800; 804; 808]%Z (c1 3) (c1 3) (mk [1; 2]%Z [0; 1] [0; 2; 3])
         (mk [0; 1]%Z [0; 1] [0; 1; 3]) (mk [1%Z] [0] [0; 3]) (mk [0; 1]%Z [0; 1] [0; 1; 3]) (c1 3)
         [(7%Z, SNum true [100; 101; 102]%Z)].
(* first in time: targets 2 then 3; three scans, two compound scans; a string sensor *)
Definition ex_B : part :=
  mkPart 100 2 [0; 4; 8; 12]%Z (c1 4) (c1 4) (mk [2; 3]%Z [0; 1] [0; 1; 4])
         (mk [1; 0]%Z [0; 1; 0] [0; 1; 3; 4]) (mk [1; 2]%Z [0; 1] [0; 3; 4]) (mk [0; 1; 2]%Z [0; 1; 2] [0; 1; 3; 4])
         (mk [0; 1]%Z [0; 1] [0; 3; 4])
         [(8%Z, SCat SensorCache.DStr (mk [5%Z] [0] [0; 4]))].
(* second in time: target 1 only; both sensors *)
Definition ex_C : part :=
  mkPart 200 2 [400; 404]%Z (c1 2) (c1 2) (mk [1%Z] [0] [0; 2])
         (mk [1%Z] [0] [0; 2]) (mk [2%Z] [0] [0; 2]) (c1 2) (c1 2)
         [(7%Z, SNum true [200; 201]%Z); (8%Z, SCat SensorCache.DStr (mk [0; 6]%Z [0; 1] [0; 1; 2]))].

Definition ex_input : list part := [ex_A; ex_B; ex_C].
Definition ex_sorted : list part := [ex_B; ex_C; ex_A].

Lemma ex_sort : sort_parts ex_input = Some ex_sorted.
Proof. reflexivity. Qed.

Ltac nodup := repeat (constructor; [cbn; intuition (try lia; try discriminate)|]); try constructor.
Ltac cdok := unfold cd_ok, WF, start0, ndumps, incr; cbn;
  repeat split; try lia; try discriminate; try reflexivity; try (repeat constructor; lia); try nodup.

Lemma ex_parts_ok : Forall part_ok ex_sorted.
Proof. repeat constructor; cdok. Qed.

Definition ex_m : merged :=
  match concat_open ex_input with COk m => m | CErr _ => mkMerged [] [] 0 [] [] [] end.

(* the example opens; the parts come in time order whatever the input order; catalogue in order of first appearance
   with target 2 (shared by the first and the last part) merged; scan / compscan indices run on; the target index of
   every dump refers to the merged catalogue; the default selection keeps everything *)
Lemma ex_open :
  concat_open ex_input = COk ex_m /\
  map p_start (m_parts ex_m) = [100; 200; 300]%Z /\ m_segs ex_m = [0; 4; 6; 9] /\
  m_ts ex_m = [0; 4; 8; 12; 400; 404; 800; 804; 808]%Z /\
  m_cat ex_m = [2; 3; 1]%Z /\ m_subs ex_m = [0%Z] /\
  option_map zexpand (m_tgt ex_m) = Some [2; 3; 3; 3; 1; 1; 1; 1; 2]%Z /\
  option_map zexpand (m_tgt_index ex_m) = Some [0; 1; 1; 1; 2; 2; 2; 2; 0]%Z /\
  option_map zexpand (m_scan ex_m) = Some [0; 1; 1; 2; 3; 3; 4; 5; 5]%Z /\
  option_map zexpand (m_cscan ex_m) = Some [0; 0; 0; 1; 2; 2; 3; 3; 3]%Z /\
  option_map zexpand (m_state ex_m) = Some [1; 0; 0; 1; 1; 1; 0; 1; 1]%Z /\
  option_map (fun c => ev c) (m_state ex_m) = Some [0; 1; 3; 4; 6; 7; 9] /\
  option_map (fun c => ev c) (m_tgt ex_m) = Some [0; 1; 4; 8; 9] /\
  m_keep0 ex_m = Some (repeat true 9).
Proof. vm_compute. repeat split; reflexivity. Qed.

(* sensors in subsets of the parts: NaN (-7777) resp. '' (0) where the part has no such sensor *)
Lemma ex_sensors :
  get_sensor (m_parts ex_m) 7 false = RNum [-7777; -7777; -7777; -7777; 200; 201; 100; 101; 102]%Z /\
  spec_sensor ex_sorted 7 = Some [-7777; -7777; -7777; -7777; 200; 201; 100; 101; 102]%Z /\
  (match get_sensor (m_parts ex_m) 8 false with RCat c => Some (zexpand c, ev c) | _ => None end)
    = Some ([5; 5; 5; 5; 0; 6; 0; 0; 0]%Z, [0; 4; 5; 6; 9]) /\
  spec_sensor ex_sorted 8 = Some [5; 5; 5; 5; 0; 6; 0; 0; 0]%Z /\
  get_sensor (m_parts ex_m) 9 false = RKeyError /\
  Forall (sens_ok 7) ex_sorted /\ Forall (sens_ok 8) ex_sorted.
Proof.
  split; [vm_compute; reflexivity|]. split; [vm_compute; reflexivity|]. split; [vm_compute; reflexivity|].
  split; [vm_compute; reflexivity|]. split; [vm_compute; reflexivity|].
  assert (X : forall name, Forall (sens_ok name) ex_sorted).
  { intro name. unfold ex_sorted.
    apply Forall_cons; [|apply Forall_cons; [|apply Forall_cons; [|apply Forall_nil]]];
      (split; [cbn; lia|]); intros dt c H; cbn in H;
      repeat match type of H with (if ?b then _ else _) = _ => destruct b end; try discriminate; inversion H; subst; cdok. }
  split; apply X.
Qed.

Lemma ex_order : Permutation ex_input [ex_C; ex_A; ex_B] /\ concat_open [ex_C; ex_A; ex_B] = COk ex_m.
Proof.
  split; [|vm_compute; reflexivity].
  apply perm_trans with [ex_A; ex_C; ex_B]; [apply perm_skip, perm_swap|apply perm_swap].
Qed.

Definition ex_slow : part :=
  mkPart 400 4 [1000; 1008]%Z (c1 2) (c1 2) (mk [1%Z] [0] [0; 2]) (mk [1%Z] [0] [0; 2]) (mk [2%Z] [0] [0; 2]) (c1 2) (c1 2) [].

Lemma ex_period : concat_open (ex_slow :: ex_input) = CErr EPeriod /\ concat_open [ex_A; ex_B; ex_A] = CErr ETie.
Proof. split; reflexivity. Qed.

Lemma ex_in_range : Forall (in_own_range p_scan) ex_sorted /\ Forall (in_own_range p_cscan) ex_sorted.
Proof. split; repeat constructor; cbn; lia. Qed.

Lemma ex_expand_all :
  sort_parts ex_input = Some ex_sorted /\ Forall part_ok ex_sorted /\ concat_open ex_input = COk ex_m /\
  map p_start (m_parts ex_m) = [100; 200; 300]%Z /\
  m_ts ex_m = [0; 4; 8; 12; 400; 404; 800; 804; 808]%Z /\
  m_cat ex_m = [2; 3; 1]%Z /\
  option_map zexpand (m_tgt ex_m) = Some [2; 3; 3; 3; 1; 1; 1; 1; 2]%Z /\
  option_map zexpand (m_tgt_index ex_m) = Some [0; 1; 1; 1; 2; 2; 2; 2; 0]%Z /\
  option_map zexpand (m_scan ex_m) = Some [0; 1; 1; 2; 3; 3; 4; 5; 5]%Z /\
  option_map zexpand (m_cscan ex_m) = Some [0; 0; 0; 1; 2; 2; 3; 3; 3]%Z /\
  get_sensor (m_parts ex_m) 7 false = RNum [-7777; -7777; -7777; -7777; 200; 201; 100; 101; 102]%Z /\
  (match get_sensor (m_parts ex_m) 8 false with RCat c => Some (zexpand c, ev c) | _ => None end)
    = Some ([5; 5; 5; 5; 0; 6; 0; 0; 0]%Z, [0; 4; 5; 6; 9]) /\
  get_sensor (m_parts ex_m) 9 false = RKeyError /\
  Forall (sens_ok 7) ex_sorted /\ Forall (sens_ok 8) ex_sorted.
Proof.
  destruct ex_open as (A & B & _ & D & E & _ & G & H & I & J & _).
  destruct ex_sensors as (S1 & _ & S3 & _ & S5 & S6 & S7).
  repeat (split; [first [exact ex_sort | exact ex_parts_ok | assumption]|]). assumption.
Qed.

Lemma ex_indices :
  Forall (in_own_range p_scan) ex_sorted /\ Forall (in_own_range p_cscan) ex_sorted /\
  running_lists p_scan ex_sorted 0 = [[0; 1; 1; 2]; [3; 3]; [4; 5; 5]]%Z /\
  running_lists p_cscan ex_sorted 0 = [[0; 0; 0; 1]; [2; 2]; [3; 3; 3]]%Z.
Proof. destruct ex_in_range as (A & B). repeat split; try assumption; reflexivity. Qed.

(* finding C19-F4 (repaired): an integer sensor of an unsigned 8-bit type (values 3, 200) held by the first of two parts
   only.  Before the repair ConcatenatedSensorCache.get raised where the property asks for the concatenation with dummy
   fill; now the second part is filled with 255 = the value -1 is cast to. *)
Definition ex_BU : part :=
  mkPart 100 2 [0; 4; 8; 12]%Z (c1 4) (c1 4) (mk [2; 3]%Z [0; 1] [0; 1; 4])
         (mk [1; 0]%Z [0; 1; 0] [0; 1; 3; 4]) (mk [1; 2]%Z [0; 1] [0; 3; 4]) (mk [0; 1; 2]%Z [0; 1; 2] [0; 1; 3; 4])
         (mk [0; 1]%Z [0; 1] [0; 3; 4])
         [(9%Z, SCat SensorCache.DInt (mk [3; 200]%Z [0; 1] [0; 1; 4]))].
Definition ex_U : list part := [ex_BU; ex_C].
Definition ex_Um : merged := match concat_open ex_U with COk m => m | CErr _ => mkMerged [] [] 0 [] [] [] end.

Lemma ex_U_hyps :
  sort_parts ex_U = Some ex_U /\ Forall part_ok ex_U /\ concat_open ex_U = COk ex_Um /\ Forall (sens_ok 9%Z) ex_U /\
  mixed_kinds 9%Z ex_U = false.
Proof.
  split; [reflexivity|]. split; [repeat constructor; cdok|]. split; [reflexivity|]. split; [|reflexivity].
  constructor; [|constructor; [|constructor]]; (split; [cbn; lia|]); cbn; intros dt c Hc; inversion Hc; subst; cdok.
Qed.

Lemma ex_unsigned_refuted_before_fix :
  exists input ps m name l,
    sort_parts input = Some ps /\ Forall part_ok ps /\ concat_open input = COk m /\ Forall (sens_ok name) ps /\
    mixed_kinds name ps = false /\ spec_sensor ps name = Some l /\
    get_sensor_u_before_fix (m_parts m) name false true = RFail.
Proof.
  destruct ex_U_hyps as (A & B & C & D & E).
  exists ex_U, ex_U, ex_Um, 9%Z, [3; 200; 200; 200; -1; -1]%Z. repeat split; try assumption; reflexivity.
Qed.

(* the hypotheses of C19_unsigned_sensor are met by it, and the answer: the part's own values, then 255 twice; as a
   uint16 sensor the filler would be 65535, as a signed one (ubits = 0) -1 *)
Lemma ex_unsigned :
  sort_parts ex_U = Some ex_U /\ Forall part_ok ex_U /\ concat_open ex_U = COk ex_Um /\ Forall (sens_ok 9%Z) ex_U /\
  (match get_sensor_u (m_parts ex_Um) 9 false 8 with RCat c => Some (zexpand c, ev c) | _ => None end)
    = Some ([3; 200; 200; 200; 255; 255]%Z, [0; 1; 4; 6]) /\
  spec_sensor_u 8 ex_U 9 = Some [3; 200; 200; 200; 255; 255]%Z /\
  spec_sensor_u 16 ex_U 9 = Some [3; 200; 200; 200; 65535; 65535]%Z /\
  (match get_sensor_u (m_parts ex_Um) 9 false 16 with RCat c => Some (zexpand c) | _ => None end)
    = Some [3; 200; 200; 200; 65535; 65535]%Z /\
  (match get_sensor_u (m_parts ex_Um) 9 false 0 with RCat c => Some (zexpand c) | _ => None end)
    = Some [3; 200; 200; 200; -1; -1]%Z.
Proof.
  destruct ex_U_hyps as (A & B & C & D & E). repeat split; try assumption; vm_compute; reflexivity.
Qed.
