(* C17 (extension): preselect validation on every open path, slice normalisation, the chunk-store index. *)
From Coq Require Import ZArith List Bool String Lia.
From KV Require Import Base.Sx Base.Str Gen.Generated Model.TimeFreqPre.
Import ListNotations.
Open Scope Z_scope.

Lemma mem_string_iff x l : mem_string x l = true <-> In x l.
Proof.
  unfold mem_string. rewrite existsb_exists. split.
  - intros (y & Hy & E). apply String.eqb_eq in E. subst. exact Hy.
  - intros H. exists x. split; [exact H|apply String.eqb_refl].
Qed.

(* the validation statements in source order: the key test decides first, then the values *)
Lemma ds_validate_verdict p :
  ds_validate p = if forallb (key_ok preselect_keys) (the_dict p)
                  then (if forallb (fun kv => val_ok (snd kv)) (the_dict p) then 0 else 2) else 1.
Proof.
  unfold ds_validate, gen_ds_validate_prog. cbn [fold_left]. unfold ds_val_step. cbn [Z.eqb negb].
  destruct (forallb (key_ok preselect_keys) (the_dict p)); cbn [Z.eqb negb Pos.eqb];
    destruct (forallb (fun kv => val_ok (snd kv)) (the_dict p)); reflexivity.
Qed.

Lemma keys_ok_iff allowed d : forallb (key_ok allowed) d = true <-> spec_keys_ok allowed d.
Proof.
  rewrite forallb_forall. unfold spec_keys_ok, key_ok. split.
  - intros H k v Hin. apply mem_string_iff. exact (H (k, v) Hin).
  - intros H [k v] Hin. apply mem_string_iff. exact (H k v Hin).
Qed.

Lemma val_ok_iff v : val_ok v = true <-> exists a b st, v = PSlice a b st /\ (st = None \/ st = Some 1).
Proof.
  destruct v as [a b st|]; cbn [val_ok]; unfold preselect_steps; cbn [existsb].
  - split.
    + intros H. exists a, b, st. split; [reflexivity|].
      destruct st as [z|]; cbn [oZ_eqb] in H; [|left; reflexivity].
      rewrite orb_false_r in H. cbn [orb] in H. apply Z.eqb_eq in H. subst. right. reflexivity.
    + intros (a' & b' & st' & E & Hs). injection E as -> -> ->. destruct Hs as [->| ->]; reflexivity.
  - split; [discriminate|]. intros (a & b & st & E & _). discriminate.
Qed.

Lemma vals_ok_iff d : forallb (fun kv => val_ok (snd kv)) d = true <-> spec_vals_ok d.
Proof.
  rewrite forallb_forall. unfold spec_vals_ok. split.
  - intros H k v Hin. apply val_ok_iff. exact (H (k, v) Hin).
  - intros H [k v] Hin. apply val_ok_iff. exact (H k v Hin).
Qed.

Lemma ds_validate_accepts p :
  ds_validate p = 0 <-> spec_keys_ok ["channels"; "dumps"]%string (the_dict p) /\ spec_vals_ok (the_dict p).
Proof.
  rewrite ds_validate_verdict. change ["channels"; "dumps"]%string with preselect_keys.
  rewrite <- keys_ok_iff, <- vals_ok_iff.
  destruct (forallb (key_ok preselect_keys) (the_dict p)); destruct (forallb _ (the_dict p));
    split; try discriminate; try tauto; intros [A B]; discriminate.
Qed.

(* which error: an unknown key is reported whatever the values are; a bad value only when all keys are known *)
Lemma ds_validate_errors p :
  (ds_validate p = 1 <-> ~ spec_keys_ok ["channels"; "dumps"]%string (the_dict p)) /\
  (ds_validate p = 2 <-> spec_keys_ok ["channels"; "dumps"]%string (the_dict p) /\ ~ spec_vals_ok (the_dict p)) /\
  (ds_validate p = 0 \/ ds_validate p = 1 \/ ds_validate p = 2).
Proof.
  rewrite ds_validate_verdict. change ["channels"; "dumps"]%string with preselect_keys.
  rewrite <- keys_ok_iff, <- vals_ok_iff.
  destruct (forallb (key_ok preselect_keys) (the_dict p)); destruct (forallb _ (the_dict p));
    (split; [|split]); try (split; intros; try discriminate; try tauto); auto;
    try (exfalso; tauto); try (destruct H; congruence).
  all: try (intros [A B]; congruence).
Qed.

(* no preselection and the empty dictionary are accepted on the RDB paths *)
Lemma ds_validate_none : ds_validate None = 0 /\ ds_validate (Some []) = 0.
Proof. split; reflexivity. Qed.

(* katdal.open *)
Lemma open_validate_paths p :
  open_validate KRdb p = ds_validate p /\
  (open_validate KRdbList p = 0 <->
     spec_keys_ok ["channels"]%string (the_dict p) /\ spec_vals_ok (the_dict p)) /\
  (open_validate KRdbList p = 4 <-> ~ spec_keys_ok ["channels"]%string (the_dict p)) /\
  (open_validate KOther p = 0 <-> p = None).
Proof.
  split; [reflexivity|]. unfold open_validate. change ["channels"]%string with open_concat_keys.
  rewrite <- keys_ok_iff. split; [|split].
  - destruct (forallb (key_ok open_concat_keys) (the_dict p)) eqn:E.
    + rewrite ds_validate_accepts. split; [intros [_ V]; split; [reflexivity|exact V]|].
      intros [_ V]. split; [|exact V].
      apply keys_ok_iff in E. intros k v Hin. specialize (E k v Hin). cbn [In] in *.
      destruct E as [<-|[]]. left. reflexivity.
    + split; [discriminate|]. intros [A _]. discriminate.
  - destruct (forallb (key_ok open_concat_keys) (the_dict p)) eqn:E.
    + pose proof (ds_validate_errors p) as (_ & _ & [H|[H|H]]); rewrite H; split; try discriminate; intros N; exfalso; apply N; reflexivity.
    + split; [intros _ N; discriminate|reflexivity].
  - destruct p; split; try discriminate; reflexivity.
Qed.

(* ---- slice.indices ---- *)
Lemma py_bound_range n d x : 0 <= n -> 0 <= d <= n -> 0 <= py_bound n d x <= n.
Proof. intros Hn Hd. unfold py_bound. destruct x as [s|]; [|lia]. destruct (s <? 0) eqn:E; lia. Qed.

Lemma py_indices_bounds n v : 0 <= n ->
  0 <= fst (py_indices n v) <= n /\ 0 <= snd (py_indices n v) <= n.
Proof.
  intros Hn. destruct v as [a b st|]; cbn [py_indices fst snd]; [|lia].
  split; apply py_bound_range; lia.
Qed.

(* what a bound means: negative values count from the end, everything is clipped to the axis *)
Lemma py_bound_cases n d x : 0 <= n ->
  py_bound n d x = match x with
                   | None => d
                   | Some s => if s <? - n then 0 else if s <? 0 then s + n else if s <=? n then s else n
                   end.
Proof.
  intros Hn. unfold py_bound. destruct x as [s|]; [|reflexivity].
  destruct (s <? 0) eqn:A; destruct (s <? - n) eqn:B; destruct (s <=? n) eqn:C; lia.
Qed.

(* normalised ranges are fixed points: a:b with 0 <= a <= b <= n stays a:b; the open slice is the whole axis *)
Lemma py_indices_normalised n a b st : 0 <= a -> a <= b -> b <= n ->
  py_indices n (PSlice (Some a) (Some b) st) = (a, b).
Proof.
  intros. cbn [py_indices]. unfold py_bound.
  destruct (a <? 0) eqn:A; destruct (b <? 0) eqn:B; f_equal; lia.
Qed.
Lemma py_indices_open n st : py_indices n (PSlice None None st) = (0, n).
Proof. reflexivity. Qed.

(* an element index i of the axis is kept iff lo <= i < hi, and the j-th kept element is element lo + j *)
Lemma take_len_spec w : take_len w = if fst w <? snd w then snd w - fst w else 0.
Proof. unfold take_len. destruct (fst w <? snd w) eqn:E; lia. Qed.

(* ---- the index handed to the chunk store ---- *)
Lemma pre_index_none shape : pre_index shape [] = [].
Proof. reflexivity. Qed.

Lemma pre_index_axes T F p : p <> [] ->
  pre_index [T; F] p =
  [match plookup "dumps" p with Some v => Some (py_indices T v) | None => None end;
   match plookup "channels" p with Some v => Some (py_indices F v) | None => None end].
Proof. intros H. destruct p; [contradiction|reflexivity]. Qed.

(* every window of the index of a preselection with non-empty ranges is normalised and non-empty: 0 <= lo < hi <= n *)
Lemma pre_index_windows_ok T F p : 0 <= T -> 0 <= F ->
  fst (axis_range T p "dumps") < snd (axis_range T p "dumps") ->
  fst (axis_range F p "channels") < snd (axis_range F p "channels") ->
  forall k w, nth_error (pre_index [T; F] p) k = Some (Some w) ->
    0 <= fst w /\ fst w < snd w /\ snd w <= nth k [T; F] 0.
Proof.
  intros HT HF Hd Hc k w. destruct p as [|kv p]; [destruct k; discriminate|].
  rewrite pre_index_axes by discriminate. unfold axis_range in Hd, Hc.
  destruct k as [|[|k]]; cbn [nth_error nth].
  - destruct (plookup "dumps" (kv :: p)) as [v|]; [|discriminate]. intros E. injection E as <-.
    pose proof (py_indices_bounds T v HT). lia.
  - destruct (plookup "channels" (kv :: p)) as [v|]; [|discriminate]. intros E. injection E as <-.
    pose proof (py_indices_bounds F v HF). lia.
  - destruct k; discriminate.
Qed.

Lemma axis_order_documented : gen_ds_index_axes = ["dumps"; "channels"]%string /\ open_concat_keys = ["channels"]%string
  /\ gen_ds_validate_prog = [0; 1; 2].
Proof. repeat split; reflexivity. Qed.

Example nonvacuous_pre :
  ds_validate (Some [("dumps"%string, PSlice (Some 1) None None)]) = 0 /\
  ds_validate (Some [("dumps"%string, PSlice (Some 1) None (Some 2)); ("ants"%string, PNonSlice)]) = 1 /\
  ds_validate (Some [("dumps"%string, PSlice (Some 1) None (Some (-1)))]) = 2 /\
  open_validate KRdbList (Some [("dumps"%string, PSlice (Some 1) None None)]) = 4 /\
  open_validate KOther (Some []) = 3 /\
  py_indices 6 (PSlice (Some (-4)) (Some 9) None) = (2, 6) /\ take_len (py_indices 6 (PSlice (Some 5) (Some 2) None)) = 0 /\
  pre_index [6; 4] [("channels"%string, PSlice (Some 1) (Some (-1)) None)] = [None; Some (1, 3)].
Proof. repeat split; reflexivity. Qed.
