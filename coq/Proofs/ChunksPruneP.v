(* C07: _prune_chunks requests exactly the stored chunks overlapping a non-empty unit-step selection,
   without altering any chunk boundary. *)
From Coq Require Import ZArith List Bool Lia ZifyBool.
From KV Require Import Base.Sx Gen.Generated Model.Chunks.
Import ListNotations. Open Scope Z_scope.

Definition posl (l : list Z) : Prop := Forall (fun c => 0 < c) l.
Definition shift (k : Z) (se : Z * Z) : Z * Z := (fst se + k, snd se + k).

(* ------------------------------------------------------------------------------------------------ *)
(* sums and intervals *)

Lemma sumZ_nil : sumZ [] = 0.
Proof. reflexivity. Qed.
Lemma sumZ_cons c t : sumZ (c :: t) = c + sumZ t.
Proof. reflexivity. Qed.
Lemma sumZ_app l1 l2 : sumZ (l1 ++ l2) = sumZ l1 + sumZ l2.
Proof.
  induction l1 as [|a l1 IH]; cbn [app].
  - rewrite sumZ_nil. lia.
  - rewrite !sumZ_cons, IH. lia.
Qed.
Lemma sumZ_rev l : sumZ (rev l) = sumZ l.
Proof.
  induction l as [|a l IH]; cbn [rev]; auto.
  rewrite sumZ_app, !sumZ_cons, sumZ_nil, IH. lia.
Qed.
Lemma sumZ_nonneg l : posl l -> 0 <= sumZ l.
Proof.
  induction 1.
  - rewrite sumZ_nil. lia.
  - rewrite sumZ_cons. lia.
Qed.

Lemma intervals_app l1 : forall a l2,
  intervals a (l1 ++ l2) = intervals a l1 ++ intervals (a + sumZ l1) l2.
Proof.
  induction l1 as [|c l1 IH]; intros a l2; cbn [intervals app].
  - rewrite sumZ_nil, Z.add_0_r. reflexivity.
  - rewrite IH, sumZ_cons, Z.add_assoc. reflexivity.
Qed.

Lemma intervals_shift l : forall a k, map (shift k) (intervals a l) = intervals (a + k) l.
Proof.
  induction l as [|c l IH]; intros a k; cbn [intervals map]; auto.
  rewrite IH. unfold shift; cbn [fst snd].
  f_equal; [f_equal; lia | f_equal; lia].
Qed.

(* ------------------------------------------------------------------------------------------------ *)
(* filtering the intervals of a chunking by overlap *)

Lemma filter_none_low l : forall a s e, posl l -> a + sumZ l <= s ->
  filter (overlaps (s, e)) (intervals a l) = [].
Proof.
  induction l as [|c l IH]; intros a s e Hp Hs; cbn [intervals filter]; auto.
  inversion Hp; subst. rewrite sumZ_cons in Hs.
  pose proof (sumZ_nonneg l H2).
  unfold overlaps at 1; cbn [fst snd].
  destruct ((a <? e) && (s <? a + c)) eqn:E; [lia|].
  apply IH; auto. lia.
Qed.

Lemma filter_none_high l : forall a s e, posl l -> e <= a ->
  filter (overlaps (s, e)) (intervals a l) = [].
Proof.
  induction l as [|c l IH]; intros a s e Hp Hs; cbn [intervals filter]; auto.
  inversion Hp; subst.
  unfold overlaps at 1; cbn [fst snd].
  destruct ((a <? e) && (s <? a + c)) eqn:E; [lia|].
  apply IH; auto. lia.
Qed.

Lemma filter_all m : forall a d s e, posl m -> 0 < d -> s < a + hd d m -> a + sumZ m < e ->
  filter (overlaps (s, e)) (intervals a (m ++ [d])) = intervals a (m ++ [d]).
Proof.
  induction m as [|c m IH]; intros a d s e Hp Hd Hs He; cbn [intervals filter app hd] in *.
  - rewrite sumZ_nil in He. unfold overlaps; cbn [fst snd].
    destruct ((a <? e) && (s <? a + d)) eqn:E; [reflexivity|lia].
  - inversion Hp; subst. rewrite sumZ_cons in He.
    pose proof (sumZ_nonneg m H2).
    unfold overlaps at 1; cbn [fst snd].
    destruct ((a <? e) && (s <? a + c)) eqn:E; [|lia].
    f_equal. apply IH; auto; try lia.
    destruct m as [|c' m']; cbn [hd]; [lia|]. inversion H2; subst. lia.
Qed.

Lemma filter_pos_intervals l : forall a (g : Z * Z -> bool), posl l ->
  filter (fun se => (fst se <? snd se) && g se) (intervals a l) = filter g (intervals a l).
Proof.
  induction l as [|c l IH]; intros a g Hp; cbn [intervals filter]; auto.
  inversion Hp; subst. cbn [fst snd].
  replace (a <? a + c) with true by lia. cbn [andb].
  rewrite IH by auto. reflexivity.
Qed.

(* the key fact: chunking = pre ++ (m ++ [d]) ++ post, selection starts inside the first chunk of the middle
   part and stops inside its last chunk *)
Lemma needed_mid pre m d post s e :
  posl pre -> posl m -> 0 < d -> posl post ->
  sumZ pre <= s -> s < sumZ pre + hd d m -> sumZ pre + sumZ m < e -> e <= sumZ pre + sumZ m + d ->
  map (shift (sumZ pre)) (needed_axis (m ++ [d]) (s - sumZ pre, e - sumZ pre))
    = filter (overlaps (s, e)) (intervals 0 (pre ++ (m ++ [d]) ++ post)).
Proof.
  intros Hpre Hm Hd Hpost H1 H2 H3 H4.
  assert (Hmd : posl (m ++ [d])) by (apply Forall_app; split; auto).
  unfold needed_axis.
  rewrite filter_pos_intervals by auto.
  rewrite filter_all by (auto; lia).
  destruct (intervals 0 (m ++ [d])) eqn:E.
  { destruct m; discriminate. }
  rewrite <- E. clear E.
  rewrite intervals_shift.
  rewrite !intervals_app with (l1 := pre).
  rewrite intervals_app with (l1 := m ++ [d]).
  rewrite !filter_app.
  rewrite filter_none_low by (auto; lia).
  rewrite filter_all by (auto; lia).
  rewrite filter_none_high.
  - rewrite app_nil_r. reflexivity.
  - auto.
  - rewrite sumZ_app, sumZ_cons, sumZ_nil. lia.
Qed.

(* ------------------------------------------------------------------------------------------------ *)
(* the two while loops *)

Lemma drop_front_cons2 c c2 t start stop shape off :
  drop_front (c :: c2 :: t) start stop shape off
  = if c <=? start then drop_front (c2 :: t) (start - c) (stop - c) (shape - c) (off + c)
    else (c :: c2 :: t, (start, stop, shape, off)).
Proof. reflexivity. Qed.
Lemma drop_back_cons2 c c2 t stop shape :
  drop_back (c :: c2 :: t) stop shape = if c <=? shape - stop then drop_back (c2 :: t) stop (shape - c) else c :: c2 :: t.
Proof. reflexivity. Qed.

(* the loops only drop whole chunks from the two ends and never the last remaining one (ANY selection) *)
Lemma drop_front_struct cs : forall start stop shape off,
  exists pre cs1, cs = pre ++ cs1 /\
    drop_front cs start stop shape off
      = (cs1, (start - sumZ pre, stop - sumZ pre, shape - sumZ pre, off + sumZ pre)) /\
    (cs <> [] -> cs1 <> []).
Proof.
  induction cs as [|c cs IH]; intros start stop shape off.
  - exists [], []. cbn [drop_front]. rewrite sumZ_nil, !Z.sub_0_r, Z.add_0_r. repeat split; auto.
  - destruct cs as [|c2 cs'].
    + exists [], [c]. cbn [drop_front]. rewrite sumZ_nil, !Z.sub_0_r, Z.add_0_r. repeat split; auto.
    + rewrite drop_front_cons2. destruct (c <=? start) eqn:E.
      * destruct (IH (start - c) (stop - c) (shape - c) (off + c)) as (pre & cs1 & Hcs & Hdf & Hne).
        exists (c :: pre), cs1. rewrite sumZ_cons. repeat split.
        -- cbn [app]. f_equal. exact Hcs.
        -- rewrite Hdf. repeat (f_equal; try lia).
        -- intros _. apply Hne. discriminate.
      * exists [], (c :: c2 :: cs'). rewrite sumZ_nil, !Z.sub_0_r, Z.add_0_r. repeat split; auto.
Qed.

Lemma drop_back_struct rcs : forall stop shape,
  exists post rest, rcs = post ++ rest /\ drop_back rcs stop shape = rest /\ (rcs <> [] -> rest <> []).
Proof.
  induction rcs as [|c rcs IH]; intros stop shape.
  - exists [], []. repeat split; auto.
  - destruct rcs as [|c2 rcs'].
    + exists [], [c]. repeat split; auto.
    + rewrite drop_back_cons2. destruct (c <=? shape - stop) eqn:E.
      * destruct (IH stop (shape - c)) as (post & rest & Hcs & Hdb & Hne).
        exists (c :: post), rest. repeat split.
        -- cbn [app]. f_equal. exact Hcs.
        -- exact Hdb.
        -- intros _. apply Hne. discriminate.
      * exists [], (c :: c2 :: rcs'). repeat split; auto.
Qed.

(* for a selection that starts inside the array the first loop stops at the chunk containing the start *)
Lemma drop_front_spec cs : forall start stop shape off, 0 <= start -> start < sumZ cs ->
  exists pre cs1, cs = pre ++ cs1 /\
    drop_front cs start stop shape off
      = (cs1, (start - sumZ pre, stop - sumZ pre, shape - sumZ pre, off + sumZ pre)) /\
    sumZ pre <= start /\
    (forall c t, cs1 = c :: t -> start - sumZ pre < c).
Proof.
  induction cs as [|c cs IH]; intros start stop shape off H0 Hlt.
  - rewrite sumZ_nil in Hlt. lia.
  - destruct cs as [|c2 cs'].
    + exists [], [c]. cbn [drop_front]. rewrite sumZ_nil, !Z.sub_0_r, Z.add_0_r.
      rewrite sumZ_cons, sumZ_nil in Hlt.
      repeat split; auto; try lia. intros c0 t Heq. inversion Heq; subst. lia.
    + rewrite drop_front_cons2. destruct (c <=? start) eqn:E.
      * rewrite sumZ_cons in Hlt.
        destruct (IH (start - c) (stop - c) (shape - c) (off + c)) as (pre & cs1 & Hcs & Hdf & Hle & Hhd); [lia | lia |].
        exists (c :: pre), cs1. rewrite sumZ_cons. repeat split.
        -- cbn [app]. f_equal. exact Hcs.
        -- rewrite Hdf. repeat (f_equal; try lia).
        -- lia.
        -- intros c0 t Heq. specialize (Hhd c0 t Heq). lia.
      * exists [], (c :: c2 :: cs'). rewrite sumZ_nil, !Z.sub_0_r, Z.add_0_r.
        repeat split; auto; try lia. intros c0 t Heq. inversion Heq; subst. lia.
Qed.

(* for a selection that stops after position 0 of the remaining chunks the second loop stops at the chunk
   containing the last selected element *)
Lemma drop_back_spec rcs : forall stop shape, stop <= shape -> shape = sumZ rcs -> 0 < stop ->
  exists post rest, rcs = post ++ rest /\
    drop_back rcs stop shape = rest /\
    sumZ post <= shape - stop /\
    (forall c t, rest = c :: t -> shape - sumZ post - stop < c).
Proof.
  induction rcs as [|c rcs IH]; intros stop shape Hss Hsh Hst.
  - rewrite sumZ_nil in Hsh. lia.
  - destruct rcs as [|c2 rcs'].
    + exists [], [c]. cbn [drop_back]. rewrite sumZ_nil. rewrite sumZ_cons, sumZ_nil in Hsh.
      repeat split; auto; try lia. intros c0 t Heq. inversion Heq; subst. lia.
    + rewrite drop_back_cons2. destruct (c <=? shape - stop) eqn:E.
      * rewrite sumZ_cons in Hsh.
        destruct (IH stop (shape - c)) as (post & rest & Hcs & Hdb & Hle & Hhd); [lia | lia | lia |].
        exists (c :: post), rest. rewrite sumZ_cons. repeat split.
        -- cbn [app]. f_equal. exact Hcs.
        -- exact Hdb.
        -- lia.
        -- intros c0 t Heq. specialize (Hhd c0 t Heq). lia.
      * exists [], (c :: c2 :: rcs'). rewrite sumZ_nil.
        repeat split; auto; try lia. intros c0 t Heq. inversion Heq; subst. lia.
Qed.

(* ------------------------------------------------------------------------------------------------ *)
(* (1) per-axis theorem *)

Lemma prune_axis_requests : forall cs s e,
  Forall (fun c => 0 < c) cs -> 0 <= s -> s < e -> e <= sumZ cs ->
  let '(cs', ix', off') := prune_axis cs (s, e) in
  ix' = (s - off', e - off') /\
  map (fun se => (fst se + off', snd se + off')) (needed_axis cs' ix')
    = filter (overlaps (s, e)) (intervals 0 cs).
Proof.
  intros cs s e Hpos Hs Hse He. unfold prune_axis. cbn [fst snd].
  destruct ((s =? 0) && (e =? sumZ cs)) eqn:Efull.
  - split; [f_equal; lia|].
    assert (Hne : cs <> []) by (intro; subst; rewrite sumZ_nil in He; lia).
    destruct (exists_last Hne) as (m & d & ->).
    apply Forall_app in Hpos as [Hm Hd]. inversion Hd; subst.
    rewrite sumZ_app, sumZ_cons, sumZ_nil in *.
    pose proof (needed_mid [] m d [] s e) as K.
    rewrite app_nil_r, sumZ_nil, !Z.sub_0_r in K. cbn [app] in K.
    apply K; auto; try constructor; try lia.
    destruct m as [|c m']; cbn [hd]; [lia|]. inversion Hm; subst. lia.
  - destruct (drop_front_spec cs s e (sumZ cs) 0 Hs ltac:(lia)) as (pre & cs1 & Hcs & Hdf & Hle & Hhd).
    rewrite Hdf. cbv beta iota zeta.
    destruct (drop_back_spec (rev cs1) (e - sumZ pre) (sumZ cs - sumZ pre))
      as (post & rest & Hr & Hdb & Hle2 & Hlast);
      [lia | rewrite sumZ_rev, Hcs, sumZ_app; lia | lia |].
    rewrite Hdb.
    assert (Hcs1 : cs1 = rev rest ++ rev post).
    { rewrite <- rev_app_distr, <- Hr, rev_involutive. reflexivity. }
    assert (Hsum : sumZ cs = sumZ pre + sumZ rest + sumZ post).
    { rewrite Hcs, Hcs1, !sumZ_app, !sumZ_rev. lia. }
    destruct rest as [|d rest'].
    { rewrite sumZ_nil in Hsum. lia. }
    cbn [rev] in *. set (m := rev rest') in *.
    rewrite sumZ_cons in Hsum.
    assert (Hsm : sumZ m = sumZ rest') by (apply sumZ_rev).
    replace (match m ++ [d] with [] => [0] | _ :: _ => m ++ [d] end) with (m ++ [d])
      by (destruct m; reflexivity).
    rewrite Z.add_0_l. split; [reflexivity|].
    specialize (Hlast d rest' eq_refl).
    subst cs cs1.
    apply Forall_app in Hpos as [Hpre Hpos].
    apply Forall_app in Hpos as [Hmd Hpost].
    apply Forall_app in Hmd as [Hm Hd]. inversion Hd; subst.
    apply needed_mid; auto; try lia.
    destruct m as [|c m']; cbn [hd app] in *.
    + specialize (Hhd _ _ eq_refl). lia.
    + specialize (Hhd _ _ eq_refl). lia.
Qed.

(* ANY selection: the pruned chunking is a non-empty run of consecutive chunks of the original one, the offset is
   the total size of the chunks dropped in front, the slice is shifted by exactly that *)
Lemma prune_axis_struct : forall cs s e, cs <> [] ->
  exists pre cs' post,
    cs = pre ++ cs' ++ post /\ cs' <> [] /\
    prune_axis cs (s, e) = (cs', (s - sumZ pre, e - sumZ pre), sumZ pre).
Proof.
  intros cs s e Hne. unfold prune_axis. cbn [fst snd].
  destruct ((s =? 0) && (e =? sumZ cs)) eqn:Efull.
  - exists [], cs, []. rewrite app_nil_r, sumZ_nil, !Z.sub_0_r. cbn [app]. repeat split; auto.
  - destruct (drop_front_struct cs s e (sumZ cs) 0) as (pre & cs1 & Hcs & Hdf & Hne1).
    rewrite Hdf. cbv beta iota zeta.
    destruct (drop_back_struct (rev cs1) (e - sumZ pre) (sumZ cs - sumZ pre)) as (post & rest & Hr & Hdb & Hne2).
    rewrite Hdb.
    assert (Hcs1 : cs1 = rev rest ++ rev post).
    { rewrite <- rev_app_distr, <- Hr, rev_involutive. reflexivity. }
    assert (Hrest : rev rest <> []).
    { intro E. apply Hne2.
      - intro E2. apply (Hne1 Hne). rewrite <- (rev_involutive cs1), E2. reflexivity.
      - rewrite <- (rev_involutive rest), E. reflexivity. }
    exists pre, (rev rest), (rev post). rewrite Z.add_0_l. repeat split.
    + rewrite Hcs, Hcs1. reflexivity.
    + exact Hrest.
    + destruct (rev rest); [congruence | reflexivity].
Qed.

(* ... hence every chunk of the pruned chunking, shifted back by the offset, is a chunk of the original chunking with
   its boundaries unchanged -- whatever dask then takes from it (ANY selection, incl. empty ones) *)
Lemma prune_axis_intervals : forall cs s e, cs <> [] ->
  let '(cs', ix', off') := prune_axis cs (s, e) in
  ix' = (s - off', e - off') /\ cs' <> [] /\
  forall se, In se (intervals 0 cs') -> In (shift off' se) (intervals 0 cs).
Proof.
  intros cs s e Hne. destruct (prune_axis_struct cs s e Hne) as (pre & cs' & post & Hcs & Hne' & ->).
  repeat split; auto. intros se Hin.
  rewrite Hcs, intervals_app, intervals_app. apply in_or_app. right. apply in_or_app. left.
  rewrite Z.add_0_l, <- (Z.add_0_l (sumZ pre)), <- intervals_shift. apply in_map. exact Hin.
Qed.

Lemma needed_axis_incl : forall cs ix se, In se (needed_axis cs ix) -> In se (intervals 0 cs).
Proof.
  intros cs ix se H. unfold needed_axis in H.
  destruct (filter _ (intervals 0 cs)) eqn:E.
  - destruct (intervals 0 cs); cbn [firstn] in H; [contradiction|]. destruct H as [<- | []]. left. reflexivity.
  - rewrite <- E in H. apply filter_In in H. apply H.
Qed.

(* ------------------------------------------------------------------------------------------------ *)
(* (2) N-d requested set *)

Definition ax_ok (cs : list Z) (ix : Z * Z) : Prop := 0 <= fst ix /\ fst ix < snd ix /\ snd ix <= sumZ cs.

Lemma norm_bound_range n o d : 0 <= n -> 0 <= d <= n -> 0 <= norm_bound n o d <= n.
Proof.
  intros Hn Hd. unfold norm_bound. destruct o as [z|]; [|lia].
  destruct (z <? 0) eqn:E; lia.
Qed.

Lemma norm_index_ok : forall chunks index,
  Forall posl chunks ->
  Forall (fun se => fst se < snd se) (norm_index (chunks_shape chunks) index) ->
  Forall2 ax_ok chunks (norm_index (chunks_shape chunks) index).
Proof.
  unfold chunks_shape.
  induction chunks as [|cs chunks IH]; intros index Hp Hn.
  - constructor.
  - inversion Hp; subst.
    pose proof (sumZ_nonneg cs H1) as Hnn.
    destruct index as [|ix index]; cbn [map norm_index] in *; inversion Hn; subst; constructor; auto.
    + unfold ax_ok; cbn [fst snd] in *. lia.
    + unfold ax_ok, norm_slice in *; cbn [fst snd] in *.
      pose proof (norm_bound_range (sumZ cs) (fst ix) 0 Hnn).
      pose proof (norm_bound_range (sumZ cs) (snd ix) (sumZ cs) Hnn).
      lia.
Qed.

Lemma prune_axes : forall chunks nix, Forall posl chunks -> Forall2 ax_ok chunks nix ->
  map (fun x => map (shift (snd x)) (needed_axis (fst (fst x)) (snd (fst x)))) (prune chunks nix)
    = map (fun p => filter (overlaps (snd p)) (intervals 0 (fst p))) (combine chunks nix).
Proof.
  intros chunks nix Hp H. revert Hp.
  induction H as [|cs ix chunks nix Hok H IH]; intros Hp; cbn [prune combine map]; auto.
  inversion Hp; subst. f_equal; [|apply IH; auto].
  destruct ix as [s e]. destruct Hok as (Ha & Hb & Hc). cbn [fst snd] in *.
  pose proof (prune_axis_requests cs s e H2 Ha Hb Hc) as K.
  destruct (prune_axis cs (s, e)) as [[cs' ix'] off']. cbn [fst snd].
  destruct K as [_ K]. exact K.
Qed.

Lemma map_flat_map {A B C} (f : B -> C) (g : A -> list B) l :
  map f (flat_map g l) = flat_map (fun x => map f (g x)) l.
Proof. induction l as [|a l IH]; cbn [flat_map map]; auto. rewrite map_app, IH. reflexivity. Qed.

Lemma flat_map_map {A B C} (h : A -> B) (g : B -> list C) l :
  flat_map g (map h l) = flat_map (fun x => g (h x)) l.
Proof. induction l as [|a l IH]; cbn [flat_map map]; auto. rewrite IH. reflexivity. Qed.

Lemma filter_flat_map {A B} (p : B -> bool) (g : A -> list B) l :
  filter p (flat_map g l) = flat_map (fun x => filter p (g x)) l.
Proof. induction l as [|a l IH]; cbn [flat_map filter]; auto. rewrite filter_app, IH. reflexivity. Qed.

Lemma flat_map_filter {A B} (p : A -> bool) (g : A -> list B) l :
  flat_map g (filter p l) = flat_map (fun x => if p x then g x else []) l.
Proof.
  induction l as [|a l IH]; cbn [flat_map filter]; auto.
  destruct (p a); cbn [flat_map app]; rewrite IH; reflexivity.
Qed.

Lemma cart_length {T} (ls : list (list T)) : forall x, In x (cart ls) -> length x = length ls.
Proof.
  induction ls as [|l ls IH]; cbn [cart]; intros x H.
  - destruct H as [<-|[]]. reflexivity.
  - apply in_flat_map in H as (y & Hy & Hx). apply in_map_iff in Hx as (z & <- & Hz).
    cbn [length]. f_equal. auto.
Qed.

Lemma add_offset_zero sl : forall off, length sl = length off ->
  existsb (fun o => negb (o =? 0)) off = false -> add_offset sl off = sl.
Proof.
  induction sl as [|[s e] sl IH]; intros [|o off] Hl Hz; cbn [add_offset existsb length] in *;
    try discriminate; auto.
  apply orb_false_elim in Hz as [H1 H2].
  f_equal; [f_equal; lia|]. apply IH; auto.
Qed.

Lemma get_slices_add off sl : length sl = length off -> get_slices off sl = add_offset sl off.
Proof.
  intros Hl. unfold get_slices. destruct (existsb _ off) eqn:E; auto.
  symmetry. apply add_offset_zero; auto.
Qed.

Lemma map_add_offset_cart {X} (f : X -> list (Z * Z)) (g : X -> Z) (pr : list X) :
  map (fun sl => add_offset sl (map g pr)) (cart (map f pr))
    = cart (map (fun x => map (shift (g x)) (f x)) pr).
Proof.
  induction pr as [|x pr IH]; cbn [map cart]; auto.
  rewrite map_flat_map, flat_map_map. apply flat_map_ext. intros [s e].
  rewrite <- IH, !map_map. reflexivity.
Qed.

Lemma filter_map_cons p ixs x (L : list slices) :
  filter (overlaps_all (p :: ixs)) (map (cons x) L)
    = if overlaps p x then map (cons x) (filter (overlaps_all ixs) L) else [].
Proof.
  induction L as [|a L IH]; cbn [map filter].
  - destruct (overlaps p x); reflexivity.
  - change (overlaps_all (p :: ixs) (x :: a)) with (overlaps p x && overlaps_all ixs a).
    rewrite IH. destruct (overlaps p x); cbn [andb]; auto.
    destruct (overlaps_all ixs a); reflexivity.
Qed.

Lemma filter_cart : forall (chunks : list (list Z)) ixs, length chunks = length ixs ->
  filter (overlaps_all ixs) (cart (map (intervals 0) chunks))
    = cart (map (fun p => filter (overlaps (snd p)) (intervals 0 (fst p))) (combine chunks ixs)).
Proof.
  induction chunks as [|cs chunks IH]; intros [|ix ixs] Hl; cbn [length] in *; try discriminate.
  - reflexivity.
  - cbn [map cart combine fst snd].
    rewrite filter_flat_map, flat_map_filter. apply flat_map_ext. intros x.
    rewrite filter_map_cons, IH by lia. reflexivity.
Qed.

Lemma Forall2_len {A B} (R : A -> B -> Prop) l1 l2 : Forall2 R l1 l2 -> length l1 = length l2.
Proof. induction 1; cbn [length]; auto. Qed.

Lemma pruned_requests : forall chunks index,
  Forall (fun cs => Forall (fun c => 0 < c) cs) chunks ->
  Forall (fun se => fst se < snd se) (norm_index (chunks_shape chunks) index) ->
  let pr := prune chunks (norm_index (chunks_shape chunks) index) in
  map (get_slices (map snd pr)) (cart (map (fun x => needed_axis (fst (fst x)) (snd (fst x))) pr))
    = spec_requested chunks index.
Proof.
  intros chunks index Hp Hn. cbv zeta.
  pose proof (norm_index_ok chunks index Hp Hn) as Hok.
  unfold spec_requested, blocks.
  set (nix := norm_index (chunks_shape chunks) index) in *.
  rewrite filter_cart by (eapply Forall2_len; eauto).
  rewrite <- prune_axes by auto.
  rewrite <- map_add_offset_cart.
  apply map_ext_in. intros sl Hin.
  apply get_slices_add. apply cart_length in Hin.
  rewrite Hin, !map_length. reflexivity.
Qed.

(* ------------------------------------------------------------------------------------------------ *)
(* (3) non-vacuity and the empty-selection refutation *)

Example pruned_requests_example :
  let chunks := [[2;2;2];[1;1]] in
  let index := [(Some 1, Some 5); (Some 1, Some 2)] in
  let pr := prune chunks (norm_index (chunks_shape chunks) index) in
  map (get_slices (map snd pr)) (cart (map (fun x => needed_axis (fst (fst x)) (snd (fst x))) pr))
    = [[(0,2);(1,2)]; [(2,4);(1,2)]; [(4,6);(1,2)]]
  /\ spec_requested chunks index = [[(0,2);(1,2)]; [(2,4);(1,2)]; [(4,6);(1,2)]].
Proof. vm_compute. split; reflexivity. Qed.

Example pruned_empty_requests_refuted :
  let chunks := [[2;2;2]] in
  let index := [(Some 2, Some 2)] in
  let pr := prune chunks (norm_index (chunks_shape chunks) index) in
  map (get_slices (map snd pr)) (cart (map (fun x => needed_axis (fst (fst x)) (snd (fst x))) pr))
    = [[(2,4)]]
  /\ spec_requested chunks index = [].
Proof. vm_compute. split; reflexivity. Qed.

Print Assumptions prune_axis_requests.
Print Assumptions pruned_requests.
