(* C07: _prune_chunks requests exactly the stored chunks overlapping a non-empty unit-step selection,
   without altering any chunk boundary. *)
From Coq Require Import ZArith List Bool Lia ZifyBool.
From KV Require Import Base.Sx Gen.Generated Model.Chunks.
Import ListNotations. Open Scope Z_scope.

Definition posl (l : list Z) : Prop := Forall (fun c => 0 < c) l.
Definition shift (k : Z) (se : Z * Z) : Z * Z := (fst se + k, snd se + k).

(* ------------------------------------------------------------------------------------------------ *)
(* sums and intervals *)

Lemma sumZ_nil : sumZ [] = 0.
Proof. reflexivity. Qed.
Lemma sumZ_cons c t : sumZ (c :: t) = c + sumZ t.
Proof. reflexivity. Qed.
Lemma sumZ_app l1 l2 : sumZ (l1 ++ l2) = sumZ l1 + sumZ l2.
Proof.
  induction l1 as [|a l1 IH]; cbn [app].
  - rewrite sumZ_nil. lia.
  - rewrite !sumZ_cons, IH. lia.
Qed.
Lemma sumZ_rev l : sumZ (rev l) = sumZ l.
Proof.
  induction l as [|a l IH]; cbn [rev]; auto.
  rewrite sumZ_app, !sumZ_cons, sumZ_nil, IH. lia.
Qed.
Lemma sumZ_nonneg l : posl l -> 0 <= sumZ l.
Proof.
  induction 1.
  - rewrite sumZ_nil. lia.
  - rewrite sumZ_cons. lia.
Qed.

Lemma intervals_app l1 : forall a l2,
  intervals a (l1 ++ l2) = intervals a l1 ++ intervals (a + sumZ l1) l2.
Proof.
  induction l1 as [|c l1 IH]; intros a l2; cbn [intervals app].
  - rewrite sumZ_nil, Z.add_0_r. reflexivity.
  - rewrite IH, sumZ_cons, Z.add_assoc. reflexivity.
Qed.

Lemma intervals_shift l : forall a k, map (shift k) (intervals a l) = intervals (a + k) l.
Proof.
  induction l as [|c l IH]; intros a k; cbn [intervals map]; auto.
  rewrite IH. unfold shift; cbn [fst snd].
  f_equal; [f_equal; lia | f_equal; lia].
Qed.

(* ------------------------------------------------------------------------------------------------ *)
(* filtering the intervals of a chunking by overlap *)

Lemma filter_none_low l : forall a s e, posl l -> a + sumZ l <= s ->
  filter (overlaps (s, e)) (intervals a l) = [].
Proof.
  induction l as [|c l IH]; intros a s e Hp Hs; cbn [intervals filter]; auto.
  inversion Hp; subst. rewrite sumZ_cons in Hs.
  pose proof (sumZ_nonneg l H2).
  unfold overlaps at 1; cbn [fst snd].
  destruct ((a <? e) && (s <? a + c)) eqn:E; [lia|].
  apply IH; auto. lia.
Qed.

Lemma filter_none_high l : forall a s e, posl l -> e <= a ->
  filter (overlaps (s, e)) (intervals a l) = [].
Proof.
  induction l as [|c l IH]; intros a s e Hp Hs; cbn [intervals filter]; auto.
  inversion Hp; subst.
  unfold overlaps at 1; cbn [fst snd].
  destruct ((a <? e) && (s <? a + c)) eqn:E; [lia|].
  apply IH; auto. lia.
Qed.

Lemma filter_all m : forall a d s e, posl m -> 0 < d -> s < a + hd d m -> a + sumZ m < e ->
  filter (overlaps (s, e)) (intervals a (m ++ [d])) = intervals a (m ++ [d]).
Proof.
  induction m as [|c m IH]; intros a d s e Hp Hd Hs He; cbn [intervals filter app hd] in *.
  - rewrite sumZ_nil in He. unfold overlaps; cbn [fst snd].
    destruct ((a <? e) && (s <? a + d)) eqn:E; [reflexivity|lia].
  - inversion Hp; subst. rewrite sumZ_cons in He.
    pose proof (sumZ_nonneg m H2).
    unfold overlaps at 1; cbn [fst snd].
    destruct ((a <? e) && (s <? a + c)) eqn:E; [|lia].
    f_equal. apply IH; auto; try lia.
    destruct m as [|c' m']; cbn [hd]; [lia|]. inversion H2; subst. lia.
Qed.

Lemma filter_pos_intervals l : forall a (g : Z * Z -> bool), posl l ->
  filter (fun se => (fst se <? snd se) && g se) (intervals a l) = filter g (intervals a l).
Proof.
  induction l as [|c l IH]; intros a g Hp; cbn [intervals filter]; auto.
  inversion Hp; subst. cbn [fst snd].
  replace (a <? a + c) with true by lia. cbn [andb].
  rewrite IH by auto. reflexivity.
Qed.

(* the key fact: chunking = pre ++ (m ++ [d]) ++ post, selection starts inside the first chunk of the middle
   part and stops inside its last chunk *)
Lemma needed_mid pre m d post s e :
  posl pre -> posl m -> 0 < d -> posl post ->
  sumZ pre <= s -> s < sumZ pre + hd d m -> sumZ pre + sumZ m < e -> e <= sumZ pre + sumZ m + d ->
  map (shift (sumZ pre)) (needed_axis (m ++ [d]) (s - sumZ pre, e - sumZ pre))
    = filter (overlaps (s, e)) (intervals 0 (pre ++ (m ++ [d]) ++ post)).
Proof.
  intros Hpre Hm Hd Hpost H1 H2 H3 H4.
  assert (Hmd : posl (m ++ [d])) by (apply Forall_app; split; auto).
  unfold needed_axis.
  rewrite filter_pos_intervals by auto.
  rewrite filter_all by (auto; lia).
  destruct (intervals 0 (m ++ [d])) eqn:E.
  { destruct m; discriminate. }
  rewrite <- E. clear E.
  rewrite intervals_shift.
  rewrite !intervals_app with (l1 := pre).
  rewrite intervals_app with (l1 := m ++ [d]).
  rewrite !filter_app.
  rewrite filter_none_low by (auto; lia).
  rewrite filter_all by (auto; lia).
  rewrite filter_none_high.
  - rewrite app_nil_r. reflexivity.
  - auto.
  - rewrite sumZ_app, sumZ_cons, sumZ_nil. lia.
Qed.

(* ------------------------------------------------------------------------------------------------ *)
(* the two while loops *)

Lemma drop_front_spec cs : forall start stop shape off, 0 <= start ->
  exists pre cs1, cs = pre ++ cs1 /\
    drop_front cs start stop shape off
      = (cs1, (start - sumZ pre, stop - sumZ pre, shape - sumZ pre, off + sumZ pre)) /\
    sumZ pre <= start /\
    (forall c t, cs1 = c :: t -> start - sumZ pre < c).
Proof.
  induction cs as [|c cs IH]; intros start stop shape off H0; cbn [drop_front].
  - exists [], []. rewrite sumZ_nil, !Z.sub_0_r, Z.add_0_r.
    repeat split; auto; try lia. intros; discriminate.
  - destruct (c <=? start) eqn:E.
    + destruct (IH (start - c) (stop - c) (shape - c) (off + c)) as (pre & cs1 & Hcs & Hdf & Hle & Hhd); [lia|].
      exists (c :: pre), cs1. rewrite sumZ_cons. repeat split.
      * cbn [app]. f_equal. exact Hcs.
      * rewrite Hdf. repeat (f_equal; try lia).
      * lia.
      * intros c0 t Heq. specialize (Hhd c0 t Heq). lia.
    + exists [], (c :: cs). rewrite sumZ_nil, !Z.sub_0_r, Z.add_0_r.
      repeat split; auto; try lia. intros c0 t Heq. inversion Heq; subst. lia.
Qed.

Lemma drop_back_spec rcs : forall stop shape, stop <= shape ->
  exists post rest, rcs = post ++ rest /\
    drop_back rcs stop shape = rest /\
    sumZ post <= shape - stop /\
    (forall c t, rest = c :: t -> shape - sumZ post - stop < c).
Proof.
  induction rcs as [|c rcs IH]; intros stop shape Hss; cbn [drop_back].
  - exists [], []. rewrite sumZ_nil. repeat split; auto; try lia. intros; discriminate.
  - destruct (c <=? shape - stop) eqn:E.
    + destruct (IH stop (shape - c)) as (post & rest & Hcs & Hdb & Hle & Hhd); [lia|].
      exists (c :: post), rest. rewrite sumZ_cons. repeat split.
      * cbn [app]. f_equal. exact Hcs.
      * exact Hdb.
      * lia.
      * intros c0 t Heq. specialize (Hhd c0 t Heq). lia.
    + exists [], (c :: rcs). rewrite sumZ_nil.
      repeat split; auto; try lia. intros c0 t Heq. inversion Heq; subst. lia.
Qed.

(* ------------------------------------------------------------------------------------------------ *)
(* (1) per-axis theorem *)

Lemma prune_axis_requests : forall cs s e,
  Forall (fun c => 0 < c) cs -> 0 <= s -> s < e -> e <= sumZ cs ->
  let '(cs', ix', off') := prune_axis cs (s, e) in
  ix' = (s - off', e - off') /\
  map (fun se => (fst se + off', snd se + off')) (needed_axis cs' ix')
    = filter (overlaps (s, e)) (intervals 0 cs).
Proof.
  intros cs s e Hpos Hs Hse He. unfold prune_axis. cbn [fst snd].
  destruct ((s =? 0) && (e =? sumZ cs)) eqn:Efull.
  - split; [f_equal; lia|].
    assert (Hne : cs <> []) by (intro; subst; rewrite sumZ_nil in He; lia).
    destruct (exists_last Hne) as (m & d & ->).
    apply Forall_app in Hpos as [Hm Hd]. inversion Hd; subst.
    rewrite sumZ_app, sumZ_cons, sumZ_nil in *.
    pose proof (needed_mid [] m d [] s e) as K.
    rewrite app_nil_r, sumZ_nil, !Z.sub_0_r in K. cbn [app] in K.
    apply K; auto; try constructor; try lia.
    destruct m as [|c m']; cbn [hd]; [lia|]. inversion Hm; subst. lia.
  - destruct (drop_front_spec cs s e (sumZ cs) 0 Hs) as (pre & cs1 & Hcs & Hdf & Hle & Hhd).
    rewrite Hdf. cbv beta iota zeta.
    destruct (drop_back_spec (rev cs1) (e - sumZ pre) (sumZ cs - sumZ pre))
      as (post & rest & Hr & Hdb & Hle2 & Hlast); [lia|].
    rewrite Hdb.
    assert (Hcs1 : cs1 = rev rest ++ rev post).
    { rewrite <- rev_app_distr, <- Hr, rev_involutive. reflexivity. }
    assert (Hsum : sumZ cs = sumZ pre + sumZ rest + sumZ post).
    { rewrite Hcs, Hcs1, !sumZ_app, !sumZ_rev. lia. }
    destruct rest as [|d rest'].
    { rewrite sumZ_nil in Hsum. lia. }
    cbn [rev] in *. set (m := rev rest') in *.
    rewrite sumZ_cons in Hsum.
    assert (Hsm : sumZ m = sumZ rest') by (apply sumZ_rev).
    destruct (m ++ [d]) eqn:E.
    { apply app_eq_nil in E as [_ E]. discriminate. }
    rewrite <- E. clear E.
    rewrite Z.add_0_l. split; [reflexivity|].
    specialize (Hlast d rest' eq_refl).
    subst cs cs1.
    apply Forall_app in Hpos as [Hpre Hpos].
    apply Forall_app in Hpos as [Hmd Hpost].
    apply Forall_app in Hmd as [Hm Hd]. inversion Hd; subst.
    apply needed_mid; auto; try lia.
    destruct m as [|c m']; cbn [hd app] in *.
    + specialize (Hhd _ _ eq_refl). lia.
    + specialize (Hhd _ _ eq_refl). lia.
Qed.
