(* C01 (round 3): a v4 data set opened with a preselection -- data, freqs and timestamps name the same STORED
   coordinates.  Model/DataSetPre.v; the time / frequency lemmas are C17's (Proofs/TimeFreqP.v), used unchanged. *)
From Coq Require Import ZArith QArith List Bool String Lia.
From KV Require Import Base.Sx Base.Str Base.SelSlice Base.PySlice Base.AxisIndex Base.NdArray Gen.Generated
  Model.Flags Model.DataSet Model.DataSetPre Proofs.DataSetBaseP Proofs.DataSetP Proofs.DataSetTopP Proofs.DataSetExP.
From KV Require Model.Select Proofs.SelectP Model.TimeFreq Proofs.TimeFreqP.
Import ListNotations.
Open Scope Z_scope.

(* ------------------------------------------------------------------ the preselection *)

Lemma norm_bounds n o : 0 <= n -> 0 <= fst (norm n o) <= n /\ 0 <= snd (norm n o) <= n.
Proof.
  intro Hn. destruct o as [[a b]|]; cbn [norm fst snd]; [|lia].
  unfold slice_indices. cbn [Z.eqb Z.ltb Z.compare].
  destruct a as [a|], b as [b|]; cbn [fst snd];
    repeat match goal with |- context [?x <? ?y] => destruct (Z.ltb_spec x y) end; lia.
Qed.

(* a normalised, non-empty range is itself *)
Lemma norm_id n a b : 0 <= a -> a < b -> b <= n -> norm n (Some (Some a, Some b)) = (a, b).
Proof.
  intros H0 H1 H2. cbn [norm]. unfold slice_indices. cbn [Z.eqb Z.ltb Z.compare].
  repeat match goal with |- context [?x <? ?y] => destruct (Z.ltb_spec x y) end; try lia.
  f_equal; lia.
Qed.

Lemma open_pre_some st pd pc o : 0 <= s_T st -> 0 <= s_F st -> open_pre st pd pc = Some o ->
  (o_a o, o_b o) = norm (s_T st) pd /\ (o_c o, o_d o) = norm (s_F st) pc
  /\ 0 <= o_a o /\ o_a o < o_b o /\ o_b o <= s_T st /\ 0 <= o_c o /\ o_c o < o_d o /\ o_d o <= s_F st
  /\ match pc with
     | None => o_w o = full_window st /\ o_c o = 0 /\ o_d o = s_F st
     | Some _ => TimeFreq.subrange (full_window st) (o_c o) (o_d o) = Some (o_w o)
     end.
Proof.
  intros HT HF. unfold open_pre.
  pose proof (norm_bounds (s_T st) pd HT) as [A1 A2]. pose proof (norm_bounds (s_F st) pc HF) as [C1 C2].
  set (ab := norm (s_T st) pd) in *. set (cd := norm (s_F st) pc) in *.
  destruct (fst ab <? snd ab) eqn:E1; [|discriminate].
  destruct (fst cd <? snd cd) eqn:E2; [|discriminate].
  apply Z.ltb_lt in E1, E2. cbn [andb].
  destruct pc as [p|].
  - destruct (TimeFreq.subrange _ _ _) as [w|] eqn:Es; [|discriminate]. intro H. injection H as <-.
    cbn [o_a o_b o_c o_d o_w]. rewrite <- !surjective_pairing.
    split; [reflexivity|]. split; [reflexivity|]. repeat (split; [lia|]). exact Es.
  - intro H. injection H as <-. cbn [o_a o_b o_c o_d o_w]. rewrite <- !surjective_pairing.
    split; [reflexivity|]. split; [reflexivity|]. repeat (split; [lia|]).
    subst cd. cbn [norm fst snd]. repeat split.
Qed.

(* no valid preselection is refused: every non-empty range inside the stored axes opens *)
Lemma open_pre_accepts st pd pc : 0 <= s_T st -> 0 < s_F st ->
  fst (norm (s_T st) pd) < snd (norm (s_T st) pd) -> fst (norm (s_F st) pc) < snd (norm (s_F st) pc) ->
  exists o, open_pre st pd pc = Some o.
Proof.
  intros HT HF E1 E2. unfold open_pre.
  apply Z.ltb_lt in E1 as E1b. apply Z.ltb_lt in E2 as E2b. rewrite E1b, E2b. cbn [andb].
  destruct pc as [p|]; [|eexists; reflexivity].
  destruct (TimeFreq.subrange _ _ _) as [w|] eqn:Es; [eexists; reflexivity|].
  exfalso. apply TimeFreqP.subrange_none in Es. apply Es.
  destruct (TimeFreqP.v4_spw_closed (s_centre st) (s_bw st) (s_F st) HF) as (_ & _ & N & _).
  unfold full_window. rewrite N. pose proof (norm_bounds (s_F st) (Some p) ltac:(lia)). lia.
Qed.

(* ------------------------------------------------------------------ what the data source serves *)

Lemma slice_length {A} a b (l : list A) :
  List.length (TimeFreq.slice a b l) = Nat.min (b - a) (List.length l - a).
Proof. unfold TimeFreq.slice. now rewrite firstn_length, skipn_length. Qed.

Lemma nth_nil {A} n (d : A) : nth n [] d = d.
Proof. destruct n; reflexivity. Qed.

Lemma child_leaf a j : child (Leaf a) j = Leaf 0.
Proof. unfold child. cbn [children]. apply nth_nil. Qed.

(* row i of stored[a:b] is row a + i of stored *)
Lemma child_slice a b t i : 0 <= a -> 0 <= i < b - a ->
  child (Node (TimeFreq.slice (Z.to_nat a) (Z.to_nat b) (children t))) i = child t (a + i).
Proof.
  intros Ha Hi. unfold child. cbn [children].
  rewrite TimeFreqP.nth_slice by lia. f_equal. lia.
Qed.

Lemma get_served1 S o i : 0 <= o_a o -> 0 <= i < o_b o - o_a o ->
  get (served1 S o) [i] = get S [o_a o + i].
Proof. intros Ha Hi. cbn [get]. unfold served1. now apply child_slice. Qed.

(* element (i, j, l) of stored[a:b, c:d, :] is element (a + i, c + j, l) of stored *)
Lemma get_served S o i j l : 0 <= o_a o -> 0 <= o_c o -> 0 <= i < o_b o - o_a o -> 0 <= j < o_d o - o_c o ->
  get (served S o) [i; j; l] = get S [o_a o + i; o_c o + j; l].
Proof.
  intros Ha Hc Hi Hj. cbn [get]. f_equal.
  set (row := fun r => Node (TimeFreq.slice (Z.to_nat (o_c o)) (Z.to_nat (o_d o)) (children r))).
  set (SL := TimeFreq.slice (Z.to_nat (o_a o)) (Z.to_nat (o_b o)) (children S)).
  assert (E : child (served S o) i = row (nth (Z.to_nat i) SL (Leaf 0)) \/
              (child (served S o) i = Leaf 0 /\ child S (o_a o + i) = Leaf 0)).
  { unfold served. fold row. fold SL. unfold child at 1. cbn [children].
    destruct (Nat.lt_ge_cases (Z.to_nat i) (List.length SL)) as [L|L].
    - left. change (nth (Z.to_nat i) (map row SL) (Leaf 0) = row (nth (Z.to_nat i) SL (Leaf 0))).
      rewrite (nth_indep (map row SL) (Leaf 0) (row (Leaf 0))); [apply map_nth|rewrite List.map_length; exact L].
    - right. split; [unfold child; cbn [children]; apply nth_overflow; rewrite List.map_length; exact L|].
      unfold child. apply nth_overflow. unfold SL in L. rewrite slice_length in L. lia. }
  destruct E as [E|[E1 E2]].
  - rewrite E. unfold SL. rewrite TimeFreqP.nth_slice by lia. unfold row.
    rewrite child_slice by lia. f_equal. unfold child. f_equal. lia.
  - rewrite E1, E2. now rewrite !child_leaf.
Qed.

(* the stored array as labels: element (t, f, b) carries its C-order position *)
Lemma get_arange3 T F B t f b : 0 <= t < T -> 0 <= f < F -> 0 <= b < B ->
  get (arange [T; F; B] 0) [t; f; b] = Leaf (pos3 F B t f b).
Proof.
  intros Ht Hf Hb. cbn [get]. rewrite !child_arange by lia. cbn [arange]. unfold pos3. f_equal; lia.
Qed.

(* ------------------------------------------------------------------ elements *)

Lemma cfg_ok_v4 c : c_fmt c = V4 -> cfg_ok c.
Proof. intro H. unfold cfg_ok. now rewrite H. Qed.

Lemma znth_resolved n ix ps l i : resolve_keep (zlen l) ix = Ok ps -> in_range n l -> 0 <= i < zlen ps ->
  0 <= znth l (znth ps i) < n.
Proof.
  intros R Hl Hi. pose proof (resolve_keep_in_range (zlen l) ix ps (zlen_nonneg l) R) as Hp.
  unfold in_range in Hp, Hl. rewrite Forall_forall in Hp, Hl.
  apply Hl. apply znth_in. apply Hp. now apply znth_in.
Qed.

(* C01_preselect_elements *)
Lemma pre_elements st o c S h1 k h2 d1 d2 ix2 out : c_fmt c = V4 -> pre_ok st o c -> k <> KTime ->
  run c (start c) h1 = Some d1 ->
  run c (start c) (h1 ++ OAcquire k :: h2) = Some d2 ->
  index_op (served S o) d2 (List.length (ds_ixs d1)) ix2 = Ok out ->
  let s := ds_sel d1 in
  exists pt pf pb,
    resolve_keep (zlen (dumps s)) (ix_at ix2 3 0) = Ok pt
    /\ resolve_keep (zlen (channels s)) (ix_at ix2 3 1) = Ok pf
    /\ resolve_keep (zlen (cp_idx s)) (ix_at ix2 3 2) = Ok pb
    /\ nd_shape out = [zlen pt; zlen pf; zlen pb]
    /\ forall i j l, 0 <= i < zlen pt -> 0 <= j < zlen pf -> 0 <= l < zlen pb ->
         get (nd_body out) [i; j; l]
         = get S [o_a o + znth (dumps s) (znth pt i); o_c o + znth (channels s) (znth pf j);
                  znth (cp_idx s) (znth pb l)].
Proof.
  intros Hv (Ha & Hc & HT & HF & HB) Hk H1 H2 H s.
  destruct (elements_history c (served S o) h1 k h2 d1 d2 ix2 out (cfg_ok_v4 c Hv) Hk H1 H2 H)
    as [_ (pt & pf & pb & Rt & Rf & Rb & Hs & He)].
  exists pt, pf, pb. repeat (split; [assumption|]). intros i j l Hi Hj Hl.
  rewrite (He i j l Hi Hj Hl).
  destruct (coordinates_history c h1 d1 H1) as (Dt & Df & _).
  apply get_served; try assumption.
  - rewrite <- HT. exact (znth_resolved _ _ _ _ _ Rt Dt Hi).
  - rewrite <- HF. exact (znth_resolved _ _ _ _ _ Rf Df Hj).
Qed.

(* ... on labels: the element is the C-order position, in the STORED array, of
   (a + dumps[.], c + channels[.], corr_products[.]) *)
Lemma pre_element_labels st o c h1 k h2 d1 d2 ix2 out : c_fmt c = V4 -> pre_ok st o c -> k <> KTime ->
  o_b o <= s_T st -> o_d o <= s_F st ->
  run c (start c) h1 = Some d1 ->
  run c (start c) (h1 ++ OAcquire k :: h2) = Some d2 ->
  index_op (served (stored_labels_of st k) o) d2 (List.length (ds_ixs d1)) ix2 = Ok out ->
  let s := ds_sel d1 in
  exists pt pf pb,
    spec_index_pre st o s k ix2
    = Ok ([zlen pt; zlen pf; zlen pb],
          flat_map (fun i => flat_map (fun j => map (fun l =>
            pos3 (s_F st) (s_B st) (o_a o + znth (dumps s) i) (o_c o + znth (channels s) j) (znth (cp_idx s) l))
            pb) pf) pt)
    /\ nd_shape out = [zlen pt; zlen pf; zlen pb]
    /\ forall i j l, 0 <= i < zlen pt -> 0 <= j < zlen pf -> 0 <= l < zlen pb ->
         get (nd_body out) [i; j; l]
         = Leaf (pos3 (s_F st) (s_B st) (o_a o + znth (dumps s) (znth pt i)) (o_c o + znth (channels s) (znth pf j))
                      (znth (cp_idx s) (znth pb l))).
Proof.
  intros Hv Hp Hk Hb Hd H1 H2 H s. subst s.
  destruct (pre_elements st o c _ h1 k h2 d1 d2 ix2 out Hv Hp Hk H1 H2 H)
    as (pt & pf & pb & Rt & Rf & Rb & Hs & He).
  destruct Hp as (Ha & Hc & HT & HF & HB).
  exists pt, pf, pb. split; [|split; [exact Hs|]].
  - unfold spec_index_pre. destruct k; try congruence; rewrite Rt, Rf, Rb; reflexivity.
  - intros i j l Hi Hj Hl. rewrite (He i j l Hi Hj Hl).
    destruct (coordinates_history c h1 d1 H1) as (Dt & Df & Db & _).
    pose proof (znth_resolved _ _ _ _ _ Rt Dt Hi). pose proof (znth_resolved _ _ _ _ _ Rf Df Hj).
    pose proof (znth_resolved _ _ _ _ _ Rb Db Hl).
    unfold stored_labels_of. destruct k; try congruence; apply get_arange3; lia.
Qed.

(* the timestamps array / indexer *)
Lemma pre_time_elements st o c S h1 h2 d1 d2 ix2 out : c_fmt c = V4 -> pre_ok st o c ->
  run c (start c) h1 = Some d1 ->
  run c (start c) (h1 ++ OAcquire KTime :: h2) = Some d2 ->
  index_op (served1 S o) d2 (List.length (ds_ixs d1)) ix2 = Ok out ->
  let s := ds_sel d1 in
  exists pt,
    resolve_keep (zlen (dumps s)) (ix_at ix2 1 0) = Ok pt
    /\ nd_shape out = [zlen pt]
    /\ forall i, 0 <= i < zlen pt -> get (nd_body out) [i] = get S [o_a o + znth (dumps s) (znth pt i)].
Proof.
  intros Hv (Ha & Hc & HT & HF & HB) H1 H2 H s.
  destruct (time_elements_history c (served1 S o) h1 h2 d1 d2 ix2 out (cfg_ok_v4 c Hv) H1 H2 H)
    as (pt & Rt & Hs & He).
  exists pt. repeat (split; [assumption|]). intros i Hi. rewrite (He i Hi).
  destruct (coordinates_history c h1 d1 H1) as (Dt & _).
  apply get_served1; [assumption|]. rewrite <- HT. exact (znth_resolved _ _ _ _ _ Rt Dt Hi).
Qed.

(* ------------------------------------------------------------------ labels: freqs *)

Lemma freqs_full_length w : 0 <= TimeFreq.s_n w -> zlen (TimeFreq.freqs_full w) = TimeFreq.s_n w.
Proof. intro H. unfold zlen, TimeFreq.freqs_full. rewrite List.map_length, TimeFreqP.length_zrange. lia. Qed.

Lemma freqs_full_nth w k : 0 <= k < TimeFreq.s_n w ->
  nth (Z.to_nat k) (TimeFreq.freqs_full w) 0%Q = TimeFreq.chan_freq w k.
Proof.
  intro H. unfold TimeFreq.freqs_full.
  rewrite (nth_indep _ 0%Q (TimeFreq.chan_freq w 0)) by (rewrite List.map_length, TimeFreqP.length_zrange; lia).
  rewrite map_nth, TimeFreqP.nth_zrange by lia. f_equal. lia.
Qed.

(* the window of the opened data set: d - c channels, channel j at the documented frequency of STORED channel c + j *)
Lemma pre_window st pd pc o : 0 <= s_T st -> 0 < s_F st -> open_pre st pd pc = Some o ->
  TimeFreq.s_n (o_w o) = o_d o - o_c o
  /\ forall j, (TimeFreq.chan_freq (o_w o) j
                == TimeFreq.spec_chan_freq (s_centre st) (s_bw st) (s_F st) 1 (o_c o + j))%Q.
Proof.
  intros HT HF H. destruct (open_pre_some st pd pc o HT ltac:(lia) H) as (_ & _ & A0 & A1 & A2 & C0 & C1 & C2 & W).
  assert (F : forall k, (TimeFreq.chan_freq (full_window st) k
                         == TimeFreq.spec_chan_freq (s_centre st) (s_bw st) (s_F st) 1 k)%Q).
  { intro k. unfold full_window.
    destruct (TimeFreqP.v4_channel_formula (s_centre st) (s_bw st) (s_F st) k HF) as [E _]. rewrite E.
    unfold TimeFreq.spec_chan_freq. unfold Qdiv. ring. }
  destruct (TimeFreqP.v4_spw_closed (s_centre st) (s_bw st) (s_F st) HF) as (_ & _ & N & _).
  destruct pc as [p|].
  - destruct (TimeFreqP.subrange_some _ _ _ _ W) as (_ & _ & _ & _ & _ & Nw & _). split; [exact Nw|].
    intro j. rewrite (TimeFreqP.subrange_aligned _ _ _ _ j W). apply F.
  - destruct W as (-> & -> & ->). split; [unfold full_window; rewrite N; lia|]. intro j. rewrite F.
    now replace (0 + j) with j by lia.
Qed.

(* C01_preselect_freqs *)
Lemma pre_freq_labels st pd pc o c h d : 0 <= s_T st -> 0 < s_F st -> open_pre st pd pc = Some o ->
  c_fmt c = V4 -> pre_ok st o c -> run c (start c) h = Some d ->
  let s := ds_sel d in
  zlen (pre_freqs o s) = zlen (channels s)
  /\ forall j, 0 <= j < zlen (channels s) ->
       (nth (Z.to_nat j) (pre_freqs o s) 0
        == TimeFreq.spec_chan_freq (s_centre st) (s_bw st) (s_F st) 1 (o_c o + znth (channels s) j))%Q.
Proof.
  intros HT HFp Ho Hv (Ha & Hc & HTn & HF & HB) H s. subst s.
  destruct (pre_window st pd pc o HT HFp Ho) as [Nw Fw].
  assert (Hn : 0 <= TimeFreq.s_n (o_w o)) by (rewrite Nw, <- HF; unfold nF; lia).
  assert (L : zlen (TimeFreq.freqs_full (o_w o)) = nF c) by (rewrite freqs_full_length by exact Hn; lia).
  destruct (shape_history c h d (cfg_ok_v4 c Hv) H) as (_ & _ & S3 & _).
  destruct (labels_history c h d (cfg_ok_v4 c Hv) H) as (_ & L2 & _).
  split; [exact (S3 _ _ L)|]. intros j Hj. unfold pre_freqs.
  rewrite (L2 _ _ 0%Q j L Hj).
  destruct (coordinates_history c h d H) as (_ & Df & _). unfold in_range in Df. rewrite Forall_forall in Df.
  pose proof (Df _ (znth_in _ _ Hj)) as R.
  rewrite freqs_full_nth by lia. apply Fw.
Qed.

(* ------------------------------------------------------------------ labels: timestamps *)

Lemma pre_ts_length st o : 0 <= o_b o - o_a o -> zlen (pre_ts st o) = o_b o - o_a o.
Proof. intro H. unfold zlen, pre_ts. rewrite List.map_length, TimeFreqP.length_zrange. lia. Qed.

Lemma pre_ts_nth st o k : 0 <= k < o_b o - o_a o ->
  nth (Z.to_nat k) (pre_ts st o) 0%Q = TimeFreq.model_timestamp (s_tm st) (o_a o) k.
Proof.
  intro H. unfold pre_ts.
  rewrite (nth_indep _ 0%Q (TimeFreq.model_timestamp (s_tm st) (o_a o) 0))
    by (rewrite List.map_length, TimeFreqP.length_zrange; lia).
  rewrite map_nth, TimeFreqP.nth_zrange by lia. f_equal. lia.
Qed.

(* C01_preselect_timestamps *)
Lemma pre_timestamp_labels st o c h d : c_fmt c = V4 -> c_dup c = false -> c_ts c = pre_ts st o -> pre_ok st o c ->
  run c (start c) h = Some d ->
  let s := ds_sel d in
  zlen (timestamps c s) = zlen (dumps s)
  /\ forall i, 0 <= i < zlen (dumps s) ->
       (nth (Z.to_nat i) (timestamps c s) 0
        == TimeFreq.spec_timestamp (s_tm st) (o_a o + znth (dumps s) i))%Q.
Proof.
  intros Hv Hdup Hts (Ha & Hc & HT & HF & HB) H s. subst s.
  assert (Hn : 0 <= o_b o - o_a o) by (rewrite <- HT; unfold nT; lia).
  assert (L : zlen (c_ts c) = stored_rows c).
  { rewrite Hts, pre_ts_length by exact Hn. unfold stored_rows. rewrite Hdup. lia. }
  destruct (shape_history c h d (cfg_ok_v4 c Hv) H) as (_ & S2 & _).
  destruct (labels_history c h d (cfg_ok_v4 c Hv) H) as (L1 & _).
  split; [apply S2; lia|]. intros i Hi. rewrite (L1 L i Hi).
  destruct (conv_t_forms c (nth (Z.to_nat (znth (dumps (ds_sel d)) i)) (c_ts c) 0%Q)) as (_ & _ & _ & E4).
  rewrite (E4 Hv).
  destruct (coordinates_history c h d H) as (Dt & _). unfold in_range in Dt. rewrite Forall_forall in Dt.
  pose proof (Dt _ (znth_in _ _ Hi)) as R.
  rewrite Hts, pre_ts_nth by lia. apply TimeFreqP.preselect_timestamp.
Qed.

(* ------------------------------------------------------------------ the stored coordinates *)

Lemma Forall_map_add a n l : in_range n l -> Forall (fun p => a <= p < a + n) (map (Z.add a) l).
Proof.
  unfold in_range. rewrite !Forall_forall. intros H p Hp. apply in_map_iff in Hp. destruct Hp as (q & <- & Hq).
  specialize (H q Hq). lia.
Qed.

(* C01_preselect_coordinates *)
Lemma pre_coordinates st pd pc o c h d : 0 <= s_T st -> 0 <= s_F st -> open_pre st pd pc = Some o -> pre_ok st o c ->
  run c (start c) h = Some d ->
  let s := ds_sel d in
  Forall (fun p => o_a o <= p < o_b o) (stored_dumps o s) /\ Forall (fun p => o_c o <= p < o_d o) (stored_channels o s)
  /\ 0 <= o_a o /\ o_b o <= s_T st /\ 0 <= o_c o /\ o_d o <= s_F st
  /\ zlen (stored_dumps o s) = zlen (dumps s) /\ zlen (stored_channels o s) = zlen (channels s).
Proof.
  intros HT HF Ho (Ha & Hc & HTn & HFn & HB) H s. subst s.
  destruct (open_pre_some st pd pc o HT HF Ho) as (_ & _ & A0 & A1 & A2 & C0 & C1 & C2 & _).
  destruct (coordinates_history c h d H) as (Dt & Df & _).
  unfold stored_dumps, stored_channels. rewrite !zlen_map.
  repeat split; try lia.
  - replace (o_b o) with (o_a o + nT c) by lia. now apply Forall_map_add.
  - replace (o_d o) with (o_c o + nF c) by lia. now apply Forall_map_add.
Qed.

(* ------------------------------------------------------------------ the configuration the wire runs *)

Lemma pre_cfg_facts st o c0 :
  c_fmt (pre_cfg st o c0) = V4 /\ c_dup (pre_cfg st o c0) = false /\ c_ts (pre_cfg st o c0) = pre_ts st o
  /\ c_obs (pre_cfg st o c0) = c_obs c0.
Proof. repeat split. Qed.

Lemma pre_okb_ok st o c : pre_okb st o c = true -> pre_ok st o c.
Proof.
  unfold pre_okb, pre_ok. rewrite !andb_true_iff. intros [[[[A B] C] D] E].
  apply Z.leb_le in A, B. apply Z.eqb_eq in C, D, E. repeat split; assumption.
Qed.


(* ------------------------------------------------------------------ statements used verbatim by Props/C01.v *)

Lemma preselect_opens st pd pc : 0 <= s_T st -> 0 < s_F st ->
  (forall o, open_pre st pd pc = Some o ->
     (o_a o, o_b o) = norm (s_T st) pd /\ (o_c o, o_d o) = norm (s_F st) pc
     /\ 0 <= o_a o /\ o_a o < o_b o /\ o_b o <= s_T st /\ 0 <= o_c o /\ o_c o < o_d o /\ o_d o <= s_F st
     /\ TimeFreq.s_n (o_w o) = o_d o - o_c o)
  /\ (fst (norm (s_T st) pd) < snd (norm (s_T st) pd) -> fst (norm (s_F st) pc) < snd (norm (s_F st) pc) ->
      exists o, open_pre st pd pc = Some o).
Proof.
  intros HT HF. split.
  - intros o H. destruct (open_pre_some st pd pc o HT ltac:(lia) H) as (A & B & C & D & E & F & G & I & _).
    destruct (pre_window st pd pc o HT HF H) as [N _]. repeat split; assumption.
  - exact (open_pre_accepts st pd pc HT HF).
Qed.

Lemma preselect_wire_cfg st o c0 :
  c_fmt (pre_cfg st o c0) = V4 /\ c_dup (pre_cfg st o c0) = false /\ c_ts (pre_cfg st o c0) = pre_ts st o
  /\ c_obs (pre_cfg st o c0) = c_obs c0
  /\ (pre_okb st o (pre_cfg st o c0) = true -> pre_ok st o (pre_cfg st o c0)).
Proof.
  destruct (pre_cfg_facts st o c0) as (A & B & C & D).
  split; [exact A|]. split; [exact B|]. split; [exact C|]. split; [exact D|]. exact (pre_okb_ok st o (pre_cfg st o c0)).
Qed.

(* ------------------------------------------------------------------ non-vacuity *)

(* 9 stored channels (odd), preselect channels 2:6 (first + last even), dumps 3:7 of 8; then select(channels=[1, 3],
   dumps=slice(1, 3)): the data set's channels [1, 3] are STORED channels [3, 5], its dumps [1, 2] stored dumps [4, 5];
   freqs are the documented frequencies of stored channels 3 and 5 (centre channel 9 // 2 = 4: one below / one above
   the centre frequency 1284), not those of channels 2 and 4 *)
Definition ex_tm : TimeFreq.timing := TimeFreq.mkTiming 1600000000 100 8 0 None false true.
Definition ex_store : store := {| s_T := 8; s_F := 9; s_B := 4; s_tm := ex_tm; s_centre := 1284; s_bw := 9 |}.
Definition ex_pd : oslice := Some (Some 3, Some 7).
Definition ex_pc : oslice := Some (Some 2, Some (-3)).
Definition ex_obs4 : Select.obs :=
  {| Select.o_dumps := map ex_dump [0; 1; 2; 3]; Select.o_half := 2; Select.o_targets := Select.o_targets ex_obs;
     Select.o_freqs := [10; 14; 18; 22]; Select.o_halfw := 2; Select.o_cps := Select.o_cps ex_obs |}.
Definition ex_c0 : cfg := {| c_fmt := V4; c_obs := ex_obs4; c_dup := false; c_upper := true; c_centroid := false;
  c_segs := []; c_dump := 8; c_cbf_dump := 8; c_off := 0; c_ts := []; c_atoms := ex_atoms |}.
Definition kw_pre : Select.kwargs :=
  [("channels"%string, Select.VIdx (IxList [1; 3])); ("dumps"%string, Select.VIdx (IxSlice (Some 1) (Some 3) None))].

Lemma example_pre :
  exists o, open_pre ex_store ex_pd ex_pc = Some o
    /\ (o_a o, o_b o, o_c o, o_d o) = (3, 7, 2, 6)
    /\ pre_okb ex_store o (pre_cfg ex_store o ex_c0) = true
    /\ option_map (fun d => (stored_dumps o (ds_sel d), stored_channels o (ds_sel d)))
         (run (pre_cfg ex_store o ex_c0) (start (pre_cfg ex_store o ex_c0)) [OSelect kw_pre])
       = Some ([4; 5], [3; 5])
    /\ option_map (fun d => map Qred (pre_freqs o (ds_sel d)))
         (run (pre_cfg ex_store o ex_c0) (start (pre_cfg ex_store o ex_c0)) [OSelect kw_pre])
       = Some [1283; 1285]%Q
    /\ option_map (fun d => map Qred (spec_pre_freqs ex_store o (ds_sel d)))
         (run (pre_cfg ex_store o ex_c0) (start (pre_cfg ex_store o ex_c0)) [OSelect kw_pre])
       = Some [1283; 1285]%Q
    /\ option_map (fun d => map Qred (timestamps (pre_cfg ex_store o ex_c0) (ds_sel d)))
         (run (pre_cfg ex_store o ex_c0) (start (pre_cfg ex_store o ex_c0)) [OSelect kw_pre])
       = Some [1600000132; 1600000140]%Q
    /\ (match run (pre_cfg ex_store o ex_c0) (start (pre_cfg ex_store o ex_c0))
                [OSelect kw_pre; OAcquire KVis; OSelect []] with
        | Some d => labels_of (index_op (served (stored_labels_of ex_store KVis) o) d 0 [AInt 0; full; AInt 1])
        | None => None end)
       = Some ([1; 2; 1], [pos3 9 4 4 3 1; pos3 9 4 4 5 1]).
Proof. eexists. split; [vm_compute; reflexivity|]. repeat split; vm_compute; reflexivity. Qed.
