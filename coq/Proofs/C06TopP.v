(* C06 round 2, top level: shapes for every normalised window (also empty ones), model = spec for every raw index
   that get_dask_array accepts, preselection = selection afterwards, non-vacuity examples. *)
From Coq Require Import ZArith List Bool Lia ZifyBool String.
From KV Require Import Gen.Generated Base.Sx Base.Str Model.Prune Model.LostMap Model.LostIO
                       Proofs.PruneP Proofs.LostMapP Proofs.LostMapNdP Proofs.C06P Proofs.LostIOP.
Import ListNotations.
Open Scope Z_scope.

(* ---------- shapes ---------- *)
(* prune + slice deliver exactly the window, as positive blocks, for EVERY normalised window (lo = hi included) *)
Lemma axis_shape cs w : allpos cs -> win_norm cs w ->
  allpos (ax_sizes (mk_axis cs w)) /\ zsum (ax_sizes (mk_axis cs w)) = wsize cs w.
Proof.
  intros P W. destruct w as [[lo hi]|]; simpl in W.
  - destruct (Z.eq_dec lo hi) as [E|N].
    + subst hi. unfold mk_axis, prune_axis.
      destruct (prune_core cs lo lo) as [[[cs2 s1] e1] off] eqn:E.
      apply prune_core_spec in E.
      destruct E as (pre & post & Hcs & -> & -> & -> & Ha & Hb & Hn & _).
      unfold ax_sizes. cbn [ax_blocks wsize].
      assert (G : forall l k s, slice_axis l k s s = []).
      { induction l as [|c t IH]; intros k s; [reflexivity|]. cbn [slice_axis].
        destruct (Z.max 0 s <? Z.min c s) eqn:X; [lia|]. rewrite IH. reflexivity. }
      rewrite G. simpl. split; [constructor|lia].
    + apply axis_sizes; [exact P|]. simpl. lia.
  - apply axis_sizes; [exact P|exact Logic.I].
Qed.

Lemma in_combine_repeat {A B} (b : B) : forall (l : list A) k x y, In (x, y) (combine l (repeat b k)) -> In x l /\ y = b.
Proof.
  induction l as [|a l IH]; intros [|k] x y H; simpl in H; try contradiction.
  destruct H as [H|H]; [inversion H; subst; split; [left|]; reflexivity|].
  destruct (IH k x y H) as [A1 A2]. split; [right; exact A1|exact A2].
Qed.

Lemma combine_pad_norm : forall chs win k cw, Forall allpos chs -> Forall2 win_norm (firstn (List.length win) chs) win ->
  In cw (combine chs (win ++ repeat None k)) -> allpos (fst cw) /\ win_norm (fst cw) (snd cw).
Proof.
  induction chs as [|cs chs IH]; intros win k [x y] P F Hin; [destruct Hin|].
  inversion P; subst.
  destruct win as [|w win].
  - cbn [app] in Hin. apply in_combine_repeat in Hin. destruct Hin as [Hx ->]. cbn [fst snd]. split; [|exact Logic.I].
    destruct Hx as [<-|Hx]; [assumption|]. rewrite Forall_forall in H2. apply H2. exact Hx.
  - cbn [List.length firstn] in F. inversion F; subst.
    cbn [app combine] in Hin. destruct Hin as [Hin|Hin].
    + inversion Hin; subst. cbn [fst snd]. split; assumption.
    + apply (IH win k (x, y)); assumption.
Qed.

Lemma gda_eq cs win : get_dask_array cs win =
  map (fun cw => mk_axis (fst cw) (snd cw)) (combine cs (win ++ repeat None (List.length cs))).
Proof. unfold get_dask_array, pad_win. rewrite combine_firstn_r. reflexivity. Qed.

(* the shape of the dask array get_dask_array builds, for every index it accepts: per axis the size of the window *)
Lemma gda_shape chunks index win : Forall allpos chunks -> gda_windows chunks index = Some win ->
  map zsum (chunks_of (get_dask_array chunks win)) =
  map (fun cw => wsize (fst cw) (snd cw)) (combine chunks (pad_win win (List.length chunks))) /\
  Forall allpos (chunks_of (get_dask_array chunks win)).
Proof.
  intros P G. pose proof (gda_windows_norm chunks index win P G) as F.
  rewrite gda_eq. unfold chunks_of, pad_win. rewrite combine_firstn_r, !map_map. split.
  - apply map_ext_in. intros cw Hin. destruct (combine_pad_norm _ _ _ _ P F Hin) as [A B].
    apply (axis_shape _ _ A B).
  - rewrite Forall_forall. intros l Hl. rewrite in_map_iff in Hl. destruct Hl as (cw & <- & Hin).
    destruct (combine_pad_norm _ _ _ _ P F Hin) as [A B]. apply (axis_shape _ _ A B).
Qed.

(* ---------- any accepted raw index ---------- *)
Fixpoint in_window (chs : list (list Z)) (ws : list (option (Z * Z))) (p : list Z) : Prop :=
  match chs, ws, p with
  | [], _, [] => True
  | cs :: chs', w :: ws', x :: p' => 0 <= x < wsize cs w /\ in_window chs' ws' p'
  | _, _, _ => False
  end.

Fixpoint norm_all (chs : list (list Z)) (ws : list (option (Z * Z))) : Prop :=
  match chs, ws with
  | [], _ => True
  | cs :: chs', w :: ws' => win_norm cs w /\ norm_all chs' ws'
  | _ :: _, [] => False
  end.

Lemma norm_all_pad : forall chs win, Forall2 win_norm (firstn (List.length win) chs) win ->
  norm_all chs (pad_win win (List.length chs)).
Proof.
  induction chs as [|cs chs IH]; intros win F; [exact Logic.I|].
  destruct win as [|w win].
  - unfold pad_win. cbn [app List.length repeat firstn norm_all]. split; [exact Logic.I|].
    apply (IH []). constructor.
  - cbn [List.length firstn] in F. inversion F; subst.
    unfold pad_win. cbn [app List.length firstn norm_all]. split; [assumption|].
    rewrite (firstn_pad (List.length chs) (S (List.length chs)) (List.length chs)) by lia.
    apply IH. assumption.
Qed.

Lemma axes_ok_of : forall flc ac ws p, Forall allpos ac -> sums_agree flc ac -> norm_all flc ws -> in_window flc ws p ->
  axes_ok ac ws p.
Proof.
  induction flc as [|f flc IH]; intros ac ws p P S N W.
  - destruct ac; [exact Logic.I|simpl in S; contradiction].
  - destruct ac as [|a ac]; [exact Logic.I|].
    destruct ws as [|w ws]; [simpl in N; contradiction|]. destruct p as [|x p]; [simpl in W; contradiction|].
    cbn [sums_agree norm_all in_window] in S, N, W. destruct S as [Sz S]. destruct N as [Nw N]. destruct W as [Wx W].
    inversion P; subst. cbn [axes_ok].
    assert (Wa : wsize a w = wsize f w) by (destruct w as [[lo hi]|]; simpl; lia).
    split; [assumption|]. split; [|split; [lia|apply (IH ac ws p); assumption]].
    destruct w as [[lo hi]|]; simpl in *; [lia|exact Logic.I].
Qed.

Lemma in_window_length : forall chs ws p, in_window chs ws p -> List.length p = List.length chs.
Proof.
  induction chs as [|cs chs IH]; intros ws p W.
  - destruct p; [reflexivity|destruct ws; simpl in W; contradiction].
  - destruct ws as [|w ws]; [simpl in W; contradiction|]. destruct p as [|x p]; [simpl in W; contradiction|].
    simpl in W. simpl. f_equal. apply (IH ws p). tauto.
Qed.

(* the hypotheses in the caller's terms: the window list is what get_dask_array computes from the raw index; the four
   arrays are chunked into positive chunks, have at most as many axes as flags and the same axis lengths; p is an
   element of the selected region *)
Definition load_ok (c : cfg) (index : list pidx) (p : list Z) : Prop :=
  gda_windows (arr_chunks c A_FLAGS) index = Some (c_win c) /\
  Forall (fun a => Forall allpos (arr_chunks c a) /\ (List.length (arr_chunks c a) <= nd c)%nat /\
                   sums_agree (arr_chunks c A_FLAGS) (arr_chunks c a)) [A_VIS; A_FLAGS; A_W; A_WC] /\
  in_window (arr_chunks c A_FLAGS) (pad_win (c_win c) (nd c)) p.

Lemma load_cfg_ok c index p : load_ok c index p -> cfg_ok c p.
Proof.
  intros (G & F & W).
  assert (PF : Forall allpos (arr_chunks c A_FLAGS)).
  { inversion F as [|? ? _ F1]; subst. inversion F1 as [|? ? H _]; subst. tauto. }
  pose proof (norm_all_pad _ _ (gda_windows_norm _ _ _ PF G)) as N. fold (nd c) in N.
  assert (A : forall a, In a [A_VIS; A_FLAGS; A_W; A_WC] -> arr_ok c a p).
  { intros a Ha. rewrite Forall_forall in F. destruct (F a Ha) as (P & L & S).
    split; [exact L|]. split; [|exact S]. apply (axes_ok_of (arr_chunks c A_FLAGS)); assumption. }
  split; [exact (in_window_length _ _ _ W)|].
  repeat split; apply A; simpl; tauto.
Qed.

Lemma any_preselection c index p : load_ok c index p ->
  model_vis c p = spec_vis c p /\ model_weights c p = spec_weights c p /\ model_flags c p = spec_flags c p.
Proof.
  intro H. pose proof (load_cfg_ok c index p H) as OK.
  split; [|split]; [apply vis_model_is_spec|apply weights_model_is_spec|apply flags_model_is_spec]; exact OK.
Qed.

(* ---------- preselecting = loading everything and selecting afterwards ---------- *)
Definition no_win (c : cfg) : cfg := {| c_chunks := c_chunks c; c_win := []; c_miss := c_miss c; c_dat := c_dat c |}.

Lemma pad_win_nil n : pad_win [] n = repeat None n.
Proof. unfold pad_win. cbn [app]. induction n as [|n IH]; [reflexivity|]. cbn [repeat firstn]. f_equal. exact IH. Qed.

Lemma gmap_none : forall l n, (List.length l <= n)%nat -> gmap (repeat None n) l = l.
Proof.
  unfold gmap. induction l as [|x l IH]; intros [|n] H; simpl in *; try reflexivity; try lia.
  f_equal. apply IH. lia.
Qed.

Lemma gpos_no_win c l : gpos (no_win c) l = l.
Proof. unfold gpos. cbn [no_win c_win]. rewrite pad_win_nil. apply gmap_none. lia. Qed.

Lemma axes_ok_unwindowed : forall chs ws p n, axes_ok chs ws p -> (List.length chs <= n)%nat ->
  axes_ok chs (repeat None n) (gmap ws p).
Proof.
  induction chs as [|cs chs IH]; intros ws p n OK H; [exact Logic.I|].
  destruct ws as [|w ws]; [simpl in OK; contradiction|]. destruct p as [|x p]; [simpl in OK; contradiction|].
  destruct n as [|n]; [simpl in H; lia|].
  cbn [axes_ok] in OK. destruct OK as (P & W & Hx & OK).
  unfold gmap. cbn [combine map fst snd repeat axes_ok]. split; [exact P|]. split; [exact Logic.I|]. split.
  - destruct w as [[lo hi]|]; simpl in *; lia.
  - apply (IH ws p n OK). simpl in H. lia.
Qed.

Lemma gpos_full c p : List.length p = nd c -> gpos c p = gmap (pad_win (c_win c) (nd c)) p.
Proof. intro H. unfold gpos, gmap. rewrite H. reflexivity. Qed.

Lemma gmap_length : forall ws p, (List.length p <= List.length ws)%nat -> List.length (gmap ws p) = List.length p.
Proof. intros ws p H. unfold gmap. rewrite map_length, combine_length. lia. Qed.

Lemma preselect_commutes c p : cfg_ok c p ->
  cfg_ok (no_win c) (gpos c p) /\
  model_vis c p = model_vis (no_win c) (gpos c p) /\
  model_weights c p = model_weights (no_win c) (gpos c p) /\
  model_flags c p = model_flags (no_win c) (gpos c p).
Proof.
  intro OK. pose proof OK as (HL & V & F & W & WC).
  assert (G : gpos c p = gmap (pad_win (c_win c) (nd c)) p) by (apply gpos_full; exact HL).
  assert (GL : List.length (gpos c p) = nd c).
  { rewrite G, gmap_length; [exact HL|]. rewrite pad_win_length. lia. }
  assert (A : forall a, arr_ok c a p -> arr_ok (no_win c) a (gpos c p)).
  { intros a (L & AX & S). split; [exact L|]. split; [|exact S].
    change (nd (no_win c)) with (nd c). change (c_win (no_win c)) with (@nil (option (Z * Z))).
    rewrite pad_win_nil, G. apply axes_ok_unwindowed; assumption. }
  assert (OK0 : cfg_ok (no_win c) (gpos c p)).
  { split; [exact GL|]. repeat split; apply A; assumption. }
  split; [exact OK0|].
  assert (E : forall a, arr_ok c a p -> gpos (no_win c) (own (no_win c) a (gpos c p)) = gpos c (own c a p)).
  { intros a (L & _ & _). rewrite gpos_no_win. rewrite (gpos_own c a p HL L).
    unfold own. change (arr_chunks (no_win c) a) with (arr_chunks c a). rewrite G. reflexivity. }
  assert (LI : forall a, arr_ok c a p -> lost_in (no_win c) a (gpos c p) = lost_in c a p).
  { intros a H. unfold lost_in. rewrite (E a H). reflexivity. }
  assert (ST : forall a, arr_ok c a p -> stored (no_win c) a (gpos c p) = stored c a p).
  { intros a H. unfold stored. rewrite (E a H). reflexivity. }
  rewrite (vis_model_is_spec c p OK), (vis_model_is_spec _ _ OK0),
          (weights_model_is_spec c p OK), (weights_model_is_spec _ _ OK0),
          (flags_model_is_spec c p OK), (flags_model_is_spec _ _ OK0).
  unfold spec_vis, spec_weights, spec_flags.
  rewrite (LI _ V), (LI _ F), (LI _ W), (LI _ WC), (ST _ V), (ST _ F), (ST _ W), (ST _ WC).
  repeat split; reflexivity.
Qed.

(* ================================================================================================ *)
(* non-vacuity: concrete instances of the hypotheses / both outcomes of every decision *)

Lemma ex_norm_window :
  norm_window 10 (Some (-3)) None = Some (7, 10) /\ norm_window 10 (Some 0) (Some 12) = None /\
  norm_window 10 (Some 7) (Some 3) = Some (7, 7) /\ norm_window 10 None (Some 0) = Some (0, 0) /\
  norm_window 10 (Some (-20)) (Some (-1)) = Some (0, 9).
Proof. vm_compute. repeat split; reflexivity. Qed.

Lemma ex_prune_chunks :
  prune_chunks [[2;3;5]; [4;4]] [PSlice (Some 2) (Some (-5)) None] = Some [([3], Some (0, 3), 2); ([4;4], None, 0)] /\
  prune_chunks [[2;3;5]; [4;4]] [PSlice (Some 5) (Some 5) (Some 1); full_slice] = Some [([5], Some (0, 0), 5); ([4;4], None, 0)] /\
  prune_chunks [[2;3;5]; [4;4]] [PSlice None None (Some 2)] = None /\
  prune_chunks [[2;3;5]; [4;4]] [PInt 1] = None /\
  prune_chunks [[2;3;5]; [4;4]] [full_slice; full_slice; full_slice] = None /\
  prune_chunks [[2;3;5]] [POther] = None.
Proof. vm_compute. repeat split; reflexivity. Qed.

Lemma ex_preselect :
  preselect_index [("channels"%string, PSlice (Some 1) (Some 3) None)] = Some [full_slice; PSlice (Some 1) (Some 3) None] /\
  preselect_index [] = Some [] /\
  preselect_index [("dumps"%string, PSlice None None (Some 2))] = None /\
  preselect_index [("ants"%string, full_slice)] = None /\
  preselect_index [("dumps"%string, PInt 3)] = None.
Proof. vm_compute. repeat split; reflexivity. Qed.

Lemma ex_empty_window_shape :
  ax_sizes (mk_axis [2;3;5] (Some (5, 5))) = [] /\ ax_chunks (mk_axis [2;3;5] (Some (5, 5))) = [5] /\
  ax_sizes (mk_axis [2;3;5] (Some (4, 6))) = [1; 1] /\ ax_chunks (mk_axis [2;3;5] (Some (10, 10))) = [5].
Proof. vm_compute. repeat split; reflexivity. Qed.

Lemma ex_getters :
  vfw_block ex_cfg A_VIS [1%nat; 1%nat; 0%nat] = BPlaceholder /\ vfw_block ex_cfg A_VIS [0%nat; 0%nat; 0%nat] = BData /\
  read_block (getter_of (ENum 8)) false = BFill 8 /\ read_block (getter_of (EStr "dryrun")) true = BPlaceholder /\
  read_block (getter_of (EStr "raise")) false = BRaise /\ read_block (getter_of (EStr "ignore")) true = BRaise /\
  io_vis ex_cfg [1; 2; 1] = Some 0 /\ io_flags ex_cfg [1; 2; 1] = Some (Z.lor (stored ex_cfg A_FLAGS [1; 2; 1]) 8).
Proof. vm_compute. repeat split; reflexivity. Qed.

(* a history on the chunkings of ex_cfg: everything written (version 0), then the vis chunk (2,1,0) removed, then
   written again with other values (version 1) *)
Definition ex_vals (v : Z) (a : nat) (pos : list Z) : Z := 100 * v + 1 + Z.of_nat a + lin [3;4;2] pos.
Definition ex_h0 : list op :=
  [Put 0 [0;0;0] 0; Put 0 [0;1;0] 0; Put 0 [2;0;0] 0; Put 0 [2;1;0] 0;
   Put 1 [0;0;0] 0; Put 1 [0;0;1] 0; Put 1 [1;0;0] 0; Put 1 [1;0;1] 0;
   Put 2 [0;0;0] 0; Put 2 [0;2;0] 0;
   Put 3 [0;0] 0; Put 3 [0;3] 0; Put 3 [1;0] 0; Put 3 [1;3] 0; Put 3 [2;0] 0; Put 3 [2;3] 0].
Definition ex_hist (h : list op) : cfg := hist_cfg (c_chunks ex_cfg) [Some (1, 3)] ex_vals h.

Lemma ex_hist_ok h : cfg_ok (ex_hist h) [1; 2; 1].
Proof. exact ex_cfg_ok. Qed.

Lemma ex_hist_values :
  hist_id (c_chunks ex_cfg) [Some (1, 3)] A_VIS [1; 2; 1] = [2; 1; 0] /\
  (model_vis (ex_hist ex_h0) [1; 2; 1], model_flags (ex_hist ex_h0) [1; 2; 1]) = (22, 23) /\
  (model_vis (ex_hist (ex_h0 ++ [Del A_VIS [2;1;0]])) [1; 2; 1],
   model_flags (ex_hist (ex_h0 ++ [Del A_VIS [2;1;0]])) [1; 2; 1]) = (0, 31) /\
  (model_vis (ex_hist (ex_h0 ++ [Del A_VIS [2;1;0]; Put A_VIS [2;1;0] 1])) [1; 2; 1],
   model_flags (ex_hist (ex_h0 ++ [Del A_VIS [2;1;0]; Put A_VIS [2;1;0] 1])) [1; 2; 1]) = (122, 23).
Proof. vm_compute. repeat split; reflexivity. Qed.

(* L0 with 6 dumps, an attached flags stream with 8 dumps in chunks (3, 3, 2): the last flags chunk lies entirely
   beyond L0 and is kept; a flags stream with another number of baselines is refused *)
Definition ex_info (sh : list Z) (ch : list (list Z)) : ainfo := {| i_shape := sh; i_chunks := ch |}.
Definition ex_l0 : list ainfo :=
  [ex_info [6;8;4] [[1;1;1;1;1;1]; [4;4]; [4]]; ex_info [6;8;4] [[1;1;1;1;1;1]; [8]; [4]];
   ex_info [6;8;4] [[2;2;2]; [8]; [2;2]]; ex_info [6;8] [[1;1;1;1;1;1]; [8]]].

Lemma ex_source_info :
  source_info ex_l0 (Some (ex_info [8;8;4] [[3;3;2]; [4;4]; [4]])) =
    Some [ex_info [8;8;4] [[1;1;1;1;1;1;1;1]; [4;4]; [4]]; ex_info [8;8;4] [[3;3;2]; [4;4]; [4]];
          ex_info [8;8;4] [[2;2;2;1;1]; [8]; [2;2]]; ex_info [8;8] [[1;1;1;1;1;1;1;1]; [8]]] /\
  source_info ex_l0 (Some (ex_info [8;8;2] [[3;3;2]; [4;4]; [2]])) = None /\
  Forall info_consistent ex_l0.
Proof.
  split; [vm_compute; reflexivity|]. split; [vm_compute; reflexivity|].
  repeat constructor; discriminate.
Qed.

(* a raw index with a negative bound on the configuration of C06_cfg_ok_satisfiable (3 dumps: -2: is 1:3) *)
Lemma ex_load_ok : load_ok ex_cfg [PSlice (Some (-2)) None None] [1; 2; 1].
Proof.
  split; [vm_compute; reflexivity|]. split.
  - unfold arr_chunks, nd, ex_cfg, allpos. cbn.
    repeat match goal with
           | |- _ /\ _ => split
           | |- Forall _ _ => constructor
           | |- True => exact Logic.I
           end; try lia; try reflexivity; unfold allpos; repeat constructor.
  - vm_compute. repeat split; discriminate.
Qed.

Lemma ex_no_loss :
  let c := with_miss ex_cfg (fun _ _ => false) in
  cfg_ok c [1; 2; 1] /\ model_vis c [1; 2; 1] = stored c A_VIS [1; 2; 1] /\ model_vis c [1; 2; 1] <> 0 /\
  model_flags c [1; 2; 1] = stored c A_FLAGS [1; 2; 1].
Proof. split; [exact ex_cfg_ok|]. vm_compute. repeat split; discriminate. Qed.

Lemma ex_preselect_commutes :
  gpos ex_cfg [1; 2; 1] = [2; 2; 1] /\ model_vis (no_win ex_cfg) [2; 2; 1] = model_vis ex_cfg [1; 2; 1] /\
  model_flags (no_win ex_cfg) [1; 2; 1] = model_flags ex_cfg [0; 2; 1].
Proof. vm_compute. repeat split; reflexivity. Qed.
