(* C09: lemmas about Model/Jwt.v *)
From Coq Require Import ZArith List Bool String Lia.
From KV Require Import Base.Sx Base.Str Gen.Generated Model.S3Retry Model.Jwt.
Import ListNotations.
Open Scope Z_scope.

(* the translated constants are the documented ones *)
Lemma jwt_constants : jwt_sig_alg = "ES256"%string /\ jwt_sig_len = 86 /\
                      jwt_scheme = "https"%string /\ jwt_host_exception = "127.0.0.1"%string.
Proof. repeat split; reflexivity. Qed.

Definition checks (scheme host : string) (t : token) (now : Z) (path : list Z) : option reject :=
  match auth_factory scheme host t now with Some r => Some r | None => bearer_call t path end.

(* the chain of checks of the code rejects exactly the tokens the property lists *)
Lemma checks_iff_bad : forall scheme host t now path,
  bad_token scheme host t now path = match checks scheme host t now path with Some _ => true | None => false end.
Proof.
  intros scheme host t now path.
  unfold bad_token, checks, auth_factory, bearer_init, decode_jwt, bearer_call.
  change jwt_sig_alg with "ES256"%string. change jwt_sig_len with 86.
  change jwt_scheme with "https"%string. change jwt_host_exception with "127.0.0.1"%string.
  destruct (String.eqb scheme "https"); destruct (String.eqb host "127.0.0.1");
    destruct (t_nseg t =? 3); destruct (t_header_ok t); destruct (t_claims_ok t);
    destruct (String.eqb (t_alg t) "ES256"); destruct (t_siglen t =? 86);
    destruct (t_has_prefix t); destruct (existsb _ (t_prefixes t));
    cbn; try reflexivity;
    destruct (t_exp t) as [|v|]; try reflexivity; destruct (now >? v); reflexivity.
Qed.

Lemma token_request_bad : forall scheme host t now path cfg p len fs,
  bad_token scheme host t now path = true ->
  exists e, token_request scheme host t now path cfg p len fs = (Err e, O) /\ (e = InvalidTok \/ e = Auth).
Proof.
  intros scheme host t now path cfg p len fs H. rewrite checks_iff_bad in H.
  unfold checks in H. unfold token_request.
  destruct (auth_factory scheme host t now) as [r|].
  - exists (reject_class r). split; [reflexivity|]. destruct r; cbn; auto.
  - destruct (bearer_call t path) as [r|]; [|discriminate H].
    exists (reject_class r). split; [reflexivity|]. destruct r; cbn; auto.
Qed.

Lemma token_request_good : forall scheme host t now path cfg p len fs,
  bad_token scheme host t now path = false ->
  token_request scheme host t now path cfg p len fs = request cfg p len [] fs.
Proof.
  intros scheme host t now path cfg p len fs H. rewrite checks_iff_bad in H.
  unfold checks in H. unfold token_request.
  destruct (auth_factory scheme host t now) as [r|]; [discriminate H|].
  destruct (bearer_call t path) as [r|]; [discriminate H | reflexivity].
Qed.

(* a token string cut anywhere inside or before its ES256 signature has fewer segments or a shorter signature *)
Lemma cut_token_is_bad : forall scheme host t now path,
  (t_nseg t < 3 \/ (t_alg t = "ES256"%string /\ t_siglen t < 86)) ->
  bad_token scheme host t now path = true.
Proof.
  intros scheme host t now path [H|[Ha Hs]]; unfold bad_token.
  - replace (t_nseg t =? 3) with false by lia. reflexivity.
  - rewrite Ha. replace (t_siglen t =? 86) with false by lia.
    cbn. rewrite !orb_true_r. reflexivity.
Qed.

(* ---------- cutting a token string ---------- *)
Lemma split_nodot : forall a, nodot a = true -> split_dots a = [a].
Proof.
  induction a as [|c t IH]; intro H; cbn in *; [reflexivity|].
  apply andb_true_iff in H as [Hc Ht]. apply negb_true_iff in Hc. rewrite Hc, (IH Ht). reflexivity.
Qed.
Lemma split_app_dot : forall a b, nodot a = true -> split_dots (a ++ 46 :: b) = a :: split_dots b.
Proof.
  change 46 with jwt_sep.
  induction a as [|c t IH]; intros b H; cbn in *; [reflexivity|].
  apply andb_true_iff in H as [Hc Ht]. apply negb_true_iff in Hc. rewrite Hc, (IH b Ht). reflexivity.
Qed.
Lemma nodot_firstn : forall k a, nodot a = true -> nodot (firstn k a) = true.
Proof.
  unfold nodot. induction k; intros [|c t] H; cbn [firstn forallb] in *; try reflexivity.
  apply andb_true_iff in H as [Hc Ht]. rewrite Hc, (IHk t Ht). reflexivity.
Qed.

(* every proper prefix of header.payload.signature has one or two segments, or the same header and payload and a
   strictly shorter signature *)
Lemma cut_token_segments : forall h p s k,
  nodot h = true -> nodot p = true -> nodot s = true ->
  (k < List.length h + List.length p + List.length s + 2)%nat ->
  let segs := split_dots (firstn k (h ++ 46 :: p ++ 46 :: s)) in
  (List.length segs < 3)%nat \/
  exists j, (j < List.length s)%nat /\ segs = [h; p; firstn j s].
Proof.
  intros h p s k Hh Hp Hs Hk. cbv zeta.
  rewrite firstn_app.
  destruct (Nat.le_gt_cases k (List.length h)) as [L|L].
  - left. replace (k - List.length h)%nat with O by lia. cbn [firstn]. rewrite app_nil_r.
    rewrite split_nodot by (apply nodot_firstn; exact Hh). cbn. lia.
  - rewrite firstn_all2 by lia.
    destruct (k - List.length h)%nat as [|k1] eqn:E1; [lia|]. cbn [firstn].
    rewrite split_app_dot by exact Hh.
    rewrite firstn_app.
    destruct (Nat.le_gt_cases k1 (List.length p)) as [L2|L2].
    + left. replace (k1 - List.length p)%nat with O by lia. cbn [firstn]. rewrite app_nil_r.
      rewrite split_nodot by (apply nodot_firstn; exact Hp). cbn. lia.
    + rewrite firstn_all2 by lia.
      destruct (k1 - List.length p)%nat as [|k2] eqn:E2; [lia|]. cbn [firstn].
      rewrite split_app_dot by exact Hp.
      right. exists k2. split; [lia|].
      rewrite split_nodot by (apply nodot_firstn; exact Hs). reflexivity.
Qed.
