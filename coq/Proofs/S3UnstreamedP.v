(* C09: lemmas about Model/S3Unstreamed.v *)
From Coq Require Import ZArith List Bool String Lia ZifyBool.
From KV Require Import Base.Sx Base.Str Gen.Generated Model.S3Retry Model.S3Session Model.S3Unstreamed
  Proofs.S3RetryP Proofs.S3SessionP.
Import ListNotations.
Open Scope Z_scope.

(* ---------- vocabulary ---------- *)
Lemma body_lost_200 : forall len o, body_lost len o = is200 o && read_fault len o.
Proof. intros len o; destruct o; reflexivity. Qed.

Lemma body_lost_transient : forall fl len o, body_lost len o = true -> transient fl len o = true.
Proof. intros fl len o H. unfold transient. destruct o; try discriminate H; cbn in *; rewrite H; reflexivity. Qed.

Lemma fits_wf_after : forall fl len b seen,
  wf_retry b = true -> fits fl len b seen = true -> wf_retry (after fl len b seen) = true.
Proof.
  intros fl len b seen Hb Hf.
  unfold fits, wf_retry, after, within, nonneg, osub in *. cbn [r_total r_connect r_read r_status] in *.
  pose proof (count_nonneg (read_fault len) seen). pose proof (count_nonneg (status_fault fl) seen).
  destruct b as [[t|] [c|] [r|] [s|]]; cbn [r_total r_connect r_read r_status] in *; lia.
Qed.

Lemma fits_nil : forall fl len b, wf_retry b = true -> fits fl len b [] = true.
Proof.
  intros fl len b Hb. unfold fits, count, within. cbn. unfold wf_retry, nonneg in Hb.
  destruct b as [[t|] [c|] [r|] [s|]]; cbn in *; lia.
Qed.

Lemma charge_is_after : forall fl len b o, body_lost len o = true ->
  after fl len b [o] = charge_read b /\ (wf_retry b = true -> fits fl len b [o] = can_charge b).
Proof.
  intros fl len b o H.
  assert (Hr : read_fault len o = true) by (destruct o; try discriminate H; exact H).
  pose proof (read_not_status fl len o Hr) as Hs.
  split.
  - unfold after, charge_read, osub, dec, count. cbn [filter List.length]. rewrite Hr, Hs. cbn.
    destruct b as [[t|] c [r|] [s|]]; cbn [r_total r_connect r_read r_status Z.of_nat];
      f_equal; try reflexivity; f_equal; lia.
  - intros Hb. unfold fits, can_charge, count, within. cbn [filter List.length]. rewrite Hr, Hs. cbn.
    unfold wf_retry, nonneg in Hb.
    destruct b as [[t|] [c|] [r|] [s|]]; cbn [r_total r_connect r_read r_status] in *; lia.
Qed.

(* ---------- MAIN: the loop of a request that is not streamed IS the counting automaton, for all inputs ---------- *)
Lemma loop_uspec : forall fl len, streamed PListing = false ->
  forall fs b seen, wf_retry b = true -> Forall (fun o => wf_outcome o = true) fs -> fits fl len b seen = true ->
  request_loop fl PListing len [] b (after fl len b seen) fs = uspec fl len b seen fs.
Proof.
  intros fl len Hs. induction fs as [|o rest IH]; intros b seen Hb Hwf Hf.
  - cbn [request_loop]. unfold katdal_step. rewrite Hs.
    rewrite (body_complete PListing len Good Logic.I eq_refl eq_refl). reflexivity.
  - inversion Hwf as [|? ? Ho Hrest]; subst.
    cbn [uspec]. rewrite body_lost_200.
    destruct (is200 o) eqn:H200.
    + assert (Ha : adapter_step fl (after fl len b seen) o = AResp) by (destruct o; try discriminate H200; reflexivity).
      assert (Hst : match o with Status c => raise_for_status c [] | _ => None end = None)
        by (destruct o; try discriminate H200; reflexivity).
      cbn [request_loop]. rewrite Ha. unfold katdal_step. rewrite Hs.
      destruct (read_fault len o) eqn:Hr; cbn [andb].
      * (* an answer that loses part of its body: retried by katdal's loop with ITS Retry object *)
        assert (Hbl : body_lost len o = true) by (rewrite body_lost_200, H200, Hr; reflexivity).
        destruct (charge_is_after fl len b o Hbl) as [Hch Hcan]. specialize (Hcan Hb).
        destruct (body_fault PListing len o Logic.I H200 Hr) as [e [He Hre]]. rewrite He.
        rewrite (handle_read_exn _ e Hre).
        pose proof (increment_read_after fl len b [] o Hb (fits_nil fl len b Hb) Hr) as Hinc.
        rewrite after_nil in Hinc. cbn [app] in Hinc. rewrite Hinc. rewrite Hcan.
        destruct (can_charge b) eqn:Hc; [|reflexivity].
        rewrite Hcan in *.
        assert (Hb' : wf_retry (after fl len b [o]) = true) by (apply fits_wf_after; [exact Hb|rewrite Hcan; reflexivity]).
        pose proof (IH (after fl len b [o]) [] Hb' Hrest (fits_nil fl len _ Hb')) as IH'.
        rewrite after_nil in IH'. rewrite IH'. rewrite Hch. reflexivity.
      * rewrite (body_complete PListing len o Logic.I H200 Hr). rewrite Hst.
        assert (Ht : transient fl len o = false)
          by (unfold transient; rewrite Hr; destruct o; try discriminate H200; reflexivity).
        rewrite Ht. destruct o; try discriminate H200; reflexivity.
    + cbn [andb]. destruct o as [c|k|k|k|h|]; try discriminate H200.
      * (* a status *)
        cbn [request_loop adapter_step]. unfold transient. cbn [read_fault status_fault orb].
        destruct (memZ c fl) eqn:Hm.
        -- assert (Hsf : status_fault fl (Status c) = true) by exact Hm.
           rewrite (increment_status_after fl len b seen (Status c) Hb Hf Hsf).
           destruct (fits fl len b (seen ++ [Status c])) eqn:E.
           ++ rewrite (IH _ _ Hb Hrest E). reflexivity.
           ++ destruct (handle_adapter_exhausted b true) as [_ HR]. rewrite HR. reflexivity.
        -- unfold katdal_step. rewrite Hs. cbn in Ho. cbn [body_result].
           rewrite raise_for_status_spec by lia. reflexivity.
      * (* no response header: retried inside the adapter *)
        cbn [request_loop adapter_step]. unfold transient. cbn [read_fault orb].
        rewrite (increment_read_after fl len b seen (HFault h) Hb Hf eq_refl).
        destruct (fits fl len b (seen ++ [HFault h])) eqn:E.
        -- rewrite (IH _ _ Hb Hrest E). reflexivity.
        -- destruct (handle_adapter_exhausted b (match h with HStall => true | _ => false end)) as [HR _].
           rewrite HR. reflexivity.
Qed.

Lemma unstreamed_is_spec : forall cfg len fs,
  wf_retry (c_retry cfg) = true -> Forall (fun o => wf_outcome o = true) fs ->
  request cfg PListing len [] fs = spec_unstreamed cfg len fs.
Proof.
  intros cfg len fs Hb Hwf. unfold request, spec_unstreamed.
  rewrite <- (after_nil (c_forcelist cfg) len (c_retry cfg)) at 2.
  apply loop_uspec; try assumption; [reflexivity|]. apply fits_nil; assumption.
Qed.

(* ---------- what follows from the automaton ---------- *)
(* never a partial body: an Ok result carries the declared length *)
Lemma uspec_never_partial : forall fl len fs b seen d n, uspec fl len b seen fs = (Ok d, n) -> d = len.
Proof.
  intros fl len. induction fs as [|o rest IH]; intros b seen d n H; cbn [uspec] in H.
  - inversion H; reflexivity.
  - destruct (body_lost len o).
    + destruct (can_charge b); [|discriminate H].
      destruct (uspec fl len (charge_read b) [] rest) as [r m] eqn:E. inversion H; subst. eapply IH; exact E.
    + destruct (transient fl len o).
      * destruct (fits fl len b (seen ++ [o])); [|discriminate H].
        destruct (uspec fl len b (seen ++ [o]) rest) as [r m] eqn:E. inversion H; subst. eapply IH; exact E.
      * destruct o; inversion H; reflexivity.
Qed.

(* without an answer that loses part of its body the automaton is the counting spec *)
Lemma uspec_no_body_lost : forall fl len fs b seen,
  forallb (fun o => negb (body_lost len o)) fs = true -> fits fl len b seen = true ->
  uspec fl len b seen fs = gen_spec fl len b seen fs.
Proof.
  intros fl len. induction fs as [|o rest IH]; intros b seen Hnb Hf.
  - unfold gen_spec. cbn. rewrite app_nil_r, Hf. reflexivity.
  - cbn [forallb] in Hnb. apply andb_true_iff in Hnb as [Hno Hnb]. apply negb_true_iff in Hno.
    cbn [uspec]. rewrite Hno.
    destruct (transient fl len o) eqn:Ht.
    + destruct (fits fl len b (seen ++ [o])) eqn:E.
      * rewrite (IH _ _ Hnb E). symmetry. apply gen_spec_step; assumption.
      * symmetry. apply gen_spec_stop; assumption.
    + symmetry. apply gen_spec_done; assumption.
Qed.

Lemma uspec_pos : forall fl len fs b seen r n, uspec fl len b seen fs = (r, n) -> (1 <= n)%nat.
Proof.
  intros fl len fs b seen r n H. destruct fs as [|o rest]; cbn [uspec] in H.
  - inversion H; lia.
  - repeat match type of H with
           | context [if ?c then _ else _] => destruct c
           | context [let '(_, _) := ?u in _] => destruct u
           end; inversion H; lia.
Qed.

(* every answer that loses part of its body and is retried costs one read retry: never more of them than the read
   budget, whatever else happens in between *)
Lemma uspec_bodies_lost_bounded : forall fl len fs b seen r n rd,
  uspec fl len b seen fs = (r, n) -> r_read b = Some rd -> 0 <= rd ->
  bodies_lost len (pred n) fs <= rd.
Proof.
  intros fl len. induction fs as [|o rest IH]; intros b seen r n rd H Hrd Hpos; cbn [uspec] in H.
  - inversion H; subst. unfold bodies_lost, count. cbn. lia.
  - destruct (body_lost len o) eqn:Hbl.
    + destruct (can_charge b) eqn:Hc.
      * destruct (uspec fl len (charge_read b) [] rest) as [r' m] eqn:E. inversion H; subst.
        unfold can_charge, within in Hc. rewrite Hrd in Hc.
        assert (Hrd' : r_read (charge_read b) = Some (rd - 1)) by (unfold charge_read; cbn; rewrite Hrd; reflexivity).
        pose proof (uspec_pos _ _ _ _ _ _ _ E) as Hm.
        pose proof (IH _ _ _ _ (rd - 1) E Hrd' ltac:(lia)) as IH'.
        unfold bodies_lost in *. cbn [pred].
        destruct m as [|m']; [lia|]. cbn [pred] in IH'. cbn [firstn].
        unfold count in *. cbn [filter]. rewrite Hbl. cbn [List.length]. lia.
      * inversion H; subst. unfold bodies_lost, count. cbn. lia.
    + destruct (transient fl len o).
      * destruct (fits fl len b (seen ++ [o])).
        -- destruct (uspec fl len b (seen ++ [o]) rest) as [r' m] eqn:E. inversion H; subst.
           pose proof (uspec_pos _ _ _ _ _ _ _ E) as Hm.
           pose proof (IH _ _ _ _ rd E Hrd Hpos) as IH'.
           unfold bodies_lost in *. cbn [pred]. destruct m as [|m']; [lia|]. cbn [pred] in IH'. cbn [firstn].
           unfold count in *. cbn [filter]. rewrite Hbl. exact IH'.
        -- inversion H; subst. unfold bodies_lost, count. cbn. lia.
      * inversion H; subst. unfold bodies_lost, count. cbn. lia.
Qed.

(* ---------- several store objects: a call sees the history of ITS OWN object only ---------- *)
Lemma upd_same : forall st k v, upd st k v k = v.
Proof. intros. unfold upd. rewrite Nat.eqb_refl. reflexivity. Qed.
Lemma upd_other : forall st k v j, j <> k -> upd st k v j = st j.
Proof. intros st k v j H. unfold upd. apply Nat.eqb_neq in H. rewrite H. reflexivity. Qed.

(* the verified-bucket cache is an attribute of the OBJECT (re-translated: breaks when it moves to the class / module) *)
Lemma cache_slot_id : forall k, cache_slot k = k.
Proof. intros k. reflexivity. Qed.

Lemma stores_projection : forall cf k ops st,
  runs_of k ops (fst (stores cf st ops)) = fst (session (cf k) (st k) (on_store k ops)) /\
  snd (stores cf st ops) k = snd (session (cf k) (st k) (on_store k ops)).
Proof.
  intros cf k. induction ops as [|o t IH]; intros st.
  - split; reflexivity.
  - cbn [stores]. rewrite !cache_slot_id.
    destruct (session_op (cf (s_store o)) (st (s_store o)) (s_op o)) as [g vs'] eqn:E.
    specialize (IH (upd st (s_store o) vs')).
    destruct (stores cf (upd st (s_store o) vs') t) as [gs st'] eqn:E2. cbn [fst snd] in *.
    unfold on_store in *. cbn [filter runs_of].
    destruct (Nat.eqb (s_store o) k) eqn:Hk.
    + apply Nat.eqb_eq in Hk. subst k. cbn [map session]. rewrite E. rewrite upd_same in IH.
      destruct (session (cf (s_store o)) vs' (map s_op (filter (fun o0 => Nat.eqb (s_store o0) (s_store o)) t)))
        as [gs2 v2] eqn:E3. cbn [fst snd] in *. destruct IH as [I1 I2]. split; [rewrite I1; reflexivity | exact I2].
    + apply Nat.eqb_neq in Hk. rewrite upd_other in IH by congruence. exact IH.
Qed.

Lemma wf_on_store : forall k ops, Forall (fun o => wf_op (s_op o)) ops -> Forall wf_op (on_store k ops).
Proof.
  intros k ops H. unfold on_store. induction H as [|o t Ho Ht IH]; cbn [filter map]; [constructor|].
  destruct (Nat.eqb (s_store o) k); [constructor; assumption | assumption].
Qed.

(* the calls on store object k of ANY interleaved history over any number of store objects: the single-store spec on
   the sub-history of k - evidence gathered through another object does not count, and does not get lost either *)
Lemma stores_is_spec : forall cf k ops,
  wf_retry (c_retry (cf k)) = true -> Forall (fun o => wf_op (s_op o)) ops ->
  map g_result (runs_of k ops (fst (stores cf fresh ops))) = spec_session (cf k) [] (on_store k ops) /\
  (forall id, memN id (snd (stores cf fresh ops) k) = shown (cf k) (on_store k ops) id).
Proof.
  intros cf k ops Hb Hwf.
  destruct (stores_projection cf k ops fresh) as [P1 P2]. unfold fresh in *. rewrite P1, P2.
  split.
  - apply (session_fresh_is_spec (cf k) (on_store k ops) Hb (wf_on_store k ops Hwf)).
  - intros id. apply cache_is_evidence; [exact Hb | apply wf_on_store; exact Hwf].
Qed.

(* a call on one object leaves the cache of every other object as it was *)
Lemma stores_other_untouched : forall cf st o j, j <> s_store o ->
  snd (stores cf st [o]) j = st j.
Proof.
  intros cf st o j H. cbn [stores]. rewrite !cache_slot_id.
  destruct (session_op (cf (s_store o)) (st (s_store o)) (s_op o)) as [g vs']. cbn. apply upd_other. exact H.
Qed.

(* ---------- the statements of Props/C09.v ---------- *)
Lemma unstreamed_never_partial : forall cfg len fs d n,
  wf_retry (c_retry cfg) = true -> Forall (fun o => wf_outcome o = true) fs ->
  request cfg PListing len [] fs = (Ok d, n) -> d = len.
Proof.
  intros cfg len fs d n Hb Hwf H. rewrite (unstreamed_is_spec cfg len fs Hb Hwf) in H.
  unfold spec_unstreamed in H. eapply uspec_never_partial; exact H.
Qed.

Lemma unstreamed_without_lost_body : forall cfg len fs,
  wf_retry (c_retry cfg) = true -> forallb (fun o => negb (body_lost len o)) fs = true ->
  spec_unstreamed cfg len fs = spec_request cfg len fs.
Proof.
  intros cfg len fs Hb Hnb. unfold spec_unstreamed. rewrite <- gen_spec_nil_seen.
  apply uspec_no_body_lost; [exact Hnb | apply fits_nil; exact Hb].
Qed.

Lemma unstreamed_lost_bodies_bounded : forall cfg len fs r n rd,
  wf_retry (c_retry cfg) = true -> Forall (fun o => wf_outcome o = true) fs ->
  request cfg PListing len [] fs = (r, n) -> r_read (c_retry cfg) = Some rd ->
  bodies_lost len (pred n) fs <= rd.
Proof.
  intros cfg len fs r n rd Hb Hwf H Hrd. rewrite (unstreamed_is_spec cfg len fs Hb Hwf) in H.
  unfold spec_unstreamed in H. eapply uspec_bodies_lost_bounded; [exact H | exact Hrd |].
  unfold wf_retry, nonneg in Hb. rewrite Hrd in Hb. lia.
Qed.

(* the EVIDENCE of the 404 rule over histories (S3Session.listing_shows_keys) without the model of the loop in sight *)
Lemma wf_listing_script : forall b fsb, Forall (fun o => wf_outcome o = true) fsb ->
  Forall (fun o => wf_outcome o = true) (listing_script b fsb).
Proof.
  intros b fsb H. destruct b; cbn [listing_script]; try exact H.
  apply Forall_app. split; [exact H | constructor; [reflexivity | constructor]].
Qed.

Lemma evidence_by_counting : forall cfg o,
  wf_retry (c_retry cfg) = true -> Forall (fun x => wf_outcome x = true) (o_fsb o) ->
  listing_shows_keys cfg o =
  match o_state o, fst (spec_unstreamed cfg (o_blen o) (listing_script (o_state o) (o_fsb o))) with
  | BFull, Ok _ => true
  | _, _ => false
  end.
Proof.
  intros cfg o Hb Hwf. unfold listing_shows_keys.
  rewrite (unstreamed_is_spec cfg (o_blen o) _ Hb (wf_listing_script (o_state o) (o_fsb o) Hwf)). reflexivity.
Qed.
