(* C09: the retry budget in force at every request site (Model/S3Budget.v). *)
From Coq Require Import ZArith List Bool String Lia.
From KV Require Import Base.Sx Base.Str Gen.Generated Model.S3Retry Model.S3Budget Proofs.S3RetryP.
Import ListNotations.
Open Scope Z_scope.

(* ---------- no call site carries a `retries=` keyword of its own (re-translated table) ---------- *)
Lemma site_overrides_absent : forall s, assoc_site (site_name s) s3_site_overrides = (0, []).
Proof. intro s. destruct s; reflexivity. Qed.

Lemma call_override_none : forall user s, call_override user s = None.
Proof. intros user s. unfold call_override. rewrite site_overrides_absent. reflexivity. Qed.

(* the budget in force at every request site is the store-level one *)
Lemma site_is_store : forall user s, site_config user s = store_retries user.
Proof. intros user s. unfold site_config. rewrite call_override_none. reflexivity. Qed.

Lemma rdb_same_budget_as_chunk : forall user, site_config user SRdb = site_config user SChunk.
Proof. intro user. rewrite !site_is_store. reflexivity. Qed.

Lemma all_sites_same_budget : forall user s s', site_config user s = site_config user s'.
Proof. intros user s s'. rewrite !site_is_store. reflexivity. Qed.

(* ---------- the store-level budget, by the form of the `retries` argument ---------- *)
Lemma store_retries_forms :
  (forall a, store_retries (Some a) = store_config a) /\ store_retries None = default_store.
Proof. split; [intro a; destruct a; reflexivity | reflexivity]. Qed.

Lemma store_retries_numbers : forall c r,
  store_retries (Some (RPair c r)) = mkConfig (mkRetry (Some 10) (Some c) (Some r) (Some 5)) [500; 502; 503; 504] /\
  store_retries (Some (RInt c)) = mkConfig (mkRetry (Some 10) (Some c) (Some c) (Some 5)) [500; 502; 503; 504] /\
  store_retries None = mkConfig (mkRetry (Some 10) (Some 2) (Some 2) (Some 5)) [500; 502; 503; 504] /\
  (forall rt fl, store_retries (Some (RObj rt fl)) = mkConfig rt fl).
Proof. intros c r. repeat split; reflexivity. Qed.

Lemma wf_store : forall user, wf_user user = true -> wf_retry (c_retry (store_retries user)) = true.
Proof.
  intros [a|] H; [|reflexivity].
  destruct a as [n|c r|rt fl]; cbn [wf_user wf_arg] in H.
  - apply Z.leb_le in H. exact (proj1 (default_config_ok n n H H)).
  - apply andb_true_iff in H as [Hc Hr]. apply Z.leb_le in Hc. apply Z.leb_le in Hr.
    exact (proj1 (default_config_ok c r Hc Hr)).
  - apply andb_true_iff in H as [H _]. exact H.
Qed.

(* ---------- every request site obeys the counting spec with the STORE-LEVEL budget ---------- *)
Lemma user_chunk_request_is_spec : forall user segs fs,
  wf_user user = true -> Forall (fun o => wf_outcome o = true) fs ->
  request (site_config user SChunk) (PChunk segs) (total segs) [] fs = spec_request (store_retries user) (total segs) fs.
Proof.
  intros user segs fs Hu Hwf. rewrite site_is_store.
  apply request_is_spec; [apply wf_store; exact Hu | reflexivity | reflexivity | exact Hwf].
Qed.

Lemma user_rdb_is_spec : forall user len fs,
  wf_user user = true -> Forall (fun o => wf_outcome o = true) fs ->
  user_rdb_fetch user len fs =
  (match spec_result (c_forcelist (store_retries user)) len (c_retry (store_retries user)) fs with
   | Ok d => RdbOk d | Err _ => RdbNotFound end,
   spec_requests (c_forcelist (store_retries user)) len (c_retry (store_retries user)) fs).
Proof.
  intros user len fs Hu Hwf. unfold user_rdb_fetch. rewrite site_is_store.
  apply rdb_is_spec; [apply wf_store; exact Hu | exact Hwf].
Qed.

(* the RDB download is the chunk-site request loop run on the file (process = _read_object), every failure turned into
   DataSourceNotFound: same budget, same requests *)
Lemma rdb_is_chunk_site_request : forall user len fs,
  user_rdb_fetch user len fs =
  (let '(res, n) := request (site_config user SChunk) PObject len [] fs in
   (match res with Ok d => RdbOk d | Err Raw => RdbRaw | Err _ => RdbNotFound end, n)).
Proof. intros user len fs. unfold user_rdb_fetch, rdb_fetch. rewrite rdb_same_budget_as_chunk. reflexivity. Qed.

(* a chunk request and an RDB request of the same store configuration, met by the same faults on an object of the same
   length, end the same way after the same number of requests *)
Lemma rdb_like_chunk : forall user segs fs,
  wf_user user = true -> Forall (fun o => wf_outcome o = true) fs ->
  let '(cres, cn) := request (site_config user SChunk) (PChunk segs) (total segs) [] fs in
  user_rdb_fetch user (total segs) fs = (match cres with Ok d => RdbOk d | Err _ => RdbNotFound end, cn).
Proof.
  intros user segs fs Hu Hwf. rewrite (user_chunk_request_is_spec user segs fs Hu Hwf).
  unfold spec_request. apply user_rdb_is_spec; assumption.
Qed.

Lemma user_get_chunk_is : forall user segs len blen verified b fs fsb,
  user_get_chunk user segs len blen verified b fs fsb = get_chunk (store_retries user) segs len blen verified b fs fsb.
Proof. intros. unfold user_get_chunk. rewrite !site_is_store. reflexivity. Qed.

Lemma user_put_chunk_is_spec : forall user fs,
  wf_user user = true -> Forall (fun o => wf_outcome o = true) fs ->
  user_put_chunk user O fs = spec_request (store_retries user) O fs.
Proof.
  intros user fs Hu Hwf. unfold user_put_chunk. rewrite site_is_store.
  apply put_chunk_is_spec; [apply wf_store; exact Hu | exact Hwf].
Qed.

Lemma user_is_complete_is_spec : forall user fs,
  wf_user user = true -> Forall (fun o => wf_outcome o = true) fs ->
  user_is_complete user O fs =
  (spec_is_complete (store_retries user) O fs,
   spec_requests (c_forcelist (store_retries user)) O (c_retry (store_retries user)) fs).
Proof.
  intros user fs Hu Hwf. unfold user_is_complete. rewrite site_is_store.
  apply is_complete_is_spec; [apply wf_store; exact Hu | exact Hwf].
Qed.

Lemma user_mark_complete_is_spec : forall user fs,
  user_mark_complete user fs = spec_mark_complete (store_retries user) fs.
Proof. intros. unfold user_mark_complete. rewrite !site_is_store. reflexivity. Qed.

Lemma other_sites_for_user :
  (forall user segs len blen verified b fs fsb,
     user_get_chunk user segs len blen verified b fs fsb = get_chunk (store_retries user) segs len blen verified b fs fsb) /\
  (forall user fs, wf_user user = true -> Forall (fun o => wf_outcome o = true) fs ->
     user_put_chunk user O fs = spec_request (store_retries user) O fs) /\
  (forall user fs, wf_user user = true -> Forall (fun o => wf_outcome o = true) fs ->
     user_is_complete user O fs =
     (spec_is_complete (store_retries user) O fs,
      spec_requests (c_forcelist (store_retries user)) O (c_retry (store_retries user)) fs)) /\
  (forall user fs, user_mark_complete user fs = spec_mark_complete (store_retries user) fs).
Proof.
  exact (conj user_get_chunk_is (conj user_put_chunk_is_spec (conj user_is_complete_is_spec user_mark_complete_is_spec))).
Qed.

(* ---------- what a per-call override WOULD do (why no call site may carry one) ---------- *)
(* a Retry object given per call is used as it is *)
Lemma override_retry_object_kept : forall store r fl, request_retries store (Some (RObj r fl)) = mkConfig r fl.
Proof. reflexivity. Qed.

(* a number / pair given per call is NOT completed with the store defaults: no status budget and an empty forcelist,
   so a single 503 is passed on as a permanent failure although the store allows five status retries *)
Lemma override_drops_store_defaults :
  let cfg := request_retries (store_retries None) (Some (RPair 2 5)) in
  cfg = mkConfig (mkRetry (Some 10) (Some 2) (Some 5) None) [] /\
  rdb_fetch cfg 100 [Status 503] = (RdbNotFound, 1%nat) /\
  spec_request (store_retries None) 100 [Status 503] = (Ok 100%nat, 2%nat) /\
  rdb_fetch cfg 100 [Trunc 7; Trunc 7; Trunc 7] = (RdbOk 100%nat, 4%nat) /\
  spec_request (store_retries None) 100 [Trunc 7; Trunc 7; Trunc 7] = (Err Glitch, 3%nat).
Proof. vm_compute. repeat split; reflexivity. Qed.
