(* C12: lemmas about the sensor clean-up, extraction, the cache state machine and the concatenated cache. *)
From Coq Require Import ZArith QArith List Bool String Ascii Lia Lqa Sorting.Sorted.
From KV Require Import Base.Sx Base.Str Gen.Generated Model.Interp Model.SensorCache Proofs.InterpP.
Import ListNotations.
Open Scope Q_scope.

(* ================================================================== clean *)
Definition le_t (a b : sample) : Prop := s_t a <= s_t b.
Definition lt_t (a b : sample) : Prop := s_t a < s_t b.

Lemma insert_s_In : forall a l x, In x (insert_s a l) <-> x = a \/ In x l.
Proof.
  intros a l x. induction l as [|b t IH]; simpl.
  - intuition.
  - destruct (Qle_bool (s_t a) (s_t b)); simpl; rewrite ?IH; intuition.
Qed.

Lemma sort_s_In : forall l x, In x (sort_s l) <-> In x l.
Proof.
  induction l as [|a t IH]; intros x; simpl; [tauto|].
  rewrite insert_s_In, IH. intuition.
Qed.

Lemma insert_s_sorted : forall a l, StronglySorted le_t l -> StronglySorted le_t (insert_s a l).
Proof.
  intros a l H. induction H as [|b t Ht IH Hb]; simpl.
  - constructor; constructor.
  - destruct (Qle_bool (s_t a) (s_t b)) eqn:E.
    + apply Qle_bool_iff in E. constructor; [constructor; assumption|].
      constructor; [exact E|]. rewrite Forall_forall in *. intros x Hx. specialize (Hb x Hx).
      unfold le_t in *. lra.
    + assert (s_t b < s_t a).
      { destruct (Qlt_le_dec (s_t b) (s_t a)); auto. apply Qle_bool_iff in q. congruence. }
      constructor; [exact IH|]. rewrite Forall_forall in *. intros x Hx.
      apply insert_s_In in Hx. destruct Hx as [->|Hx]; [unfold le_t; lra | auto].
Qed.

Lemma sort_s_sorted : forall l, StronglySorted le_t (sort_s l).
Proof. induction l; simpl; [constructor | apply insert_s_sorted; assumption]. Qed.

Lemma keep_last_In : forall l x, In x (keep_last l) -> In x l.
Proof.
  induction l as [|a t IH]; intros x H; [inversion H|].
  destruct t as [|b r]; [exact H|].
  change (keep_last (a :: b :: r)) with
    (if Qeq_bool (s_t a) (s_t b) then keep_last (b :: r) else a :: keep_last (b :: r)) in H.
  destruct (Qeq_bool (s_t a) (s_t b)).
  - right. apply IH. exact H.
  - destruct H as [->|H]; [left; reflexivity | right; apply IH; exact H].
Qed.

Lemma keep_last_sorted : forall l, StronglySorted le_t l -> StronglySorted lt_t (keep_last l).
Proof.
  induction l as [|a t IH]; intros H; [constructor|].
  inversion H as [|? ? Ht Ha]; subst.
  destruct t as [|b r]; [constructor; constructor|].
  change (keep_last (a :: b :: r)) with
    (if Qeq_bool (s_t a) (s_t b) then keep_last (b :: r) else a :: keep_last (b :: r)).
  destruct (Qeq_bool (s_t a) (s_t b)) eqn:E; [apply IH; exact Ht|].
  constructor; [apply IH; exact Ht|].
  rewrite Forall_forall in *. intros x Hx. apply keep_last_In in Hx.
  assert (Hab : s_t a <= s_t b) by (apply Ha; left; reflexivity).
  assert (Hne : ~ s_t a == s_t b) by (intro Q; apply Qeq_bool_iff in Q; congruence).
  assert (Hbx : s_t b <= s_t x).
  { destruct Hx as [->|Hx]; [lra|]. inversion Ht as [|? ? _ Hb]; subst.
    rewrite Forall_forall in Hb. apply Hb. exact Hx. }
  unfold lt_t. destruct (Qlt_le_dec (s_t a) (s_t b)); [lra|]. exfalso. apply Hne. lra.
Qed.

Lemma filter_sorted : forall (R : sample -> sample -> Prop) f l,
  StronglySorted R l -> StronglySorted R (filter f l).
Proof.
  intros R f l H. induction H as [|a t Ht IH Ha]; simpl; [constructor|].
  destruct (f a); [|exact IH]. constructor; [exact IH|].
  rewrite Forall_forall in *. intros x Hx. apply filter_In in Hx. apply Ha. tauto.
Qed.

Lemma clean_strongly_sorted : forall hs l, StronglySorted lt_t (clean hs l).
Proof.
  intros hs l. unfold clean.
  assert (H : StronglySorted lt_t (keep_last (sort_s l))) by (apply keep_last_sorted, sort_s_sorted).
  destruct hs; [apply filter_sorted|]; exact H.
Qed.

Lemma sorted_strictly_inc : forall l, StronglySorted lt_t l -> strictly_inc (nodes_of l).
Proof.
  induction l as [|a t IH]; intros H; [exact Logic.I|].
  inversion H as [|? ? Ht Ha]; subst. simpl. split; [|apply IH; exact Ht].
  destruct t as [|b r]; simpl; [exact Logic.I|].
  rewrite Forall_forall in Ha. apply Ha. left. reflexivity.
Qed.

(* the cleaned samples have strictly increasing (hence unique) timestamps *)
Lemma clean_sorted_unique : forall hs l, strictly_inc (nodes_of (clean hs l)).
Proof. intros. apply sorted_strictly_inc, clean_strongly_sorted. Qed.

(* s is the LAST sample of l carrying its timestamp *)
Fixpoint is_last (s : sample) (l : list sample) : Prop :=
  match l with
  | [] => False
  | b :: r => (b = s /\ forall x, In x r -> ~ s_t x == s_t s) \/ is_last s r
  end.

Lemma is_last_iff : forall s l,
  is_last s l <-> exists l1 l2, l = l1 ++ s :: l2 /\ forall x, In x l2 -> ~ s_t x == s_t s.
Proof.
  intros s l. induction l as [|b r IH]; simpl.
  - split; [tauto|]. intros [l1 [l2 [H _]]]. destruct l1; discriminate.
  - rewrite IH. split.
    + intros [[-> H]|[l1 [l2 [-> H]]]].
      * exists [], r. split; [reflexivity | exact H].
      * exists (b :: l1), l2. split; [reflexivity | exact H].
    + intros [l1 [l2 [E H]]]. destruct l1 as [|c l1]; simpl in E; inversion E; subst.
      * left. split; [reflexivity | exact H].
      * right. exists l1, l2. split; [reflexivity | exact H].
Qed.

Lemma is_last_insert : forall s a l,
  is_last s (insert_s a l) <-> (s = a /\ forall x, In x l -> ~ s_t x == s_t a) \/ is_last s l.
Proof.
  intros s a l. induction l as [|b r IH]; simpl.
  - intuition; subst; auto.
  - destruct (Qle_bool (s_t a) (s_t b)) eqn:E; simpl.
    + intuition; subst; auto.
    + assert (Hlt : s_t b < s_t a).
      { destruct (Qlt_le_dec (s_t b) (s_t a)); auto. apply Qle_bool_iff in q. congruence. }
      rewrite IH. split.
      * intros [[-> H]|[[-> H]|H]].
        -- right. left. split; [reflexivity|]. intros x Hx. apply H. apply insert_s_In. right. exact Hx.
        -- left. split; [reflexivity|]. intros x [<-|Hx]; [lra | apply H; exact Hx].
        -- right. right. exact H.
      * intros [[-> H]|[[-> H]|H]].
        -- right. left. split; [reflexivity|]. intros x Hx. apply H. right. exact Hx.
        -- left. split; [reflexivity|]. intros x Hx. apply insert_s_In in Hx.
           destruct Hx as [->|Hx]; [lra | apply H; exact Hx].
        -- right. right. exact H.
Qed.

Lemma is_last_sort : forall s l, is_last s (sort_s l) <-> is_last s l.
Proof.
  intros s l. induction l as [|a t IH]; simpl; [tauto|].
  rewrite is_last_insert, IH. split.
  - intros [[-> H]|H]; [left; split; [reflexivity|]; intros x Hx; apply H, sort_s_In, Hx | right; exact H].
  - intros [[-> H]|H]; [left; split; [reflexivity|]; intros x Hx; apply H, sort_s_In, Hx | right; exact H].
Qed.

Lemma keep_last_is_last : forall l s, StronglySorted le_t l -> (In s (keep_last l) <-> is_last s l).
Proof.
  induction l as [|a t IH]; intros s H; [simpl; tauto|].
  inversion H as [|? ? Ht Ha]; subst. rewrite Forall_forall in Ha.
  destruct t as [|b r].
  - simpl. intuition.
  - change (keep_last (a :: b :: r)) with
      (if Qeq_bool (s_t a) (s_t b) then keep_last (b :: r) else a :: keep_last (b :: r)).
    change (is_last s (a :: b :: r)) with
      ((a = s /\ forall x, In x (b :: r) -> ~ s_t x == s_t s) \/ is_last s (b :: r)).
    specialize (IH s Ht).
    destruct (Qeq_bool (s_t a) (s_t b)) eqn:E.
    + apply Qeq_bool_iff in E. rewrite IH. split; [tauto|].
      intros [[<- Hx]|Hl]; [|exact Hl]. exfalso. apply (Hx b); [left; reflexivity | symmetry; exact E].
    + assert (Hne : ~ s_t a == s_t b) by (intro Q; apply Qeq_bool_iff in Q; congruence).
      assert (Hab : s_t a <= s_t b) by (apply Ha; left; reflexivity).
      simpl In. rewrite IH. split.
      * intros [<-|Hl]; [|right; exact Hl]. left. split; [reflexivity|].
        intros x Hx Q.
        assert (s_t b <= s_t x).
        { destruct Hx as [->|Hx]; [lra|]. inversion Ht as [|? ? _ Hb]; subst.
          rewrite Forall_forall in Hb. apply Hb, Hx. }
        apply Hne. lra.
      * intros [[<- _]|Hl]; [left; reflexivity | right; exact Hl].
Qed.

(* a sample survives the clean-up iff it is the last one with its timestamp and its status is readable *)
Lemma clean_keeps_last_valid : forall hs l s,
  In s (clean hs l) <->
  (exists l1 l2, l = l1 ++ s :: l2 /\ forall x, In x l2 -> ~ s_t x == s_t s)
  /\ (hs = true -> status_ok (s_st s) = true).
Proof.
  intros hs l s. rewrite <- is_last_iff, <- is_last_sort.
  rewrite <- (keep_last_is_last _ s (sort_s_sorted l)).
  unfold clean. destruct hs.
  - rewrite filter_In. intuition.
  - intuition; discriminate.
Qed.

(* the independent executable spec selects exactly the same samples *)
Lemma spec_survivors_In : forall hs l s,
  In s (spec_survivors hs l) <-> is_last s l /\ (hs = true -> status_ok (s_st s) = true).
Proof.
  intros hs l s. induction l as [|a t IH]; simpl; [tauto|].
  destruct (existsb (fun b => Qeq_bool (s_t a) (s_t b)) t) eqn:E.
  - rewrite IH. apply existsb_exists in E. destruct E as [b [Hb Q]]. apply Qeq_bool_iff in Q.
    split; [tauto|]. intros [[[<- Hx]|Hl] Hs]; [|tauto]. exfalso. apply (Hx b Hb). symmetry. exact Q.
  - assert (Hno : forall x, In x t -> ~ s_t x == s_t a).
    { intros x Hx Q. assert (existsb (fun b => Qeq_bool (s_t a) (s_t b)) t = true); [|congruence].
      apply existsb_exists. exists x. split; [exact Hx|]. apply Qeq_bool_iff. symmetry. exact Q. }
    destruct (negb hs || status_ok (s_st a)) eqn:F.
    + simpl In. rewrite IH. split.
      * intros [<-|[Hl Hs]]; [|tauto]. split; [left; split; [reflexivity | exact Hno]|].
        intros ->. simpl in F. exact F.
      * intros [[[<- _]|Hl] Hs]; [left; reflexivity | right; tauto].
    + rewrite IH. split; [tauto|].
      intros [[[<- _]|Hl] Hs]; [|tauto]. exfalso.
      destruct hs; simpl in F; [rewrite Hs in F by reflexivity|]; discriminate.
Qed.

Lemma clean_eq_spec_survivors : forall hs l s, In s (clean hs l) <-> In s (spec_survivors hs l).
Proof.
  intros. rewrite clean_keeps_last_valid, spec_survivors_In, is_last_iff. tauto.
Qed.

Example clean_example :
  let l := [mkS 2 10 "nominal"; mkS 1 20 "warn"; mkS 2 30 "unknown"; mkS 1 40 "error"; mkS 3 50 "nominal2"] in
  clean true l = [mkS 1 40 "error"; mkS 3 50 "nominal2"] /\
  clean false l = [mkS 1 40 "error"; mkS 2 30 "unknown"; mkS 3 50 "nominal2"].
Proof. vm_compute. split; reflexivity. Qed.

(* ================================================================== dummy values *)
Lemma dummy_by_dtype :
  dummy_value None DFloat = (DFloat, VNum None) /\          (* float -> NaN *)
  dummy_value None DInt = (DInt, VInt (-1)) /\               (* int -> -1 *)
  dummy_value None DStr = (DStr, VEmptyStr) /\               (* str -> '' *)
  dummy_value None DBool = (DBool, VFalse) /\                (* bool -> False *)
  (forall q dt, dummy_value (Some (IVFloat q)) dt = (DFloat, VNum (Some q))) /\   (* explicit initial value wins *)
  (forall d dt, dummy_value (Some (IVOther d)) dt = (d, VGiven d)).
Proof. repeat split. Qed.

(* a sensor with no usable samples is replaced, over the whole dump grid, by the dummy value of its type *)
Lemma extract_no_usable : forall g ts p,
  usable g p = [] ->
  extract_sensor g ts p =
    let '(dt, dv) := dummy_value (p_init p) (g_dtype g) in
    if decide_cat p dt then XCat (Some dv)
    else match dv with
         | VNum q => XVals (map (fun _ => q) ts)
         | VInt z => XVals (map (fun _ => Some (inject_Z z)) ts)
         | _ => XErr
         end.
Proof. intros g ts p H. unfold extract_sensor. rewrite H. reflexivity. Qed.

Lemma extract_float_dummy_nan : forall g ts p,
  usable g p = [] -> g_dtype g = DFloat -> p_init p = None -> p_cat p = None ->
  extract_sensor g ts p = XVals (map (fun _ => None) ts).
Proof.
  intros g ts p H Hd Hi Hc. rewrite extract_no_usable by assumption.
  rewrite Hd, Hi. unfold decide_cat. simpl. rewrite Hc. reflexivity.
Qed.

Lemma extract_numeric : forall g ts p,
  usable g p <> [] -> decide_cat p (g_dtype g) = false -> (g_dtype g = DFloat \/ g_dtype g = DInt) ->
  extract_sensor g ts p = XVals (map (fun x => Some (interp_d (nodes_of (usable g p)) x)) ts).
Proof.
  intros g ts p H Hc Hd. unfold extract_sensor.
  destruct (usable g p) as [|a t] eqn:E; [congruence|]. rewrite Hc.
  destruct Hd as [-> | ->]; reflexivity.
Qed.

(* ================================================================== the cache *)
Section CacheP.
Variable vf : Z -> nat -> list (list qn) -> list Q -> list qn.

Definition frame (c c' : cache) : Prop :=
  c_store c' = c_store c /\ c_ts c' = c_ts c /\ c_keep c' = c_keep c /\ c_virt c' = c_virt c.

Lemma frame_refl : forall c, frame c c.
Proof. intros. repeat split. Qed.
Lemma frame_trans : forall a b c, frame a b -> frame b c -> frame a c.
Proof. unfold frame. intros a b c [? [? [? ?]]] [? [? [? ?]]]. repeat split; congruence. Qed.

Lemma set_nth_same : forall l i g, nth_error l i = Some g -> set_nth_g l i g = l.
Proof.
  induction l as [|h t IH]; intros [|i] g H; simpl in *; try discriminate; auto.
  - inversion H. reflexivity.
  - rewrite IH by assumption. reflexivity.
Qed.

Definition rec_ok (P : cache -> cache -> Prop) (rec : option (cache -> string -> cache * res)) : Prop :=
  match rec with Some getf => forall c s, P c (fst (getf c s)) | None => True end.

Lemma eval_srcs_frame : forall getf, (forall c s, frame c (fst (getf c s))) ->
  forall l c, frame c (fst (eval_srcs getf c l)).
Proof.
  intros getf H. induction l as [|a l IH]; intros c; simpl; [apply frame_refl|].
  pose proof (H c a) as Ha. destruct (getf c a) as [c1 r]. simpl in Ha.
  destruct r; simpl; auto.
  pose proof (IH c1) as H1. destruct (eval_srcs getf c1 l) as [c2 [vs|e]]; simpl in *;
    eapply frame_trans; eassumption.
Qed.

Lemma store_all_frame : forall names c v vals k, frame c (store_all vf c v vals names k).
Proof.
  induction names as [|n t IH]; intros; simpl; [apply frame_refl|].
  eapply frame_trans; [|apply IH]. repeat split.
Qed.

Lemma get_body_frame : forall rec c name s e kw,
  rec_ok frame rec -> frame c (fst (get_body vf false rec c name s e kw)).
Proof.
  intros rec c name s e kw Hrec. unfold get_body.
  destruct (s && negb e); [apply frame_refl|].
  destruct (r_lookup name (c_raw c)) as [[gid|l|]|]; try apply frame_refl.
  - destruct e; [|apply frame_refl].
    destruct (nth_error (c_store c) gid) as [g|] eqn:Eg; [|apply frame_refl].
    destruct (get_props name (c_props c) kw) as [p pm'].
    unfold store_after_extract. rewrite (set_nth_same _ _ _ Eg).
    destruct (extract_sensor g (c_ts c) p); repeat split.
  - destruct (find _ (c_virt c)) as [v|]; [|apply frame_refl].
    destruct rec as [getf|]; [|apply frame_refl]. simpl in Hrec.
    pose proof (eval_srcs_frame getf Hrec (v_srcs v) c) as H1.
    destruct (eval_srcs getf c (v_srcs v)) as [c1 [vals|er]]; simpl in *; [|exact H1].
    assert (frame c (store_all vf c1 v vals (v_names v) 0)) by (eapply frame_trans; [exact H1 | apply store_all_frame]).
    destruct (index_of_name name (v_names v)); exact H.
Qed.

(* extraction (and every other read access) never alters the raw samples, the dump grid, the selection *)
Lemma get_frame : forall fuel c name s e kw, frame c (fst (get vf false fuel c name s e kw)).
Proof.
  induction fuel as [|f IH]; intros; simpl; apply get_body_frame; simpl; auto.
Qed.

Lemma extract_pure : forall fuel c name s e kw,
  c_store (fst (get vf false fuel c name s e kw)) = c_store c.
Proof. intros. apply get_frame. Qed.

Lemma step_store : forall c o, c_store (fst (step vf false c o)) = c_store c.
Proof.
  intros c [n s e kw|n|n l|n g|[k|]|n|a o]; unfold step; try reflexivity; try apply extract_pure.
  destruct (r_lookup n (c_raw c)); reflexivity.
Qed.

(* ... over every access history *)
Lemma run_pure : forall ops c, c_store (fst (run_ops vf false c ops)) = c_store c.
Proof.
  induction ops as [|o t IH]; intros c; simpl; [reflexivity|].
  pose proof (step_store c o) as H. destruct (step vf false c o) as [c1 r]. simpl in H.
  pose proof (IH c1) as H1. destruct (run_ops vf false c1 t) as [c2 rs]. simpl in *. congruence.
Qed.

(* ------------------------------------------------------------------ first access = interpolation of the cleaned samples *)
Lemma r_lookup_set_same : forall r n v, r_lookup n (r_set n v r) = Some v.
Proof.
  induction r as [|[k w] t IH]; intros n v; simpl.
  - rewrite String.eqb_refl. reflexivity.
  - destruct (String.eqb k n) eqn:E; simpl; rewrite E; auto.
Qed.
Lemma r_lookup_set_other : forall r n m v, n <> m -> r_lookup n (r_set m v r) = r_lookup n r.
Proof.
  induction r as [|[k w] t IH]; intros n m v H; simpl.
  - destruct (String.eqb m n) eqn:E; [apply String.eqb_eq in E; congruence | reflexivity].
  - destruct (String.eqb k m) eqn:E; simpl.
    + apply String.eqb_eq in E. subst. destruct (String.eqb m n) eqn:F; [apply String.eqb_eq in F; congruence|reflexivity].
    + destruct (String.eqb k n); auto.
Qed.

Lemma get_raw_unfold : forall fuel c name gid g select kw,
  r_lookup name (c_raw c) = Some (ERaw gid) -> nth_error (c_store c) gid = Some g ->
  get vf false fuel c name select true kw =
    let p := fst (get_props name (c_props c) kw) in
    let c1 := with_props c (snd (get_props name (c_props c) kw)) in
    match extract_sensor g (c_ts c) p with
    | XVals l => (with_raw c1 (r_set name (EVals l) (c_raw c1)), RVals (sel c select l))
    | XCat d => (with_raw c1 (r_set name ECat (c_raw c1)), RCat d)
    | XErr => (c1, RErrOther)
    end.
Proof.
  intros fuel c name gid g select kw Hl Hg.
  destruct (get_props name (c_props c) kw) as [p pm'] eqn:Ep.
  destruct fuel; cbn [get]; unfold get_body; rewrite andb_false_r, Hl, Hg, Ep; cbn [fst snd];
    unfold store_after_extract; rewrite (set_nth_same _ _ _ Hg);
    unfold with_store, with_props; cbn [c_raw c_ts c_keep c_props c_virt c_store]; reflexivity.
Qed.

(* C12_get: the first read of a numeric sensor = piecewise-linear interpolation of the cleaned, shifted samples
   onto the dump timestamps, restricted to keep when selected; the FULL-length result is what gets cached *)
Lemma C12_get : forall fuel c name gid g select kw,
  r_lookup name (c_raw c) = Some (ERaw gid) -> nth_error (c_store c) gid = Some g ->
  let p := fst (get_props name (c_props c) kw) in
  let cl := clean (g_has_status g) (shift (offset_of p) (g_samples g)) in
  cl <> [] -> decide_cat p (g_dtype g) = false -> (g_dtype g = DFloat \/ g_dtype g = DInt) ->
  let full := map (fun x => Some (interp_d (nodes_of cl) x)) (c_ts c) in
  let '(c', r) := get vf false fuel c name select true kw in
  r = RVals (if select then select_mask (c_keep c) full else full) /\
  r_lookup name (c_raw c') = Some (EVals full) /\ c_store c' = c_store c.
Proof.
  intros fuel c name gid g select kw Hl Hg p cl Hne Hc Hd full.
  rewrite (get_raw_unfold fuel c name gid g select kw Hl Hg). cbv zeta. fold p.
  assert (Hu : usable g p = cl).
  { unfold usable. subst cl. destruct (g_samples g) eqn:E; [|reflexivity].
    exfalso. apply Hne. destruct (g_has_status g); reflexivity. }
  rewrite extract_numeric by (rewrite ?Hu; assumption). rewrite Hu. fold full.
  split; [reflexivity|]. split; [|reflexivity].
  simpl. apply r_lookup_set_same.
Qed.

(* a cached sensor is returned as cached (restricted to the CURRENT selection), whatever extract / kwargs say *)
Lemma get_cached : forall fuel c name l s e kw,
  r_lookup name (c_raw c) = Some (EVals l) -> s && negb e = false ->
  get vf false fuel c name s e kw = (c, RVals (if s then select_mask (c_keep c) l else l)).
Proof.
  intros fuel c name l s e kw Hl Hse. destruct fuel; simpl; unfold get_body; rewrite Hse, Hl; reflexivity.
Qed.

(* ------------------------------------------------------------------ repeatability under interleaved accesses *)
Definition no_producer (name : string) (c : cache) : Prop :=
  forall v, In v (c_virt c) -> mem_string name (v_names v) = false.

Definition keeps (name : string) (l : list qn) (c c' : cache) : Prop :=
  r_lookup name (c_raw c) = Some (EVals l) -> no_producer name c ->
  r_lookup name (c_raw c') = Some (EVals l).

Lemma mem_string_false_neq : forall n l m, mem_string n l = false -> In m l -> n <> m.
Proof.
  intros n l m H Hi E. subst. unfold mem_string in H.
  assert (existsb (String.eqb m) l = true); [|congruence].
  apply existsb_exists. exists m. split; [assumption | apply String.eqb_refl].
Qed.

Lemma store_all_keeps : forall names c v vals k name e,
  mem_string name names = false -> r_lookup name (c_raw c) = e ->
  r_lookup name (c_raw (store_all vf c v vals names k)) = e.
Proof.
  induction names as [|n t IH]; intros c v vals k name e Hm Hl; simpl; [exact Hl|].
  simpl in Hm. apply orb_false_iff in Hm. destruct Hm as [Hn Ht].
  apply IH; [exact Ht|]. simpl. rewrite r_lookup_set_other; [exact Hl|].
  intro E. subst. rewrite String.eqb_refl in Hn. discriminate.
Qed.

Lemma eval_srcs_keeps : forall name l getf,
  (forall c s, frame c (fst (getf c s))) -> (forall c s, keeps name l c (fst (getf c s))) ->
  forall srcs c, keeps name l c (fst (eval_srcs getf c srcs)).
Proof.
  intros name l getf Hf Hk. induction srcs as [|a t IH]; intros c Hl Hn; simpl; [exact Hl|].
  pose proof (Hk c a Hl Hn) as H1. pose proof (Hf c a) as F1.
  destruct (getf c a) as [c1 r]. simpl in H1, F1.
  assert (Hn1 : no_producer name c1).
  { unfold no_producer. destruct F1 as [_ [_ [_ Ev]]]. rewrite Ev. exact Hn. }
  destruct r; simpl; auto.
  pose proof (IH c1 H1 Hn1) as H2. destruct (eval_srcs getf c1 t) as [c2 [vs|er]]; exact H2.
Qed.

Lemma get_body_keeps : forall name l rec c n s e kw,
  rec_ok frame rec -> rec_ok (keeps name l) rec ->
  keeps name l c (fst (get_body vf false rec c n s e kw)).
Proof.
  intros name l rec c n s e kw Hf Hk Hl Hn. unfold get_body.
  destruct (s && negb e); [exact Hl|].
  destruct (r_lookup n (c_raw c)) as [[gid|l'|]|] eqn:En; try exact Hl.
  - destruct e; [|exact Hl].
    destruct (nth_error (c_store c) gid) as [g|]; [|exact Hl].
    destruct (get_props n (c_props c) kw) as [p pm'].
    assert (n <> name) by (intro E; subst; congruence).
    destruct (extract_sensor g (c_ts c) p); simpl; rewrite ?r_lookup_set_other by congruence; exact Hl.
  - destruct (find _ (c_virt c)) as [v|] eqn:Ev; [|exact Hl].
    destruct rec as [getf|]; [|exact Hl]. simpl in Hf, Hk.
    pose proof (eval_srcs_keeps name l getf Hf Hk (v_srcs v) c Hl Hn) as H1.
    destruct (eval_srcs getf c (v_srcs v)) as [c1 [vals|er]]; simpl in *; [|exact H1].
    apply find_some in Ev. destruct Ev as [Hv _].
    assert (r_lookup name (c_raw (store_all vf c1 v vals (v_names v) 0)) = Some (EVals l))
      by (apply store_all_keeps; [apply Hn; exact Hv | exact H1]).
    destruct (index_of_name n (v_names v)); exact H.
Qed.

Lemma get_keeps : forall name l fuel c n s e kw, keeps name l c (fst (get vf false fuel c n s e kw)).
Proof.
  intros name l. induction fuel as [|f IH]; intros; simpl; apply get_body_keeps; simpl; auto.
  intros. apply get_frame.
Qed.

(* operations that may be interleaved: any selection change, any read of any sensor *)
Definition is_read (o : op) : bool :=
  match o with OGet _ _ _ _ | OItem _ | OSetKeep _ => true | _ => false end.

Lemma step_read_keeps : forall name l c o, is_read o = true ->
  r_lookup name (c_raw c) = Some (EVals l) -> no_producer name c ->
  r_lookup name (c_raw (fst (step vf false c o))) = Some (EVals l) /\ no_producer name (fst (step vf false c o)).
Proof.
  intros name l c o Hr Hl Hn. destruct o as [n s e kw|n|n l'|n g|[k|]|n|a o]; try discriminate; unfold step.
  - split; [apply get_keeps; assumption|].
    unfold no_producer. destruct (get_frame (fuel_of c) c n s e kw) as [_ [_ [_ Ev]]]. rewrite Ev. exact Hn.
  - split; [apply get_keeps; assumption|].
    unfold no_producer. destruct (get_frame (fuel_of c) c n true true p_empty) as [_ [_ [_ Ev]]]. rewrite Ev. exact Hn.
  - split; assumption.
  - split; assumption.
Qed.

(* get_repeatable: once a sensor has been cached with full-length values l, ANY interleaving of selection changes
   and reads (of this or other sensors, with any select/extract/kwargs) leaves it cached, and a further access
   returns l restricted to the then-current selection *)
Lemma get_repeatable : forall name l ops c,
  r_lookup name (c_raw c) = Some (EVals l) -> no_producer name c -> forallb is_read ops = true ->
  let c' := fst (run_ops vf false c ops) in
  forall fuel s e kw, s && negb e = false ->
  get vf false fuel c' name s e kw = (c', RVals (if s then select_mask (c_keep c') l else l)).
Proof.
  intros name l ops. induction ops as [|o t IH]; intros c Hl Hn Hr c' fuel s e kw Hse.
  - apply get_cached; assumption.
  - simpl in Hr. apply andb_true_iff in Hr. destruct Hr as [Ho Ht].
    destruct (step_read_keeps name l c o Ho Hl Hn) as [H1 H2].
    subst c'. simpl. destruct (step vf false c o) as [c1 r]. simpl in H1, H2.
    specialize (IH c1 H1 H2 Ht fuel s e kw Hse).
    destruct (run_ops vf false c1 t) as [c2 rs]. simpl in *. exact IH.
Qed.

(* ------------------------------------------------------------------ aliases *)
(* two names bound to the same getter, read with the same effective properties, give the same values,
   whichever is read first *)
Lemma alias_consistent : forall fuel c a b gid g kwa kwb c1 la c2 lb,
  r_lookup a (c_raw c) = Some (ERaw gid) -> r_lookup b (c_raw c) = Some (ERaw gid) -> a <> b ->
  nth_error (c_store c) gid = Some g ->
  get vf false fuel c a false true kwa = (c1, RVals la) ->
  get vf false fuel c1 b false true kwb = (c2, RVals lb) ->
  fst (get_props a (c_props c) kwa) = fst (get_props b (c_props c1) kwb) ->
  la = lb.
Proof.
  intros fuel c a b gid g kwa kwb c1 la c2 lb Ha Hb Hab Hg G1 G2 Hp.
  rewrite (get_raw_unfold fuel c a gid g false kwa Ha Hg) in G1. cbv zeta in G1.
  assert (Hb1 : r_lookup b (c_raw c1) = Some (ERaw gid) /\ c_store c1 = c_store c /\ c_ts c1 = c_ts c).
  { destruct (extract_sensor g (c_ts c) (fst (get_props a (c_props c) kwa))); inversion G1; subst; simpl;
      rewrite ?r_lookup_set_other by congruence; auto. }
  destruct Hb1 as [Hb1 [Hs1 Ht1]].
  assert (Hg1 : nth_error (c_store c1) gid = Some g) by (rewrite Hs1; exact Hg).
  rewrite (get_raw_unfold fuel c1 b gid g false kwb Hb1 Hg1) in G2. cbv zeta in G2.
  rewrite Ht1, <- Hp in G2.
  destruct (extract_sensor g (c_ts c) (fst (get_props a (c_props c) kwa))); inversion G1; inversion G2; subst.
  reflexivity.
Qed.

(* ------------------------------------------------------------------ virtual sensors *)
Lemma store_all_lookup : forall names c v vals k0 j n,
  NoDup names -> nth_error names j = Some n ->
  r_lookup n (c_raw (store_all vf c v vals names k0)) = Some (EVals (vf (v_fid v) (k0 + j)%nat vals (c_ts c))).
Proof.
  induction names as [|m t IH]; intros c v vals k0 j n Hnd Hj; [destruct j; discriminate|].
  inversion Hnd as [|? ? Hnotin Hnd']; subst. simpl.
  destruct j as [|j]; simpl in Hj.
  - inversion Hj; subst. rewrite Nat.add_0_r.
    apply store_all_keeps; [| simpl; apply r_lookup_set_same].
    unfold mem_string. destruct (existsb (String.eqb n) t) eqn:E; [|reflexivity].
    apply existsb_exists in E. destruct E as [x [Hx E]]. apply String.eqb_eq in E. subst. contradiction.
  - rewrite (IH _ v vals (S k0) j n Hnd' Hj). simpl. rewrite Nat.add_succ_r. reflexivity.
Qed.

Lemma store_all_ts : forall names c v vals k, c_ts (store_all vf c v vals names k) = c_ts c.
Proof. intros. apply store_all_frame. Qed.
Lemma store_all_keep : forall names c v vals k, c_keep (store_all vf c v vals names k) = c_keep c.
Proof. intros. apply store_all_frame. Qed.

(* a virtual sensor is the registered function of the values of its source sensors (and of the timestamps);
   the result is stored under EVERY name the function produces and the requested one is returned (selected) *)
Lemma virtual_is_function_of_sources : forall fuel c name select extract kw v c1 vals k,
  select && negb extract = false ->
  r_lookup name (c_raw c) = None ->
  find (fun v => mem_string name (v_names v)) (c_virt c) = Some v ->
  eval_srcs (fun c' s => get vf false fuel c' s false true p_empty) c (v_srcs v) = (c1, inl vals) ->
  index_of_name name (v_names v) = Some k -> NoDup (v_names v) ->
  let '(c', r) := get vf false (S fuel) c name select extract kw in
  r = RVals (if select then select_mask (c_keep c) (vf (v_fid v) k vals (c_ts c)) else vf (v_fid v) k vals (c_ts c)) /\
  (forall j n, nth_error (v_names v) j = Some n ->
     r_lookup n (c_raw c') = Some (EVals (vf (v_fid v) j vals (c_ts c)))) /\
  c_store c' = c_store c.
Proof.
  intros fuel c name select extract kw v c1 vals k Hse Hl Hf He Hk Hnd.
  simpl. unfold get_body. rewrite Hse, Hl, Hf, He, Hk.
  assert (F1 : frame c c1).
  { pose proof (eval_srcs_frame _ (fun c' s => get_frame fuel c' s false true p_empty) (v_srcs v) c) as F.
    rewrite He in F. exact F. }
  destruct F1 as [Fs [Ft [Fk _]]].
  rewrite store_all_ts, Ft. unfold sel. rewrite store_all_keep, Fk.
  split; [reflexivity|]. split.
  - intros j n Hj. rewrite (store_all_lookup _ c1 v vals 0%nat j n Hnd Hj). rewrite Ft. reflexivity.
  - rewrite <- Fs. apply store_all_frame.
Qed.

End CacheP.

(* ================================================================== concatenated cache *)
Section ConcatP.
Variable vf : Z -> nat -> list (list qn) -> list Q -> list qn.

(* what the concatenation must be: present parts contribute their values, parts lacking the sensor the dummy fill *)
Fixpoint filled (parts : list cache) (rs : list res) (select : bool) (xv : cache -> list qn) : list qn :=
  match parts, rs with
  | c :: t, r :: rt => (match r with RVals l => l | _ => sel c select (xv c) end) ++ filled t rt select xv
  | _, _ => []
  end.

Definition vk (r : res) : bool := is_vals r || is_key r.

Lemma vk_no_hard : forall rs, forallb vk rs = true -> existsb is_hard_err rs = false /\ existsb is_cat rs = false.
Proof.
  induction rs as [|r t IH]; intros H; [split; reflexivity|].
  simpl in H. apply andb_true_iff in H. destruct H as [Hr Ht]. destruct (IH Ht) as [A B].
  simpl. rewrite A, B. destruct r; simpl in Hr; try discriminate; split; reflexivity.
Qed.

Lemma gets_length : forall parts name s e kw,
  List.length (fst (gets vf false parts name s e kw)) = List.length parts /\
  List.length (snd (gets vf false parts name s e kw)) = List.length parts.
Proof.
  induction parts as [|c t IH]; intros; [split; reflexivity|].
  cbn [gets]. destruct (get vf false (fuel_of c) c name s e kw) as [c1 r].
  specialize (IH name s e kw). destruct (gets vf false t name s e kw) as [t1 rs].
  cbn [fst snd List.length] in *. destruct IH as [A B]. rewrite A, B. split; reflexivity.
Qed.

Lemma fill_spec : forall name select x xv, (forall c, x c = XVals (xv c)) ->
  forall parts rs, List.length parts = List.length rs -> forallb vk rs = true ->
  concat_vals (snd (fill parts rs name select x)) = Some (filled parts rs select xv) /\
  existsb is_cat (snd (fill parts rs name select x)) = false /\
  (forall i c, nth_error parts i = Some c -> nth_error rs i = Some RErrKey ->
     exists c', nth_error (fst (fill parts rs name select x)) i = Some c' /\
                r_lookup name (c_raw c') = Some (EVals (xv c)) /\ c_store c' = c_store c /\ c_keep c' = c_keep c).
Proof.
  intros name select x xv Hx. induction parts as [|c t IH]; intros [|r rt] Hlen Hvk; try discriminate.
  - simpl. repeat split; try reflexivity. intros [|i] c H; discriminate.
  - simpl in Hlen, Hvk. apply andb_true_iff in Hvk. destruct Hvk as [Hr Ht].
    assert (Hl : List.length t = List.length rt) by lia.
    destruct (IH rt Hl Ht) as [A [B C]]. simpl.
    destruct (fill t rt name select x) as [t1 rs1] eqn:Ef. simpl in A, B, C.
    destruct r; simpl in Hr; try discriminate; simpl.
    + rewrite A, B. repeat split; try reflexivity.
      intros [|i] c0 Hc Hk; simpl in *; [discriminate | apply C; assumption].
    + rewrite Hx. simpl. rewrite A, B. repeat split; try reflexivity.
      intros [|i] c0 Hc Hk; simpl in *.
      * inversion Hc; subst. eexists. split; [reflexivity|]. simpl. rewrite r_lookup_set_same. auto.
      * apply C; assumption.
Qed.

(* concat_cache_fills: a numeric sensor that is absent (KeyError) from some parts of a concatenated cache is read
   as the concatenation of the parts' values with the dummy value (NaN, or the explicit float initial_value)
   over the dumps of the parts that lack it; the fill is stored back into those parts *)
Lemma concat_cache_fills : forall cc name select kw p2 r2 q,
  gets vf false (cc_parts cc) name select true kw = (p2, r2) ->
  forallb vk r2 = true -> existsb is_key r2 = true -> forallb is_key r2 = false ->
  let p := fst (get_props name (cc_props cc) kw) in
  dummy_value (p_init p) DFloat = (DFloat, VNum q) -> decide_cat p DFloat = false ->
  let xv := fun c : cache => map (fun _ : Q => q) (c_ts c) in
  let '(cc', r) := cget vf false cc name select true kw in
  r = RVals (filled p2 r2 select xv) /\
  (forall i c, nth_error p2 i = Some c -> nth_error r2 i = Some RErrKey ->
     exists c', nth_error (cc_parts cc') i = Some c' /\
                r_lookup name (c_raw c') = Some (EVals (xv c)) /\ c_store c' = c_store c /\ c_keep c' = c_keep c).
Proof.
  intros cc name select kw p2 r2 q Hg Hvk Hk Hnk p Hd Hc xv.
  unfold cget. rewrite andb_false_r, Hg.
  destruct (vk_no_hard r2 Hvk) as [Hh Hcat]. rewrite Hh, Hnk. cbn [negb andb orb]. rewrite Hh.
  destruct (get_props name (cc_props cc) kw) as [p' pm'] eqn:Ep. subst p. cbn [fst] in *.
  rewrite Hk, Hcat, Hd.
  assert (Hlen : List.length p2 = List.length r2).
  { pose proof (gets_length (cc_parts cc) name select true kw) as [A B]. rewrite Hg in A, B. simpl in *. congruence. }
  assert (Hx : forall c, finish_dummy DFloat (VNum q) p' (c_ts c) = XVals (xv c)).
  { intros c. unfold finish_dummy. rewrite Hc. reflexivity. }
  destruct (fill_spec name select (fun c => finish_dummy DFloat (VNum q) p' (c_ts c)) xv Hx p2 r2 Hlen Hvk) as [A [B C]].
  destruct (fill p2 r2 name select (fun c => finish_dummy DFloat (VNum q) p' (c_ts c))) as [p3 r3]. simpl in A, B, C.
  rewrite B, A. split; [reflexivity | exact C].
Qed.

End ConcatP.

(* ================================================================== the code before the F3 repair *)
(* With the in-place `timestamp += time_offset` (inplace = true) extraction alters the stored samples and an alias,
   read with the same properties, gives different values: extract_pure and alias_consistent fail for that code. *)
Definition f3_cache : cache :=
  mkC [("a/x"%string, ERaw 0); ("a/z"%string, ERaw 0)] [0; 1; 2] [true; true; true]
      [("*"%string, mkP (Some 1) None None)] []
      [mkG DFloat false [mkS 0 0 ""; mkS 2 8 ""]].
Definition no_vf : Z -> nat -> list (list qn) -> list Q -> list qn := fun _ _ _ _ => [].

(* results are shown through the wire encoding (fractions reduced by Qred) *)
Definition qs (l : list Z) : sx := L (map (fun z => of_qn (Some (inject_Z z))) l).
Example inplace_refutes_purity :
  let ops := [OGet "a/x" false true p_empty; OGet "a/z" false true p_empty] in
  (* pre-repair code: the alias differs, raw samples shifted twice *)
  map of_res (snd (run_ops no_vf true f3_cache ops)) = [L [I 0%Z; qs [0; 0; 4]%Z]; L [I 0%Z; qs [0; 0; 0]%Z]] /\
  of_store (c_store (fst (run_ops no_vf true f3_cache ops))) = of_store [mkG DFloat false [mkS 2 0 ""; mkS 4 8 ""]] /\
  (* repaired code (the faithful model): same values, samples untouched *)
  map of_res (snd (run_ops no_vf false f3_cache ops)) = [L [I 0%Z; qs [0; 0; 4]%Z]; L [I 0%Z; qs [0; 0; 4]%Z]] /\
  c_store (fst (run_ops no_vf false f3_cache ops)) = c_store f3_cache.
Proof. vm_compute. repeat split. Qed.

(* hypotheses of C12_get / get_repeatable / alias_consistent are satisfiable *)
Example c12_get_example :
  let c := f3_cache in
  let '(c', r) := get no_vf false 1 c "a/x" true true p_empty in
  of_res r = L [I 0%Z; qs [0; 0; 4]%Z] /\ (exists l, r_lookup "a/x" (c_raw c') = Some (EVals l)) /\
  no_producer "a/x" c'.
Proof. vm_compute. repeat split. eexists; reflexivity. intros v []. Qed.

(* wildcard property merge: kwargs beat every wildcard entry, which beat (in dict order) the name-specific entry *)
Lemma get_props_kwargs_win : forall name pm kw,
  let p := fst (get_props name pm kw) in
  (forall o, p_off kw = Some o -> p_off p = Some o) /\
  (forall b, p_cat kw = Some b -> p_cat p = Some b) /\
  (forall i, p_init kw = Some i -> p_init p = Some i).
Proof.
  intros name pm kw. simpl. repeat split; intros x H; rewrite H; reflexivity.
Qed.

Example get_props_example :
  let pm := [("a/x"%string, mkP (Some 1) None None); ("*x"%string, mkP (Some 2) (Some false) None);
             ("b*"%string, mkP (Some 9) None None); ("*"%string, mkP None None (Some (IVFloat 5)))] in
  fst (get_props "a/x" pm (mkP None (Some true) None)) = mkP (Some 2) (Some true) (Some (IVFloat 5)) /\
  pm_lookup "a/x" (snd (get_props "a/x" pm (mkP None (Some true) None))) = Some (mkP (Some 2) (Some true) (Some (IVFloat 5))).
Proof. vm_compute. split; reflexivity. Qed.
