(* C11 (round 3), tie: the bounds check of CategoricalData.add
     if event <lo> L or event <hi> self.events[-1]: raise IndexError
   written with the operators / constant re-read from the source (catg_add_lo_cmp, catg_add_lo, catg_add_hi_cmp), in
   front of the generated body add_g, IS the model function add_chk, for all arguments. *)
From Coq Require Import ZArith List Bool Arith Lia.
From KV Require Import Base.Sx Model.Categorical Model.CategoricalX Model.CategoricalH Gen.Generated
  Proofs.CategoricalTieP.
Import ListNotations.

Section MirrorH.
Context {V : Type} (veqb : V -> V -> bool).

Definition add_chk_g (c : @cd V) (e : Z) (val : option V) : option (@cd V) :=
  if (catg_add_lo_cmp e catg_add_lo || catg_add_hi_cmp e (Z.of_nat (ndumps c)))%bool then None
  else add_g veqb c (Z.to_nat e) val.

Lemma add_chk_g_ok (c : @cd V) e val : add_chk_g c e val = add_chk veqb c e val.
Proof. unfold add_chk_g, add_chk, catg_add_lo_cmp, catg_add_hi_cmp, catg_add_lo. rewrite add_g_ok. reflexivity. Qed.

(* add_unmatched calls that add (default match_dist and the `>` of the source, as in catg_model_uses) *)
Lemma add_unmatched_chk_g (c : @cd V) segs :
  add_unmatched_chk veqb c segs (Z.to_nat catg_match_dist) =
  fold_left (fun c s => match add_chk_g c (Z.of_nat s) None with Some c' => c' | None => c end)
    (filter (fun s => catg_unmatched_cmp (Z.of_nat (list_min (map (absd s) (ev c)))) catg_match_dist) segs) c.
Proof.
  destruct catg_pointwise as (_ & P2 & _ & _ & _ & P6 & _). unfold add_unmatched_chk. rewrite P6.
  replace (filter (fun s => catg_unmatched_cmp (Z.of_nat (list_min (map (absd s) (ev c)))) 1%Z) segs)
    with (filter (fun s => Z.to_nat 1 <? list_min (map (absd s) (ev c))) segs).
  2:{ apply filter_ext. intros s. change 1%Z with (Z.of_nat 1) at 2. rewrite P2. reflexivity. }
  generalize (filter (fun s => Z.to_nat 1 <? list_min (map (absd s) (ev c))) segs). intros l. revert c.
  induction l as [|s l IH]; intros c; simpl; [reflexivity|]. rewrite add_chk_g_ok. apply IH.
Qed.
End MirrorH.
