(* C20 (strengthening round): per-call state is interleaving-independent; the retry budget slot of a pooled session is
   private to the request that holds the session. *)
From Coq Require Import List Arith Bool Lia ZArith Permutation String.
From KV Require Import Base.Sx Gen.Generated Model.LazyInit Proofs.LazyInitP Model.Guarded Proofs.GuardedP
                       Model.SharedSites Proofs.SharedSitesP Proofs.ReqProgP Model.PerCall.
Import ListNotations.
Close Scope Z_scope.
Open Scope nat_scope.

(* ================================================================================================================ *)
(* A. per-call state only => interleaving-independent                                                                 *)
(* ================================================================================================================ *)
Section RO.
Variables (Sh Lo : Type) (line : Sh -> Lo -> act Sh Lo) (start : nat -> Lo).
Hypothesis RO : readonly Sh Lo line.

(* every thread is somewhere on ITS OWN solo run from the initial shared state -- which nobody ever changes *)
Record ROInv (sh0 : Sh) (c : gcfg Sh Lo) : Prop := {
  ro_sh : g_sh c = sh0;
  ro_in : forall u lo, g_th c u = GIn lo -> lines Sh Lo line sh0 (start u) sh0 lo;
  ro_done : forall u lo, g_th c u = GDone lo -> cs_run Sh Lo line sh0 (start u) sh0 (OFin lo);
  ro_fail : forall u, g_th c u = GFail -> cs_run Sh Lo line sh0 (start u) sh0 OCrash
}.

Lemma roinv_step sh0 c t : ROInv sh0 c -> ROInv sh0 (ustep Sh Lo line start c t).
Proof.
  intros [Hs Hi Hd Hf]. unfold ustep. destruct (g_th c t) as [|lo|lo|] eqn:Et.
  - constructor; simpl; [exact Hs| | |].
    + intros u lo H. destruct (Nat.eq_dec u t) as [->|Hu].
      * rewrite gupd_same in H. injection H as <-. apply ln_refl.
      * rewrite gupd_other in H by exact Hu. apply Hi. exact H.
    + intros u lo H. destruct (Nat.eq_dec u t) as [->|Hu]; [rewrite gupd_same in H; discriminate|].
      rewrite gupd_other in H by exact Hu. apply Hd. exact H.
    + intros u H. destruct (Nat.eq_dec u t) as [->|Hu]; [rewrite gupd_same in H; discriminate|].
      rewrite gupd_other in H by exact Hu. apply Hf. exact H.
  - pose proof (Hi t lo Et) as HL. rewrite Hs.
    destruct (line sh0 lo) as [sh1 lo1|lo1|] eqn:E.
    + pose proof (RO _ _ _ _ E) as ->. constructor; simpl; [reflexivity| | |].
      * intros u l H. destruct (Nat.eq_dec u t) as [->|Hu].
        -- rewrite gupd_same in H. injection H as <-. eapply lines_snoc; eassumption.
        -- rewrite gupd_other in H by exact Hu. apply Hi. exact H.
      * intros u l H. destruct (Nat.eq_dec u t) as [->|Hu]; [rewrite gupd_same in H; discriminate|].
        rewrite gupd_other in H by exact Hu. apply Hd. exact H.
      * intros u H. destruct (Nat.eq_dec u t) as [->|Hu]; [rewrite gupd_same in H; discriminate|].
        rewrite gupd_other in H by exact Hu. apply Hf. exact H.
    + constructor; simpl; [reflexivity| | |].
      * intros u l H. destruct (Nat.eq_dec u t) as [->|Hu]; [rewrite gupd_same in H; discriminate|].
        rewrite gupd_other in H by exact Hu. apply Hi. exact H.
      * intros u l H. destruct (Nat.eq_dec u t) as [->|Hu].
        -- rewrite gupd_same in H. injection H as <-. eapply lines_cs_run; [exact HL|]. apply cs_fin. exact E.
        -- rewrite gupd_other in H by exact Hu. apply Hd. exact H.
      * intros u H. destruct (Nat.eq_dec u t) as [->|Hu]; [rewrite gupd_same in H; discriminate|].
        rewrite gupd_other in H by exact Hu. apply Hf. exact H.
    + constructor; simpl; [reflexivity| | |].
      * intros u l H. destruct (Nat.eq_dec u t) as [->|Hu]; [rewrite gupd_same in H; discriminate|].
        rewrite gupd_other in H by exact Hu. apply Hi. exact H.
      * intros u l H. destruct (Nat.eq_dec u t) as [->|Hu]; [rewrite gupd_same in H; discriminate|].
        rewrite gupd_other in H by exact Hu. apply Hd. exact H.
      * intros u H. destruct (Nat.eq_dec u t) as [->|Hu].
        -- eapply lines_cs_run; [exact HL|]. apply cs_crash. exact E.
        -- rewrite gupd_other in H by exact Hu. apply Hf. exact H.
  - constructor; assumption.
  - constructor; assumption.
Qed.

(* ANY number of threads, ANY schedule, NO lock: the shared state is never changed; a thread that has finished has
   the result of running ALONE from the initial state (an exception included: it raises alone as well); a thread that
   is still running has so far done what it does alone *)
Theorem percall_interleaving_independent sh0 schedule :
  let c := uexec Sh Lo line start sh0 schedule in
  g_sh c = sh0 /\
  (forall t lo, g_th c t = GDone lo -> cs_run Sh Lo line sh0 (start t) sh0 (OFin lo)) /\
  (forall t, g_th c t = GFail -> cs_run Sh Lo line sh0 (start t) sh0 OCrash) /\
  (forall t lo, g_th c t = GIn lo -> lines Sh Lo line sh0 (start t) sh0 lo).
Proof.
  intros c.
  assert (ROInv sh0 c) as [H1 H2 H3 H4].
  { unfold c, uexec.
    assert (ROInv sh0 (ginit Sh Lo sh0)) as Hi by (constructor; simpl; [reflexivity|discriminate|discriminate|discriminate]).
    revert Hi. generalize (ginit Sh Lo sh0).
    induction schedule as [|t sch IH]; intros c0 H; simpl; [exact H|]. apply IH. apply roinv_step. exact H. }
  repeat split; assumption.
Qed.
End RO.

(* ---------- the block function of the applycal corrections ---------- *)
Section BlocksP.
Variables (P V : Type) (g : P -> nat -> nat -> V) (sol : nat -> nat).

Lemma bline_readonly : readonly P (blocal V) (bline P V g sol).
Proof.
  intros sh lo sh' lo' H. unfold bline in H. destruct (bl_todo lo); [discriminate|]. injection H as <- _. reflexivity.
Qed.

(* what one block computes alone: one value per dump, each from the solutions valid at that dump *)
Lemma bline_solo p : forall todo chan out,
  cs_run P (blocal V) (bline P V g sol) p (mkBL todo chan out) p (OFin (mkBL [] chan (out ++ map (fun d => g p (sol d) chan) todo))).
Proof.
  induction todo as [|d r IH]; intros chan out.
  - simpl. rewrite app_nil_r. apply cs_fin. reflexivity.
  - eapply cs_go; [reflexivity|]. simpl. specialize (IH chan (out ++ [g p (sol d) chan])).
    rewrite <- app_assoc in IH. exact IH.
Qed.

(* any number of workers computing any blocks over ONE CorrectionParams object under any interleaving: every finished
   block is the single-threaded block, nothing raises, the parameters are untouched *)
Theorem blocks_any_interleaving p blocks schedule :
  let c := uexec P (blocal V) (bline P V g sol) (bstart V blocks) p schedule in
  g_sh c = p /\ (forall t, g_th c t <> GFail) /\
  forall t lo, g_th c t = GDone lo -> bl_out lo = block_spec P V g sol p (blocks t).
Proof.
  intros c.
  destruct (percall_interleaving_independent P (blocal V) (bline P V g sol) (bstart V blocks) bline_readonly p schedule)
    as (H1 & H2 & H3 & _).
  fold c in H1, H2, H3. split; [exact H1|]. split.
  - intros t Hf. specialize (H3 t Hf). pose proof (bline_solo p (fst (blocks t)) (snd (blocks t)) []) as Hs.
    unfold bstart in H3. destruct (cs_run_det _ _ _ _ _ _ _ H3 _ _ Hs) as [_ X]. discriminate.
  - intros t lo Hd. specialize (H2 t lo Hd). pose proof (bline_solo p (fst (blocks t)) (snd (blocks t)) []) as Hs.
    unfold bstart in H2. destruct (cs_run_det _ _ _ _ _ _ _ H2 _ _ Hs) as [_ X]. injection X as ->. reflexivity.
Qed.
End BlocksP.

(* the statement kinds of the real block functions (translated): nothing but reads of shared state, call-local work,
   modelled writes (output parameter / copy on first write) and returns of fresh objects or of arguments *)
Lemma worker_functions_per_call :
  forallb (fun s => percall_code_ok (snd s)) c20_worker_fn_skeletons = true /\
  c20_outparam_callers_fresh = true /\ c20_copy_on_write_ok = true.
Proof. repeat split; reflexivity. Qed.
Lemma worker_functions_listed :
  map fst c20_worker_fn_skeletons =
  ["applycal._correction_block"; "applycal.calc_correction_per_corrprod"; "applycal._correction_inputs_to_corrprods";
   "applycal.apply_vis_correction"; "applycal.apply_weights_correction"; "applycal.apply_flags_correction";
   "vis_flags_weights._default_zero"; "vis_flags_weights._apply_data_lost"; "vis_flags_weights._narrow";
   "vis_flags_weights.weight_power_scale"]%string.
Proof. reflexivity. Qed.
(* every write to an object that outlives the call, in the files whose functions run in worker threads or behind the
   first-time accesses, is one of the modelled sites *)
Lemma shared_writes_modelled : c20_shared_writes_unmodelled = [].
Proof. reflexivity. Qed.

(* ---------- the memo: what a "same as last call" shortcut on the shared object does ---------- *)
Definition g_ex (p s c : nat) : nat := p + 100 * s + c.
Definition sol_ex (d : nat) : nat := Nat.div d 2.
Definition blocks_ex (t : nat) : list nat * nat := match t with 0 => ([0; 1], 0) | 1 => ([0], 1) | _ => ([], 0) end.
(* thread 0 computes dump 0 of channel chunk 0, finds its own key for dump 1, is pre-empted before it reads the stored
   answer; thread 1 computes chunk 1 and stores its answer; thread 0 returns thread 1's gains for its dump 1 *)
Lemma memo_unlocked_refuted :
  exists schedule,
    let c := uexec _ _ (memo_line nat nat g_ex sol_ex) (mstart_memo nat blocks_ex) (mkMemo 7 None None) schedule in
    match g_th c 0 with
    | GDone lo => bl_out (ml_b lo) <> block_spec nat nat g_ex sol_ex 7 (blocks_ex 0)
    | _ => False
    end.
Proof. exists [0; 0; 0; 0; 0; 0; 1; 1; 1; 1; 1; 0; 0]. vm_compute. discriminate. Qed.
(* ... and the half-done update: thread 0 has stored the new key but not yet the new answer; thread 1, asking for that
   key, is handed the previous answer *)
Definition blocks_ex2 (t : nat) : list nat * nat := match t with 0 => ([0; 2], 0) | 1 => ([3], 0) | _ => ([], 0) end.
Lemma memo_half_done_refuted :
  exists schedule,
    let c := uexec _ _ (memo_line nat nat g_ex sol_ex) (mstart_memo nat blocks_ex2) (mkMemo 7 None None) schedule in
    match g_th c 1 with
    | GDone lo => bl_out (ml_b lo) <> block_spec nat nat g_ex sol_ex 7 (blocks_ex2 1)
    | _ => False
    end.
Proof. exists [0; 0; 0; 0; 0; 0; 0; 0; 1; 1; 1; 1]. vm_compute. discriminate. Qed.

(* the memo inside a lock: every call starts from a consistent memo, so a hit returns the right answer *)
Section MemoLocked.
Variables (P V : Type) (g : P -> nat -> nat -> V) (sol : nat -> nat) (p0 : P) (blocks : nat -> list nat * nat).
Notation mline := (memo_line P V g sol).
Definition mI (sh : memo P V) : Prop := mm_p sh = p0 /\ memo_consistent P V g sh.
(* outputs so far + what is still to do = the block *)
Definition mprog (t : nat) (b : blocal V) : Prop :=
  bl_chan b = snd (blocks t) /\
  bl_out b ++ map (fun d => g p0 (sol d) (bl_chan b)) (bl_todo b) = block_spec P V g sol p0 (blocks t).
Definition mJ (t : nat) (sh : memo P V) (lo : mlocal V) : Prop :=
  mm_p sh = p0 /\ mprog t (ml_b lo) /\
  match bl_todo (ml_b lo) with
  | [] => memo_consistent P V g sh /\ ml_pc lo = MTest
  | d :: _ =>
      let k := (sol d, bl_chan (ml_b lo)) in
      match ml_pc lo with
      | MTest | MCompute => memo_consistent P V g sh
      | MHit => memo_consistent P V g sh /\ mm_key sh = Some k
      | MStoreKey v => memo_consistent P V g sh /\ v = g p0 (fst k) (snd k)
      | MStoreVal v => mm_key sh = Some k /\ v = g p0 (fst k) (snd k)
      end
  end.
Definition mPost (t : nat) (lo : mlocal V) : Prop := bl_out (ml_b lo) = block_spec P V g sol p0 (blocks t).

Lemma key_eqb_eq a b : key_eqb a b = true -> a = b.
Proof.
  unfold key_eqb. intros H. apply andb_true_iff in H. destruct H as [H1 H2]. apply Nat.eqb_eq in H1, H2.
  destruct a, b; simpl in *; subst; reflexivity.
Qed.

Lemma mJ_start t sh : mI sh -> mJ t sh (mstart_memo V blocks t).
Proof.
  intros [Hp Hc]. unfold mJ, mstart_memo, bstart, mprog. simpl. split; [exact Hp|]. split; [split; reflexivity|].
  destruct (fst (blocks t)); [split; [exact Hc|reflexivity]|exact Hc].
Qed.

Lemma mprog_next t d r chan out :
  mprog t (mkBL (d :: r) chan out) -> mprog t (mkBL r chan (out ++ [g p0 (sol d) chan])).
Proof. unfold mprog. simpl. intros [H1 H2]. split; [exact H1|]. rewrite <- app_assoc. exact H2. Qed.

Lemma mJ_go t sh lo sh' lo' : mJ t sh lo -> mline sh lo = Go sh' lo' -> mJ t sh' lo'.
Proof.
  intros (Hp & Hg & Hpc) E. unfold memo_line in E. destruct lo as [[todo chan out] pc]. simpl in *.
  destruct todo as [|d r]; [discriminate|].
  destruct pc as [| | |v|v].
  - (* MTest *)
    destruct (mm_key sh) as [k'|] eqn:Ek.
    + destruct (key_eqb (sol d, chan) k') eqn:Eq; injection E as <- <-; unfold mJ; simpl; (split; [exact Hp|]); (split; [exact Hg|]).
      * apply key_eqb_eq in Eq. subst k'. split; [exact Hpc|exact Ek].
      * exact Hpc.
    + injection E as <- <-. unfold mJ; simpl. split; [exact Hp|]. split; [exact Hg|]. exact Hpc.
  - (* MHit *)
    destruct Hpc as [Hc Hk]. unfold memo_consistent in Hc. rewrite Hk in Hc. simpl in Hc.
    destruct (mm_val sh) as [v|] eqn:Ev; [|discriminate]. injection E as <- <-. injection Hc as ->.
    unfold mJ; simpl. split; [exact Hp|]. rewrite Hp. split; [apply mprog_next; exact Hg|].
    assert (memo_consistent P V g sh) as Hc'.
    { unfold memo_consistent. rewrite Hk, Ev, Hp. reflexivity. }
    destruct r; [split; [exact Hc'|reflexivity]|exact Hc'].
  - (* MCompute *)
    injection E as <- <-. unfold mJ; simpl. split; [exact Hp|]. split; [exact Hg|]. split; [exact Hpc|]. rewrite Hp. reflexivity.
  - (* MStoreKey *)
    destruct Hpc as [Hc Hv]. injection E as <- <-. unfold mJ; simpl. split; [exact Hp|]. split; [exact Hg|].
    split; [reflexivity|exact Hv].
  - (* MStoreVal *)
    destruct Hpc as [Hk Hv]. injection E as <- <-. unfold mJ; simpl. split; [exact Hp|]. subst v. simpl.
    split; [apply mprog_next; exact Hg|].
    assert (memo_consistent P V g (mkMemo (mm_p sh) (mm_key sh) (Some (g p0 (sol d) chan)))) as Hc'.
    { unfold memo_consistent. simpl. rewrite Hk, Hp. reflexivity. }
    destruct r; [split; [exact Hc'|reflexivity]|exact Hc'].
Qed.

Lemma mJ_fin t sh lo lo' : mJ t sh lo -> mline sh lo = Fin lo' -> mI sh /\ mPost t lo'.
Proof.
  intros (Hp & Hg & Hpc) E. unfold memo_line in E. destruct lo as [[todo chan out] pc]. simpl in *.
  destruct todo as [|d r].
  - injection E as <-. destruct Hpc as [Hc _]. split; [split; assumption|].
    unfold mPost. simpl. destruct Hg as [_ Hg]. simpl in Hg. rewrite app_nil_r in Hg. exact Hg.
  - destruct pc as [| | |v|v]; try discriminate.
    + destruct (mm_key sh) as [k'|]; [destruct (key_eqb (sol d, chan) k')|]; discriminate.
    + destruct (mm_val sh); discriminate.
Qed.

Lemma mJ_nocrash t sh lo : mJ t sh lo -> mline sh lo <> Crash.
Proof.
  intros (Hp & Hg & Hpc) E. unfold memo_line in E. destruct lo as [[todo chan out] pc]. simpl in *.
  destruct todo as [|d r]; [discriminate|].
  destruct pc as [| | |v|v]; try discriminate.
  - destruct (mm_key sh) as [k'|]; [destruct (key_eqb (sol d, chan) k')|]; discriminate.
  - destruct Hpc as [Hc Hk]. unfold memo_consistent in Hc. rewrite Hk in Hc. rewrite Hc in E. discriminate.
Qed.

(* with the lock around the block function: any threads, any schedule -- every finished block is the single-threaded
   block, nothing raises *)
Theorem memo_locked_safe schedule :
  let c := gexec (memo P V) (mlocal V) mline (mstart_memo V blocks) (mkMemo p0 None None) schedule in
  (forall t, g_th c t <> GFail) /\
  forall t lo, g_th c t = GDone lo -> bl_out (ml_b lo) = block_spec P V g sol p0 (blocks t).
Proof.
  intros c.
  destruct (guarded_inv_safe (memo P V) (mlocal V) mline (mstart_memo V blocks) mI mPost mJ mJ_start mJ_go mJ_fin mJ_nocrash
                             (mkMemo p0 None None) schedule) as (H1 & H2 & _).
  { split; [reflexivity|exact Logic.I]. }
  split; [exact H1|exact H2].
Qed.
End MemoLocked.

(* ================================================================================================================ *)
(* B. the retry budget slot                                                                                           *)
(* ================================================================================================================ *)
Lemma zupd_same f k v : zupd f k v k = v.
Proof. unfold zupd. rewrite Nat.eqb_refl. reflexivity. Qed.
Lemma zupd_other f k v j : j <> k -> zupd f k v j = f j.
Proof. unfold zupd. intros H. apply Nat.eqb_neq in H. rewrite H. reflexivity. Qed.
Lemma oupd_same f k v : oupd f k v k = v.
Proof. unfold oupd. rewrite Nat.eqb_refl. reflexivity. Qed.
Lemma oupd_other f k v j : j <> k -> oupd f k v j = f j.
Proof. unfold oupd. intros H. apply Nat.eqb_neq in H. rewrite H. reflexivity. Qed.

(* what the pool operations of thread t do to what ANOTHER thread holds: nothing *)
Lemma find_rm_other t x u (l : list (nat * nat)) : u <> t ->
  find (fun h => Nat.eqb (fst h) u) (rm_held t x l) = find (fun h => Nat.eqb (fst h) u) l.
Proof.
  intros Hu. induction l as [|h r IH]; simpl; [reflexivity|].
  destruct (Nat.eqb (fst h) t && Nat.eqb (snd h) x)%bool eqn:E.
  - apply andb_true_iff in E. destruct E as [E _]. apply Nat.eqb_eq in E.
    assert (Nat.eqb (fst h) u = false) as -> by (apply Nat.eqb_neq; congruence). reflexivity.
  - simpl. destruct (Nat.eqb (fst h) u); [reflexivity|exact IH].
Qed.
Lemma held_by_get_other t u p : u <> t -> held_by u (pool_step p (PGet t)) = held_by u p.
Proof.
  intros Hu. unfold held_by, pool_step, pool_step_c.
  destruct (take_item _ (p_free p)) as [| |x r]; simpl; try reflexivity;
    assert (Nat.eqb t u = false) as -> by (apply Nat.eqb_neq; congruence); reflexivity.
Qed.
Lemma held_by_put_other t u p : u <> t -> held_by u (pool_step p (PPut t)) = held_by u p.
Proof.
  intros Hu. unfold held_by, pool_step, pool_step_c.
  destruct (find (fun h => Nat.eqb (fst h) t) (p_held p)) as [[t' x]|]; [|reflexivity].
  simpl. rewrite find_rm_other by exact Hu. reflexivity.
Qed.

Section BudgetP.
Variable adapter : nat -> nat.
Hypothesis adapter_inj : forall x y, adapter x = adapter y -> x = y.
Notation bstep := (bstep adapter).

Record BInv (b : bst) : Prop := {
  bi_r : RInv (b_r b);
  bi_foreign : b_foreign b = false;
  (* what a thread has stored since it borrowed is what the slot of ITS session's adapter holds *)
  bi_slot : forall t v, b_set b t = Some v -> exists x, held_by t (r_pool (b_r b)) = Some x /\ b_slot b (adapter x) = v
}.

Lemma binv_init : BInv binit.
Proof. constructor; simpl; [exact rinv_init|reflexivity|discriminate]. Qed.

Lemma held_distinct p t u x y : pool_inv p -> t <> u -> held_by t p = Some x -> held_by u p = Some y -> x <> y.
Proof.
  intros (_ & ND & _) Htu Hx Hy E. subst y. unfold items in ND. apply nodup_app_r in ND.
  apply Htu. exact (nodup_snd_unique _ _ _ _ ND (held_by_in _ _ _ Hx) (held_by_in _ _ _ Hy)).
Qed.

Lemma binv_step b o : BInv b -> BInv (bstep b o).
Proof.
  intros [Hr Hf Hs]. destruct o as [o|t v].
  - destruct o as [t|t|t|t|t]; cbn [PerCall.bstep rop_thread].
    + (* RGet *)
      constructor; cbn [b_r b_slot b_set b_foreign b_unset]; [apply rinv_step; exact Hr|exact Hf|].
      intros u v H. destruct (Nat.eq_dec u t) as [->|Hu]; [rewrite oupd_same in H; discriminate|].
      rewrite oupd_other in H by exact Hu. destruct (Hs u v H) as (x & Hx & Hv). exists x. split; [|exact Hv].
      cbn [rstep r_pool]. rewrite held_by_get_other by exact Hu. exact Hx.
    + (* RUse *)
      destruct (held_by t (r_pool (b_r b))) as [x|] eqn:Ex.
      * destruct (b_set b t) as [v|] eqn:Ev.
        -- constructor; cbn [b_r b_slot b_set b_foreign b_unset]; [apply rinv_step; exact Hr| |].
           ++ rewrite Hf. cbn [orb]. destruct (Hs t v Ev) as (x' & Hx' & Hv). rewrite Ex in Hx'. injection Hx' as <-.
              rewrite Hv, Z.eqb_refl. reflexivity.
           ++ intros u w H. destruct (Hs u w H) as (y & Hy & Hw). exists y. split; [|exact Hw].
              cbn [rstep]. rewrite Ex. cbn [r_pool]. exact Hy.
        -- constructor; cbn [b_r b_slot b_set b_foreign b_unset]; [apply rinv_step; exact Hr|exact Hf|].
           intros u w H. destruct (Hs u w H) as (y & Hy & Hw). exists y. split; [|exact Hw].
           cbn [rstep]. rewrite Ex. cbn [r_pool]. exact Hy.
      * constructor; cbn [b_r b_slot b_set b_foreign b_unset]; [apply rinv_step; exact Hr|exact Hf|].
        intros u w H. destruct (Hs u w H) as (y & Hy & Hw). exists y. split; [|exact Hw].
        cbn [rstep]. rewrite Ex. cbn [r_pool]. exact Hy.
    + (* RSleep *) constructor; assumption.
    + (* RPut *)
      constructor; cbn [b_r b_slot b_set b_foreign b_unset]; [apply rinv_step; exact Hr|exact Hf|].
      intros u v H. destruct (Nat.eq_dec u t) as [->|Hu]; [rewrite oupd_same in H; discriminate|].
      rewrite oupd_other in H by exact Hu. destruct (Hs u v H) as (x & Hx & Hv). exists x. split; [|exact Hv].
      cbn [rstep r_pool]. rewrite held_by_put_other by exact Hu. exact Hx.
    + (* RDrop *)
      constructor; cbn [b_r b_slot b_set b_foreign b_unset]; [apply rinv_step; exact Hr|exact Hf|].
      intros u v H. destruct (Nat.eq_dec u t) as [->|Hu]; [rewrite oupd_same in H; discriminate|].
      rewrite oupd_other in H by exact Hu. destruct (Hs u v H) as (x & Hx & Hv). exists x. split; [|exact Hv].
      cbn [rstep]. destruct (held_by t (r_pool (b_r b))) as [z|]; [|exact Hx].
      cbn [r_pool]. unfold held_by in *. cbn [p_held]. rewrite find_rm_other by exact Hu. exact Hx.
  - (* BSet *)
    cbn [PerCall.bstep]. destruct (held_by t (r_pool (b_r b))) as [x|] eqn:Ex; [|constructor; assumption].
    constructor; cbn [b_r b_slot b_set b_foreign b_unset]; [exact Hr|exact Hf|].
    intros u w H. destruct (Nat.eq_dec u t) as [->|Hu].
    + rewrite oupd_same in H. injection H as <-. exists x. split; [exact Ex|apply zupd_same].
    + rewrite oupd_other in H by exact Hu. destruct (Hs u w H) as (y & Hy & Hw). exists y. split; [exact Hy|].
      rewrite zupd_other; [exact Hw|]. intros E. apply adapter_inj in E.
      destruct Hr as [Hp _ _]. exact (held_distinct _ _ _ _ _ Hp Hu Hy Ex E).
Qed.

(* ANY sequence of borrow / store-budget / send / sleep / give-back / lose events by any threads (hence any interleaving
   of any requests, with any budgets and any attempt outcomes): when every session has an adapter of its own, no attempt
   is ever sent with a budget other than the one its own request stored -- whatever the other requests in flight store,
   use up or override in the meantime *)
Theorem budget_private evs :
  let b := bexec adapter evs in
  b_foreign b = false /\
  (forall t v, b_set b t = Some v -> exists x, held_by t (r_pool (b_r b)) = Some x /\ b_slot b (adapter x) = v) /\
  r_clash (b_r b) = false /\ p_err (r_pool (b_r b)) = false.
Proof.
  intros b.
  assert (BInv b) as [[Hp Hc _] Hf Hs].
  { unfold b, bexec. generalize binv_init. generalize binit.
    induction evs as [|o l IH]; intros b0 H; simpl; [exact H|]. apply IH. apply binv_step. exact H. }
  repeat split; auto. exact (proj1 Hp).
Qed.

(* ---------- threads RUNNING request programs: no attempt goes out before its request has stored its budget ---------- *)
Record BCInv (c : bcfg) : Prop := {
  bc_inv : BInv (bc_st c);
  bc_unset : b_unset (bc_st c) = false;
  bc_unheld : r_unheld (b_r (bc_st c)) = false;
  bc_ok : forall t, bok t (count_held t (r_pool (b_r (bc_st c))))
                       (match b_set (bc_st c) t with Some _ => true | None => false end) (bc_rem c t) = true
}.
Lemma bcupd_same f t x : bcupd f t x t = x.
Proof. unfold bcupd. rewrite Nat.eqb_refl. reflexivity. Qed.
Lemma bcupd_other f t x u : u <> t -> bcupd f t x u = f u.
Proof. unfold bcupd. intros H. apply Nat.eqb_neq in H. rewrite H. reflexivity. Qed.

Lemma count_drop_other t u x p : u <> t -> In (t, x) (p_held p) ->
  count_held u (mkPool (p_free p) (p_next p) (rm_held t x (p_held p)) (p_err p)) = count_held u p.
Proof.
  intros Hu Hin. unfold count_held. cbn [p_held]. rewrite (count_rm u t x _ Hin).
  assert (Nat.eqb t u = false) as -> by (apply Nat.eqb_neq; congruence). reflexivity.
Qed.

Lemma bcinv_step c t : BCInv c -> BCInv (bcstep adapter c t).
Proof.
  intros [Hb Hu Hh Hok]. unfold bcstep. destruct (bc_rem c t) as [|o r] eqn:Er; [constructor; assumption|].
  pose proof (Hok t) as Ht. rewrite Er in Ht.
  pose proof (binv_step _ o Hb) as Hb'.
  destruct Hb as [Hr Hf Hs]. pose proof Hr as [Hp _ _].
  set (b := bc_st c) in *.
  destruct o as [o|u v].
  - destruct o as [u|u|u|u|u]; cbn [bok] in Ht;
      repeat (apply andb_true_iff in Ht; destruct Ht as [Ht ?]);
      match goal with H : Nat.eqb u t = true |- _ => apply Nat.eqb_eq in H; subst u end.
    + (* RGet *)
      apply Nat.eqb_eq in H0.
      constructor; cbn [bc_st bc_rem]; [exact Hb'| | |]; cbn [PerCall.bstep rop_thread b_r b_set b_unset rstep r_pool r_unheld];
        [exact Hu|exact Hh|].
      intros w. destruct (Nat.eq_dec w t) as [->|Hw].
      * rewrite bcupd_same, oupd_same. rewrite (get_count t t _ Hp), Nat.eqb_refl, H0. exact H.
      * rewrite bcupd_other, oupd_other by exact Hw. rewrite (get_count w t _ Hp).
        assert (Nat.eqb t w = false) as -> by (apply Nat.eqb_neq; congruence). exact (Hok w).
    + (* RUse *)
      apply Nat.eqb_eq in H1. destruct (held_by_some _ _ H1) as (x & Ex).
      destruct (b_set b t) as [v|] eqn:Ev; [|discriminate].
      constructor; cbn [bc_st bc_rem]; [exact Hb'| | |]; cbn [PerCall.bstep]; rewrite Ex, Ev;
        cbn [b_r b_set b_unset rstep r_pool r_unheld]; rewrite ?Ex; cbn [r_pool r_unheld]; [exact Hu|exact Hh|].
      intros w. destruct (Nat.eq_dec w t) as [->|Hw].
      * rewrite bcupd_same, Ev, H1. exact H.
      * rewrite bcupd_other by exact Hw. exact (Hok w).
    + (* RSleep *)
      constructor; cbn [bc_st bc_rem]; [exact Hb'| | |]; cbn [PerCall.bstep]; [exact Hu|exact Hh|].
      intros w. destruct (Nat.eq_dec w t) as [->|Hw]; [rewrite bcupd_same; exact H|rewrite bcupd_other by exact Hw; exact (Hok w)].
    + (* RPut *)
      apply Nat.eqb_eq in H0.
      constructor; cbn [bc_st bc_rem]; [exact Hb'| | |]; cbn [PerCall.bstep rop_thread b_r b_set b_unset rstep r_pool r_unheld];
        [exact Hu|exact Hh|].
      intros w. pose proof (put_count w t _ H0) as Hc. destruct (Nat.eq_dec w t) as [->|Hw].
      * rewrite bcupd_same, oupd_same. rewrite Nat.eqb_refl in Hc.
        assert (count_held t (pool_step (r_pool (b_r b)) (PPut t)) = 0) as -> by lia. exact H.
      * rewrite bcupd_other, oupd_other by exact Hw.
        assert (Nat.eqb t w = false) as E by (apply Nat.eqb_neq; congruence). rewrite E in Hc.
        assert (count_held w (pool_step (r_pool (b_r b)) (PPut t)) = count_held w (r_pool (b_r b))) as -> by lia. exact (Hok w).
    + (* RDrop *)
      apply Nat.eqb_eq in H0. destruct (held_by_some _ _ H0) as (x & Ex). pose proof (held_by_in _ _ _ Ex) as Hin.
      constructor; cbn [bc_st bc_rem]; [exact Hb'| | |]; cbn [PerCall.bstep rop_thread b_r b_set b_unset rstep]; rewrite ?Ex;
        cbn [r_pool r_unheld]; [exact Hu|exact Hh|].
      intros w. destruct (Nat.eq_dec w t) as [->|Hw].
      * rewrite bcupd_same, oupd_same.
        assert (count_held t (mkPool (p_free (r_pool (b_r b))) (p_next (r_pool (b_r b)))
                                     (rm_held t x (p_held (r_pool (b_r b)))) (p_err (r_pool (b_r b)))) = 0) as ->.
        { unfold count_held in *. cbn [p_held]. pose proof (count_rm t t x _ Hin) as Hc. rewrite Nat.eqb_refl in Hc. lia. }
        exact H.
      * rewrite bcupd_other, oupd_other by exact Hw. rewrite count_drop_other by assumption. exact (Hok w).
  - (* BSet *)
    cbn [bok] in Ht. repeat (apply andb_true_iff in Ht; destruct Ht as [Ht ?]).
    apply Nat.eqb_eq in Ht. subst u. apply Nat.eqb_eq in H0. destruct (held_by_some _ _ H0) as (x & Ex).
    constructor; cbn [bc_st bc_rem]; [exact Hb'| | |]; cbn [PerCall.bstep]; rewrite Ex; cbn [b_r b_set b_unset];
      [exact Hu|exact Hh|].
    intros w. destruct (Nat.eq_dec w t) as [->|Hw].
    + rewrite bcupd_same, oupd_same. exact H.
    + rewrite bcupd_other, oupd_other by exact Hw. exact (Hok w).
Qed.
End BudgetP.

(* the request programs are what `bok` allows -- PROVIDED the budget is stored before every attempt *)
Lemma bok_battempts fin sl t rest : bok t 0 false rest = true ->
  forall outs v s, bok t 1 s (battempts fin sl true t v outs ++ rest) = true.
Proof.
  intros Hrest. induction outs as [|o r IH]; intros v s.
  - simpl. destruct fin; simpl; rewrite Nat.eqb_refl; exact Hrest.
  - destruct o as [|q|q].
    + cbn [battempts]. cbn [app bok]. rewrite !Nat.eqb_refl. cbn [andb].
      destruct sl; cbn [app bok]; rewrite ?Nat.eqb_refl; cbn [andb]; rewrite <- ?app_assoc; cbn [app bok];
        rewrite ?Nat.eqb_refl; cbn [andb]; apply IH.
    + destruct q; cbn [battempts app bok]; rewrite ?Nat.eqb_refl; cbn [andb]; try exact Hrest;
        destruct fin; cbn [bok]; rewrite ?Nat.eqb_refl; cbn [andb]; exact Hrest.
    + cbn [battempts app bok]. rewrite ?Nat.eqb_refl. cbn [andb].
      destruct fin; cbn [bok]; rewrite ?Nat.eqb_refl; cbn [andb]; exact Hrest.
Qed.
Lemma bok_thread_prog fin sl t reqs : bok t 0 false (bthread_prog fin sl true t reqs) = true.
Proof.
  induction reqs as [|q r IH]; [reflexivity|].
  unfold bthread_prog in *. cbn [flat_map]. unfold brequest at 1. cbn [app bok]. rewrite Nat.eqb_refl. cbn [andb].
  apply bok_battempts. exact IH.
Qed.

(* ANY threads, each running ANY sequence of requests with ANY budgets and attempt outcomes, under EVERY interleaving,
   every session with an adapter of its own and the budget stored before every attempt (either value of the other two
   translated flags): no attempt is sent with another request's budget, none before its own budget is in place, none
   without a borrowed session or through a session in other hands *)
Theorem budget_requests_safe adapter fin sl (reqs : nat -> list (Z * list Z)) schedule :
  (forall x y, adapter x = adapter y -> x = y) ->
  let c := bcexec adapter (fun t => bthread_prog fin sl true t (reqs t)) schedule in
  b_foreign (bc_st c) = false /\ b_unset (bc_st c) = false /\
  r_unheld (b_r (bc_st c)) = false /\ r_clash (b_r (bc_st c)) = false /\ p_err (r_pool (b_r (bc_st c))) = false.
Proof.
  intros Hinj c.
  assert (BCInv adapter c) as [[[Hp Hc _] Hf _] Hu Hh _].
  { unfold c, bcexec.
    assert (BCInv adapter (mkBC binit (fun t => bthread_prog fin sl true t (reqs t)))) as Hi.
    { constructor; cbn [bc_st bc_rem]; [apply binv_init|reflexivity|reflexivity|]. intros t. apply bok_thread_prog. }
    revert Hi. generalize (mkBC binit (fun t => bthread_prog fin sl true t (reqs t))).
    induction schedule as [|t sch IH]; intros c0 H; simpl; [exact H|]. apply IH. apply bcinv_step; assumption. }
  repeat split; auto. exact (proj1 Hp).
Qed.

(* what each ingredient buys.  ONE adapter for all sessions: request 1 stores its budget between request 0's store and
   request 0's send -- request 0 is sent with request 1's budget *)
Lemma budget_shared_refuted :
  exists evs, b_foreign (bexec (fun _ => 0) evs) = true /\ r_clash (b_r (bexec (fun _ => 0) evs)) = false.
Proof. exists [BR (RGet 0); BR (RGet 1); BSet 0 3%Z; BSet 1 5%Z; BR (RUse 0)]. vm_compute. split; reflexivity. Qed.
(* ... also for two requests as translated, under a schedule (thread 1 uses up a retry while thread 0 is between its
   store and its send) *)
Lemma budget_shared_requests_refuted :
  exists schedule,
    let prog := fun t : nat => match t with
                               | 0 => brequest false true true 0 2%Z [1%Z]
                               | 1 => brequest false true true 1 2%Z [0%Z; 1%Z]
                               | _ => [] end in
    b_foreign (bc_st (bcexec (fun _ => 0) prog schedule)) = true /\
    b_foreign (bc_st (bcexec (fun x => x) prog schedule)) = false.
Proof. exists [0; 1; 0; 1; 1; 1; 1; 0; 0]. vm_compute. split; reflexivity. Qed.
(* the budget not stored before the attempt: the second request of a thread goes out with whatever its session's adapter
   was left with *)
Lemma budget_not_stored_refuted :
  b_unset (bexec (fun x => x) (bthread_prog false true false 0 [(2%Z, [1%Z])])) = true.
Proof. vm_compute. reflexivity. Qed.

(* the adapters as TRANSLATED: one per session *)
Lemma adapter_of_inj : forall x y, adapter_of x = adapter_of y -> x = y.
Proof. intros x y H. exact H. Qed.
Lemma session_parts :
  c20_session_shared_parts = ["auth"; "url"]%string /\ c20_auth_state_writes = [] /\
  c20_adapter_per_session = true /\ c20_request_sets_budget_first = true.
Proof. repeat split; reflexivity. Qed.
Lemma budget_example :
  let prog := fun t : nat => match t with
                             | 0 => bthread_prog c20_pool_call_finally c20_request_sleep_in_borrow c20_request_sets_budget_first 0
                                                 [(2%Z, [0%Z; 1%Z]); (0%Z, [1%Z])]
                             | 1 => bthread_prog c20_pool_call_finally c20_request_sleep_in_borrow c20_request_sets_budget_first 1
                                                 [(2%Z, [0%Z; 0%Z; 1%Z])]
                             | _ => [] end in
  let c := bcexec adapter_of prog [0; 1; 0; 1; 1; 0; 0; 1; 1; 0; 0; 1; 1; 1; 1; 0; 0; 0; 0; 0; 1; 1; 1] in
  (forall t, t < 2 -> bc_rem c t = []) /\ b_foreign (bc_st c) = false /\ b_unset (bc_st c) = false /\
  p_next (r_pool (b_r (bc_st c))) = 2.
Proof.
  vm_compute. split; [|repeat split; reflexivity].
  intros t Ht. destruct t as [|[|t]]; [reflexivity|reflexivity|lia].
Qed.
Lemma retry_budget_private evs :
  let b := bexec adapter_of evs in
  b_foreign b = false /\
  (forall t v, b_set b t = Some v -> exists x, held_by t (r_pool (b_r b)) = Some x /\ b_slot b (adapter_of x) = v) /\
  r_clash (b_r b) = false /\ p_err (r_pool (b_r b)) = false.
Proof. exact (budget_private adapter_of adapter_of_inj evs). Qed.
Lemma retry_budget_requests_safe fin sl (reqs : nat -> list (Z * list Z)) schedule :
  let c := bcexec adapter_of (fun t => bthread_prog fin sl true t (reqs t)) schedule in
  b_foreign (bc_st c) = false /\ b_unset (bc_st c) = false /\
  r_unheld (b_r (bc_st c)) = false /\ r_clash (b_r (bc_st c)) = false /\ p_err (r_pool (b_r (bc_st c))) = false.
Proof. exact (budget_requests_safe adapter_of fin sl reqs schedule adapter_of_inj). Qed.
