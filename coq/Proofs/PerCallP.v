(* C20 (strengthening round): per-call state is interleaving-independent; the retry budget slot of a pooled session is
   private to the request that holds the session. *)
From Coq Require Import List Arith Bool Lia ZArith Permutation String.
From KV Require Import Base.Sx Gen.Generated Model.LazyInit Proofs.LazyInitP Model.Guarded Proofs.GuardedP
                       Model.SharedSites Proofs.SharedSitesP Proofs.ReqProgP Model.PerCall.
Import ListNotations.
Close Scope Z_scope.
Open Scope nat_scope.

(* ================================================================================================================ *)
(* A. per-call state only => interleaving-independent                                                                 *)
(* ================================================================================================================ *)
Section RO.
Variables (Sh Lo : Type) (line : Sh -> Lo -> act Sh Lo) (start : nat -> Lo).
Hypothesis RO : readonly Sh Lo line.

(* every thread is somewhere on ITS OWN solo run from the initial shared state -- which nobody ever changes *)
Record ROInv (sh0 : Sh) (c : gcfg Sh Lo) : Prop := {
  ro_sh : g_sh c = sh0;
  ro_in : forall u lo, g_th c u = GIn lo -> lines Sh Lo line sh0 (start u) sh0 lo;
  ro_done : forall u lo, g_th c u = GDone lo -> cs_run Sh Lo line sh0 (start u) sh0 (OFin lo);
  ro_fail : forall u, g_th c u = GFail -> cs_run Sh Lo line sh0 (start u) sh0 OCrash
}.

Lemma roinv_step sh0 c t : ROInv sh0 c -> ROInv sh0 (ustep Sh Lo line start c t).
Proof.
  intros [Hs Hi Hd Hf]. unfold ustep. destruct (g_th c t) as [|lo|lo|] eqn:Et.
  - constructor; simpl; [exact Hs| | |].
    + intros u lo H. destruct (Nat.eq_dec u t) as [->|Hu].
      * rewrite gupd_same in H. injection H as <-. apply ln_refl.
      * rewrite gupd_other in H by exact Hu. apply Hi. exact H.
    + intros u lo H. destruct (Nat.eq_dec u t) as [->|Hu]; [rewrite gupd_same in H; discriminate|].
      rewrite gupd_other in H by exact Hu. apply Hd. exact H.
    + intros u H. destruct (Nat.eq_dec u t) as [->|Hu]; [rewrite gupd_same in H; discriminate|].
      rewrite gupd_other in H by exact Hu. apply Hf. exact H.
  - pose proof (Hi t lo Et) as HL. rewrite Hs.
    destruct (line sh0 lo) as [sh1 lo1|lo1|] eqn:E.
    + pose proof (RO _ _ _ _ E) as ->. constructor; simpl; [reflexivity| | |].
      * intros u l H. destruct (Nat.eq_dec u t) as [->|Hu].
        -- rewrite gupd_same in H. injection H as <-. eapply lines_snoc; eassumption.
        -- rewrite gupd_other in H by exact Hu. apply Hi. exact H.
      * intros u l H. destruct (Nat.eq_dec u t) as [->|Hu]; [rewrite gupd_same in H; discriminate|].
        rewrite gupd_other in H by exact Hu. apply Hd. exact H.
      * intros u H. destruct (Nat.eq_dec u t) as [->|Hu]; [rewrite gupd_same in H; discriminate|].
        rewrite gupd_other in H by exact Hu. apply Hf. exact H.
    + constructor; simpl; [reflexivity| | |].
      * intros u l H. destruct (Nat.eq_dec u t) as [->|Hu]; [rewrite gupd_same in H; discriminate|].
        rewrite gupd_other in H by exact Hu. apply Hi. exact H.
      * intros u l H. destruct (Nat.eq_dec u t) as [->|Hu].
        -- rewrite gupd_same in H. injection H as <-. eapply lines_cs_run; [exact HL|]. apply cs_fin. exact E.
        -- rewrite gupd_other in H by exact Hu. apply Hd. exact H.
      * intros u H. destruct (Nat.eq_dec u t) as [->|Hu]; [rewrite gupd_same in H; discriminate|].
        rewrite gupd_other in H by exact Hu. apply Hf. exact H.
    + constructor; simpl; [reflexivity| | |].
      * intros u l H. destruct (Nat.eq_dec u t) as [->|Hu]; [rewrite gupd_same in H; discriminate|].
        rewrite gupd_other in H by exact Hu. apply Hi. exact H.
      * intros u l H. destruct (Nat.eq_dec u t) as [->|Hu]; [rewrite gupd_same in H; discriminate|].
        rewrite gupd_other in H by exact Hu. apply Hd. exact H.
      * intros u H. destruct (Nat.eq_dec u t) as [->|Hu].
        -- eapply lines_cs_run; [exact HL|]. apply cs_crash. exact E.
        -- rewrite gupd_other in H by exact Hu. apply Hf. exact H.
  - constructor; assumption.
  - constructor; assumption.
Qed.

(* ANY number of threads, ANY schedule, NO lock: the shared state is never changed; a thread that has finished has
   the result of running ALONE from the initial state (an exception included: it raises alone as well); a thread that
   is still running has so far done what it does alone *)
Theorem percall_interleaving_independent sh0 schedule :
  let c := uexec Sh Lo line start sh0 schedule in
  g_sh c = sh0 /\
  (forall t lo, g_th c t = GDone lo -> cs_run Sh Lo line sh0 (start t) sh0 (OFin lo)) /\
  (forall t, g_th c t = GFail -> cs_run Sh Lo line sh0 (start t) sh0 OCrash) /\
  (forall t lo, g_th c t = GIn lo -> lines Sh Lo line sh0 (start t) sh0 lo).
Proof.
  intros c.
  assert (ROInv sh0 c) as [H1 H2 H3 H4].
  { unfold c, uexec.
    assert (ROInv sh0 (ginit Sh Lo sh0)) as Hi by (constructor; simpl; [reflexivity|discriminate|discriminate|discriminate]).
    revert Hi. generalize (ginit Sh Lo sh0).
    induction schedule as [|t sch IH]; intros c0 H; simpl; [exact H|]. apply IH. apply roinv_step. exact H. }
  repeat split; assumption.
Qed.
End RO.

(* ---------- the block function of the applycal corrections ---------- *)
Section BlocksP.
Variables (P V : Type) (g : P -> nat -> nat -> V) (sol : nat -> nat).

Lemma bline_readonly : readonly P (blocal V) (bline P V g sol).
Proof.
  intros sh lo sh' lo' H. unfold bline in H. destruct (bl_todo lo); [discriminate|]. injection H as <- _. reflexivity.
Qed.

(* what one block computes alone: one value per dump, each from the solutions valid at that dump *)
Lemma bline_solo p : forall todo chan out,
  cs_run P (blocal V) (bline P V g sol) p (mkBL todo chan out) p (OFin (mkBL [] chan (out ++ map (fun d => g p (sol d) chan) todo))).
Proof.
  induction todo as [|d r IH]; intros chan out.
  - simpl. rewrite app_nil_r. apply cs_fin. reflexivity.
  - eapply cs_go; [reflexivity|]. simpl. specialize (IH chan (out ++ [g p (sol d) chan])).
    rewrite <- app_assoc in IH. exact IH.
Qed.

(* any number of workers computing any blocks over ONE CorrectionParams object under any interleaving: every finished
   block is the single-threaded block, nothing raises, the parameters are untouched *)
Theorem blocks_any_interleaving p blocks schedule :
  let c := uexec P (blocal V) (bline P V g sol) (bstart V blocks) p schedule in
  g_sh c = p /\ (forall t, g_th c t <> GFail) /\
  forall t lo, g_th c t = GDone lo -> bl_out lo = block_spec P V g sol p (blocks t).
Proof.
  intros c.
  destruct (percall_interleaving_independent P (blocal V) (bline P V g sol) (bstart V blocks) bline_readonly p schedule)
    as (H1 & H2 & H3 & _).
  fold c in H1, H2, H3. split; [exact H1|]. split.
  - intros t Hf. specialize (H3 t Hf). pose proof (bline_solo p (fst (blocks t)) (snd (blocks t)) []) as Hs.
    unfold bstart in H3. destruct (cs_run_det _ _ _ _ _ _ _ H3 _ _ Hs) as [_ X]. discriminate.
  - intros t lo Hd. specialize (H2 t lo Hd). pose proof (bline_solo p (fst (blocks t)) (snd (blocks t)) []) as Hs.
    unfold bstart in H2. destruct (cs_run_det _ _ _ _ _ _ _ H2 _ _ Hs) as [_ X]. injection X as ->. reflexivity.
Qed.
End BlocksP.

(* the statement kinds of the real block functions (translated): nothing but reads of shared state, call-local work,
   modelled writes (output parameter / copy on first write) and returns of fresh objects or of arguments *)
Lemma worker_functions_per_call :
  forallb (fun s => percall_code_ok (snd s)) c20_worker_fn_skeletons = true /\
  c20_outparam_callers_fresh = true /\ c20_copy_on_write_ok = true.
Proof. repeat split; reflexivity. Qed.
Lemma worker_functions_listed :
  map fst c20_worker_fn_skeletons =
  ["applycal._correction_block"; "applycal.calc_correction_per_corrprod"; "applycal._correction_inputs_to_corrprods";
   "applycal.apply_vis_correction"; "applycal.apply_weights_correction"; "applycal.apply_flags_correction";
   "vis_flags_weights._default_zero"; "vis_flags_weights._apply_data_lost"; "vis_flags_weights._narrow";
   "vis_flags_weights.weight_power_scale"]%string.
Proof. reflexivity. Qed.
(* every write to an object that outlives the call, in the files whose functions run in worker threads or behind the
   first-time accesses, is one of the modelled sites *)
Lemma shared_writes_modelled : c20_shared_writes_unmodelled = [].
Proof. reflexivity. Qed.

(* ---------- the memo: what a "same as last call" shortcut on the shared object does ---------- *)
Definition g_ex (p s c : nat) : nat := p + 100 * s + c.
Definition sol_ex (d : nat) : nat := Nat.div d 2.
Definition blocks_ex (t : nat) : list nat * nat := match t with 0 => ([0; 1], 0) | 1 => ([0], 1) | _ => ([], 0) end.
(* thread 0 computes dump 0 of channel chunk 0, finds its own key for dump 1, is pre-empted before it reads the stored
   answer; thread 1 computes chunk 1 and stores its answer; thread 0 returns thread 1's gains for its dump 1 *)
Lemma memo_unlocked_refuted :
  exists schedule,
    let c := uexec _ _ (memo_line nat nat g_ex sol_ex) (mstart_memo nat blocks_ex) (mkMemo 7 None None) schedule in
    match g_th c 0 with
    | GDone lo => bl_out (ml_b lo) <> block_spec nat nat g_ex sol_ex 7 (blocks_ex 0)
    | _ => False
    end.
Proof. exists [0; 0; 0; 0; 0; 0; 1; 1; 1; 1; 1; 0; 0]. vm_compute. discriminate. Qed.
(* ... and the half-done update: thread 0 has stored the new key but not yet the new answer; thread 1, asking for that
   key, is handed the previous answer *)
Definition blocks_ex2 (t : nat) : list nat * nat := match t with 0 => ([0; 2], 0) | 1 => ([3], 0) | _ => ([], 0) end.
Lemma memo_half_done_refuted :
  exists schedule,
    let c := uexec _ _ (memo_line nat nat g_ex sol_ex) (mstart_memo nat blocks_ex2) (mkMemo 7 None None) schedule in
    match g_th c 1 with
    | GDone lo => bl_out (ml_b lo) <> block_spec nat nat g_ex sol_ex 7 (blocks_ex2 1)
    | _ => False
    end.
Proof. exists [0; 0; 0; 0; 0; 0; 0; 0; 1; 1; 1; 1]. vm_compute. discriminate. Qed.

(* the memo inside a lock: every call starts from a consistent memo, so a hit returns the right answer *)
Section MemoLocked.
Variables (P V : Type) (g : P -> nat -> nat -> V) (sol : nat -> nat) (p0 : P) (blocks : nat -> list nat * nat).
Notation mline := (memo_line P V g sol).
Definition mI (sh : memo P V) : Prop := mm_p sh = p0 /\ memo_consistent P V g sh.
(* outputs so far + what is still to do = the block *)
Definition mprog (t : nat) (b : blocal V) : Prop :=
  bl_chan b = snd (blocks t) /\
  bl_out b ++ map (fun d => g p0 (sol d) (bl_chan b)) (bl_todo b) = block_spec P V g sol p0 (blocks t).
Definition mJ (t : nat) (sh : memo P V) (lo : mlocal V) : Prop :=
  mm_p sh = p0 /\ mprog t (ml_b lo) /\
  match bl_todo (ml_b lo) with
  | [] => memo_consistent P V g sh /\ ml_pc lo = MTest
  | d :: _ =>
      let k := (sol d, bl_chan (ml_b lo)) in
      match ml_pc lo with
      | MTest | MCompute => memo_consistent P V g sh
      | MHit => memo_consistent P V g sh /\ mm_key sh = Some k
      | MStoreKey v => memo_consistent P V g sh /\ v = g p0 (fst k) (snd k)
      | MStoreVal v => mm_key sh = Some k /\ v = g p0 (fst k) (snd k)
      end
  end.
Definition mPost (t : nat) (lo : mlocal V) : Prop := bl_out (ml_b lo) = block_spec P V g sol p0 (blocks t).

Lemma key_eqb_eq a b : key_eqb a b = true -> a = b.
Proof.
  unfold key_eqb. intros H. apply andb_true_iff in H. destruct H as [H1 H2]. apply Nat.eqb_eq in H1, H2.
  destruct a, b; simpl in *; subst; reflexivity.
Qed.

Lemma mJ_start t sh : mI sh -> mJ t sh (mstart_memo V blocks t).
Proof.
  intros [Hp Hc]. unfold mJ, mstart_memo, bstart, mprog. simpl. split; [exact Hp|]. split; [split; reflexivity|].
  destruct (fst (blocks t)); [split; [exact Hc|reflexivity]|exact Hc].
Qed.

Lemma mprog_next t d r chan out :
  mprog t (mkBL (d :: r) chan out) -> mprog t (mkBL r chan (out ++ [g p0 (sol d) chan])).
Proof. unfold mprog. simpl. intros [H1 H2]. split; [exact H1|]. rewrite <- app_assoc. exact H2. Qed.

Lemma mJ_go t sh lo sh' lo' : mJ t sh lo -> mline sh lo = Go sh' lo' -> mJ t sh' lo'.
Proof.
  intros (Hp & Hg & Hpc) E. unfold memo_line in E. destruct lo as [[todo chan out] pc]. simpl in *.
  destruct todo as [|d r]; [discriminate|].
  destruct pc as [| | |v|v].
  - (* MTest *)
    destruct (mm_key sh) as [k'|] eqn:Ek.
    + destruct (key_eqb (sol d, chan) k') eqn:Eq; injection E as <- <-; unfold mJ; simpl; (split; [exact Hp|]); (split; [exact Hg|]).
      * apply key_eqb_eq in Eq. subst k'. split; [exact Hpc|exact Ek].
      * exact Hpc.
    + injection E as <- <-. unfold mJ; simpl. split; [exact Hp|]. split; [exact Hg|]. exact Hpc.
  - (* MHit *)
    destruct Hpc as [Hc Hk]. unfold memo_consistent in Hc. rewrite Hk in Hc. simpl in Hc.
    destruct (mm_val sh) as [v|] eqn:Ev; [|discriminate]. injection E as <- <-. injection Hc as ->.
    unfold mJ; simpl. split; [exact Hp|]. rewrite Hp. split; [apply mprog_next; exact Hg|].
    assert (memo_consistent P V g sh) as Hc'.
    { unfold memo_consistent. rewrite Hk, Ev, Hp. reflexivity. }
    destruct r; [split; [exact Hc'|reflexivity]|exact Hc'].
  - (* MCompute *)
    injection E as <- <-. unfold mJ; simpl. split; [exact Hp|]. split; [exact Hg|]. split; [exact Hpc|]. rewrite Hp. reflexivity.
  - (* MStoreKey *)
    destruct Hpc as [Hc Hv]. injection E as <- <-. unfold mJ; simpl. split; [exact Hp|]. split; [exact Hg|].
    split; [reflexivity|exact Hv].
  - (* MStoreVal *)
    destruct Hpc as [Hk Hv]. injection E as <- <-. unfold mJ; simpl. split; [exact Hp|]. subst v. simpl.
    split; [apply mprog_next; exact Hg|].
    assert (memo_consistent P V g (mkMemo (mm_p sh) (mm_key sh) (Some (g p0 (sol d) chan)))) as Hc'.
    { unfold memo_consistent. simpl. rewrite Hk, Hp. reflexivity. }
    destruct r; [split; [exact Hc'|reflexivity]|exact Hc'].
Qed.

Lemma mJ_fin t sh lo lo' : mJ t sh lo -> mline sh lo = Fin lo' -> mI sh /\ mPost t lo'.
Proof.
  intros (Hp & Hg & Hpc) E. unfold memo_line in E. destruct lo as [[todo chan out] pc]. simpl in *.
  destruct todo as [|d r].
  - injection E as <-. destruct Hpc as [Hc _]. split; [split; assumption|].
    unfold mPost. simpl. destruct Hg as [_ Hg]. simpl in Hg. rewrite app_nil_r in Hg. exact Hg.
  - destruct pc as [| | |v|v]; try discriminate.
    + destruct (mm_key sh) as [k'|]; [destruct (key_eqb (sol d, chan) k')|]; discriminate.
    + destruct (mm_val sh); discriminate.
Qed.

Lemma mJ_nocrash t sh lo : mJ t sh lo -> mline sh lo <> Crash.
Proof.
  intros (Hp & Hg & Hpc) E. unfold memo_line in E. destruct lo as [[todo chan out] pc]. simpl in *.
  destruct todo as [|d r]; [discriminate|].
  destruct pc as [| | |v|v]; try discriminate.
  - destruct (mm_key sh) as [k'|]; [destruct (key_eqb (sol d, chan) k')|]; discriminate.
  - destruct Hpc as [Hc Hk]. unfold memo_consistent in Hc. rewrite Hk in Hc. rewrite Hc in E. discriminate.
Qed.

(* with the lock around the block function: any threads, any schedule -- every finished block is the single-threaded
   block, nothing raises *)
Theorem memo_locked_safe schedule :
  let c := gexec (memo P V) (mlocal V) mline (mstart_memo V blocks) (mkMemo p0 None None) schedule in
  (forall t, g_th c t <> GFail) /\
  forall t lo, g_th c t = GDone lo -> bl_out (ml_b lo) = block_spec P V g sol p0 (blocks t).
Proof.
  intros c.
  destruct (guarded_inv_safe (memo P V) (mlocal V) mline (mstart_memo V blocks) mI mPost mJ mJ_start mJ_go mJ_fin mJ_nocrash
                             (mkMemo p0 None None) schedule) as (H1 & H2 & _).
  { split; [reflexivity|exact Logic.I]. }
  split; [exact H1|exact H2].
Qed.
End MemoLocked.
