(* C01: the property-level statements over histories (used verbatim by Props/C01.v). *)
From Coq Require Import ZArith QArith List Bool String Lia.
From KV Require Import Base.Sx Base.Str Base.SelSlice Base.PySlice Base.AxisIndex Base.NdArray Gen.Generated
  Model.Flags Model.DataSet Proofs.DataSetBaseP Proofs.DataSetP.
From KV Require Model.Select Proofs.SelectP.
Import ListNotations.
Open Scope Z_scope.

Lemma index_op_acquired c S h1 k h2 d1 d2 ix2 :
  run c (start c) h1 = Some d1 -> run c (start c) (h1 ++ OAcquire k :: h2) = Some d2 ->
  index_op S d2 (List.length (ds_ixs d1)) ix2 = index S (acquire c (ds_sel d1) k) ix2.
Proof. intros H1 H2. unfold index_op. now rewrite (acquired_persists c h1 k h2 d1 d2 H1 H2). Qed.

(* C01_elements *)
Lemma elements_history c S h1 k h2 d1 d2 ix2 out : cfg_ok c -> k <> KTime ->
  run c (start c) h1 = Some d1 ->
  run c (start c) (h1 ++ OAcquire k :: h2) = Some d2 ->
  index_op S d2 (List.length (ds_ixs d1)) ix2 = Ok out ->
  let s := ds_sel d1 in
  (exists x, nth_error (ds_ixs d2) (List.length (ds_ixs d1)) = Some x /\ ix_kind x = k /\ ix_conv x = conv_of c s k)
  /\ exists pt pf pb,
       resolve_keep (zlen (dumps s)) (ix_at ix2 3 0) = Ok pt
       /\ resolve_keep (zlen (channels s)) (ix_at ix2 3 1) = Ok pf
       /\ resolve_keep (zlen (cp_idx s)) (ix_at ix2 3 2) = Ok pb
       /\ nd_shape out = [zlen pt; zlen pf; zlen pb]
       /\ forall i j l, 0 <= i < zlen pt -> 0 <= j < zlen pf -> 0 <= l < zlen pb ->
            get (nd_body out) [i; j; l]
            = get S [znth (dumps s) (znth pt i); znth (channels s) (znth pf j); znth (cp_idx s) (znth pb l)].
Proof.
  intros Hc Hk H1 H2 H s. pose proof (run_wf c h1 d1 H1) as Hw.
  rewrite (index_op_acquired c S h1 k h2 d1 d2 ix2 H1 H2) in H. split.
  - exists (acquire c s k). split; [exact (acquired_persists c h1 k h2 d1 d2 H1 H2)|].
    destruct (acquire_nf c s k Hc Hw) as [_ [_ [_ [A4 [A5 _]]]]]. split; assumption.
  - exact (elements3 c S s k ix2 out Hc Hw Hk H).
Qed.

(* the timestamps indexer *)
Lemma time_elements_history c S h1 h2 d1 d2 ix2 out : cfg_ok c ->
  run c (start c) h1 = Some d1 ->
  run c (start c) (h1 ++ OAcquire KTime :: h2) = Some d2 ->
  index_op S d2 (List.length (ds_ixs d1)) ix2 = Ok out ->
  let s := ds_sel d1 in
  exists pt,
    resolve_keep (zlen (dumps s)) (ix_at ix2 1 0) = Ok pt
    /\ nd_shape out = [zlen pt]
    /\ forall i, 0 <= i < zlen pt -> get (nd_body out) [i] = get S [znth (dumps s) (znth pt i)].
Proof.
  intros Hc H1 H2 H s. pose proof (run_wf c h1 d1 H1) as Hw.
  rewrite (index_op_acquired c S h1 KTime h2 d1 d2 ix2 H1 H2) in H.
  exact (elements1 c S s ix2 out Hc Hw H).
Qed.

(* on labels: the executable model answers with exactly what the executable spec demands *)
Lemma model_is_spec_history c h1 k h2 d1 d2 ix2 out x : cfg_ok c ->
  run c (start c) h1 = Some d1 ->
  run c (start c) (h1 ++ OAcquire k :: h2) = Some d2 ->
  nth_error (ds_ixs d2) (List.length (ds_ixs d1)) = Some x ->
  index (stored_labels x) x ix2 = Ok out ->
  spec_index c (ds_sel d1) k ix2 = Ok (nd_shape out, flatten (nd_body out)).
Proof.
  intros Hc H1 H2 Hx H. pose proof (run_wf c h1 d1 H1) as Hw.
  rewrite (acquired_persists c h1 k h2 d1 d2 H1 H2) in Hx. injection Hx as <-.
  exact (index_spec_labels c (ds_sel d1) k ix2 out Hc Hw H).
Qed.

(* C01_shape *)
Lemma shape_history c h d : cfg_ok c -> run c (start c) h = Some d ->
  let s := ds_sel d in
  shape s = [zlen (dumps s); zlen (channels s); zlen (cp_idx s)]
  /\ (stored_rows c <= zlen (c_ts c) -> zlen (timestamps c s) = zlen (dumps s))
  /\ (forall A (full : list A), zlen full = nF c -> zlen (freqs full s) = zlen (channels s))
  /\ zlen (corr_products c s) = zlen (cp_idx s)
  /\ (forall A (full : list A), zlen full = nT c -> zlen (sensor full s) = zlen (dumps s))
  /\ forall k, let x := acquire c s k in
       adv_shape x = (match k with KTime => [zlen (dumps s)] | _ => shape s end)
       /\ forall S, exists out, index S x [] = Ok out /\ nd_shape out = adv_shape x.
Proof.
  intros Hc H s. pose proof (run_wf c h d H) as Hw.
  destruct (shape_lengths c s Hw) as [S1 [S2 [S3 S4]]].
  split; [exact S1|]. split; [intro Hl; exact (timestamps_length c s Hc Hw Hl)|].
  split; [exact S3|]. split; [exact S2|]. split; [exact S4|].
  intros k x. split.
  - unfold x. rewrite (adv_shape_acquire c s k Hc Hw). destruct k; try reflexivity.
    unfold dumps. now rewrite msum_nonzero.
  - intro S. exact (index_full c S s k Hc Hw).
Qed.

(* an indexer keeps advertising (and delivering) the shape of the selection in force when it was acquired *)
Lemma adv_shape_history c h1 k h2 d1 d2 : cfg_ok c ->
  run c (start c) h1 = Some d1 ->
  run c (start c) (h1 ++ OAcquire k :: h2) = Some d2 ->
  exists x, nth_error (ds_ixs d2) (List.length (ds_ixs d1)) = Some x
    /\ adv_shape x = (match k with KTime => [zlen (dumps (ds_sel d1))] | _ => shape (ds_sel d1) end)
    /\ forall S, exists out, index_op S d2 (List.length (ds_ixs d1)) [] = Ok out /\ nd_shape out = adv_shape x.
Proof.
  intros Hc H1 H2. exists (acquire c (ds_sel d1) k).
  split; [exact (acquired_persists c h1 k h2 d1 d2 H1 H2)|].
  destruct (shape_history c h1 d1 Hc H1) as [_ [_ [_ [_ [_ A]]]]]. destruct (A k) as [A1 A2].
  split; [exact A1|]. intro S. rewrite (index_op_acquired c S h1 k h2 d1 d2 [] H1 H2). exact (A2 S).
Qed.

(* C01_labels *)
Lemma labels_history c h d : cfg_ok c -> run c (start c) h = Some d ->
  let s := ds_sel d in
  (zlen (c_ts c) = stored_rows c -> forall i, 0 <= i < zlen (dumps s) ->
     nth (Z.to_nat i) (timestamps c s) 0%Q = conv_t c (nth (Z.to_nat (znth (dumps s) i)) (c_ts c) 0%Q))
  /\ (forall A (full : list A) d0 j, zlen full = nF c -> 0 <= j < zlen (channels s) ->
        nth (Z.to_nat j) (freqs full s) d0 = nth (Z.to_nat (znth (channels s) j)) full d0)
  /\ (forall A (full : list A) d0 i, zlen full = nT c -> 0 <= i < zlen (dumps s) ->
        nth (Z.to_nat i) (sensor full s) d0 = nth (Z.to_nat (znth (dumps s) i)) full d0)
  /\ (forall d0 l, 0 <= l < zlen (cp_idx s) ->
        nth (Z.to_nat l) (corr_products c s) d0 = nth (Z.to_nat (znth (cp_idx s) l)) (Select.o_cps (c_obs c)) d0).
Proof. intros Hc H s. exact (labels c s Hc (run_wf c h d H)). Qed.

(* dumps / channels / corr_products name stored coordinates: increasing positions on the stored axes *)
Lemma coordinates_history c h d : run c (start c) h = Some d ->
  let s := ds_sel d in
  in_range (nT c) (dumps s) /\ in_range (nF c) (channels s) /\ in_range (nB c) (cp_idx s)
  /\ increasing (dumps s) = true /\ increasing (channels s) = true /\ increasing (cp_idx s) = true.
Proof.
  intros H s. destruct (wf_lens c s (run_wf c h d H)) as [Lt [Lf Lb]].
  unfold dumps, channels, cp_idx. rewrite <- Lt, <- Lf, <- Lb.
  repeat split; try apply nonzero_in_range; apply nonzero_from_increasing.
Qed.

(* v2 / v3 / v4: x[ix2] = dataset[stage 1 masks][ix2] under outer indexing -- the spec of C05's LazyIndexer and C04's
   DaskLazyIndexer applied to the first-stage index that the format glue hands over *)
Lemma single_dataset_two_stage c S s k ix2 : c_fmt c <> V1 ->
  let x := acquire c s k in
  exists n m, ix_rows x = [n] /\ ix_tmasks x = [m]
    /\ index S x ix2 = (a1 <- oindex_keep (mk_nd (n :: ix_dims x) S) (map AMask (m :: ix_tail x)) ;; oindex_keep a1 ix2).
Proof.
  intros Hf x. unfold x, acquire, index.
  destruct (c_fmt c); [congruence| | |]; destruct k; cbn [ix_rows ix_tmasks ix_dims ix_tail];
    eexists; eexists; (split; [reflexivity|]); (split; [reflexivity|]);
    erewrite single_part_is_outer_indexing by reflexivity; reflexivity.
Qed.
