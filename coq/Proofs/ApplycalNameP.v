(* C13: lemmas about the dask name of the corrections array (Model/ApplycalName.v). *)
From Coq Require Import ZArith List Bool Lia Permutation.
From KV Require Import Base.Sx Gen.Generated Model.ApplycalName.
Import ListNotations.

(* ------------------------------------------------------------------ regenerated facts the theorems rest on *)
Lemma name_per_call : applycal_name_per_call = true.
Proof. reflexivity. Qed.
Lemma name_sorted : applycal_name_sorted = true.
Proof. reflexivity. Qed.
Lemma bl_limit_one : applycal_bl_chunks_limit = 1%nat.
Proof. reflexivity. Qed.

(* ------------------------------------------------------------------ sorting *)
Lemma insert_perm : forall x l, Permutation (x :: l) (insert_name x l).
Proof.
  induction l as [|y r IH]; cbn [insert_name]; [reflexivity|].
  destruct (str_leb x y); [reflexivity|].
  rewrite perm_swap. now constructor.
Qed.
Lemma sort_perm : forall l, Permutation l (sort_names l).
Proof.
  induction l as [|x r IH]; [constructor|].
  cbn [sort_names fold_right]. fold (sort_names r).
  etransitivity; [|apply insert_perm]. now constructor.
Qed.
Lemma sort_eq_perm : forall a b, sort_names a = sort_names b -> Permutation a b.
Proof.
  intros a b H. etransitivity; [apply sort_perm|]. rewrite H. symmetry. apply sort_perm.
Qed.

(* str_leb is a total, antisymmetric, transitive order: sorted lists with the same elements are equal *)
Lemma leb_total : forall a b, str_leb a b = true \/ str_leb b a = true.
Proof.
  induction a as [|x a IH]; destruct b as [|y b]; cbn; auto.
  destruct (Z.ltb_spec x y), (Z.ltb_spec y x); auto; lia.
Qed.
Lemma leb_antisym : forall a b, str_leb a b = true -> str_leb b a = true -> a = b.
Proof.
  induction a as [|x a IH]; destruct b as [|y b]; cbn; try discriminate; auto.
  destruct (Z.ltb_spec x y), (Z.ltb_spec y x); try discriminate; try lia.
  intros. assert (x = y) by lia. subst. f_equal. auto.
Qed.
Lemma leb_trans : forall a b c, str_leb a b = true -> str_leb b c = true -> str_leb a c = true.
Proof.
  induction a as [|x a IH]; destruct b as [|y b]; destruct c as [|z c]; cbn; try discriminate; auto.
  destruct (Z.ltb_spec x y), (Z.ltb_spec y x), (Z.ltb_spec y z), (Z.ltb_spec z y), (Z.ltb_spec x z),
    (Z.ltb_spec z x); try discriminate; try lia; auto.
  apply IH.
Qed.

Inductive sorted : list str -> Prop :=
| sorted_nil : sorted []
| sorted_cons : forall x l, Forall (fun y => str_leb x y = true) l -> sorted l -> sorted (x :: l).

Lemma insert_sorted : forall x l, sorted l -> sorted (insert_name x l).
Proof.
  induction 1 as [|y r Hy Hs IH]; cbn [insert_name].
  - constructor; constructor.
  - destruct (str_leb x y) eqn:E.
    + constructor; [|now constructor].
      constructor; [exact E|]. eapply Forall_impl; [|exact Hy]. intros z Hz. cbv beta in *.
      eapply leb_trans; eauto.
    + constructor; [|exact IH].
      assert (Hyx : str_leb y x = true) by (destruct (leb_total x y); congruence).
      eapply Permutation_Forall; [apply insert_perm|]. now constructor.
Qed.
Lemma sort_sorted : forall l, sorted (sort_names l).
Proof. induction l; cbn; [constructor|now apply insert_sorted]. Qed.

Lemma sorted_perm_eq : forall a, sorted a -> forall b, sorted b -> Permutation a b -> a = b.
Proof.
  induction 1 as [|x r Hx Hs IH]; intros b Hb P.
  - apply Permutation_nil in P. now subst.
  - destruct Hb as [|y s Hy Ht]; [symmetry in P; apply Permutation_nil in P; discriminate|].
    assert (x = y).
    { assert (I1 : In x (y :: s)) by (eapply Permutation_in; [exact P|now left]).
      assert (I2 : In y (x :: r)) by (eapply Permutation_in; [symmetry; exact P|now left]).
      destruct I1 as [->|I1]; [reflexivity|]. destruct I2 as [->|I2]; [reflexivity|].
      rewrite Forall_forall in Hx, Hy. apply leb_antisym; auto. }
    subst y. f_equal. apply IH; [exact Ht|]. eapply Permutation_cons_inv; exact P.
Qed.
(* the order in which the products were requested / selected does not show in the name *)
Lemma sort_perm_eq : forall a b, Permutation a b -> sort_names a = sort_names b.
Proof.
  intros a b P. apply sorted_perm_eq; try apply sort_sorted.
  etransitivity; [symmetry; apply sort_perm|]. etransitivity; [exact P|apply sort_perm].
Qed.

(* ------------------------------------------------------------------ join / split *)
Lemma split_sepfree : forall c x, ~ In c x -> split c x = [x].
Proof.
  induction x as [|a x IH]; intros H; [reflexivity|].
  unfold split in *. cbn [fold_right]. rewrite IH by (intro; apply H; now right).
  destruct (Z.eqb_spec a c); [exfalso; apply H; now left|reflexivity].
Qed.
Lemma split_app : forall c x s, ~ In c x -> split c (x ++ c :: s) = x :: split c s.
Proof.
  induction x as [|a x IH]; intros s H.
  - unfold split. cbn [app fold_right]. now rewrite Z.eqb_refl.
  - unfold split in *. cbn [app fold_right]. rewrite IH by (intro; apply H; now right).
    destruct (Z.eqb_spec a c); [exfalso; apply H; now left|reflexivity].
Qed.
Lemma split_join : forall c l, l <> [] -> Forall (fun n => ~ In c n) l -> split c (join c l) = l.
Proof.
  induction l as [|x r IH]; intros Hne Hf; [congruence|].
  inversion Hf as [|? ? Hx Hr]; subst. cbn [join]. destruct r as [|y r'].
  - now apply split_sepfree.
  - rewrite split_app by exact Hx. f_equal. apply IH; [discriminate|exact Hr].
Qed.
Lemma join_inj : forall c a b, a <> [] -> b <> [] ->
  Forall (fun n => ~ In c n) a -> Forall (fun n => ~ In c n) b -> join c a = join c b -> a = b.
Proof.
  intros c a b Ha Hb Fa Fb H. rewrite <- (split_join c a), <- (split_join c b) by assumption. now rewrite H.
Qed.

Lemma app_len_inj : forall (A : Type) (a c b d : list A),
  a ++ b = c ++ d -> List.length b = List.length d -> a = c /\ b = d.
Proof.
  induction a as [|x a IH]; destruct c as [|y c]; cbn; intros b d H L.
  - auto.
  - subst b. cbn in L. rewrite app_length in L. lia.
  - subst d. cbn in L. rewrite app_length in L. lia.
  - injection H as -> H. destruct (IH _ _ _ H L). subst. auto.
Qed.

(* ------------------------------------------------------------------ the name *)
Lemma sorted_sep_free : forall l, sep_free l -> sep_free (sort_names l).
Proof. intros l H. eapply Permutation_Forall; [apply sort_perm|exact H]. Qed.
Lemma sort_nonempty : forall l, l <> [] -> sort_names l <> [].
Proof.
  intros l H E. apply H. apply Permutation_nil. rewrite <- E. symmetry. apply sort_perm.
Qed.

(* equal names (tokens of equal length, as uuid4().hex always has): same token and the same products *)
Lemma corr_name_inj : forall t1 t2 a b,
  List.length t1 = List.length t2 -> a <> [] -> b <> [] -> sep_free a -> sep_free b ->
  corr_name t1 a = corr_name t2 b -> t1 = t2 /\ Permutation a b.
Proof.
  unfold corr_name, name_products. rewrite name_per_call, name_sorted.
  intros t1 t2 a b L Ha Hb Fa Fb H. apply app_inv_head in H.
  rewrite !app_assoc in H. apply app_len_inj in H; [|exact L]. destruct H as [H ->]. split; [reflexivity|].
  apply app_inv_tail in H. apply sort_eq_perm.
  apply (join_inj applycal_name_sep_code).
  - now apply sort_nonempty.
  - now apply sort_nonempty.
  - now apply sorted_sep_free.
  - now apply sorted_sep_free.
  - exact H.
Qed.

(* different tokens: different names, whatever the products are *)
Lemma corr_name_token : forall t1 t2 a b,
  List.length t1 = List.length t2 -> corr_name t1 a = corr_name t2 b -> t1 = t2.
Proof.
  unfold corr_name. rewrite name_per_call. intros t1 t2 a b L H. apply app_inv_head in H.
  rewrite !app_assoc in H. apply app_len_inj in H; [|exact L]. tauto.
Qed.

(* the name does not depend on the order of the products *)
Lemma corr_name_perm : forall t a b, Permutation a b -> corr_name t a = corr_name t b.
Proof.
  intros t a b P. unfold corr_name, name_products. rewrite name_sorted. now rewrite (sort_perm_eq a b P).
Qed.

(* a history of calls with pairwise different tokens of one length: every corrections array has its own name *)
Lemma names_unique : forall calls n,
  NoDup (map fst calls) -> Forall (fun c => List.length (fst c) = n /\ snd c <> []) calls ->
  NoDup (names_of calls).
Proof.
  induction calls as [|c r IH]; intros n Hn Hf; [constructor|].
  inversion Hn as [|? ? Hnin Hn']; subst. inversion Hf as [|? ? [Hl Hne] Hf']; subst.
  cbn [names_of map]. constructor; [|eapply IH; eauto].
  intro Hin. apply in_map_iff in Hin. destruct Hin as [c' [E Hc']].
  apply Hnin. apply in_map_iff. exists c'. split; [|exact Hc'].
  rewrite Forall_forall in Hf'. destruct (Hf' _ Hc') as [Hl' Hne'].
  destruct c as [tc fc], c' as [tc' fc']. cbn [fst snd] in *.
  destruct fc' as [|x' r']; [now elim Hne'|]. destruct fc as [|x0 r0]; [now elim Hne|].
  assert (E' : corr_name tc' (x' :: r') = corr_name tc (x0 :: r0)) by (unfold calc_name in E; congruence).
  eapply corr_name_token; [|exact E']. lia.
Qed.

(* no product selected: no corrections array at all (the data set serves the stored data) *)
Lemma calc_name_none : forall t final, calc_name t final = None <-> final = [].
Proof. intros t [|x r]; cbn; split; congruence. Qed.

(* ------------------------------------------------------------------ chunks of the corrections array *)
Lemma corr_chunks_time_freq : forall tch cch bch,
  fst (fst (corr_chunks tch cch bch)) = tch /\ snd (fst (corr_chunks tch cch bch)) = cch.
Proof. intros. unfold corr_chunks. destruct (Nat.ltb _ _); auto. Qed.
Lemma corr_chunks_baseline : forall tch cch bch,
  sum_nat (snd (corr_chunks tch cch bch)) = sum_nat bch /\
  (List.length (snd (corr_chunks tch cch bch)) <= 1)%nat.
Proof.
  intros. unfold corr_chunks. rewrite bl_limit_one. destruct (Nat.ltb_spec 1 (List.length bch)); cbn [snd].
  - cbn. split; lia.
  - split; [reflexivity|lia].
Qed.

Lemma corr_chunks_all : forall tch cch bch,
  fst (fst (corr_chunks tch cch bch)) = tch /\ snd (fst (corr_chunks tch cch bch)) = cch /\
  sum_nat (snd (corr_chunks tch cch bch)) = sum_nat bch /\
  (List.length (snd (corr_chunks tch cch bch)) <= 1)%nat.
Proof.
  intros. destruct (corr_chunks_time_freq tch cch bch), (corr_chunks_baseline tch cch bch). auto.
Qed.

(* non-vacuity: corrections[l1.B,l1.G]-ab for the request (l1.G, l1.B) and the token "ab" *)
Example ex_name :
  calc_name [97; 98]%Z [[108; 49; 46; 71]; [108; 49; 46; 66]]%Z =
  Some ([99; 111; 114; 114; 101; 99; 116; 105; 111; 110; 115; 91] ++ [108; 49; 46; 66] ++ [44]
        ++ [108; 49; 46; 71] ++ [93; 45] ++ [97; 98])%Z
  /\ calc_name [97; 98]%Z [] = None
  /\ corr_chunks [2; 1]%nat [3]%nat [4; 2]%nat = ([2; 1], [3], [6])%nat
  /\ corr_chunks [2; 1]%nat [3]%nat [6]%nat = ([2; 1], [3], [6])%nat.
Proof. vm_compute. repeat split. Qed.

(* ------------------------------------------------------------------ chunks on the baseline axis of the DATA
   The corrections array has one chunk on the baseline axis (corr_chunks); when the stored array has several,
   da.core.elemwise unifies the chunks: the corrections are cut at the data's baseline chunk boundaries and the
   kernel runs on matching pieces, which are then concatenated.  For one (dump, channel) row: *)
From KV Require Import Model.Applycal.
Definition row_by_chunks {A} (kernel : A -> C -> A) (bch : list nat) (d : list A) (f : list C) : list A :=
  flat_map (fun o => map2 kernel (sub (fst o) (snd o) d) (sub (fst o) (snd o) f)) (offsets 0 bch).

Lemma firstn_add' : forall {A} n m (l : list A), firstn (n + m) l = firstn n l ++ firstn m (skipn n l).
Proof.
  induction n as [|n IH]; intros m l; [reflexivity|]. destruct l as [|x l]; cbn [Nat.add firstn skipn app].
  - now rewrite firstn_nil.
  - now rewrite IH.
Qed.
Lemma skipn_add' : forall {A} s n (l : list A), skipn (s + n) l = skipn n (skipn s l).
Proof.
  induction s as [|s IH]; intros n l; [reflexivity|]. destruct l as [|x l]; cbn [Nat.add skipn].
  - now rewrite skipn_nil.
  - apply IH.
Qed.
Lemma sub_split : forall {A} s n m (l : list A), sub s (n + m) l = sub s n l ++ sub (s + n) m l.
Proof. intros. unfold sub. now rewrite firstn_add', skipn_add'. Qed.
Lemma map2_app : forall {A B D} (k : A -> B -> D) a1 a2 b1 b2, List.length a1 = List.length b1 ->
  map2 k (a1 ++ a2) (b1 ++ b2) = map2 k a1 b1 ++ map2 k a2 b2.
Proof.
  induction a1 as [|x a1 IH]; destruct b1 as [|y b1]; cbn; intros; try discriminate; [reflexivity|].
  f_equal. apply IH. lia.
Qed.
Lemma sub_length_eq : forall {A B} s n (d : list A) (f : list B), List.length d = List.length f ->
  List.length (sub s n d) = List.length (sub s n f).
Proof. intros. unfold sub. rewrite !firstn_length, !skipn_length. lia. Qed.

Lemma row_by_chunks_from : forall {A} (kernel : A -> C -> A) bch s d f, List.length d = List.length f ->
  flat_map (fun o => map2 kernel (sub (fst o) (snd o) d) (sub (fst o) (snd o) f)) (offsets s bch)
  = map2 kernel (sub s (sum_nat bch) d) (sub s (sum_nat bch) f).
Proof.
  induction bch as [|n r IH]; intros s d f L.
  - cbn. unfold sub. reflexivity.
  - cbn [offsets flat_map fst snd sum_nat fold_right]. fold (sum_nat r).
    rewrite IH by exact L. rewrite !sub_split. rewrite map2_app; [reflexivity|]. now apply sub_length_eq.
Qed.

(* ANY decomposition of the baseline axis gives the row computed in one piece *)
Lemma row_by_chunks_whole : forall {A} (kernel : A -> C -> A) bch d f,
  List.length d = sum_nat bch -> List.length f = sum_nat bch ->
  row_by_chunks kernel bch d f = map2 kernel d f.
Proof.
  intros A kernel bch d f Ld Lf. unfold row_by_chunks. rewrite row_by_chunks_from by congruence.
  unfold sub. cbn [skipn]. rewrite <- Ld at 1. rewrite <- Lf. now rewrite !firstn_all.
Qed.

Example ex_row_chunks :
  row_by_chunks (fun (d : Z) (f : C) => if is_nan f then (d + 100)%Z else d) [2; 1]%nat [1; 2; 3]%Z
                [Cone; CNaN; CNaN] = [1; 102; 103]%Z.
Proof. reflexivity. Qed.
