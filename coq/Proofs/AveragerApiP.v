(* C15, round 2: the baseline blocking of _average_visibilities is invisible; defaults; laws of a bin. *)
From Coq Require Import ZArith QArith Qcanon List Bool Arith Lia.
From KV Require Import Base.Sx Gen.Generated Model.Averager Model.AveragerApi Proofs.AveragerP.
Import ListNotations.
Close Scope Q_scope.
Open Scope nat_scope.

Lemma imapa_length : forall {A B} (f : nat -> A -> B) l, List.length (imapa f l) = List.length l.
Proof. intros. unfold imapa. rewrite map_length, combine_length, seq_length. lia. Qed.

Lemma imapa_nth : forall {A B} (f : nat -> A -> B) l i d d', i < List.length l -> nth i (imapa f l) d = f i (nth i l d').
Proof.
  intros A B f l i d d' Hi. unfold imapa.
  rewrite (nth_indep _ d (f (fst (0, d')) (snd (0, d')))) by (rewrite map_length, combine_length, seq_length; lia).
  rewrite (map_nth (fun p => f (fst p) (snd p))). rewrite combine_nth by (now rewrite seq_length). cbn [fst snd].
  rewrite seq_nth by exact Hi. reflexivity.
Qed.

(* cell b of the buffers after the loops of one block = the fold over the samples of baseline b + bstart *)
Lemma acc_block_nth : forall a pos bstart n st b, b < n -> n <= List.length st ->
  nth b (acc_block a pos bstart n st) acc0 =
  fold_left step (map (fun tc => get3 a sample0 (fst tc) (snd tc) (b + bstart)) pos) (nth b st acc0).
Proof.
  intros a pos bstart n. unfold acc_block. induction pos as [| tc pos IH]; intros st b Hb Hn; [reflexivity |].
  cbn [fold_left map]. rewrite IH by (rewrite ?imapa_length; assumption).
  rewrite (imapa_nth _ _ _ acc0 acc0) by lia.
  assert (E : b <? n = true) by (apply Nat.ltb_lt; exact Hb). rewrite E. reflexivity.
Qed.

Definition cell_of (a : arr3 sample) (pos : list (nat * nat)) (count : nat) (flagav : bool) (b : nat) : sample :=
  finish count flagav (fold_left step (map (fun tc => get3 a sample0 (fst tc) (snd tc) b) pos) acc0).

Lemma nth_repeat' : forall {A} (x : A) n i, nth i (repeat x n) x = x.
Proof. intros A x n. induction n as [| n IH]; intros [| i]; cbn; auto. Qed.

Lemma nth_map_seq_s : forall {A} (f : nat -> A) s n j d, j < n -> nth j (map f (seq s n)) d = f (s + j).
Proof.
  intros A f s n. revert s. induction n as [| n IH]; intros s j d Hj; [lia |].
  cbn [seq map]. destruct j as [| j]; cbn [nth]; [now rewrite Nat.add_0_r |].
  rewrite IH by lia. f_equal. lia.
Qed.

Lemma block_out : forall a pos count flagav bl_step bstart n, n <= bl_step ->
  map (fun b => finish count flagav (nth b (acc_block a pos bstart n (repeat acc0 bl_step)) acc0)) (seq 0 n) =
  map (cell_of a pos count flagav) (seq bstart n).
Proof.
  intros a pos count flagav bl_step bstart n Hn.
  apply nth_ext with (d := sample0) (d' := sample0); [now rewrite !map_length, !seq_length |].
  intros i Hi. rewrite map_length, seq_length in Hi.
  rewrite !nth_map_seq_s by exact Hi. cbn [Nat.add].
  rewrite acc_block_nth by (rewrite ?repeat_length; lia). rewrite nth_repeat'. unfold cell_of.
  now rewrite (Nat.add_comm bstart i).
Qed.

(* the `for bstart` loop with per-block initialisation: the blocks' outputs, one after the other *)
Definition block_n (n_bl bl_step bstart : nat) : nat := Nat.min n_bl (bstart + bl_step) - bstart.

Lemma bin_blocked_fold : forall bl_step a pos n_bl count flagav starts st out,
  snd (fold_left (fun (so : list acc * list sample) bstart =>
                    let n := Nat.min n_bl (bstart + bl_step) - bstart in
                    let st0 := if true then repeat acc0 bl_step else fst so in
                    let st1 := acc_block a pos bstart n st0 in
                    (st1, snd so ++ map (fun b => finish count flagav (nth b st1 acc0)) (seq 0 n)))
                 starts (st, out)) =
  out ++ flat_map (fun bstart => map (cell_of a pos count flagav) (seq bstart (block_n n_bl bl_step bstart))) starts.
Proof.
  intros bl_step a pos n_bl count flagav starts. induction starts as [| s r IH]; intros st out.
  - cbn. now rewrite app_nil_r.
  - cbn [fold_left flat_map]. cbv zeta. rewrite IH. cbn [snd]. rewrite <- app_assoc. f_equal. f_equal.
    apply block_out. unfold block_n. lia.
Qed.

Lemma blocks_cover : forall {A} (g : nat -> A) n_bl bl_step m, bl_step <> 0 ->
  flat_map (fun bstart => map g (seq bstart (block_n n_bl bl_step bstart))) (map (fun i => i * bl_step) (seq 0 m)) =
  map g (seq 0 (Nat.min n_bl (m * bl_step))).
Proof.
  intros A g n_bl bl_step m Hs. induction m as [| m IH].
  - cbn. now rewrite Nat.min_0_r.
  - rewrite seq_S, map_app, flat_map_app, IH. cbn [map flat_map Nat.add]. rewrite app_nil_r. rewrite <- map_app. f_equal.
    unfold block_n. rewrite Nat.mul_succ_l. set (ms := m * bl_step).
    destruct (Nat.le_gt_cases n_bl ms) as [L | G].
    + rewrite !Nat.min_l by lia. replace (n_bl - ms) with 0 by lia. cbn. now rewrite app_nil_r.
    + rewrite (Nat.min_r n_bl ms) by lia. rewrite <- seq_app. f_equal. lia.
Qed.

Lemma blocks_enough : forall n_bl bl_step, bl_step <> 0 -> n_bl <= (n_bl + bl_step - 1) / bl_step * bl_step.
Proof.
  intros n_bl s Hs. pose proof (Nat.div_mod (n_bl + s - 1) s Hs). pose proof (Nat.mod_upper_bound (n_bl + s - 1) s Hs).
  rewrite (Nat.mul_comm _ s). lia.
Qed.

(* for EVERY positive block size the blocked bin is the per-baseline bin *)
Theorem bin_blocked_spec : forall bl_step a pos n_bl count flagav, bl_step <> 0 ->
  bin_blocked true bl_step a pos n_bl count flagav = map (cell_of a pos count flagav) (seq 0 n_bl).
Proof.
  intros bl_step a pos n_bl count flagav Hs. unfold bin_blocked. rewrite bin_blocked_fold. cbn [app].
  unfold block_starts. rewrite blocks_cover by exact Hs. rewrite Nat.min_l by (apply blocks_enough; exact Hs). reflexivity.
Qed.

Theorem average_kernel_blocked_spec : forall bl_step a nt nc nb ta ca fl, bl_step <> 0 ->
  average_kernel_blocked true bl_step a nt nc nb ta ca fl = average_kernel a nt nc nb ta ca fl.
Proof.
  intros bl_step a nt nc nb ta ca fl Hs. unfold average_kernel_blocked, average_kernel.
  apply map_ext. intros i. apply map_ext. intros j. now rewrite bin_blocked_spec.
Qed.

Lemma bl_step_pos : averager_bl_step <> 0.
Proof. discriminate. Qed.
Lemma init_per_block_on : averager_init_per_block = true.
Proof. reflexivity. Qed.

(* the function as written (blocks of the regenerated size, buffers initialised where the source does) IS the
   per-baseline model of round 1, so every theorem about `average` holds for it *)
Theorem average_api_eq : forall a T F B timeav chanav flagav,
  average_api a T F B timeav chanav flagav = average a T F B timeav chanav flagav.
Proof.
  intros a T F B timeav chanav flagav. unfold average_api, average_api_gen, average, average_gen.
  rewrite init_per_block_on.
  assert (E : Nat.eqb averager_bl_step 0 = false) by (apply Nat.eqb_neq, bl_step_pos). rewrite E, orb_false_r.
  destruct (_ || _); [reflexivity |]. now rewrite average_kernel_blocked_spec by exact bl_step_pos.
Qed.

(* if the buffers were initialised only once per bin, the second block would start from the first block's sums *)
Example blocked_without_init_differs :
  let s (re w : Z) : sample := ((Q2Qc (re # 1), 0%Qc), Q2Qc (w # 1), false) in
  let a : arr3 sample := [[[s 1%Z 1%Z; s 5%Z 2%Z]]] in
  average_api_gen true false true false 1 a 1 1 2 1 1 false <> average_gen true false true a 1 1 2 1 1 false.
Proof. vm_compute. discriminate. Qed.

(* ------------------------------------------------------------------ defaults *)
Theorem average_default_eq : forall a T F B,
  average_default a T F B = average a T F B averager_default_timeav averager_default_chanav averager_default_flagav.
Proof. intros. apply average_api_eq. Qed.

(* the property: AND of the flags, OR only when asked for - the default is AND *)
Lemma default_flagav_is_and : averager_default_flagav = false.
Proof. reflexivity. Qed.

(* ------------------------------------------------------------------ laws of one bin *)
(* a bin of one sample (factors 1 x 1): the sample comes back; a flagged one with weight 0 *)
Lemma cq_eta : forall v : cq, (fst v, snd v) = v.
Proof. intros [a b]. reflexivity. Qed.

Lemma sample_eq : forall (v v' : cq) (w w' : Qc) (f f' : bool), v = v' -> w = w' -> f = f' -> (v, w, f) = (v', w', f').
Proof. intros; subst; reflexivity. Qed.

Theorem avg_single_unflagged : forall flagav v (w : Qc), w <> 0%Qc -> spec_bin flagav [(v, w, false)] = (v, w, false).
Proof.
  intros flagav [re im] w Hw. unfold spec_bin. cbn [unflagged filter s_flag snd negb map s_w fst qsum fold_right].
  assert (E : (w + 0)%Qc = w) by ring. rewrite E. rewrite (Qc_is_zero_false _ Hw).
  cbn [csum fold_right map s_vis fst snd cscale cadd cdivq cq0 existsb forallb orb andb].
  destruct flagav; (apply sample_eq; [unfold cdivq, cadd, cscale, cq0; cbn [fst snd]; apply cq_eq; field; exact Hw | reflexivity | reflexivity]).
Qed.

Theorem avg_single_flagged : forall flagav v (w : Qc), spec_bin flagav [(v, w, true)] = (v, 0%Qc, true).
Proof.
  intros flagav [re im] w. unfold spec_bin. cbn [unflagged filter s_flag snd negb map s_w fst qsum fold_right].
  rewrite (Qc_is_zero_true 0%Qc eq_refl).
  cbn [List.length csum fold_right map s_vis fst snd cscale cadd cq0 existsb forallb orb andb].
  assert (I1 : inv_count 1 = 1%Qc) by reflexivity. rewrite I1.
  destruct flagav; (apply sample_eq; [unfold cadd, cscale, cq0; cbn [fst snd]; apply cq_eq; ring | reflexivity | reflexivity]).
Qed.

(* a bin is never flagged by AND without being flagged by OR *)
Theorem avg_and_implies_or : forall l, l <> [] -> forallb s_flag l = true -> existsb s_flag l = true.
Proof. intros [| s l] H F; [congruence |]. cbn in *. apply andb_prop in F. destruct F as [-> _]. reflexivity. Qed.

(* WHAT MUST NOT MATTER: the visibility and weight of a flagged sample (as long as some unflagged weight is left) *)
Inductive same_unflagged : list sample -> list sample -> Prop :=
| su_nil : same_unflagged [] []
| su_flagged : forall v w v' w' l l', same_unflagged l l' -> same_unflagged ((v, w, true) :: l) ((v', w', true) :: l')
| su_kept : forall s l l', s_flag s = false -> same_unflagged l l' -> same_unflagged (s :: l) (s :: l').

Lemma same_unflagged_facts : forall l l', same_unflagged l l' ->
  unflagged l = unflagged l' /\ map s_flag l = map s_flag l'.
Proof.
  induction 1 as [| v w v' w' l l' _ [IH1 IH2] | s l l' Hs _ [IH1 IH2]].
  - split; reflexivity.
  - unfold unflagged in *. cbn. rewrite IH2. split; [exact IH1 | reflexivity].
  - unfold unflagged in *. cbn. rewrite Hs. cbn. rewrite IH1, IH2. split; reflexivity.
Qed.

Lemma existsb_map_flag : forall l, existsb s_flag l = existsb (fun b => b) (map s_flag l).
Proof. induction l as [| s l IH]; cbn; [reflexivity | now rewrite IH]. Qed.
Lemma forallb_map_flag : forall l, forallb s_flag l = forallb (fun b => b) (map s_flag l).
Proof. induction l as [| s l IH]; cbn; [reflexivity | now rewrite IH]. Qed.

Theorem avg_flagged_samples_irrelevant : forall flagav l l', same_unflagged l l' ->
  qsum (map s_w (unflagged l)) <> 0%Qc -> spec_bin flagav l' = spec_bin flagav l.
Proof.
  intros flagav l l' H W. destruct (same_unflagged_facts l l' H) as [U Fl]. unfold spec_bin.
  rewrite <- U. rewrite (Qc_is_zero_false _ W).
  rewrite (existsb_map_flag l'), (forallb_map_flag l'), <- Fl, <- existsb_map_flag, <- forallb_map_flag. reflexivity.
Qed.

(* scaling every weight by the same non-zero constant: same visibility, same flag, weight scaled *)
Definition scale_w (c : Qc) (s : sample) : sample := (s_vis s, (c * s_w s)%Qc, s_flag s).

Lemma unflagged_scale : forall c l, unflagged (map (scale_w c) l) = map (scale_w c) (unflagged l).
Proof.
  intros c l. unfold unflagged. induction l as [| s l IH]; [reflexivity |]. cbn [map filter].
  replace (s_flag (scale_w c s)) with (s_flag s) by reflexivity. destruct (negb (s_flag s)); cbn [map]; now rewrite IH.
Qed.

Lemma qsum_scale : forall c l, qsum (map s_w (map (scale_w c) l)) = (c * qsum (map s_w l))%Qc.
Proof.
  intros c l. induction l as [| s l IH]; cbn [map qsum fold_right]; [ring |].
  fold (qsum (map s_w (map (scale_w c) l))). fold (qsum (map s_w l)). rewrite IH.
  replace (s_w (scale_w c s)) with (c * s_w s)%Qc by reflexivity. ring.
Qed.

Lemma csum_scale : forall c l,
  csum (map (fun s => cscale (s_w s) (s_vis s)) (map (scale_w c) l)) =
  cscale c (csum (map (fun s => cscale (s_w s) (s_vis s)) l)).
Proof.
  intros c l. induction l as [| s l IH]; cbn [map csum fold_right].
  - unfold cscale, cq0. cbn [fst snd]. apply cq_eq; ring.
  - fold (csum (map (fun s => cscale (s_w s) (s_vis s)) (map (scale_w c) l))).
    fold (csum (map (fun s => cscale (s_w s) (s_vis s)) l)). rewrite IH.
    unfold cscale, cadd, scale_w, s_w, s_vis. cbn [fst snd]. apply cq_eq; ring.
Qed.

Lemma map_vis_scale : forall c l, map s_vis (map (scale_w c) l) = map s_vis l.
Proof. intros c l. rewrite map_map. reflexivity. Qed.
Lemma map_flag_scale : forall c l, map s_flag (map (scale_w c) l) = map s_flag l.
Proof. intros c l. rewrite map_map. reflexivity. Qed.

Theorem avg_weight_scaling : forall flagav (c : Qc) l, c <> 0%Qc ->
  spec_bin flagav (map (scale_w c) l) = scale_w c (spec_bin flagav l).
Proof.
  intros flagav c l Hc. unfold spec_bin. rewrite unflagged_scale, qsum_scale, csum_scale, map_vis_scale, map_length.
  rewrite (existsb_map_flag (map _ l)), (forallb_map_flag (map _ l)), map_flag_scale, <- existsb_map_flag, <- forallb_map_flag.
  set (W := qsum (map s_w (unflagged l))). unfold scale_w, s_vis, s_w, s_flag. cbn [fst snd].
  destruct (Qc_eq_dec W 0) as [E | N].
  - rewrite E. replace (c * 0)%Qc with 0%Qc by ring. rewrite (Qc_is_zero_true 0%Qc eq_refl). reflexivity.
  - assert (N' : (c * W)%Qc <> 0%Qc) by (intro M; apply Qcmult_integral in M; tauto).
    rewrite (Qc_is_zero_false _ N), (Qc_is_zero_false _ N'). f_equal. f_equal.
    unfold cdivq, cscale. cbn [fst snd]. apply cq_eq; field; split; assumption.
Qed.
