From Coq Require Import ZArith List Bool String Ascii Lia.
From KV Require Import Base.Sx Base.Str Gen.Generated Model.Telstate.
Import ListNotations.
Open Scope string_scope.
Open Scope list_scope.

(* ---------- prefix order ---------- *)
Lemma fold_cons {A B} (g : A -> B) (l : list A) : forall acc,
  fold_left (fun v s => g s :: v) l acc = rev (map g l) ++ acc.
Proof.
  induction l as [|x l IH]; intros acc; simpl; [reflexivity|].
  rewrite IH. rewrite <- app_assoc. reflexivity.
Qed.

(* the views may be stacked on any base view (the root telstate, or the L0 view for flag-stream candidates) *)
Lemma prefix_order_on base cb streams : view_capture_stream_on base cb streams = spec_prefixes_on base cb streams.
Proof.
  unfold view_capture_stream_on, spec_prefixes_on, vcs_steps. cbn [fold_left vcs_run fst snd]. unfold view.
  rewrite (fold_cons (fun s => (s ++ sep)%string) (rev streams)).
  rewrite (fold_cons (fun s => (joinp cb s ++ sep)%string) (rev streams)).
  rewrite !map_rev, !rev_involutive. rewrite <- ?app_assoc. reflexivity.
Qed.

Lemma prefix_order cb streams : view_capture_stream cb streams = spec_prefixes cb streams.
Proof. apply prefix_order_on. Qed.

(* the chain is exactly the list obtained by following `inherit` until it is absent *)
Lemma chain_sound st names : forall fuel s streams, chain st names fuel s = Some streams ->
  hd_error streams = Some s /\
  (forall i a b, nth_error streams i = Some a -> nth_error streams (S i) = Some b -> inherit_of st names a = Some b) /\
  (forall a, nth_error streams (List.length streams - 1) = Some a -> inherit_of st names a = None).
Proof.
  induction fuel as [|f IH]; intros s streams H; simpl in H; [discriminate|].
  destruct (inherit_of st names s) as [i|] eqn:E.
  - destruct (chain st names f i) as [t|] eqn:C; simpl in H; [|discriminate].
    injection H as <-. destruct (IH _ _ C) as (H1 & H2 & H3).
    split; [reflexivity|]. split.
    + intros [|k] a b Ha Hb; simpl in Ha, Hb.
      * injection Ha as <-. destruct t as [|x t]; [discriminate|]. simpl in H1, Hb. congruence.
      * eapply H2; eauto.
    + intros a Ha. destruct t as [|x t]; [discriminate|]. simpl in Ha.
      apply H3. simpl. rewrite Nat.sub_0_r in *. exact Ha.
  - injection H as <-. split; [reflexivity|]. split.
    + intros [|k] a b Ha Hb; simpl in *; try discriminate; destruct k; discriminate.
    + intros a Ha. simpl in Ha. injection Ha as <-. exact E.
Qed.

(* ---------- attribute lookup: the first prefix in view order that defines the key ---------- *)
Lemma lookup_first st ps k v : lookup st ps k = Some v <->
  exists ps1 p ps2 e, ps = ps1 ++ p :: ps2 /\ (forall q, In q ps1 -> find_key st (q ++ k)%string = None)
                      /\ find_key st (p ++ k)%string = Some e /\ e_val e = v.
Proof.
  induction ps as [|p0 ps IH]; simpl.
  - split; [discriminate|]. intros (ps1 & q & ps2 & e & H & _). destruct ps1; discriminate.
  - destruct (find_key st (p0 ++ k)%string) as [e|] eqn:E.
    + split.
      * intros H. injection H as <-. exists [], p0, ps, e. simpl. repeat split; auto. intros q [].
      * intros (ps1 & q & ps2 & e' & H & Hn & Hf & Hv). destruct ps1 as [|x ps1]; simpl in H.
        -- injection H as Hq Hps. subst q. rewrite E in Hf. congruence.
        -- injection H as Hx Hps. subst x. specialize (Hn p0 (or_introl eq_refl)). congruence.
    + rewrite IH. split.
      * intros (ps1 & q & ps2 & e' & H & Hn & Hf & Hv). exists (p0 :: ps1), q, ps2, e'. subst ps. simpl.
        repeat split; auto. intros r [<-|Hr]; auto.
      * intros (ps1 & q & ps2 & e' & H & Hn & Hf & Hv). destruct ps1 as [|x ps1]; simpl in H.
        -- injection H as Hq Hps. subst q. congruence.
        -- injection H as Hx Hps. subst x ps. exists ps1, q, ps2, e'. repeat split; auto.
           intros r Hr. apply Hn. right. exact Hr.
Qed.

Lemma lookup_none st ps k : lookup st ps k = None <-> forall q, In q ps -> find_key st (q ++ k)%string = None.
Proof.
  induction ps as [|p ps IH]; simpl.
  - split; auto. intros _ q [].
  - destruct (find_key st (p ++ k)%string) eqn:E.
    + split; [discriminate|]. intros H. specialize (H p (or_introl eq_refl)). congruence.
    + rewrite IH. split; intros H q; [intros [<-|Hq]; auto|intros Hq; apply H; right; exact Hq].
Qed.

(* ---------- the sensor table ---------- *)
Lemma find_filter_ne (t : table) m n : String.eqb m n = false ->
  find (fun p => String.eqb (fst p) n) (filter (fun p => negb (String.eqb (fst p) m)) t)
  = find (fun p => String.eqb (fst p) n) t.
Proof.
  intros Hmn. induction t as [|[a b] t IH]; simpl; [reflexivity|].
  destruct (String.eqb_spec a m) as [->|Ham]; simpl.
  - rewrite Hmn. exact IH.
  - destruct (String.eqb a n); [reflexivity|exact IH].
Qed.

Lemma tbl_get_set t m k n : tbl_get (tbl_set t m k) n = if String.eqb m n then Some k else tbl_get t n.
Proof.
  unfold tbl_get, tbl_set. simpl. destruct (String.eqb m n) eqn:E; [reflexivity|].
  rewrite find_filter_ne by exact E. reflexivity.
Qed.

(* the owner of sensor name n according to the code: the LAST mutable key (in key order) that shortens to n *)
Definition owns (ps : list string) (n : string) (e : entry) : bool :=
  (e_mut e && String.eqb (shorten_key ps (e_key e)) n)%bool.
Definition last_owner (ps : list string) (st : store) (n : string) : option string :=
  fold_left (fun acc e => if owns ps n e then Some (e_key e) else acc) st None.

Lemma sensor_table_gen ps n : n <> "" -> forall st t acc, tbl_get t n = acc ->
  tbl_get (fold_left (sensor_step_unranked ps) st t) n
  = fold_left (fun acc e => if owns ps n e then Some (e_key e) else acc) st acc.
Proof.
  intros Hn. induction st as [|e st IH]; intros t acc H; simpl; [exact H|].
  apply IH. unfold sensor_step_unranked, owns. destruct (e_mut e); simpl; [|exact H].
  destruct (String.eqb_spec (shorten_key ps (e_key e)) "") as [E|E].
  - rewrite E. destruct (String.eqb_spec "" n) as [<-|_]; [contradiction|exact H].
  - rewrite tbl_get_set. destruct (String.eqb (shorten_key ps (e_key e)) n); [reflexivity|exact H].
Qed.

(* BEFORE the fix: the last mutable key in key order whose shortened name is n won ... *)
Lemma sensor_table_unranked_last_owner ps st n : n <> "" ->
  tbl_get (sensor_table_unranked ps st) n = last_owner ps st n.
Proof. intros Hn. unfold sensor_table_unranked, last_owner. apply sensor_table_gen; auto. Qed.

(* ... so that with two namespaces defining a sensor the LESS specific one could win (finding F6):
   stream s inheriting base, sensor foo defined under cb_base_ and under cb_ *)
Definition f6_prefixes : list string := spec_prefixes "cb" ["s"; "base"].
Definition f6_store : store := [mkEntry "cb_base_foo" true 1; mkEntry "cb_foo" true 2].
Lemma sensor_refuted_before_fix :
  exists ps st n, spec_sensor st ps n = Some "cb_base_foo"
                  /\ tbl_get (sensor_table_unranked ps st) n = Some "cb_foo"
                  /\ sensor_key ps st n = Some "cb_base_foo".
Proof. exists f6_prefixes, f6_store, "foo". repeat split; reflexivity. Qed.

(* ---------- AFTER the fix: ranked table ---------- *)
Lemma rfind_filter_ne (t : rtable) m n : String.eqb m n = false ->
  find (fun p => String.eqb (fst p) n) (filter (fun p => negb (String.eqb (fst p) m)) t)
  = find (fun p => String.eqb (fst p) n) t.
Proof.
  intros Hmn. induction t as [|[a b] t IH]; simpl; [reflexivity|].
  destruct (String.eqb_spec a m) as [->|Ham]; simpl.
  - rewrite Hmn. exact IH.
  - destruct (String.eqb a n); [reflexivity|exact IH].
Qed.

Lemma rtbl_get_set t m v n : rtbl_get (rtbl_set t m v) n = if String.eqb m n then Some v else rtbl_get t n.
Proof.
  unfold rtbl_get, rtbl_set. simpl. destruct (String.eqb m n) eqn:E; [reflexivity|].
  rewrite rfind_filter_ne by exact E. reflexivity.
Qed.

Definition bstep (ps : list string) (n : string) (acc : option (nat * string)) (e : entry) : option (nat * string) :=
  if owns ps n e then
    match key_rank ps (e_key e) with Some r => better acc r (e_key e) | None => acc end
  else acc.

Lemma better_some acc r k : exists v, better acc r k = Some v.
Proof. unfold better. destruct acc as [[r0 k0]|]; [destruct (Nat.leb r r0)|]; eauto. Qed.

Lemma sensor_table_gen_r ps n : n <> "" -> forall st t acc, rtbl_get t n = acc ->
  rtbl_get (fold_left (sensor_step ps) st t) n = fold_left (bstep ps n) st acc.
Proof.
  intros Hn. induction st as [|e st IH]; intros t acc H; simpl; [exact H|].
  apply IH. unfold sensor_step, bstep, owns. destruct (e_mut e); simpl; [|exact H].
  destruct (String.eqb_spec (shorten_key ps (e_key e)) "") as [E|E].
  - rewrite E. destruct (String.eqb_spec "" n) as [<-|_]; [contradiction|exact H].
  - destruct (key_rank ps (e_key e)) as [r|].
    + destruct (better_some (rtbl_get t (shorten_key ps (e_key e))) r (e_key e)) as [v Hv]. rewrite Hv.
      rewrite rtbl_get_set. destruct (String.eqb_spec (shorten_key ps (e_key e)) n) as [En|En].
      * rewrite <- Hv, En, H. reflexivity.
      * exact H.
    + destruct (String.eqb (shorten_key ps (e_key e)) n); exact H.
Qed.

Lemma shorten_rank ps k : shorten_key ps k <> "" -> exists r, key_rank ps k = Some r.
Proof.
  induction ps as [|p ps IH]; simpl; [intros H; contradiction|].
  destruct (String.prefix p k); [eauto|]. intros H. destruct (IH H) as [r Hr]. rewrite Hr. simpl. eauto.
Qed.

(* invariant of the scan: acc is an owner of minimal rank among those seen *)
Definition best_inv (ps : list string) (n : string) (seen : store) (acc : option (nat * string)) : Prop :=
  match acc with
  | None => forall e, In e seen -> owns ps n e = false
  | Some (r, k) =>
      (exists e, In e seen /\ owns ps n e = true /\ e_key e = k /\ key_rank ps k = Some r) /\
      (forall e, In e seen -> owns ps n e = true -> exists r', key_rank ps (e_key e) = Some r' /\ (r <= r')%nat)
  end.

Lemma best_inv_step ps n seen acc e : n <> "" ->
  best_inv ps n seen acc -> best_inv ps n (seen ++ [e]) (bstep ps n acc e).
Proof.
  intros Hn H. unfold bstep. destruct (owns ps n e) eqn:O.
  - assert (Hr : exists r, key_rank ps (e_key e) = Some r).
    { apply shorten_rank. unfold owns in O. apply andb_true_iff in O. destruct O as [_ O].
      apply String.eqb_eq in O. rewrite O. exact Hn. }
    destruct Hr as [r Hr]. rewrite Hr. unfold better.
    destruct acc as [[r0 k0]|]; simpl in H.
    + destruct H as [(e0 & Hin0 & O0 & K0 & R0) Hmin].
      destruct (Nat.leb r r0) eqn:L; simpl.
      * apply Nat.leb_le in L. split.
        -- exists e. split; [apply in_or_app; right; left; reflexivity|]. repeat split; auto.
        -- intros x Hx Ox. apply in_app_or in Hx. destruct Hx as [Hx|[<-|[]]].
           ++ destruct (Hmin x Hx Ox) as (r' & A & B). exists r'. split; [exact A|lia].
           ++ exists r. split; [exact Hr|lia].
      * apply Nat.leb_gt in L. split.
        -- exists e0. split; [apply in_or_app; left; exact Hin0|]. repeat split; auto.
        -- intros x Hx Ox. apply in_app_or in Hx. destruct Hx as [Hx|[<-|[]]].
           ++ exact (Hmin x Hx Ox).
           ++ exists r. split; [exact Hr|lia].
    + simpl. split.
      * exists e. split; [apply in_or_app; right; left; reflexivity|]. repeat split; auto.
      * intros x Hx Ox. apply in_app_or in Hx. destruct Hx as [Hx|[<-|[]]].
        -- rewrite (H x Hx) in Ox. discriminate.
        -- exists r. split; [exact Hr|lia].
  - destruct acc as [[r0 k0]|]; simpl in *.
    + destruct H as [(e0 & Hin0 & O0 & K0 & R0) Hmin]. split.
      * exists e0. split; [apply in_or_app; left; exact Hin0|]. repeat split; auto.
      * intros x Hx Ox. apply in_app_or in Hx. destruct Hx as [Hx|[<-|[]]]; [exact (Hmin x Hx Ox)|congruence].
    + intros x Hx. apply in_app_or in Hx. destruct Hx as [Hx|[<-|[]]]; [exact (H x Hx)|exact O].
Qed.

Lemma best_inv_fold ps n : n <> "" -> forall st seen acc,
  best_inv ps n seen acc -> best_inv ps n (seen ++ st) (fold_left (bstep ps n) st acc).
Proof.
  intros Hn. induction st as [|e st IH]; intros seen acc H; simpl.
  - rewrite app_nil_r. exact H.
  - replace (seen ++ e :: st) with ((seen ++ [e]) ++ st) by (rewrite <- app_assoc; reflexivity).
    apply IH. apply best_inv_step; assumption.
Qed.

(* AFTER the fix: the sensor [n] is read from a key that defines it in the MOST SPECIFIC namespace *)
Lemma sensor_most_specific ps st n : n <> "" ->
  match rtbl_get (sensor_table ps st) n with
  | None => forall e, In e st -> owns ps n e = false
  | Some (r, k) =>
      (exists e, In e st /\ owns ps n e = true /\ e_key e = k /\ key_rank ps k = Some r) /\
      (forall e, In e st -> owns ps n e = true -> exists r', key_rank ps (e_key e) = Some r' /\ (r <= r')%nat)
  end.
Proof.
  intros Hn. unfold sensor_table. rewrite (sensor_table_gen_r ps n Hn st [] None eq_refl).
  apply (best_inv_fold ps n Hn st [] None). simpl. intros e [].
Qed.

(* ---------- id resolution ---------- *)
Lemma id_precedence kw url file :
  (forall k, kw = Some k -> k <> "" -> resolve_id kw url file = Some k) /\
  (forall u, kw = None -> url = Some u -> u <> "" -> resolve_id kw url file = Some u) /\
  (kw = None -> url = None -> resolve_id kw url file = file) /\
  (kw = Some "" -> resolve_id kw url file = file) /\
  (kw = None -> url = Some "" -> resolve_id kw url file = file).
Proof.
  unfold resolve_id, url_keyword_wins, l0_empty_falls_back. cbn [andb]. repeat split.
  - intros k -> Hk. apply String.eqb_neq in Hk. rewrite Hk. reflexivity.
  - intros u -> -> Hu. apply String.eqb_neq in Hu. rewrite Hu. reflexivity.
  - intros -> ->. reflexivity.
  - intros ->. reflexivity.
  - intros -> ->. reflexivity.
Qed.

Lemma wrong_type_refused ty : check_stream_type ty = true <-> ty = Some "sdp.vis".
Proof.
  unfold check_stream_type, l0_expected_type, l0_type_default. destruct ty as [t|].
  - rewrite String.eqb_eq. split; [intros ->; reflexivity|intros H; injection H; auto].
  - split; [intros H; vm_compute in H; discriminate|discriminate].
Qed.

(* the keys under which the defaults and the stream attributes are looked up are those the property names *)
Lemma telstate_keys :
  l0_cbid_key = "capture_block_id" /\ l0_stream_key = "stream_name" /\ l0_type_key = "stream_type"
  /\ ts_inherit_key = "inherit" /\ fl_type_key = "stream_type" /\ fl_src_key = "src_streams"
  /\ fl_archived_key = "sdp_archived_streams" /\ ts_sep = "_"
  /\ ds_chunk_info_key = "chunk_info" /\ fl_chunk_info_key = "chunk_info" /\ ds_dumps_array = "correlator_data".
Proof. repeat split; reflexivity. Qed.

(* ---------- flag stream upgrade ---------- *)
Lemma zs_eqb_eq a b : zs_eqb a b = true -> a = b.
Proof.
  unfold zs_eqb. revert b; induction a as [|x a IH]; intros [|y b]; simpl; try discriminate; auto.
  intros H. apply andb_true_iff in H. destruct H as [Hl H]. apply andb_true_iff in H. destruct H as [Hxy H].
  apply Z.eqb_eq in Hxy. subst y. f_equal. apply IH. rewrite Hl. exact H.
Qed.

Lemma hd_rev_snoc {A} (ms : list A) (f : A) :
  rev ms ++ [f] = match rev ms with [] => [f] | x :: t => x :: t ++ [f] end.
Proof. destruct (rev ms); reflexivity. Qed.

Lemma flags_upgrade_rule stream : forall archived cur,
  upgrade_flags stream cur archived = spec_upgrade stream cur archived.
Proof.
  induction archived as [|f fs IH]; intros cur; [reflexivity|].
  simpl upgrade_flags. unfold spec_upgrade. simpl filter.
  destruct (is_flag_source stream f) eqn:S.
  - simpl forallb. destruct (zs_eqb (f_rest f) (c_rest cur)) eqn:Z; simpl.
    + rewrite IH. unfold spec_upgrade. simpl c_rest. rewrite <- (zs_eqb_eq _ _ Z).
      destruct (forallb (fun f0 => zs_eqb (f_rest f0) (f_rest f)) (filter (is_flag_source stream) fs)); [|reflexivity].
      rewrite hd_rev_snoc. destruct (rev (filter (is_flag_source stream) fs)); reflexivity.
    + reflexivity.
  - rewrite IH. reflexivity.
Qed.

(* ---------- alignment ---------- *)
Lemma dumps_app a b : dumps_of (a ++ b) = (dumps_of a + dumps_of b)%Z.
Proof. unfold dumps_of. induction a as [|x a IH]; cbn [fold_right app]; [reflexivity|]. rewrite IH. lia. Qed.
Lemma dumps_repeat1 n : dumps_of (repeat 1%Z n) = Z.of_nat n.
Proof. unfold dumps_of. induction n as [|n IH]; cbn [repeat fold_right]; [reflexivity|]. rewrite IH. lia. Qed.
Lemma zmax_ge l x : In x l -> (x <= zmax_list l)%Z.
Proof. unfold zmax_list. induction l as [|y l IH]; intros H; [destruct H|]. cbn [fold_right]. destruct H as [->|H]; [lia|]. specialize (IH H). lia. Qed.

Lemma align_spans_longer arrays a : In a arrays ->
  let maxd := zmax_list (map dumps_of arrays) in
  dumps_of (align_one maxd a) = maxd /\
  exists k, align_one maxd a = a ++ repeat 1%Z k /\ Z.of_nat k = (maxd - dumps_of a)%Z.
Proof.
  intros Hin maxd.
  assert (Hle : (dumps_of a <= maxd)%Z) by (apply zmax_ge; apply in_map; exact Hin).
  unfold align_one. split.
  - rewrite dumps_app, dumps_repeat1. lia.
  - exists (Z.to_nat (maxd - dumps_of a)). split; [reflexivity|lia].
Qed.

Lemma align_length arrays : List.length (align_chunk_info arrays) = List.length arrays.
Proof. unfold align_chunk_info. apply map_length. Qed.

(* ---------- which archived streams count ---------- *)
Lemma flag_source_iff stream f :
  is_flag_source stream f = true <-> f_type f = Some "sdp.flags" /\ In stream (f_src f).
Proof.
  unfold is_flag_source, fl_type, mem_string. rewrite andb_true_iff, existsb_exists. split.
  - intros [Ht (y & Hy & E)]. apply String.eqb_eq in E. subst y. split; [|exact Hy].
    destruct (f_type f) as [t|]; [|discriminate]. apply String.eqb_eq in Ht. subst t. reflexivity.
  - intros [Ht Hin]. rewrite Ht. split; [reflexivity|]. exists stream. split; [exact Hin|apply String.eqb_refl].
Qed.

(* ---------- every way of opening ---------- *)
Lemma open_dumps a b : (0 <= a)%Z ->
  dumps_of (nth 0 (align_chunk_info [[a]; [b]]) []) = Z.max a b /\
  dumps_of (nth 1 (align_chunk_info [[a]; [b]]) []) = Z.max a b.
Proof.
  intros Ha. unfold align_chunk_info, align_one, zmax_list, dumps_of.
  cbn [map fold_right nth]. split.
  - change (fold_right Z.add 0%Z ([a] ++ repeat 1%Z (Z.to_nat (Z.max (a + 0) (Z.max (b + 0) 0) - (a + 0)))))
      with (dumps_of ([a] ++ repeat 1%Z (Z.to_nat (Z.max (a + 0) (Z.max (b + 0) 0) - (a + 0))))).
    rewrite dumps_app, dumps_repeat1. unfold dumps_of. cbn [fold_right]. lia.
  - change (fold_right Z.add 0%Z ([b] ++ repeat 1%Z (Z.to_nat (Z.max (a + 0) (Z.max (b + 0) 0) - (b + 0)))))
      with (dumps_of ([b] ++ repeat 1%Z (Z.to_nat (Z.max (a + 0) (Z.max (b + 0) 0) - (b + 0))))).
    rewrite dumps_app, dumps_repeat1. unfold dumps_of. cbn [fold_right]. lia.
Qed.

(* the model of TelstateDataSource.__init__ (with the GENERATED condition under which chunk info is consulted)
   agrees with the spec for every mode of opening and every archived list *)
Lemma open_spec m stream cur archived : (0 <= c_dumps cur)%Z ->
  open_source m stream cur archived = spec_open m stream cur archived.
Proof.
  intros H. unfold open_source, spec_open, ds_reads_chunk_info, has_ts. rewrite flags_upgrade_rule.
  destruct (m_store m), (m_ts m) as [k|]; cbn [orb negb]; try reflexivity;
    (destruct (upgrade_on m); [destruct (spec_upgrade stream cur archived) as [c|e]|]; try reflexivity;
     cbv zeta;
     match goal with |- context [align_chunk_info [[?a]; [?b]]] => destruct (open_dumps a b H) as [E0 E1]; rewrite ?E0, ?E1 end;
     reflexivity).
Qed.

(* however it is opened (with or without a chunk store, timestamps given or synthesised - except the single case
   in which nothing at all is derived from the streams: no data and timestamps given), an incompatible flag
   stream is an error and the data set spans the longer of the opened stream and its replacement flags *)
Lemma span_however_opened u stream cur archived : (0 <= c_dumps cur)%Z ->
  forall s t, s = true \/ t = None ->
  open_source (mkMode s u t) stream cur archived =
  match (if match u with Some b => b | None => ds_upgrade_default end
         then spec_upgrade stream cur archived else Ok cur) with
  | Err e => Err e
  | Ok c => let n := Z.max (c_dumps cur) (c_dumps c) in
            Ok (mkOpened (match t with Some k => k | None => n end) (if s then Some (n, c_id c) else None))
  end.
Proof.
  intros H s t Hst. rewrite open_spec by exact H. unfold spec_open, upgrade_on. cbn [m_store m_ts m_upgrade].
  destruct s, t as [k|]; try reflexivity. destruct Hst; discriminate.
Qed.

(* the excluded case: a metadata-only source with explicit timestamps derives nothing from the streams *)
Lemma meta_explicit_ignores_streams u k stream cur archived :
  open_source (mkMode false u (Some k)) stream cur archived = Ok (mkOpened k None).
Proof. reflexivity. Qed.

(* ---------- the whole path from the telstate ---------- *)
Definition dumps_nonneg (vals : vtable) : Prop := forall d rest, In (AInfo d rest) vals -> (0 <= d)%Z.

Lemma aget_in st vals ps k id v : aget st vals ps k = Some (id, v) -> In v vals.
Proof.
  unfold aget. destruct (lookup st ps k) as [i|]; [|discriminate].
  destruct (nth_error vals (Z.to_nat i)) as [x|] eqn:E; [|discriminate].
  intros Hx. injection Hx as _ <-. eapply nth_error_In; eauto.
Qed.

Lemma fstream_of_with_spec st vals base cb s :
  fstream_of_with view_capture_stream_on st vals base cb s = fstream_of_with spec_prefixes_on st vals base cb s.
Proof. unfold fstream_of_with. destruct (chain_of st vals s); [|reflexivity]. rewrite prefix_order_on. reflexivity. Qed.

Lemma open_telstate_spec m st vals cb stream : dumps_nonneg vals ->
  open_telstate m st vals cb stream = spec_open_telstate m st vals cb stream.
Proof.
  intros Hv. unfold open_telstate, spec_open_telstate, open_telstate_with.
  destruct (chain_of st vals stream) as [streams|]; [|reflexivity].
  rewrite prefix_order_on.
  destruct (negb (check_stream_type (astr (aget st vals (spec_prefixes_on [""] cb streams) l0_type_key)))); [reflexivity|].
  destruct (ds_reads_chunk_info (m_store m) (has_ts m)).
  - destruct (aget st vals (spec_prefixes_on [""] cb streams) ds_chunk_info_key) as [[id [x|x|d rest|]]|] eqn:E;
      try reflexivity.
    rewrite (map_ext _ _ (fstream_of_with_spec st vals (spec_prefixes_on [""] cb streams) cb)).
    destruct (if upgrade_on m then _ else _) as [fs|]; [|reflexivity].
    apply open_spec. cbn [c_dumps]. apply (Hv d rest). eapply aget_in; eauto.
  - apply open_spec. cbn [c_dumps]. lia.
Qed.

Lemma open_url_spec m st vals kwcb urlcb kwsn urlsn : dumps_nonneg vals ->
  open_url m st vals kwcb urlcb kwsn urlsn = spec_open_url m st vals kwcb urlcb kwsn urlsn.
Proof.
  intros Hv. unfold open_url, spec_open_url, open_url_with.
  destruct (resolve_id kwcb urlcb _) as [cb|]; [|reflexivity].
  destruct (resolve_id kwsn urlsn _) as [sn|]; [|reflexivity].
  rewrite open_telstate_spec by exact Hv. reflexivity.
Qed.

Example nonvacuous_c18 :
  chain [mkEntry "s_inherit" false 1] (names_of ["s"; "base"]) 3 "s" = Some ["s"; "base"]
  /\ view_capture_stream "cb" ["s"; "base"] = ["cb_s_"; "cb_base_"; "cb_"; "s_"; "base_"; ""]
  /\ align_chunk_info [[2; 2]%Z; [3]%Z] = [[2; 2]%Z; [3; 1]%Z].
Proof. repeat split; reflexivity. Qed.

(* a telstate with an L0 stream of 3 dumps and an archived flag stream of 5: opened as metadata only it has 5
   timestamps, opened with data 5 dumps of the flag stream's flags; with the upgrade disabled 3 *)
Definition ex_vals : vtable :=
  [AStr "cb"; AStr "l0"; AStr "sdp.vis"; AInfo 3 [4; 12]%Z; AStrs ["l0"; "fl"]; AStr "sdp.flags"; AStrs ["l0"];
   AInfo 5 [4; 12]%Z].
Definition ex_store : store :=
  [mkEntry "capture_block_id" false 0; mkEntry "stream_name" false 1; mkEntry "l0_stream_type" false 2;
   mkEntry "cb_l0_chunk_info" false 3; mkEntry "sdp_archived_streams" false 4; mkEntry "fl_stream_type" false 5;
   mkEntry "fl_src_streams" false 6; mkEntry "cb_fl_chunk_info" false 7].
Example nonvacuous_open :
  open_url (mkMode false None None) ex_store ex_vals None None None None = Ok ("cb", "l0", mkOpened 5 None)
  /\ open_url (mkMode true None None) ex_store ex_vals None None None None = Ok ("cb", "l0", mkOpened 5 (Some (5, 7)%Z))
  /\ open_url (mkMode false (Some false) None) ex_store ex_vals None None None None = Ok ("cb", "l0", mkOpened 3 None)
  /\ open_url (mkMode true None None) ex_store ex_vals None None (Some "fl") None = Err 3.
Proof. repeat split; vm_compute; reflexivity. Qed.
