From Coq Require Import ZArith List Bool String Ascii Lia Permutation.
From KV Require Import Base.Sx Base.Str Gen.Generated Model.Telstate.
Import ListNotations.
Open Scope string_scope.
Open Scope list_scope.

(* ---------- prefix order ---------- *)
Lemma fold_cons {A B} (g : A -> B) (l : list A) : forall acc,
  fold_left (fun v s => g s :: v) l acc = rev (map g l) ++ acc.
Proof.
  induction l as [|x l IH]; intros acc; simpl; [reflexivity|].
  rewrite IH. rewrite <- app_assoc. reflexivity.
Qed.

(* the views may be stacked on any base view (the root telstate, or the L0 view for flag-stream candidates) *)
Lemma prefix_order_on base cb streams : view_capture_stream_on base cb streams = spec_prefixes_on base cb streams.
Proof.
  unfold view_capture_stream_on, spec_prefixes_on, vcs_steps. cbn [fold_left vcs_run fst snd]. unfold view.
  rewrite (fold_cons (fun s => (s ++ sep)%string) (rev streams)).
  rewrite (fold_cons (fun s => (joinp cb s ++ sep)%string) (rev streams)).
  rewrite !map_rev, !rev_involutive. rewrite <- ?app_assoc. reflexivity.
Qed.

Lemma prefix_order cb streams : view_capture_stream cb streams = spec_prefixes cb streams.
Proof. apply prefix_order_on. Qed.

(* the chain is exactly the list obtained by following `inherit` until it is absent *)
Lemma chain_sound st names : forall fuel s streams, chain st names fuel s = Some streams ->
  hd_error streams = Some s /\
  (forall i a b, nth_error streams i = Some a -> nth_error streams (S i) = Some b -> inherit_of st names a = Some b) /\
  (forall a, nth_error streams (List.length streams - 1) = Some a -> inherit_of st names a = None).
Proof.
  induction fuel as [|f IH]; intros s streams H; simpl in H; [discriminate|].
  destruct (inherit_of st names s) as [i|] eqn:E.
  - destruct (chain st names f i) as [t|] eqn:C; simpl in H; [|discriminate].
    injection H as <-. destruct (IH _ _ C) as (H1 & H2 & H3).
    split; [reflexivity|]. split.
    + intros [|k] a b Ha Hb; simpl in Ha, Hb.
      * injection Ha as <-. destruct t as [|x t]; [discriminate|]. simpl in H1, Hb. congruence.
      * eapply H2; eauto.
    + intros a Ha. destruct t as [|x t]; [discriminate|]. simpl in Ha.
      apply H3. simpl. rewrite Nat.sub_0_r in *. exact Ha.
  - injection H as <-. split; [reflexivity|]. split.
    + intros [|k] a b Ha Hb; simpl in *; try discriminate; destruct k; discriminate.
    + intros a Ha. simpl in Ha. injection Ha as <-. exact E.
Qed.

(* ---------- attribute lookup: the first prefix in view order that defines the key ---------- *)
Lemma lookup_first st ps k v : lookup st ps k = Some v <->
  exists ps1 p ps2 e, ps = ps1 ++ p :: ps2 /\ (forall q, In q ps1 -> find_key st (q ++ k)%string = None)
                      /\ find_key st (p ++ k)%string = Some e /\ e_val e = v.
Proof.
  induction ps as [|p0 ps IH]; simpl.
  - split; [discriminate|]. intros (ps1 & q & ps2 & e & H & _). destruct ps1; discriminate.
  - destruct (find_key st (p0 ++ k)%string) as [e|] eqn:E.
    + split.
      * intros H. injection H as <-. exists [], p0, ps, e. simpl. repeat split; auto. intros q [].
      * intros (ps1 & q & ps2 & e' & H & Hn & Hf & Hv). destruct ps1 as [|x ps1]; simpl in H.
        -- injection H as Hq Hps. subst q. rewrite E in Hf. congruence.
        -- injection H as Hx Hps. subst x. specialize (Hn p0 (or_introl eq_refl)). congruence.
    + rewrite IH. split.
      * intros (ps1 & q & ps2 & e' & H & Hn & Hf & Hv). exists (p0 :: ps1), q, ps2, e'. subst ps. simpl.
        repeat split; auto. intros r [<-|Hr]; auto.
      * intros (ps1 & q & ps2 & e' & H & Hn & Hf & Hv). destruct ps1 as [|x ps1]; simpl in H.
        -- injection H as Hq Hps. subst q. congruence.
        -- injection H as Hx Hps. subst x ps. exists ps1, q, ps2, e'. repeat split; auto.
           intros r Hr. apply Hn. right. exact Hr.
Qed.

Lemma lookup_none st ps k : lookup st ps k = None <-> forall q, In q ps -> find_key st (q ++ k)%string = None.
Proof.
  induction ps as [|p ps IH]; simpl.
  - split; auto. intros _ q [].
  - destruct (find_key st (p ++ k)%string) eqn:E.
    + split; [discriminate|]. intros H. specialize (H p (or_introl eq_refl)). congruence.
    + rewrite IH. split; intros H q; [intros [<-|Hq]; auto|intros Hq; apply H; right; exact Hq].
Qed.

(* ---------- strings ---------- *)
Lemma slen_app (a b : string) : String.length (a ++ b) = (String.length a + String.length b)%nat.
Proof. induction a as [|c a IH]; simpl; [reflexivity|]. rewrite IH. reflexivity. Qed.
Lemma sapp_assoc (a b c : string) : ((a ++ b) ++ c)%string = (a ++ (b ++ c))%string.
Proof. induction a as [|x a IH]; simpl; [reflexivity|]. rewrite IH. reflexivity. Qed.
Lemma substring_all (s : string) : substring 0 (String.length s) s = s.
Proof. induction s as [|c s IH]; simpl; [reflexivity|]. rewrite IH. reflexivity. Qed.
Lemma take_app (p t : string) : take (String.length p) (p ++ t) = p.
Proof.
  unfold take. induction p as [|c p IH]; simpl.
  - destruct t; reflexivity.
  - rewrite IH. reflexivity.
Qed.
Lemma drop_app (p t : string) : drop (String.length p) (p ++ t) = t.
Proof.
  unfold drop. induction p as [|c p IH]; simpl.
  - rewrite Nat.sub_0_r. apply substring_all.
  - exact IH.
Qed.
Lemma prefix_app (p t : string) : String.prefix p (p ++ t) = true.
Proof. induction p as [|c p IH]; simpl; [destruct t; reflexivity|]. destruct (ascii_dec c c); [exact IH|contradiction]. Qed.
Lemma prefix_split (p k : string) : String.prefix p k = true -> k = (p ++ drop (String.length p) k)%string.
Proof.
  revert k. induction p as [|c p IH]; intros k H.
  - simpl. unfold drop. rewrite Nat.sub_0_r, substring_all. reflexivity.
  - destruct k as [|d k]; simpl in H; [discriminate|]. destruct (ascii_dec c d) as [->|]; [|discriminate].
    simpl. f_equal. rewrite (IH k H) at 1. f_equal.
Qed.
(* key[:len(key) - len(name)] of key = p ++ name is p *)
Lemma take_prefix (p n : string) : take (String.length (p ++ n) - String.length n) (p ++ n) = p.
Proof. rewrite slen_app. replace (String.length p + String.length n - String.length n)%nat with (String.length p) by lia. apply take_app. Qed.
Lemma app_inj_l (p q n : string) : (p ++ n)%string = (q ++ n)%string -> p = q.
Proof. intros H. rewrite <- (take_prefix p n), <- (take_prefix q n), H. reflexivity. Qed.

(* ---------- the sensor table ---------- *)
Lemma find_filter_ne (t : table) m n : String.eqb m n = false ->
  find (fun p => String.eqb (fst p) n) (filter (fun p => negb (String.eqb (fst p) m)) t)
  = find (fun p => String.eqb (fst p) n) t.
Proof.
  intros Hmn. induction t as [|[a b] t IH]; simpl; [reflexivity|].
  destruct (String.eqb_spec a m) as [->|Ham]; simpl.
  - rewrite Hmn. exact IH.
  - destruct (String.eqb a n); [reflexivity|exact IH].
Qed.

Lemma tbl_get_set t m k n : tbl_get (tbl_set t m k) n = if String.eqb m n then Some k else tbl_get t n.
Proof.
  unfold tbl_get, tbl_set. simpl. destruct (String.eqb m n) eqn:E; [reflexivity|].
  rewrite find_filter_ne by exact E. reflexivity.
Qed.

(* the owner of sensor name n according to the code: the LAST mutable key (in key order) that shortens to n *)
Definition owns (ps : list string) (n : string) (e : entry) : bool :=
  (e_mut e && String.eqb (shorten_key ps (e_key e)) n)%bool.
Definition last_owner (ps : list string) (st : store) (n : string) : option string :=
  fold_left (fun acc e => if owns ps n e then Some (e_key e) else acc) st None.

Lemma sensor_table_gen ps n : n <> "" -> forall st t acc, tbl_get t n = acc ->
  tbl_get (fold_left (sensor_step_unranked ps) st t) n
  = fold_left (fun acc e => if owns ps n e then Some (e_key e) else acc) st acc.
Proof.
  intros Hn. induction st as [|e st IH]; intros t acc H; simpl; [exact H|].
  apply IH. unfold sensor_step_unranked, owns. destruct (e_mut e); simpl; [|exact H].
  destruct (String.eqb_spec (shorten_key ps (e_key e)) "") as [E|E].
  - rewrite E. destruct (String.eqb_spec "" n) as [<-|_]; [contradiction|exact H].
  - rewrite tbl_get_set. destruct (String.eqb (shorten_key ps (e_key e)) n); [reflexivity|exact H].
Qed.

(* BEFORE the fix: the last mutable key in key order whose shortened name is n won ... *)
Lemma sensor_table_unranked_last_owner ps st n : n <> "" ->
  tbl_get (sensor_table_unranked ps st) n = last_owner ps st n.
Proof. intros Hn. unfold sensor_table_unranked, last_owner. apply sensor_table_gen; auto. Qed.

(* ... so that with two namespaces defining a sensor the LESS specific one could win (finding F6):
   stream s inheriting base, sensor foo defined under cb_base_ and under cb_ *)
Definition f6_prefixes : list string := spec_prefixes "cb" ["s"; "base"].
Definition f6_store : store := [mkEntry "cb_base_foo" true 1; mkEntry "cb_foo" true 2].
Lemma sensor_refuted_before_fix :
  exists ps st n, spec_sensor st ps n = Some "cb_base_foo"
                  /\ tbl_get (sensor_table_unranked ps st) n = Some "cb_foo"
                  /\ sensor_key ps st n = Some "cb_base_foo".
Proof. exists f6_prefixes, f6_store, "foo". repeat split; reflexivity. Qed.

(* ---------- AFTER the fix: ranked table ---------- *)
Lemma rfind_filter_ne (t : rtable) m n : String.eqb m n = false ->
  find (fun p => String.eqb (fst p) n) (filter (fun p => negb (String.eqb (fst p) m)) t)
  = find (fun p => String.eqb (fst p) n) t.
Proof.
  intros Hmn. induction t as [|[a b] t IH]; simpl; [reflexivity|].
  destruct (String.eqb_spec a m) as [->|Ham]; simpl.
  - rewrite Hmn. exact IH.
  - destruct (String.eqb a n); [reflexivity|exact IH].
Qed.

Lemma rtbl_get_set t m v n : rtbl_get (rtbl_set t m v) n = if String.eqb m n then Some v else rtbl_get t n.
Proof.
  unfold rtbl_get, rtbl_set. simpl. destruct (String.eqb m n) eqn:E; [reflexivity|].
  rewrite rfind_filter_ne by exact E. reflexivity.
Qed.

(* the generated pieces of the loop, as the pinned code has them *)
Lemma scan_id ps : scan_prefixes ps = ps.
Proof. reflexivity. Qed.
Lemma is_sensor_key_mut ps all e : is_sensor_key_gen sn_type_through_view ps all e = e_mut e.
Proof. unfold is_sensor_key_gen, sn_type_through_view, type_holds, sn_key_type, sn_key_type_eq. cbn. destruct (e_mut e); reflexivity. Qed.

(* a key of rank r is its r-th prefix followed by its shortened name *)
Lemma first_match ps k : forall r, key_rank ps k = Some r ->
  exists p, nth_error ps r = Some p /\ k = (p ++ shorten_key ps k)%string /\ String.prefix p k = true.
Proof.
  induction ps as [|q ps IH]; intros r H; simpl in H; [discriminate|].
  simpl shorten_key. destruct (String.prefix q k) eqn:E.
  - injection H as <-. exists q. simpl. repeat split; auto. apply prefix_split; exact E.
  - destruct (key_rank ps k) as [r'|] eqn:K; [|discriminate]. simpl in H. injection H as <-.
    destruct (IH r' eq_refl) as (p & A & B & C). exists p. simpl. auto.
Qed.

Lemma take_sh k p sh : k = (p ++ sh)%string -> take (String.length k - String.length sh) k = p.
Proof. intros ->. apply take_prefix. Qed.

(* the rank AS THE CODE COMPUTES IT, prefixes.index(key[:len(key) - len(sensor_name)]), is the index of the first
   prefix (in view order) that fits the key *)
Lemma rank_in_code_ok ps k : forall r, key_rank ps k = Some r -> rank_in_code ps k (shorten_key ps k) = Some r.
Proof.
  unfold rank_in_code. induction ps as [|q ps IH]; intros r H; simpl in H; [discriminate|].
  simpl shorten_key. destruct (String.prefix q k) eqn:E.
  - injection H as <-. rewrite (take_sh k q _ (prefix_split q k E)). simpl. rewrite String.eqb_refl. reflexivity.
  - destruct (key_rank ps k) as [r'|] eqn:K; [|discriminate]. simpl in H. injection H as <-.
    destruct (first_match ps k r' K) as (p & A & B & C).
    specialize (IH r' eq_refl). rewrite (take_sh k p _ B) in *. simpl.
    destruct (String.eqb_spec p q) as [->|_]; [congruence|]. rewrite IH. reflexivity.
Qed.

Definition better (acc : option (nat * string)) (r : nat) (k : string) : option (nat * string) :=
  match acc with
  | Some (r0, k0) => if Nat.leb r r0 then Some (r, k) else Some (r0, k0)
  | None => Some (r, k)
  end.
Definition bstep (ps : list string) (n : string) (acc : option (nat * string)) (e : entry) : option (nat * string) :=
  if owns ps n e then
    match key_rank ps (e_key e) with Some r => better acc r (e_key e) | None => acc end
  else acc.

Lemma shorten_rank ps k : shorten_key ps k <> "" -> exists r, key_rank ps k = Some r.
Proof.
  induction ps as [|p ps IH]; simpl; [intros H; exfalso; apply H; reflexivity|].
  destruct (String.prefix p k); [eauto|]. intros H. destruct (IH H) as [r Hr]. rewrite Hr. simpl. eauto.
Qed.

(* what the loop of the code leaves under name n = the scan that keeps an owner of minimal rank *)
Lemma sensor_table_gen_r ps all n : n <> "" -> forall st t acc, rtbl_get t n = acc ->
  rtbl_get (fold_left (sensor_step ps all) st t) n = fold_left (bstep ps n) st acc.
Proof.
  intros Hn. induction st as [|e st IH]; intros t acc H; simpl; [exact H|].
  apply IH. unfold sensor_step, sensor_step_gen, bstep, owns. rewrite is_sensor_key_mut, scan_id.
  destruct (e_mut e); simpl; [|exact H].
  destruct (String.eqb_spec (shorten_key ps (e_key e)) "") as [E|E].
  - rewrite E. destruct (String.eqb_spec "" n) as [<-|_]; [contradiction|exact H].
  - destruct (shorten_rank ps (e_key e) E) as [r Hr]. rewrite (rank_in_code_ok _ _ _ Hr), Hr.
    destruct (String.eqb_spec (shorten_key ps (e_key e)) n) as [En|En].
    + rewrite En. subst acc. unfold better, sn_replaces, sn_default_rank.
      destruct (rtbl_get t n) as [[r0 k0]|] eqn:G.
      * destruct (Nat.leb r r0); [rewrite rtbl_get_set, String.eqb_refl; reflexivity|exact G].
      * rewrite Nat.leb_refl. rewrite rtbl_get_set, String.eqb_refl. reflexivity.
    + apply String.eqb_neq in En.
      destruct (sn_replaces r _); [rewrite rtbl_get_set, En; exact H|exact H].
Qed.

(* invariant of the scan: acc is an owner of minimal rank among those seen *)
Definition best_inv (ps : list string) (n : string) (seen : store) (acc : option (nat * string)) : Prop :=
  match acc with
  | None => forall e, In e seen -> owns ps n e = false
  | Some (r, k) =>
      (exists e, In e seen /\ owns ps n e = true /\ e_key e = k /\ key_rank ps k = Some r) /\
      (forall e, In e seen -> owns ps n e = true -> exists r', key_rank ps (e_key e) = Some r' /\ (r <= r')%nat)
  end.

Lemma best_inv_step ps n seen acc e : n <> "" ->
  best_inv ps n seen acc -> best_inv ps n (seen ++ [e]) (bstep ps n acc e).
Proof.
  intros Hn H. unfold bstep. destruct (owns ps n e) eqn:O.
  - assert (Hr : exists r, key_rank ps (e_key e) = Some r).
    { apply shorten_rank. unfold owns in O. apply andb_true_iff in O. destruct O as [_ O].
      apply String.eqb_eq in O. rewrite O. exact Hn. }
    destruct Hr as [r Hr]. rewrite Hr. unfold better.
    destruct acc as [[r0 k0]|]; simpl in H.
    + destruct H as [(e0 & Hin0 & O0 & K0 & R0) Hmin].
      destruct (Nat.leb r r0) eqn:L; simpl.
      * apply Nat.leb_le in L. split.
        -- exists e. split; [apply in_or_app; right; left; reflexivity|]. repeat split; auto.
        -- intros x Hx Ox. apply in_app_or in Hx. destruct Hx as [Hx|[<-|[]]].
           ++ destruct (Hmin x Hx Ox) as (r' & A & B). exists r'. split; [exact A|lia].
           ++ exists r. split; [exact Hr|lia].
      * apply Nat.leb_gt in L. split.
        -- exists e0. split; [apply in_or_app; left; exact Hin0|]. repeat split; auto.
        -- intros x Hx Ox. apply in_app_or in Hx. destruct Hx as [Hx|[<-|[]]].
           ++ exact (Hmin x Hx Ox).
           ++ exists r. split; [exact Hr|lia].
    + simpl. split.
      * exists e. split; [apply in_or_app; right; left; reflexivity|]. repeat split; auto.
      * intros x Hx Ox. apply in_app_or in Hx. destruct Hx as [Hx|[<-|[]]].
        -- rewrite (H x Hx) in Ox. discriminate.
        -- exists r. split; [exact Hr|lia].
  - destruct acc as [[r0 k0]|]; simpl in *.
    + destruct H as [(e0 & Hin0 & O0 & K0 & R0) Hmin]. split.
      * exists e0. split; [apply in_or_app; left; exact Hin0|]. repeat split; auto.
      * intros x Hx Ox. apply in_app_or in Hx. destruct Hx as [Hx|[<-|[]]]; [exact (Hmin x Hx Ox)|congruence].
    + intros x Hx. apply in_app_or in Hx. destruct Hx as [Hx|[<-|[]]]; [exact (H x Hx)|exact O].
Qed.

Lemma best_inv_fold ps n : n <> "" -> forall st seen acc,
  best_inv ps n seen acc -> best_inv ps n (seen ++ st) (fold_left (bstep ps n) st acc).
Proof.
  intros Hn. induction st as [|e st IH]; intros seen acc H; simpl.
  - rewrite app_nil_r. exact H.
  - replace (seen ++ e :: st) with ((seen ++ [e]) ++ st) by (rewrite <- app_assoc; reflexivity).
    apply IH. apply best_inv_step; assumption.
Qed.

(* AFTER the fix: the sensor [n] is read from a key that defines it in the MOST SPECIFIC namespace *)
Lemma sensor_most_specific ps st n : n <> "" ->
  match rtbl_get (sensor_table ps st) n with
  | None => forall e, In e st -> owns ps n e = false
  | Some (r, k) =>
      (exists e, In e st /\ owns ps n e = true /\ e_key e = k /\ key_rank ps k = Some r) /\
      (forall e, In e st -> owns ps n e = true -> exists r', key_rank ps (e_key e) = Some r' /\ (r <= r')%nat)
  end.
Proof.
  intros Hn. unfold sensor_table. rewrite (sensor_table_gen_r ps st n Hn st [] None eq_refl).
  apply (best_inv_fold ps n Hn st [] None). simpl. intros e [].
Qed.

(* ---------- the sensor table against the namespace-by-namespace reading of the property ---------- *)
Lemma find_key_some st k e : find_key st k = Some e -> In e st /\ e_key e = k.
Proof. unfold find_key. intros H. apply find_some in H. destruct H as [A B]. apply String.eqb_eq in B. auto. Qed.

Lemma find_key_nodup st e : NoDup (map e_key st) -> In e st -> find_key st (e_key e) = Some e.
Proof.
  unfold find_key. induction st as [|x st IH]; intros N H; [destruct H|]. simpl.
  inversion N as [|? ? Hnotin N']; subst.
  destruct (String.eqb_spec (e_key x) (e_key e)) as [E|E].
  - destruct H as [->|H]; [reflexivity|]. exfalso. apply Hnotin. rewrite E. apply in_map. exact H.
  - destruct H as [->|H]; [contradiction|]. apply IH; auto.
Qed.

Lemma owner_key ps n e : n <> "" -> owns ps n e = true ->
  exists r p, key_rank ps (e_key e) = Some r /\ nth_error ps r = Some p /\ e_key e = (p ++ n)%string /\ e_mut e = true.
Proof.
  intros Hn O. unfold owns in O. apply andb_true_iff in O. destruct O as [M S]. apply String.eqb_eq in S.
  destruct (shorten_rank ps (e_key e)) as [r Hr]; [rewrite S; exact Hn|].
  destruct (first_match ps (e_key e) r Hr) as (p & A & B & C). exists r, p. rewrite S in B. auto.
Qed.

Lemma key_rank_le ps k : forall i p, nth_error ps i = Some p -> String.prefix p k = true ->
  exists r, key_rank ps k = Some r /\ (r <= i)%nat.
Proof.
  induction ps as [|q ps IH]; intros [|i] p H P; simpl in H; try discriminate.
  - injection H as ->. simpl. rewrite P. exists 0%nat. split; [reflexivity|lia].
  - simpl. destruct (String.prefix q k); [exists 0%nat; split; [reflexivity|lia]|].
    destruct (IH i p H P) as (r & A & B). rewrite A. exists (S r). split; [reflexivity|lia].
Qed.

(* namespace p defines sensor n: the key p ++ n exists and is mutable *)
Definition defines (st : store) (n p : string) : Prop := exists e, find_key st (p ++ n)%string = Some e /\ e_mut e = true.

Lemma spec_sensor_some st n : forall ps k, spec_sensor st ps n = Some k ->
  exists i p e, nth_error ps i = Some p /\ find_key st (p ++ n)%string = Some e /\ e_mut e = true /\ k = e_key e
    /\ forall j q, (j < i)%nat -> nth_error ps j = Some q -> ~ defines st n q.
Proof.
  induction ps as [|q ps IH]; intros k H; simpl in H; [discriminate|].
  destruct (find_key st (q ++ n)%string) as [e|] eqn:F; [destruct (e_mut e) eqn:M|].
  - injection H as <-. exists 0%nat, q, e. repeat split; auto. intros j x Hj. lia.
  - destruct (IH k H) as (i & p & e' & A & B & C & D & E). exists (S i), p, e'. repeat split; auto.
    intros [|j] x Hj Hx; simpl in Hx.
    + injection Hx as <-. intros (e2 & F2 & M2). congruence.
    + apply (E j x); [lia|exact Hx].
  - destruct (IH k H) as (i & p & e' & A & B & C & D & E). exists (S i), p, e'. repeat split; auto.
    intros [|j] x Hj Hx; simpl in Hx.
    + injection Hx as <-. intros (e2 & F2 & M2). congruence.
    + apply (E j x); [lia|exact Hx].
Qed.

Lemma spec_sensor_none st n : forall ps, spec_sensor st ps n = None -> forall p, In p ps -> ~ defines st n p.
Proof.
  induction ps as [|q ps IH]; intros H p Hp; [destruct Hp|]. simpl in H.
  destruct (find_key st (q ++ n)%string) as [e|] eqn:F; [destruct (e_mut e) eqn:M|]; try discriminate;
    (destruct Hp as [<-|Hp]; [intros (e2 & F2 & M2); congruence|exact (IH H p Hp)]).
Qed.

(* no aliasing for the name n: every mutable key <namespace><n> shortens to n (its first fitting prefix is that
   namespace and not a more specific one that happens to fit too, as for n = "s_foo" under "cb_" with a view that
   also has "cb_s_") *)
Definition canonical (ps : list string) (st : store) (n : string) : Prop :=
  forall p e, In p ps -> find_key st (p ++ n)%string = Some e -> e_mut e = true -> shorten_key ps (p ++ n)%string = n.

Lemma sensor_eq_spec ps st n : n <> "" -> NoDup (map e_key st) -> canonical ps st n ->
  sensor_key ps st n = spec_sensor st ps n.
Proof.
  intros Hn Nd Hc. unfold sensor_key. pose proof (sensor_most_specific ps st n Hn) as H.
  destruct (rtbl_get (sensor_table ps st) n) as [[r k]|]; simpl.
  - destruct H as [(e0 & In0 & O0 & K0 & R0) Hmin].
    destruct (owner_key ps n e0 Hn O0) as (r1 & p0 & A & B & C & M0).
    rewrite K0 in A, C. assert (r1 = r) by congruence. subst r1.
    assert (D0 : defines st n p0).
    { exists e0. split; [|exact M0]. rewrite <- C, <- K0. apply find_key_nodup; auto. }
    destruct (spec_sensor st ps n) as [k'|] eqn:S.
    + destruct (spec_sensor_some _ _ _ _ S) as (i & p & e & Pi & F & M & -> & Hfirst).
      destruct (find_key_some _ _ _ F) as [Ine Ke].
      assert (O : owns ps n e = true).
      { unfold owns. rewrite M, Ke, (Hc p e (nth_error_In _ _ Pi) F M). simpl. apply String.eqb_refl. }
      destruct (Hmin e Ine O) as (r' & R' & Le).
      destruct (key_rank_le ps (e_key e) i p Pi) as (r'' & R'' & Le''). { rewrite Ke. apply prefix_app. }
      assert (r'' = r') by congruence. subst r''.
      assert (~ (r < i)%nat) by (intros Lt; exact (Hfirst r p0 Lt B D0)).
      assert (r = i) by lia. subst i. f_equal. rewrite Ke, C. rewrite B in Pi. injection Pi as <-. reflexivity.
    + exfalso. exact (spec_sensor_none _ _ _ S p0 (nth_error_In _ _ B) D0).
  - destruct (spec_sensor st ps n) as [k'|] eqn:S; [|reflexivity]. exfalso.
    destruct (spec_sensor_some _ _ _ _ S) as (i & p & e & Pi & F & M & _ & _).
    destruct (find_key_some _ _ _ F) as [Ine Ke].
    assert (O : owns ps n e = true).
    { unfold owns. rewrite M, Ke, (Hc p e (nth_error_In _ _ Pi) F M). simpl. apply String.eqb_refl. }
    rewrite (H e Ine) in O. discriminate.
Qed.

(* the order in which telstate.keys() delivers the keys does not matter *)
Lemma sensor_order_independent ps st st' n : n <> "" -> Permutation st st' ->
  sensor_key ps st n = sensor_key ps st' n.
Proof.
  intros Hn P. unfold sensor_key.
  pose proof (sensor_most_specific ps st n Hn) as H. pose proof (sensor_most_specific ps st' n Hn) as H'.
  destruct (rtbl_get (sensor_table ps st) n) as [[r k]|], (rtbl_get (sensor_table ps st') n) as [[r' k']|]; simpl.
  - destruct H as [(e0 & In0 & O0 & K0 & R0) Hmin]. destruct H' as [(e1 & In1 & O1 & K1 & R1) Hmin'].
    destruct (Hmin' e0 (Permutation_in _ P In0) O0) as (x & X & Lx).
    destruct (Hmin e1 (Permutation_in _ (Permutation_sym P) In1) O1) as (y & Y & Ly).
    rewrite K0 in X. rewrite K1 in Y. assert (x = r) by congruence. assert (y = r') by congruence. subst x y.
    assert (r = r') by lia. subst r'.
    destruct (owner_key ps n e0 Hn O0) as (a & p & A1 & A2 & A3 & _).
    destruct (owner_key ps n e1 Hn O1) as (b & q & B1 & B2 & B3 & _).
    rewrite K0 in A1, A3. rewrite K1 in B1, B3. assert (a = r) by congruence. assert (b = r) by congruence. subst a b.
    rewrite A2 in B2. injection B2 as <-. rewrite A3, B3. reflexivity.
  - destruct H as [(e0 & In0 & O0 & _) _]. rewrite (H' e0 (Permutation_in _ P In0)) in O0. discriminate.
  - destruct H' as [(e1 & In1 & O1 & _) _]. rewrite (H e1 (Permutation_in _ (Permutation_sym P) In1)) in O1. discriminate.
  - reflexivity.
Qed.

(* the NAMES of the sensors: exactly the non-empty shortened names of the mutable keys (an immutable key, a key that
   equals a prefix, a key under no prefix of the view never shows up as a sensor) *)
Lemma rtbl_get_names (t : rtable) n : In n (map fst t) <-> rtbl_get t n <> None.
Proof.
  unfold rtbl_get. induction t as [|[a b] t IH]; simpl.
  - split; [intros []|intros H; apply H; reflexivity].
  - destruct (String.eqb_spec a n) as [->|E]; simpl.
    + split; [discriminate|auto].
    + rewrite <- IH. split; [intros [H|H]; [contradiction|exact H]|auto].
Qed.

Lemma empty_name_absent ps all : forall st t, rtbl_get t "" = None -> rtbl_get (fold_left (sensor_step ps all) st t) "" = None.
Proof.
  induction st as [|e st IH]; intros t H; simpl; [exact H|]. apply IH. unfold sensor_step, sensor_step_gen.
  destruct (is_sensor_key_gen _ ps all e); [|exact H].
  destruct (String.eqb_spec (shorten_key (scan_prefixes ps) (e_key e)) "") as [E|E]; [exact H|].
  destruct (rank_in_code ps (e_key e) _); [|exact H].
  destruct (sn_replaces _ _); [|exact H]. rewrite rtbl_get_set. apply String.eqb_neq in E. rewrite E. exact H.
Qed.

Lemma sensor_names_iff ps st n :
  In n (sensor_names ps st) <-> n <> "" /\ exists e, In e st /\ owns ps n e = true.
Proof.
  unfold sensor_names. rewrite rtbl_get_names. split.
  - intros H. destruct (String.eqb_spec n "") as [->|Hn].
    + exfalso. apply H. unfold sensor_table. apply empty_name_absent. reflexivity.
    + split; [exact Hn|]. pose proof (sensor_most_specific ps st n Hn) as M.
      destruct (rtbl_get (sensor_table ps st) n) as [[r k]|]; [|contradiction].
      destruct M as [(e & A & B & _) _]. eauto.
  - intros [Hn (e & Ie & O)]. pose proof (sensor_most_specific ps st n Hn) as M.
    destruct (rtbl_get (sensor_table ps st) n) as [[r k]|]; [discriminate|].
    rewrite (M e Ie) in O. discriminate.
Qed.

(* ---------- id resolution ---------- *)
Lemma id_precedence kw url file :
  (forall k, kw = Some k -> k <> "" -> resolve_id kw url file = Some k) /\
  (forall u, kw = None -> url = Some u -> u <> "" -> resolve_id kw url file = Some u) /\
  (kw = None -> url = None -> resolve_id kw url file = file) /\
  (kw = Some "" -> resolve_id kw url file = file) /\
  (kw = None -> url = Some "" -> resolve_id kw url file = file).
Proof.
  unfold resolve_id, url_keyword_wins, l0_empty_falls_back. cbn [andb]. repeat split.
  - intros k -> Hk. apply String.eqb_neq in Hk. rewrite Hk. reflexivity.
  - intros u -> -> Hu. apply String.eqb_neq in Hu. rewrite Hu. reflexivity.
  - intros -> ->. reflexivity.
  - intros ->. reflexivity.
  - intros -> ->. reflexivity.
Qed.

Lemma wrong_type_refused ty : check_stream_type ty = true <-> ty = Some "sdp.vis".
Proof.
  unfold check_stream_type, l0_expected_type, l0_type_default. destruct ty as [t|].
  - rewrite String.eqb_eq. split; [intros ->; reflexivity|intros H; injection H; auto].
  - split; [intros H; vm_compute in H; discriminate|discriminate].
Qed.

(* the keys under which the defaults and the stream attributes are looked up are those the property names *)
Lemma telstate_keys :
  l0_cbid_key = "capture_block_id" /\ l0_stream_key = "stream_name" /\ l0_type_key = "stream_type"
  /\ ts_inherit_key = "inherit" /\ fl_type_key = "stream_type" /\ fl_src_key = "src_streams"
  /\ fl_archived_key = "sdp_archived_streams" /\ ts_sep = "_"
  /\ ds_chunk_info_key = "chunk_info" /\ fl_chunk_info_key = "chunk_info" /\ ds_dumps_array = "correlator_data"
  /\ ci_prefix_key = "chunk_name".
Proof. repeat split; reflexivity. Qed.

(* ---------- flag stream upgrade ---------- *)
Lemma zs_eqb_eq a b : zs_eqb a b = true -> a = b.
Proof.
  unfold zs_eqb. revert b; induction a as [|x a IH]; intros [|y b]; simpl; try discriminate; auto.
  intros H. apply andb_true_iff in H. destruct H as [Hl H]. apply andb_true_iff in H. destruct H as [Hxy H].
  apply Z.eqb_eq in Hxy. subst y. f_equal. apply IH. rewrite Hl. exact H.
Qed.

Lemma statuses_cons stream rest f fs :
  statuses stream rest (f :: fs)
  = (match candidate_status stream rest f with Some r => [r] | None => [] end) ++ statuses stream rest fs.
Proof. reflexivity. Qed.

Lemma flags_upgrade_rule stream : forall archived cur,
  upgrade_flags stream cur archived = spec_upgrade stream cur archived.
Proof.
  induction archived as [|f fs IH]; intros cur; [reflexivity|].
  unfold spec_upgrade. rewrite statuses_cons. cbn [upgrade_flags]. unfold candidate_status, type_is_flags.
  destruct (f_type f) as [t|]; [destruct (String.eqb t fl_type)|];
    try (cbn [app]; rewrite IH; reflexivity).
  destruct (f_src f) as [src|]; [|reflexivity].
  destruct (mem_string stream src); [|cbn [app]; rewrite IH; reflexivity].
  destruct (f_info f) as [ci|]; [|reflexivity].
  destruct (zs_eqb (c_rest ci) (c_rest cur)) eqn:Z; [|reflexivity].
  rewrite IH. unfold spec_upgrade. rewrite (zs_eqb_eq _ _ Z). cbn [app find is_err].
  destruct (find is_err (statuses stream (c_rest cur) fs)); [reflexivity|].
  cbn [rev]. destruct (rev (statuses stream (c_rest cur) fs)); reflexivity.
Qed.

(* the only errors of the upgrade: 1 (incompatible shape, ValueError), 2 (a flags stream without sources or chunk
   info, KeyError) *)
Lemma upgrade_err stream : forall archived cur e, upgrade_flags stream cur archived = Err e -> e = 1%Z \/ e = 2%Z.
Proof.
  induction archived as [|f fs IH]; intros cur e H; cbn [upgrade_flags] in H; [discriminate|].
  destruct (type_is_flags f); [|eauto].
  destruct (f_src f) as [src|]; [|injection H as <-; auto].
  destruct (mem_string stream src); [|eauto].
  destruct (f_info f) as [ci|]; [|injection H as <-; auto].
  destruct (zs_eqb (c_rest ci) (c_rest cur)); [eauto|injection H as <-; auto].
Qed.

(* what must NOT change: archived streams of another type, or whose sources do not include the opened stream, leave
   its flags alone, wherever they stand in the list and whatever else they lack *)
Lemma upgrade_ignores_others stream cur : forall archived,
  (forall f, In f archived -> candidate_status stream (c_rest cur) f = None) ->
  upgrade_flags stream cur archived = Ok cur.
Proof.
  intros archived H. rewrite flags_upgrade_rule. unfold spec_upgrade.
  assert (E : statuses stream (c_rest cur) archived = []).
  { induction archived as [|f fs IH]; [reflexivity|]. rewrite statuses_cons, (H f (or_introl eq_refl)).
    apply IH. intros g Hg. apply H. right. exact Hg. }
  rewrite E. reflexivity.
Qed.

(* a replacement never changes the channel/baseline shape *)
Lemma upgrade_keeps_shape stream : forall archived cur c,
  upgrade_flags stream cur archived = Ok c -> c_rest c = c_rest cur.
Proof.
  induction archived as [|f fs IH]; intros cur c H; cbn [upgrade_flags] in H; [injection H as <-; reflexivity|].
  destruct (type_is_flags f); [|eauto].
  destruct (f_src f) as [src|]; [|discriminate].
  destruct (mem_string stream src); [|eauto].
  destruct (f_info f) as [ci|]; [|discriminate].
  destruct (zs_eqb (c_rest ci) (c_rest cur)) eqn:Z; [|discriminate].
  rewrite (IH _ _ H). apply zs_eqb_eq. exact Z.
Qed.

(* ---------- alignment ---------- *)
Lemma dumps_app a b : dumps_of (a ++ b) = (dumps_of a + dumps_of b)%Z.
Proof. unfold dumps_of. induction a as [|x a IH]; cbn [fold_right app]; [reflexivity|]. rewrite IH. lia. Qed.
Lemma dumps_repeat1 n : dumps_of (repeat 1%Z n) = Z.of_nat n.
Proof. unfold dumps_of. induction n as [|n IH]; cbn [repeat fold_right]; [reflexivity|]. rewrite IH. lia. Qed.
Lemma zmax_ge l x : In x l -> (x <= zmax_list l)%Z.
Proof. unfold zmax_list. induction l as [|y l IH]; intros H; [destruct H|]. cbn [fold_right]. destruct H as [->|H]; [lia|]. specialize (IH H). lia. Qed.

Lemma align_spans_longer arrays a : In a arrays ->
  let maxd := zmax_list (map dumps_of arrays) in
  dumps_of (align_one maxd a) = maxd /\
  exists k, align_one maxd a = a ++ repeat 1%Z k /\ Z.of_nat k = (maxd - dumps_of a)%Z.
Proof.
  intros Hin maxd.
  assert (Hle : (dumps_of a <= maxd)%Z) by (apply zmax_ge; apply in_map; exact Hin).
  unfold align_one. split.
  - rewrite dumps_app, dumps_repeat1. lia.
  - exists (Z.to_nat (maxd - dumps_of a)). split; [reflexivity|lia].
Qed.

Lemma align_length arrays : List.length (align_chunk_info arrays) = List.length arrays.
Proof. unfold align_chunk_info. apply map_length. Qed.

(* ---------- which archived streams count ---------- *)
Lemma flag_source_iff stream f :
  is_flag_source stream f = true <-> f_type f = Some "sdp.flags" /\ exists l, f_src f = Some l /\ In stream l.
Proof.
  unfold is_flag_source, type_is_flags, fl_type, mem_string. rewrite andb_true_iff. split.
  - intros [Ht Hs]. destruct (f_type f) as [t|]; [|discriminate]. apply String.eqb_eq in Ht. subst t.
    split; [reflexivity|]. destruct (f_src f) as [l|]; [|discriminate]. exists l. split; [reflexivity|].
    apply existsb_exists in Hs. destruct Hs as (y & Hy & E). apply String.eqb_eq in E. subst y. exact Hy.
  - intros [Ht (l & Hl & Hin)]. rewrite Ht, Hl. split; [reflexivity|].
    apply existsb_exists. exists stream. split; [exact Hin|apply String.eqb_refl].
Qed.

(* a stream takes part in the upgrade (replaces, or is an error) iff it is of type sdp.flags and either lacks its
   sources or names the opened stream among them *)
Lemma candidate_ignored_iff stream rest f :
  candidate_status stream rest f = None <->
  f_type f <> Some "sdp.flags" \/ exists l, f_src f = Some l /\ ~ In stream l.
Proof.
  unfold candidate_status, fl_type. destruct (f_type f) as [t|].
  - destruct (String.eqb_spec t "sdp.flags") as [->|Ht].
    + destruct (f_src f) as [l|].
      * destruct (mem_string stream l) eqn:M.
        -- split.
           ++ destruct (f_info f) as [ci|]; [destruct (zs_eqb (c_rest ci) rest)|]; discriminate.
           ++ intros [H|(l' & Hl & Hn)]; [contradiction|]. injection Hl as <-. exfalso. apply Hn.
              unfold mem_string in M. apply existsb_exists in M. destruct M as (y & Hy & E).
              apply String.eqb_eq in E. subst y. exact Hy.
        -- split; [|reflexivity]. intros _. right. exists l. split; [reflexivity|]. intros Hin.
           assert (mem_string stream l = true).
           { unfold mem_string. apply existsb_exists. exists stream. split; [exact Hin|apply String.eqb_refl]. }
           congruence.
      * split; [discriminate|]. intros [H|(l' & Hl & _)]; [contradiction|discriminate].
    + split; [|reflexivity]. intros _. left. intros H. injection H as ->. contradiction.
  - split; [|reflexivity]. intros _. left. discriminate.
Qed.

(* ---------- every way of opening ---------- *)
Lemma open_dumps a b : (0 <= a)%Z ->
  dumps_of (nth 0 (align_chunk_info [[a]; [b]]) []) = Z.max a b /\
  dumps_of (nth 1 (align_chunk_info [[a]; [b]]) []) = Z.max a b.
Proof.
  intros Ha. unfold align_chunk_info, align_one, zmax_list, dumps_of.
  cbn [map fold_right nth]. split.
  - change (fold_right Z.add 0%Z ([a] ++ repeat 1%Z (Z.to_nat (Z.max (a + 0) (Z.max (b + 0) 0) - (a + 0)))))
      with (dumps_of ([a] ++ repeat 1%Z (Z.to_nat (Z.max (a + 0) (Z.max (b + 0) 0) - (a + 0))))).
    rewrite dumps_app, dumps_repeat1. unfold dumps_of. cbn [fold_right]. lia.
  - change (fold_right Z.add 0%Z ([b] ++ repeat 1%Z (Z.to_nat (Z.max (a + 0) (Z.max (b + 0) 0) - (b + 0)))))
      with (dumps_of ([b] ++ repeat 1%Z (Z.to_nat (Z.max (a + 0) (Z.max (b + 0) 0) - (b + 0))))).
    rewrite dumps_app, dumps_repeat1. unfold dumps_of. cbn [fold_right]. lia.
Qed.

(* the model of TelstateDataSource.__init__ (with the GENERATED condition under which chunk info is consulted)
   agrees with the spec for every mode of opening and every archived list *)
Lemma open_spec m stream cur archived : (0 <= c_dumps cur)%Z ->
  open_source m stream cur archived = spec_open m stream cur archived.
Proof.
  intros H. unfold open_source, spec_open, ds_reads_chunk_info, has_ts. rewrite flags_upgrade_rule.
  destruct (m_store m), (m_ts m) as [k|]; cbn [orb negb]; try reflexivity;
    (destruct (upgrade_on m); [destruct (spec_upgrade stream cur archived) as [c|e]|]; try reflexivity;
     cbv zeta;
     match goal with |- context [align_chunk_info [[?a]; [?b]]] => destruct (open_dumps a b H) as [E0 E1]; rewrite ?E0, ?E1 end;
     reflexivity).
Qed.

(* however it is opened (with or without a chunk store, timestamps given or synthesised - except the single case
   in which nothing at all is derived from the streams: no data and timestamps given), an incompatible flag
   stream is an error and the data set spans the longer of the opened stream and its replacement flags *)
Lemma span_however_opened u stream cur archived : (0 <= c_dumps cur)%Z ->
  forall s t, s = true \/ t = None ->
  open_source (mkMode s u t) stream cur archived =
  match (if match u with Some b => b | None => ds_upgrade_default end
         then spec_upgrade stream cur archived else Ok cur) with
  | Err e => Err e
  | Ok c => let n := Z.max (c_dumps cur) (c_dumps c) in
            Ok (mkOpened (match t with Some k => k | None => n end) (if s then Some (n, c_id c, c_from c) else None))
  end.
Proof.
  intros H s t Hst. rewrite open_spec by exact H. unfold spec_open, upgrade_on. cbn [m_store m_ts m_upgrade].
  destruct s, t as [k|]; try reflexivity. destruct Hst; discriminate.
Qed.

(* the excluded case: a metadata-only source with explicit timestamps derives nothing from the streams *)
Lemma meta_explicit_ignores_streams u k stream cur archived :
  open_source (mkMode false u (Some k)) stream cur archived = Ok (mkOpened k None).
Proof. reflexivity. Qed.

(* ---------- the whole path from the telstate ---------- *)
Definition dumps_nonneg (vals : vtable) : Prop := forall d rest hp, In (AInfo d rest hp) vals -> (0 <= d)%Z.

Lemma aget_in st vals ps k id v : aget st vals ps k = Some (id, v) -> In v vals.
Proof.
  unfold aget. destruct (lookup st ps k) as [i|]; [|discriminate].
  destruct (nth_error vals (Z.to_nat i)) as [x|] eqn:E; [|discriminate].
  intros Hx. injection Hx as _ <-. eapply nth_error_In; eauto.
Qed.

Lemma fstream_of_with_spec st vals base cb s :
  fstream_of_with view_capture_stream_on st vals base cb s = fstream_of_with spec_prefixes_on st vals base cb s.
Proof. unfold fstream_of_with. destruct (chain_of st vals s); [|reflexivity]. rewrite prefix_order_on. reflexivity. Qed.

Lemma info_of_dumps st vals ps k c : dumps_nonneg vals -> info_of st vals ps k = Some (Some c) -> (0 <= c_dumps c)%Z.
Proof.
  intros Hv. unfold info_of. destruct (aget st vals ps k) as [[id [x|x|d rest hp|]]|] eqn:E; try discriminate.
  assert (0 <= d)%Z by (apply (Hv d rest hp); eapply aget_in; eauto).
  destruct hp; [intros H0; injection H0 as <-; exact H|].
  destruct (aget st vals ps ci_prefix_key) as [[nid v]|]; [|discriminate]. intros H0; injection H0 as <-; exact H.
Qed.

Lemma open_telstate_spec m st vals cb stream : dumps_nonneg vals ->
  open_telstate m st vals cb stream = spec_open_telstate m st vals cb stream.
Proof.
  intros Hv. unfold open_telstate, spec_open_telstate, open_telstate_with.
  destruct (chain_of st vals stream) as [streams|]; [|reflexivity].
  rewrite prefix_order_on.
  destruct (negb (check_stream_type (astr (aget st vals (spec_prefixes_on [""] cb streams) l0_type_key)))); [reflexivity|].
  destruct (ds_reads_chunk_info (m_store m) (has_ts m)).
  - destruct (info_of st vals (spec_prefixes_on [""] cb streams) ds_chunk_info_key) as [[cur|]|] eqn:E; try reflexivity.
    rewrite (map_ext _ _ (fstream_of_with_spec st vals (spec_prefixes_on [""] cb streams) cb)).
    destruct (if upgrade_on m then _ else _) as [fs|]; [|reflexivity].
    apply open_spec. eapply info_of_dumps; eauto.
  - apply open_spec. cbn [c_dumps]. lia.
Qed.

Lemma open_url_spec m st vals kwcb urlcb kwsn urlsn : dumps_nonneg vals ->
  open_url m st vals kwcb urlcb kwsn urlsn = spec_open_url m st vals kwcb urlcb kwsn urlsn.
Proof.
  intros Hv. unfold open_url, spec_open_url, open_url_with.
  destruct (resolve_id kwcb urlcb _) as [cb|]; [|reflexivity].
  destruct (resolve_id kwsn urlsn _) as [sn|]; [|reflexivity].
  rewrite open_telstate_spec by exact Hv. reflexivity.
Qed.

Example nonvacuous_c18 :
  chain [mkEntry "s_inherit" false 1] (names_of ["s"; "base"]) 3 "s" = Some ["s"; "base"]
  /\ view_capture_stream "cb" ["s"; "base"] = ["cb_s_"; "cb_base_"; "cb_"; "s_"; "base_"; ""]
  /\ align_chunk_info [[2; 2]%Z; [3]%Z] = [[2; 2]%Z; [3; 1]%Z].
Proof. repeat split; reflexivity. Qed.

(* a telstate with an L0 stream of 3 dumps and an archived flag stream of 5: opened as metadata only it has 5
   timestamps, opened with data 5 dumps of the flag stream's flags; with the upgrade disabled 3 *)
Definition ex_vals : vtable :=
  [AStr "cb"; AStr "l0"; AStr "sdp.vis"; AInfo 3 [4; 12]%Z true; AStrs ["l0"; "fl"]; AStr "sdp.flags"; AStrs ["l0"];
   AInfo 5 [4; 12]%Z false; AStr "cb-fl"].
Definition ex_store : store :=
  [mkEntry "capture_block_id" false 0; mkEntry "stream_name" false 1; mkEntry "l0_stream_type" false 2;
   mkEntry "cb_l0_chunk_info" false 3; mkEntry "sdp_archived_streams" false 4; mkEntry "fl_stream_type" false 5;
   mkEntry "fl_src_streams" false 6; mkEntry "cb_fl_chunk_info" false 7; mkEntry "cb_fl_chunk_name" false 8].
Example nonvacuous_open :
  open_url (mkMode false None None) ex_store ex_vals None None None None = Ok ("cb", "l0", mkOpened 5 None)
  /\ open_url (mkMode true None None) ex_store ex_vals None None None None = Ok ("cb", "l0", mkOpened 5 (Some (5, 7, 8)%Z))
  /\ open_url (mkMode false (Some false) None) ex_store ex_vals None None None None = Ok ("cb", "l0", mkOpened 3 None)
  /\ open_url (mkMode true None None) ex_store ex_vals None None (Some "fl") None = Err 3.
Proof. repeat split; vm_compute; reflexivity. Qed.

(* ---------- unreadable sources, entry point by entry point ---------- *)
Lemma ods_id {A} (r : res A) : ods r = r.
Proof.
  destruct r as [a|e]; [reflexivity|]. unfold ods, ods_catches, ods_raises. cbn [existsb orb].
  change (exn_code "DataSourceNotFound") with 5%Z.
  destruct (Z.eqb_spec 5 e) as [<-|_]; reflexivity.
Qed.

Lemma open_how_spec h scheme l m st vals kwcb urlcb kwsn urlsn : dumps_nonneg vals ->
  open_how h scheme l m st vals kwcb urlcb kwsn urlsn = spec_open_how h scheme l m st vals kwcb urlcb kwsn urlsn.
Proof.
  intros Hv. unfold open_how, open_how_with, spec_open_how.
  assert (F : match load_source scheme l with
              | Err e => Err e
              | Ok _ => open_url m st vals kwcb urlcb kwsn urlsn
              end =
              if String.eqb scheme "file" then
                match l with
                | Loaded => spec_open_url m st vals kwcb urlcb kwsn urlsn
                | Raises x => if (String.eqb x "OSError" || String.eqb x "RdbParseError")%bool then Err 5 else Err (exn_code x)
                end
              else if mem_string scheme ["redis"; "http"; "https"] then Err 9 else Err 5).
  { unfold load_source, src_file_scheme, src_schemes, src_load_caught, src_load_raises, src_unknown_raises.
    destruct (String.eqb scheme "file") eqn:E.
    - destruct l as [|x]; [apply open_url_spec; exact Hv|].
      unfold mem_string. cbn [existsb]. rewrite orb_false_r.
      destruct (String.eqb x "OSError" || String.eqb x "RdbParseError")%bool; reflexivity.
    - unfold mem_string. cbn [existsb]. rewrite E. cbn [orb].
      destruct (String.eqb scheme "redis" || (String.eqb scheme "http" || (String.eqb scheme "https" || false)))%bool; reflexivity. }
  destruct h as [| |[|] [|]]; unfold open_is_v4; cbn [orb]; rewrite ?ods_id; try exact F. reflexivity.
Qed.

(* an unreadable file is "not found" through every entry point, whatever else is asked for *)
Lemma unreadable_not_found h l m st vals kwcb urlcb kwsn urlsn :
  (l = Raises "OSError" \/ l = Raises "RdbParseError") ->
  (forall e s, h = HOpen e s -> (e || s)%bool = true) ->
  open_how h "file" l m st vals kwcb urlcb kwsn urlsn = Err 5.
Proof.
  intros Hl Hh. unfold open_how, open_how_with.
  assert (F : load_source "file" l = Err 5) by (destruct Hl as [->| ->]; reflexivity).
  rewrite F. destruct h as [| |e s]; [reflexivity|reflexivity|].
  unfold open_is_v4. rewrite (Hh e s eq_refl). reflexivity.
Qed.

Lemma unknown_scheme_not_found h scheme l m st vals kwcb urlcb kwsn urlsn :
  ~ In scheme ["file"; "redis"; "http"; "https"] ->
  (forall e s, h = HOpen e s -> (e || s)%bool = true) ->
  open_how h scheme l m st vals kwcb urlcb kwsn urlsn = Err 5.
Proof.
  intros Hs Hh. unfold open_how, open_how_with.
  assert (F : load_source scheme l = Err 5).
  { unfold load_source, src_file_scheme, src_schemes, src_unknown_raises.
    destruct (String.eqb_spec scheme "file") as [->|_]; [exfalso; apply Hs; left; reflexivity|].
    destruct (mem_string scheme ["file"; "redis"; "http"; "https"]) eqn:M; [|reflexivity].
    exfalso. apply Hs. unfold mem_string in M. apply existsb_exists in M. destruct M as (y & Hy & E).
    apply String.eqb_eq in E. subst y. exact Hy. }
  rewrite F. destruct h as [| |e s]; [reflexivity|reflexivity|].
  unfold open_is_v4. rewrite (Hh e s eq_refl). reflexivity.
Qed.

(* what must NOT change: a source that can be read is never reported as not found, and open_data_source /
   katdal.open hand on exactly what from_url gives (value or error class) *)
Lemma open_source_err m stream cur ar e : open_source m stream cur ar = Err e -> (e = 1 \/ e = 2 \/ e = 4)%Z.
Proof.
  unfold open_source. destruct (ds_reads_chunk_info (m_store m) (has_ts m)).
  - destruct (upgrade_on m).
    + destruct (upgrade_flags stream cur ar) as [c|x] eqn:U; [discriminate|].
      intros H. injection H as <-. destruct (upgrade_err _ _ _ _ U); auto.
    + discriminate.
  - destruct (m_store m); [intros H; injection H as <-; auto|].
    destruct (m_ts m); [discriminate|intros H; injection H as <-; auto].
Qed.

Lemma open_url_err m st vals kwcb urlcb kwsn urlsn e :
  open_url m st vals kwcb urlcb kwsn urlsn = Err e -> (e = 1 \/ e = 2 \/ e = 3 \/ e = 4 \/ e = 9)%Z.
Proof.
  unfold open_url, open_url_with.
  destruct (resolve_id kwcb urlcb _) as [cb|]; [|intros H; injection H as <-; auto].
  destruct (resolve_id kwsn urlsn _) as [sn|]; [|intros H; injection H as <-; auto].
  destruct (open_telstate m st vals cb sn) as [o|x] eqn:O; [discriminate|].
  intros H. injection H as <-. revert O. unfold open_telstate, open_telstate_with.
  destruct (chain_of st vals sn) as [streams|]; [|intros H; injection H as <-; auto].
  destruct (negb _); [intros H; injection H as <-; auto|].
  destruct (ds_reads_chunk_info _ _).
  - destruct (info_of st vals _ ds_chunk_info_key) as [[cur|]|]; try (intros H; injection H as <-; auto).
    destruct (if upgrade_on m then _ else _) as [fs|]; [|intros H; injection H as <-; auto].
    intros H. destruct (open_source_err _ _ _ _ _ H) as [?|[?|?]]; auto.
  - intros H. destruct (open_source_err _ _ _ _ _ H) as [?|[?|?]]; auto.
Qed.

Lemma readable_never_not_found h m st vals kwcb urlcb kwsn urlsn :
  (forall e s, h = HOpen e s -> (e || s)%bool = true) ->
  open_how h "file" Loaded m st vals kwcb urlcb kwsn urlsn = open_url m st vals kwcb urlcb kwsn urlsn
  /\ open_how h "file" Loaded m st vals kwcb urlcb kwsn urlsn <> Err 5.
Proof.
  intros Hh.
  assert (E : open_how h "file" Loaded m st vals kwcb urlcb kwsn urlsn = open_url m st vals kwcb urlcb kwsn urlsn).
  { unfold open_how, open_how_with. change (load_source "file" Loaded) with (@Ok unit tt).
    destruct h as [| |e s]; rewrite ?ods_id; try reflexivity.
    unfold open_is_v4. rewrite (Hh e s eq_refl). reflexivity. }
  split; [exact E|]. rewrite E. intros H. destruct (open_url_err _ _ _ _ _ _ _ _ H) as [?|[?|[?|[?|?]]]]; discriminate.
Qed.

(* ---------- _relative_view ---------- *)
Lemma relative_view_order ps name : ps <> [] -> relative_view ps name = Some (spec_relative_view ps name).
Proof.
  intros Hne. unfold relative_view, spec_relative_view, rv_exclusive, rv_reversed, view.
  destruct (rev ps) as [|last before] eqn:R.
  - exfalso. apply Hne. rewrite <- (rev_involutive ps), R. reflexivity.
  - f_equal. rewrite (fold_cons (fun p => ((p ++ name) ++ sep)%string) before).
    rewrite <- (rev_involutive ps), R. cbn [rev]. rewrite map_app, map_rev. reflexivity.
Qed.

(* an attribute k of stream [name] seen through the relative view = the attribute <name>_k seen through the view
   itself: it comes from the most specific namespace of the opened stream that defines it *)
Lemma relative_lookup st name k : forall ps,
  lookup st (spec_relative_view ps name) k = lookup st ps (name ++ sep ++ k)%string.
Proof.
  unfold spec_relative_view. induction ps as [|p ps IH]; [reflexivity|]. cbn [map lookup].
  rewrite !sapp_assoc, IH. reflexivity.
Qed.

Example nonvacuous_sources :
  open_how (HOpen true false) "file" (Raises "RdbParseError") (mkMode true None None) ex_store ex_vals None None None None = Err 5
  /\ open_how HFromUrl "ftp" Loaded (mkMode true None None) ex_store ex_vals None None None None = Err 5
  /\ open_how HOds "file" Loaded (mkMode true None None) ex_store ex_vals None None (Some "fl") None = Err 3
  /\ open_how (HOpen true false) "file" Loaded (mkMode false None None) ex_store ex_vals None None None None
     = Ok ("cb", "l0", mkOpened 5 None)
  /\ relative_view ["cb_l0_"; "cb_"; "l0_"; ""] "cal" = Some ["cb_l0_cal_"; "cb_cal_"; "l0_cal_"; "cal_"].
Proof. repeat split; vm_compute; reflexivity. Qed.

(* sensors: the six namespaces of a stream inheriting base; "foo" defined in the stream namespace and (later in key
   order) in the capture block namespace: the capture block wins although its key is shorter and sorts first;
   an immutable key and a key equal to a prefix are no sensors *)
Example nonvacuous_sensors :
  let ps := spec_prefixes "cb" ["s"; "base"] in
  let st := [mkEntry "cb_" true 9; mkEntry "cb_foo" true 1; mkEntry "cb_s_bar" false 2; mkEntry "s_foo" true 3; mkEntry "zz" true 4] in
  sensor_key ps st "foo" = Some "cb_foo" /\ spec_sensor st ps "foo" = Some "cb_foo"
  /\ sensor_key ps st "bar" = None /\ sensor_key ps st "zz" = Some "zz" /\ sensor_names ps st = ["zz"; "foo"]
  /\ rank_in_code ps "cb_foo" "foo" = Some 2%nat.
Proof. repeat split; vm_compute; reflexivity. Qed.

(* flag streams: a matching one with the wrong shape after a good one is still an error; a flags stream without its
   sources is a KeyError; streams of other types are ignored *)
Example nonvacuous_flags :
  let good := mkF (Some "sdp.flags") (Some ["l0"]) (Some (mkC 7 5 [4; 12]%Z 7)) in
  let bad := mkF (Some "sdp.flags") (Some ["x"; "l0"]) (Some (mkC 8 5 [4; 8]%Z 8)) in
  let nosrc := mkF (Some "sdp.flags") None (Some (mkC 9 5 [4; 12]%Z 9)) in
  let other := mkF (Some "sdp.cal") None None in
  upgrade_flags "l0" (mkC 3 3 [4; 12]%Z 3) [other; good; other] = Ok (mkC 7 5 [4; 12]%Z 7)
  /\ upgrade_flags "l0" (mkC 3 3 [4; 12]%Z 3) [good; bad] = Err 1
  /\ upgrade_flags "l0" (mkC 3 3 [4; 12]%Z 3) [nosrc; bad] = Err 2
  /\ upgrade_flags "l0" (mkC 3 3 [4; 12]%Z 3) [other] = Ok (mkC 3 3 [4; 12]%Z 3).
Proof. repeat split; vm_compute; reflexivity. Qed.

(* F-C18x-1 (repaired): the pinned loop asked the VIEW for the type of the full key, which resolves it through the
   prefixes once more: with an attribute cb_s_foo (immutable) the sensor s_foo was taken for immutable ("cb_" ++
   "s_foo" exists) and dropped, and through an exclusive view no key was a sensor at all *)
Lemma sensor_type_refuted_before_fix :
  let ps := spec_prefixes "cb" ["s"] in
  let st := [mkEntry "cb_s_foo" false 1; mkEntry "s_foo" true 2] in
  spec_sensor st ps "foo" = Some "s_foo" /\ sensor_key_viewtyped ps st "foo" = None /\ sensor_key ps st "foo" = Some "s_foo"
  /\ sensor_key_viewtyped ["cb_s_"; "cb_"; "s_"] [mkEntry "s_foo" true 2] "foo" = None
  /\ sensor_key ["cb_s_"; "cb_"; "s_"] [mkEntry "s_foo" true 2] "foo" = Some "s_foo".
Proof. repeat split; vm_compute; reflexivity. Qed.

(* ---------- laws ---------- *)
(* the archived list can be processed piecewise: the outcome after a ++ b is the outcome of b started from the
   outcome of a (an error stops everything) *)
Lemma upgrade_composes stream : forall a b cur,
  upgrade_flags stream cur (a ++ b) =
  match upgrade_flags stream cur a with Ok c => upgrade_flags stream c b | Err e => Err e end.
Proof.
  induction a as [|f fs IH]; intros b cur; [reflexivity|]. cbn [app upgrade_flags].
  destruct (type_is_flags f); [|apply IH].
  destruct (f_src f) as [src|]; [|reflexivity].
  destruct (mem_string stream src); [|apply IH].
  destruct (f_info f) as [ci|]; [|reflexivity].
  destruct (zs_eqb (c_rest ci) (c_rest cur)); [apply IH|reflexivity].
Qed.

(* stacking views = falling back: what the first prefixes do not define is looked up in the rest (a candidate's
   attribute that none of its own namespaces defines is the opened stream's) *)
Lemma lookup_app st k : forall ps1 ps2,
  lookup st (ps1 ++ ps2) k = match lookup st ps1 k with Some v => Some v | None => lookup st ps2 k end.
Proof.
  induction ps1 as [|p ps1 IH]; intros ps2; [reflexivity|]. cbn [app lookup].
  destruct (find_key st (p ++ k)%string); [reflexivity|apply IH].
Qed.

(* upgrade_flags=False: the archived streams are not even looked at - no error, own flags, own number of dumps *)
Lemma upgrade_disabled s t stream cur archived : (0 <= c_dumps cur)%Z -> s = true \/ t = None ->
  open_source (mkMode s (Some false) t) stream cur archived =
  Ok (mkOpened (match t with Some k => k | None => c_dumps cur end)
               (if s then Some (c_dumps cur, c_id cur, c_from cur) else None)).
Proof.
  intros H Hst. rewrite (span_however_opened (Some false) stream cur archived H s t Hst). cbv zeta.
  rewrite Z.max_id. reflexivity.
Qed.

(* aligning twice changes nothing *)
Lemma zmax_nonneg l : (0 <= zmax_list l)%Z.
Proof. unfold zmax_list. induction l as [|x l IH]; cbn [fold_right]; lia. Qed.
Lemma zmax_const m l : l <> [] -> (0 <= m)%Z -> (forall x, In x l -> x = m) -> zmax_list l = m.
Proof.
  unfold zmax_list. induction l as [|x l IH]; intros Hne Hm Hall; [contradiction|]. cbn [fold_right].
  rewrite (Hall x (or_introl eq_refl)). destruct l as [|y l].
  - cbn [fold_right]. lia.
  - rewrite IH; [lia|discriminate|exact Hm|intros z Hz; apply Hall; right; exact Hz].
Qed.
Lemma align_idempotent arrays : align_chunk_info (align_chunk_info arrays) = align_chunk_info arrays.
Proof.
  destruct arrays as [|a0 rest]; [reflexivity|]. set (arrays := a0 :: rest).
  unfold align_chunk_info at 1. set (al := align_chunk_info arrays).
  assert (Hd : forall a, In a al -> dumps_of a = zmax_list (map dumps_of arrays)).
  { intros a Ha. unfold al, align_chunk_info in Ha. apply in_map_iff in Ha. destruct Ha as (b & <- & Hb).
    apply (align_spans_longer arrays b Hb). }
  assert (Hm : zmax_list (map dumps_of al) = zmax_list (map dumps_of arrays)).
  { apply zmax_const.
    - unfold al, align_chunk_info, arrays. discriminate.
    - apply zmax_nonneg.
    - intros x Hx. apply in_map_iff in Hx. destruct Hx as (a & <- & Ha). apply Hd. exact Ha. }
  rewrite Hm. rewrite <- (map_id al) at 2. apply map_ext_in. intros a Ha. unfold align_one.
  rewrite (Hd a Ha), Z.sub_diag. cbn [Z.to_nat repeat]. apply app_nil_r.
Qed.

Example nonvacuous_laws :
  upgrade_flags "l0" (mkC 3 3 [4]%Z 3) ([mkF (Some "sdp.flags") (Some ["l0"]) (Some (mkC 7 5 [4]%Z 7))] ++
                                        [mkF (Some "sdp.flags") (Some ["l0"]) (Some (mkC 8 2 [4]%Z 8))]) = Ok (mkC 8 2 [4]%Z 8)
  /\ lookup [mkEntry "b_k" false 2] (["a_"] ++ ["b_"]) "k" = Some 2%Z
  /\ open_source (mkMode true (Some false) None) "l0" (mkC 3 3 [4]%Z 3) [mkF (Some "sdp.flags") (Some ["l0"]) (Some (mkC 8 2 [9]%Z 8))]
     = Ok (mkOpened 3 (Some (3, 3, 3)%Z))
  /\ align_chunk_info (align_chunk_info [[2; 2]; [3]; []]%Z) = [[2; 2]; [3; 1]; [1; 1; 1; 1]]%Z.
Proof. repeat split; vm_compute; reflexivity. Qed.
