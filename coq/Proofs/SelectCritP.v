(* C02: what each criterion keeps (per-criterion characterisations of the masks computed by `crit`). *)
From Coq Require Import ZArith List Bool String Ascii Lia PeanoNat.
From KV Require Import Base.Sx Base.Str Base.SelSlice Gen.Generated Model.Select Proofs.SelectBaseP Proofs.SelectP.
Import ListNotations.
Open Scope Z_scope.

Lemma nth_map_true : forall (A : Type) (f : A -> bool) l i,
  nth i (map f l) false = true <-> exists x, nth_error l i = Some x /\ f x = true.
Proof.
  induction l as [|a l IH]; intros [|i]; simpl.
  - split; [discriminate | intros [x [H _]]; discriminate].
  - split; [discriminate | intros [x [H _]]; discriminate].
  - split; [intro H; exists a; auto | intros [x [H1 H2]]; inversion H1; subst; auto].
  - apply IH.
Qed.

Lemma nth_map_all_false : forall (A : Type) (f : A -> bool) l i,
  (forall x, In x l -> f x = false) -> nth i (map f l) false = false.
Proof.
  intros A f l i H. destruct (nth i (map f l) false) eqn:E; auto.
  apply nth_map_true in E. destruct E as [x [H1 H2]]. apply nth_error_In in H1. rewrite (H x H1) in H2. discriminate.
Qed.

Lemma nth_map_orb : forall (A : Type) (f g : A -> bool) l i,
  nth i (map (fun x => f x || g x) l) false = nth i (map f l) false || nth i (map g l) false.
Proof. induction l as [|a l IH]; intros [|i]; simpl; auto. Qed.

Lemma memZ_In : forall x l, memZ x l = true <-> In x l.
Proof.
  intros x l. unfold memZ. rewrite existsb_exists. split.
  - intros [y [H1 H2]]. apply Z.eqb_eq in H2. subst. exact H1.
  - intro H. exists x. split; auto. apply Z.eqb_refl.
Qed.

Lemma memZ_false : forall x l, ~ In x l -> memZ x l = false.
Proof. intros x l H. destruct (memZ x l) eqn:E; auto. apply memZ_In in E. contradiction. Qed.

(* ---- timerange / freqrange keep exactly the dumps / channels lying wholly inside the range *)
Lemma timerange_wholly_inside : forall o lo hi i,
  crit o "timerange" (VRange lo hi) = CMask DT (timerange_mask o lo hi) /\
  (nth i (timerange_mask o lo hi) false = true <->
   exists d, nth_error (o_dumps o) i = Some d /\ lo <= d_ts d - o_half o /\ d_ts d + o_half o <= hi).
Proof.
  intros. split; [reflexivity|]. unfold timerange_mask. rewrite nth_map_true.
  split; intros [d [H1 H2]]; exists d; split; auto.
  - apply andb_true_iff in H2. destruct H2 as [A B]. apply Z.leb_le in A. apply Z.leb_le in B. lia.
  - apply andb_true_iff. split; apply Z.leb_le; lia.
Qed.

Lemma freqrange_wholly_inside : forall o lo hi i,
  crit o "freqrange" (VRange lo hi) = CMask DF (freqrange_mask o lo hi) /\
  (nth i (freqrange_mask o lo hi) false = true <->
   exists f, nth_error (o_freqs o) i = Some f /\ lo <= f - o_halfw o /\ f + o_halfw o <= hi).
Proof.
  intros. split; [reflexivity|]. unfold freqrange_mask. rewrite nth_map_true.
  split; intros [d [H1 H2]]; exists d; split; auto.
  - apply andb_true_iff in H2. destruct H2 as [A B]. apply Z.leb_le in A. apply Z.leb_le in B. lia.
  - apply andb_true_iff. split; apply Z.leb_le; lia.
Qed.

(* ---- '~name' keeps exactly the dumps that 'name' drops *)
Lemma tilde_negates : forall o id,
  scans_mask o [SNot id] = map negb (scans_mask o [SName id]) /\
  compscans_mask o [SNot id] = map negb (compscans_mask o [SName id]).
Proof.
  intros. unfold scans_mask, compscans_mask. rewrite !map_map.
  split; apply map_ext; intro d; simpl; rewrite !orb_false_r; reflexivity.
Qed.

(* ---- scans / compscans by index or name: what one item keeps *)
Lemma scans_item : forall o it i,
  nth i (scans_mask o [it]) false = true <->
  exists d, nth_error (o_dumps o) i = Some d /\
            match it with SIdx z => d_scan d = z | SName id => d_state d = id | SNot id => d_state d <> id end.
Proof.
  intros. unfold scans_mask. rewrite nth_map_true.
  split; intros [d [H1 H2]]; exists d; split; auto; simpl in *; rewrite ?orb_false_r in *; destruct it; simpl in *.
  - apply Z.eqb_eq; auto.
  - apply Z.eqb_eq; auto.
  - apply negb_true_iff in H2. apply Z.eqb_neq; auto.
  - apply Z.eqb_eq; auto.
  - apply Z.eqb_eq; auto.
  - apply negb_true_iff. apply Z.eqb_neq; auto.
Qed.

(* ---- unknown target names / tags select nothing *)
Lemma unknown_target_selects_nothing : forall o id i,
  (forall t, In t (o_targets o) -> ~ In id (t_names t)) ->
  nth i (targets_mask o [TName id]) false = false.
Proof.
  intros o id i H. unfold targets_mask, target_indices. simpl. rewrite app_nil_r.
  assert (E : filter (fun p : Z * target => memZ id (t_names (snd p))) (enum_targets o) = []).
  { assert (G : forall l : list (Z * target), (forall p, In p l -> In (snd p) (o_targets o)) ->
                 filter (fun p : Z * target => memZ id (t_names (snd p))) l = []).
    { induction l as [|p l IH]; intro Hl; simpl; auto.
      rewrite (memZ_false id _ (H _ (Hl p (or_introl eq_refl)))). apply IH. intros q Hq. apply Hl. right. exact Hq. }
    apply G. intros [z t] Hp. unfold enum_targets in Hp. apply in_combine_r in Hp. exact Hp. }
  rewrite E. simpl. apply nth_map_all_false. reflexivity.
Qed.

Lemma unknown_tag_selects_nothing : forall o tag i,
  ~ In tag (flat_map t_tags (o_targets o)) -> nth i (tags_mask o [tag]) false = false.
Proof.
  intros o tag i H. unfold tags_mask. cbn [filter]. rewrite (memZ_false _ _ H).
  assert (E : forall tags, existsb (fun t : Z => memZ t []) tags = false) by (induction tags; simpl; auto).
  apply nth_map_all_false. intros d _.
  induction (enum_targets o) as [|p l IH]; cbn [existsb]; auto.
  rewrite E, IH. reflexivity.
Qed.

(* ---- items inside one criterion are ORed *)
Lemma or_within_scans : forall o a b i,
  nth i (scans_mask o (a ++ b)) false = nth i (scans_mask o a) false || nth i (scans_mask o b) false.
Proof.
  intros. unfold scans_mask. rewrite <- nth_map_orb. f_equal. apply map_ext. intro d. apply existsb_app.
Qed.

Lemma or_within_compscans : forall o a b i,
  nth i (compscans_mask o (a ++ b)) false = nth i (compscans_mask o a) false || nth i (compscans_mask o b) false.
Proof.
  intros. unfold compscans_mask. rewrite <- nth_map_orb. f_equal. apply map_ext. intro d. apply existsb_app.
Qed.

Lemma or_within_targets : forall o a b i,
  nth i (targets_mask o (a ++ b)) false = nth i (targets_mask o a) false || nth i (targets_mask o b) false.
Proof.
  intros. unfold targets_mask, target_indices. rewrite flat_map_app. rewrite <- nth_map_orb. f_equal.
  apply map_ext. intro d. unfold memZ. apply existsb_app.
Qed.

Lemma existsb_orb : forall (A : Type) (f g : A -> bool) l,
  existsb (fun x => f x || g x) l = existsb f l || existsb g l.
Proof.
  induction l as [|a l IH]; simpl; auto. rewrite IH.
  destruct (f a), (g a), (existsb f l), (existsb g l); reflexivity.
Qed.

Lemma existsb_ext' : forall (A : Type) (f g : A -> bool) l, (forall x, f x = g x) -> existsb f l = existsb g l.
Proof. intros A f g l H. induction l; simpl; congruence. Qed.

Lemma or_within_tags : forall o a b i,
  nth i (tags_mask o (a ++ b)) false = nth i (tags_mask o a) false || nth i (tags_mask o b) false.
Proof.
  intros. unfold tags_mask. rewrite filter_app. rewrite <- nth_map_orb. f_equal. apply map_ext. intro d.
  rewrite <- existsb_orb. apply existsb_ext'. intro p.
  rewrite <- andb_orb_distrib_l. f_equal. rewrite <- existsb_orb. apply existsb_ext'. intro t.
  unfold memZ. apply existsb_app.
Qed.

(* ---- ants: membership of both antennas, or (all names with a tilde) of neither *)
Lemma ants_membership : forall o l i, is_deselection l = false ->
  (nth i (ants_mask o l) false = true <->
   exists cp, nth_error (o_cps o) i = Some cp /\
              In (ant_of (fst cp)) (map snd (filter (fun a => negb (fst a)) l)) /\
              In (ant_of (snd cp)) (map snd (filter (fun a => negb (fst a)) l))).
Proof.
  intros o l i H. unfold ants_mask. rewrite H. rewrite nth_map_true.
  split; intros [cp [H1 H2]]; exists cp; split; auto.
  - apply andb_true_iff in H2. destruct H2 as [A B]. split; apply memZ_In; assumption.
  - destruct H2 as [A B]. apply andb_true_iff. split; apply memZ_In; assumption.
Qed.

Lemma ants_all_tilde_complement : forall o l i, is_deselection l = true ->
  (nth i (ants_mask o l) false = true <->
   exists cp, nth_error (o_cps o) i = Some cp /\
              ~ In (ant_of (fst cp)) (map snd l) /\ ~ In (ant_of (snd cp)) (map snd l)).
Proof.
  intros o l i H. unfold ants_mask. rewrite H. rewrite nth_map_true.
  split; intros [cp [H1 H2]]; exists cp; split; auto.
  - apply andb_true_iff in H2. destruct H2 as [A B]. apply negb_true_iff in A. apply negb_true_iff in B.
    split; intro C; apply memZ_In in C; congruence.
  - destruct H2 as [A B]. apply andb_true_iff. split; apply negb_true_iff; apply memZ_false; assumption.
Qed.

(* ---- pol: 'h' means 'hh', 'v' means 'vv' *)
Lemma pol_h_is_hh : forall o,
  pol_mask o [POne 0] = pol_mask o [PTwo 0 0] /\ pol_mask o [POne 1] = pol_mask o [PTwo 1 1].
Proof. intro o. split; reflexivity. Qed.

Lemma pol_item : forall o p q i,
  exists m, pol_mask o [PTwo p q] = Some m /\
  (nth i m false = true <->
   exists cp, nth_error (o_cps o) i = Some cp /\ pol_of (fst cp) = p /\ pol_of (snd cp) = q).
Proof.
  intros. eexists. split; [reflexivity|]. rewrite nth_map_true.
  split; intros [cp [H1 H2]]; exists cp; split; auto.
  - simpl in H2. rewrite orb_false_r in H2. apply andb_true_iff in H2. destruct H2 as [A B].
    apply Z.eqb_eq in A. apply Z.eqb_eq in B. auto.
  - simpl. rewrite orb_false_r. destruct H2 as [A B]. apply andb_true_iff. split; apply Z.eqb_eq; assumption.
Qed.

(* ---- corrprods 'auto' / 'cross' *)
Lemma auto_cross : forall o,
  corrprods_mask o VCross = option_map (map negb) (corrprods_mask o VAuto).
Proof. intro o. simpl. rewrite map_map. reflexivity. Qed.

(* ---- dumps / channels / corrprods by slice start:stop (unit step, bounds inside the axis) *)
Lemma slice_unit_step : forall n a b i, 0 <= a <= Z.of_nat n -> 0 <= b <= Z.of_nat n ->
  exists m, index_mask n (IxSlice (Some a) (Some b) None) = Some m /\
            (nth i m false = true <-> (i < n)%nat /\ a <= Z.of_nat i < b).
Proof.
  intros n a b i Ha Hb. unfold index_mask, slice_adjust. simpl.
  assert (Ea : (a <? 0) = false) by (apply Z.ltb_ge; lia). rewrite Ea.
  assert (Eb : (b <? 0) = false) by (apply Z.ltb_ge; lia). rewrite Eb.
  eexists. split; [reflexivity|]. rewrite nth_map_true. unfold zpos. split.
  - intros [x [H1 H2]]. rewrite nth_error_map in H1. destruct (nth_error (seq 0 n) i) eqn:E; [|discriminate].
    inversion H1. subst x. pose proof (nth_error_nth _ _ 0%nat E) as E2.
    assert (i < n)%nat by (rewrite <- (seq_length n 0); apply nth_error_Some; congruence).
    rewrite seq_nth in E2 by assumption. simpl in E2. subst n0. split; auto.
    unfold in_slice in H2. simpl in H2. apply andb_true_iff in H2. destruct H2 as [H2 _].
    apply andb_true_iff in H2. destruct H2 as [A B].
    destruct (Z.of_nat n <=? a) eqn:Ca; destruct (Z.of_nat n <=? b) eqn:Cb;
      apply Z.leb_le in A; apply Z.ltb_lt in B; try apply Z.leb_le in Ca; try apply Z.leb_le in Cb; lia.
  - intros [Hi Hr]. exists (Z.of_nat i). split.
    + rewrite nth_error_map. assert (E : nth_error (seq 0 n) i = Some i).
      { rewrite (nth_error_nth' _ 0%nat) by (rewrite seq_length; exact Hi). rewrite seq_nth by exact Hi. reflexivity. }
      rewrite E. reflexivity.
    + unfold in_slice. simpl.
      destruct (Z.of_nat n <=? a) eqn:Ca; destruct (Z.of_nat n <=? b) eqn:Cb;
        try apply Z.leb_le in Ca; try apply Z.leb_le in Cb; try apply Z.leb_gt in Ca; try apply Z.leb_gt in Cb;
        rewrite Z.mod_1_r; simpl; rewrite andb_true_r; apply andb_true_iff; split;
        try (apply Z.leb_le; lia); try (apply Z.ltb_lt; lia).
Qed.
