(* C12: proofs about the v4 applied_delay / applied_phase virtual sensors (Model/SensorV4.v). *)
From Coq Require Import ZArith QArith List Bool String Lia Lqa.
From KV Require Import Base.Sx Base.Str Gen.Generated Model.Interp Model.SensorCache Model.SensorV4
  Proofs.InterpP Proofs.SensorCacheP.
Import ListNotations.
Local Open Scope Q_scope.

(* a segment whose right end lies on the line through the left end with slope r *)
Lemma seg_line : forall h x0 y0 x1 y1 r t x,
  strictly_inc (h ++ (x0, y0) :: (x1, y1) :: t) -> y1 == y0 + r * (x1 - x0) -> x0 <= x -> x <= x1 ->
  interp_d (h ++ (x0, y0) :: (x1, y1) :: t) x == y0 + r * (x - x0).
Proof.
  intros h x0 y0 x1 y1 r t x H Hy Hl Hr.
  assert (H01 : x0 < x1).
  { pose proof (sinc_app_r _ _ H) as H'. simpl in H'. tauto. }
  destruct (Qlt_le_dec x x1) as [Hlt|Hge].
  - rewrite interp_between by assumption. rewrite Hy. field. lra.
  - assert (Hx : x == x1) by lra.
    rewrite (interp_at_node _ x x1 y1 H); [rewrite Hy, Hx; reflexivity| |exact Hx].
    apply in_or_app. right. right. left. reflexivity.
Qed.

Lemma eps_pos : 0 < v4_eps.
Proof. reflexivity. Qed.

(* the node list of chronological updates is strictly increasing ... *)
Lemma v4_nodes_head : forall S F fin val rate u rest,
  exists y rest', v4_nodes S F fin val rate (u :: rest) = (u_time S F u, y) :: rest'.
Proof. intros. simpl. eauto. Qed.

Lemma v4_nodes_strict : forall S F fin val rate ups, ups_ok S F fin ups ->
  strictly_inc (v4_nodes S F fin val rate ups).
Proof.
  intros S F fin val rate. induction ups as [|u rest IH]; intro H; [exact Logic.I|].
  destruct H as [H1 H2]. specialize (IH H2). pose proof eps_pos as E.
  destruct rest as [|v rest'].
  - simpl. repeat split; auto.
  - cbn [v4_nodes]. cbn [v4_nodes] in IH. split; [lra|]. split; [lra|exact IH].
Qed.

(* ... and contains, for every update, the segment from the update to just before the next one *)
Lemma v4_nodes_decomp : forall S F fin val rate pre u post,
  exists h,
    v4_nodes S F fin val rate (pre ++ u :: post) =
    h ++ (u_time S F u, val u)
      :: (match post with v :: _ => u_time S F v - v4_eps | [] => fin end,
          val u + rate u * (match post with v :: _ => u_time S F v - v4_eps | [] => fin end - u_time S F u))
      :: v4_nodes S F fin val rate post.
Proof.
  intros S F fin val rate. induction pre as [|a pre IH]; intros u post.
  - exists []. reflexivity.
  - destruct (IH u post) as [h Hh]. cbn [app v4_nodes]. rewrite Hh.
    eexists (_ :: _ :: h). reflexivity.
Qed.

(* what the extraction sees: every node time shifted by the time_offset property (default 0) *)
Definition sh (off : Q) (nodes : list node) : list node := map (fun n => (fst n + off, snd n)) nodes.

Lemma sh_strict : forall off nodes, strictly_inc nodes -> strictly_inc (sh off nodes).
Proof.
  intros off. induction nodes as [|[x y] t IH]; intro H; [exact Logic.I|].
  destruct t as [|[x1 y1] t']; simpl in *; [tauto|]. split; [lra|]. apply IH. tauto.
Qed.

(* BETWEEN two updates (and after the last one, up to final_time) the built sensor is the update's value advanced
   at the update's own rate *)
Lemma v4_piecewise : forall S F fin val rate pre u post off t,
  ups_ok S F fin (pre ++ u :: post) ->
  u_time S F u + off <= t ->
  t <= match post with v :: _ => u_time S F v - v4_eps | [] => fin end + off ->
  interp_d (sh off (v4_nodes S F fin val rate (pre ++ u :: post))) t == val u + rate u * (t - (u_time S F u + off)).
Proof.
  intros S F fin val rate pre u post off t Hok Hl Hr.
  pose proof (sh_strict off _ (v4_nodes_strict S F fin val rate _ Hok)) as Hs.
  destruct (v4_nodes_decomp S F fin val rate pre u post) as [h Hh]. rewrite Hh in *.
  unfold sh in *. rewrite map_app in *. cbn [map fst snd] in *.
  apply seg_line; try assumption. ring.
Qed.

(* before the first update the first value is held *)
Lemma v4_before_first : forall S F fin val rate u rest off t,
  ups_ok S F fin (u :: rest) -> t <= u_time S F u + off ->
  interp_d (sh off (v4_nodes S F fin val rate (u :: rest))) t == val u.
Proof.
  intros S F fin val rate u rest off t Hok Ht.
  pose proof (sh_strict off _ (v4_nodes_strict S F fin val rate _ Hok)) as Hs.
  cbn [v4_nodes sh map fst snd] in *. apply interp_left; assumption.
Qed.

(* ---- the ordinary extraction leaves a strictly increasing, status-free sample list alone ---- *)
Lemma nodes_of_shift_v4 : forall off nodes, nodes_of (shift off (v4_samples nodes)) = sh off nodes.
Proof. intros off. induction nodes as [|[x y] t IH]; simpl; [reflexivity|]. now rewrite IH. Qed.

Lemma sort_s_sorted_id : forall l, strictly_inc (nodes_of l) -> sort_s l = l.
Proof.
  induction l as [|a t IH]; intro H; [reflexivity|].
  simpl. rewrite IH by (simpl in H; destruct t; simpl in *; tauto).
  destruct t as [|b t']; [reflexivity|]. simpl in H. simpl.
  rewrite qle_true by lra. reflexivity.
Qed.

Lemma keep_last_sorted_id : forall l, strictly_inc (nodes_of l) -> keep_last l = l.
Proof.
  induction l as [|a t IH]; intro H; [reflexivity|].
  destruct t as [|b t']; [reflexivity|].
  assert (Ht : strictly_inc (nodes_of (b :: t'))) by (simpl in H; simpl; tauto).
  specialize (IH Ht). cbn [keep_last]. simpl in H.
  assert (E : Qeq_bool (s_t a) (s_t b) = false).
  { destruct (Qeq_bool (s_t a) (s_t b)) eqn:Q; [|reflexivity]. apply Qeq_bool_iff in Q. lra. }
  rewrite E. f_equal. exact IH.
Qed.

Lemma clean_sorted_id : forall l, strictly_inc (nodes_of l) -> clean false l = l.
Proof. intros l H. unfold clean. rewrite sort_s_sorted_id by exact H. now apply keep_last_sorted_id. Qed.

(* the sensor read through the cache: every dump gets the interpolation of the built nodes (as the extraction sees
   them: shifted by the default time_offset 0) *)
Lemma v4_applied_values : forall which S F ups ts fin,
  v4_final S F ups ts = Some fin -> ups_ok S F fin ups ->
  v4_applied which S F ups ts =
  XVals (map (fun t => Some (interp_d (sh (offset_of p_empty)
                                          (if which then v4_nodes S F fin u_d u_dr ups
                                           else v4_nodes S F fin u_p u_pr ups)) t)) ts).
Proof.
  intros which S F ups ts fin Hf Hok. unfold v4_applied. rewrite Hf.
  set (nodes := if which then v4_nodes S F fin u_d u_dr ups else v4_nodes S F fin u_p u_pr ups).
  assert (Hs : strictly_inc nodes) by (unfold nodes; destruct which; apply v4_nodes_strict; exact Hok).
  assert (Hne : exists n0 nt, nodes = n0 :: nt).
  { unfold nodes. destruct ups as [|u rest]; [discriminate Hf|]. destruct which; cbn [v4_nodes]; eauto. }
  destruct Hne as [n0 [nt En]].
  unfold extract_sensor, usable. cbn [g_samples g_has_status g_dtype].
  assert (Hs' : strictly_inc (nodes_of (shift (offset_of p_empty) (v4_samples nodes))))
    by (rewrite nodes_of_shift_v4; apply sh_strict; exact Hs).
  rewrite En in *. cbn [v4_samples map]. cbn [v4_samples map] in Hs'.
  rewrite (clean_sorted_id _ Hs').
  cbn [shift map]. cbn [decide_cat p_cat p_empty is_float negb].
  f_equal. pose proof (nodes_of_shift_v4 (offset_of p_empty) (n0 :: nt)) as X. cbn [v4_samples map shift] in X.
  rewrite <- X. reflexivity.
Qed.

Lemma v4_final_spec : forall S F u0 ups t0 ts,
  v4_final S F (u0 :: ups) (t0 :: ts) =
  Some (qmax (u_time S F (List.last (u0 :: ups) u0)) (List.last (t0 :: ts) t0) + v4_pad).
Proof. reflexivity. Qed.

Lemma v4_constants : v4_eps == 1 # 1000000 /\ v4_pad == 1 /\
  v4_delay_steps = ["times=sync+count/scale"; "final=max(last update,last dump)+pad"; "next_times=times[1:]-eps,final";
                    "next=value+rate*(next_times-times)"; "interleave"; "store delay and phase getters"]%string.
Proof. repeat split. Qed.

Lemma qmax_ge : forall a b, a <= qmax a b /\ b <= qmax a b.
Proof.
  intros a b. unfold qmax. destruct (Qle_bool a b) eqn:E.
  - apply Qle_bool_iff in E. lra.
  - assert (~ a <= b) by (intro X; apply Qle_bool_iff in X; congruence). lra.
Qed.

(* ---- the independent statement (latest update at or before t, advanced at its rate) picks the same update ---- *)
Lemma ups_ok_tail : forall S F fin a l, ups_ok S F fin (a :: l) -> ups_ok S F fin l.
Proof. intros S F fin a l [_ H]. exact H. Qed.

Lemma ups_ok_head_lt : forall S F fin l a, ups_ok S F fin (a :: l) ->
  forall y, In y l -> u_time S F a < u_time S F y - v4_eps.
Proof.
  intros S F fin. induction l as [|b l IH]; intros a H y Hy; [contradiction|].
  pose proof eps_pos as E. destruct H as [H1 H2]. destruct Hy as [<-|Hy]; [exact H1|].
  specialize (IH b H2 y Hy). lra.
Qed.

Lemma ups_ok_app_r : forall S F fin pre l, ups_ok S F fin (pre ++ l) -> ups_ok S F fin l.
Proof. intros S F fin. induction pre as [|a pre IH]; intros l H; [exact H|]. apply IH. exact (ups_ok_tail _ _ _ _ _ H). Qed.

Lemma ups_ok_pre_lt : forall S F fin pre u post, ups_ok S F fin (pre ++ u :: post) ->
  forall x, In x pre -> u_time S F x < u_time S F u.
Proof.
  intros S F fin. induction pre as [|a pre IH]; intros u post H x Hx; [contradiction|].
  pose proof eps_pos as E. destruct Hx as [Hx|Hx].
  - subst x. pose proof (ups_ok_head_lt S F fin (pre ++ u :: post) a H u) as X.
    assert (In u (pre ++ u :: post)) by (apply in_or_app; right; left; reflexivity). specialize (X H0). lra.
  - apply (IH u post (ups_ok_tail _ _ _ _ _ H) x Hx).
Qed.

Lemma filter_all : forall A (f : A -> bool) l, (forall x, In x l -> f x = true) -> filter f l = l.
Proof. induction l as [|a l IH]; intro H; [reflexivity|]. simpl. rewrite H by (now left). f_equal. apply IH. intros; apply H; now right. Qed.
Lemma filter_none : forall A (f : A -> bool) l, (forall x, In x l -> f x = false) -> filter f l = [].
Proof. induction l as [|a l IH]; intro H; [reflexivity|]. simpl. rewrite H by (now left). apply IH. intros; apply H; now right. Qed.

Lemma v4_spec_piecewise : forall S F fin val rate pre u post t,
  ups_ok S F fin (pre ++ u :: post) ->
  u_time S F u <= t ->
  t <= match post with v :: _ => u_time S F v - v4_eps | [] => fin end ->
  spec_applied S F val rate (pre ++ u :: post) t = Some (val u + rate u * (t - u_time S F u)).
Proof.
  intros S F fin val rate pre u post t Hok Hl Hr. pose proof eps_pos as E.
  assert (Hpast : filter (fun x => Qle_bool (u_time S F x) t) (pre ++ u :: post) = pre ++ [u]).
  { rewrite filter_app. cbn [filter]. rewrite (qle_true _ _ Hl).
    rewrite filter_all.
    2:{ intros x Hx. apply qle_true. pose proof (ups_ok_pre_lt _ _ _ _ _ _ Hok x Hx). lra. }
    rewrite filter_none; [reflexivity|].
    intros y Hy. apply qle_false.
    pose proof (ups_ok_app_r _ _ _ _ _ Hok) as Hu.
    pose proof (ups_ok_head_lt _ _ _ _ _ Hu y Hy) as Hlt.
    destruct post as [|v post']; [contradiction|].
    destruct Hy as [<-|Hy]; [lra|].
    pose proof (ups_ok_head_lt _ _ _ _ _ (ups_ok_tail _ _ _ _ _ Hu) y Hy). lra. }
  unfold spec_applied. rewrite Hpast.
  destruct (pre ++ u :: post) as [|u0 l0] eqn:El; [destruct pre; discriminate|].
  destruct (pre ++ [u]) as [|p0 l1] eqn:Ep; [destruct pre; discriminate|].
  rewrite <- Ep. rewrite last_last. reflexivity.
Qed.

Lemma v4_spec_before_first : forall S F fin val rate u rest t,
  ups_ok S F fin (u :: rest) -> t < u_time S F u ->
  spec_applied S F val rate (u :: rest) t = Some (val u).
Proof.
  intros S F fin val rate u rest t Hok Ht. pose proof eps_pos as E. unfold spec_applied.
  rewrite filter_none; [reflexivity|].
  intros y [<-|Hy]; apply qle_false; [exact Ht|].
  pose proof (ups_ok_head_lt _ _ _ _ _ Hok y Hy). lra.
Qed.

(* non-vacuity: three updates 4 s apart (sync time 100 s, 2 counts per second), dumps before / at / between / after *)
Example v4_example :
  let ups := [mkU 0 1 (-1) 0 2; mkU 8 2 0 10 3; mkU 16 3 1 20 4] in
  let ts := [98; 100; 101; 103; 104; 106; 108; 110] in
  of_xres (v4_applied true 100 2 ups ts) = L [I 0%Z; L (map (fun z => of_qn (Some (inject_Z z))) [1; 1; 0; -2; 2; 2; 3; 5]%Z)] /\
  L (map (fun t => of_qn (spec_applied 100 2 u_d u_dr ups t)) ts) = L (map (fun z => of_qn (Some (inject_Z z))) [1; 1; 0; -2; 2; 2; 3; 5]%Z) /\
  of_xres (v4_applied false 100 2 ups ts) = L [I 0%Z; L (map (fun z => of_qn (Some (inject_Z z))) [0; 0; 2; 6; 10; 16; 20; 28]%Z)] /\
  v4_applied true 100 2 [] ts = XErr /\ v4_applied true 100 2 ups [] = XErr.
Proof. vm_compute. repeat split; reflexivity. Qed.
