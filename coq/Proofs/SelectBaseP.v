(* C02: generic lemmas on boolean masks and on the insertion-ordered dictionary used by the select() model. *)
From Coq Require Import ZArith List Bool String Ascii Lia Permutation PeanoNat.
From KV Require Import Base.Sx Base.Str Base.SelSlice Gen.Generated Model.Select.
Import ListNotations.
Open Scope Z_scope.

(* ---------------------------------------------------------------- masks *)
Lemma nth_mand : forall a b i, nth i (mand a b) false = nth i a false && nth i b false.
Proof.
  induction a as [|x a IH]; intros b i; simpl.
  - destruct i; reflexivity.
  - destruct b as [|y b]; simpl.
    + destruct i; simpl; rewrite ?andb_false_r; reflexivity.
    + destruct i; simpl; [reflexivity | apply IH].
Qed.

Lemma length_mand : forall a b, List.length (mand a b) = Nat.min (List.length a) (List.length b).
Proof. induction a; intros [|y b]; simpl; auto. Qed.

Lemma nth_ones : forall n i, nth i (ones n) false = Nat.ltb i n.
Proof.
  unfold ones. induction n; intros [|i]; simpl; auto. apply IHn.
Qed.

Lemma length_ones : forall n, List.length (ones n) = n.
Proof. intro n. apply repeat_length. Qed.

Lemma mask_ext : forall a b : list bool, List.length a = List.length b ->
  (forall i, nth i a false = nth i b false) -> a = b.
Proof.
  induction a as [|x a IH]; intros [|y b] L H; simpl in *; try discriminate; auto.
  f_equal. exact (H O). apply IH. lia. intro i. exact (H (S i)).
Qed.

Lemma nth_fold_mand : forall ms b i,
  nth i (fold_left mand ms b) false = nth i b false && forallb (fun m => nth i m false) ms.
Proof.
  induction ms as [|m ms IH]; intros b i; simpl.
  - rewrite andb_true_r. reflexivity.
  - rewrite IH, nth_mand, andb_assoc. reflexivity.
Qed.

Lemma length_fold_mand : forall ms b n, List.length b = n -> (forall m, In m ms -> List.length m = n) ->
  List.length (fold_left mand ms b) = n.
Proof.
  induction ms as [|m ms IH]; intros b n Hb Hm; simpl; auto.
  apply IH. rewrite length_mand, Hb, (Hm m (or_introl eq_refl)). apply Nat.min_id.
  intros m' Hin. apply Hm. right. exact Hin.
Qed.

(* ---------------------------------------------------------------- lists *)
Lemma filter_filter : forall (A : Type) (f g : A -> bool) l,
  filter f (filter g l) = filter (fun x => g x && f x) l.
Proof.
  induction l as [|x l IH]; simpl; auto.
  destruct (g x) eqn:G; simpl; [destruct (f x); rewrite IH; reflexivity | exact IH].
Qed.

Lemma filter_true : forall (A : Type) (l : list A), filter (fun _ => true) l = l.
Proof. induction l; simpl; congruence. Qed.

Lemma existsb_perm : forall (A : Type) (f : A -> bool) l l', Permutation l l' -> existsb f l = existsb f l'.
Proof.
  intros A f l l' P. apply eq_iff_eq_true. rewrite !existsb_exists.
  split; intros [x [Hin Hf]]; exists x; split; auto.
  eapply Permutation_in; eauto. eapply Permutation_in; [apply Permutation_sym|]; eauto.
Qed.

Lemma forallb_perm : forall (A : Type) (f : A -> bool) l l', Permutation l l' -> forallb f l = forallb f l'.
Proof.
  intros A f l l' P. apply eq_iff_eq_true. rewrite !forallb_forall.
  split; intros H x Hin; apply H.
  eapply Permutation_in; [apply Permutation_sym|]; eauto. eapply Permutation_in; eauto.
Qed.

(* ---------------------------------------------------------------- dictionary *)
Lemma lookup_nil : forall k, lookup k [] = None.
Proof. reflexivity. Qed.

Lemma lookup_cons : forall k k' v l,
  lookup k ((k', v) :: l) = if String.eqb k k' then Some v else lookup k l.
Proof. intros. unfold lookup. simpl. destruct (String.eqb k k'); reflexivity. Qed.

Lemma lookup_none_notin : forall k l, lookup k l = None <-> ~ In k (keys l).
Proof.
  induction l as [|[k' v] l IH]; simpl.
  - split; auto.
  - rewrite lookup_cons. destruct (String.eqb_spec k k').
    + split; [discriminate | intro H; exfalso; apply H; left; auto].
    + rewrite IH. split; [intros H [E|H']; [congruence | auto] | intros H H'; apply H; right; auto].
Qed.

Lemma lookup_some_in : forall k v l, lookup k l = Some v -> In (k, v) l.
Proof.
  induction l as [|[k' v'] l IH]; simpl; [discriminate|].
  rewrite lookup_cons. destruct (String.eqb_spec k k').
  - intros E. inversion E. subst. left. reflexivity.
  - intro H. right. apply IH. exact H.
Qed.

Lemma in_lookup : forall k v l, NoDup (keys l) -> In (k, v) l -> lookup k l = Some v.
Proof.
  induction l as [|[k' v'] l IH]; simpl; [tauto|].
  intros ND [E|H]; rewrite lookup_cons.
  - inversion E. subst. rewrite String.eqb_refl. reflexivity.
  - inversion ND as [|? ? Hn ND']. subst. destruct (String.eqb_spec k k').
    + subst. exfalso. apply Hn. change k' with (fst (k', v)). apply in_map. exact H.
    + apply IH; auto.
Qed.

Lemma NoDup_keys_pairs : forall l : kwargs, NoDup (keys l) -> NoDup l.
Proof. intros l H. apply NoDup_map_inv with (f := fst). exact H. Qed.

Lemma lookup_equiv_perm : forall l l', NoDup (keys l) -> NoDup (keys l') ->
  (forall k, lookup k l = lookup k l') -> Permutation l l'.
Proof.
  intros l l' N N' H. apply NoDup_Permutation; try (apply NoDup_keys_pairs; assumption).
  intros [k v]. split; intro Hin.
  - apply lookup_some_in. rewrite <- H. apply in_lookup; auto.
  - apply lookup_some_in. rewrite H. apply in_lookup; auto.
Qed.

Lemma perm_keys : forall l l' : kwargs, Permutation l l' -> Permutation (keys l) (keys l').
Proof. intros. apply Permutation_map. assumption. Qed.

Lemma perm_lookup : forall l l', Permutation l l' -> NoDup (keys l) -> forall k, lookup k l = lookup k l'.
Proof.
  intros l l' P N k.
  assert (N' : NoDup (keys l')) by (eapply Permutation_NoDup; [apply perm_keys; eassumption | assumption]).
  destruct (lookup k l) eqn:E.
  - symmetry. apply in_lookup; auto. eapply Permutation_in; eauto. apply lookup_some_in. exact E.
  - destruct (lookup k l') eqn:E'; auto.
    apply lookup_some_in in E'. apply Permutation_sym in P. eapply Permutation_in in E'; eauto.
    apply in_lookup in E'; auto. congruence.
Qed.

(* set_key *)
Lemma lookup_set_key : forall k k' v l,
  lookup k (set_key k' v l) = if String.eqb k k' then Some v else lookup k l.
Proof.
  induction l as [|[k2 v2] l IH]; simpl.
  - rewrite lookup_cons. reflexivity.
  - destruct (String.eqb_spec k' k2); simpl.
    + subst. rewrite !lookup_cons. destruct (String.eqb k k2); reflexivity.
    + rewrite !lookup_cons, IH. destruct (String.eqb_spec k k2); auto.
      subst. destruct (String.eqb_spec k2 k'); congruence.
Qed.

Lemma keys_set_key_in : forall k k' v l, In k (keys (set_key k' v l)) <-> k = k' \/ In k (keys l).
Proof.
  induction l as [|[k2 v2] l IH]; simpl.
  - intuition.
  - destruct (String.eqb_spec k' k2); simpl.
    + subst. intuition.
    + rewrite IH. intuition.
Qed.

Lemma NoDup_set_key : forall k v l, NoDup (keys l) -> NoDup (keys (set_key k v l)).
Proof.
  induction l as [|[k2 v2] l IH]; simpl; intro N.
  - constructor; [simpl; tauto | constructor].
  - inversion N as [|? ? Hn N']. subst. destruct (String.eqb_spec k k2); simpl.
    + constructor; assumption.
    + constructor; [|apply IH; assumption].
      intro H. apply keys_set_key_in in H. destruct H; [congruence | auto].
Qed.

(* update *)
Lemma NoDup_update : forall kw d, NoDup (keys d) -> NoDup (keys (update d kw)).
Proof.
  unfold update. induction kw as [|[k v] kw IH]; simpl; intros d N; auto.
  apply IH. apply NoDup_set_key. exact N.
Qed.

Lemma lookup_update : forall kw d k, NoDup (keys kw) ->
  lookup k (update d kw) = match lookup k kw with Some v => Some v | None => lookup k d end.
Proof.
  unfold update. induction kw as [|[k' v'] kw IH]; simpl; intros d k N; auto.
  inversion N as [|? ? Hn N']. subst.
  rewrite IH by assumption. rewrite lookup_cons, lookup_set_key.
  destruct (String.eqb_spec k k'); auto.
  subst. destruct (lookup k' kw) eqn:E; auto.
  exfalso. apply Hn. apply lookup_some_in in E. change k' with (fst (k', v)). apply in_map. exact E.
Qed.

(* filters on keys *)
Lemma lookup_filter_key : forall (f : string -> bool) l k,
  lookup k (filter (fun p => f (fst p)) l) = if f k then lookup k l else None.
Proof.
  induction l as [|[k' v] l IH]; intro k; simpl.
  - destruct (f k); reflexivity.
  - destruct (f k') eqn:F; simpl; rewrite ?lookup_cons, IH.
    + destruct (String.eqb_spec k k'); [subst; rewrite F|]; reflexivity.
    + destruct (String.eqb_spec k k'); [subst; rewrite F|]; reflexivity.
Qed.

Lemma NoDup_keys_filter : forall (f : string * value -> bool) l, NoDup (keys l) -> NoDup (keys (filter f l)).
Proof.
  induction l as [|p l IH]; simpl; intro N; auto.
  inversion N as [|? ? Hn N']. subst. destruct (f p); simpl; auto.
  constructor; auto. intro H. apply Hn. unfold keys in *. apply in_map_iff in H.
  destruct H as [q [E Hq]]. apply filter_In in Hq. rewrite <- E. apply in_map. tauto.
Qed.

Lemma remove_key_filter : forall k l, remove_key k l = filter (fun p => negb (String.eqb (fst p) k)) l.
Proof.
  intros. unfold remove_key. apply filter_ext. intro p. rewrite String.eqb_sym. reflexivity.
Qed.

Lemma lookup_remove_key : forall k k' l, lookup k (remove_key k' l) = if String.eqb k k' then None else lookup k l.
Proof.
  intros. rewrite remove_key_filter.
  rewrite (lookup_filter_key (fun x => negb (String.eqb x k'))).
  destruct (String.eqb k k'); reflexivity.
Qed.

Lemma fold_remove_keys : forall grp l,
  fold_left (fun l k => remove_key k l) grp l = filter (fun p => negb (mem_string (fst p) grp)) l.
Proof.
  induction grp as [|g grp IH]; intro l; simpl.
  - symmetry. apply filter_true.
  - rewrite IH, remove_key_filter, filter_filter. apply filter_ext. intro p.
    unfold mem_string. simpl. rewrite negb_orb. reflexivity.
Qed.

(* lastw: value left by the assignments `self._weights_keep = v` of the loop *)
Definition lastw (key : string) (l : kwargs) (dflt : value) : value :=
  fold_left (fun acc kv => if String.eqb (fst kv) key then snd kv else acc) l dflt.

Lemma lastw_lookup : forall key l dflt, NoDup (keys l) ->
  lastw key l dflt = match lookup key l with Some v => v | None => dflt end.
Proof.
  unfold lastw. induction l as [|[k v] l IH]; intros dflt N; simpl; auto.
  inversion N as [|? ? Hn N']. subst. rewrite IH by assumption. rewrite lookup_cons.
  rewrite (String.eqb_sym key k).
  destruct (String.eqb_spec k key); auto.
  subst. destruct (lookup key l) eqn:E; auto.
  exfalso. apply Hn. apply lookup_some_in in E. change key with (fst (key, v0)). apply in_map. exact E.
Qed.
