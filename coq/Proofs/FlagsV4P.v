From Coq Require Import ZArith List Bool String Lia.
From KV Require Import Base.Sx Base.Str Gen.Generated Model.Flags Proofs.FlagsP Model.FlagsV4.
Import ListNotations.
Open Scope Z_scope.

(* ---------- the regenerated tables are the expected ones ---------- *)
Lemma indexer_sources :
  v4_indexer_src = [("vis", "_corrected.vis"); ("weights", "_corrected.weights");
                    ("raw_flags", "_corrected.flags"); ("flags", "_raw_flags")]%string
  /\ v4_corrected_src = [("vis", ("apply_vis_correction", "source.data.vis"));
                         ("flags", ("apply_flags_correction", "source.data.flags"));
                         ("weights", ("apply_weights_correction", "source.data.weights"))]%string
  /\ v4_flag_transforms = ["bitwise_and"; "view_as_bool"]%string
  /\ v4_and_skipped_iff_all_ones = true.
Proof. repeat split; reflexivity. Qed.

Lemma flag_const_names :
  v4_lost_flag_name = "data_lost"%string /\ v4_lost_fill_name = "data_lost"%string
  /\ v4_cal_flag_name = "postproc"%string
  /\ lookup_mask v4_lost_flag_name = 8 /\ lookup_mask v4_lost_fill_name = 8 /\ lookup_mask v4_cal_flag_name = 128.
Proof. repeat split; reflexivity. Qed.

(* ---------- the mask after a history ---------- *)
Lemma fold_hist known h : forall cur,
  fold_left (hist_step known) h (flagmask_v34 known cur) = flagmask_v34 known (last_sel h cur).
Proof.
  induction h as [|st t IH]; intro cur; simpl; [reflexivity|].
  destruct st as [a|]; simpl; apply IH.
Qed.

Lemma hist_mask_last known h : hist_mask known h = flagmask_v34 known (last_sel h (SelStr "all")).
Proof. unfold hist_mask. apply fold_hist. Qed.

Lemma hist_mask_spec h : hist_mask flag_names h = spec_hist_mask h.
Proof. rewrite hist_mask_last. unfold spec_hist_mask. apply mask_v34_bits. Qed.

Lemma hist_mask_app_some known h a h' :
  (forall st, In st h' -> st = None) -> hist_mask known (h ++ Some a :: h') = flagmask_v34 known a.
Proof.
  intros Hn. unfold hist_mask. rewrite fold_left_app. simpl.
  induction h' as [|st t IH]; simpl; [reflexivity|].
  rewrite (Hn st (or_introl eq_refl)). simpl. apply IH. intros s Hs. apply Hn. right. exact Hs.
Qed.

Lemma hist_mask_all_none known h :
  (forall st, In st h -> st = None) -> hist_mask known h = flagmask_v34 known (SelStr "all").
Proof.
  intros Hn. unfold hist_mask. induction h as [|st t IH]; simpl; [reflexivity|].
  rewrite (Hn st (or_introl eq_refl)). simpl. apply IH. intros s Hs. apply Hn. right. exact Hs.
Qed.

Lemma spec_mask_range wanted : 0 <= spec_mask_v34 wanted < 256.
Proof.
  unfold spec_mask_v34, spec_mask_aux, doc_names.
  repeat match goal with |- context [mem_string ?s wanted] => destruct (mem_string s wanted) end;
    cbn; lia.
Qed.

Lemma hist_mask_range h : 0 <= hist_mask flag_names h < 256.
Proof. rewrite hist_mask_spec. apply spec_mask_range. Qed.

(* ---------- raw flags ---------- *)
Lemma v4_raw_spec s : v4_raw s = spec_v4_raw s.
Proof.
  destruct s as [st lf lv lw cal re im w we].
  unfold v4_raw, spec_v4_raw, spec_raw_flags_v4, lost_any, cal_invalid; cbn [s_lostf s_lostv s_lostw s_cal s_stored].
  change (flags_array (assoc "raw_flags" v4_indexer_src)) with corrected_flags.
  unfold corrected_flags, source_flags, lost_any, cal_invalid; cbn [s_lostf s_lostv s_lostw s_cal s_stored].
  destruct (proj2 (proj2 (proj2 flag_const_names))) as (-> & -> & ->).
  destruct lf, lv, lw, cal; reflexivity.
Qed.

Definition bools : list bool := [true; false].

Lemma spec_raw_sweep :
  forallb (fun st => forallb (fun l => forallb (fun c =>
     let r := spec_raw_flags_v4 st l c in (0 <=? r) && (r <? 256)) bools) bools) bytes = true.
Proof. vm_compute. reflexivity. Qed.

Lemma in_bools b : In b bools.
Proof. destruct b; simpl; auto. Qed.

Lemma spec_raw_range st l c : 0 <= st < 256 -> 0 <= spec_raw_flags_v4 st l c < 256.
Proof.
  intros H. pose proof spec_raw_sweep as S.
  rewrite forallb_forall in S. specialize (S st (in_bytes _ H)).
  rewrite forallb_forall in S. specialize (S l (in_bools l)).
  rewrite forallb_forall in S. specialize (S c (in_bools c)).
  cbv zeta in S. apply andb_prop in S. destruct S as [A B].
  apply Z.leb_le in A. apply Z.ltb_lt in B. lia.
Qed.

Lemma spec_v4_raw_range s : 0 <= s_stored s < 256 -> 0 <= spec_v4_raw s < 256.
Proof.
  intros H. unfold spec_v4_raw. apply spec_raw_range. destruct (s_lostf s); lia.
Qed.

(* data_lost / postproc are there where applicable; the other bits are the stored ones *)
Lemma spec_raw_bits st l c :
  (l = true -> Z.testbit (spec_raw_flags_v4 st l c) 3 = true) /\
  (c = true -> Z.testbit (spec_raw_flags_v4 st l c) 7 = true) /\
  (l = false -> Z.testbit (spec_raw_flags_v4 st l c) 3 = Z.testbit st 3) /\
  (c = false -> Z.testbit (spec_raw_flags_v4 st l c) 7 = Z.testbit st 7).
Proof.
  unfold spec_raw_flags_v4. repeat split; intros ->; rewrite !Z.lor_spec.
  - change (Z.testbit 8 3) with true. rewrite orb_true_r. reflexivity.
  - change (Z.testbit 128 7) with true. apply orb_true_r.
  - destruct c; [change (Z.testbit 128 3) with false|]; rewrite ?Z.testbit_0_l, ?orb_false_r; reflexivity.
  - destruct l; [change (Z.testbit 8 7) with false|]; rewrite ?Z.testbit_0_l, ?orb_false_r; reflexivity.
Qed.

(* ---------- boolean flags ---------- *)
Lemma v4_flag_sweep :
  forallb (fun r => forallb (fun m => Bool.eqb (v4_flag r m) (flag_bool r m)) bytes) bytes = true.
Proof. vm_compute. reflexivity. Qed.

Lemma v4_flag_is_flag_bool raw mask : 0 <= raw < 256 -> 0 <= mask < 256 -> v4_flag raw mask = flag_bool raw mask.
Proof.
  intros Hr Hm. pose proof v4_flag_sweep as H.
  rewrite forallb_forall in H. specialize (H raw (in_bytes _ Hr)).
  rewrite forallb_forall in H. specialize (H mask (in_bytes _ Hm)).
  apply Bool.eqb_prop. exact H.
Qed.

Lemma v4_flag_spec h s : 0 <= s_stored s < 256 ->
  o_flag (v4_observe flag_names h s) = spec_v4_flag h s.
Proof.
  intros H. unfold v4_observe, spec_v4_flag. cbn [o_flag].
  rewrite v4_raw_spec.
  rewrite v4_flag_is_flag_bool by (auto using spec_v4_raw_range, hist_mask_range).
  rewrite flag_bool_spec by (auto using spec_v4_raw_range, hist_mask_range).
  rewrite hist_mask_spec. reflexivity.
Qed.

(* ---------- nothing but the boolean flags depends on the history ---------- *)
Lemma history_only_moves_flags known h h' s :
  o_raw (v4_observe known h s) = o_raw (v4_observe known h' s) /\
  o_vis (v4_observe known h s) = o_vis (v4_observe known h' s) /\
  o_weight (v4_observe known h s) = o_weight (v4_observe known h' s).
Proof. repeat split; reflexivity. Qed.

(* the boolean flag depends on the history only through the last flags= argument *)
Lemma flag_depends_on_last_only known h h' s :
  last_sel h (SelStr "all") = last_sel h' (SelStr "all") ->
  o_flag (v4_observe known h s) = o_flag (v4_observe known h' s).
Proof. intros E. unfold v4_observe. cbn [o_flag]. rewrite !hist_mask_last, E. reflexivity. Qed.

(* ---------- statements re-exported by Props/C16.v ---------- *)
Lemma history_mask h :
  hist_mask flag_names h = spec_mask_v34 (spec_wanted (last_sel h (SelStr "all")))
  /\ 0 <= hist_mask flag_names h < 256.
Proof. split; [exact (hist_mask_spec h) | exact (hist_mask_range h)]. Qed.

Lemma history_mask_default h :
  (forall st, In st h -> st = None) -> hist_mask flag_names h = 255.
Proof. intros H. rewrite (hist_mask_all_none flag_names h H). exact (proj1 all_is_255). Qed.

Lemma v4_raw_regardless (h : list (option selarg)) (s : v4s) :
  o_raw (v4_observe flag_names h s)
  = Z.lor (Z.lor (if s_lostf s then 0 else s_stored s) (if lost_any s then 8 else 0))
          (if cal_invalid s then 128 else 0)
  /\ (lost_any s = true -> Z.testbit (o_raw (v4_observe flag_names h s)) 3 = true)
  /\ (cal_invalid s = true -> Z.testbit (o_raw (v4_observe flag_names h s)) 7 = true)
  /\ (lost_any s = false -> Z.testbit (o_raw (v4_observe flag_names h s)) 3 = Z.testbit (s_stored s) 3)
  /\ (s_lostf s = false -> cal_invalid s = false ->
      Z.testbit (o_raw (v4_observe flag_names h s)) 7 = Z.testbit (s_stored s) 7)
  /\ (s_lostf s = false -> forall i, 0 <= i -> i <> 3 -> i <> 7 ->
      Z.testbit (o_raw (v4_observe flag_names h s)) i = Z.testbit (s_stored s) i).
Proof.
  cbn [v4_observe o_raw]. rewrite v4_raw_spec. unfold spec_v4_raw.
  destruct (spec_raw_bits (if s_lostf s then 0 else s_stored s) (lost_any s) (cal_invalid s)) as (A & B & C & D).
  split; [reflexivity|]. split; [exact A|]. split; [exact B|]. split; [|split].
  - intro L. rewrite (C L). unfold lost_any in L. destruct (s_lostf s); [discriminate L|reflexivity].
  - intros Lf Ci. rewrite (D Ci), Lf. reflexivity.
  - intros Lf i Hi H3 H7. rewrite Lf. apply raw_flags_v4_other_bits; assumption.
Qed.

Lemma history_only_moves_boolean_flags h h' s :
  o_raw (v4_observe flag_names h s) = o_raw (v4_observe flag_names h' s) /\
  o_vis (v4_observe flag_names h s) = o_vis (v4_observe flag_names h' s) /\
  o_weight (v4_observe flag_names h s) = o_weight (v4_observe flag_names h' s) /\
  (last_sel h (SelStr "all") = last_sel h' (SelStr "all") ->
   o_flag (v4_observe flag_names h s) = o_flag (v4_observe flag_names h' s)).
Proof.
  destruct (history_only_moves_flags flag_names h h' s) as (A & B & C).
  repeat split; try assumption. exact (flag_depends_on_last_only flag_names h h' s).
Qed.

Example v4_nonvacuous :
  let s := mk_v4s 5 false true false None 3 4 6 2 in
  o_raw (v4_observe flag_names [Some (SelStr "cam")] s) = 141
  /\ o_flag (v4_observe flag_names [Some (SelStr "cam")] s) = true
  /\ o_flag (v4_observe flag_names [Some (SelStr "cam"); None; Some (SelStr "static")] s) = false
  /\ o_flag (v4_observe flag_names [Some (SelStr "static"); Some (SelList ["postproc"%string]); None] s) = true
  /\ o_raw (v4_observe flag_names [] (mk_v4s 200 true false false (Some 2) 3 4 6 2)) = 8.
Proof. repeat split; reflexivity. Qed.
