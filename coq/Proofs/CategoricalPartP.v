(* C11: partition (and partition followed by concatenation). *)
From Coq Require Import ZArith List Bool Arith Lia.
From KV Require Import Base.Sx Model.Categorical Proofs.CategoricalP Proofs.CategoricalAddP.
Import ListNotations.
Open Scope nat_scope.

(* ---------- list-level window lemmas on expand_ev ---------- *)
Lemma skip_exact {A} E1 s a rest (V1 VR : list A) : length V1 = S (length E1) -> chain le s (E1 ++ [a]) ->
  skipn (a - s) (expand_ev s (E1 ++ a :: rest) (V1 ++ VR)) = expand_ev a rest VR.
Proof.
  intros L C. rewrite expand_ev_app by auto. apply skipn_repeat_app.
  rewrite expand_ev_length; auto. rewrite last_last. reflexivity. rewrite app_length; simpl; lia.
Qed.

Lemma skip_inside {A} E1 s a nx R1 (V0 : list A) w VR : length V0 = length E1 -> chain le s E1 ->
  last E1 s <= a -> a <= nx ->
  skipn (a - s) (expand_ev s (E1 ++ nx :: R1) ((V0 ++ [w]) ++ VR)) = expand_ev a (nx :: R1) (w :: VR).
Proof.
  intros L C H1 H2. rewrite expand_ev_app by (rewrite app_length; simpl; lia).
  rewrite (expand_ev_trunc E1 s a nx V0 w) by auto. rewrite <- !app_assoc.
  rewrite skipn_repeat_app. reflexivity.
  rewrite expand_ev_length. rewrite last_last; reflexivity.
  apply chain_app; split; auto. simpl; auto. rewrite !app_length; simpl; lia.
Qed.

Lemma take_window {A} F2 a b nx R3 (W2 V3 : list A) : length W2 = S (length F2) -> chain le a F2 ->
  last F2 a <= b -> b <= nx ->
  firstn (b - a) (expand_ev a (F2 ++ nx :: R3) (W2 ++ V3)) = expand_ev a (F2 ++ [b]) W2.
Proof.
  intros L C H1 H2. assert (NE : W2 <> []) by (intro Z; rewrite Z in L; discriminate).
  destruct (exists_last NE) as (W0 & w2 & ->). rewrite app_length in L. simpl in L.
  rewrite expand_ev_app by (rewrite app_length; simpl; lia).
  rewrite (expand_ev_trunc F2 a b nx W0 w2) by (auto; lia). rewrite <- !app_assoc.
  apply firstn_repeat_app. rewrite expand_ev_length. rewrite last_last; reflexivity.
  apply chain_app; split; auto. simpl; auto. rewrite !app_length; simpl; lia.
Qed.

Lemma chain_of_incr_le l a : incr l -> Forall (fun x => a <= x) l -> chain le a l.
Proof. destruct l as [|x l]; simpl; auto. intros H F. inversion F; subst. split; auto. apply chain_lt_le; auto. Qed.
Lemma chain_of_incr_lt l a : incr l -> Forall (fun x => a < x) l -> chain lt a l.
Proof. destruct l as [|x l]; simpl; auto. intros H F. inversion F; subst. split; auto. Qed.
Lemma chain_lt_shift a : forall l s, a <= s -> chain lt s l -> chain lt (s - a) (map (fun e => e - a) l).
Proof. induction l as [|x l IH]; simpl; intros s H C; auto. destruct C. split. lia. apply IH; auto. lia. Qed.
Lemma chain_lt_snoc l : forall s b, chain lt s l -> last l s < b -> chain lt s (l ++ [b]).
Proof. intros. apply chain_app. split; auto. simpl; auto. Qed.

(* ---------- combine / filter helpers ---------- *)
Lemma combine_app' {A B} (l1 l2 : list A) (m1 m2 : list B) : length l1 = length m1 ->
  combine (l1 ++ l2) (m1 ++ m2) = combine l1 m1 ++ combine l2 m2.
Proof. revert m1. induction l1; intros [|b m1] H; simpl in *; try discriminate; auto. f_equal. apply IHl1. lia. Qed.

Lemma Forall_combine_fst {A B} (P : A -> Prop) (l : list A) : forall (m : list B),
  Forall P l -> Forall (fun p => P (fst p)) (combine l m).
Proof. induction l; intros [|b m] H; simpl; auto. inversion H; subst. constructor; auto. Qed.

Lemma filter_all {A} (f : A -> bool) l : Forall (fun x => f x = true) l -> filter f l = l.
Proof. induction 1; simpl; auto. rewrite H. f_equal; auto. Qed.
Lemma filter_none {A} (f : A -> bool) l : Forall (fun x => f x = false) l -> filter f l = [].
Proof. induction 1; simpl; auto. rewrite H. auto. Qed.

Lemma map_fst_combine {A B} (l : list A) : forall (m : list B), length l = length m -> map fst (combine l m) = l.
Proof. induction l; intros [|b m] H; simpl in *; try discriminate; auto. f_equal; apply IHl; lia. Qed.
Lemma map_snd_combine {A B} (l : list A) : forall (m : list B), length l = length m -> map snd (combine l m) = m.
Proof. induction l; intros [|b m] H; simpl in *; try discriminate; auto. f_equal; apply IHl; lia. Qed.

Lemma count_le_eq_length_lt L R a : Forall (fun x => x < a) L -> Forall (fun x => a < x) R ->
  count_le (L ++ R) a = length L.
Proof. apply count_le_split. Qed.

Lemma removelast_snoc {A} (l : list A) x : removelast (l ++ [x]) = l.
Proof. apply removelast_last. Qed.

Lemma ev_snoc (l : list nat) : l <> [] -> l = removelast l ++ [last l 0].
Proof. apply app_removelast_last. Qed.

Lemma chain_snoc_inv (R : nat -> nat -> Prop) l s x : chain R s (l ++ [x]) -> chain R s l /\ R (last l s) x.
Proof. intros H. apply chain_app in H. simpl in H. tauto. Qed.

Section PartP.
Context {V : Type} (dflt : V).
Notation cdV := (@cd V).

(* one part of a partition = the window [a, b) of the per-dump list *)
Lemma part_spec (c : cdV) a b : WF c -> start0 c -> a < b -> b <= ndumps c ->
  let init := nth (Nat.min (count_le (removelast (ev c)) a - 1) (length (removelast (ev c)) - 1)) (idx c) 0 in
  let p := part c a b init in
  WF p /\ start0 p /\ ndumps p = b - a /\ uv p = uv c /\ idx p <> [] /\
  expand dflt p = firstn (b - a) (skipn a (expand dflt c)).
Proof.
  intros W S0 Hab HbN init p.
  destruct (WF_inv c W) as (s & r & Eev & C & Lr & F & ND).
  unfold start0 in S0. rewrite Eev in S0. simpl in S0. subst s.
  remember (ndumps c) as N eqn:HN.
  remember (removelast (ev c)) as E eqn:HE.
  assert (EvE : ev c = E ++ [N]). { subst E N. unfold ndumps. apply ev_snoc. rewrite Eev; discriminate. }
  assert (LE : length E = length (idx c)).
  { assert (length (ev c) = S (length E)) by (rewrite EvE, app_length; simpl; lia). rewrite Eev in H. simpl in H. lia. }
  assert (IE : incr (ev c)) by (destruct W; auto).
  assert (IEN : incr (E ++ [N])) by (rewrite <- EvE; auto).
  assert (IE' : incr E) by (apply (incr_app_inv E [N]); auto).
  assert (E0 : exists E', E = 0 :: E').
  { destruct E as [|e0 E']. - simpl in LE. rewrite Eev in EvE. simpl in EvE. inversion EvE. subst r. simpl in Lr.
      (* no events: N = 0, impossible since a < b <= N *) exfalso. subst N. unfold ndumps in HbN. rewrite Eev in HbN. simpl in HbN. lia.
    - rewrite Eev in EvE. simpl in EvE. inversion EvE. exists E'; auto. }
  destruct E0 as (E' & EE).
  (* split E at b then at a *)
  destruct (split_count_lt E b IE') as [Hb1 Hb2].
  remember (count_lt E b) as k2 eqn:Hk2.
  pose proof (firstn_skipn k2 E) as Sb. remember (firstn k2 E) as Eb eqn:HEb. remember (skipn k2 E) as E3 eqn:HE3.
  assert (IEb : incr Eb) by (subst Eb; apply incr_firstn; auto).
  destruct (split_count_lt Eb a IEb) as [Ha1 Ha2].
  remember (count_lt Eb a) as k1 eqn:Hk1.
  pose proof (firstn_skipn k1 Eb) as Sa. remember (firstn k1 Eb) as E1 eqn:HE1. remember (skipn k1 Eb) as E2 eqn:HE2.
  assert (Hb1' : Forall (fun x => x < b) E2) by (subst E2; apply Forall_skipn'; auto).
  assert (EE3 : E = E1 ++ E2 ++ E3) by (rewrite app_assoc, Sa, Sb; auto).
  (* the same split of the indices *)
  clear HE1 HE2 HEb HE3 Hk1 Hk2.
  remember (length E1) as n1 eqn:Hn1. remember (length E2) as n2 eqn:Hn2.
  assert (LEN : length E = n1 + n2 + length E3) by (rewrite EE3, !app_length; lia).
  remember (firstn n1 (idx c)) as I1 eqn:HI1. remember (firstn n2 (skipn n1 (idx c))) as I2 eqn:HI2.
  remember (skipn n2 (skipn n1 (idx c))) as I3 eqn:HI3.
  assert (II : idx c = I1 ++ I2 ++ I3). { subst I1 I2 I3. rewrite !firstn_skipn. reflexivity. }
  assert (LI1 : length I1 = n1) by (subst I1; apply firstn_length_le; lia).
  assert (LI2 : length I2 = n2) by (subst I2; apply firstn_length_le; rewrite skipn_length; lia).
  assert (LI3 : length I3 = length E3) by (subst I3; rewrite !skipn_length; lia).
  clear HI1 HI2 HI3.
  (* the filter selects the middle block *)
  assert (SEL : filter (fun q : nat * nat => (a <=? fst q) && (fst q <? b)) (combine E (idx c)) = combine E2 I2).
  { rewrite EE3, II. rewrite !combine_app' by lia. rewrite !filter_app.
    rewrite (filter_none _ (combine E1 I1)), (filter_all _ (combine E2 I2)), (filter_none _ (combine E3 I3)).
    - rewrite app_nil_r. reflexivity.
    - apply (Forall_combine_fst (fun x => (a <=? x) && (x <? b) = false)). eapply Forall_impl; [|exact Hb2].
      simpl; intros x Hx. destruct (Nat.ltb_spec x b); [lia|]. apply andb_false_r.
    - apply (Forall_combine_fst (fun x => (a <=? x) && (x <? b) = true)).
      rewrite Forall_forall in *. intros x Hx. specialize (Ha2 x Hx). specialize (Hb1' x Hx). simpl in *.
      destruct (Nat.leb_spec a x); [|lia]. destruct (Nat.ltb_spec x b); [|lia]. reflexivity.
    - apply (Forall_combine_fst (fun x => (a <=? x) && (x <? b) = false)). eapply Forall_impl; [|exact Ha1].
      simpl; intros x Hx. destruct (Nat.leb_spec a x); [lia|]. reflexivity. }
  (* values *)
  set (f := fun i => nth i (uv c) dflt).
  assert (VV : vals dflt c = map f I1 ++ map f I2 ++ map f I3). { unfold vals. fold f. rewrite II, !map_app. reflexivity. }
  (* the tail E3 ++ [N] starts with some nx >= b *)
  assert (T3 : exists nx R3, E3 ++ [N] = nx :: R3 /\ b <= nx).
  { destruct E3 as [|x E3']. exists N, []. split; auto.
    exists x, (E3' ++ [N]). split; auto. inversion Hb2; auto. }
  destruct T3 as (nx & R3 & ET3 & Hnx).
  (* full per-dump list *)
  assert (XX : expand dflt c = expand_evs (E1 ++ E2 ++ nx :: R3) (map f I1 ++ map f I2 ++ map f I3)).
  { unfold expand. rewrite VV, EvE, EE3, <- !app_assoc, ET3. reflexivity. }
  assert (ICH : incr (E1 ++ E2 ++ nx :: R3)). { replace (E1 ++ E2 ++ nx :: R3) with (E ++ [N]); auto. rewrite EE3, <- ET3, <- !app_assoc. reflexivity. }
  (* reduce both sides to the common form expand_ev a (F2 ++ [b]) W2 *)
  assert (KEY : forall F2 (W2 : list V), length W2 = S (length F2) -> chain le a F2 -> last F2 a <= b ->
            skipn a (expand dflt c) = expand_ev a (F2 ++ nx :: R3) (W2 ++ map f I3) ->
            firstn (b - a) (skipn a (expand dflt c)) = expand_ev a (F2 ++ [b]) W2).
  { intros F2 W2 L1 C1 H1 ->. apply take_window; auto. }
  assert (IE2 : incr E2). { rewrite EE3 in IE'. apply incr_app_inv in IE'. destruct IE' as [_ IE']. apply incr_app_inv in IE'. tauto. }
  assert (IE1 : incr E1). { rewrite EE3 in IE'. apply incr_app_inv in IE'. tauto. }
  assert (FI : Forall (fun i => i < length (uv c)) I1 /\ Forall (fun i => i < length (uv c)) I2).
  { rewrite II in F. apply Forall_app in F. destruct F as [F1 F2]. apply Forall_app in F2. tauto. }
  destruct FI as [FI1 FI2].
  (* case B: no event exactly at a -> an initial event with the value in force at a is inserted *)
  assert (CB : Forall (fun x => a < x) E2 ->
     let q := mk (uv c) (init :: I2) (0 :: map (fun e => e - a) E2 ++ [b - a]) in
     WF q /\ start0 q /\ ndumps q = b - a /\ uv q = uv c /\ idx q <> [] /\
     expand dflt q = firstn (b - a) (skipn a (expand dflt c))).
  { intros FA q.
    destruct E1 as [|e1 E1'].
    { exfalso. rewrite EE in EE3. simpl in EE3. destruct E2 as [|e2 E2'].
      - simpl in EE3. rewrite <- EE3 in Hb2. inversion Hb2; lia.
      - simpl in EE3. inversion EE3; subst e2. inversion FA; lia. }
    assert (e1 = 0) by (rewrite EE in EE3; simpl in EE3; inversion EE3; auto). subst e1.
    assert (NI : I1 <> []) by (intro Z; rewrite Z in LI1; simpl in *; lia).
    destruct (exists_last NI) as (I0 & i1 & EI1).
    assert (LI0 : length I0 = length E1'). { rewrite EI1, app_length in LI1. simpl in *. lia. }
    assert (INIT : init = i1).
    { unfold init. rewrite EE3. rewrite count_le_split; auto.
      - rewrite <- Hn1. rewrite <- EE3. rewrite Nat.min_l by lia. rewrite II, EI1, <- app_assoc.
        replace (n1 - 1) with (length I0) by (simpl in *; lia). apply nth_middle.
      - apply Forall_app; split; auto. eapply Forall_impl; [|exact Hb2]. simpl; intros; lia. }
    assert (Ca : chain lt a E2) by (apply chain_of_incr_lt; auto).
    assert (Lb : last E2 a < b) by (apply (Forall_last (fun x => x < b)); auto).
    assert (Cab : chain lt a (E2 ++ [b])) by (apply chain_lt_snoc; auto).
    assert (EVQ : ev q = (a - a) :: map (fun e => e - a) (E2 ++ [b])).
    { unfold q. cbn [ev]. rewrite map_app, Nat.sub_diag. reflexivity. }
    assert (Xq : expand dflt q = expand_ev a (E2 ++ [b]) (f i1 :: map f I2)).
    { unfold expand. rewrite EVQ. unfold vals, q. cbn [uv idx map expand_evs]. fold f. rewrite INIT.
      apply expand_ev_shift. lia. apply chain_lt_le; auto. }
    split.
    { unfold WF. rewrite EVQ. unfold q. cbn [uv idx]. split.
      - cbn [incr]. apply chain_lt_shift; auto.
      - split. simpl. rewrite map_length, app_length. simpl. lia.
        split; auto. constructor; auto. rewrite INIT. rewrite Forall_forall in FI1. apply FI1. rewrite EI1.
        apply in_or_app. right; left; auto. }
    split. { unfold start0, q. reflexivity. }
    split. { unfold ndumps, q. cbn [ev]. change (0 :: map (fun e => e - a) E2 ++ [b - a]) with ((0 :: map (fun e => e - a) E2) ++ [b - a]).
             apply last_last. }
    split. { reflexivity. }
    split. { unfold q. cbn [idx]. discriminate. }
    rewrite Xq. symmetry. apply KEY.
    - simpl. rewrite map_length. lia.
    - apply chain_lt_le; auto.
    - lia.
    - rewrite XX. cbn [app expand_evs]. rewrite EI1, map_app. cbn [map].
      assert (T : exists nx1 R1, E2 ++ nx :: R3 = nx1 :: R1 /\ a <= nx1).
      { destruct E2 as [|e2 E2']. exists nx, R3. split; auto. lia.
        exists e2, (E2' ++ nx :: R3). split; auto. inversion FA; lia. }
      destruct T as (nx1 & R1 & ET & Hn1x). rewrite ET.
      replace a with (a - 0) at 1 by lia.
      rewrite (skip_inside E1' 0 a nx1 R1 (map f I0) (f i1) (map f I2 ++ map f I3)).
      + reflexivity.
      + rewrite map_length; auto.
      + apply chain_lt_le. exact IE1.
      + assert (last E1' 0 < a). { apply (Forall_last (fun x => x < a)); inversion Ha1; auto. } lia.
      + auto. }
  (* case A: an event exactly at a *)
  assert (CA : forall E2', E2 = a :: E2' ->
     let q := mk (uv c) I2 (map (fun e => e - a) E2 ++ [b - a]) in
     WF q /\ start0 q /\ ndumps q = b - a /\ uv q = uv c /\ idx q <> [] /\
     expand dflt q = firstn (b - a) (skipn a (expand dflt c))).
  { intros E2' EQ q. subst E2.
    assert (Ca : chain lt a E2') by exact IE2.
    assert (Lb : last E2' a < b). { apply (Forall_last (fun x => x < b)); inversion Hb1'; auto. }
    assert (Cab : chain lt a (E2' ++ [b])) by (apply chain_lt_snoc; auto).
    assert (EVQ : ev q = (a - a) :: map (fun e => e - a) (E2' ++ [b])).
    { unfold q. cbn [ev map app]. rewrite map_app. reflexivity. }
    assert (Xq : expand dflt q = expand_ev a (E2' ++ [b]) (map f I2)).
    { unfold expand. rewrite EVQ. unfold vals, q. cbn [uv idx expand_evs]. fold f.
      apply expand_ev_shift. lia. apply chain_lt_le; auto. }
    simpl in Hn2.
    split.
    { unfold WF. rewrite EVQ. unfold q. cbn [uv idx]. split.
      - cbn [incr]. apply chain_lt_shift; auto.
      - split. simpl. rewrite map_length, app_length. simpl. lia. split; auto. }
    split. { unfold start0. rewrite EVQ. simpl. lia. }
    split. { unfold ndumps, q. cbn [ev]. apply last_last. }
    split. { reflexivity. }
    split. { unfold q. cbn [idx]. intro Z. rewrite Z in LI2. simpl in LI2. lia. }
    rewrite Xq. symmetry. apply KEY.
    - rewrite map_length. lia.
    - apply chain_lt_le; auto.
    - lia.
    - rewrite XX. destruct E1 as [|e1 E1'].
      + assert (a = 0) by (rewrite EE in EE3; simpl in EE3; inversion EE3; auto). subst a.
        destruct I1; [|simpl in *; lia]. reflexivity.
      + assert (e1 = 0) by (rewrite EE in EE3; simpl in EE3; inversion EE3; auto). subst e1.
        cbn [app expand_evs]. replace a with (a - 0) at 1 by lia.
        rewrite (skip_exact E1' 0 a (E2' ++ nx :: R3) (map f I1) (map f I2 ++ map f I3)).
        * reflexivity.
        * rewrite map_length. simpl in *. lia.
        * apply chain_lt_le. apply chain_lt_snoc. exact IE1.
          apply (Forall_last (fun x => x < a)); inversion Ha1; auto. }
  unfold p, part. rewrite <- HE. rewrite SEL.
  rewrite map_snd_combine by lia.
  replace (map (fun q : nat * nat => fst q - a) (combine E2 I2)) with (map (fun e => e - a) E2)
    by (rewrite <- (map_fst_combine E2 I2) at 1 by lia; rewrite map_map; reflexivity).
  destruct E2 as [|e2 E2'] eqn:EE2.
  - cbn [map app]. apply CB. constructor.
  - destruct (Nat.eq_dec e2 a) as [->|NEQ].
    + specialize (CA E2' eq_refl). cbn [map] in CA |- *. rewrite Nat.sub_diag in CA |- *. cbn [app]. exact CA.
    + assert (FA : Forall (fun x => a < x) (e2 :: E2')).
      { inversion Ha2; subst. constructor. lia. apply chain_lt_Forall in IE2.
        eapply Forall_impl; [|exact IE2]. simpl; intros; lia. }
      assert (a < e2) by (inversion FA; auto). specialize (CB FA). cbn [map app] in CB |- *. destruct (e2 - a) eqn:D; [lia|]. exact CB.
Qed.

End PartP.

(* ---------- the whole partition ---------- *)
Lemma combine_map_fst {A B C} (g : A -> C) (l : list A) : forall (m : list B),
  combine (combine l m) (map g l) = map (fun q => (q, g (fst q))) (combine l m).
Proof. induction l; intros [|b m]; simpl; auto. f_equal. apply IHl. Qed.

Lemma In_pairs_incr (l : list nat) : forall a b, incr l -> In (a, b) (combine (removelast l) (tl l)) ->
  a < b /\ In b l /\ In a l.
Proof.
  destruct l as [|s r]; [simpl; tauto|]. revert s. induction r as [|e r IH]; intros s a b I H.
  - simpl in H. tauto.
  - change (removelast (s :: e :: r)) with (s :: removelast (e :: r)) in H. simpl tl in H.
    simpl in H. destruct H as [H|H].
    + inversion H; subst. destruct I. split; auto. split; [right; left; auto|left; auto].
    + destruct I as [I1 I2]. destruct (IH e a b I2 H) as (H1 & H2 & H3). split; auto. split; right; auto.
Qed.

Lemma incr_le_last (l : list nat) : incr l -> forall x, In x l -> x <= last l 0.
Proof.
  destruct l as [|s r]; [simpl; tauto|]. intros I x H. rewrite last_cons. simpl in I. revert s I x H.
  induction r as [|e r IH]; intros s I x H.
  - simpl in *. destruct H; [lia|tauto].
  - destruct I as [I1 I2]. rewrite last_cons. destruct H as [->|H].
    + pose proof (IH e I2 e (or_introl eq_refl)). lia.
    + apply IH; auto.
Qed.

Lemma skipn_skipn' {A} x : forall y (l : list A), skipn x (skipn y l) = skipn (y + x) l.
Proof. induction y; intros l; simpl; auto. destruct l; auto. apply skipn_nil. Qed.

Lemma firstn_skipn_join {A} (X : list A) a b n : a <= b -> b <= n -> n <= length X ->
  firstn (b - a) (skipn a X) ++ firstn (n - b) (skipn b X) = firstn (n - a) (skipn a X).
Proof.
  intros H1 H2 H3.
  assert (E : skipn b X = skipn (b - a) (skipn a X)) by (rewrite skipn_skipn'; f_equal; lia).
  rewrite E. set (Y := skipn a X). assert (LY : length Y = length X - a) by apply skipn_length.
  transitivity (firstn (n - a) (firstn (b - a) Y ++ skipn (b - a) Y)); [|rewrite firstn_skipn; reflexivity].
  rewrite firstn_app, firstn_length. replace (Nat.min (b - a) (length Y)) with (b - a) by lia.
  rewrite firstn_firstn. replace (Nat.min (n - a) (b - a)) with (b - a) by lia.
  f_equal. f_equal. lia.
Qed.

(* cutting a list at strictly increasing boundaries from 0 to its length and gluing the cuts gives it back *)
Lemma cuts_concat {A} (X : list A) r : forall s, chain lt s r -> last r s <= length X ->
  concat (map (fun se => firstn (snd se - fst se) (skipn (fst se) X)) (combine (removelast (s :: r)) r))
  = firstn (last r s - s) (skipn s X).
Proof.
  induction r as [|e r IH]; intros s C H.
  - simpl. rewrite Nat.sub_diag. reflexivity.
  - destruct C as [C1 C2]. rewrite last_cons in H |- *.
    change (removelast (s :: e :: r)) with (s :: removelast (e :: r)). cbn [combine map concat fst snd].
    rewrite IH by auto. pose proof (chain_le_last r e (chain_lt_le _ _ C2)).
    apply firstn_skipn_join; lia.
Qed.

Section PartitionP.
Context {V : Type} (dflt : V).
Notation cdV := (@cd V).

Lemma partition_spec (c : cdV) segs : WF c -> start0 c -> incr segs -> last segs 0 <= ndumps c ->
  map (expand dflt) (partition c segs) = spec_partition (expand dflt c) segs /\
  (forall p, In p (partition c segs) -> WF p /\ start0 p /\ idx p <> [] /\ uv p = uv c) /\
  list_sum (map ndumps (partition c segs)) = last segs 0 - hd 0 segs.
Proof.
  intros W S0 I HL. unfold partition, spec_partition.
  rewrite combine_map_fst. rewrite !map_map. cbn [fst snd].
  assert (P : forall q, In q (combine (removelast segs) (tl segs)) -> fst q < snd q /\ snd q <= ndumps c).
  { intros [a b] Hq. destruct (In_pairs_incr segs a b I Hq) as (H1 & H2 & _). split; auto.
    pose proof (incr_le_last segs I b H2). simpl. lia. }
  split; [|split].
  - apply map_ext_in. intros [a b] Hq. destruct (P _ Hq). apply part_spec; auto.
  - intros p Hp. apply in_map_iff in Hp. destruct Hp as ([a b] & <- & Hq). destruct (P _ Hq).
    destruct (part_spec dflt c a b W S0) as (H1 & H2 & _ & H4 & H5 & _); auto.
  -
    transitivity (list_sum (map (fun q => snd q - fst q) (combine (removelast segs) (tl segs)))).
    { f_equal. apply map_ext_in. intros [a b] Hq. destruct (P _ Hq).
      destruct (part_spec dflt c a b W S0) as (_ & _ & H3 & _); auto. }
    clear - I. destruct segs as [|s r]; [reflexivity|]. simpl tl. simpl hd. rewrite last_cons. simpl in I. revert s I.
    unfold list_sum. induction r as [|e r IH]; intros s I. simpl. lia.
    destruct I as [I1 I2]. change (removelast (s :: e :: r)) with (s :: removelast (e :: r)).
    cbn [combine map fold_right fst snd]. rewrite IH by auto. rewrite last_cons.
    pose proof (chain_le_last r e (chain_lt_le _ _ I2)). lia.
Qed.

(* partition_concat_id, first half: gluing the parts' per-dump lists gives the per-dump list back *)
Lemma partition_concat_expand (c : cdV) segs : WF c -> start0 c -> incr segs ->
  hd 0 segs = 0 -> last segs 0 = ndumps c ->
  concat (map (expand dflt) (partition c segs)) = expand dflt c.
Proof.
  intros W S0 I H0 HN. destruct (partition_spec c segs W S0 I) as (E & _); [lia|]. rewrite E.
  unfold spec_partition. destruct segs as [|s r]. { simpl in *. pose proof (expand_length dflt c W) as L.
    rewrite <- HN in L. simpl in L. destruct (expand dflt c); simpl in *; auto; discriminate. }
  simpl in H0. subst s. simpl tl. rewrite last_cons in HN.
  pose proof (expand_length dflt c W) as L. unfold start0 in S0. rewrite S0, Nat.sub_0_r in L.
  rewrite cuts_concat; auto; [|lia]. rewrite HN, Nat.sub_0_r. simpl skipn. rewrite <- L. apply firstn_all.
Qed.

End PartitionP.
