(* C14: lemmas about Model/CalInterp.v *)
From Coq Require Import ZArith QArith Qround Qabs List Bool String Lia Lqa.
From KV Require Import Base.Sx Base.Str Gen.Generated Model.Interp Proofs.InterpP Model.CalInterp.
Import ListNotations.
Open Scope Q_scope.

Lemma delay_missing_is_zero : forall freqs,
  Forall (fun v => fst v == 1 /\ snd v == 0) (delay_corr_seg freqs None).
Proof.
  intros freqs. unfold delay_corr_seg. apply Forall_forall. intros v H.
  apply in_map_iff in H. destruct H as [f [E _]]. subst v. simpl. split; [reflexivity | ring].
Qed.
