(* C14: lemmas about Model/CalInterp.v *)
From Coq Require Import ZArith QArith Qround Qabs List Bool String Lia Lqa Sorting.Sorted.
From KV Require Import Base.Sx Base.Str Gen.Generated Model.Interp Proofs.InterpP Model.CalInterp.
Import ListNotations.
Open Scope Q_scope.

(* ------------------------------------------------------------------ whole turns *)
Definition is_int (q : Q) : Prop := exists k : Z, q == inject_Z k.
(* a and b are the same phase: they differ by a whole number of turns *)
Definition congr1 (a b : Q) : Prop := is_int (a - b).

Lemma is_int_0 : is_int 0.
Proof. exists 0%Z. reflexivity. Qed.
Lemma is_int_plus : forall a b, is_int a -> is_int b -> is_int (a + b).
Proof. intros a b [k Hk] [j Hj]. exists (k + j)%Z. rewrite inject_Z_plus, Hk, Hj. reflexivity. Qed.
Lemma is_int_opp : forall a, is_int a -> is_int (- a).
Proof. intros a [k Hk]. exists (- k)%Z. rewrite inject_Z_opp, Hk. reflexivity. Qed.
Lemma is_int_eq : forall a b, a == b -> is_int a -> is_int b.
Proof. intros a b E [k Hk]. exists k. rewrite <- E. exact Hk. Qed.
Lemma congr1_refl : forall a b, a == b -> congr1 a b.
Proof. intros a b E. unfold congr1. apply (is_int_eq 0); [lra | apply is_int_0]. Qed.
Lemma congr1_opp : forall a b, congr1 a b -> congr1 (- a) (- b).
Proof. intros a b H. unfold congr1 in *. apply (is_int_eq (- (a - b))); [lra | apply is_int_opp; exact H]. Qed.

Lemma qlt_bool_true : forall a b, Qlt_bool a b = true <-> a < b.
Proof.
  intros a b. unfold Qlt_bool. split; intro H.
  - apply negb_true_iff in H. destruct (Qlt_le_dec a b) as [L|L]; [exact L|].
    apply Qle_bool_iff in L. congruence.
  - apply negb_true_iff. destruct (Qle_bool b a) eqn:E; [|reflexivity]. apply Qle_bool_iff in E. lra.
Qed.
Lemma qlt_bool_false : forall a b, Qlt_bool a b = false <-> b <= a.
Proof.
  intros a b. unfold Qlt_bool. split; intro H.
  - apply negb_false_iff in H. apply Qle_bool_iff in H. exact H.
  - apply negb_false_iff. apply Qle_bool_iff. exact H.
Qed.

(* ------------------------------------------------------------------ unwrap *)
Lemma frac_part_range : forall q, 0 <= frac_part q /\ frac_part q < 1.
Proof.
  intro q. unfold frac_part. pose proof (Qfloor_le q). pose proof (Qlt_floor q).
  rewrite inject_Z_plus in H0. change (inject_Z 1) with 1 in H0. split; lra.
Qed.

Lemma wrap_half_int : forall d, is_int (wrap_half d - d).
Proof.
  intro d. unfold wrap_half.
  destruct (Qeq_bool (frac_part (d + half) - half) (- half) && Qlt_bool 0 d) eqn:E.
  - apply andb_true_iff in E. destruct E as [E _]. apply Qeq_bool_iff in E.
    exists (1 - Qfloor (d + half))%Z. unfold Zminus. rewrite inject_Z_plus, inject_Z_opp.
    unfold frac_part in E. unfold half in *. change (inject_Z 1) with 1. lra.
  - exists (- Qfloor (d + half))%Z. rewrite inject_Z_opp. unfold frac_part. lra.
Qed.

Lemma wrap_half_range : forall d, - half <= wrap_half d /\ wrap_half d <= half.
Proof.
  intro d. unfold wrap_half. pose proof (frac_part_range (d + half)) as [H0 H1].
  destruct (Qeq_bool (frac_part (d + half) - half) (- half) && Qlt_bool 0 d); unfold half in *; split; lra.
Qed.

Lemma unwrap_corr_int : forall d, is_int (unwrap_corr d).
Proof.
  intro d. unfold unwrap_corr. destruct (Qlt_bool (Qabs d) half); [apply is_int_0 | apply wrap_half_int].
Qed.

(* an unwrapped step is at most half a turn *)
Lemma unwrap_step_range : forall d, Qabs (d + unwrap_corr d) <= half.
Proof.
  intro d. unfold unwrap_corr. destruct (Qlt_bool (Qabs d) half) eqn:E.
  - apply qlt_bool_true in E. apply Qlt_le_weak in E. apply Qabs_Qle_condition in E.
    apply Qabs_Qle_condition. lra.
  - pose proof (wrap_half_range d). apply Qabs_Qle_condition. lra.
Qed.

(* steps smaller than half a turn are left alone *)
Lemma unwrap_corr_small : forall d, Qabs d < half -> unwrap_corr d = 0.
Proof. intros d H. unfold unwrap_corr. apply qlt_bool_true in H. rewrite H. reflexivity. Qed.

Fixpoint steps_le_half (l : list Q) : Prop :=
  match l with
  | a :: t => match t with b :: _ => Qabs (b - a) <= half | [] => True end /\ steps_le_half t
  | [] => True
  end.

Lemma unwrap_from_congr : forall l prev acc, is_int acc ->
  Forall2 (fun u p => is_int (u - p)) (unwrap_from prev acc l) l.
Proof.
  induction l as [|p t IH]; intros prev acc Ha; cbn [unwrap_from]; constructor.
  - apply (is_int_eq (acc + unwrap_corr (p - prev))); [ring|].
    apply is_int_plus; [exact Ha | apply unwrap_corr_int].
  - apply IH. apply is_int_plus; [exact Ha | apply unwrap_corr_int].
Qed.

Lemma unwrap_from_steps : forall l prev acc,
  steps_le_half ((prev + acc) :: unwrap_from prev acc l).
Proof.
  induction l as [|p t IH]; intros prev acc; cbn [unwrap_from steps_le_half]; [tauto|]. split.
  - pose proof (unwrap_step_range (p - prev)) as H. apply Qabs_Qle_condition in H.
    apply Qabs_Qle_condition. lra.
  - apply (IH p (acc + unwrap_corr (p - prev))).
Qed.

(* numpy.unwrap: every sample is moved by a whole number of turns, the first not at all, and consecutive
   results are at most half a turn apart *)
Lemma unwrap_congruent : forall l,
  Forall2 congr1 (unwrap l) l /\ steps_le_half (unwrap l) /\ hd 0 (unwrap l) = hd 0 l.
Proof.
  intros [|p t]; cbn [unwrap hd steps_le_half].
  - split; [apply Forall2_nil | split; [exact Logic.I | reflexivity]].
  - split; [|split; [|reflexivity]].
    + constructor; [apply congr1_refl; reflexivity | apply unwrap_from_congr; apply is_int_0].
    + pose proof (unwrap_from_steps t p 0) as H. cbn [steps_le_half] in H. destruct H as [H1 H2].
      split; [|exact H2].
      destruct (unwrap_from p 0 t); [exact Logic.I|]. apply Qabs_Qle_condition in H1. apply Qabs_Qle_condition. lra.
Qed.

Lemma forall2_length : forall {A B} (R : A -> B -> Prop) l1 l2, Forall2 R l1 l2 -> List.length l1 = List.length l2.
Proof. intros A B R l1 l2 H. induction H; simpl; congruence. Qed.

Lemma unwrap_length : forall l, List.length (unwrap l) = List.length l.
Proof. intro l. destruct (unwrap_congruent l) as [H _]. eapply forall2_length. exact H. Qed.

(* ------------------------------------------------------------------ strictly increasing abscissae *)
Fixpoint sinc_xs (l : list Q) : Prop :=
  match l with
  | [] => True
  | x0 :: t => match t with [] => True | x1 :: _ => x0 < x1 end /\ sinc_xs t
  end.
Definition cn_inc (ns : list cnode) : Prop := sinc_xs (map fst ns).

Lemma strictly_inc_xs : forall l : list node, strictly_inc l <-> sinc_xs (map fst l).
Proof.
  induction l as [|[x0 y0] t IH]; [simpl; tauto|].
  cbn [strictly_inc sinc_xs map fst]. destruct t as [|[x1 y1] t']; [simpl; tauto|].
  cbn [map fst] in *. rewrite IH. tauto.
Qed.

Lemma map_fst_combine : forall {A B} (xs : list A) (ys : list B),
  List.length xs = List.length ys -> map fst (combine xs ys) = xs.
Proof.
  induction xs as [|x xs IH]; intros [|y ys] H; simpl in *; try discriminate; [reflexivity|].
  f_equal. apply IH. congruence.
Qed.

Lemma mag_nodes_fst : forall ns, map fst (mag_nodes ns) = map fst ns.
Proof. intro ns. unfold mag_nodes. rewrite map_map. reflexivity. Qed.
Lemma phase_nodes_fst : forall ns, map fst (phase_nodes ns) = map fst ns.
Proof.
  intro ns. unfold phase_nodes. apply map_fst_combine. rewrite unwrap_length, !map_length. reflexivity.
Qed.
Lemma mag_nodes_inc : forall ns, cn_inc ns -> strictly_inc (mag_nodes ns).
Proof. intros ns H. apply strictly_inc_xs. rewrite mag_nodes_fst. exact H. Qed.
Lemma phase_nodes_inc : forall ns, cn_inc ns -> strictly_inc (phase_nodes ns).
Proof. intros ns H. apply strictly_inc_xs. rewrite phase_nodes_fst. exact H. Qed.

Lemma sinc_xs_head_lt : forall t x0 x, sinc_xs (x0 :: t) -> In x t -> x0 < x.
Proof.
  induction t as [|x1 t IH]; intros x0 x H HI; [inversion HI|].
  cbn [sinc_xs] in H. destruct H as [H01 H1]. destruct HI as [E|HI].
  - subst. exact H01.
  - assert (x1 < x) by (apply IH; [exact H1 | exact HI]). lra.
Qed.
Lemma sinc_xs_le_last : forall l x d, sinc_xs l -> In x l -> x <= last l d.
Proof.
  induction l as [|x0 t IH]; intros x d H HI; [inversion HI|].
  destruct t as [|x1 t'].
  - destruct HI as [E|[]]. subst. simpl. lra.
  - change (last (x0 :: x1 :: t') d) with (last (x1 :: t') d).
    cbn [sinc_xs] in H. destruct H as [H01 H1]. destruct HI as [E|HI].
    + subst. assert (x1 <= last (x1 :: t') d) by (apply IH; [exact H1 | left; reflexivity]). lra.
    + apply IH; assumption.
Qed.

Lemma last_map : forall {A B} (f : A -> B) (l : list A) d, last (map f l) (f d) = f (last l d).
Proof.
  induction l as [|a t IH]; intro d; [reflexivity|]. destruct t as [|b t']; [reflexivity|].
  change (last (map f (a :: b :: t')) (f d)) with (last (map f (b :: t')) (f d)). rewrite IH. reflexivity.
Qed.

(* x0 <= x <= xn: cinterp is the interpolation of magnitude and unwrapped phase whatever left/right are *)
Lemma cinterp_inner : forall l r x0 v0 t x,
  x0 <= x -> x <= fst (last ((x0, v0) :: t) (x0, (0, 0))) ->
  cinterp l r ((x0, v0) :: t) x =
  Some (interp_d (mag_nodes ((x0, v0) :: t)) x, interp_d (phase_nodes ((x0, v0) :: t)) x).
Proof.
  intros l r x0 v0 t x H0 Hn. unfold cinterp. cbv zeta.
  apply qlt_bool_false in H0. rewrite H0.
  match goal with |- (if ?c then _ else _) = _ => destruct c eqn:E2 end; [|reflexivity].
  apply qlt_bool_true in E2. exfalso. apply (Qlt_not_le _ _ E2). exact Hn.
Qed.

(* with left = right = None (the gain case) it is that interpolation everywhere *)
Lemma cinterp_hold : forall n t x,
  cinterp Hold Hold (n :: t) x = Some (interp_d (mag_nodes (n :: t)) x, interp_d (phase_nodes (n :: t)) x).
Proof.
  intros [x0 v0] t x. unfold cinterp. cbv zeta.
  destruct (Qlt_bool x x0); [reflexivity|]. destruct (Qlt_bool _ x); reflexivity.
Qed.

Lemma in_combine_maps : forall {A B C} (f : A -> B) (g : A -> C) (l : list A) a,
  In a l -> In (f a, g a) (combine (map f l) (map g l)).
Proof.
  induction l as [|b t IH]; intros a H; [inversion H|]. destruct H as [E|H]; [subst; left; reflexivity|].
  right. apply IH. exact H.
Qed.

Lemma in_combine_forall2 : forall {A} (R : Q -> Q -> Prop) (xs : list A) us ps x p,
  Forall2 R us ps -> In (x, p) (combine xs ps) -> exists u, In (x, u) (combine xs us) /\ R u p.
Proof.
  intros A R xs us ps x p H. revert xs. induction H as [|u0 p0 us ps H0 H IH]; intros xs HI.
  - destruct xs; inversion HI.
  - destruct xs as [|x0 xs]; [inversion HI|]. destruct HI as [E|HI].
    + inversion E; subst. exists u0. split; [left; reflexivity | exact H0].
    + destruct (IH xs HI) as [u [Hu Ru]]. exists u. split; [right; exact Hu | exact Ru].
Qed.

(* complex_interp AT a node: same magnitude, phase equal up to whole turns *)
Lemma cinterp_exact_at_nodes : forall l r ns x xi m p,
  cn_inc ns -> In (xi, (m, p)) ns -> x == xi ->
  exists m' p', cinterp l r ns x = Some (m', p') /\ m' == m /\ congr1 p' p.
Proof.
  intros l r ns x xi m p Hinc HI E.
  destruct ns as [|[x0 v0] t]; [inversion HI|].
  assert (H0 : x0 <= x).
  { destruct HI as [Eq|HI]; [inversion Eq; subst; lra|].
    assert (x0 < xi); [|lra]. apply (sinc_xs_head_lt (map fst t) x0 xi Hinc).
    change xi with (fst (xi, (m, p))). apply in_map. exact HI. }
  assert (Hn : x <= fst (last ((x0, v0) :: t) (x0, (0, 0)))).
  { rewrite <- (last_map fst). rewrite E. apply sinc_xs_le_last; [exact Hinc|].
    change xi with (fst (xi, (m, p))). apply in_map. exact HI. }
  pose proof (cinterp_inner l r x0 v0 t x H0 Hn) as Hc.
  eexists. eexists. split; [exact Hc|]. split.
  - apply (interp_at_node _ x xi m); [apply mag_nodes_inc; exact Hinc | | exact E].
    unfold mag_nodes. change (xi, m) with ((fun n : cnode => (fst n, fst (snd n))) (xi, (m, p))).
    apply in_map. exact HI.
  - destruct (unwrap_congruent (map (fun n : cnode => snd (snd n)) ((x0, v0) :: t))) as [HF _].
    destruct (in_combine_forall2 congr1 (map fst ((x0, v0) :: t)) _ _ xi p HF) as [u [Hu Ru]].
    { apply (in_combine_maps (fun n : cnode => fst n) (fun n : cnode => snd (snd n)) _ (xi, (m, p))). exact HI. }
    assert (Ev : interp_d (phase_nodes ((x0, v0) :: t)) x == u).
    { apply (interp_at_node _ x xi u); [apply phase_nodes_inc; exact Hinc | exact Hu | exact E]. }
    unfold congr1 in *. destruct Ru as [k Hk]. exists k. rewrite <- Hk. rewrite Ev. reflexivity.
Qed.

(* ------------------------------------------------------------------ fmap (a[mask]) *)
Lemma fmap_app : forall {A B} (f : A -> option B) l1 l2, fmap f (l1 ++ l2) = fmap f l1 ++ fmap f l2.
Proof.
  induction l1 as [|a t IH]; intro l2; [reflexivity|]. simpl. destruct (f a); rewrite IH; reflexivity.
Qed.
Lemma fmap_in : forall {A B} (f : A -> option B) l b, In b (fmap f l) <-> exists a, In a l /\ f a = Some b.
Proof.
  induction l as [|a t IH]; intro b; simpl.
  - split; [tauto | intros [a [[] _]]].
  - destruct (f a) eqn:E; simpl; rewrite IH; split.
    + intros [Eb|[a' [Hi Hf]]]; [subst; exists a; auto | exists a'; auto].
    + intros [a' [[Ea|Hi] Hf]]; [subst; left; congruence | right; exists a'; auto].
    + intros [a' [Hi Hf]]. exists a'; auto.
    + intros [a' [[Ea|Hi] Hf]]; [subst; congruence | exists a'; auto].
Qed.
Lemma fmap_filter : forall {A B} (f : A -> option B) (k : A -> bool) l,
  (forall a, k a = false -> f a = None) -> fmap f (filter k l) = fmap f l.
Proof.
  intros A B f k l H. induction l as [|a t IH]; [reflexivity|]. simpl.
  destruct (k a) eqn:E; simpl; [rewrite IH; reflexivity|]. rewrite (H a E). exact IH.
Qed.

(* order is preserved: keys of the kept elements stay strictly increasing *)
Lemma fmap_sorted : forall {A B} (f : A -> option B) (ka : A -> nat) (kb : B -> Q) l,
  (forall a b, f a = Some b -> kb b = qn (ka a)) ->
  StronglySorted lt (map ka l) -> StronglySorted Qlt (map kb (fmap f l)).
Proof.
  intros A B f ka kb l Hk. induction l as [|a t IH]; intro H; [constructor|].
  simpl in H. inversion H as [|? ? Ht Hall]; subst. simpl. destruct (f a) eqn:E; [|apply IH; exact Ht].
  simpl. constructor; [apply IH; exact Ht|].
  apply Forall_forall. intros y Hy. apply in_map_iff in Hy. destruct Hy as [b' [Eb Hb']].
  apply fmap_in in Hb'. destruct Hb' as [a' [Ha' Hf']].
  rewrite (Hk a b E). rewrite <- Eb, (Hk a' b' Hf').
  rewrite Forall_forall in Hall. assert (L : (ka a < ka a')%nat) by (apply Hall; apply in_map; exact Ha').
  unfold qn. rewrite <- Zlt_Qlt. lia.
Qed.
Lemma sorted_sinc_xs : forall l, StronglySorted Qlt l -> sinc_xs l.
Proof.
  induction l as [|x0 t IH]; intro H; [exact Logic.I|]. inversion H as [|? ? Ht Hall]; subst.
  cbn [sinc_xs]. split; [|apply IH; exact Ht]. destruct t as [|x1 t']; [exact Logic.I|].
  rewrite Forall_forall in Hall. apply Hall. left. reflexivity.
Qed.

(* ------------------------------------------------------------------ gains *)
(* The model takes the left/right arguments of complex_interp, the valid mask and the always-skipping request names
   from Gen/Generated.v (regenerated from the source on every run).  These `_unfold` lemmas hold by computation only
   while the source says: gains hold the end values, bandpasses are INVALID outside, valid = finite & on_target,
   'all' / 'default' skip — if the source changes they (and so every theorem below) stop compiling. *)
Lemma gain_value_unfold : forall rs tgs d c,
  gain_value rs tgs d c = match gain_nodes rs tgs (target_at tgs d) c with
                          | [] => None
                          | ns => recip (cinterp Hold Hold ns (qn d))
                          end.
Proof. reflexivity. Qed.
Lemma gain_node_unfold : forall tgs tg c (s : rsol),
  gain_node tgs tg c s = match nth c (snd s) None with
                         | Some v => if Z.eqb (target_at tgs (fst s)) tg then Some (qn (fst s), v) else None
                         | None => None
                         end.
Proof. reflexivity. Qed.
Lemma bandpass_corr_seg_unfold : forall cf df bp,
  bandpass_corr_seg cf df bp = match valid_nodes cf bp with
                               | [] => map (fun _ => None) df
                               | ns => map (fun f => recip (cinterp Inval Inval ns f)) df
                               end.
Proof. reflexivity. Qed.
Lemma is_group_unfold : forall r,
  is_group r = match r with RStr s => (String.eqb s "all" || String.eqb s "default")%bool | RList _ => false end.
Proof. intros [s|l]; [|reflexivity]. unfold is_group, mem_string. cbn [existsb skip_group_names]. rewrite orb_false_r. reflexivity. Qed.

(* MODEL = SPEC: with the decisions regenerated from the current source the model of B and G is the documented rule *)
Lemma bandpass_is_spec : forall cf df segs, bandpass_corr cf df segs = spec_bandpass_corr cf df segs.
Proof. reflexivity. Qed.
Lemma gain_is_spec : forall N sols targets, gain_corr N sols targets = spec_gain_corr N sols targets.
Proof. reflexivity. Qed.

Lemma gain_node_key : forall tgs tg c (a : rsol) (b : cnode), gain_node tgs tg c a = Some b -> fst b = qn (fst a).
Proof.
  intros tgs tg c a b H. rewrite gain_node_unfold in H. destruct (nth c (snd a) None); [|discriminate].
  destruct (Z.eqb _ tg); [|discriminate]. inversion H. reflexivity.
Qed.
Lemma gain_nodes_inc : forall rs tgs tg c, StronglySorted lt (map fst rs) -> cn_inc (gain_nodes rs tgs tg c).
Proof.
  intros rs tgs tg c H. unfold cn_inc, gain_nodes. apply sorted_sinc_xs.
  apply (fmap_sorted (gain_node tgs tg c) fst fst rs (gain_node_key tgs tg c) H).
Qed.

Lemma recip_congr : forall m1 p1 m p, m1 == m -> congr1 p1 p -> ~ m == 0 ->
  exists m' p', recip (Some (m1, p1)) = Some (m', p') /\ m' == / m /\ congr1 p' (- p).
Proof.
  intros m1 p1 m p Em Cp Hm. unfold recip. destruct (Qeq_bool m1 0) eqn:E.
  - apply Qeq_bool_iff in E. exfalso. apply Hm. rewrite <- Em. exact E.
  - eexists. eexists. split; [reflexivity|]. split; [rewrite Em; reflexivity | apply congr1_opp; exact Cp].
Qed.

(* every valid solution is reproduced (as its reciprocal) at its own dump *)
Lemma gain_reproduces_valid : forall rs tgs e g c m p,
  StronglySorted lt (map fst rs) -> In (e, g) rs -> nth c g None = Some (m, p) -> ~ m == 0 ->
  exists m' p', gain_value rs tgs e c = Some (m', p') /\ m' == / m /\ congr1 p' (- p).
Proof.
  intros rs tgs e g c m p Hs Hi Hv Hm. rewrite gain_value_unfold.
  assert (Hin : In (qn e, (m, p)) (gain_nodes rs tgs (target_at tgs e) c)).
  { apply fmap_in. exists (e, g). split; [exact Hi|]. rewrite gain_node_unfold. cbn [fst snd]. unfold pv in *. rewrite Hv, Z.eqb_refl. reflexivity. }
  destruct (cinterp_exact_at_nodes Hold Hold _ (qn e) (qn e) m p (gain_nodes_inc rs tgs _ c Hs) Hin (Qeq_refl _))
    as [m1 [p1 [Hc [Em Cp]]]].
  destruct (gain_nodes rs tgs (target_at tgs e) c) as [|n t] eqn:En; [inversion Hin|].
  rewrite Hc. apply recip_congr; assumption.
Qed.

(* invalid (NaN) solutions and the INVALID_GAIN placeholder play no role *)
Lemma gain_ignores_invalid : forall l1 l2 (s : rsol) tgs d c,
  nth c (snd s) None = None -> gain_value (l1 ++ s :: l2) tgs d c = gain_value (l1 ++ l2) tgs d c.
Proof.
  intros l1 l2 s tgs d c H. rewrite !gain_value_unfold. unfold gain_nodes. rewrite !fmap_app. cbn [fmap].
  rewrite (gain_node_unfold _ _ _ s), H. reflexivity.
Qed.
Lemma placeholder_ignored : forall l1 l2 e, real_sols (l1 ++ (e, None) :: l2) = real_sols (l1 ++ l2).
Proof. intros. unfold real_sols. rewrite !fmap_app. reflexivity. Qed.

(* self-cal: only the solutions derived on the target of dump d matter at dump d *)
Definition on_target_of (tgs : list Z) (d : nat) (s : rsol) : bool := Z.eqb (target_at tgs (fst s)) (target_at tgs d).
Lemma selfcal_target_isolation : forall rs rs' tgs d c,
  filter (on_target_of tgs d) rs = filter (on_target_of tgs d) rs' ->
  gain_value rs tgs d c = gain_value rs' tgs d c.
Proof.
  intros rs rs' tgs d c H. rewrite !gain_value_unfold. unfold gain_nodes.
  assert (K : forall a, on_target_of tgs d a = false -> gain_node tgs (target_at tgs d) c a = None).
  { intros a Ha. rewrite gain_node_unfold. unfold on_target_of in Ha. rewrite Ha. destruct (nth c (snd a) None); reflexivity. }
  rewrite <- (fmap_filter _ _ rs K), <- (fmap_filter _ _ rs' K), H. reflexivity.
Qed.

(* before the first / after the last valid same-target solution the nearest one is held *)
Lemma gain_holds_first : forall rs tgs d c x0 m0 p0 t,
  StronglySorted lt (map fst rs) ->
  gain_nodes rs tgs (target_at tgs d) c = (x0, (m0, p0)) :: t -> qn d <= x0 -> ~ m0 == 0 ->
  exists m' p', gain_value rs tgs d c = Some (m', p') /\ m' == / m0 /\ congr1 p' (- p0).
Proof.
  intros rs tgs d c x0 m0 p0 t Hs En Hd Hm. rewrite gain_value_unfold. rewrite En, cinterp_hold.
  pose proof (gain_nodes_inc rs tgs (target_at tgs d) c Hs) as Hinc. rewrite En in Hinc.
  apply recip_congr; [| |exact Hm].
  - apply (interp_left x0 m0 (mag_nodes t)); [apply (mag_nodes_inc _ Hinc) | exact Hd].
  - apply congr1_refl. unfold phase_nodes. cbn [map fst snd unwrap combine].
    apply (interp_left x0 p0); [|exact Hd].
    apply (phase_nodes_inc _ Hinc).
Qed.

Lemma nth_map_seq : forall {A} (f : nat -> A) n s d dflt, (d < n)%nat -> nth d (map f (seq s n)) dflt = f (s + d)%nat.
Proof.
  intros A f n. induction n as [|n IH]; intros s d dflt H; [lia|]. simpl. destruct d as [|d].
  - f_equal. lia.
  - rewrite IH by lia. f_equal. lia.
Qed.
(* the entries of the correction array are gain_value *)
Lemma gain_corr_entry : forall N sols targets d c,
  real_sols sols <> [] -> (d < N)%nat -> (c < n_chans (real_sols sols))%nat ->
  nth c (nth d (gain_corr N sols targets) []) None =
  gain_value (real_sols sols) (match targets with Some t => t | None => repeat 0%Z N end) d c.
Proof.
  intros N sols targets d c Hne Hd Hc. unfold gain_corr. destruct (real_sols sols) as [|r rs] eqn:E; [congruence|].
  rewrite nth_map_seq by exact Hd. rewrite nth_map_seq by exact Hc. reflexivity.
Qed.

(* ------------------------------------------------------------------ bandpass *)
Lemma bandpass_entry : forall cf df bp n t i, valid_nodes cf bp = n :: t -> (i < List.length df)%nat ->
  nth i (bandpass_corr_seg cf df bp) None = recip (cinterp Inval Inval (n :: t) (nth i df 0)).
Proof.
  intros cf df bp n t i E Hi. rewrite bandpass_corr_seg_unfold. rewrite E.
  rewrite (nth_indep _ None (recip (cinterp Inval Inval (n :: t) 0))) by (rewrite map_length; exact Hi).
  apply (map_nth (fun f => recip (cinterp Inval Inval (n :: t) f))).
Qed.

(* no extrapolation beyond the outermost valid channels: INVALID there *)
Lemma bandpass_no_extrapolation : forall cf df bp x0 v0 t i,
  valid_nodes cf bp = (x0, v0) :: t -> (i < List.length df)%nat ->
  (nth i df 0 < x0 \/ fst (last ((x0, v0) :: t) (x0, (0, 0))) < nth i df 0) ->
  nth i (bandpass_corr_seg cf df bp) None = None.
Proof.
  intros cf df bp x0 v0 t i E Hi H. rewrite (bandpass_entry cf df bp _ _ i E Hi).
  unfold cinterp. cbv zeta. destruct (Qlt_bool (nth i df 0) x0) eqn:E1; [reflexivity|].
  destruct H as [H|H]; [apply qlt_bool_true in H; congruence|].
  match goal with |- recip (if ?c then _ else _) = _ => destruct c eqn:E2 end; [reflexivity|].
  apply qlt_bool_false in E2. exfalso. apply (Qlt_not_le _ _ H). exact E2.
Qed.

(* no valid channel at all: everything INVALID *)
Lemma bandpass_all_invalid : forall cf df bp, valid_nodes cf bp = [] ->
  bandpass_corr_seg cf df bp = map (fun _ => None) df.
Proof. intros cf df bp E. rewrite bandpass_corr_seg_unfold. rewrite E. reflexivity. Qed.

Lemma valid_node_key : forall a b, valid_node a = Some b -> fst b = fst a.
Proof. intros [x [v|]] b H; unfold valid_node in H; simpl in H; [inversion H; reflexivity | discriminate]. Qed.
Lemma fmap_sorted_q : forall {A B} (f : A -> option B) (ka : A -> Q) (kb : B -> Q) l,
  (forall a b, f a = Some b -> kb b = ka a) ->
  StronglySorted Qlt (map ka l) -> StronglySorted Qlt (map kb (fmap f l)).
Proof.
  intros A B f ka kb l Hk. induction l as [|a t IH]; intro H; [constructor|].
  simpl in H. inversion H as [|? ? Ht Hall]; subst. simpl. destruct (f a) eqn:E; [|apply IH; exact Ht].
  simpl. constructor; [apply IH; exact Ht|].
  apply Forall_forall. intros y Hy. apply in_map_iff in Hy. destruct Hy as [b' [Eb Hb']].
  apply fmap_in in Hb'. destruct Hb' as [a' [Ha' Hf']].
  rewrite (Hk a b E). rewrite <- Eb, (Hk a' b' Hf').
  rewrite Forall_forall in Hall. apply Hall. apply in_map. exact Ha'.
Qed.
Lemma sorted_combine_fst : forall {B} (xs : list Q) (ys : list B),
  StronglySorted Qlt xs -> StronglySorted Qlt (map fst (combine xs ys)).
Proof.
  intros B xs. induction xs as [|x xs IH]; intros ys H; [constructor|].
  destruct ys as [|y ys]; [constructor|]. inversion H as [|? ? Ht Hall]; subst. simpl.
  constructor; [apply IH; exact Ht|]. apply Forall_forall. intros z Hz. apply in_map_iff in Hz.
  destruct Hz as [[x' y'] [Ez Hin]]. apply in_combine_l in Hin. rewrite Forall_forall in Hall. subst z. apply Hall. exact Hin.
Qed.
Lemma valid_nodes_inc : forall cf bp, StronglySorted Qlt cf -> cn_inc (valid_nodes cf bp).
Proof.
  intros cf bp H. unfold cn_inc, valid_nodes. apply sorted_sinc_xs.
  apply (fmap_sorted_q valid_node fst fst _ valid_node_key). apply sorted_combine_fst. exact H.
Qed.

(* a data channel that coincides with a valid cal channel gets the reciprocal of that solution *)
Lemma bandpass_exact_at_valid : forall cf df bp i fc m p,
  StronglySorted Qlt cf -> In (fc, Some (m, p)) (combine cf bp) -> (i < List.length df)%nat ->
  nth i df 0 == fc -> ~ m == 0 ->
  exists m' p', nth i (bandpass_corr_seg cf df bp) None = Some (m', p') /\ m' == / m /\ congr1 p' (- p).
Proof.
  intros cf df bp i fc m p Hs Hin Hi Ef Hm.
  assert (Hn : In (fc, (m, p)) (valid_nodes cf bp)).
  { apply fmap_in. exists (fc, Some (m, p)). split; [exact Hin | reflexivity]. }
  destruct (valid_nodes cf bp) as [|n t] eqn:E; [inversion Hn|].
  rewrite (bandpass_entry cf df bp n t i E Hi).
  pose proof (valid_nodes_inc cf bp Hs) as Hinc. rewrite E in Hinc.
  destruct (cinterp_exact_at_nodes Inval Inval (n :: t) (nth i df 0) fc m p Hinc Hn Ef) as [m1 [p1 [Hc [Em Cp]]]].
  rewrite Hc. apply recip_congr; assumption.
Qed.

(* ------------------------------------------------------------------ delays *)
Lemma delay_formula : forall freqs d i, (i < List.length freqs)%nat ->
  nth i (delay_corr_seg freqs d) (0, 0) = (1, - ((match d with Some q => q | None => 0 end) * nth i freqs 0)).
Proof.
  intros freqs d i Hi. unfold delay_corr_seg.
  rewrite (nth_indep _ (0, 0) ((fun f => (1, - ((match d with Some q => q | None => 0 end) * f))) 0))
    by (rewrite map_length; exact Hi).
  apply (map_nth (fun f => (1, - ((match d with Some q => q | None => 0 end) * f)))).
Qed.
Lemma delay_missing_is_zero : forall freqs,
  Forall (fun v => fst v == 1 /\ snd v == 0) (delay_corr_seg freqs None).
Proof.
  intros freqs. unfold delay_corr_seg. apply Forall_forall. intros v H.
  apply in_map_iff in H. destruct H as [f [E _]]. subst v. simpl. split; [reflexivity | ring].
Qed.
Lemma delay_events_kept : forall delays freqs, List.length (delay_corr delays freqs) = List.length delays.
Proof. intros. unfold delay_corr. apply map_length. Qed.

(* ------------------------------------------------------------------ flux *)
Lemma merge_flux_override : forall measured ov n,
  lookup_flux (merge_flux measured (Some ov)) n =
  match lookup_flux ov n with Some f => Some f | None => lookup_flux measured n end.
Proof.
  intros measured ov n. unfold merge_flux. induction ov as [|[k f] t IH]; [reflexivity|].
  simpl. destruct (Z.eqb k n); [reflexivity | exact IH].
Qed.

Lemma first_flux_nil : forall names, first_flux [] names = None.
Proof. induction names as [|n t IH]; [reflexivity | exact IH]. Qed.

Section FluxP.
  Variable rsqrt : Q -> Q.
  Definition flux_one (names_at : nat -> list Z) (tbl : flux_table) (s : sol) : sol :=
    match snd s with
    | None => s
    | Some g => match first_flux tbl (names_at (fst s)) with
                | Some f => (fst s, Some (map (scale_pv (rsqrt f)) g))
                | None => s
                end
    end.
  Lemma calibrate_flux_map : forall sols names_at tbl,
    calibrate_flux rsqrt sols names_at tbl = map (flux_one names_at tbl) sols.
  Proof.
    intros sols names_at tbl. unfold calibrate_flux. destruct tbl as [|e t]; [|reflexivity].
    induction sols as [|s r IH]; [reflexivity|]. simpl. rewrite <- IH. f_equal.
    unfold flux_one. destruct (snd s); [|reflexivity]. rewrite first_flux_nil. reflexivity.
  Qed.
End FluxP.

(* ------------------------------------------------------------------ product names *)
Open Scope string_scope.
Lemma mem_string_in : forall x l, In x l -> mem_string x l = true.
Proof.
  intros x l H. unfold mem_string. apply existsb_exists. exists x. split; [exact H | apply String.eqb_refl].
Qed.

Lemma expand_app : forall streams l1 l2,
  expand streams (l1 ++ l2) =
  match expand streams l1, expand streams l2 with Some a, Some b => Some (a ++ b)%list | _, _ => None end.
Proof.
  intros streams l1 l2. induction l1 as [|p t IH]; simpl.
  - destruct (expand streams l2); reflexivity.
  - rewrite IH. destruct (expand_one streams p); [|reflexivity].
    destruct (expand streams t); [|reflexivity]. destruct (expand streams l2); [|reflexivity].
    rewrite app_assoc. reflexivity.
Qed.

(* 'default' -> DEFAULT_CAL_PRODUCTS whatever streams exist, missing ones are skipped *)
Lemma normalise_default : forall streams, normalise (RStr "default") streams = Some (default_cal_products, true).
Proof. intro streams. reflexivity. Qed.

(* '' or [] -> nothing *)
Lemma normalise_empty : forall streams,
  normalise (RStr "") streams = Some ([], false) /\ normalise (RList []) streams = Some ([], false).
Proof. intro streams. split; reflexivity. Qed.

Lemma expand_streams : forall streams l,
  (forall s, In s l -> In s streams /\ has_dot s = false) ->
  expand streams l = Some (flat_map (fun s => map (join_dot s) cal_product_types) l).
Proof.
  intros streams l. induction l as [|p t IH]; intro H; [reflexivity|].
  cbn [expand flat_map]. rewrite IH by (intros s Hs; apply H; right; exact Hs).
  destruct (H p (or_introl eq_refl)) as [Hin Hd]. unfold expand_one. rewrite Hd, (mem_string_in _ _ Hin). reflexivity.
Qed.

(* 'all' -> every product type of every stream, in stream order; missing ones are skipped *)
Lemma normalise_all : forall streams, (forall s, In s streams -> has_dot s = false) ->
  normalise (RStr "all") streams =
  Some (flat_map (fun s => map (join_dot s) cal_product_types) streams, true).
Proof.
  intros streams H. unfold normalise. rewrite is_group_unfold. cbn [selection_to_list String.eqb Ascii.eqb Bool.eqb orb].
  change (selection_to_list (RStr "all") streams) with streams.
  rewrite expand_streams by (intros s Hs; split; [exact Hs | apply H; exact Hs]). reflexivity.
Qed.

(* a stream name -> all product types of that stream; a product type -> that type on every stream;
   stream.type -> itself; anything else -> ValueError *)
Lemma expand_one_cases : forall streams p,
  expand_one streams p =
  if has_dot p then Some [p]
  else if mem_string p streams then Some (map (join_dot p) cal_product_types)
  else if mem_string p cal_product_types then Some (map (fun s => join_dot s p) streams)
  else None.
Proof. reflexivity. Qed.

Lemma normalise_stream : forall streams s, In s streams -> has_dot s = false ->
  normalise (RList [s]) streams = Some (map (join_dot s) cal_product_types, true).
Proof.
  intros streams s Hin Hd. unfold normalise. rewrite is_group_unfold. cbn [selection_to_list expand existsb orb].
  unfold expand_one. rewrite Hd, (mem_string_in _ _ Hin). cbn [negb orb]. rewrite app_nil_r. reflexivity.
Qed.

Lemma normalise_type : forall streams t, In t cal_product_types -> mem_string t streams = false ->
  normalise (RList [t]) streams = Some (map (fun s => join_dot s t) streams, true).
Proof.
  intros streams t Hin Hs.
  assert (Hd : has_dot t = false).
  { revert Hin. unfold cal_product_types. cbn [In]. intros H.
    repeat (destruct H as [H|H]; [subst t; reflexivity|]). destruct H. }
  unfold normalise. rewrite is_group_unfold. cbn [selection_to_list expand existsb orb].
  unfold expand_one. rewrite Hd, Hs, (mem_string_in _ _ Hin). cbn [negb orb]. rewrite app_nil_r. reflexivity.
Qed.

Lemma expand_dotted : forall streams l, forallb has_dot l = true -> expand streams l = Some l.
Proof.
  intros streams l. induction l as [|p t IH]; intro H; [reflexivity|].
  cbn [forallb] in H. apply andb_true_iff in H. destruct H as [Hp Ht].
  cbn [expand]. rewrite (IH Ht). unfold expand_one. rewrite Hp. reflexivity.
Qed.
Lemma existsb_negb_forallb : forall {A} (f : A -> bool) l, forallb f l = true -> existsb (fun p => negb (f p)) l = false.
Proof.
  intros A f l. induction l as [|a t IH]; intro H; [reflexivity|]. cbn [forallb] in H.
  apply andb_true_iff in H. destruct H as [Ha Ht]. cbn [existsb]. rewrite Ha, (IH Ht). reflexivity.
Qed.
(* fully qualified names are taken verbatim and are then REQUIRED (not skipped when missing) *)
Lemma normalise_dotted : forall streams l, forallb has_dot l = true -> normalise (RList l) streams = Some (l, false).
Proof.
  intros streams l H. unfold normalise. rewrite is_group_unfold. cbn [selection_to_list orb].
  rewrite (expand_dotted _ _ H), (existsb_negb_forallb _ _ H). reflexivity.
Qed.

Lemma normalise_unknown : forall streams l p r, In p (selection_to_list r streams) ->
  l = selection_to_list r streams ->
  has_dot p = false -> mem_string p streams = false -> mem_string p cal_product_types = false ->
  normalise r streams = None.
Proof.
  intros streams l p r Hin El Hd Hs Ht. unfold normalise. rewrite <- El in *. clear El.
  assert (E : expand streams l = None).
  { apply in_split in Hin. destruct Hin as [l1 [l2 E]]. subst l. rewrite expand_app.
    destruct (expand streams l1); [|reflexivity]. cbn [expand]. unfold expand_one. rewrite Hd, Hs, Ht. reflexivity. }
  rewrite E. reflexivity.
Qed.

(* skip_missing_products: exactly for 'all', 'default' and whenever some requested name is not fully qualified *)
Lemma normalise_skip_flag : forall r streams l skip, normalise r streams = Some (l, skip) ->
  skip = (is_group r || existsb (fun p => negb (has_dot p)) (selection_to_list r streams))%bool.
Proof.
  intros r streams l skip H. unfold normalise in H. destruct (expand streams (selection_to_list r streams)); inversion H.
  reflexivity.
Qed.

Example normalise_examples :
  normalise (RStr "all") ["l1"; "l2"] =
    Some (["l1.K"; "l1.B"; "l1.G"; "l1.GPHASE"; "l1.GAMP_PHASE"; "l2.K"; "l2.B"; "l2.G"; "l2.GPHASE"; "l2.GAMP_PHASE"], true)
  /\ normalise (RStr " l1 , l2.GPHASE") ["l1"; "l2"] =
    Some (["l1.K"; "l1.B"; "l1.G"; "l1.GPHASE"; "l1.GAMP_PHASE"; "l2.GPHASE"], true)
  /\ normalise (RStr "G") ["l1"; "l2"] = Some (["l1.G"; "l2.G"], true)
  /\ normalise (RStr "l1.G,l2.GPHASE") ["l1"] = Some (["l1.G"; "l2.GPHASE"], false)
  /\ normalise (RStr "l3") ["l1"; "l2"] = None
  /\ normalise (RList ["all"]) ["l1"] = None.
Proof. repeat split; reflexivity. Qed.
Close Scope string_scope.

(* ------------------------------------------------------------------ the Cartesian interface *)
(* numpy's cos/sin are not modelled.  Whatever function turns (magnitude, phase in turns) into a complex number, if it
   is periodic in whole turns (and respects equality of rationals) then the correction the model produces at the dump of
   a valid solution IS the Cartesian reciprocal of that solution. *)
Section Cartesian.
  Variable C : Type.
  Variable from_polar : Q -> Q -> C.
  Hypothesis periodic : forall m m' p p', m == m' -> congr1 p p' -> from_polar m p = from_polar m' p'.

  Lemma gain_reproduces_valid_cartesian : forall rs tgs e g c m p,
    StronglySorted lt (map fst rs) -> In (e, g) rs -> nth c g None = Some (m, p) -> ~ m == 0 ->
    exists m' p', gain_value rs tgs e c = Some (m', p') /\ from_polar m' p' = from_polar (/ m) (- p).
  Proof.
    intros rs tgs e g c m p Hs Hi Hv Hm.
    destruct (gain_reproduces_valid rs tgs e g c m p Hs Hi Hv Hm) as [m' [p' [H [Em Cp]]]].
    exists m', p'. split; [exact H | apply periodic; assumption].
  Qed.
End Cartesian.

(* ------------------------------------------------------------------ non-vacuity *)
(* phases 0.4, -0.4 (a step of -0.8 -> unwrapped to +0.2), 0.1 *)
Example unwrap_example : map Qred (unwrap [2#5; -2#5; 1#10]) = [2#5; 3#5; 11#10].
Proof. vm_compute. reflexivity. Qed.

(* two targets (0 at dumps 0-2, 1 at dumps 3-5); solutions at dumps 1 (target 0), 4 and 5 (target 1), one NaN at 2 *)
Definition ex_rs : list rsol := [(1%nat, [Some (2, 1#8)]); (2%nat, [None]); (4%nat, [Some (4, 3#8)]); (5%nat, [Some (1, -3#8)])].
Definition ex_tgs : list Z := [0; 0; 0; 1; 1; 1]%Z.
Example gain_example :
  StronglySorted lt (map fst ex_rs) /\
  map (fun d => gain_value ex_rs ex_tgs d 0) (seq 0 6) =
    [recip (Some (2, 1#8)); recip (Some (2, 1#8)); recip (Some (2, 1#8));
     gain_value ex_rs ex_tgs 3 0; gain_value ex_rs ex_tgs 4 0; gain_value ex_rs ex_tgs 5 0] /\
  (exists m p, gain_value ex_rs ex_tgs 3 0 = Some (m, p) /\ m == 1 # 4 /\ p == - (3 # 8)) /\
  (exists m p, gain_value ex_rs ex_tgs 5 0 = Some (m, p) /\ m == 1 /\ p - (3 # 8) == -1).
Proof.
  split; [repeat constructor|]. split; [vm_compute; reflexivity|]. split.
  - eexists. eexists. split; [vm_compute; reflexivity|]. split; reflexivity.
  - eexists. eexists. split; [vm_compute; reflexivity|]. split; reflexivity.
Qed.

Example bandpass_example :
  let cf := [100; 101; 102; 103; 104] in
  let bp := [None; Some (2, 0); None; Some (4, 1#4); None] in
  StronglySorted Qlt cf /\
  nth 0 (bandpass_corr_seg cf cf bp) None = None /\ nth 4 (bandpass_corr_seg cf cf bp) None = None
  /\ exists m p, nth 2 (bandpass_corr_seg cf cf bp) None = Some (m, p) /\ m == 1 # 3 /\ p == - (1 # 8).
Proof.
  cbv zeta. split; [repeat constructor; reflexivity|]. split; [vm_compute; reflexivity|].
  split; [vm_compute; reflexivity|].
  eexists. eexists. split; [vm_compute; reflexivity|]. split; reflexivity.
Qed.

Example stitch_example :
  let a : part := [(1, [Some (1, 0)]); (3, [Some (2, 0)])] in
  let b : part := [] in
  let c : part := [(3, [Some (5, 0); Some (6, 0)]); (4, [Some (7, 0); None])] in
  stitch [a; b; c] = Some [(1, [Some (1, 0); None; None]);
                           (3, [Some (2, 0); None; None; Some (5, 0); Some (6, 0)]);
                           (4, [None; None; None; None; Some (7, 0); None])]
  /\ stitch [b; b] = None.
Proof. split; vm_compute; reflexivity. Qed.

(* ------------------------------------------------------------------ hold after the last solution *)
Lemma combine_app_eq : forall {A B} (a c : list A) (b d : list B), List.length a = List.length b ->
  combine (a ++ c) (b ++ d) = combine a b ++ combine c d.
Proof.
  induction a as [|x a IH]; intros c b d H; destruct b as [|y b]; simpl in H; try discriminate; [reflexivity|].
  simpl. f_equal. apply IH. congruence.
Qed.

Lemma phase_nodes_last : forall h xn mn pn,
  exists h' u, phase_nodes (h ++ [(xn, (mn, pn))]) = h' ++ [(xn, u)] /\ congr1 u pn.
Proof.
  intros h xn mn pn. unfold phase_nodes. rewrite !map_app. cbn [map fst snd].
  match goal with |- context [unwrap ?l] => destruct (unwrap_congruent l) as [HF _]; remember (unwrap l) as U end.
  apply Forall2_app_inv_r in HF. destruct HF as [l1 [l2 [H1 [H2 E]]]].
  inversion H2 as [|u ? l2' ? Ru Hnil]; subst. inversion Hnil; subst.
  exists (combine (map fst h) l1), u. split; [|exact Ru].
  rewrite E. rewrite combine_app_eq; [reflexivity|].
  rewrite (forall2_length _ _ _ H1), !map_length. reflexivity.
Qed.

Lemma cinterp_hold_app : forall h n x,
  cinterp Hold Hold (h ++ [n]) x = Some (interp_d (mag_nodes (h ++ [n])) x, interp_d (phase_nodes (h ++ [n])) x).
Proof. intros [|a h] n x; simpl app; apply cinterp_hold. Qed.
Lemma gain_value_ne : forall rs tgs d c ns, gain_nodes rs tgs (target_at tgs d) c = ns -> ns <> [] ->
  gain_value rs tgs d c = recip (cinterp Hold Hold ns (qn d)).
Proof. intros rs tgs d c ns E H. rewrite gain_value_unfold. rewrite E. destruct ns; [congruence | reflexivity]. Qed.

Lemma gain_holds_last : forall rs tgs d c h xn mn pn,
  StronglySorted lt (map fst rs) ->
  gain_nodes rs tgs (target_at tgs d) c = h ++ [(xn, (mn, pn))] -> xn <= qn d -> ~ mn == 0 ->
  exists m' p', gain_value rs tgs d c = Some (m', p') /\ m' == / mn /\ congr1 p' (- pn).
Proof.
  intros rs tgs d c h xn mn pn Hs En Hd Hm.
  pose proof (gain_nodes_inc rs tgs (target_at tgs d) c Hs) as Hinc. rewrite En in Hinc.
  rewrite (gain_value_ne rs tgs d c _ En) by (destruct h; discriminate).
  rewrite cinterp_hold_app.
  destruct (phase_nodes_last h xn mn pn) as [h' [u [Ep Cu]]].
  apply recip_congr; [| |exact Hm].
  - pose proof (mag_nodes_inc _ Hinc) as Hi. unfold mag_nodes in *. rewrite map_app in *. cbn [map fst snd] in *.
    apply interp_right; assumption.
  - pose proof (phase_nodes_inc _ Hinc) as Hi.
    assert (Ev : interp_d (phase_nodes (h ++ [(xn, (mn, pn))])) (qn d) == u).
    { rewrite Ep in *. apply interp_right; assumption. }
    unfold congr1 in *. destruct Cu as [k Hk]. exists k. rewrite <- Hk.
    unfold Qminus. apply Qplus_comp; [exact Ev | reflexivity].
Qed.

(* ------------------------------------------------------------------ stitching *)
Definition sorted_part (p : part) : Prop := StronglySorted Qlt (map fst p).

Lemma opt_min_spec : forall a b t, opt_min a b = Some t ->
  (a = Some t \/ b = Some t) /\ (forall x, a = Some x -> t <= x) /\ (forall y, b = Some y -> t <= y).
Proof.
  intros [x|] [y|] t H; simpl in H; inversion H; subst; clear H.
  - destruct (Qle_bool x y) eqn:E.
    + apply Qle_bool_iff in E. split; [left; reflexivity|]. split; intros z Hz; inversion Hz; subst; lra.
    + assert (y < x) by (apply qlt_bool_true; unfold Qlt_bool; rewrite E; reflexivity).
      split; [right; reflexivity|]. split; intros z Hz; inversion Hz; subst; lra.
  - split; [left; reflexivity|]. split; intros z Hz; inversion Hz; subst; lra.
  - split; [right; reflexivity|]. split; intros z Hz; inversion Hz; subst; lra.
Qed.

Lemma sorted_head_le : forall (p : part) s0 r s, sorted_part (s0 :: r) -> In s (s0 :: r) -> fst s0 <= fst s.
Proof.
  intros p s0 r s H [E|Hi]; [subst; lra|]. unfold sorted_part in H. simpl in H.
  inversion H as [|? ? _ Hall]; subst. rewrite Forall_forall in Hall.
  apply Qlt_le_weak. apply Hall. apply in_map. exact Hi.
Qed.

Lemma min_ts_spec : forall ps t, Forall sorted_part ps -> min_ts ps = Some t ->
  (exists p s, In p ps /\ In s p /\ fst s = t) /\ (forall p s, In p ps -> In s p -> t <= fst s).
Proof.
  induction ps as [|p ps IH]; intros t Hs H; [discriminate|].
  inversion Hs as [|? ? Hp Hps]; subst. cbn [min_ts fold_right] in H. fold (min_ts ps) in H.
  destruct (opt_min_spec _ _ _ H) as [Hor [Ha Hb]]. split.
  - destruct Hor as [E|E].
    + destruct p as [|s0 r]; [discriminate|]. simpl in E. inversion E. exists (s0 :: r), s0.
      split; [left; reflexivity|]. split; [left; reflexivity | reflexivity].
    + destruct (IH t Hps E) as [[p' [s [Hi [Hs' Ef]]]] _]. exists p', s. split; [right; exact Hi | auto].
  - intros p' s [E|Hi] Hin.
    + subst p'. destruct p as [|s0 r]; [inversion Hin|].
      assert (t <= fst s0) by (apply Ha; reflexivity). pose proof (sorted_head_le (s0 :: r) s0 r s Hp Hin). lra.
    + destruct (min_ts ps) as [y|] eqn:Ey.
      * assert (t <= y) by (apply Hb; reflexivity). destruct (IH y Hps eq_refl) as [_ Hle].
        pose proof (Hle p' s Hi Hin). lra.
      * exfalso. clear - Ey Hi Hin. induction ps as [|q ps IH]; [inversion Hi|].
        cbn [min_ts fold_right] in Ey. fold (min_ts ps) in Ey. destruct Hi as [E|Hi].
        -- subst q. destruct p' as [|s0 r]; [inversion Hin|]. simpl in Ey. destruct (min_ts ps); discriminate.
        -- apply IH; [|exact Hi]. destruct (head_ts q), (min_ts ps); try discriminate; reflexivity.
Qed.

Lemma advance_incl : forall t (p : part) s, In s (advance t p) -> In s p.
Proof.
  intros t [|s0 r] s H; [inversion H|]. simpl in H. destruct (Qeq_bool (fst s0) t); [right; exact H | exact H].
Qed.
Lemma advance_sorted : forall t p, sorted_part p -> sorted_part (advance t p).
Proof.
  intros t [|s0 r] H; [exact H|]. simpl. destruct (Qeq_bool (fst s0) t); [|exact H].
  unfold sorted_part in *. simpl in H. inversion H; assumption.
Qed.
Lemma advance_gt : forall t p s, sorted_part p -> (forall s', In s' p -> t <= fst s') -> In s (advance t p) -> t < fst s.
Proof.
  intros t [|s0 r] s Hs Hle Hin; [inversion Hin|]. simpl in Hin.
  assert (Hr : forall x, In x r -> fst s0 < fst x).
  { unfold sorted_part in Hs. simpl in Hs. inversion Hs as [|? ? _ Hall]; subst. rewrite Forall_forall in Hall.
    intros x Hx. apply Hall. apply in_map. exact Hx. }
  pose proof (Hle s0 (or_introl eq_refl)) as H0.
  destruct (Qeq_bool (fst s0) t) eqn:E.
  - apply Qeq_bool_iff in E. pose proof (Hr s Hin). lra.
  - assert (~ fst s0 == t) by (intro K; apply Qeq_bool_iff in K; congruence).
    assert (t < fst s0) by (destruct (Qlt_le_dec t (fst s0)) as [L|L]; [exact L | exfalso; apply H; lra]).
    destruct Hin as [Eq|Hin]; [subst; exact H1 | pose proof (Hr s Hin); lra].
Qed.

Lemma stitch_fuel_props : forall f ps, Forall sorted_part ps ->
  StronglySorted Qlt (map fst (stitch_fuel f ps)) /\
  (forall s, In s (stitch_fuel f ps) -> exists p s', In p ps /\ In s' p /\ fst s' = fst s).
Proof.
  induction f as [|f IH]; intros ps Hs; [split; [constructor | intros s []]|].
  cbn [stitch_fuel]. destruct (min_ts ps) as [t|] eqn:Em; [|split; [constructor | intros s []]].
  destruct (min_ts_spec ps t Hs Em) as [[p0 [s0 [Hp0 [Hs0 Et]]]] Hle].
  assert (Hs' : Forall sorted_part (map (advance t) ps)).
  { apply Forall_forall. intros q Hq. apply in_map_iff in Hq. destruct Hq as [p [E Hp]]. subst q.
    apply advance_sorted. rewrite Forall_forall in Hs. apply Hs. exact Hp. }
  destruct (IH _ Hs') as [Hsorted Hsound]. split.
  - cbn [map fst]. constructor; [exact Hsorted|]. apply Forall_forall. intros y Hy.
    apply in_map_iff in Hy. destruct Hy as [s [Ey Hin]]. subst y.
    destruct (Hsound s Hin) as [q [s' [Hq [Hs'' Ef]]]]. rewrite <- Ef.
    apply in_map_iff in Hq. destruct Hq as [p [E Hp]]. subst q.
    apply (advance_gt t p s'); [rewrite Forall_forall in Hs; apply Hs; exact Hp | intros x Hx; apply (Hle p x Hp Hx) | exact Hs''].
  - intros s [E|Hin].
    + subst s. exists p0, s0. auto.
    + destruct (Hsound s Hin) as [q [s' [Hq [Hs'' Ef]]]].
      apply in_map_iff in Hq. destruct Hq as [p [E Hp]]. subst q.
      exists p, s'. split; [exact Hp|]. split; [eapply advance_incl; exact Hs'' | exact Ef].
Qed.

Lemma stitch_sorted_sound : forall ps out,
  Forall (fun p => StronglySorted Qlt (map fst p)) ps -> stitch ps = Some out ->
  StronglySorted Qlt (map fst out) /\
  (forall s, In s out -> exists p s', In p ps /\ In s' p /\ fst s' = fst s).
Proof.
  intros ps out Hs H. unfold stitch in H.
  destruct (stitch_fuel_props (total_len ps) ps Hs) as [H1 H2].
  destruct (stitch_fuel (total_len ps) ps) eqn:E; [discriminate|]. inversion H; subst. split; assumption.
Qed.

Lemma min_ts_all_empty : forall ps, (forall p, In p ps -> p = []) -> min_ts ps = None.
Proof.
  induction ps as [|p ps IH]; intro H; [reflexivity|]. cbn [min_ts fold_right]. fold (min_ts ps).
  rewrite IH by (intros q Hq; apply H; right; exact Hq). rewrite (H p (or_introl eq_refl)). reflexivity.
Qed.
Lemma stitch_channel_order : forall pcs,
  assemble pcs = flat_map (fun pc => match pc with Some v => v | None => map (fun _ => None) (last_present pcs []) end) pcs
  /\ (forall ps, (forall p, In p ps -> p = []) -> stitch ps = None).
Proof.
  intro pcs. split; [reflexivity|]. intros ps H. unfold stitch.
  destruct (total_len ps); cbn [stitch_fuel]; [reflexivity|]. rewrite (min_ts_all_empty ps H). reflexivity.
Qed.
