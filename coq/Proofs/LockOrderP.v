(* C20 (extension): locks taken in rank order never deadlock and exclude each other, for every schedule. *)
From Coq Require Import List Arith Bool Lia.
From KV Require Import Base.Sx Model.LockOrder.
Import ListNotations.

Fixpoint desc (l : list nat) : bool :=
  match l with [] => true | h :: hs => forallb (fun x => Nat.ltb x h) hs && desc hs end.

Section H.
Variable ts : list nat.

Record HInv (c : hcfg) : Prop := {
  hi_ordered : forall t, ordered (h_held c t) (h_prog c t) = true;
  hi_desc : forall t, desc (h_held c t) = true;
  hi_excl : forall t1 t2 l, In t1 ts -> In t2 ts -> In l (h_held c t1) -> In l (h_held c t2) -> t1 = t2;
  hi_others : forall t, ~ In t ts -> h_prog c t = [] /\ h_held c t = []
}.

Lemma hupd_same {A} (f : nat -> A) t x : hupd f t x t = x.
Proof. unfold hupd. rewrite Nat.eqb_refl. reflexivity. Qed.
Lemma hupd_other {A} (f : nat -> A) t x u : u <> t -> hupd f t x u = f u.
Proof. unfold hupd. intros H. apply Nat.eqb_neq in H. rewrite H. reflexivity. Qed.

Lemma is_held_false c l : is_held ts c l = false -> forall t, In t ts -> ~ In l (h_held c t).
Proof.
  unfold is_held. intros H t Ht Hin.
  assert (existsb (fun t0 => existsb (Nat.eqb l) (h_held c t0)) ts = true) as X; [|rewrite X in H; discriminate].
  apply existsb_exists. exists t. split; [exact Ht|]. apply existsb_exists. exists l. split; [exact Hin|apply Nat.eqb_refl].
Qed.
Lemma is_held_true c l : is_held ts c l = true -> exists t, In t ts /\ In l (h_held c t).
Proof.
  unfold is_held. intros H. apply existsb_exists in H. destruct H as (t & Ht & H). apply existsb_exists in H.
  destruct H as (x & Hx & E). apply Nat.eqb_eq in E. subst x. exists t. split; assumption.
Qed.

Lemma hinv_step c t : HInv c -> HInv (hstep ts c t).
Proof.
  intros [Ho Hd He Hn]. unfold hstep.
  destruct (h_prog c t) as [|[l|l] r] eqn:Ep; [constructor; assumption| |].
  - destruct (is_held ts c l) eqn:Eh; [constructor; assumption|].
    pose proof (Ho t) as Hot. rewrite Ep in Hot. simpl in Hot. apply andb_true_iff in Hot. destruct Hot as [Hlt Hor].
    constructor; simpl.
    + intros u. destruct (Nat.eq_dec u t) as [->|Hu]; [rewrite !hupd_same; exact Hor|rewrite !hupd_other by exact Hu; apply Ho].
    + intros u. destruct (Nat.eq_dec u t) as [->|Hu]; [|rewrite hupd_other by exact Hu; apply Hd].
      rewrite hupd_same. simpl. rewrite (Hd t), andb_true_r. exact Hlt.
    + intros t1 t2 x H1 H2 I1 I2.
      destruct (Nat.eq_dec t1 t) as [E1|N1]; destruct (Nat.eq_dec t2 t) as [E2|N2]; try congruence.
      * subst t1. rewrite hupd_same in I1. rewrite hupd_other in I2 by exact N2. destruct I1 as [<-|I1].
        -- exfalso. exact (is_held_false c l Eh t2 H2 I2).
        -- exact (He t t2 x H1 H2 I1 I2).
      * subst t2. rewrite hupd_same in I2. rewrite hupd_other in I1 by exact N1. destruct I2 as [<-|I2].
        -- exfalso. exact (is_held_false c l Eh t1 H1 I1).
        -- exact (He t1 t x H1 H2 I1 I2).
      * rewrite hupd_other in I1 by exact N1. rewrite hupd_other in I2 by exact N2. exact (He t1 t2 x H1 H2 I1 I2).
    + intros u Hu. destruct (Nat.eq_dec u t) as [->|Hne].
      * destruct (Hn t Hu) as [X _]. rewrite X in Ep. discriminate.
      * rewrite !hupd_other by exact Hne. apply Hn. exact Hu.
  - destruct (h_held c t) as [|h hs] eqn:Eh; [constructor; assumption|].
    destruct (Nat.eqb h l) eqn:El; [|constructor; assumption].
    pose proof (Ho t) as Hot. rewrite Ep, Eh in Hot. simpl in Hot. rewrite El in Hot. simpl in Hot.
    pose proof (Hd t) as Hdt. rewrite Eh in Hdt. simpl in Hdt. apply andb_true_iff in Hdt.
    constructor; simpl.
    + intros u. destruct (Nat.eq_dec u t) as [->|Hu]; [rewrite !hupd_same; exact Hot|rewrite !hupd_other by exact Hu; apply Ho].
    + intros u. destruct (Nat.eq_dec u t) as [->|Hu]; [rewrite hupd_same; exact (proj2 Hdt)|rewrite hupd_other by exact Hu; apply Hd].
    + intros t1 t2 x H1 H2 I1 I2.
      assert (forall u, In x (hupd (h_held c) t hs u) -> In x (h_held c u)) as Hsub.
      { intros u. destruct (Nat.eq_dec u t) as [->|Hu]; [rewrite hupd_same, Eh; intros X; right; exact X|rewrite hupd_other by exact Hu; auto]. }
      exact (He t1 t2 x H1 H2 (Hsub _ I1) (Hsub _ I2)).
    + intros u Hu. destruct (Nat.eq_dec u t) as [->|Hne].
      * destruct (Hn t Hu) as [X _]. rewrite X in Ep. discriminate.
      * rewrite !hupd_other by exact Hne. apply Hn. exact Hu.
Qed.

Lemma hinv_init prog : (forall t, ordered [] (prog t) = true) -> (forall t, ~ In t ts -> prog t = []) -> HInv (hinit prog).
Proof. intros H1 H2. constructor; simpl; auto. intros t1 t2 l _ _ []. Qed.

Theorem hier_inv prog schedule : (forall t, ordered [] (prog t) = true) -> (forall t, ~ In t ts -> prog t = []) ->
  HInv (hexec ts (hinit prog) schedule).
Proof.
  intros H1 H2. unfold hexec. generalize (hinv_init prog H1 H2). generalize (hinit prog).
  induction schedule as [|t s IH]; intros c H; simpl; [exact H|]. apply IH. apply hinv_step. exact H.
Qed.

Lemma max_in (l : list nat) : l <> [] -> exists m, In m l /\ forall x, In x l -> x <= m.
Proof.
  induction l as [|a l IH]; [intros H; contradiction|]. intros _. destruct l as [|b l'].
  - exists a. split; [left; reflexivity|]. intros x [<-|[]]. lia.
  - destruct IH as (m & Hm & Hmax); [discriminate|]. destruct (Nat.le_gt_cases a m).
    + exists m. split; [right; exact Hm|]. intros x [<-|Hx]; [lia|apply Hmax; exact Hx].
    + exists a. split; [left; reflexivity|]. intros x [<-|Hx]; [lia|]. specialize (Hmax x Hx). lia.
Qed.

Lemma desc_head_max h hs x : desc (h :: hs) = true -> In x (h :: hs) -> x <= h.
Proof.
  simpl. intros H [<-|Hx]; [lia|]. apply andb_true_iff in H. destruct H as [H _]. rewrite forallb_forall in H.
  specialize (H x Hx). apply Nat.ltb_lt in H. lia.
Qed.

(* NO DEADLOCK: as long as some thread has not finished, some thread can take its next step *)
Theorem hier_progress c : HInv c -> (exists t, In t ts /\ h_prog c t <> []) ->
  exists t, In t ts /\ List.length (h_prog (hstep ts c t) t) < List.length (h_prog c t).
Proof.
  intros [Ho Hd He Hn] (t0 & Ht0 & Hp0).
  destruct (flat_map (h_held c) ts) as [|a rest] eqn:Ef.
  - (* nothing is held *)
    assert (forall t, In t ts -> h_held c t = []) as Hnone.
    { intros t Ht. destruct (h_held c t) as [|x xs] eqn:E; [reflexivity|].
      assert (In x (flat_map (h_held c) ts)) as X by (apply in_flat_map; exists t; split; [exact Ht|rewrite E; left; reflexivity]).
      rewrite Ef in X. contradiction. }
    exists t0. split; [exact Ht0|]. unfold hstep. destruct (h_prog c t0) as [|[l|l] r] eqn:Ep; [contradiction| |].
    + destruct (is_held ts c l) eqn:Eh.
      * destruct (is_held_true c l Eh) as (t' & Ht' & Hin). rewrite (Hnone t' Ht') in Hin. contradiction.
      * simpl. rewrite hupd_same. simpl. lia.
    + pose proof (Ho t0) as X. rewrite Ep, (Hnone t0 Ht0) in X. simpl in X. discriminate.
  - destruct (max_in (flat_map (h_held c) ts)) as (m & Hm & Hmax); [rewrite Ef; discriminate|].
    apply in_flat_map in Hm. destruct Hm as (t & Ht & Hmt).
    exists t. split; [exact Ht|].
    destruct (h_held c t) as [|h hs] eqn:Eh; [contradiction|].
    assert (h = m) as ->.
    { pose proof (Hd t) as D. rewrite Eh in D. pose proof (desc_head_max h hs m D Hmt).
      assert (h <= m); [|lia]. apply Hmax. apply in_flat_map. exists t. split; [exact Ht|rewrite Eh; left; reflexivity]. }
    pose proof (Ho t) as Hot. rewrite Eh in Hot. unfold hstep.
    destruct (h_prog c t) as [|[l|l] r] eqn:Ep; [simpl in Hot; discriminate| |].
    + simpl in Hot. apply andb_true_iff in Hot. destruct Hot as [Hlt _]. apply andb_true_iff in Hlt. destruct Hlt as [Hml _].
      apply Nat.ltb_lt in Hml.
      destruct (is_held ts c l) eqn:Ehl.
      * destruct (is_held_true c l Ehl) as (t' & Ht' & Hin).
        assert (l <= m); [|lia]. apply Hmax. apply in_flat_map. exists t'. split; assumption.
      * simpl. rewrite hupd_same. simpl. lia.
    + simpl in Hot. apply andb_true_iff in Hot. destruct Hot as [El _]. rewrite Eh, El. simpl. rewrite hupd_same. simpl. lia.
Qed.

End H.

Theorem hier_no_deadlock ts prog schedule :
  (forall t, ordered [] (prog t) = true) -> (forall t, ~ In t ts -> prog t = []) ->
  let c := hexec ts (hinit prog) schedule in
  (exists t, In t ts /\ h_prog c t <> []) ->
  exists t, In t ts /\ List.length (h_prog (hstep ts c t) t) < List.length (h_prog c t).
Proof. intros H1 H2 c. apply hier_progress. apply hier_inv; assumption. Qed.

Theorem hier_mutex ts prog schedule :
  (forall t, ordered [] (prog t) = true) -> (forall t, ~ In t ts -> prog t = []) ->
  let c := hexec ts (hinit prog) schedule in
  forall t1 t2 l, In t1 ts -> In t2 ts -> In l (h_held c t1) -> In l (h_held c t2) -> t1 = t2.
Proof. intros H1 H2 c. exact (hi_excl ts c (hier_inv ts prog schedule H1 H2)). Qed.

(* the discipline is needed: two threads taking two locks in opposite orders can block each other for ever *)
Definition cross (t : nat) : list lop :=
  match t with 0 => [Acq 0; Acq 1; Rel 1; Rel 0] | 1 => [Acq 1; Acq 0; Rel 0; Rel 1] | _ => [] end.
Lemma unordered_deadlock :
  let c := hexec [0; 1] (hinit cross) [0; 1] in
  h_prog c 0 <> [] /\ hstep [0; 1] c 0 = c /\ hstep [0; 1] c 1 = c.
Proof. vm_compute. repeat split; (discriminate || reflexivity). Qed.
(* non-vacuity: two outer indexers over one inner one (locks 0, 1 -> 2), an interleaved schedule, both finish *)
Definition nested2 (t : nat) : list lop :=
  match t with 0 => [Acq 0; Acq 2; Rel 2; Rel 0] | 1 => [Acq 1; Acq 2; Rel 2; Rel 1] | _ => [] end.
Lemma nested_example :
  (forall t, ordered [] (nested2 t) = true) /\
  let c := hexec [0; 1] (hinit nested2) [0; 1; 0; 1; 1; 0; 0; 1; 1; 1] in h_prog c 0 = [] /\ h_prog c 1 = [].
Proof. split; [intros [|[|t]]; reflexivity|vm_compute; split; reflexivity]. Qed.
