(* C19: non-vacuity of the data theorem. *)
From Coq Require Import ZArith List Bool Lia.
From KV Require Import Base.Sx Base.PySlice Base.AxisIndex Base.NdArray Model.LazyIdx Model.ConcatData Proofs.ConcatDataP.
Import ListNotations.
Open Scope Z_scope.

(* data: two parts of 3 and 2 dumps, 2 channels x 3 products; dump 1 of the first part, product 1 deselected;
   an index running over the part boundary *)
Definition ex_dparts : list dpart :=
  [mk_dpart 3 [true; false; true] (arange [3; 2; 3] 0); mk_dpart 2 [true; true] (arange [2; 2; 3] 2)].
Definition ex_tailkeep : list (list bool) := [[true; true]; [true; false; true]].

Lemma ex_data :
  Forall dpart_ok ex_dparts /\ tail_ok [2; 3] ex_tailkeep /\
  ds_getitem [2; 3] ex_tailkeep 0 ex_dparts [ASlice (Some 1) None None; AInt 0]
  = Ok (mk_arr 0 (mk_nd [3; 2] (Node [Node [Leaf 12; Leaf 14]; Node [Leaf 24; Leaf 26]; Node [Leaf 30; Leaf 32]]))) /\
  spec_ds [2; 3] ex_tailkeep 0 ex_dparts [ASlice (Some 1) None None; AInt 0]
  = ds_getitem [2; 3] ex_tailkeep 0 ex_dparts [ASlice (Some 1) None None; AInt 0].
Proof.
  split.
  { repeat constructor; cbn; eexists; (split; [reflexivity|reflexivity]). }
  split.
  { split; repeat constructor; lia. }
  split; vm_compute; reflexivity.
Qed.

Lemma ex_data_short :
  Forall dpart_ok ex_dparts /\ tail_ok [2; 3]%Z ex_tailkeep /\
  ds_getitem [2; 3]%Z ex_tailkeep 0 ex_dparts
    [ASlice (Some 1%Z) None None; AInt 0]
  = spec_ds [2; 3]%Z ex_tailkeep 0 ex_dparts
    [ASlice (Some 1%Z) None None; AInt 0] /\
  ds_getitem [2; 3]%Z ex_tailkeep 0 ex_dparts
    [ASlice (Some 1%Z) None None; AInt 0] <> Err.
Proof.
  destruct ex_data as (A & B & C & D). split; [exact A|]. split; [exact B|]. split; [symmetry; exact D|].
  rewrite C. discriminate.
Qed.
