(* C19: non-vacuity of the data theorem. *)
From Coq Require Import ZArith List Bool Lia.
From KV Require Import Base.Sx Base.PySlice Base.AxisIndex Base.NdArray Model.LazyIdx Model.ConcatData Proofs.ConcatDataP.
Import ListNotations.
Open Scope Z_scope.

(* data: two parts of 3 and 2 dumps, 2 channels x 3 products; dump 1 of the first part, product 1 deselected;
   an index running over the part boundary *)
Definition ex_dparts : list dpart :=
  [mk_dpart 3 [true; false; true] (arange [3; 2; 3] 0); mk_dpart 2 [true; true] (arange [2; 2; 3] 2)].
Definition ex_tailkeep : list (list bool) := [[true; true]; [true; false; true]].

Lemma ex_data :
  Forall dpart_ok ex_dparts /\ tail_ok [2; 3] ex_tailkeep /\
  ds_getitem [2; 3] ex_tailkeep 0 ex_dparts [ASlice (Some 1) None None; AInt 0]
  = Ok (mk_arr 0 (mk_nd [3; 2] (Node [Node [Leaf 12; Leaf 14]; Node [Leaf 24; Leaf 26]; Node [Leaf 30; Leaf 32]]))) /\
  spec_ds [2; 3] ex_tailkeep 0 ex_dparts [ASlice (Some 1) None None; AInt 0]
  = ds_getitem [2; 3] ex_tailkeep 0 ex_dparts [ASlice (Some 1) None None; AInt 0].
Proof.
  split.
  { repeat constructor; cbn; eexists; (split; [reflexivity|reflexivity]). }
  split.
  { split; repeat constructor; lia. }
  split; vm_compute; reflexivity.
Qed.

Lemma ex_data_short :
  Forall dpart_ok ex_dparts /\ tail_ok [2; 3]%Z ex_tailkeep /\
  ds_getitem [2; 3]%Z ex_tailkeep 0 ex_dparts
    [ASlice (Some 1%Z) None None; AInt 0]
  = spec_ds [2; 3]%Z ex_tailkeep 0 ex_dparts
    [ASlice (Some 1%Z) None None; AInt 0] /\
  ds_getitem [2; 3]%Z ex_tailkeep 0 ex_dparts
    [ASlice (Some 1%Z) None None; AInt 0] <> Err.
Proof.
  destruct ex_data as (A & B & C & D). split; [exact A|]. split; [exact B|]. split; [symmetry; exact D|].
  rewrite C. discriminate.
Qed.

(* finding C19-F5: the first part has 2 channels x 3 products, the second one 4 channels x 3 products (another spectral
   window); select(spw=0) has deselected every dump of the second part and hands both parts the 2-channel mask.
   h5 parts: the whole presents the first part (spec and model agree); v4 parts: every access raises. *)
Definition ex_sparts : list spart :=
  [mk_spart [2; 3] (mk_dpart 3 [true; false; true] (arange [3; 2; 3] 0));
   mk_spart [4; 3] (mk_dpart 2 [false; false] (arange [2; 4; 3] 2))].

Lemma ex_sized :
  Forall (fun p => dpart_ok (sp_part p)) ex_sparts /\ tail_ok [2; 3] ex_tailkeep /\
  (forall p, In p ex_sparts -> fits [2; 3] p = false -> has_dump p = false) /\
  spec_ds_sized [2; 3] ex_tailkeep 0 ex_sparts [ASlice None None None]
  = Ok (mk_arr 0 (mk_nd [2; 2; 2] (Node [Node [Node [Leaf 0; Leaf 2]; Node [Leaf 3; Leaf 5]];
                                           Node [Node [Leaf 12; Leaf 14]; Node [Leaf 15; Leaf 17]]]))) /\
  ds_getitem_sized false [2; 3] ex_tailkeep 0 ex_sparts [ASlice None None None]
  = spec_ds_sized [2; 3] ex_tailkeep 0 ex_sparts [ASlice None None None] /\
  ds_getitem_sized true [2; 3] ex_tailkeep 0 ex_sparts [ASlice None None None] = Err.
Proof.
  split.
  { repeat constructor; cbn; eexists; (split; [reflexivity|reflexivity]). }
  split.
  { split; repeat constructor; lia. }
  split.
  { intros p [<-|[<-|[]]]; vm_compute; congruence. }
  repeat split; vm_compute; reflexivity.
Qed.

Lemma ex_sized_refuted :
  exists tail tailkeep dt parts ix out,
    Forall (fun p => dpart_ok (sp_part p)) parts /\ tail_ok tail tailkeep /\
    (forall p, In p parts -> fits tail p = false -> has_dump p = false) /\
    spec_ds_sized tail tailkeep dt parts ix = Ok out /\
    ds_getitem_sized true tail tailkeep dt parts ix = Err.
Proof.
  destruct ex_sized as (A & B & C & D & _ & E).
  exists [2; 3], ex_tailkeep, 0, ex_sparts, [ASlice None None None]. eexists.
  split; [exact A|]. split; [exact B|]. split; [exact C|]. split; [exact D|exact E].
Qed.
