(* C07: proofs about the S3 object URL model (Model/ChunksUrl.v). *)
From Coq Require Import ZArith List Bool Lia ZifyBool.
From KV Require Import Base.Sx Gen.Generated Model.Chunks Model.ChunksUrl Proofs.ChunksP.
Import ListNotations.
Open Scope Z_scope.

Ltac Zify.zify_post_hook ::= Z.to_euclidean_division_equations.

(* ------------------------------------------------------------------------------------------------ *)
(* split / join                                                                                        *)

Lemma split_c_nonnil : forall c s, split_c c s <> [].
Proof.
  intros c s. destruct s as [|x t]; cbn; [discriminate|].
  destruct (x =? c); [discriminate|]. destruct (split_c c t); discriminate.
Qed.

Lemma join_cons_nonnil : forall sep x l, l <> [] -> join sep (x :: l) = x ++ sep :: join sep l.
Proof. intros sep x [|y t] H; [congruence|reflexivity]. Qed.

Lemma join_split : forall c s, join c (split_c c s) = s.
Proof.
  intros c. induction s as [|x t IH]; cbn; [reflexivity|].
  destruct (x =? c) eqn:X.
  - rewrite join_cons_nonnil by apply split_c_nonnil. rewrite IH. cbn. f_equal. lia.
  - destruct (split_c c t) as [|h r] eqn:S; [exfalso; eapply split_c_nonnil; eauto|].
    destruct r as [|y r]; cbn in *; [now rewrite IH|]. now rewrite <- IH.
Qed.

Lemma split_c_nosep : forall c s f, In f (split_c c s) -> ~ In c f.
Proof.
  intros c. induction s as [|x t IH]; intros f H; cbn in H.
  - destruct H as [<-|[]]. auto.
  - destruct (x =? c) eqn:X.
    + destruct H as [<-|H]; auto.
    + destruct (split_c c t) as [|h r] eqn:S.
      * destruct H as [<-|[]]. intros [E|[]]. lia.
      * destruct H as [<-|H].
        -- intros [E|I]; [lia|]. apply (IH h); [left; reflexivity|exact I].
        -- apply IH. right. exact H.
Qed.

Lemma split_c_app_nosep : forall c a s, ~ In c a ->
  split_c c (a ++ s) = match split_c c s with h :: r => (a ++ h) :: r | [] => [a] end.
Proof.
  intros c. induction a as [|x a IH]; intros s N; cbn [app].
  - destruct (split_c c s) eqn:S; [exfalso; eapply split_c_nonnil; eauto|reflexivity].
  - cbn [split_c]. destruct (x =? c) eqn:X; [exfalso; apply N; left; lia|].
    rewrite IH by (intro; apply N; right; assumption).
    destruct (split_c c s) eqn:S; [exfalso; eapply split_c_nonnil; eauto|reflexivity].
Qed.

Lemma split_c_single : forall c a, ~ In c a -> split_c c a = [a].
Proof.
  intros c a N. rewrite <- (app_nil_r a) at 1. rewrite split_c_app_nosep by assumption. cbn. now rewrite app_nil_r.
Qed.

Lemma split_c_sep : forall c a b, ~ In c a -> split_c c (a ++ c :: b) = a :: split_c c b.
Proof.
  intros c a b N. rewrite split_c_app_nosep by assumption. cbn [split_c]. rewrite Z.eqb_refl. now rewrite app_nil_r.
Qed.

Lemma split_join : forall c l, l <> [] -> (forall f, In f l -> ~ In c f) -> split_c c (join c l) = l.
Proof.
  intros c. induction l as [|x t IH]; intros N H; [congruence|].
  destruct t as [|y t].
  - cbn. apply split_c_single. apply H. left; reflexivity.
  - rewrite join_cons2. rewrite split_c_sep by (apply H; left; reflexivity). f_equal.
    apply IH; [discriminate|]. intros f Hf. apply H. right. exact Hf.
Qed.

(* the first field is what split1 returns *)
Lemma split_c_split1 : forall c s,
  split_c c s = fst (split1 c s) :: match snd (split1 c s) with Some k => split_c c k | None => [] end.
Proof.
  intros c. induction s as [|x t IH]; cbn; [reflexivity|].
  destruct (x =? c) eqn:X; cbn; [reflexivity|].
  rewrite IH. destruct (split1 c t) as [a r]. reflexivity.
Qed.

Lemma split1_rebuild : forall c s,
  s = fst (split1 c s) ++ match snd (split1 c s) with Some k => c :: k | None => [] end.
Proof.
  intros c. induction s as [|x t IH]; cbn; [reflexivity|].
  destruct (x =? c) eqn:X; cbn; [f_equal; lia|].
  destruct (split1 c t) as [a r] eqn:S. cbn in *. now rewrite <- IH.
Qed.

Lemma split1_fst_app : forall c a x, fst (split1 c (a ++ c :: x)) = fst (split1 c a).
Proof.
  intros c. induction a as [|y a IH]; intros x; cbn.
  - now rewrite Z.eqb_refl.
  - destruct (y =? c); [reflexivity|]. specialize (IH x).
    destruct (split1 c (a ++ c :: x)), (split1 c a). cbn in *. now rewrite IH.
Qed.

Lemma split_c_snoc : forall c a x, ~ In c x -> split_c c (a ++ c :: x) = split_c c a ++ [x].
Proof.
  intros c. induction a as [|y a IH]; intros x N; cbn [app split_c].
  - rewrite Z.eqb_refl. now rewrite split_c_single.
  - destruct (y =? c); [now rewrite IH|]. rewrite IH by assumption.
    destruct (split_c c a) eqn:S; [exfalso; eapply split_c_nonnil; eauto|reflexivity].
Qed.

Lemma join_app_split : forall c l s, join c (l ++ split_c c s) = join c (l ++ [s]).
Proof.
  intros c. induction l as [|x l IH]; intros s; cbn [app].
  - now rewrite join_split.
  - rewrite !join_cons_nonnil; [now rewrite IH| |].
    + destruct l; discriminate.
    + destruct l; cbn; [apply split_c_nonnil|discriminate].
Qed.

Lemma split_flat_map : forall c (f : Z -> str) s, f c = [c] ->
  (forall x, In x s -> x <> c -> ~ In c (f x)) ->
  split_c c (flat_map f s) = map (flat_map f) (split_c c s).
Proof.
  intros c f. induction s as [|x t IH]; intros Hc H; [reflexivity|].
  cbn [flat_map split_c]. assert (IH' := IH Hc (fun y Hy => H y (or_intror Hy))).
  destruct (x =? c) eqn:X.
  - assert (x = c) by lia. subst x. rewrite Hc. cbn [app split_c]. rewrite Z.eqb_refl. cbn. now rewrite IH'.
  - rewrite split_c_app_nosep by (apply H; [left; reflexivity|lia]). rewrite IH'.
    destruct (split_c c t) as [|h r] eqn:S; [exfalso; eapply split_c_nonnil; eauto|]. reflexivity.
Qed.

(* ------------------------------------------------------------------------------------------------ *)
(* quote / unquote                                                                                     *)

Lemma unhex_hexd : forall n, 0 <= n < 16 -> unhex (hexd n) = Some n.
Proof.
  intros n H. unfold unhex, hexd. destruct (n <? 10) eqn:E.
  - replace ((48 <=? 48 + n) && (48 + n <=? 57)) with true by lia. f_equal. lia.
  - replace ((48 <=? 55 + n) && (55 + n <=? 57)) with false by lia.
    replace ((65 <=? 55 + n) && (55 + n <=? 70)) with true by lia. f_equal. lia.
Qed.

Lemma unquote_quote_c : forall c r, 0 <= c < 128 -> unquote (quote_c c ++ r) = c :: unquote r.
Proof.
  intros c r H. unfold quote_c. destruct (quote_safe c) eqn:S.
  - cbn [app unquote]. destruct (c =? 37) eqn:E; [|reflexivity].
    assert (c = 37) by lia. subst c. discriminate S.
  - cbn [app unquote]. rewrite Z.eqb_refl. rewrite !unhex_hexd by lia. f_equal. lia.
Qed.

Lemma ascii_cons : forall c s, ascii (c :: s) = true <-> (0 <= c < 128 /\ ascii s = true).
Proof. intros. unfold ascii. cbn [forallb]. rewrite andb_true_iff. split; intros [A B]; split; auto; lia. Qed.

Lemma ascii_app : forall a b, ascii (a ++ b) = true <-> (ascii a = true /\ ascii b = true).
Proof. intros. unfold ascii. rewrite forallb_app, andb_true_iff. tauto. Qed.

Lemma unquote_quote_app : forall s r, ascii s = true -> unquote (quote s ++ r) = s ++ unquote r.
Proof.
  induction s as [|c t IH]; intros r A; [reflexivity|].
  apply ascii_cons in A. destruct A as [A1 A2]. cbn [quote flat_map]. rewrite <- app_assoc.
  rewrite unquote_quote_c by assumption. cbn. f_equal. apply IH. assumption.
Qed.

Lemma unquote_quote : forall s, ascii s = true -> unquote (quote s) = s.
Proof. intros s A. rewrite <- (app_nil_r (quote s)). rewrite unquote_quote_app by assumption. cbn. apply app_nil_r. Qed.

Lemma quote_inj : forall a b, ascii a = true -> ascii b = true -> quote a = quote b -> a = b.
Proof. intros a b A B E. rewrite <- (unquote_quote a A), <- (unquote_quote b B). now rewrite E. Qed.

Lemma plain_not_percent : forall c, quote_safe c = true -> c <> 37.
Proof. intros c S E. subst c. discriminate S. Qed.

Lemma unquote_plain_app : forall s r, plain s = true -> unquote (s ++ r) = s ++ unquote r.
Proof.
  induction s as [|c t IH]; intros r P; [reflexivity|].
  unfold plain in P. cbn [forallb] in P. apply andb_true_iff in P. destruct P as [P1 P2].
  cbn [app unquote]. pose proof (plain_not_percent c P1). destruct (c =? 37) eqn:E; [lia|].
  f_equal. apply IH. exact P2.
Qed.

Lemma quote_plain : forall s, plain s = true -> quote s = s.
Proof.
  induction s as [|c t IH]; intros P; [reflexivity|].
  unfold plain in P. cbn [forallb] in P. apply andb_true_iff in P. destruct P as [P1 P2].
  cbn [quote flat_map]. unfold quote_c. rewrite P1. cbn. f_equal. apply IH. exact P2.
Qed.

Lemma quote_c_sep : forall c, 0 <= c < 128 -> c <> 47 -> ~ In 47 (quote_c c).
Proof.
  intros c H N. unfold quote_c. destruct (quote_safe c).
  - intros [E|[]]. lia.
  - unfold hexd. intros [E|[E|[E|[]]]]; [lia| |].
    + destruct (c / 16 <? 10) eqn:Q; lia.
    + destruct (c mod 16 <? 10) eqn:Q; lia.
Qed.

Lemma quote_c_47 : quote_c 47 = [47].
Proof. reflexivity. Qed.

Lemma ascii_in : forall s x, ascii s = true -> In x s -> 0 <= x < 128.
Proof. intros s x A I. unfold ascii in A. rewrite forallb_forall in A. specialize (A x I). lia. Qed.

Lemma split_quote : forall s, ascii s = true -> split_c 47 (quote s) = map quote (split_c 47 s).
Proof.
  intros s A. unfold quote. apply split_flat_map; [exact quote_c_47|].
  intros x I N. apply quote_c_sep; [eapply ascii_in; eauto|exact N].
Qed.

Lemma ascii_split : forall s f, ascii s = true -> In f (split_c 47 s) -> ascii f = true.
Proof.
  intros s f A I. unfold ascii. apply forallb_forall. intros x Hx.
  assert (In x s).
  { rewrite <- (join_split 47 s). clear A.
    revert I. generalize (split_c 47 s). induction l as [|y [|z l] IH]; intros I; cbn in I.
    - destruct I.
    - destruct I as [<-|[]]. exact Hx.
    - rewrite join_cons2. apply in_or_app. destruct I as [<-|I]; [left; exact Hx|]. right. right. apply IH. exact I. }
  pose proof (ascii_in s x A H). lia.
Qed.

Lemma quote_nil : forall s, quote s = [] -> s = [].
Proof.
  intros [|c t] E; [reflexivity|]. cbn in E. unfold quote_c in E. destruct (quote_safe c); discriminate E.
Qed.

Lemma str_eqb_true : forall a b, str_eqb a b = true <-> a = b.
Proof. intros a b. unfold str_eqb. destruct (str_eq_dec a b); split; congruence. Qed.

Lemma seg_ok_quote : forall s, ascii s = true -> seg_ok (quote s) = seg_ok s.
Proof.
  intros s A. unfold seg_ok.
  assert (N : nonempty (quote s) = nonempty s).
  { destruct s as [|c t]; [reflexivity|]. cbn. unfold quote_c. destruct (quote_safe c); reflexivity. }
  assert (D : forall d, plain d = true -> ascii d = true -> str_eqb (quote s) d = str_eqb s d).
  { intros d P Ad. destruct (str_eqb s d) eqn:E.
    - apply str_eqb_true in E. subst d. apply str_eqb_true. apply quote_plain. exact P.
    - destruct (str_eqb (quote s) d) eqn:E2; [|reflexivity]. apply str_eqb_true in E2.
      rewrite <- (quote_plain d P) in E2. apply quote_inj in E2; auto. subst d.
      assert (str_eqb s s = true) by (apply str_eqb_true; reflexivity). congruence. }
  unfold is_dot, is_dotdot. rewrite N, !D by reflexivity. reflexivity.
Qed.

Lemma quote_nosep : forall s, ascii s = true -> ~ In 47 s -> ~ In 47 (quote s).
Proof.
  induction s as [|c t IH]; intros A N; [auto|].
  apply ascii_cons in A. destruct A as [A1 A2]. cbn [quote flat_map]. intro I. apply in_app_or in I. destruct I as [I|I].
  - revert I. apply quote_c_sep; [exact A1|]. intro; subst. apply N. left; reflexivity.
  - revert I. apply IH; [exact A2|]. intro; apply N; right; assumption.
Qed.

(* dashes commute with quoting: both characters are safe and no escape contains an underscore *)
Lemma dash_quote_c : forall c, 0 <= c < 128 ->
  map (fun x => if x =? cs_bucket_from then cs_bucket_to else x) (quote_c c)
  = quote_c (if c =? cs_bucket_from then cs_bucket_to else c).
Proof.
  intros c A. unfold cs_bucket_from, cs_bucket_to. destruct (c =? 95) eqn:E.
  - assert (c = 95) by lia. subst c. reflexivity.
  - unfold quote_c. destruct (quote_safe c) eqn:S.
    + cbn. now rewrite E.
    + cbn. unfold hexd.
      destruct (c / 16 <? 10) eqn:Q1; destruct (c mod 16 <? 10) eqn:Q2;
        repeat match goal with |- context [?x =? 95] => let F := fresh in destruct (x =? 95) eqn:F; [lia|] end; reflexivity.
Qed.

Lemma dash_quote : forall s, ascii s = true -> dash (quote s) = quote (dash s).
Proof.
  induction s as [|c t IH]; intros A; [reflexivity|].
  apply ascii_cons in A. destruct A as [A1 A2]. specialize (IH A2).
  unfold dash, replace_c in *. cbn [quote flat_map map]. rewrite map_app. fold (quote t). rewrite IH.
  rewrite dash_quote_c by assumption. reflexivity.
Qed.

Lemma dash_ascii : forall s, ascii s = true -> ascii (dash s) = true.
Proof.
  intros s A. unfold ascii, dash, replace_c in *. rewrite forallb_forall in *. intros x I.
  apply in_map_iff in I. destruct I as (y & E & Hy). specialize (A y Hy).
  unfold cs_bucket_from, cs_bucket_to in E. destruct (y =? 95); lia.
Qed.

Lemma dash_plain : forall s, plain s = true -> plain (dash s) = true.
Proof.
  intros s A. unfold plain, dash, replace_c in *. rewrite forallb_forall in *. intros x I.
  apply in_map_iff in I. destruct I as (y & E & Hy). specialize (A y Hy).
  unfold cs_bucket_from, cs_bucket_to in E. destruct (y =? 95); subst; [reflexivity|exact A].
Qed.

Lemma dash_nosep : forall s, ~ In 47 s -> ~ In 47 (dash s).
Proof. intros s N. unfold dash. apply replace_no_new; [unfold cs_bucket_to; lia|exact N]. Qed.

Lemma dash_nonempty : forall s, nonempty (dash s) = nonempty s.
Proof. intros [|c t]; reflexivity. Qed.

Lemma dash_fixed : forall s, ~ In cs_bucket_from s -> dash s = s.
Proof.
  induction s as [|c t IH]; intros N; [reflexivity|]. unfold dash, replace_c in *. cbn [map].
  destruct (c =? cs_bucket_from) eqn:E; [exfalso; apply N; left; lia|]. f_equal. apply IH. intro; apply N; right; assumption.
Qed.

(* x unquotes to y in any context *)
Definition uq_ok (x y : str) : Prop := forall r, unquote (x ++ r) = y ++ unquote r.

Lemma uq_join : forall X Y, Forall2 uq_ok X Y -> forall r, unquote (join 47 X ++ r) = join 47 Y ++ unquote r.
Proof.
  induction 1 as [|x y X Y H F IH]; intros r; [reflexivity|].
  destruct F as [|x' y' X' Y' H' F'].
  - cbn. apply H.
  - rewrite !join_cons2. rewrite <- !app_assoc. rewrite H. f_equal. cbn [app unquote]. cbn. f_equal. apply IH.
Qed.

Lemma uq_plain : forall x, plain x = true -> uq_ok x x.
Proof. intros x P r. apply unquote_plain_app. exact P. Qed.
Lemma uq_quote : forall s, ascii s = true -> uq_ok (quote s) s.
Proof. intros s A r. apply unquote_quote_app. exact A. Qed.

(* ------------------------------------------------------------------------------------------------ *)
(* urljoin on well-formed input                                                                        *)

Lemma filter_init_all : forall S, (forall s, In s S -> nonempty s = true) -> filter_init S = S.
Proof.
  induction S as [|x [|y t] IH]; intros H; [reflexivity|reflexivity|].
  cbn [filter_init]. rewrite (H x) by (left; reflexivity). f_equal. apply IH. intros s I. apply H. right. exact I.
Qed.

Lemma filter_init_app : forall A S, S <> [] -> (forall s, In s S -> nonempty s = true) ->
  filter_init (A ++ S) = filter nonempty A ++ S.
Proof.
  induction A as [|a A IH]; intros S N H; cbn [app filter].
  - apply filter_init_all. exact H.
  - cbn [filter_init]. destruct (A ++ S) eqn:E; [apply app_eq_nil in E; destruct E; congruence|]. rewrite <- E.
    destruct (nonempty a); cbn [app]; rewrite IH by assumption; reflexivity.
Qed.

Definition nodots (s : str) : bool := negb (is_dot s) && negb (is_dotdot s).

Lemma resolve_nodots : forall S acc, (forall s, In s S -> nodots s = true) -> fold_left resolve_step S acc = acc ++ S.
Proof.
  induction S as [|x S IH]; intros acc H; cbn [fold_left]; [now rewrite app_nil_r|].
  assert (Hx := H x (or_introl eq_refl)). unfold nodots in Hx. apply andb_true_iff in Hx. destruct Hx as [D1 D2].
  unfold resolve_step at 2. destruct (is_dotdot x); [discriminate|]. destruct (is_dot x); [discriminate|].
  rewrite IH by (intros s I; apply H; right; exact I). rewrite <- app_assoc. reflexivity.
Qed.

Lemma seg_ok_parts : forall s, seg_ok s = true -> nonempty s = true /\ nodots s = true.
Proof.
  intros s H. unfold seg_ok in H. unfold nodots. rewrite !andb_true_iff in *. tauto.
Qed.

Lemma removelast_in {T} : forall (l : list T) x, In x (removelast l) -> In x l.
Proof.
  induction l as [|y [|z l] IH]; intros x I; cbn in *; auto. destruct I as [<-|I]; auto.
Qed.

Lemma wf_store_facts : forall bp, wf_store bp = true ->
  exists X, base_parts bp = [] :: X /\ forall s, In s X -> In s (split_c 47 bp).
Proof.
  intros bp W. unfold wf_store in W. rewrite !andb_true_iff in W. destruct W as [[_ H] _].
  unfold base_parts. destruct bp as [|c t].
  - exists []. cbn. split; [reflexivity|intros s []].
  - assert (c = 47) by lia. subst c. cbn [split_c]. rewrite Z.eqb_refl.
    destruct (split_c 47 t) as [|h r] eqn:S; [exfalso; eapply split_c_nonnil; eauto|].
    cbv zeta. match goal with |- context [if ?b then _ else _] => destruct b eqn:NL end.
    + exists (removelast (h :: r)). split; [reflexivity|]. intros s I. right. apply removelast_in. exact I.
    + exists (h :: r). split; [reflexivity|]. intros s I. right. exact I.
Qed.

Lemma plain_in_split : forall bp s, plain bp = true -> In s (split_c 47 bp) -> plain s = true.
Proof.
  intros bp s P I. unfold plain in *. rewrite forallb_forall in *. intros x Hx. apply P.
  rewrite <- (join_split 47 bp). revert I. generalize (split_c 47 bp).
  induction l as [|y [|z l] IH]; intros I; cbn in I.
  - destruct I.
  - destruct I as [<-|[]]. exact Hx.
  - rewrite join_cons2. apply in_or_app. destruct I as [<-|I]; [left; exact Hx|]. right. right. apply IH. exact I.
Qed.

(* the directory prefix of a well-formed store path: non-empty, separator-free, dot-free, plain components *)
Lemma store_prefix_facts : forall bp s, wf_store bp = true -> In s (store_prefix bp) ->
  nonempty s = true /\ ~ In 47 s /\ nodots s = true /\ plain s = true.
Proof.
  intros bp s W I. destruct (wf_store_facts bp W) as (X & B & HX).
  unfold store_prefix in I. rewrite B in I. cbn [filter nonempty] in I. apply filter_In in I. destruct I as [I N].
  apply HX in I. unfold wf_store in W. rewrite !andb_true_iff in W. destruct W as [[P _] D].
  rewrite forallb_forall in D. repeat split; auto.
  - eapply split_c_nosep; eauto.
  - apply D. exact I.
  - eapply plain_in_split; eauto.
Qed.

Lemma last_app_nonnil {T} : forall (a b : list T) d, b <> [] -> last (a ++ b) d = last b d.
Proof.
  induction a as [|x a IH]; intros b d N; [reflexivity|]. cbn [app].
  assert (NE : a ++ b <> []) by (intro E; apply app_eq_nil in E; destruct E; congruence).
  rewrite <- (IH b d N). destruct (a ++ b); [congruence|reflexivity].
Qed.

Lemma last_in {T} : forall (l : list T) d, l <> [] -> In (last l d) l.
Proof.
  induction l as [|x [|y l] IH]; intros d N; [congruence|left; reflexivity|]. right. apply IH. discriminate.
Qed.

Lemma urljoin_wf : forall bp q, wf_store bp = true -> (forall s, In s (split_c 47 q) -> seg_ok s = true) ->
  urljoin_path bp q = 47 :: join 47 (store_prefix bp ++ split_c 47 q).
Proof.
  intros bp q W H. destruct (wf_store_facts bp W) as (X & B & HX).
  set (S := split_c 47 q) in *.
  assert (SN : S <> []) by apply split_c_nonnil.
  (* q is not empty and does not start with a separator *)
  destruct q as [|c0 q'].
  { exfalso. subst S. cbn in H. specialize (H [] (or_introl eq_refl)). discriminate H. }
  assert (C0 : (c0 =? 47) = false).
  { destruct (c0 =? 47) eqn:E; [|reflexivity]. exfalso. subst S. cbn [split_c] in H. rewrite E in H.
    specialize (H [] (or_introl eq_refl)). discriminate H. }
  unfold urljoin_path. rewrite C0. fold S. rewrite B. cbn [app filter_interior].
  assert (HS : forall s, In s S -> nonempty s = true) by (intros s I; apply seg_ok_parts; auto).
  rewrite filter_init_app by assumption.
  assert (PX : filter nonempty X = store_prefix bp) by (unfold store_prefix; rewrite B; reflexivity).
  rewrite PX.
  assert (ND : forall s, In s ([] :: store_prefix bp ++ S) -> nodots s = true).
  { intros s [<-|I]; [reflexivity|]. apply in_app_or in I. destruct I as [I|I].
    - eapply store_prefix_facts; eauto.
    - apply seg_ok_parts; auto. }
  unfold resolve. rewrite resolve_nodots by exact ND. cbn [app].
  assert (LD : is_dot (last ([] :: store_prefix bp ++ S) []) || is_dotdot (last ([] :: store_prefix bp ++ S) []) = false).
  { assert (nodots (last ([] :: store_prefix bp ++ S) []) = true) by (apply ND; apply last_in; discriminate).
    unfold nodots in H0. apply andb_true_iff in H0. destruct H0 as [A1 A2].
    destruct (is_dot _); [discriminate|]. destruct (is_dotdot _); [discriminate|]. reflexivity. }
  match goal with |- context [if ?b then _ else _] => let LD' := fresh in assert (LD' : b = false) by exact LD; rewrite LD' end.
  rewrite join_cons_nonnil by (destruct (store_prefix bp); [exact SN|discriminate]). reflexivity.
Qed.

(* _normalise_bucket_name on "/" + components *)
Lemma normalise_join : forall h T, nonempty h = true -> ~ In 47 h ->
  normalise_path (47 :: join 47 (h :: T)) = 47 :: join 47 (dash h :: T).
Proof.
  intros h T N S. unfold normalise_path. cbn [lstrip_c]. rewrite Z.eqb_refl.
  assert (L : lstrip_c 47 (join 47 (h :: T)) = join 47 (h :: T)).
  { apply lstrip_fixed. destruct h as [|x h']; [discriminate|].
    destruct T; cbn; intro; subst; apply S; left; reflexivity. }
  rewrite L. destruct T as [|y T].
  - cbn [join]. pose proof (split1_app 47 h None S) as E. cbn in E. rewrite app_nil_r in E. rewrite E. now rewrite app_nil_r.
  - rewrite join_cons2. pose proof (split1_app 47 h (Some (join 47 (y :: T))) S) as E. cbv beta iota in E. rewrite E.
    rewrite join_cons2. reflexivity.
Qed.

Definition map_head {T} (f : T -> T) (l : list T) : list T := match l with [] => [] | h :: t => f h :: t end.

Lemma wf_name_facts : forall rel, wf_name rel = true ->
  ascii rel = true /\ forall s, In s (split_c 47 rel) -> seg_ok s = true.
Proof. intros rel W. unfold wf_name in W. apply andb_true_iff in W. destruct W as [A F]. rewrite forallb_forall in F. auto. Qed.

(* the URL make_url assembles for a well-formed name, in closed form *)
Lemma make_url_form : forall bp rel, wf_store bp = true -> wf_name rel = true ->
  make_url_path bp rel = 47 :: join 47 (map_head dash (store_prefix bp ++ map quote (split_c 47 rel))).
Proof.
  intros bp rel W N. destruct (wf_name_facts rel N) as [A F]. unfold make_url_path.
  assert (Q : split_c 47 (quote rel) = map quote (split_c 47 rel)) by (apply split_quote; exact A).
  rewrite urljoin_wf; [|exact W|].
  2:{ rewrite Q. intros s I. apply in_map_iff in I. destruct I as (x & <- & Hx).
      rewrite seg_ok_quote by (eapply ascii_split; eauto). apply F. exact Hx. }
  rewrite Q.
  destruct (store_prefix bp ++ map quote (split_c 47 rel)) as [|h T] eqn:E.
  { exfalso. apply app_eq_nil in E. destruct E as [_ E]. apply map_eq_nil in E. eapply split_c_nonnil; eauto. }
  cbn [map_head]. apply normalise_join.
  - assert (In h (store_prefix bp ++ map quote (split_c 47 rel))) by (rewrite E; left; reflexivity).
    apply in_app_or in H. destruct H as [H|H]; [eapply store_prefix_facts; eauto|].
    apply in_map_iff in H. destruct H as (x & <- & Hx).
    pose proof (F x Hx) as G. rewrite <- seg_ok_quote in G by (eapply ascii_split; eauto). apply seg_ok_parts in G. tauto.
  - assert (In h (store_prefix bp ++ map quote (split_c 47 rel))) by (rewrite E; left; reflexivity).
    apply in_app_or in H. destruct H as [H|H]; [eapply store_prefix_facts; eauto|].
    apply in_map_iff in H. destruct H as (x & <- & Hx). apply quote_nosep; [eapply ascii_split; eauto|eapply split_c_nosep; eauto].
Qed.

(* the documented object in the same closed form (no well-formedness needed) *)
Lemma spec_form : forall bp rel,
  spec_object_path bp rel = 47 :: join 47 (map_head dash (store_prefix bp ++ split_c 47 rel)).
Proof.
  intros bp rel. unfold spec_object_path. destruct (store_prefix bp) as [|p0 ps].
  - cbn [app]. rewrite (split_c_split1 47 rel). destruct (split1 47 rel) as [b r]. cbn [fst snd map_head].
    destruct r as [k|].
    + rewrite join_cons_nonnil by apply split_c_nonnil. now rewrite join_split.
    + cbn. now rewrite app_nil_r.
  - cbn [app map_head]. rewrite join_cons_nonnil.
    + now rewrite join_app_split.
    + destruct ps; cbn; [apply split_c_nonnil|discriminate].
Qed.

Lemma Forall2_uq_plain : forall l, (forall s, In s l -> plain s = true) -> Forall2 uq_ok l l.
Proof.
  induction l as [|x l IH]; intros H; constructor; [apply uq_plain; apply H; left; reflexivity|].
  apply IH. intros; apply H; right; assumption.
Qed.
Lemma Forall2_uq_quote : forall l, (forall s, In s l -> ascii s = true) -> Forall2 uq_ok (map quote l) l.
Proof.
  induction l as [|x l IH]; intros H; constructor; [apply uq_quote; apply H; left; reflexivity|].
  apply IH. intros; apply H; right; assumption.
Qed.

(* what the endpoint sees is the documented object *)
Theorem object_documented : forall bp rel, wf_store bp = true -> wf_name rel = true ->
  object_path bp rel = spec_object_path bp rel.
Proof.
  intros bp rel W N. unfold object_path. rewrite make_url_form by assumption. rewrite spec_form.
  destruct (wf_name_facts rel N) as [A F].
  cbn [unquote]. replace (47 =? 37) with false by reflexivity. f_equal.
  rewrite <- (app_nil_r (join 47 (map_head dash (store_prefix bp ++ map quote (split_c 47 rel))))).
  rewrite (uq_join _ (map_head dash (store_prefix bp ++ split_c 47 rel))); [cbn; apply app_nil_r|].
  assert (P : Forall2 uq_ok (store_prefix bp) (store_prefix bp)).
  { apply Forall2_uq_plain. intros; eapply store_prefix_facts; eauto. }
  assert (Q : Forall2 uq_ok (map quote (split_c 47 rel)) (split_c 47 rel)).
  { apply Forall2_uq_quote. intros; eapply ascii_split; eauto. }
  destruct (store_prefix bp) as [|p0 ps] eqn:E.
  - cbn [app]. destruct (split_c 47 rel) as [|h T] eqn:S; [constructor|]. cbn [map map_head].
    inversion Q; subst. constructor; [|assumption].
    assert (ascii h = true) by (eapply ascii_split; [exact A|rewrite S; left; reflexivity]).
    rewrite dash_quote by assumption. apply uq_quote. apply dash_ascii. assumption.
  - cbn [app map_head]. inversion P; subst. constructor.
    + apply uq_plain. apply dash_plain. assert (In p0 (store_prefix bp)) by (rewrite E; left; reflexivity).
      eapply store_prefix_facts; eauto.
    + apply Forall2_app; assumption.
Qed.

(* ------------------------------------------------------------------------------------------------ *)
(* injectivity                                                                                         *)

Lemma form_fields_ok : forall bp rel, wf_store bp = true -> wf_name rel = true ->
  forall f, In f (map_head dash (store_prefix bp ++ split_c 47 rel)) -> f <> [] /\ ~ In 47 f.
Proof.
  intros bp rel W N f I. destruct (wf_name_facts rel N) as [A F].
  assert (G : forall s, In s (store_prefix bp ++ split_c 47 rel) -> nonempty s = true /\ ~ In 47 s).
  { intros s H. apply in_app_or in H. destruct H as [H|H].
    - destruct (store_prefix_facts bp s W H) as (H1 & H2 & _). auto.
    - split; [apply seg_ok_parts; auto|eapply split_c_nosep; eauto]. }
  destruct (store_prefix bp ++ split_c 47 rel) as [|h T]; [destruct I|]. cbn [map_head] in I.
  destruct I as [<-|I].
  - destruct (G h (or_introl eq_refl)) as [G1 G2]. split; [|apply dash_nosep; exact G2].
    intro E. rewrite <- dash_nonempty in G1. rewrite E in G1. discriminate.
  - destruct (G f (or_intror I)) as [G1 G2]. split; auto. intro; subst; discriminate.
Qed.

Lemma object_eq_fields : forall bp r1 r2, wf_store bp = true -> wf_name r1 = true -> wf_name r2 = true ->
  object_path bp r1 = object_path bp r2 ->
  map_head dash (store_prefix bp ++ split_c 47 r1) = map_head dash (store_prefix bp ++ split_c 47 r2).
Proof.
  intros bp r1 r2 W N1 N2 E. rewrite !object_documented in E by assumption. rewrite !spec_form in E.
  inversion E as [E']. apply join_inj in E'; auto; apply form_fields_ok; assumption.
Qed.

(* bucket in the store URL: the object determines the name *)
Theorem object_inj_url_bucket : forall bp r1 r2, wf_store bp = true -> store_prefix bp <> [] ->
  wf_name r1 = true -> wf_name r2 = true -> object_path bp r1 = object_path bp r2 -> r1 = r2.
Proof.
  intros bp r1 r2 W P N1 N2 E. pose proof (object_eq_fields bp r1 r2 W N1 N2 E) as F.
  destruct (store_prefix bp) as [|p0 ps]; [congruence|]. cbn [app map_head] in F. inversion F as [F'].
  apply app_inv_head in F'. rewrite <- (join_split 47 r1), <- (join_split 47 r2). now rewrite F'.
Qed.

(* bucket as first component of the name: the object determines the name up to underscores / dashes in the bucket *)
Theorem object_inj_name_bucket : forall bp r1 r2, wf_store bp = true -> store_prefix bp = [] ->
  wf_name r1 = true -> wf_name r2 = true -> object_path bp r1 = object_path bp r2 ->
  dash (name_bucket r1) = dash (name_bucket r2) /\ snd (split1 47 r1) = snd (split1 47 r2).
Proof.
  intros bp r1 r2 W P N1 N2 E. pose proof (object_eq_fields bp r1 r2 W N1 N2 E) as F.
  rewrite P in F. cbn [app] in F. rewrite (split_c_split1 47 r1), (split_c_split1 47 r2) in F. cbn [map_head] in F.
  inversion F as [[F1 F2]]. split; [exact F1|].
  destruct (snd (split1 47 r1)) as [k1|], (snd (split1 47 r2)) as [k2|]; auto.
  - f_equal. rewrite <- (join_split 47 k1), <- (join_split 47 k2). now rewrite F2.
  - exfalso. eapply split_c_nonnil; eauto.
  - exfalso. symmetry in F2. eapply split_c_nonnil; eauto.
Qed.

Corollary object_inj_same_bucket : forall bp r1 r2, wf_store bp = true -> store_prefix bp = [] ->
  wf_name r1 = true -> wf_name r2 = true -> name_bucket r1 = name_bucket r2 ->
  object_path bp r1 = object_path bp r2 -> r1 = r2.
Proof.
  intros bp r1 r2 W P N1 N2 B E. destruct (object_inj_name_bucket bp r1 r2 W P N1 N2 E) as [_ K].
  rewrite (split1_rebuild 47 r1), (split1_rebuild 47 r2). unfold name_bucket in B. now rewrite B, K.
Qed.

Corollary object_inj_dash_buckets : forall bp r1 r2, wf_store bp = true -> store_prefix bp = [] ->
  wf_name r1 = true -> wf_name r2 = true ->
  ~ In cs_bucket_from (name_bucket r1) -> ~ In cs_bucket_from (name_bucket r2) ->
  object_path bp r1 = object_path bp r2 -> r1 = r2.
Proof.
  intros bp r1 r2 W P N1 N2 B1 B2 E. apply (object_inj_same_bucket bp); auto.
  destruct (object_inj_name_bucket bp r1 r2 W P N1 N2 E) as [D _]. rewrite !dash_fixed in D by assumption. exact D.
Qed.

(* the URL determines the object, so the same holds for URLs *)
Lemma url_eq_object_eq : forall bp r1 r2, make_url_path bp r1 = make_url_path bp r2 -> object_path bp r1 = object_path bp r2.
Proof. intros bp r1 r2 E. unfold object_path. now rewrite E. Qed.

(* ------------------------------------------------------------------------------------------------ *)
(* chunk and marker names of well-formed array names are well-formed                                   *)

Lemma idchar_ascii : forall c, idchar c -> 0 <= c < 128.
Proof. intros c H. unfold idchar, is_digit in H. lia. Qed.

Lemma id_str_ascii : forall s, ascii (chunk_id_str s) = true.
Proof.
  intros s. unfold ascii. apply forallb_forall. intros c I. apply id_str_chars in I.
  destruct I as [->|I]; [unfold cs_id_sep; lia|]. apply idchar_ascii in I. lia.
Qed.

Lemma seg_ok_long : forall s, (2 < length s)%nat -> seg_ok s = true.
Proof.
  intros s H. unfold seg_ok, is_dot, is_dotdot.
  destruct (str_eqb s [46]) eqn:E1; [apply str_eqb_true in E1; subst; cbn in H; lia|].
  destruct (str_eqb s [46; 46]) eqn:E2; [apply str_eqb_true in E2; subst; cbn in H; lia|].
  destruct s; [cbn in H; lia|reflexivity].
Qed.

Lemma wf_snoc : forall a x, wf_name a = true -> ascii x = true -> ~ In 47 x -> seg_ok x = true ->
  wf_name (a ++ 47 :: x) = true.
Proof.
  intros a x W A N S. destruct (wf_name_facts a W) as [Aa F]. unfold wf_name. apply andb_true_iff. split.
  - apply ascii_app. split; [exact Aa|]. apply ascii_cons. split; [lia|exact A].
  - rewrite split_c_snoc by exact N. rewrite forallb_app. apply andb_true_iff. split.
    + apply forallb_forall. exact F.
    + cbn. now rewrite S.
Qed.

Lemma wf_chunk_rel : forall arr starts, wf_name arr = true -> wf_name (chunk_rel arr starts) = true.
Proof.
  intros arr starts W. unfold chunk_rel, chunk_key, chunk_name, join_name. rewrite <- app_assoc. cbn [app].
  apply wf_snoc; [exact W| | |].
  - apply ascii_app. split; [apply id_str_ascii|reflexivity].
  - intro I. apply in_app_or in I. destruct I as [I|I]; [revert I; apply id_str_no_name_sep|].
    unfold cs_chunk_ext in I. cbn in I. lia.
  - apply seg_ok_long. rewrite app_length. unfold cs_chunk_ext. cbn. lia.
Qed.

Lemma wf_marker_rel : forall arr, wf_name arr = true -> wf_name (marker_rel arr) = true.
Proof.
  intros arr W. unfold marker_rel, marker_key, join_name. apply wf_snoc; [exact W|reflexivity| |reflexivity].
  apply complete_no_sep.
Qed.

Lemma chunk_rel_inj : forall a1 s1 a2 s2, chunk_rel a1 s1 = chunk_rel a2 s2 -> a1 = a2 /\ s1 = s2.
Proof. intros a1 s1 a2 s2 E. unfold chunk_rel in E. apply chunk_key_inj in E. now apply chunk_name_inj in E. Qed.

Lemma marker_rel_inj : forall a b, marker_rel a = marker_rel b -> a = b.
Proof. intros a b E. eapply marker_key_inj; [apply complete_no_sep|exact E]. Qed.

Lemma name_bucket_chunk_rel : forall arr starts, name_bucket (chunk_rel arr starts) = name_bucket arr.
Proof.
  intros. unfold name_bucket, chunk_rel, chunk_key, chunk_name, join_name. rewrite <- app_assoc. cbn [app].
  apply split1_fst_app.
Qed.
Lemma name_bucket_marker_rel : forall arr, name_bucket (marker_rel arr) = name_bucket arr.
Proof. intros. unfold name_bucket, marker_rel, marker_key, join_name. apply split1_fst_app. Qed.

(* ---- the statements about chunks ---- *)

Theorem chunk_url_injective_url_bucket : forall bp a1 s1 a2 s2, wf_store bp = true -> store_prefix bp <> [] ->
  wf_name a1 = true -> wf_name a2 = true ->
  make_url_path bp (chunk_rel a1 s1) = make_url_path bp (chunk_rel a2 s2) -> a1 = a2 /\ s1 = s2.
Proof.
  intros bp a1 s1 a2 s2 W P N1 N2 E. apply chunk_rel_inj. apply (object_inj_url_bucket bp); auto using wf_chunk_rel.
  now apply url_eq_object_eq.
Qed.

Theorem chunk_url_injective_name_bucket : forall bp a1 s1 a2 s2, wf_store bp = true -> store_prefix bp = [] ->
  wf_name a1 = true -> wf_name a2 = true ->
  make_url_path bp (chunk_rel a1 s1) = make_url_path bp (chunk_rel a2 s2) ->
  dash (name_bucket a1) = dash (name_bucket a2)
  /\ (name_bucket a1 = name_bucket a2 -> a1 = a2 /\ s1 = s2)
  /\ (~ In cs_bucket_from (name_bucket a1) -> ~ In cs_bucket_from (name_bucket a2) -> a1 = a2 /\ s1 = s2).
Proof.
  intros bp a1 s1 a2 s2 W P N1 N2 E. apply url_eq_object_eq in E.
  pose proof (wf_chunk_rel a1 s1 N1) as C1. pose proof (wf_chunk_rel a2 s2 N2) as C2.
  destruct (object_inj_name_bucket bp _ _ W P C1 C2 E) as [D _]. rewrite !name_bucket_chunk_rel in D.
  split; [exact D|]. split.
  - intro B. apply chunk_rel_inj. apply (object_inj_same_bucket bp); auto. now rewrite !name_bucket_chunk_rel.
  - intros B1 B2. apply chunk_rel_inj. apply (object_inj_dash_buckets bp); auto; now rewrite name_bucket_chunk_rel.
Qed.

(* the object of a chunk is the documented one: "<bucket>" dashed, key "<path>/<idx>.npy" verbatim *)
Theorem chunk_object_documented : forall bp arr starts, wf_store bp = true -> wf_name arr = true ->
  object_path bp (chunk_rel arr starts) = spec_object_path bp (chunk_rel arr starts).
Proof. intros. apply object_documented; auto using wf_chunk_rel. Qed.

(* ------------------------------------------------------------------------------------------------ *)
(* several arrays in one store                                                                         *)

Fixpoint last_obj (done : list uop) (rel : str) (acc : option (obj Z)) : option (obj Z) :=
  match done with
  | [] => acc
  | UPut a s v :: t => last_obj t rel (if str_eq_dec (chunk_rel a s) rel then Some (OChunk 0 [] [v]) else acc)
  | UMark a :: t => last_obj t rel (if str_eq_dec (marker_rel a) rel then Some OMarker else acc)
  | _ :: t => last_obj t rel acc
  end.

Section Keyed.
Variable kf : str -> str.
Variable P : str -> Prop.
Hypothesis kf_inj : forall r1 r2, P r1 -> P r2 -> kf r1 = kf r2 -> r1 = r2.

Lemma urun_lookup : forall done st rel, P rel -> (forall o, In o done -> P (op_rel o)) ->
  lookup (kf rel) (urun kf done st) = last_obj done rel (lookup (kf rel) st).
Proof.
  induction done as [|op done IH]; intros st rel Pr H; [reflexivity|].
  assert (Ho := H op (or_introl eq_refl)). assert (H' : forall o, In o done -> P (op_rel o)) by (intros; apply H; right; assumption).
  unfold urun in *. cbn [fold_left]. rewrite IH by assumption. destruct op as [a s v|a s|a|a]; cbn [ustep last_obj]; try reflexivity.
  - rewrite lookup_upd. cbn [op_rel] in Ho.
    destruct (str_eq_dec (kf rel) (kf (chunk_rel a s))) as [E|E], (str_eq_dec (chunk_rel a s) rel) as [E2|E2]; try reflexivity.
    + exfalso. apply E2. symmetry. apply kf_inj; auto.
    + exfalso. apply E. now rewrite E2.
  - rewrite lookup_upd. cbn [op_rel] in Ho.
    destruct (str_eq_dec (kf rel) (kf (marker_rel a))) as [E|E], (str_eq_dec (marker_rel a) rel) as [E2|E2]; try reflexivity.
    + exfalso. apply E2. symmetry. apply kf_inj; auto.
    + exfalso. apply E. now rewrite E2.
Qed.
End Keyed.

Definition ans_of (o : option (obj Z)) : Z :=
  match o with Some (OChunk _ _ (v :: _)) => v | Some _ => -2 | None => -1 end.
Definition chunk_or_none (o : option (obj Z)) : Prop :=
  match o with Some (OChunk _ _ [_]) => True | None => True | _ => False end.

Lemma marker_rel_not_chunk_rel : forall a b s, marker_rel a <> chunk_rel b s.
Proof. intros a b s. unfold marker_rel, chunk_rel. apply marker_not_chunk. Qed.

Lemma last_obj_put : forall done arr starts acc,
  ulast_put done arr starts (ans_of acc) = ans_of (last_obj done (chunk_rel arr starts) acc).
Proof.
  induction done as [|op done IH]; intros arr starts acc; [reflexivity|].
  destruct op as [a s v|a s|a|a]; cbn [ulast_put last_obj]; try apply IH.
  - destruct (str_eq_dec (chunk_rel a s) (chunk_rel arr starts)) as [E|E].
    + apply chunk_rel_inj in E. destruct E as [-> ->].
      destruct (str_eq_dec arr arr); [|congruence]. destruct (zs_eq_dec starts starts); [|congruence].
      rewrite <- IH. reflexivity.
    + rewrite <- IH. destruct (str_eq_dec a arr) as [->|]; [|reflexivity].
      destruct (zs_eq_dec s starts) as [->|]; [congruence|reflexivity].
  - destruct (str_eq_dec (marker_rel a) (chunk_rel arr starts)) as [E|E]; [exfalso; eapply marker_rel_not_chunk_rel; eauto|].
    apply IH.
Qed.

Definition is_some {T} (o : option T) : bool := match o with Some _ => true | None => false end.

Lemma last_obj_mark : forall done arr acc,
  uwas_marked done arr (is_some acc) = is_some (last_obj done (marker_rel arr) acc).
Proof.
  induction done as [|op done IH]; intros arr acc; [reflexivity|].
  destruct op as [a s v|a s|a|a]; cbn [uwas_marked last_obj]; try apply IH.
  - destruct (str_eq_dec (chunk_rel a s) (marker_rel arr)) as [E|E]; [exfalso; symmetry in E; eapply marker_rel_not_chunk_rel; eauto|].
    apply IH.
  - destruct (str_eq_dec (marker_rel a) (marker_rel arr)) as [E|E].
    + apply marker_rel_inj in E. subst a. destruct (str_eq_dec arr arr); [|congruence]. rewrite <- IH. reflexivity.
    + destruct (str_eq_dec a arr) as [->|]; [congruence|]. apply IH.
Qed.

Lemma urun_snoc : forall kf done op, urun kf (done ++ [op]) [] = ustep kf (urun kf done []) op.
Proof. intros. unfold urun. now rewrite fold_left_app. Qed.

(* whatever the key function, as long as it is injective on the names used: every get returns the last put addressed to
   the same (array name, start tuple), every is_complete tells whether that array was marked *)
Theorem keyed_history : forall (kf : str -> str) (P : str -> Prop),
  (forall r1 r2, P r1 -> P r2 -> kf r1 = kf r2 -> r1 = r2) ->
  forall ops, (forall o, In o ops -> P (op_rel o)) -> uanswers kf ops [] = spec_answers ops [].
Proof.
  intros kf P Inj ops H.
  assert (G : forall ops done, (forall o, In o done -> P (op_rel o)) -> (forall o, In o ops -> P (op_rel o)) ->
              uanswers kf ops (urun kf done []) = spec_answers ops done).
  { clear ops H. induction ops as [|op ops IH]; intros done Hd Ho; [reflexivity|].
    cbn [uanswers spec_answers]. rewrite <- urun_snoc. rewrite IH.
    - f_equal. destruct op as [a s v|a s|a|a]; try reflexivity.
      + unfold uget. rewrite (urun_lookup kf P Inj) by (auto; apply (Ho (UGet a s)); left; reflexivity).
        cbn [lookup]. change (-1) with (ans_of None). rewrite last_obj_put. reflexivity.
      + unfold uis_complete. rewrite (urun_lookup kf P Inj) by (auto; apply (Ho (UIsComplete a)); left; reflexivity).
        cbn [lookup]. change false with (@is_some (obj Z) None). rewrite last_obj_mark.
        destruct (last_obj done (marker_rel a) None); reflexivity.
    - intros o I. apply in_app_or in I. destruct I as [I|[<-|[]]]; auto. apply Ho. left; reflexivity.
    - intros o I. apply Ho. right. exact I. }
  apply (G ops []); auto. intros o [].
Qed.

Lemma op_rel_wf : forall o, wf_name (op_arr o) = true -> wf_name (op_rel o) = true.
Proof. intros [a s v|a s|a|a] W; cbn in *; auto using wf_chunk_rel, wf_marker_rel. Qed.
Lemma op_rel_bucket : forall o, name_bucket (op_rel o) = name_bucket (op_arr o).
Proof. intros [a s v|a s|a|a]; cbn; auto using name_bucket_chunk_rel, name_bucket_marker_rel. Qed.

(* S3, bucket in the store URL: any history over well-formed array names *)
Theorem s3_history_url_bucket : forall bp ops, wf_store bp = true -> store_prefix bp <> [] ->
  (forall o, In o ops -> wf_name (op_arr o) = true) ->
  uanswers (object_path bp) ops [] = spec_answers ops [].
Proof.
  intros bp ops W P H. apply (keyed_history (object_path bp) (fun r => wf_name r = true)).
  - intros r1 r2 N1 N2 E. apply (object_inj_url_bucket bp); auto.
  - intros o I. apply op_rel_wf. auto.
Qed.

(* S3, bucket as first component of the names: any history over well-formed array names of one bucket (spelled one way),
   or of buckets without underscores *)
Theorem s3_history_name_bucket : forall bp ops b, wf_store bp = true -> store_prefix bp = [] ->
  (forall o, In o ops -> wf_name (op_arr o) = true /\ name_bucket (op_arr o) = b) ->
  uanswers (object_path bp) ops [] = spec_answers ops [].
Proof.
  intros bp ops b W P H. apply (keyed_history (object_path bp) (fun r => wf_name r = true /\ name_bucket r = b)).
  - intros r1 r2 [N1 B1] [N2 B2] E. apply (object_inj_same_bucket bp); auto. congruence.
  - intros o I. destruct (H o I) as [H1 H2]. split; [apply op_rel_wf; auto|]. now rewrite op_rel_bucket.
Qed.

Theorem s3_history_dash_buckets : forall bp ops, wf_store bp = true -> store_prefix bp = [] ->
  (forall o, In o ops -> wf_name (op_arr o) = true /\ ~ In cs_bucket_from (name_bucket (op_arr o))) ->
  uanswers (object_path bp) ops [] = spec_answers ops [].
Proof.
  intros bp ops W P H.
  apply (keyed_history (object_path bp) (fun r => wf_name r = true /\ ~ In cs_bucket_from (name_bucket r))).
  - intros r1 r2 [N1 B1] [N2 B2] E. apply (object_inj_dash_buckets bp); auto.
  - intros o I. destruct (H o I) as [H1 H2]. split; [apply op_rel_wf; auto|]. now rewrite op_rel_bucket.
Qed.

(* keys used verbatim (NPY files relative to the store directory, the Dict view): any names at all *)
Theorem verbatim_history : forall ops, uanswers (fun r => r) ops [] = spec_answers ops [].
Proof. intros ops. apply (keyed_history (fun r => r) (fun _ => True)); auto. Qed.

(* ------------------------------------------------------------------------------------------------ *)
(* outside the guard                                                                                   *)

(* an empty / dot component in an array name aliases another array (finding C07-F7): "a//b" and "a/b", "a/./b", "c/../a/b" *)
Theorem illformed_names_alias :
  let bp := [47; 98; 107; 47] in   (* "/bk/" *)
  let a1 := [97; 47; 47; 98] in let a2 := [97; 47; 98] in let a3 := [97; 47; 46; 47; 98] in
  let a4 := [99; 47; 46; 46; 47; 97; 47; 98] in
  wf_store bp = true /\ wf_name a2 = true /\ a1 <> a2 /\
  object_path bp (chunk_rel a1 [0]) = object_path bp (chunk_rel a2 [0]) /\
  object_path bp (chunk_rel a3 [0]) = object_path bp (chunk_rel a2 [0]) /\
  object_path bp (chunk_rel a4 [0]) = object_path bp (chunk_rel a2 [0]) /\
  uanswers (object_path bp) [UPut a1 [0] 1; UPut a2 [0] 2; UGet a1 [0]] [] = [0; 0; 2] /\
  spec_answers [UPut a1 [0] 1; UPut a2 [0] 2; UGet a1 [0]] [] = [0; 0; 1].
Proof. cbv zeta. repeat split; try (vm_compute; reflexivity). discriminate. Qed.

(* the documented aliasing of buckets: "b_k/x" and "b-k/x" name the same array when the bucket is part of the name ... *)
Theorem bucket_underscore_alias :
  let x1 := [98; 95; 107; 47; 120] in let x2 := [98; 45; 107; 47; 120] in
  make_url_path [] (chunk_rel x1 [0]) = make_url_path [] (chunk_rel x2 [0])
  (* ... but are different arrays relative to a bucket in the store URL *)
  /\ make_url_path [47; 98; 47] (chunk_rel x1 [0]) <> make_url_path [47; 98; 47] (chunk_rel x2 [0]).
Proof. cbv zeta. split; vm_compute; [reflexivity|discriminate]. Qed.

(* what seeded change C07-7 does (dashes in the first component of the NAME although the bucket is in the URL) is excluded:
   the object key of "w_c" relative to bucket "b" is "w_c/00000.npy" *)
Theorem url_bucket_key_verbatim_example :
  object_path [47; 98; 47] (chunk_rel [119; 95; 99] [0])
  = [47; 98; 47; 119; 95; 99; 47; 48; 48; 48; 48; 48; 46; 110; 112; 121].
Proof. vm_compute. reflexivity. Qed.
