(* C11 (round 2): algebraic laws and histories that users of CategoricalData rely on and that follow from the model:
   partition + concatenate on any series, histories including partition/concatenate, remove (value gone,
   idempotent), remove_repeats idempotent, align on boundaries that are already segment starts (identity,
   idempotence, unused unique values dropped), read-after-add, negated comparisons, the label pipeline. *)
From Coq Require Import ZArith List Bool Arith Lia.
From KV Require Import Base.Sx Model.Categorical Model.CategoricalX Proofs.CategoricalP Proofs.CategoricalAddP
  Proofs.CategoricalPartP Proofs.CategoricalRemoveP Proofs.CategoricalAlignP Proofs.CategoricalConcatP
  Proofs.CategoricalSeqP Proofs.CategoricalXP Proofs.CategoricalXPartP.
Import ListNotations.
Open Scope nat_scope.

(* ------------------------------------------------------------------ generic list facts *)
Lemma expand_ev_In {A} (x : A) : forall r s vs, In x (expand_ev s r vs) -> In x vs.
Proof.
  induction r as [|e r IH]; intros s vs H; destruct vs as [|v vs]; simpl in H; try tauto.
  apply in_app_or in H. destruct H as [H|H].
  - apply repeat_spec in H. left; auto.
  - right. eapply IH; eauto.
Qed.

Lemma NoDup_nth_del {A} (d : A) : forall l j, NoDup l -> j < length l ->
  ~ In (nth j l d) (firstn j l ++ skipn (S j) l).
Proof.
  induction l as [|a l IH]; intros j ND Hj; simpl in Hj; [lia|].
  inversion ND as [|? ? Ha NDl]; subst. destruct j; simpl.
  - exact Ha.
  - intros [H|H].
    + apply Ha. rewrite H. apply nth_In. lia.
    + apply (IH j NDl); [lia|exact H].
Qed.

Lemma rr_aux_idem : forall t p, rr_aux p (rr_aux p t) = rr_aux p t.
Proof.
  induction t as [|[e i] t IH]; intros p; [reflexivity|]. cbn [rr_aux].
  destruct (match p with Some j => i =? j | None => false end) eqn:E.
  - destruct p as [j|]; [|discriminate]. apply Nat.eqb_eq in E. subst j. apply IH.
  - cbn [rr_aux]. rewrite E. f_equal. apply IH.
Qed.

Lemma next_event_gt_aux : forall r s p, chain le s r -> count_le r p < length r -> p < nth (count_le r p) r 0.
Proof.
  induction r as [|a r IH]; intros s p C H; simpl in H; [lia|]. destruct C as [C1 C2].
  rewrite count_le_cons in *. destruct (Nat.leb_spec a p).
  - simpl. apply (IH a); auto. simpl in H. lia.
  - assert (Z0 : count_le r p = 0).
    { apply count_le_zero. apply chain_le_Forall in C2. eapply Forall_impl; [|exact C2]. simpl; intros; lia. }
    rewrite Z0. simpl. lia.
Qed.

Lemma next_event_gt evs e : incr evs -> hd 0 evs <= e -> e < last evs 0 -> e < next_event evs e.
Proof.
  intros I H1 H2. destruct evs as [|s r]; [simpl in H2; lia|]. simpl in H1, I. rewrite last_cons in H2.
  unfold next_event. rewrite count_le_cons. destruct (Nat.leb_spec s e); [|lia]. simpl.
  assert (C : chain le s r) by (apply chain_lt_le; auto).
  apply (next_event_gt_aux r s); auto. apply (count_le_lt_length r s); auto.
Qed.

(* align keeps every event when the projected boundaries are strictly increasing *)
Lemma al_kept_all {A} : forall ps p0 (xs : list A), chain lt p0 ps -> length ps = length xs ->
  map (fun t => fst (fst t)) (al_kept (p0 :: ps) xs) = removelast (p0 :: ps) /\
  map snd (al_kept (p0 :: ps) xs) = xs.
Proof.
  induction ps as [|p1 ps IH]; intros p0 xs C L.
  - destruct xs; [|discriminate]. split; reflexivity.
  - destruct xs as [|x xs]; [discriminate|]. destruct C as [C1 C2]. rewrite al_kept_cons.
    destruct (Nat.ltb_spec p0 p1); [|lia]. destruct (IH p1 xs C2) as [I1 I2]; [simpl in L; lia|].
    change (removelast (p0 :: p1 :: ps)) with (p0 :: removelast (p1 :: ps)). cbn [map fst snd].
    rewrite I1, I2. split; reflexivity.
Qed.

Section Laws.
Context {V : Type} (veqb : V -> V -> bool) (dflt : V).
Context (veqb_spec : forall a b, veqb a b = true <-> a = b).
Notation cdV := (@cd V).

Lemma expand_In_vals (c : cdV) x : In x (expand dflt c) -> In x (vals dflt c).
Proof. unfold expand, expand_evs. destruct (ev c); [simpl; tauto|]. apply expand_ev_In. Qed.

Lemma vals_In_uv (c : cdV) x : WF c -> In x (vals dflt c) -> In x (uv c).
Proof.
  intros (_ & _ & F & _) H. unfold vals in H. apply in_map_iff in H. destruct H as (i & <- & Hi).
  rewrite Forall_forall in F. apply nth_In. auto.
Qed.

Lemma index_of_absent (l : list V) v : ~ In v l -> index_of veqb v l = None.
Proof.
  intros H. destruct (index_of veqb v l) as [i|] eqn:E; [|reflexivity]. exfalso. apply H.
  destruct (index_of_Some veqb dflt veqb_spec l v i E) as [Hi <-]. apply nth_In. auto.
Qed.

(* ------------------------------------------------------------------ partition + concatenate, any series *)
(* concatenate_categorical(partition(segments)) on ANY well-formed series with at least one event and ANY strictly
   increasing segments: a well-formed series that starts at dump 0, has last - first segment boundary dumps and
   whose per-dump list is the window [first, last) of the padded per-dump list *)
Lemma partconcat_gen (c : cdV) segs ar cc : WF c -> idx c <> [] -> incr segs ->
  concatenate veqb dflt (partition c segs) ar = Some cc ->
  WF cc /\ start0 cc /\ ndumps cc = last segs 0 - hd 0 segs /\
  expand dflt cc = firstn (last segs 0 - hd 0 segs) (skipn (hd 0 segs) (padded dflt c (last segs 0))).
Proof.
  intros W NI I HC. destruct (partition_gen dflt c segs W NI I) as (E & P & S).
  destruct (concatenate_expand veqb dflt veqb_spec (partition c segs) ar cc) as (A & B & C & D); auto.
  { intros p Hp. destruct (P p Hp) as (? & ? & ? & ?). auto. }
  split; [exact A|]. split; [exact B|]. split; [congruence|]. rewrite D, E. unfold spec_partition.
  destruct segs as [|s r]; [reflexivity|]. simpl tl. simpl hd. rewrite last_cons. simpl in I.
  apply cuts_concat; auto.
  unfold padded. rewrite !app_length, !repeat_length, (expand_length dflt c W). pose proof (WF_hd_le c W). lia.
Qed.

(* with boundaries from dump 0 to N this is the per-dump list itself, the first value extended back to dump 0 *)
Lemma partconcat_full (c : cdV) segs ar cc : WF c -> idx c <> [] -> incr segs -> hd 0 segs = 0 ->
  last segs 0 = ndumps c -> concatenate veqb dflt (partition c segs) ar = Some cc ->
  WF cc /\ start0 cc /\ ndumps cc = ndumps c /\
  expand dflt cc = repeat (hd dflt (vals dflt c)) (hd 0 (ev c)) ++ expand dflt c.
Proof.
  intros W NI I H0 HN HC. destruct (partconcat_gen c segs ar cc W NI I HC) as (A & B & C & D).
  split; [exact A|]. split; [exact B|]. split; [lia|]. rewrite D, H0, HN, Nat.sub_0_r. simpl skipn.
  unfold padded. rewrite Nat.sub_diag. simpl repeat. rewrite app_nil_r. apply firstn_all2.
  rewrite app_length, repeat_length, (expand_length dflt c W). pose proof (WF_hd_le c W). lia.
Qed.

(* ------------------------------------------------------------------ histories with partition + concatenate *)
Lemma apply_opx_WF (c c' : cdV) N o : WF c -> ndumps c = N -> op_okx N o -> apply_opx veqb dflt c o = Some c' ->
  WF c' /\ ndumps c' = N.
Proof.
  intros W HN OK H. destruct o as [e [v|]|v|segs d|segs| |segs ar];
    try (refine (apply_op_WF veqb dflt veqb_spec c c' N _ W HN _ H); exact OK).
  cbn [apply_opx] in H. destruct OK as (I & H0 & HL). unfold partition_x in H.
  destruct (idx c) as [|i0 I'] eqn:EI.
  - destruct (removelast segs) as [|a l] eqn:ER; [|discriminate].
    unfold partition in H. rewrite ER in H. simpl in H. discriminate.
  - assert (NI : idx c <> []) by (rewrite EI; discriminate).
    assert (HC : concatenate veqb dflt (partition c segs) ar = Some c') by (destruct (removelast segs); exact H).
    destruct (partconcat_gen c segs ar c' W NI I HC) as (A & _ & C & _). split; [exact A|lia].
Qed.

Lemma run_opsx_WF ops : forall (c c' : cdV) N, WF c -> ndumps c = N -> Forall (op_okx N) ops ->
  run_opsx veqb dflt c ops = Some c' -> WF c' /\ ndumps c' = N.
Proof.
  induction ops as [|o ops IH]; intros c c' N W HN F H; simpl in H.
  - inversion H; subst. auto.
  - inversion F; subst. destruct (apply_opx veqb dflt c o) as [c1|] eqn:E; [|discriminate].
    destruct (apply_opx_WF c c1 (ndumps c) o W eq_refl H2 E) as [W1 N1]. apply (IH c1 c' (ndumps c)); auto.
Qed.

(* ------------------------------------------------------------------ remove *)
(* after remove(v) the value is gone: from the unique values and from every dump; nothing else disappears from
   the unique values *)
Lemma remove_gone (c : cdV) v : WF c ->
  ~ In v (uv (remove veqb c v)) /\ ~ In v (expand dflt (remove veqb c v)) /\
  (forall w, w <> v -> In w (uv c) -> In w (uv (remove veqb c v))).
Proof.
  intros W. destruct (remove_WF veqb c v W) as [W' _].
  assert (G : ~ In v (uv (remove veqb c v)) /\ (forall w, w <> v -> In w (uv c) -> In w (uv (remove veqb c v)))).
  { unfold remove. destruct (index_of veqb v (uv c)) as [j|] eqn:E.
    - cbn [uv]. destruct (index_of_Some veqb dflt veqb_spec _ _ _ E) as [Hj Hv]. destruct W as (_ & _ & _ & ND). split.
      + rewrite <- Hv. apply NoDup_nth_del; auto.
      + intros w Hw Hin. rewrite <- (firstn_skipn j (uv c)) in Hin. apply in_app_or in Hin. apply in_or_app.
        destruct Hin as [Hin|Hin]; [left; auto|right].
        rewrite (nth_error_skipn_hd (uv c) j (nth j (uv c) dflt)) in Hin by (apply nth_error_nth'; auto).
        destruct Hin as [Hin|Hin]; [congruence|auto].
    - split; [|auto]. intro Hin. destruct (index_of_In veqb veqb_spec _ _ Hin) as (i & Hi). congruence. }
  destruct G as [G1 G2]. split; [exact G1|]. split; [|exact G2].
  intro Hin. apply G1. apply vals_In_uv; auto. apply expand_In_vals; auto.
Qed.

Lemma remove_idempotent (c : cdV) v : WF c -> remove veqb (remove veqb c v) v = remove veqb c v.
Proof. intros W. apply remove_absent. apply index_of_absent. apply (remove_gone c v W). Qed.

(* ------------------------------------------------------------------ remove_repeats *)
Lemma remove_repeats_idempotent (c c' : cdV) : WF c -> remove_repeats c = Some c' -> remove_repeats c' = Some c'.
Proof.
  intros W H. destruct (WF_shape c W) as (t & N & Hc). rewrite Hc in H.
  destruct t as [|[e0 i0] t].
  - simpl in H. discriminate.
  - cbn [map fst snd app] in H. rewrite rr_shape in H. inversion H; subst c'.
    rewrite rr_shape. rewrite rr_aux_idem. reflexivity.
Qed.

(* ------------------------------------------------------------------ align *)
(* when every event boundary already is a segment start, align moves nothing: same events, same values per
   event, same per-dump list; and afterwards every unique value is in use (this is how visdatav4.py drops an
   unused initial target: target.align(target.events)) *)
Lemma align_fixed (c : cdV) segs c' : WF c -> incr segs -> Forall (fun e => In e segs) (ev c) ->
  align dflt c segs = Some c' ->
  ev c' = ev c /\ vals dflt c' = vals dflt c /\ expand dflt c' = expand dflt c /\
  (forall x, In x (uv c') -> In x (vals dflt c')).
Proof.
  intros W I F H. destruct (WF_inv c W) as (s & r & E & C & L & _).
  assert (NE : segs <> []). { rewrite E in F. inversion F; subst. destruct segs; [contradiction|discriminate]. }
  assert (PR : map (nearest segs) (ev c) = ev c).
  { rewrite <- (map_id (ev c)) at 2. apply map_ext_in. intros e He. rewrite Forall_forall in F. apply nearest_fix; auto. }
  pose proof (align_vals dflt c segs c' H) as AV. rewrite PR in AV.
  pose proof (align_eq dflt c segs NE) as AE. rewrite H, PR in AE. injection AE as AE'.
  rewrite E in AV, AE' |- *. destruct (al_kept_all r s (idx c) C L) as [K1 K2].
  assert (EV : ev c' = s :: r).
  { rewrite AE'. cbn [ev]. rewrite K1. symmetry. apply (ev_snoc (s :: r)). discriminate. }
  assert (VA : vals dflt c' = vals dflt c) by (rewrite AV, K2; reflexivity).
  split; [exact EV|]. split; [exact VA|]. split.
  - unfold expand. rewrite VA, EV, E. reflexivity.
  - intros x Hx. rewrite VA. rewrite AE' in Hx. cbn [uv] in Hx. rewrite K2 in Hx.
    apply in_map_iff in Hx. destruct Hx as (i & <- & Hi). apply (proj1 (al_su_In _ _)) in Hi.
    unfold vals. apply in_map_iff. exists i. split; auto.
Qed.

Lemma align_self (c c' : cdV) : WF c -> align dflt c (ev c) = Some c' ->
  ev c' = ev c /\ vals dflt c' = vals dflt c /\ expand dflt c' = expand dflt c /\
  (forall x, In x (uv c') -> In x (vals dflt c')).
Proof.
  intros W H. apply (align_fixed c (ev c) c' W); auto. destruct W; auto. apply Forall_forall. auto.
Qed.

Lemma align_idempotent (c : cdV) segs c1 c2 : WF c -> incr segs ->
  align dflt c segs = Some c1 -> align dflt c1 segs = Some c2 ->
  ev c2 = ev c1 /\ vals dflt c2 = vals dflt c1 /\ expand dflt c2 = expand dflt c1.
Proof.
  intros W I H1 H2. destruct (align_WF dflt c segs c1 W I H1) as (W1 & F1 & _).
  destruct (align_fixed c1 segs c2 W1 I F1 H2) as (A & B & C & _). auto.
Qed.

(* ------------------------------------------------------------------ add, then read *)
Lemma add_then_get (c c' : cdV) e v : WF c -> e < ndumps c -> add veqb c e (Some v) = Some c' ->
  getitem dflt c' (KInt (Z.of_nat e)) = GVal v.
Proof.
  intros W HN HA. destruct (add_value_spec veqb dflt veqb_spec c e v W HN) as (c1 & E1 & W1 & N1 & H1 & _ & X1).
  rewrite HA in E1. inversion E1; subst c1. clear E1.
  assert (LE : hd 0 (ev c') <= e) by lia.
  destruct (lookup_value dflt c' e W1 LE) as (i & L1 & _ & L2); [lia|].
  cbn [getitem]. unfold lookupZ. destruct (Z.ltb_spec (Z.of_nat e) 0); [lia|]. rewrite Nat2Z.id, L1, L2, X1, H1.
  f_equal. unfold spec_add. pose proof (expand_length dflt c W) as XL. pose proof (WF_hd_le c W) as HL.
  destruct (Nat.ltb_spec e (hd 0 (ev c))).
  - rewrite Nat.min_l by lia. rewrite Nat.sub_diag. rewrite app_nth1 by (rewrite repeat_length; lia).
    apply nth_repeat_lt. lia.
  - rewrite Nat.min_r by lia.
    assert (NX : e < next_event (ev c) e) by (apply next_event_gt; [destruct W; auto|lia|exact HN]).
    rewrite app_nth2; rewrite firstn_length, XL; [|lia].
    replace (e - hd 0 (ev c) - Nat.min (e - hd 0 (ev c)) (ndumps c - hd 0 (ev c))) with 0 by lia.
    rewrite app_nth1 by (rewrite repeat_length; lia). apply nth_repeat_lt. lia.
Qed.

(* ------------------------------------------------------------------ comparisons *)
(* on the dumps that have a value, != is the negation of ==, >= of <, <= of > (for any predicate and its negation);
   on the dumps before the first event BOTH are False (bool_per_dump_spec) *)
Lemma cmp_negb (c : cdV) f : WF c -> cmp c (fun x => negb (f x)) = map negb (cmp c f).
Proof. intros W. rewrite !(cmp_expand dflt) by auto. unfold spec_cmp. rewrite map_map. reflexivity. Qed.

(* ------------------------------------------------------------------ add_unmatched: what it is for *)
Lemma add_novalue_some (c : cdV) s : WF c -> hd 0 (ev c) <= s -> s < ndumps c ->
  exists c', add veqb c s None = Some c'.
Proof.
  intros W H1 H2. destruct (lookup_value dflt c s W H1 H2) as (i & L & _). unfold add. rewrite L.
  destruct (WF_inv c W) as (s0 & r & E & _).
  assert (NE : ev c <> []) by (rewrite E; discriminate).
  pose proof (count_lt_lt_length (ev c) s (proj1 W) NE H2) as K.
  destruct (nth_error (ev c) (count_lt (ev c) s)) eqn:Hx; [eexists; reflexivity|].
  apply nth_error_None in Hx. lia.
Qed.

Lemma fold_add_grow : forall (l : list nat) (c : cdV), WF c ->
  let c' := fold_left (fun c s => match add veqb c s None with Some c' => c' | None => c end) l c in
  (forall y, In y (ev c) -> In y (ev c')) /\
  (forall s, In s l -> hd 0 (ev c) <= s -> s < ndumps c -> In s (ev c')).
Proof.
  induction l as [|s l IH]; intros c W; cbn [fold_left]; [split; [auto|intros ? []]|].
  destruct (add veqb c s None) as [c1|] eqn:A.
  - destruct (add_novalue_spec veqb dflt c c1 s W A) as (W1 & N1 & H1 & _ & I1 & _).
    destruct (IH c1 W1) as [G1 G2]. split.
    + intros y Hy. apply G1. apply I1. auto.
    + intros x [->|Hx] Ha Hb.
      * apply G1. apply I1. auto.
      * apply G2; auto; lia.
  - destruct (IH c W) as [G1 G2]. split; [exact G1|].
    intros x [->|Hx] Ha Hb; [|apply G2; auto].
    destruct (add_novalue_some c x W Ha Hb) as (c' & E). congruence.
Qed.

Lemma fold_min_In : forall t h, In (fold_left Nat.min t h) (h :: t).
Proof.
  induction t as [|a t IH]; intros h; [left; reflexivity|]. cbn [fold_left].
  destruct (IH (Nat.min h a)) as [E|E].
  - rewrite <- E. destruct (Nat.min_spec h a) as [[_ ->]|[_ ->]]; [left|right; left]; reflexivity.
  - right; right; exact E.
Qed.

(* after add_unmatched(segments, d) every segment start inside the event range has a sensor event within d dumps
   (the unmatched ones have an event exactly there); starts outside the range are ignored *)
Lemma add_unmatched_post (c : cdV) segs d s : WF c -> In s segs -> hd 0 (ev c) <= s -> s < ndumps c ->
  exists e, In e (ev (add_unmatched veqb c segs d)) /\ absd s e <= d /\
            (d < list_min (map (absd s) (ev c)) -> e = s).
Proof.
  intros W Hs Ha Hb. unfold add_unmatched.
  set (um := filter (fun s => d <? list_min (map (absd s) (ev c))) segs).
  destruct (fold_add_grow um c W) as [G1 G2].
  destruct (d <? list_min (map (absd s) (ev c))) eqn:T.
  - exists s. split; [|split; [unfold absd; lia|auto]].
    apply G2; auto. unfold um. apply filter_In. split; auto.
  - apply Nat.ltb_ge in T. destruct (WF_inv c W) as (s0 & r & E & _).
    assert (M : In (list_min (map (absd s) (ev c))) (map (absd s) (ev c))).
    { rewrite E. cbn [map list_min]. apply fold_min_In. }
    apply in_map_iff in M. destruct M as (e & Ee & He). exists e. split; [apply G1; auto|]. split; [lia|intros; lia].
Qed.

(* ------------------------------------------------------------------ align: not more events than segments *)
Lemma chain_lt_NoDup : forall r s, chain lt s r -> NoDup (s :: r).
Proof.
  induction r as [|e r IH]; intros s C; [repeat constructor; auto|]. destruct C as [C1 C2]. constructor; [|apply IH; auto].
  intros [H|H]; [lia|]. pose proof (chain_lt_Forall _ _ C2) as F. rewrite Forall_forall in F. specialize (F s H). lia.
Qed.

Lemma align_count (c : cdV) segs c' : WF c -> incr segs -> align dflt c segs = Some c' ->
  length (ev c') <= length segs /\ S (cat_len c') <= length segs.
Proof.
  intros W I H. destruct (align_WF dflt c segs c' W I H) as (W1 & F1 & _).
  destruct (WF_inv c' W1) as (s & r & E & C & L & _).
  assert (ND : NoDup (ev c')) by (rewrite E; apply chain_lt_NoDup; auto).
  assert (LE : length (ev c') <= length segs).
  { apply NoDup_incl_length; auto. intros x Hx. rewrite Forall_forall in F1. auto. }
  split; [exact LE|]. unfold cat_len. rewrite E in LE. simpl in LE. lia.
Qed.

(* ------------------------------------------------------------------ the label pipeline *)
(* label.remove(v); label.align(scan.events); if label.events[0] > 0: label.add(0, v) -- for scan events that
   start at dump 0 and contain N: always defined for N > 0, well-formed, starts at dump 0, still N dumps, and every event is a
   scan boundary *)
Lemma label_pipeline_spec (c : cdV) v segs : WF c -> 0 < ndumps c -> incr segs -> In 0 segs -> In (ndumps c) segs ->
  exists c', label_pipeline veqb dflt c v segs = Some c' /\ WF c' /\ start0 c' /\ ndumps c' = ndumps c /\
             Forall (fun e => In e segs) (ev c').
Proof.
  intros W HN I H0 HL. destruct (remove_WF veqb c v W) as [W1 N1].
  assert (NE : segs <> []) by (destruct segs; [contradiction|discriminate]).
  unfold label_pipeline.
  destruct (align dflt (remove veqb c v) segs) as [c2|] eqn:EA; [|rewrite (align_eq dflt _ segs NE) in EA; discriminate].
  destruct (align_WF dflt _ segs c2 W1 I EA) as (W2 & F2 & _ & _).
  pose proof (align_ends dflt _ segs c2 W1 I EA) as N2. rewrite N1 in N2. specialize (N2 HL).
  destruct (Nat.ltb_spec 0 (hd 0 (ev c2))).
  - destruct (add_value_spec veqb dflt veqb_spec c2 0 v W2) as (c3 & E3 & W3 & N3 & H3 & I3 & _); [lia|].
    exists c3. split; [exact E3|]. split; [exact W3|]. split; [unfold start0; rewrite H3; reflexivity|].
    split; [lia|]. apply Forall_forall. intros y Hy. apply I3 in Hy. destruct Hy as [->|Hy]; [exact H0|].
    rewrite Forall_forall in F2. auto.
  - exists c2. split; [reflexivity|]. split; [exact W2|]. split; [unfold start0; lia|]. split; [lia|exact F2].
Qed.

End Laws.

(* ------------------------------------------------------------------ unique_in_order, the tokenize fallback *)
Section TokP.
Context {V K : Type} (veqb : V -> V -> bool) (keqb : K -> K -> bool) (tok : V -> K) (dflt : V).
Context (veqb_spec : forall a b, veqb a b = true <-> a = b).
Context (keqb_spec : forall a b, keqb a b = true <-> a = b).
Context (tok_inj : forall a b, tok a = tok b -> a = b).

Lemma index_of_app_l (u w : list V) x i : index_of veqb x u = Some i -> index_of veqb x (u ++ w) = Some i.
Proof.
  revert i. induction u as [|a u IH]; intros i H; simpl in *; [discriminate|].
  destruct (veqb a x); [exact H|]. destruct (index_of veqb x u) as [j|]; [|discriminate].
  rewrite (IH j eq_refl). exact H.
Qed.

Lemma index_of_app_new (u : list V) x : index_of veqb x u = None -> index_of veqb x (u ++ [x]) = Some (length u).
Proof.
  induction u as [|a u IH]; intros H; simpl in *.
  - assert (E : veqb x x = true) by (apply veqb_spec; reflexivity). rewrite E. reflexivity.
  - destruct (veqb a x); [discriminate|]. destruct (index_of veqb x u); [discriminate|]. rewrite IH by reflexivity. reflexivity.
Qed.

Lemma index_of_app_none (u : list V) x y : index_of veqb y u = None -> veqb x y = false ->
  index_of veqb y (u ++ [x]) = None.
Proof.
  intros H NE. induction u as [|a u IH]; simpl in *; [rewrite NE; reflexivity|].
  destruct (veqb a y); [discriminate|]. destruct (index_of veqb y u); [discriminate|]. rewrite IH by reflexivity. reflexivity.
Qed.

Lemma memv_index_of (u : list V) x : memv veqb x u = match index_of veqb x u with Some _ => true | None => false end.
Proof.
  induction u as [|a u IH]; [reflexivity|]. unfold memv in *. simpl. destruct (veqb a x); [reflexivity|].
  rewrite IH. destruct (index_of veqb x u); reflexivity.
Qed.

Lemma uio_from_ext : forall l s1 s2, (forall y, memv veqb y s1 = memv veqb y s2) ->
  uio_from veqb s1 l = uio_from veqb s2 l.
Proof.
  induction l as [|x l IH]; intros s1 s2 H; [reflexivity|]. simpl. rewrite (H x).
  destruct (memv veqb x s2); [apply IH; auto|]. f_equal. apply IH. intros y. unfold memv. simpl. f_equal. apply H.
Qed.

Lemma memv_snoc (u : list V) x y : memv veqb y (u ++ [x]) = memv veqb y (x :: u).
Proof. unfold memv. rewrite existsb_app. simpl. rewrite orb_false_r. apply orb_comm. Qed.

(* invariant of the loop: the dict maps the token of every element seen so far to its position in unique_elements *)
Definition dict_ok (d : list (K * nat)) (u : list V) : Prop :=
  forall x, assoc keqb (tok x) d = index_of veqb x u.

Lemma uio_tok_loop_spec : forall l d u, dict_ok d u ->
  let U := u ++ uio_from veqb u l in
  uio_tok_loop keqb tok d u l = (U, inverse_of veqb U l).
Proof.
  induction l as [|x l IH]; intros d u OK; cbn [uio_tok_loop uio_from].
  - simpl. rewrite app_nil_r. reflexivity.
  - rewrite (OK x). rewrite memv_index_of. destruct (index_of veqb x u) as [i|] eqn:EI.
    + rewrite (IH d u OK). cbv zeta. unfold inverse_of at 2. cbn [map].
      rewrite (index_of_app_l u (uio_from veqb u l) x i EI). reflexivity.
    + assert (OK' : dict_ok ((tok x, length u) :: d) (u ++ [x])).
      { intros y. cbn [assoc]. destruct (keqb (tok x) (tok y)) eqn:EK.
        - apply keqb_spec in EK. apply tok_inj in EK. subst y. symmetry. apply index_of_app_new; auto.
        - rewrite (OK y). destruct (index_of veqb y u) as [j|] eqn:EJ.
          + symmetry. apply index_of_app_l; auto.
          + assert (NE : veqb x y = false).
            { destruct (veqb x y) eqn:E; auto. apply veqb_spec in E. subst y.
              assert (keqb (tok x) (tok x) = true) by (apply keqb_spec; reflexivity). congruence. }
            symmetry. apply index_of_app_none; auto. }
      rewrite (IH _ _ OK'). cbv zeta.
      assert (EU : (u ++ [x]) ++ uio_from veqb (u ++ [x]) l = u ++ x :: uio_from veqb (x :: u) l).
      { rewrite <- app_assoc. cbn [app]. f_equal. f_equal. apply uio_from_ext. intros y. apply memv_snoc. }
      rewrite EU. unfold inverse_of at 2. cbn [map].
      replace (index_of veqb x (u ++ x :: uio_from veqb (x :: u) l)) with (Some (length u)); [reflexivity|].
      symmetry. change (x :: uio_from veqb (x :: u) l) with ([x] ++ uio_from veqb (x :: u) l). rewrite app_assoc.
      apply index_of_app_l. apply index_of_app_new; auto.
Qed.

(* the fallback loop computes exactly unique_in_order (first occurrences, original order) and its inverse,
   provided equal tokens mean equal values (dask.tokenize is deterministic and collision-free: trusted) *)
Lemma uio_tok_spec (l : list V) :
  uio_tok keqb tok l = (unique_in_order veqb l, inverse_of veqb (unique_in_order veqb l) l).
Proof. unfold uio_tok, unique_in_order. apply (uio_tok_loop_spec l [] []). intros x. reflexivity. Qed.

End TokP.
