From Coq Require Import ZArith List Bool String Ascii Lia Arith.
From KV Require Import Base.Sx Base.Str Gen.Generated Model.Flags.
Import ListNotations.
Open Scope Z_scope.

(* ---------- generic list lemmas ---------- *)
Lemma index_of_Some_nth x l i : index_of x l = Some i -> nth i l ""%string = x /\ (i < List.length l)%nat.
Proof.
  revert i; induction l as [|y t IH]; intros i H; simpl in H; [discriminate|].
  destruct (String.eqb_spec x y) as [->|Hne].
  - injection H as <-. simpl. split; [reflexivity|lia].
  - destruct (index_of x t) as [j|] eqn:E; simpl in H; [|discriminate].
    injection H as <-. destruct (IH j eq_refl) as [A B]. simpl. split; [exact A|lia].
Qed.

Lemma index_of_nth l i : NoDup l -> (i < List.length l)%nat -> index_of (nth i l ""%string) l = Some i.
Proof.
  revert i; induction l as [|y t IH]; intros i ND Hi; simpl in Hi; [lia|].
  inversion ND as [|? ? Hnin ND']; subst.
  destruct i as [|i]; simpl.
  - rewrite String.eqb_refl. reflexivity.
  - destruct (String.eqb_spec (nth i t ""%string) y) as [E|_].
    + exfalso. apply Hnin. rewrite <- E. apply nth_In. lia.
    + rewrite IH by (auto; lia). reflexivity.
Qed.

Definition opt_is (o : option nat) (i : nat) : bool :=
  match o with Some j => Nat.eqb i j | None => false end.

Lemma opt_is_index_of l i n : NoDup l -> (i < List.length l)%nat ->
  opt_is (index_of n l) i = String.eqb (nth i l ""%string) n.
Proof.
  intros ND Hi. destruct (index_of n l) as [j|] eqn:E; simpl.
  - destruct (index_of_Some_nth _ _ _ E) as [A B].
    destruct (Nat.eqb_spec i j) as [->|Hne].
    + rewrite A. symmetry. apply String.eqb_refl.
    + symmetry. apply String.eqb_neq. intro H. apply Hne.
      rewrite <- H in E. rewrite index_of_nth in E by auto. congruence.
  - symmetry. apply String.eqb_neq. intro H. rewrite <- H in E.
    rewrite index_of_nth in E by auto. discriminate.
Qed.

Lemma nth_set_nth l j i : nth i (set_nth l j) false =
  if (Nat.eqb i j && Nat.ltb j (List.length l))%bool then true else nth i l false.
Proof.
  revert j i; induction l as [|h t IH]; intros j i; simpl.
  - destruct i, j; simpl; try reflexivity; rewrite ?andb_false_r; reflexivity.
  - destruct j as [|j]; destruct i as [|i]; simpl; try reflexivity.
    rewrite IH. reflexivity.
Qed.

Lemma length_set_nth l j : List.length (set_nth l j) = List.length l.
Proof. revert j; induction l; intros [|j]; simpl; auto. Qed.

Lemma length_mark known sel n : List.length (mark known sel n) = List.length sel.
Proof. unfold mark. destruct (index_of n known); auto using length_set_nth. Qed.

Lemma nth_fold_mark known names : forall acc i,
  List.length acc = List.length known ->
  nth i (fold_left (mark known) names acc) false =
  (nth i acc false || existsb (fun n => opt_is (index_of n known) i) names)%bool.
Proof.
  induction names as [|n t IH]; intros acc i Hlen; simpl.
  - rewrite orb_false_r. reflexivity.
  - rewrite IH by (rewrite length_mark; exact Hlen).
    unfold mark at 1. destruct (index_of n known) as [j|] eqn:E; simpl.
    + rewrite nth_set_nth.
      destruct (index_of_Some_nth _ _ _ E) as [_ Hj].
      assert (Hlt : Nat.ltb j (List.length acc) = true) by (apply Nat.ltb_lt; lia).
      rewrite Hlt, andb_true_r.
      destruct (Nat.eqb i j); simpl; [rewrite orb_true_r; reflexivity|].
      reflexivity.
    + reflexivity.
Qed.

Lemma mem_string_existsb x l : mem_string x l = existsb (String.eqb x) l.
Proof. reflexivity. Qed.


(* bit i of the selection is set iff the i-th known name is among the requested names *)
Lemma existsb_ext' {A} (f g : A -> bool) l : (forall x, f x = g x) -> existsb f l = existsb g l.
Proof. intros H; induction l; simpl; [reflexivity|]. rewrite H, IHl. reflexivity. Qed.

Lemma nth_selection_bits known names i : NoDup known -> List.length known = 8%nat -> (i < 8)%nat ->
  nth i (selection_bits known names) false = mem_string (nth i known ""%string) names.
Proof.
  intros ND L8 Hi. unfold selection_bits. rewrite nth_fold_mark by (rewrite repeat_length; auto).
  assert (nth i (repeat false 8) false = false) as ->.
  { do 8 (destruct i as [|i]; [reflexivity|]). lia. }
  simpl. unfold mem_string. apply existsb_ext'. intro n.
  apply opt_is_index_of; [exact ND|lia].
Qed.

Lemma length_selection_bits known names : List.length (selection_bits known names) = 8%nat.
Proof.
  unfold selection_bits. generalize (repeat_length false 8).
  generalize (repeat false 8). induction names; intros acc H; simpl; [exact H|].
  apply IHnames. rewrite length_mark. exact H.
Qed.

Lemma list8 (l : list bool) : List.length l = 8%nat ->
  l = [nth 0 l false; nth 1 l false; nth 2 l false; nth 3 l false;
       nth 4 l false; nth 5 l false; nth 6 l false; nth 7 l false].
Proof. do 9 (destruct l as [|? l]; try discriminate); reflexivity. Qed.

Definition b2z (b : bool) : Z := if b then 1 else 0.

Lemma doc_names_nodup : NoDup doc_names.
Proof.
  unfold doc_names.
  repeat (constructor; [simpl; intros H; repeat (destruct H as [H|H]; [discriminate H|]); exact H|]).
  constructor.
Qed.

(* ---------- the property lemmas ---------- *)
Lemma names_are_documented : flag_names = doc_names.
Proof. reflexivity. Qed.

Lemma mask_v34_bits_known (names : list string) :
  packbits (rev (selection_bits doc_names names)) = spec_mask_v34 names.
Proof.
  pose proof (length_selection_bits doc_names names) as L8.
  rewrite (list8 _ L8).
  rewrite !(nth_selection_bits doc_names names) by (auto using doc_names_nodup; lia).
  unfold spec_mask_v34, spec_mask_aux, doc_names. cbn [nth rev app packbits packbits_aux].
  repeat match goal with |- context [mem_string ?s names] => destruct (mem_string s names) end; reflexivity.
Qed.

Lemma mask_v2_bits_known (names : list string) :
  packbits (selection_bits doc_names names) = spec_mask_v2 names.
Proof.
  pose proof (length_selection_bits doc_names names) as L8.
  rewrite (list8 _ L8).
  rewrite !(nth_selection_bits doc_names names) by (auto using doc_names_nodup; lia).
  unfold spec_mask_v2, spec_mask_aux, doc_names. cbn [nth packbits packbits_aux].
  repeat match goal with |- context [mem_string ?s names] => destruct (mem_string s names) end; reflexivity.
Qed.

Lemma mask_v34_bits (a : selarg) : flagmask_v34 flag_names a = spec_mask_v34 (spec_wanted a).
Proof. unfold flagmask_v34, spec_wanted. rewrite names_are_documented. apply mask_v34_bits_known. Qed.

Lemma mask_v2_bits (a : selarg) : flagmask_v2 flag_names a = spec_mask_v2 (spec_wanted a).
Proof. unfold flagmask_v2, spec_wanted. rewrite names_are_documented. apply mask_v2_bits_known. Qed.

(* closed form of the spec: sum over documented positions *)
Lemma spec_mask_v34_sum wanted :
  spec_mask_v34 wanted =
  fold_right Z.add 0 (map (fun i => if mem_string (nth i doc_names ""%string) wanted then 2 ^ Z.of_nat i else 0)
                          (seq 0 8)).
Proof.
  unfold spec_mask_v34, spec_mask_aux, doc_names. cbn [seq map nth fold_right].
  repeat match goal with |- context [mem_string ?s wanted] => destruct (mem_string s wanted) end; reflexivity.
Qed.

Lemma spec_mask_v2_sum wanted :
  spec_mask_v2 wanted =
  fold_right Z.add 0 (map (fun i => if mem_string (nth i doc_names ""%string) wanted then 2 ^ (7 - Z.of_nat i) else 0)
                          (seq 0 8)).
Proof.
  unfold spec_mask_v2, spec_mask_aux, doc_names. cbn [seq map nth fold_right].
  repeat match goal with |- context [mem_string ?s wanted] => destruct (mem_string s wanted) end; reflexivity.
Qed.

Lemma all_is_255 : flagmask_v34 flag_names (SelStr "all") = 255 /\ flagmask_v2 flag_names (SelStr "all") = 255.
Proof. split; reflexivity. Qed.

Lemma empty_is_0 : flagmask_v34 flag_names (SelStr "") = 0 /\ flagmask_v34 flag_names (SelList []) = 0
  /\ flagmask_v2 flag_names (SelStr "") = 0 /\ flagmask_v2 flag_names (SelList []) = 0.
Proof. repeat split; reflexivity. Qed.

Lemma mem_unknown n x l : ~ In n doc_names -> In x doc_names -> mem_string x (n :: l) = mem_string x l.
Proof.
  intros Hn Hx. unfold mem_string. simpl.
  destruct (String.eqb_spec x n) as [->|_]; [contradiction|reflexivity].
Qed.

Lemma unknown_ignored n l : ~ In n doc_names ->
  flagmask_v34 flag_names (SelList (n :: l)) = flagmask_v34 flag_names (SelList l) /\
  flagmask_v2 flag_names (SelList (n :: l)) = flagmask_v2 flag_names (SelList l).
Proof.
  intros Hn. rewrite !mask_v34_bits, !mask_v2_bits. unfold spec_wanted, selection_to_list.
  unfold spec_mask_v34, spec_mask_v2, spec_mask_aux, doc_names.
  rewrite !(mem_unknown n _ l Hn) by (unfold doc_names; simpl; tauto).
  split; reflexivity.
Qed.

Lemma mem_string_In x l : mem_string x l = true <-> In x l.
Proof.
  unfold mem_string. rewrite existsb_exists. split.
  - intros (y & Hy & E). apply String.eqb_eq in E. subst. exact Hy.
  - intros H. exists x. split; [exact H|apply String.eqb_refl].
Qed.

(* a warning is issued for exactly the requested names that are not documented flag names *)
Lemma unknown_warned a n :
  In n (unknown_names flag_names a) <-> In n (selection_to_list a doc_names) /\ ~ In n doc_names.
Proof.
  unfold unknown_names. rewrite names_are_documented, filter_In.
  split; intros [A B]; (split; [exact A|]).
  - intro H. apply mem_string_In in H. rewrite H in B. discriminate B.
  - destruct (mem_string n doc_names) eqn:E; [|reflexivity]. exfalso. apply B. apply mem_string_In. exact E.
Qed.

Lemma no_warning_iff a :
  unknown_names flag_names a = [] <-> forall n, In n (selection_to_list a doc_names) -> In n doc_names.
Proof.
  split.
  - intros E n Hn. destruct (mem_string n doc_names) eqn:M; [apply mem_string_In; exact M|].
    exfalso. assert (In n (unknown_names flag_names a)) as H.
    { apply unknown_warned. split; [exact Hn|]. intro H. apply mem_string_In in H. congruence. }
    rewrite E in H. exact H.
  - intros H. destruct (unknown_names flag_names a) as [|n t] eqn:E; [reflexivity|].
    exfalso. assert (In n (unknown_names flag_names a)) as Hn by (rewrite E; left; reflexivity).
    apply unknown_warned in Hn. destruct Hn as [A B]. exact (B (H n A)).
Qed.

Lemma bits_consistent :
  forallb (fun p => match index_of (fst p) flag_names with
                    | Some i => Z.eqb (Z.of_nat i) (snd p) | None => false end) flag_bits = true
  /\ forallb (fun p => match index_of (fst p) flag_names with
                    | Some i => Z.eqb (2 ^ Z.of_nat i) (snd p) | None => false end) flag_masks = true
  /\ List.length flag_bits = 7%nat /\ List.length flag_masks = 7%nat.
Proof. repeat split; reflexivity. Qed.

Definition bytes : list Z := map Z.of_nat (seq 0 256).

Lemma flag_bool_sweep :
  forallb (fun r => forallb (fun m => Bool.eqb (flag_bool r m) (spec_flag_bool r m)) bytes) bytes = true.
Proof. vm_compute. reflexivity. Qed.

Lemma in_bytes z : 0 <= z < 256 -> In z bytes.
Proof.
  intros H. unfold bytes. apply in_map_iff. exists (Z.to_nat z). split; [lia|].
  apply in_seq. lia.
Qed.

Lemma flag_bool_spec raw mask : 0 <= raw < 256 -> 0 <= mask < 256 ->
  flag_bool raw mask = spec_flag_bool raw mask.
Proof.
  intros Hr Hm. pose proof flag_bool_sweep as H.
  rewrite forallb_forall in H. specialize (H raw (in_bytes _ Hr)).
  rewrite forallb_forall in H. specialize (H mask (in_bytes _ Hm)).
  apply Bool.eqb_prop. exact H.
Qed.

Lemma raw_flags_v4_spec stored lost cal : raw_flags_v4 stored lost cal = spec_raw_flags_v4 stored lost cal.
Proof. reflexivity. Qed.

(* other bits untouched: the derived byte differs from the stored one at most in bits 3 and 7 *)
Lemma raw_flags_v4_other_bits stored lost cal i : 0 <= i -> i <> 3 -> i <> 7 ->
  Z.testbit (spec_raw_flags_v4 stored lost cal) i = Z.testbit stored i.
Proof.
  intros Hi H3 H7. unfold spec_raw_flags_v4. rewrite !Z.lor_spec.
  assert (Z.testbit (if lost then 8 else 0) i = false) as ->.
  { destruct lost; [|apply Z.testbit_0_l]. change 8 with (2^3). rewrite Z.pow2_bits_eqb by lia.
    apply Z.eqb_neq. lia. }
  assert (Z.testbit (if cal then 128 else 0) i = false) as ->.
  { destruct cal; [|apply Z.testbit_0_l]. change 128 with (2^7). rewrite Z.pow2_bits_eqb by lia.
    apply Z.eqb_neq. lia. }
  rewrite !orb_false_r. reflexivity.
Qed.

Example nonvacuous : flagmask_v34 flag_names (SelStr "cam, data_lost ,bogus") = 12
  /\ flagmask_v2 flag_names (SelStr "cam, data_lost ,bogus") = 48
  /\ flag_bool 9 12 = true /\ flag_bool 3 12 = false.
Proof. repeat split; reflexivity. Qed.
