(* C06 round 2b: lost elements under van_vleck='autocorr' and under the weight power scaling. *)
From Coq Require Import ZArith QArith Qcanon List Bool Lia.
From KV Require Import Base.Sx Gen.Generated Model.Interp Model.Weights Model.LostOpt Proofs.WeightsP.
Import ListNotations.
Close Scope Q_scope.
Open Scope Z_scope.

Lemma vv_anchor_is_origin : vv_anchor = (0%Q, 0%Q).
Proof. reflexivity. Qed.

(* np.interp at the abscissa of the first node returns its ordinate (strictly increasing table) *)
Lemma interp_at_first x0 y0 t : strictly_inc ((x0, y0) :: t) -> (interp_d ((x0, y0) :: t) x0 == y0)%Q.
Proof.
  intro S. unfold interp_d, interp.
  assert (E : Qle_bool x0 x0 = true) by (apply Qle_bool_iff; apply Qle_refl).
  rewrite E. destruct t as [|[x1 y1] t']; [reflexivity|].
  cbn [interp_from]. destruct S as [Hlt _].
  destruct (Qle_bool x1 x0) eqn:E1.
  - apply Qle_bool_iff in E1. exfalso. apply (Qlt_not_le _ _ Hlt E1).
  - unfold seg. setoid_replace (x0 - x0)%Q with 0%Q by ring. ring.
Qed.

(* a zero-filled autocorrelation stays exactly zero through the Van Vleck correction, for every strictly increasing
   table that starts with the anchor found in the source *)
Lemma vv_lost_stays_zero t : strictly_inc (vv_anchor :: t) -> vv_interp (vv_anchor :: t) (Fin 0) = Fin 0.
Proof.
  intro S. rewrite vv_anchor_is_origin in *. unfold vv_interp. f_equal.
  apply Qc_is_canon. change (this 0%Qc) with 0%Q.
  unfold Q2Qc. cbn [this]. rewrite Qred_correct. apply (interp_at_first 0%Q 0%Q t S).
Qed.

Lemma opt_vis_lost vv is_auto t x : vv = None \/ (vv = Some (vv_anchor :: t) /\ strictly_inc (vv_anchor :: t)) ->
  opt_vis_re vv is_auto (delivered true x) = Fin 0.
Proof.
  intros [->|[-> S]]; cbn [opt_vis_re delivered]; [reflexivity|].
  destruct is_auto; [apply vv_lost_stays_zero; exact S|reflexivity].
Qed.

(* without the anchor np.interp clamps to the first true-power entry: a zero-filled autocorrelation does not stay zero *)
Lemma vv_without_anchor_refuted :
  exists table, strictly_inc table /\ vv_interp table (Fin 0) <> Fin 0.
Proof.
  exists [((1 # 1000)%Q, (8 # 1000)%Q); (1%Q, 2%Q)]. split.
  - simpl. repeat split; reflexivity.
  - vm_compute. discriminate.
Qed.

(* weights: a lost weights / weights_channel chunk gives exactly zero whatever the autocorrelations and the option *)
Lemma finish_scale_zero s1 s2 : finish_scale s1 s2 (Fin 0) = Fin 0.
Proof.
  unfold finish_scale. destruct (isfinite (emul s1 s2)) eqn:E.
  - destruct (emul s1 s2) as [q| | |]; try discriminate. cbn [emul]. f_equal. ring.
  - cbn [emul]. f_equal. ring.
Qed.

Lemma opt_weight_lost divided a1 a2 : opt_weight divided a1 a2 (Fin 0) = Fin 0.
Proof. unfold opt_weight, power_scale, power_scale_gen. destruct divided; [apply finish_scale_zero|reflexivity]. Qed.

(* the decision table is what the kernels compute: for every stored weight sw and autocorrelation powers a1 a2 *)
Lemma weight_class_correct divided l1 l2 wl a1 a2 sw :
  opt_weight divided (delivered l1 a1) (delivered l2 a2) (delivered wl sw) =
  match weight_class divided l1 l2 wl with
  | 0 => Fin 0
  | 1 => emul (Fin bad_weight) sw
  | _ => opt_weight divided a1 a2 sw
  end.
Proof.
  unfold weight_class. destruct wl; cbn [delivered].
  - apply opt_weight_lost.
  - destruct divided; cbn [andb].
    + destruct (l1 || l2) eqn:E.
      * unfold opt_weight, power_scale. rewrite guard_on. apply bad_weight_div_guarded.
        destruct l1; [left; left; reflexivity|]. destruct l2; [right; left; reflexivity|discriminate].
      * apply orb_false_iff in E. destruct E as [-> ->]. reflexivity.
    + reflexivity.
Qed.

Lemma ex_weight_classes :
  weight_class true true false false = 1 /\ weight_class true false false false = 2 /\
  weight_class true true true true = 0 /\ weight_class false true true false = 2 /\ vis_class true = 0 /\
  opt_weight true (Fin 0) (Fin (Q2Qc 3)) (Fin (Q2Qc 5)) = Fin (bad_weight * Q2Qc 5)%Qc /\
  gen_weights_divided true false = true /\ gen_weights_divided true true = false /\ gen_weights_divided false true = false.
Proof. repeat split; reflexivity. Qed.
