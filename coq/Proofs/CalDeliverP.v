(* C14: lemmas about the correction delivered per data channel (Model/CalDeliver.v). *)
From Coq Require Import ZArith QArith Qabs List Bool String Arith Lia Lqa.
From KV Require Import Base.Sx Base.Str Gen.Generated Model.Interp Model.CalInterp Model.CalDeliver Proofs.InterpP
  Proofs.CalInterpP.
From KV Require Model.Applycal.
Import ListNotations.
Local Open Scope Q_scope.

Lemma corr_len_const : forall (gs : list (list (option pv))) n,
  gs <> [] -> (forall g, In g gs -> List.length g = n) -> corr_len gs = n.
Proof.
  intros gs n Hne H. unfold corr_len. induction gs as [|g t IH]; [congruence|]. cbn [map fold_right].
  rewrite (H g (or_introl eq_refl)). destruct t as [|g' t'].
  - cbn. apply Nat.max_0_r.
  - fold (corr_len (g' :: t')). unfold corr_len. rewrite IH; [apply Nat.max_id | discriminate |].
    intros x Hx. apply H. right. exact Hx.
Qed.

(* K and B corrections are evaluated on the data frequencies by their calculators, so calc_correction must hand data
   channel c the c-th entry — WHATEVER the channelisation of the cal stream (same / different number of channels, same
   / offset / narrower / coarser frequencies).  Holds by the K/B clause of the map choice (applycal_kb_direct,
   regenerated from the source: without it equal channel counts with different frequencies take the nearest-cal-channel
   map a second time and this lemma is false). *)
Lemma choose_map_kb : forall data cal,
  Applycal.choose_map true (List.length data) data cal =
  if Nat.eqb (List.length data) 1 then Applycal.Broadcast else Applycal.Direct.
Proof.
  intros data cal. unfold Applycal.choose_map. destruct (Nat.eqb (List.length data) 1); [reflexivity|].
  rewrite Nat.eqb_refl. reflexivity.
Qed.

Lemma delivered_direct : forall data cal gs i1 i2 c,
  gs <> [] -> (forall g, In g gs -> List.length g = List.length data) -> (c < List.length data)%nat ->
  delivered true data cal gs i1 i2 c = cmul (nth c (nth i1 gs []) None) (cconj (nth c (nth i2 gs []) None)).
Proof.
  intros data cal gs i1 i2 c Hne Hlen Hc. unfold delivered. rewrite (corr_len_const gs _ Hne Hlen), choose_map_kb.
  destruct (Nat.eqb (List.length data) 1) eqn:E; [|reflexivity].
  apply Nat.eqb_eq in E. assert (c = O) by lia. subst c. reflexivity.
Qed.

Lemma nth_seq_map : forall (A : Type) (f : nat -> A) n c d, (c < n)%nat -> nth c (map f (seq 0 n)) d = f c.
Proof.
  intros A f n c d H. rewrite (nth_indep _ d (f O)) by (rewrite map_length, seq_length; exact H).
  rewrite map_nth, seq_nth by exact H. reflexivity.
Qed.

Lemma nth_map_default : forall (A B : Type) (f : A -> B) (l : list A) c dA dB, (c < List.length l)%nat ->
  nth c (map f l) dB = f (nth c l dA).
Proof.
  intros A B f l c dA dB H. rewrite (nth_indep (map f l) dB (f dA)) by (rewrite map_length; exact H). apply map_nth.
Qed.

(* ---- delays *)
Lemma delay_vectors_len : forall data delays g, In g (delay_vectors data delays) -> List.length g = List.length data.
Proof.
  intros data delays g H. unfold delay_vectors in H. apply in_map_iff in H. destruct H as [d [E _]]. subst g.
  unfold delay_corr_seg. rewrite !map_length. reflexivity.
Qed.

Lemma delay_vector_nth : forall data delays i c, (i < List.length delays)%nat -> (c < List.length data)%nat ->
  nth c (nth i (delay_vectors data delays) []) None =
  Some (1, - ((match nth i delays None with Some q => q | None => 0 end) * nth c data 0)).
Proof.
  intros data delays i c Hi Hc. unfold delay_vectors.
  rewrite (nth_indep _ [] (map (@Some pv) (delay_corr_seg data None))) by (rewrite map_length; exact Hi).
  rewrite (map_nth (fun d => map (@Some pv) (delay_corr_seg data d))).
  rewrite (nth_indep _ None (Some (0, 0))) by (unfold delay_corr_seg; rewrite !map_length; exact Hc).
  rewrite (map_nth (@Some pv)). rewrite (delay_formula data _ c Hc). reflexivity.
Qed.

Theorem delivered_delay_is_spec : forall data cal delays i1 i2,
  (i1 < List.length delays)%nat -> (i2 < List.length delays)%nat ->
  delivered_delay data cal delays i1 i2 = spec_delivered_delay data delays i1 i2.
Proof.
  intros data cal delays i1 i2 H1 H2. unfold delivered_delay, delivered_row, spec_delivered_delay.
  apply (nth_ext _ _ None None); [rewrite !map_length, seq_length; reflexivity|].
  intros c Hc. rewrite map_length, seq_length in Hc. rewrite (nth_seq_map _ _ _ c None Hc).
  rewrite delivered_direct; [| | apply delay_vectors_len | exact Hc].
  - rewrite !delay_vector_nth by assumption.
    rewrite (nth_map_default _ _ (fun f => spec_delay_at f (nth i1 delays None) (nth i2 delays None)) data c 0 None Hc).
    reflexivity.
  - unfold delay_vectors. destruct delays; [inversion H1 | discriminate].
Qed.

(* in words: magnitude 1, phase -(d1 - d2) * f_c turns at the data channel's own frequency, a NaN delay counting as 0 *)
Theorem delivered_delay_formula : forall data cal delays i1 i2 c,
  (i1 < List.length delays)%nat -> (i2 < List.length delays)%nat -> (c < List.length data)%nat ->
  exists m p, nth c (delivered_delay data cal delays i1 i2) None = Some (m, p) /\ m == 1 /\
    p == - (((match nth i1 delays None with Some q => q | None => 0 end) -
             (match nth i2 delays None with Some q => q | None => 0 end)) * nth c data 0).
Proof.
  intros data cal delays i1 i2 c H1 H2 Hc.
  assert (E : nth c (delivered_delay data cal delays i1 i2) None =
              spec_delay_at (nth c data 0) (nth i1 delays None) (nth i2 delays None)).
  { rewrite (delivered_delay_is_spec data cal delays i1 i2 H1 H2). unfold spec_delivered_delay.
    apply (nth_map_default _ _ (fun f => spec_delay_at f (nth i1 delays None) (nth i2 delays None)) data c 0 None Hc). }
  unfold spec_delay_at in E. eexists. eexists. split; [exact E|]. split; lra.
Qed.

(* ---- bandpasses *)
Lemma bandpass_vectors_len : forall data cal bps g, In g (bandpass_vectors data cal bps) -> List.length g = List.length data.
Proof.
  intros data cal bps g H. unfold bandpass_vectors in H. apply in_map_iff in H. destruct H as [bp [E _]]. subst g.
  rewrite bandpass_corr_seg_unfold. destruct (valid_nodes cal bp); rewrite map_length; reflexivity.
Qed.

Lemma bandpass_vector_nth : forall data cal bps i c, (i < List.length bps)%nat -> (c < List.length data)%nat ->
  nth c (nth i (bandpass_vectors data cal bps) []) None = spec_bandpass_at cal (nth c data 0) (nth i bps []).
Proof.
  intros data cal bps i c Hi Hc. unfold bandpass_vectors.
  rewrite (nth_indep _ [] (bandpass_corr_seg cal data [])) by (rewrite map_length; exact Hi).
  rewrite (map_nth (bandpass_corr_seg cal data)). unfold spec_bandpass_at.
  destruct (valid_nodes cal (nth i bps [])) as [|n t] eqn:E.
  - rewrite (bandpass_all_invalid _ _ _ E).
    rewrite (nth_map_default _ _ (fun _ : Q => @None pv) data c 0 None Hc). reflexivity.
  - apply (bandpass_entry cal data _ n t c E Hc).
Qed.

Theorem delivered_bandpass_is_spec : forall data cal bps i1 i2,
  (i1 < List.length bps)%nat -> (i2 < List.length bps)%nat ->
  delivered_bandpass data cal bps i1 i2 = spec_delivered_bandpass data cal bps i1 i2.
Proof.
  intros data cal bps i1 i2 H1 H2. unfold delivered_bandpass, delivered_row, spec_delivered_bandpass.
  apply (nth_ext _ _ None None); [rewrite !map_length, seq_length; reflexivity|].
  intros c Hc. rewrite map_length, seq_length in Hc. rewrite (nth_seq_map _ _ _ c None Hc).
  rewrite delivered_direct; [| | apply bandpass_vectors_len | exact Hc].
  - rewrite !bandpass_vector_nth by assumption.
    set (F := fun f => cmul (spec_bandpass_at cal f (nth i1 bps [])) (cconj (spec_bandpass_at cal f (nth i2 bps [])))).
    rewrite (nth_map_default _ _ F data c 0 None Hc). reflexivity.
  - unfold bandpass_vectors. destruct bps; [inversion H1 | discriminate].
Qed.

(* so the no-extrapolation rule and exactness on valid channels hold for what the DATA channel receives *)
Theorem delivered_bandpass_invalid_outside : forall data cal bps i1 i2 c x0 v0 t,
  (i1 < List.length bps)%nat -> (i2 < List.length bps)%nat -> (c < List.length data)%nat ->
  valid_nodes cal (nth i1 bps []) = (x0, v0) :: t ->
  (nth c data 0 < x0 \/ fst (last ((x0, v0) :: t) (x0, (0, 0))) < nth c data 0) ->
  nth c (delivered_bandpass data cal bps i1 i2) None = None.
Proof.
  intros data cal bps i1 i2 c x0 v0 t H1 H2 Hc E Hout.
  unfold delivered_bandpass, delivered_row. rewrite (nth_seq_map _ _ _ c None Hc).
  rewrite delivered_direct; [| | apply bandpass_vectors_len | exact Hc].
  - assert (K : nth c (nth i1 (bandpass_vectors data cal bps) []) None = None).
    { unfold bandpass_vectors.
      rewrite (nth_indep _ [] (bandpass_corr_seg cal data [])) by (rewrite map_length; exact H1).
      rewrite (map_nth (bandpass_corr_seg cal data)).
      apply (bandpass_no_extrapolation cal data _ x0 v0 t c E Hc Hout). }
    rewrite K. reflexivity.
  - unfold bandpass_vectors. destruct bps; [inversion H1 | discriminate].
Qed.
