(* C01 (extension round): the frequency axis of the v1 / v2 / v3 readers is the documented one (Model/DataSetFreq.v). *)
From Coq Require Import ZArith QArith List Bool String Lia.
From KV Require Import Base.Sx Base.Str Base.SelSlice Base.PySlice Base.AxisIndex Base.NdArray Gen.Generated
  Model.Flags Model.DataSet Model.DataSetFreq Proofs.DataSetBaseP Proofs.DataSetP Proofs.DataSetTopP Proofs.DataSetExP
  Proofs.DataSetPreP.
From KV Require Model.Select Proofs.SelectP Model.TimeFreq Proofs.TimeFreqP.
Import ListNotations.
Open Scope Z_scope.

Lemma nz n : 0 < n -> ~ (inject_Z n == 0)%Q.
Proof. intro H. apply TimeFreqP.inject_Z_nonzero. lia. Qed.

(* ------------------------------------------------------------------ v1 *)
Lemma axis_v1 a k : 0 < fa_n a ->
  TimeFreq.s_n (window_v1 a) = fa_n a /\ TimeFreq.s_side (window_v1 a) = -1
  /\ (TimeFreq.chan_freq (window_v1 a) k == spec_freq V1 a k)%Q.
Proof.
  intro Hn. pose proof (nz _ Hn) as NN. unfold window_v1, TimeFreq.spw_init. cbn [TimeFreq.s_n TimeFreq.s_side].
  split; [reflexivity|]. split; [reflexivity|].
  rewrite TimeFreqP.chan_freq_closed by (cbn [TimeFreq.s_n]; lia).
  unfold TimeFreq.spec_chan_freq, spec_freq, spec_axis. cbn [TimeFreq.s_centre TimeFreq.s_bw TimeFreq.s_n TimeFreq.s_side fst snd].
  unfold TimeFreq.q_init_bandwidth, gen_spw_init_bandwidth, sideband_of, gen_v1_sideband, gen_spw_default_sideband.
  change (inject_Z (-1)) with (-(1))%Q. field. exact NN.
Qed.

(* ------------------------------------------------------------------ v2 *)
Lemma axis_v2 a k : 0 < fa_n a ->
  TimeFreq.s_n (window_v2 a) = fa_n a /\ TimeFreq.s_side (window_v2 a) = -1
  /\ (TimeFreq.chan_freq (window_v2 a) k == spec_freq V2 a k)%Q.
Proof.
  intro Hn. pose proof (nz _ Hn) as NN. unfold window_v2, TimeFreq.spw_init. cbn [TimeFreq.s_n TimeFreq.s_side].
  split; [reflexivity|]. split; [reflexivity|].
  rewrite TimeFreqP.chan_freq_closed by (cbn [TimeFreq.s_n]; lia).
  unfold TimeFreq.spec_chan_freq, spec_freq, spec_axis. cbn [TimeFreq.s_centre TimeFreq.s_bw TimeFreq.s_n TimeFreq.s_side fst snd].
  unfold TimeFreq.q_init_bandwidth, gen_spw_init_bandwidth, sideband_of, gen_v2_sideband, gen_spw_default_sideband,
    q_v2_cw, gen_v2_channel_width, q_v2_lo, gen_v2_lo_correction.
  change (inject_Z (-1)) with (-(1))%Q. destruct (fa_old a); field; exact NN.
Qed.

(* the translated constants of the KAT-7 readers *)
Lemma kat7_axis_source :
  gen_spw_default_sideband = -1 /\ gen_v1_sideband = None /\ gen_v2_sideband = None
  /\ gen_v1_freq_attrs = [("centre_freq", "center_frequency_hz"); ("channel_width", "channel_bandwidth_hz");
                          ("num_chans", "num_freq_channels")]%string
  /\ gen_v2_freq_attrs = [("num_chans", "n_chans"); ("bandwidth", "bandwidth")]%string
  /\ gen_v2_centre_sensors = ("2.1", ("RFE/center-frequency-hz", "RFE/rfe7.lo1.frequency"))%string.
Proof. repeat split. Qed.

(* ------------------------------------------------------------------ v3 *)
Lemma v3_source :
  gen_v3_spw_prog = [1; 2; 3; 4; 5; 6; 7; 8; 9; 10]
  /\ gen_v3_rx_table = [("l", ("L", (Some 1284000000, 1))); ("u", ("UHF", (Some 816000000, 1)));
                        ("x", ("Ku", (None, 1)))]%string
  /\ gen_v3_rx_default = (""%string, (None, 1)) /\ gen_v3_bw_workaround = (857152196, 856000000)
  /\ gen_v3_fake_uhf = ("UHF"%string, (856000000, (428000000, -1))) /\ gen_v3_ku_band = "Ku"%string
  /\ gen_v3_default_centre = 0.
Proof. repeat split. Qed.

(* steps 4 .. 10 (centre overrides, channel width, channel count, constructor) from any state after step 3 *)
Definition final_centre (a : fattrs) (c : option Q) : Q :=
  match truthy (fa_param a) with
  | Some p => p
  | None => match fa_l0 a with
            | Some l => l
            | None => match c with Some x => x | None => inject_Z 0 end
            end
  end.

Lemma v3_tail a b c sd bw cw0 n0 :
  fold_left (v3_step a) [4; 5; 6; 7; 8; 9; 10] (mkV3 b c sd bw cw0 n0 None)
  = mkV3 b (Some (final_centre a c)) sd bw (q_v3_cw bw (fa_n a)) (fa_n a)
         (Some (TimeFreq.spw_init (final_centre a c, q_v3_cw bw (fa_n a), fa_n a, sd, None))).
Proof.
  unfold final_centre. cbn [fold_left].
  change (v3_step a (mkV3 b c sd bw cw0 n0 None) 4)
    with (match fa_l0 a with Some l => mkV3 b (Some l) sd bw cw0 n0 None | None => mkV3 b c sd bw cw0 n0 None end).
  destruct (fa_l0 a) as [l|].
  - change (v3_step a (mkV3 b (Some l) sd bw cw0 n0 None) 5) with (mkV3 b (Some l) sd bw (q_v3_cw bw (fa_n a)) n0 None).
    change (v3_step a (mkV3 b (Some l) sd bw (q_v3_cw bw (fa_n a)) n0 None) 6)
      with (mkV3 b (Some l) sd bw (q_v3_cw bw (fa_n a)) n0 None).
    change (v3_step a (mkV3 b (Some l) sd bw (q_v3_cw bw (fa_n a)) n0 None) 7)
      with (match truthy (fa_param a) with
            | Some p => mkV3 b (Some p) sd bw (q_v3_cw bw (fa_n a)) n0 None
            | None => mkV3 b (Some l) sd bw (q_v3_cw bw (fa_n a)) n0 None end).
    destruct (truthy (fa_param a)) as [p|]; reflexivity.
  - change (v3_step a (mkV3 b c sd bw cw0 n0 None) 5) with (mkV3 b c sd bw (q_v3_cw bw (fa_n a)) n0 None).
    change (v3_step a (mkV3 b c sd bw (q_v3_cw bw (fa_n a)) n0 None) 6)
      with (mkV3 b c sd bw (q_v3_cw bw (fa_n a)) n0 None).
    change (v3_step a (mkV3 b c sd bw (q_v3_cw bw (fa_n a)) n0 None) 7)
      with (match truthy (fa_param a) with
            | Some p => mkV3 b (Some p) sd bw (q_v3_cw bw (fa_n a)) n0 None
            | None => mkV3 b c sd bw (q_v3_cw bw (fa_n a)) n0 None end).
    destruct (truthy (fa_param a)) as [p|]; [reflexivity|]. destruct c; reflexivity.
Qed.

(* steps 1 .. 3: receiver table, bandwidth workaround, special receivers *)
Definition head3 (a : fattrs) : v3st := fold_left (v3_step a) [1; 2; 3] (mkV3 "" None 0 (fa_bw a) 0%Q 0 None).

Lemma v3_split a : v3_run a = fold_left (v3_step a) [4; 5; 6; 7; 8; 9; 10] (head3 a).
Proof. unfold v3_run, head3, gen_v3_spw_prog. cbn [fold_left]. reflexivity. Qed.

Lemma step2 a b c sd bw cw0 n0 :
  v3_step a (mkV3 b c sd bw cw0 n0 None) 2
  = mkV3 b c sd (if Qeq_bool bw (inject_Z 857152196) then inject_Z 856000000 else bw) cw0 n0 None.
Proof.
  change (v3_step a (mkV3 b c sd bw cw0 n0 None) 2)
    with (if Qeq_bool bw (inject_Z 857152196) then mkV3 b c sd (inject_Z 856000000) cw0 n0 None
          else mkV3 b c sd bw cw0 n0 None).
  destruct (Qeq_bool bw (inject_Z 857152196)); reflexivity.
Qed.

Lemma head3_cases a :
  head3 a = mkV3 (v_band (head3 a))
                 (if String.eqb "l" (fa_band a) then Some (inject_Z 1284000000)
                  else if String.eqb "u" (fa_band a) then
                    Some (if spec_lower V3 a then inject_Z 428000000 else inject_Z 816000000)
                  else if String.eqb "x" (fa_band a) then
                    match truthy (fa_siggen a) with Some g => Some (q_v3_ku g) | None => None end
                  else None)
                 (if spec_lower V3 a then -1 else 1) (spec_bw a) 0%Q 0 None.
Proof.
  unfold head3. cbn [fold_left].
  change (v3_step a (mkV3 "" None 0 (fa_bw a) 0%Q 0 None) 1)
    with (let r := match find (fun p => String.eqb (fst p) (fa_band a)) gen_v3_rx_table with
                   | Some p => snd p | None => gen_v3_rx_default end in
          mkV3 (fst r) (option_map inject_Z (fst (snd r))) (snd (snd r)) (fa_bw a) 0%Q 0 None).
  unfold gen_v3_rx_table, gen_v3_rx_default. cbn [find fst snd]. unfold spec_lower, spec_bw.
  set (bw := if Qeq_bool (fa_bw a) (inject_Z 857152196) then inject_Z 856000000 else fa_bw a).
  destruct (String.eqb "l" (fa_band a)) eqn:El;
  [|destruct (String.eqb "u" (fa_band a)) eqn:Eu; [|destruct (String.eqb "x" (fa_band a)) eqn:Ex]];
  cbv zeta; cbn [fst snd option_map andb]; rewrite step2; fold bw.
  - apply String.eqb_eq in El. rewrite <- El. change (("u" =? "l")%string) with false. cbn [andb].
    change (v3_step a (mkV3 "L" (Some (inject_Z 1284000000)) 1 bw 0%Q 0 None) 3)
      with (mkV3 "L" (Some (inject_Z 1284000000)) 1 bw 0%Q 0 None).
    reflexivity.
  - change (v3_step a (mkV3 "UHF" (Some (inject_Z 816000000)) 1 bw 0%Q 0 None) 3)
      with (if Qeq_bool bw (inject_Z 856000000)
            then mkV3 "UHF" (Some (inject_Z 428000000)) (-1) bw 0%Q 0 None
            else mkV3 "UHF" (Some (inject_Z 816000000)) 1 bw 0%Q 0 None).
    destruct (Qeq_bool bw (inject_Z 856000000)); reflexivity.
  - change (v3_step a (mkV3 "Ku" None 1 bw 0%Q 0 None) 3)
      with (match truthy (fa_siggen a) with
            | Some f => mkV3 "Ku" (Some (q_v3_ku f)) 1 bw 0%Q 0 None
            | None => mkV3 "Ku" None 1 bw 0%Q 0 None end).
    destruct (truthy (fa_siggen a)); reflexivity.
  - change (v3_step a (mkV3 "" None 1 bw 0%Q 0 None) 3) with (mkV3 "" None 1 bw 0%Q 0 None).
    reflexivity.
Qed.

Lemma axis_v3 a : 0 < fa_n a ->
  exists w, window_v3 a = Some w /\ TimeFreq.s_n w = fa_n a
    /\ TimeFreq.s_side w = (if spec_lower V3 a then -1 else 1)
    /\ forall k, (TimeFreq.chan_freq w k == spec_freq V3 a k)%Q.
Proof.
  intro Hn. pose proof (nz _ Hn) as NN.
  unfold window_v3. rewrite v3_split, head3_cases, v3_tail. cbn [v_win].
  eexists. split; [reflexivity|]. split; [reflexivity|]. split; [reflexivity|]. intro k.
  rewrite TimeFreqP.chan_freq_closed by (unfold TimeFreq.spw_init; cbn [TimeFreq.s_n]; lia).
  unfold TimeFreq.spec_chan_freq, TimeFreq.spw_init, spec_freq, spec_axis, final_centre.
  cbn [TimeFreq.s_centre TimeFreq.s_bw TimeFreq.s_n TimeFreq.s_side fst snd].
  unfold TimeFreq.q_init_bandwidth, gen_spw_init_bandwidth, q_v3_cw, gen_v3_channel_width.
  set (bw := spec_bw a).
  destruct (truthy (fa_param a)) as [p|]; [|destruct (fa_l0 a) as [l|];
    [|destruct (String.eqb "l" (fa_band a)); [|destruct (String.eqb "u" (fa_band a));
      [|destruct (String.eqb "x" (fa_band a)); [destruct (truthy (fa_siggen a))|]]]]];
  destruct (spec_lower V3 a);
  try change (inject_Z (-1)) with (-(1))%Q; try change (inject_Z 1) with 1%Q; try change (inject_Z 0) with 0%Q;
  unfold q_v3_ku, gen_v3_ku_centre; field; exact NN.
Qed.

(* ------------------------------------------------------------------ all three readers *)

Lemma axis_documented f a : f <> V4 -> 0 < fa_n a ->
  exists w, window_of f a = Some w /\ TimeFreq.s_n w = fa_n a
    /\ TimeFreq.s_side w = (if spec_lower f a then -1 else 1)
    /\ forall k, (TimeFreq.chan_freq w k == spec_freq f a k)%Q.
Proof.
  intros Hf Hn. destruct f; [| | |congruence].
  - exists (window_v1 a). destruct (axis_v1 a 0 Hn) as (N & S & _). split; [reflexivity|]. split; [exact N|].
    split; [exact S|]. intro k. now destruct (axis_v1 a k Hn) as (_ & _ & E).
  - exists (window_v2 a). destruct (axis_v2 a 0 Hn) as (N & S & _). split; [reflexivity|]. split; [exact N|].
    split; [exact S|]. intro k. now destruct (axis_v2 a k Hn) as (_ & _ & E).
  - exact (axis_v3 a Hn).
Qed.

(* C01_freqs_documented: after every history freqs has one entry per channel of the data set and freqs[j] is the
   documented frequency of stored channel channels[j], computed from what the file says *)
Lemma freqs_history f a w c h d : f <> V4 -> 0 < fa_n a -> window_of f a = Some w -> cfg_ok c -> nF c = fa_n a ->
  run c (start c) h = Some d ->
  let s := ds_sel d in
  zlen (axis_freqs w s) = zlen (channels s)
  /\ forall j, 0 <= j < zlen (channels s) ->
       (nth (Z.to_nat j) (axis_freqs w s) 0 == spec_freq f a (znth (channels s) j))%Q.
Proof.
  intros Hf Hn Hw Hc HF H s. subst s.
  destruct (axis_documented f a Hf Hn) as (w' & Hw' & N & _ & E). rewrite Hw in Hw'. injection Hw' as <-.
  assert (L : zlen (TimeFreq.freqs_full w) = nF c) by (rewrite freqs_full_length by lia; lia).
  destruct (shape_history c h d Hc H) as (_ & _ & S3 & _).
  destruct (labels_history c h d Hc H) as (_ & L2 & _).
  split; [exact (S3 _ _ L)|]. intros j Hj. unfold axis_freqs. rewrite (L2 _ _ 0%Q j L Hj).
  destruct (coordinates_history c h d H) as (_ & Df & _). unfold in_range in Df. rewrite Forall_forall in Df.
  pose proof (Df _ (znth_in _ _ Hj)) as R.
  rewrite freqs_full_nth by lia. apply E.
Qed.

(* C01_conjugation_iff_flipped_spectrum: the visibilities are conjugated exactly when the window the reader built has
   the lower sideband, which is exactly when the documented axis is flipped (two separately translated facts:
   the .conjugate() of each vis property and the sideband of each SpectralWindow call) *)
Lemma conj_iff_lower f a w c s : c_fmt c = f -> f <> V4 -> 0 < fa_n a -> window_of f a = Some w ->
  c_upper c = (TimeFreq.s_side w =? 1) ->
  conv_of c s KVis = CVis (TimeFreq.s_side w =? -1) /\ (TimeFreq.s_side w =? -1) = spec_lower f a.
Proof.
  intros Hc Hf Hn Hw Hu.
  destruct (axis_documented f a Hf Hn) as (w' & Hw' & _ & S & _). rewrite Hw in Hw'. injection Hw' as <-.
  rewrite conv_vis, Hc. rewrite Hu, S.
  destruct f; [| | |congruence]; cbn [spec_lower]; [split; reflexivity|split; reflexivity|].
  destruct (_ && _); split; reflexivity.
Qed.

(* v4: upper sideband, never conjugated *)
Lemma conj_v4 c s centre bw n : c_fmt c = V4 -> 0 < n ->
  conv_of c s KVis = CVis false /\ TimeFreq.s_side (TimeFreq.v4_spw centre bw n) = 1.
Proof.
  intros Hc Hn. rewrite conv_vis, Hc. split; [reflexivity|].
  now destruct (TimeFreqP.v4_spw_closed centre bw n Hn) as (_ & _ & _ & S).
Qed.

(* ------------------------------------------------------------------ non-vacuity *)
Definition ex_fa (centre bw : Q) (n : Z) (old : bool) (band : string) (l0 par : option Q) : fattrs :=
  {| fa_centre := centre; fa_bw := bw; fa_n := n; fa_old := old; fa_band := band; fa_l0 := l0; fa_param := par;
     fa_siggen := None |}.

Lemma example_axes :
  (* KAT-7 v1: 1822 MHz, 1 MHz channels, 4 channels: channel 0 is the highest *)
  map (fun k => Qred (spec_freq V1 (ex_fa 1822 1 4 false "" None None) k)) [0; 1; 2; 3] = [1824; 1823; 1822; 1821]%Q
  /\ option_map (fun w => map Qred (TimeFreq.freqs_full w)) (window_of V1 (ex_fa 1822 1 4 false "" None None))
     = Some [1824; 1823; 1822; 1821]%Q
  (* v2 before 2.1: LO1 at 6022 MHz, 4 MHz in 4 channels *)
  /\ option_map (fun w => map Qred (TimeFreq.freqs_full w)) (window_of V2 (ex_fa 6022000000 4 4 true "" None None))
     = Some [1822000002; 1822000001; 1822000000; 1821999999]%Q
  (* MeerKAT L band, 5 channels of 2: upper sideband around 1284 MHz *)
  /\ option_map (fun w => map Qred (TimeFreq.freqs_full w)) (window_of V3 (ex_fa 0 10 5 false "l" None None))
     = Some [1283999996; 1283999998; 1284000000; 1284000002; 1284000004]%Q
  (* "fake UHF": band u with the 856 MHz digitiser (here reported with the CBF bandwidth bug): flipped around 428 MHz *)
  /\ option_map (fun w => (TimeFreq.s_side w, map Qred (TimeFreq.freqs_full w)))
       (window_of V3 (ex_fa 0 857152196 2 false "u" None None))
     = Some (-1, [856000000; 428000000]%Q)
  /\ spec_lower V3 (ex_fa 0 857152196 2 false "u" None None) = true
  (* real UHF, centre overridden by the L0 attribute and then by the centre_freq= argument *)
  /\ option_map (fun w => (TimeFreq.s_side w, map Qred (TimeFreq.freqs_full w)))
       (window_of V3 (ex_fa 0 544000000 2 false "u" (Some 900000000%Q) (Some 1000000000%Q)))
     = Some (1, [728000000; 1000000000]%Q)
  (* unknown band, nothing given: 0 Hz *)
  /\ option_map (fun w => map Qred (TimeFreq.freqs_full w)) (window_of V3 (ex_fa 0 4 2 false "s" None None))
     = Some [-(2); 0]%Q.
Proof. repeat split; vm_compute; reflexivity. Qed.
