(* C07: lemmas about Model/ChunksNpy.v -- the bytes of the .npy object of a chunk: what katdal's writer lays out is read
   back by both readers as the same (dtype descriptor, shape, elements), whatever the memory layout of the chunk handed
   in; files of other writers (either order, formats 1.0 / 2.0 / 3.0, any padding) decode element for element; the body
   starts on a 64-byte boundary; two different chunks never give the same file; get_chunk returns a file only under the
   dtype and shape it was asked for. *)
From Coq Require Import ZArith List Bool Lia Arith.
From KV Require Import Base.Sx Gen.Generated Model.Chunks Model.ChunksMulti Proofs.ChunksP Proofs.ChunksMultiP.
From KV Require Import Model.Npy Model.ChunksNpy Proofs.NpyP Proofs.NpyHdrP.
Import ListNotations.
Open Scope Z_scope.

(* ---------- what the translator read off the source ---------- *)
Lemma write_major_eq : cs_npy_write_major = 1.
Proof. reflexivity. Qed.
Lemma katdal_nb_eq : katdal_nb = 2%nat.
Proof. reflexivity. Qed.
Lemma katdal_hlen : hlen_bytes cs_npy_write_major = Some katdal_nb.
Proof. reflexivity. Qed.
(* katdal's own reader accepts the version katdal's writer produces *)
Lemma reader_accepts_writer : existsb (Z.eqb cs_npy_write_major) cs_npy_read_versions = true.
Proof. reflexivity. Qed.

(* a modelled dtype: printable descriptor, kind b i u f c S V, item size isz *)
Definition dtype_ok (descr : bytes) (isz : nat) : Prop :=
  descr_ok descr /\ itemsize descr = Some isz /\ kind_modelled descr = true.

(* ---------- items <-> bytes ---------- *)
Definition items_ok (isz : nat) (l : list item) : Prop := Forall (fun it => List.length it = isz) l.

Lemma split_concat : forall isz (l : list item), items_ok isz l ->
  split_items isz (List.length l) (concat l) = l.
Proof.
  intros isz l H. induction H as [|x l Hx Hl IH]; [reflexivity|].
  cbn [List.length concat split_items].
  assert (F : firstn isz (x ++ concat l) = x) by (rewrite <- Hx; apply NpyHdrP.firstn_len_app).
  assert (S : skipn isz (x ++ concat l) = concat l) by (rewrite <- Hx; apply NpyHdrP.skipn_len_app).
  rewrite F, S, IH. reflexivity.
Qed.

Lemma length_concat : forall isz (l : list item), items_ok isz l ->
  List.length (concat l) = (List.length l * isz)%nat.
Proof.
  intros isz l H. induction H as [|x l Hx Hl IH]; [reflexivity|].
  cbn [List.length concat]. rewrite app_length, IH, Hx. lia.
Qed.

(* ---------- index spaces ---------- *)
Lemma length_cart {T} : forall ls : list (list T),
  List.length (cart ls) = fold_right Nat.mul 1%nat (map (@List.length T) ls).
Proof.
  induction ls as [|l t IH]; [reflexivity|]. cbn [cart map fold_right]. rewrite <- IH.
  induction l as [|x l IHl]; [reflexivity|]. cbn [flat_map List.length]. rewrite app_length, map_length, IHl. lia.
Qed.

Lemma length_enumerate : forall shape, List.length (enumerate shape) = count (shape_nat shape).
Proof.
  intro shape. unfold enumerate, count, shape_nat. rewrite length_cart, map_map. f_equal.
  apply map_ext. intro n. unfold zrange. rewrite map_length, seq_length. reflexivity.
Qed.

Lemma fold_mul_k : forall l k, fold_right Nat.mul k l = (k * fold_right Nat.mul 1 l)%nat.
Proof. induction l as [|a l IH]; intro k; cbn [fold_right]; [lia|]. rewrite IH. lia. Qed.
Lemma fold_right_rev_mul : forall l, fold_right Nat.mul 1%nat (rev l) = fold_right Nat.mul 1%nat l.
Proof.
  induction l as [|a l IH]; [reflexivity|]. cbn [rev fold_right]. rewrite fold_right_app. cbn [fold_right].
  rewrite fold_mul_k, IH. lia.
Qed.

Lemma shape_nat_back : forall shape, Forall (fun s => 0 <= s) shape -> map Z.of_nat (shape_nat shape) = shape.
Proof.
  intros shape H. unfold shape_nat. rewrite map_map. induction H as [|s t Hs Ht IH]; [reflexivity|].
  cbn [map]. rewrite IH, Z2Nat.id by exact Hs. reflexivity.
Qed.

(* ---------- the header: padding and alignment ---------- *)
Lemma print_hdr_c_length : forall pad m,
  List.length (print_hdr_c pad m) = (List.length (print_hdr_c 0 m) + pad)%nat.
Proof.
  intros pad m. unfold print_hdr_c. repeat rewrite app_length. rewrite repeat_length. cbn [repeat List.length]. lia.
Qed.

Lemma pad_range : forall nb m, (1 <= npy_pad nb m <= 64)%nat.
Proof.
  intros nb m. unfold npy_pad, npy_align.
  pose proof (Z.mod_pos_bound (8 + Z.of_nat nb + Z.of_nat (List.length (print_hdr_c 0 m))) 64 ltac:(lia)). lia.
Qed.

Lemma pad_aligned : forall nb m,
  (8 + Z.of_nat nb + Z.of_nat (List.length (print_hdr_c (npy_pad nb m) m))) mod 64 = 0.
Proof.
  intros nb m. rewrite print_hdr_c_length. unfold npy_pad, npy_align.
  set (L := 8 + Z.of_nat nb + Z.of_nat (List.length (print_hdr_c 0 m))).
  pose proof (Z.mod_pos_bound L 64 ltac:(lia)) as B.
  rewrite Nat2Z.inj_add, Z2Nat.id by lia.
  replace (8 + Z.of_nat nb + (Z.of_nat (List.length (print_hdr_c 0 m)) + (64 - L mod 64)))
    with (L - L mod 64 + 1 * 64) by (unfold L; lia).
  rewrite Z.mod_add by lia. rewrite Zminus_mod_idemp_r, Z.sub_diag. reflexivity.
Qed.

(* ---------- well-formed objects ---------- *)
Definition wf_obj (isz : nat) (o : npy_obj item) : Prop :=
  match o with
  | NpyObj _ shape body =>
      Forall (fun s => 0 <= s) shape /\ List.length body = count (shape_nat shape) /\ items_ok isz body
  end.

Lemma wf_obj_file : forall major nb pad descr isz o,
  itemsize descr = Some isz -> hlen_bytes major = Some nb ->
  Z.of_nat (List.length (print_hdr_c pad (obj_hdr descr o))) <= max_header_size ->
  wf_obj isz o ->
  wf_file (print_hdr_c pad) major nb (obj_hdr descr o) (obj_body o).
Proof.
  intros major nb pad descr isz [fo shape body] Hi Hnb Hmax [Hs [Hl Hit]].
  split; [exact Hnb|]. split; [exact Hmax|]. exists isz. split; [exact Hi|].
  cbn [obj_hdr obj_body h_shape]. rewrite (length_concat isz body Hit), Hl. reflexivity.
Qed.

Lemma obj_of_ok : forall descr isz o, itemsize descr = Some isz -> wf_obj isz o ->
  obj_of (Ok (obj_hdr descr o, obj_body o)) = Ok (descr, o).
Proof.
  intros descr isz [fo shape body] Hi [Hs [Hl Hit]]. cbn [obj_of obj_hdr obj_body h_descr h_fortran h_shape].
  rewrite Hi. rewrite (shape_nat_back shape Hs), <- Hl, (split_concat isz body Hit). reflexivity.
Qed.

(* ---------- any writer: both readers give the object back ---------- *)
Theorem read_any_writer : forall major nb pad descr isz o,
  descr_ok descr -> itemsize descr = Some isz -> hlen_bytes major = Some nb ->
  Z.of_nat (List.length (print_hdr_c pad (obj_hdr descr o))) <= max_header_size ->
  wf_obj isz o ->
  npy_read_file (obj_bytes_v major nb pad descr o) = Ok (descr, o)
  /\ (existsb (Z.eqb major) cs_npy_read_versions = true ->
      s3_read_file (obj_bytes_v major nb pad descr o) = Ok (descr, o)).
Proof.
  intros major nb pad descr isz o Hd Hi Hnb Hmax Hwf.
  pose proof (wf_obj_file major nb pad descr isz o Hi Hnb Hmax Hwf) as Hfile.
  assert (Hdo : descr_ok (h_descr (obj_hdr descr o))) by (destruct o; exact Hd).
  split.
  - unfold npy_read_file, obj_bytes_v.
    rewrite (decode_encode_c pad major nb (obj_hdr descr o) (obj_body o) Hdo Hfile).
    exact (obj_of_ok descr isz o Hi Hwf).
  - intro Hv. unfold s3_read_file, obj_bytes_v.
    pose proof (read_array_prefix_at parse_hdr_c (print_hdr_c pad) EIncomplete cs_npy_read_versions major nb
                  (obj_hdr descr o) (obj_body o) (file_len (print_hdr_c pad) nb (obj_hdr descr o) (obj_body o))
                  (parse_print_c pad (obj_hdr descr o) Hdo) Hfile Hv) as H.
    rewrite firstn_all2 in H by (rewrite encode_length; lia).
    rewrite Nat.ltb_irrefl in H. rewrite H.
    exact (obj_of_ok descr isz o Hi Hwf).
Qed.

(* ---------- katdal's writer ---------- *)
Definition hdr_small (descr : bytes) (o : npy_obj item) : Prop :=
  Z.of_nat (List.length (print_hdr_c 0 (obj_hdr descr o))) <= max_header_size - 64.

Lemma hdr_small_padded : forall descr o, hdr_small descr o ->
  Z.of_nat (List.length (print_hdr_c (npy_pad katdal_nb (obj_hdr descr o)) (obj_hdr descr o))) <= max_header_size.
Proof.
  intros descr o H. unfold hdr_small in H. rewrite print_hdr_c_length.
  pose proof (pad_range katdal_nb (obj_hdr descr o)). lia.
Qed.

Theorem read_katdal_object : forall descr isz o,
  descr_ok descr -> itemsize descr = Some isz -> hdr_small descr o -> wf_obj isz o ->
  npy_read_file (obj_bytes descr o) = Ok (descr, o) /\ s3_read_file (obj_bytes descr o) = Ok (descr, o).
Proof.
  intros descr isz o Hd Hi Hsm Hwf. unfold obj_bytes.
  destruct (read_any_writer cs_npy_write_major katdal_nb (npy_pad katdal_nb (obj_hdr descr o)) descr isz o
              Hd Hi katdal_hlen (hdr_small_padded descr o Hsm) Hwf) as [H1 H2].
  split; [exact H1|exact (H2 reader_accepts_writer)].
Qed.

(* the body of the object katdal writes starts on a multiple of 64 bytes *)
Theorem body_offset_aligned : forall descr o,
  exists h, obj_bytes descr o = h ++ obj_body o /\ Z.of_nat (List.length h) mod 64 = 0
            /\ firstn 8 h = magic_prefix ++ [cs_npy_write_major; 0].
Proof.
  intros descr o. set (m := obj_hdr descr o). set (p := npy_pad katdal_nb m).
  exists (magic_prefix ++ [cs_npy_write_major; 0]
          ++ le_encode katdal_nb (Z.of_nat (List.length (print_hdr_c p m))) ++ print_hdr_c p m).
  split; [|split].
  - unfold obj_bytes, obj_bytes_v, encode. fold m. fold p. repeat rewrite <- app_assoc. reflexivity.
  - repeat rewrite app_length. rewrite le_encode_length.
    replace (Z.of_nat (List.length magic_prefix + (List.length [cs_npy_write_major; 0]
                        + (katdal_nb + List.length (print_hdr_c p m)))))
      with (8 + Z.of_nat katdal_nb + Z.of_nat (List.length (print_hdr_c p m))) by (cbn [List.length magic_prefix]; lia).
    apply pad_aligned.
  - reflexivity.
Qed.

(* the chunk handed to put_chunk, whatever its memory layout *)
Lemma encode_wf : forall isz (elem : list Z -> item) shape lay,
  Forall (fun s => 0 <= s) shape -> (forall q, List.length (elem q) = isz) ->
  wf_obj isz (npy_encode elem shape lay).
Proof.
  intros isz elem shape lay Hs He. rewrite npy_encode_c_order. split; [exact Hs|]. split.
  - rewrite map_length. apply length_enumerate.
  - unfold items_ok. apply Forall_forall. intros it Hin. apply in_map_iff in Hin. destruct Hin as [q [<- _]]. apply He.
Qed.

Theorem npy_file_round_trip_top : forall descr isz (elem : list Z -> item) shape lay,
  descr_ok descr -> itemsize descr = Some isz ->
  Forall (fun s => 0 <= s) shape -> (forall q, List.length (elem q) = isz) ->
  hdr_small descr (NpyObj false shape []) ->
  let file := npy_file descr elem shape lay in
  let o := NpyObj false shape (map elem (enumerate shape)) in
  npy_read_file file = Ok (descr, o) /\ s3_read_file file = Ok (descr, o)
  /\ forall (d : item) q, In q (enumerate shape) -> npy_decode d o q = elem q.
Proof.
  intros descr isz elem shape lay Hd Hi Hs He Hsm file o.
  assert (Eo : npy_encode elem shape lay = o) by apply npy_encode_c_order.
  pose proof (encode_wf isz elem shape lay Hs He) as Hwf. unfold file, npy_file. rewrite Eo in *.
  destruct (read_katdal_object descr isz o Hd Hi Hsm Hwf) as [H1 H2].
  split; [exact H1|]. split; [exact H2|].
  intros d q Hq. exact (npy_foreign_decode d elem shape false q Hq).
Qed.

(* an object of another writer for the same logical chunk, in either order *)
Theorem npy_foreign_file_top : forall major nb pad descr isz (elem : list Z -> item) shape fortran,
  descr_ok descr -> itemsize descr = Some isz -> hlen_bytes major = Some nb ->
  Forall (fun s => 0 <= s) shape -> (forall q, List.length (elem q) = isz) ->
  Z.of_nat (List.length (print_hdr_c pad (mkhdr descr fortran (shape_nat shape)))) <= max_header_size ->
  let o := npy_foreign elem shape fortran in
  let file := obj_bytes_v major nb pad descr o in
  npy_read_file file = Ok (descr, o)
  /\ (existsb (Z.eqb major) cs_npy_read_versions = true -> s3_read_file file = Ok (descr, o))
  /\ forall (d : item) q, In q (enumerate shape) -> npy_decode d o q = elem q.
Proof.
  intros major nb pad descr isz elem shape fortran Hd Hi Hnb Hs He Hmax o file.
  assert (Hwf : wf_obj isz o).
  { unfold o, npy_foreign. split; [exact Hs|]. split.
    - rewrite map_length. unfold listing. destruct fortran; [|apply length_enumerate].
      unfold enumerate_f. rewrite map_length, length_enumerate. unfold count, shape_nat.
      rewrite map_rev, fold_right_rev_mul. reflexivity.
    - unfold items_ok. apply Forall_forall. intros it Hin. apply in_map_iff in Hin. destruct Hin as [q [<- _]]. apply He. }
  destruct (read_any_writer major nb pad descr isz o Hd Hi Hnb Hmax Hwf) as [H1 H2].
  split; [exact H1|]. split; [exact H2|].
  intros d q Hq. exact (npy_foreign_decode d elem shape fortran q Hq).
Qed.

(* two different chunks (dtype descriptor, order flag, shape or any element byte) never give the same file *)
Theorem obj_bytes_injective : forall d1 d2 i1 i2 o1 o2,
  descr_ok d1 -> descr_ok d2 -> itemsize d1 = Some i1 -> itemsize d2 = Some i2 ->
  hdr_small d1 o1 -> hdr_small d2 o2 -> wf_obj i1 o1 -> wf_obj i2 o2 ->
  obj_bytes d1 o1 = obj_bytes d2 o2 -> d1 = d2 /\ o1 = o2.
Proof.
  intros d1 d2 i1 i2 o1 o2 D1 D2 I1 I2 S1 S2 W1 W2 E.
  destruct (read_katdal_object d1 i1 o1 D1 I1 S1 W1) as [R1 _].
  destruct (read_katdal_object d2 i2 o2 D2 I2 S2 W2) as [R2 _].
  rewrite E, R2 in R1. inversion R1. split; reflexivity.
Qed.

(* get_chunk hands a file out only as the dtype and shape it was asked for (BadChunk otherwise, never data) *)
Theorem get_chunk_file_checked : forall s3 wd ws bs o,
  get_chunk_file s3 wd ws bs = (0, Some o) ->
  (if s3 then s3_read_file bs else npy_read_file bs) = Ok (wd, o)
  /\ exists fo body, o = NpyObj fo ws body.
Proof.
  intros s3 wd ws bs o H. unfold get_chunk_file in H.
  destruct (if s3 then s3_read_file bs else npy_read_file bs) as [[d [fo shape body]]|e]; [|discriminate].
  destruct (descr_eqb d wd) eqn:Ed; cbn [andb] in H; [|discriminate].
  destruct (zs_eq_dec shape ws) as [Es|]; [|discriminate].
  apply bytes_eqb_eq in Ed. inversion H. subst. split; [reflexivity|]. eauto.
Qed.

Theorem get_chunk_file_ok : forall s3 descr isz (elem : list Z -> item) shape lay,
  descr_ok descr -> itemsize descr = Some isz ->
  Forall (fun s => 0 <= s) shape -> (forall q, List.length (elem q) = isz) ->
  hdr_small descr (NpyObj false shape []) ->
  get_chunk_file s3 descr shape (npy_file descr elem shape lay)
  = (0, Some (NpyObj false shape (map elem (enumerate shape))))
  /\ (forall wd ws, wd <> descr \/ ws <> shape ->
      get_chunk_file s3 wd ws (npy_file descr elem shape lay) = (2, None)).
Proof.
  intros s3 descr isz elem shape lay Hd Hi Hs He Hsm.
  destruct (npy_file_round_trip_top descr isz elem shape lay Hd Hi Hs He Hsm) as [R1 [R2 _]].
  assert (R : (if s3 then s3_read_file (npy_file descr elem shape lay) else npy_read_file (npy_file descr elem shape lay))
              = Ok (descr, NpyObj false shape (map elem (enumerate shape)))) by (destruct s3; assumption).
  split.
  - unfold get_chunk_file. rewrite R. unfold descr_eqb. rewrite bytes_eqb_refl.
    destruct (zs_eq_dec shape shape); [reflexivity|congruence].
  - intros wd ws Hne. unfold get_chunk_file. rewrite R. unfold descr_eqb.
    destruct (bytes_eqb descr wd) eqn:Ed; cbn [andb]; [|reflexivity].
    apply bytes_eqb_eq in Ed. destruct (zs_eq_dec shape ws) as [Es|]; [|reflexivity].
    subst. destruct Hne; congruence.
Qed.

(* ---------- non-vacuity ---------- *)
(* a (2, 3) '<i2' chunk handed in Fortran layout: 128 bytes of header (118-byte text field), body 12 bytes in C order *)
Definition ex_descr : bytes := [60; 105; 50].
Definition ex_elem (q : list Z) : item := [ravel [2; 3] q; 0].
Example ex_file :
  let file := npy_file ex_descr ex_elem [2; 3] LayF in
  List.length file = 140%nat
  /\ firstn 10 file = [147; 78; 85; 77; 80; 89; 1; 0; 118; 0]
  /\ skipn 128 file = [0; 0; 1; 0; 2; 0; 3; 0; 4; 0; 5; 0]
  /\ nth 127 file 0 = 10
  /\ npy_read_file file = Ok (ex_descr, NpyObj false [2; 3] (map ex_elem (enumerate [2; 3])))
  /\ s3_read_file file = npy_read_file file.
Proof. vm_compute. repeat split; reflexivity. Qed.

(* a 0-d chunk: shape (), one element; and an empty chunk: shape (0, 2), no element *)
Example ex_file_0d :
  npy_read_file (npy_file ex_descr ex_elem [] LayC) = Ok (ex_descr, NpyObj false [] [[0; 0]])
  /\ s3_read_file (npy_file ex_descr ex_elem [0; 2] LayOther) = Ok (ex_descr, NpyObj false [0; 2] []).
Proof. vm_compute. split; reflexivity. Qed.

(* format 2.0, Fortran order, 16-byte alignment (numpy < 1.14): first index fastest in the body *)
Example ex_foreign :
  let o := npy_foreign ex_elem [2; 3] true in
  obj_body o = [0; 0; 3; 0; 1; 0; 4; 0; 2; 0; 5; 0]
  /\ s3_read_file (obj_bytes_v 2 4 5 ex_descr o) = Ok (ex_descr, o)
  /\ map (npy_decode [] o) (enumerate [2; 3]) = map ex_elem (enumerate [2; 3])
  /\ s3_read_file (obj_bytes_v 3 4 5 ex_descr o) = Err EValue.      (* format 3.0: np.load only *)
Proof. vm_compute. repeat split; reflexivity. Qed.
