(* C01: conversions per format, the static tie (tables re-translated from the source), non-vacuity examples for every
   format quirk, and the witnesses of the behaviour before the repairs of F8 / F17. *)
From Coq Require Import ZArith QArith List Bool String Lia.
From KV Require Import Base.Sx Base.Str Base.SelSlice Base.PySlice Base.AxisIndex Base.NdArray Gen.Generated
  Model.Flags Proofs.FlagsP Model.DataSet Proofs.DataSetBaseP Proofs.DataSetP.
From KV Require Model.Select Proofs.SelectP.
Import ListNotations.
Open Scope Z_scope.

(* ------------------------------------------------------------------ the static tie *)

Lemma attr_table_documented :
  ds_attr_table = [("shape", ("sum", "_time_keep,_freq_keep,_corrprod_keep"));
                   ("dumps", ("nonzero", "_time_keep")); ("channels", ("nonzero", "_freq_keep"));
                   ("freqs", ("index", "_freq_keep")); ("corr_products", ("index", "_corrprod_keep"))]%string.
Proof. reflexivity. Qed.

Lemma snapshot_static :
  forallb snd snapshot_closures_free_of_self = true /\ forallb snd snapshot_copies = true
  /\ forallb snd dup_final_dump_padded = true
  /\ map fst snapshot_copies = ["H5DataV1.corrprod_keep"; "VisibilityDataV4.flags_select"; "DaskLazyIndexer.keep";
                                "LazyIndexer.lookup"]%string
  /\ map fst dup_final_dump_padded = ["H5DataV2.timestamps"; "H5DataV2._vislike_indexer";
                                      "H5DataV3._vislike_indexer"]%string.
Proof. repeat split; reflexivity. Qed.

(* ------------------------------------------------------------------ conversions *)

Lemma conv_t_forms c t :
  (c_fmt c = V1 -> conv_t c t == (1 # 1000) * t + (1 # 2) * c_dump c + c_off c)%Q
  /\ (c_fmt c = V2 -> conv_t c t == t + (1 # 2) * c_dump c + c_off c)%Q
  /\ (c_fmt c = V3 -> conv_t c t == t + (if c_centroid c then 0 else (1 # 2) * c_cbf_dump c) + c_off c)%Q
  /\ (c_fmt c = V4 -> conv_t c t == t)%Q.
Proof.
  unfold conv_t. repeat split; intros ->; try destruct (c_centroid c); unfold lin3, coef;
    cbn [tconv_v1 tconv_v2 tconv_v3_centroid tconv_v3_start tconv_v4 fst snd Z.to_pos]; ring.
Qed.

Lemma conv_t_is_spec c t : (conv_t c t == spec_conv_t c t)%Q.
Proof.
  destruct (conv_t_forms c t) as [A [B [C D]]]. unfold spec_conv_t.
  destruct (c_fmt c); [apply A|apply B|apply C|apply D]; reflexivity.
Qed.

Lemma conv_vis c s :
  conv_of c s KVis = CVis (match c_fmt c with V1 | V2 => true | V3 => negb (c_upper c) | V4 => false end).
Proof. unfold conv_of. destruct (c_fmt c); reflexivity. Qed.

Lemma conv_flags c s :
  conv_of c s KFlags = CFlags (match c_fmt c with
                               | V1 => 0
                               | V2 => spec_mask_v2 (spec_wanted (atom_arg c (Select.flk s)))
                               | V3 | V4 => spec_mask_v34 (spec_wanted (atom_arg c (Select.flk s))) end).
Proof. unfold conv_of. destruct (c_fmt c); now rewrite ?mask_v34_bits, ?mask_v2_bits. Qed.

Lemma conv_weights c s :
  conv_of c s KWeights = CWeights (match c_fmt c with
                                   | V1 => false
                                   | V2 | V3 => weights_on ["precision"%string] (atom_arg c (Select.wk s))
                                   | V4 => true end).
Proof. unfold conv_of. destruct (c_fmt c); reflexivity. Qed.

Lemma conv_is_spec c s k : conv_of c s k = spec_conv_of c s k.
Proof.
  destruct k; [apply conv_vis|apply conv_flags|apply conv_weights|reflexivity|reflexivity].
Qed.

Lemma timestamps_is_spec c s : cfg_ok c -> wf c s -> zlen (c_ts c) = stored_rows c ->
  Forall2 Qeq (timestamps c s) (spec_timestamps c s).
Proof.
  intros Hc Hw Hl. unfold timestamps, spec_timestamps.
  destruct (acquire_nf c s KTime Hc Hw) as [A1 [A2 _]].
  pose proof (all2_fits_concat _ _ A1) as RT. fold (time_mask c s) in A2, RT.
  pose proof (time_rows_le c s Hc) as LE.
  rewrite (select_nth 0%Q (time_mask c s) (c_ts c) 0) by (unfold zlen in *; lia).
  fold (nonzero (time_mask c s)). rewrite A2. unfold dumps. rewrite map_map.
  induction (nonzero (Select.tk s)) as [|i r IH]; cbn [map]; constructor; [|exact IH].
  rewrite Z.sub_0_r. apply conv_t_is_spec.
Qed.

(* ------------------------------------------------------------------ non-vacuity examples *)

Definition ex_dump (t : Z) : Select.dump :=
  {| Select.d_ts := 4 * t; Select.d_scan := t / 2; Select.d_state := 1; Select.d_cscan := 0; Select.d_label := 1;
     Select.d_target := 0 |}.
(* 5 dumps, 3 channels, 4 correlation products of antennas 0 and 1 *)
Definition ex_obs : Select.obs :=
  {| Select.o_dumps := map ex_dump [0; 1; 2; 3; 4]; Select.o_half := 2;
     Select.o_targets := [{| Select.t_names := [0]; Select.t_tags := [0] |}];
     Select.o_freqs := [10; 14; 18]; Select.o_halfw := 2;
     Select.o_cps := [((0, 0), (0, 0)); ((0, 1), (0, 1)); ((0, 0), (1, 0)); ((1, 0), (1, 0))] |}.
Definition ex_atoms : list (Z * selarg) := [(0, SelStr "all"); (1, SelStr "cam"); (2, SelStr "")].
Definition ex_cfg (f : fmt) (dup upper centroid : bool) (ts : list Z) : cfg :=
  {| c_fmt := f; c_obs := ex_obs; c_dup := dup; c_upper := upper; c_centroid := centroid; c_segs := [2; 3];
     c_dump := 2; c_cbf_dump := 1 # 2; c_off := 0; c_ts := map inject_Z ts; c_atoms := ex_atoms |}.

Definition kw_dumps : Select.kwargs := [("dumps"%string, Select.VIdx (IxSlice (Some 1) (Some 4) None))].
Definition kw_ant0_stack : Select.kwargs :=
  [("ants"%string, Select.VAnts [(false, 0)]); ("reset"%string, Select.VStr "")].
Definition kw_flags_cam : Select.kwargs := [("flags"%string, Select.VAtom 1)].
Definition kw_weights_none : Select.kwargs := [("weights"%string, Select.VAtom 2)].
Definition kw_chan : Select.kwargs := [("channels"%string, Select.VIdx (IxList [0; 2]))].

Definition labels_of (r : res nd) : option (list Z * list Z) :=
  match r with Ok a => Some (nd_shape a, flatten (nd_body a)) | Err => None end.
Definition read (c : cfg) (h : list op) (id : nat) (ix2 : list aidx) : option (list Z * list Z) :=
  match run c (start c) h with
  | Some d => match nth_error (ds_ixs d) id with
              | Some x => labels_of (index (stored_labels x) x ix2)
              | None => None end
  | None => None
  end.
Definition final_shape (c : cfg) (h : list op) : option (list Z) :=
  option_map (fun d => shape (ds_sel d)) (run c (start c) h).

(* v1 (two scan groups of 2 and 3 dumps, timestamps in milliseconds): an indexer acquired under dumps 1..3 keeps
   delivering 3 dumps x 4 products after select(ants=..., reset='') has shrunk the data set to 2 products *)
Definition ex_v1 := ex_cfg V1 false true false [100000; 102000; 104000; 106000; 108000].
Definition ex_h1 := [OSelect kw_dumps; OAcquire KVis; OAcquire KTime; OSelect kw_ant0_stack; OSelect kw_chan].
Lemma example_v1 :
  cfg_ok ex_v1
  /\ read ex_v1 ex_h1 0 [full; AInt 1] = Some ([3; 1; 4], [16; 17; 18; 19; 28; 29; 30; 31; 40; 41; 42; 43])
  /\ read ex_v1 ex_h1 1 [] = Some ([3], [1; 2; 3])
  /\ final_shape ex_v1 ex_h1 = Some [3; 2; 2]
  /\ option_map (fun d => timestamps ex_v1 (ds_sel d)) (run ex_v1 (start ex_v1) ex_h1)
     = Some (map (conv_t ex_v1) [102000; 104000; 106000]%Q)
  /\ (conv_t ex_v1 102000 == 103)%Q
  /\ conv_of ex_v1 (Select.init ex_obs) KVis = CVis true.
Proof.
  split; [split; [repeat constructor; lia|reflexivity]|].
  split; [vm_compute; reflexivity|]. split; [vm_compute; reflexivity|]. split; [vm_compute; reflexivity|].
  split; [vm_compute; reflexivity|]. split; [vm_compute; reflexivity|reflexivity].
Qed.

(* v2 with a duplicate final dump: 6 stored rows for 5 dumps; the duplicate row (labels 60..71, timestamp index 5) is
   never delivered; timestamps move from the start to the middle of the dump; flags / weights indexers keep the
   flag / weight selection of their acquisition (v2 bit order: cam = bit 5) *)
Definition ex_v2 := ex_cfg V2 true true false [100; 102; 104; 106; 108; 108].
Definition ex_h2 := [OAcquire KVis; OAcquire KTime; OAcquire KFlags; OAcquire KWeights; OSelect kw_flags_cam;
                     OSelect kw_weights_none; OAcquire KFlags; OAcquire KWeights].
Lemma example_v2 :
  stored_rows ex_v2 = 6
  /\ read ex_v2 ex_h2 0 [ASlice (Some 3) None None; AInt 0; AInt 0] = Some ([2; 1; 1], [36; 48])
  /\ read ex_v2 ex_h2 1 [] = Some ([5], [0; 1; 2; 3; 4])
  /\ option_map (fun d => map ix_conv (ds_ixs d)) (run ex_v2 (start ex_v2) ex_h2)
     = Some [CVis true; CTime; CFlags 255; CWeights true; CFlags 32; CWeights false]
  /\ (conv_t ex_v2 100 == 101)%Q.
Proof. repeat split; vm_compute; reflexivity. Qed.

(* v3: lower sideband conjugates, upper does not; centroid timestamps are not shifted, others by half a CBF dump;
   duplicate final dump padded; flag bit order cam = bit 2 *)
Definition ex_v3 := ex_cfg V3 true false true [100; 102; 104; 106; 108; 108].
Definition ex_v3u := ex_cfg V3 false true false [100; 102; 104; 106; 108].
Lemma example_v3 :
  conv_of ex_v3 (Select.init ex_obs) KVis = CVis true /\ conv_of ex_v3u (Select.init ex_obs) KVis = CVis false
  /\ (conv_t ex_v3 100 == 100)%Q /\ (conv_t ex_v3u 100 == 100 + (1 # 4))%Q
  /\ read ex_v3 [OSelect kw_chan; OAcquire KWeights; OSelect []] 0 [AInt (-1)]
     = Some ([1; 2; 4], [48; 49; 50; 51; 56; 57; 58; 59])
  /\ read ex_v3 [OAcquire KTime] 0 [] = Some ([5], [0; 1; 2; 3; 4])
  /\ option_map (fun d => map ix_conv (ds_ixs d))
       (run ex_v3 (start ex_v3) [OAcquire KFlags; OSelect kw_flags_cam; OAcquire KFlags])
     = Some [CFlags 255; CFlags 4].
Proof. repeat split; vm_compute; reflexivity. Qed.

(* v4: stored samples as they are; raw flags; a mask as second-stage index *)
Definition ex_v4 := ex_cfg V4 false true false [100; 102; 104; 106; 108].
Lemma example_v4 :
  conv_of ex_v4 (Select.init ex_obs) KVis = CVis false /\ (conv_t ex_v4 100 == 100)%Q
  /\ read ex_v4 [OSelect kw_dumps; OAcquire KRaw; OSelect []]
       0 [AMask [true; false; true]; AList [2; 0]; ASlice None None (Some 2)]
     = Some ([2; 2; 2], [20; 22; 12; 14; 44; 46; 36; 38])
  /\ final_shape ex_v4 [OSelect kw_dumps; OAcquire KRaw; OSelect []] = Some [5; 3; 4].
Proof. repeat split; vm_compute; reflexivity. Qed.

(* ------------------------------------------------------------------ before the repairs *)

(* F8, v1: with the live corrprod mask the indexer acquired under 4 products answers with the 2 products of the
   current selection; the repaired model (and the spec) keep 4 *)
Definition live_read (c : cfg) (h : list op) (id : nat) (ix2 : list aidx) : option (list Z * list Z) :=
  match run c (start c) h with
  | Some d => match nth_error (ds_ixs d) id with
              | Some x => labels_of (index_live c (ds_sel d) (stored_labels x) x ix2)
              | None => None end
  | None => None
  end.

Lemma snapshot_refuted_before_fix_v1 :
  live_read ex_v1 ex_h1 0 [full; AInt 1] = Some ([3; 1; 2], [16; 17; 28; 29; 40; 41])
  /\ read ex_v1 ex_h1 0 [full; AInt 1] = Some ([3; 1; 4], [16; 17; 18; 19; 28; 29; 30; 31; 40; 41; 42; 43]).
Proof. split; vm_compute; reflexivity. Qed.

(* F8, v2 / v3: the flags (weights) indexer acquired under flags='all' (weights='all') applied the mask (weight
   selection) of the CURRENT selection *)
Lemma snapshot_refuted_before_fix_v23 :
  option_map (fun d => map (fun x => ix_conv (live ex_v3 (ds_sel d) x)) (ds_ixs d))
    (run ex_v3 (start ex_v3) [OAcquire KFlags; OAcquire KWeights; OSelect kw_flags_cam; OSelect kw_weights_none])
  = Some [CFlags 4; CWeights false]
  /\ option_map (fun d => map ix_conv (ds_ixs d))
    (run ex_v3 (start ex_v3) [OAcquire KFlags; OAcquire KWeights; OSelect kw_flags_cam; OSelect kw_weights_none])
  = Some [CFlags 255; CWeights true].
Proof. split; vm_compute; reflexivity. Qed.

(* F17, v2 with a duplicate final dump: the unpadded mask was used as integer positions; with 2 dumps of which the
   second is selected it answered with stored timestamps 0 and 1 instead of 1 (every other selection raised) *)
Definition ex_obs2 : Select.obs :=
  {| Select.o_dumps := map ex_dump [0; 1]; Select.o_half := 2; Select.o_targets := Select.o_targets ex_obs;
     Select.o_freqs := [10]; Select.o_halfw := 2; Select.o_cps := [((0, 0), (0, 0))] |}.
Definition ex_v2_f17 : cfg :=
  {| c_fmt := V2; c_obs := ex_obs2; c_dup := true; c_upper := true; c_centroid := false; c_segs := [];
     c_dump := 2; c_cbf_dump := 2; c_off := 0; c_ts := map inject_Z [100; 102; 102]; c_atoms := ex_atoms |}.
Definition kw_dump1 : Select.kwargs := [("dumps"%string, Select.VIdx (IxInt 1))].

Lemma timestamps_refuted_before_fix :
  (match Select.select ex_obs2 (Select.init ex_obs2) kw_dump1 with
   | Select.Ok s => labels_of (index_time_prefix ex_v2_f17 s (arange [3] 0) [])
   | _ => None end) = Some ([2], [0; 1])
  /\ read ex_v2_f17 [OSelect kw_dump1; OAcquire KTime] 0 [] = Some ([1], [1])
  /\ labels_of (index_time_prefix ex_v2_f17 (Select.init ex_obs2) (arange [3] 0) []) = None.
Proof. repeat split; vm_compute; reflexivity. Qed.
