(* C09: lemmas about Model/S3Retry.v *)
From Coq Require Import ZArith List Bool String Lia.
From KV Require Import Base.Sx Base.Str Gen.Generated Model.S3Retry.
Import ListNotations.
Open Scope Z_scope.

(* ---------- the translated tables, as the model sees them ---------- *)
Lemma convert_table : forall e, request_convert e =
  match e with
  | SocketTimeout => U3ReadTimeout
  | ConnectionReset | IncompleteReadX | ChunkedEncoding => U3Protocol
  | ReqConnReadTimeout => U3ReadTimeout
  | ReqConnMaxRetry _ => U3MaxRetry
  | e => e
  end.
Proof. destruct e; try destruct timeout; reflexivity. Qed.
